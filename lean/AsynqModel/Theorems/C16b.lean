import AsynqModel.Theorems.C16
/-!
# C16b  The observer of C16 is EXACT

`Theorems/C16.lean` proves that the model passes the Boolean observer `spec` that the check evaluates on the records
of the real implementation.  This file proves the other half, which is what makes a verdict of the observer mean
something on records that do NOT come from the model (the records of a changed library): the observer cannot accept
recorded runs in which some thread's records differ from its run alone.

* `firstDiff_none_iff` - the record comparison reports `none` exactly for equal lists (no difference is missed, at
  any position, of any length);
* `fullFind_none_iff`  - the last stage finds no thread exactly if EVERY thread below `k` has, under the concurrent
  schedule, literally the records of its run alone;
* `C16_spec_iff`       - the whole observer: `spec` accepts exactly if the structural stage `specCheckOwn` accepts
  AND every thread's records equal those of its run alone (the masked and the none_future stages only REFINE the
  reported clause, they never change the verdict);
* `C16_spec_exact`     - hence an accepted run is a run in which the property, as stated, held of the recorded histories.
-/
namespace AsynqModel.Threads

theorem firstDiff_none_iff (a b : List Rec) (i : Nat) : firstDiff a b i = none ↔ a = b := by
  induction a generalizing b i with
  | nil =>
    cases b with
    | nil => simp [firstDiff]
    | cons y ys => simp [firstDiff]
  | cons x xs ih =>
    cases b with
    | nil => simp [firstDiff]
    | cons y ys =>
      simp only [firstDiff]
      by_cases hxy : x = y
      · simp only [hxy, if_true, ih ys (i + 1), List.cons.injEq, true_and]
      · simp only [hxy, if_false, List.cons.injEq, false_and, reduceCtorEq]

theorem fullFind_none_iff (aloneRecs : List (List Rec)) (conc : List (ThreadId × Rec)) (k : Nat) :
    fullFind aloneRecs conc k = none ↔ ∀ t, t < k → aloneRecs.getD t [] = proj t conc := by
  induction k with
  | zero => simp [fullFind]
  | succ n ih =>
    simp only [fullFind]
    constructor
    · intro h t ht
      split at h
      · cases h
      · next hn =>
        split at h
        · next he =>
          rcases Nat.lt_succ_iff_lt_or_eq.mp ht with hlt | heq
          · exact ih.mp hn t hlt
          · exact heq ▸ he
        · cases h
    · intro h
      have hn : fullFind aloneRecs conc n = none := ih.mpr fun t ht => h t (Nat.lt_succ_of_lt ht)
      simp only [hn, h n (Nat.lt_succ_self n), if_true]

/-- **the verdict of the whole observer**: accepted exactly if the structural stage accepts and every thread's recorded
    history under the concurrent schedule is literally its history alone -/
theorem C16_spec_iff (perf : Bool) (k : Nat) (aloneRecs : List (List Rec)) (conc : List (ThreadId × Rec)) :
    spec perf k aloneRecs conc = true ↔
      (specCheckOwn perf k aloneRecs conc = none ∧ ∀ t, t < k → aloneRecs.getD t [] = proj t conc) := by
  rw [← fullFind_none_iff]
  constructor
  · intro h
    simp only [spec, specCheck] at h
    cases hown : specCheckOwn perf k aloneRecs conc with
    | some c => simp [hown] at h
    | none =>
      refine ⟨rfl, ?_⟩
      cases hfull : fullFind aloneRecs conc k with
      | none => rfl
      | some t =>
        simp only [hown, hfull] at h
        split at h
        · simp at h
        · split at h <;> simp at h
  · rintro ⟨hown, hfull⟩
    simp only [spec, specCheck, hown, maskedFind_none_of_fullFind _ _ k hfull, nfFind_none_of_fullFind _ _ k hfull,
      hfull, ite_self, Option.isNone_none]

/-- an accepted run is one in which no thread's recorded history was influenced by any other thread -/
theorem C16_spec_exact (perf : Bool) (k : Nat) (aloneRecs : List (List Rec)) (conc : List (ThreadId × Rec))
    (h : spec perf k aloneRecs conc = true) (t : ThreadId) (ht : t < k) : aloneRecs.getD t [] = proj t conc :=
  ((C16_spec_iff perf k aloneRecs conc).mp h).2 t ht

/-- and a single differing record of a single thread, anywhere in its history, is enough for a rejection -/
theorem C16_spec_rejects (perf : Bool) (k : Nat) (aloneRecs : List (List Rec)) (conc : List (ThreadId × Rec))
    (t : ThreadId) (ht : t < k) (hd : aloneRecs.getD t [] ≠ proj t conc) : spec perf k aloneRecs conc = false := by
  cases hs : spec perf k aloneRecs conc with
  | false => rfl
  | true => exact absurd (C16_spec_exact perf k aloneRecs conc hs t ht) hd

end AsynqModel.Threads
