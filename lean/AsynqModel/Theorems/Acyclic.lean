import AsynqModel.Proofs.P10Flag
import AsynqModel.Proofs.P10Rank
/-!
# Acyclicity of the await graph of the core machine (P10)

Theorems about every state reachable when all top-level computations are WELL-SCOPED (`P10.WSReach`,
`P10.WellScoped` = harness/coregen.py `well_scoped`; `P10.wellScoped_iff_goWS` relates it to the literal
transcription of the Python checker).

`P10.lt s y x`: future `y` strictly precedes future `x` in the POST-ORDER of the creation forest read off the ghost
lists `(s.task t).own` (children in creation order, all children before their parent).

* `acyclic_refs`   : whatever a task can name (`own` ∪ `inh`) precedes it; `lt s` is irreflexive and transitive.
* `acyclic_deps`   : hence `deps` and the leaves of `lastY` / `prevY` precede their task; `no_await_cycle`;
  `await_rank` (a Nat-valued rank strictly decreasing along the await graph) and `await_induction`.
* `no_reentrancy`  : the model is never stuck with "re-entrant task" (no `guardFired` hypothesis needed).
* `no_revisit_between_visits` : a task waiting for its second visit sits on the stack below entries that all
  precede it, and every nested `wait_for` root precedes it (needs `guardFired = false`).
* `no_stuck_wellscoped_partial` / `not_stuck_with` : the `fail` messages that remain possible / are impossible.
-/
namespace AsynqModel.Core
open AsynqModel.Core.P10

theorem wsreach_runFuel (cfg : Cfg) (tops : List (Conv × Body)) (choices : List (Nat × Nat))
    (h : ∀ p, p ∈ tops → WellScoped p.2 0 0 = true) (n : Nat) :
    WSReach (runFuel n (initState cfg tops choices)) := by
  suffices hs : ∀ s, WSReach s → WSReach (runFuel n s) from hs _ (WSReach.init cfg tops choices h)
  induction n with
  | zero => intro s h; exact h
  | succ n ih =>
    intro s h
    unfold runFuel
    split
    · exact h
    · exact ih _ (WSReach.step h)

/-- Invariant 1.  In every reachable state of a well-scoped program, every future a task can name - one it created
    (`own`) or one its parent handed over (`inh`) - strictly precedes the task in the post-order of the creation
    forest, which is a strict partial order.  The await graph is therefore acyclic. -/
theorem acyclic_refs (s : State) (h : WSReach s) :
    (∀ x y, (y ∈ (s.task x).own ∨ y ∈ (s.task x).inh) → lt s y x) ∧
    (∀ x, ¬ lt s x x) ∧
    (∀ a b c, lt s a b → lt s b c → lt s a c) :=
  ⟨fun _ _ hn => (ws_hinv h).1.named_lt hn, (ws_hinv h).1.irrefl, fun _ _ _ => lt_trans⟩

/-- what a task awaits (`_dependencies`), what it yielded last and the structure it may yield again all precede it -/
theorem acyclic_deps (s : State) (h : WSReach s) (x d : Nat)
    (hd : d ∈ (s.task x).deps ∨ d ∈ (s.task x).lastY.leaves ∨ d ∈ (s.task x).prevY.leaves) : lt s d x := by
  have hi := (ws_hinv h).1
  rcases hd with hd | hd | hd
  · exact hi.named_lt (hi.deps x d hd)
  · exact hi.named_lt (hi.lastY x d hd)
  · exact hi.named_lt (hi.prevY x d hd)

/-- no chain of `_dependencies` edges leads from a task back to itself -/
theorem no_await_cycle (s : State) (h : WSReach s) (x : Nat) :
    ¬ Relation.TransGen (fun a d => d ∈ (s.task a).deps) x x := by
  have key : ∀ a b, Relation.TransGen (fun a d => d ∈ (s.task a).deps) a b → lt s b a := by
    intro a b hab
    induction hab with
    | single h1 => exact acyclic_deps s h _ _ (.inl h1)
    | tail _ h2 ih => exact lt_trans (acyclic_deps s h _ _ (.inl h2)) ih
  intro hc
  exact (ws_hinv h).1.irrefl x (key x x hc)

/-- the order embeds into `(Nat, <)` on the futures that exist: a rank that strictly decreases from a task to
    everything it can name (hence to everything it awaits) -/
theorem await_rank (s : State) (h : WSReach s) :
    ∃ rank : Nat → Nat, (∀ x y, lt s y x → y < s.futs.length → rank y < rank x) ∧
      (∀ x y, (y ∈ (s.task x).own ∨ y ∈ (s.task x).inh) → rank y < rank x) ∧
      (∀ x d, d ∈ (s.task x).deps → rank d < rank x) := by
  have hi := (ws_hinv h).1
  obtain ⟨p, hp⟩ := hi.path
  refine ⟨rankOf s p, fun x y hl hy => rankOf_lt hp hl hy, fun x y hn => rankOf_lt hp (hi.named_lt hn) (hi.named_bound hn),
    fun x d hd => ?_⟩
  have hn := hi.deps x d hd
  exact rankOf_lt hp (hi.named_lt hn) (hi.named_bound hn)

/-- induction along the await graph: to prove `P` of every future it suffices to prove it of a task assuming it of
    all its dependencies -/
theorem await_induction (s : State) (h : WSReach s) (P : Nat → Prop)
    (step : ∀ x, (∀ d, d ∈ (s.task x).deps → P d) → P x) : ∀ x, P x := by
  obtain ⟨rank, _, _, hr⟩ := await_rank s h
  have key : ∀ n x, rank x < n → P x := by
    intro n
    induction n with
    | zero => intro x hx; cases hx
    | succ n ih =>
      intro x hx
      exact step x fun d hd => ih d (by have := hr x d hd; omega)
  intro x
  exact key (rank x + 1) x (Nat.lt_succ_self _)

/-- Item 2, state form: inside `_execute` the task on top of the scheduler stack - the one `_handle_async_task` is
    about to be given - is never a task whose generator is executing (has a `gen` frame on the Python stack). -/
theorem no_reentrancy_state (s : State) (h : WSReach s) (root base : Nat) (rest : List Ctl) (top : Nat)
    (st : List Nat) (hc : s.ctl = .waitLoop root base :: rest) (hlen : base < s.stack.length)
    (hst : s.stack = top :: st) :
    (s.ctl.any fun c => match c with | .gen u _ => u == top | _ => false) = false :=
  (ws_binv h).not_inGens (ws_hinv h).1 hc hlen hst

/-- every `fail` message of a reachable state is one of `P10.benignMsgs` or a "choice-not-allowed" -/
theorem stuck_benign (s : State) (h : WSReach s) (m : String) (hm : s.stuck = some m) : Benign m := by
  induction h generalizing m with
  | init cfg tops choices _ => simp [initState] at hm
  | @step s hs ih =>
    have hi := ws_hinv hs
    have stuckOf : ∀ {r : State}, HP0 s r → r.stuck = some m → Benign m := fun hp hr => by
      rcases hp.stuck m hr with h1 | h1
      · exact ih m h1
      · exact h1
    cases ws_step_sh hs with
    | same hp _ => exact stuckOf hp.toHP0 hm
    | top f _ hp _ _ => exact stuckOf (hp hi.2).toHP0 hm
    | popRaise _ hp _ => exact stuckOf hp.toHP0 hm
    | popEnter _ _ _ hp _ => exact stuckOf hp.toHP0 hm
    | enterLoop _ _ _ _ hp _ _ _ => exact stuckOf hp hm
    | guard _ _ _ _ e => rw [e] at hm; exact ih m hm
    | popStack _ _ _ _ _ _ _ _ _ hp _ _ _ _ => exact stuckOf hp hm
    | pushDeps _ _ _ _ _ _ _ _ _ _ hp _ _ _ _ _ _ => exact stuckOf hp hm
    | enterGen _ _ _ _ _ _ _ _ _ _ hp _ => exact stuckOf hp.toHP0 hm
    | reentrant root base rest top st hc _ hlen hst hin _ =>
      have := (ws_binv hs).not_inGens hi.1 hc hlen hst
      rw [this] at hin; cases hin
    | popLoop _ _ _ _ _ _ hp _ => exact stuckOf hp.toHP0 hm
    | flush _ _ _ _ _ _ hp _ => exact stuckOf hp.toHP0 hm
    | genLeave _ _ _ _ hp _ => exact stuckOf hp.toHP0 hm
    | genCall _ _ _ _ _ hp _ _ => exact stuckOf hp.toHP0 hm

/-- Item 2.  The model of a well-scoped program is never stuck with "re-entrant task": the real scheduler never
    re-enters a generator that is already executing ("ValueError: generator already executing" cannot happen). -/
theorem no_reentrancy (s : State) (h : WSReach s) : s.stuck ≠ some "re-entrant task" :=
  fun hm => (stuck_benign s h _ hm).ne_reentrant rfl

/-- Item 3.  While the MAX_TASK_STACK_SIZE guard has not fired, an uncomputed task that has scheduled its dependencies
    (`depsSched = true`: between its first and its second visit by `_handle_async_task`) is on the scheduler stack;
    every entry above its topmost entry strictly precedes it - so it is not there a second time, and the entry
    `_handle_async_task` meets next is the flagged one, reached only when everything pushed on its behalf is gone -
    and the root of every `wait_for` nested above that entry strictly precedes it - so the task is not such a root. -/
theorem no_revisit_between_visits (s : State) (h : WSReach s) (hg : s.guardFired = false) (x : Nat)
    (hf : (s.task x).depsSched = true) (hc : s.computed x = false) :
    ∃ pre post, s.stack = pre ++ x :: post ∧ (∀ e, e ∈ pre → lt s e x) ∧ x ∉ pre ∧
      (∀ r rest, s.ctl = .waitEnter r :: rest → lt s r x ∧ r ≠ x) ∧
      (∀ r b, Ctl.waitLoop r b ∈ s.ctl → post.length < b → lt s r x ∧ r ≠ x) := by
  have ci := ws_cinv h hg
  have hi := (ws_hinv h).1
  have hx : Flagged s x := ⟨hf, hc⟩
  obtain ⟨pre, post, hst, hpre⟩ := ci.pos x hx
  have hnp : x ∉ pre := fun hm => hi.irrefl x (hpre x hm)
  have hne : ∀ r, lt s r x → r ≠ x := fun r hl e => hi.irrefl x (e ▸ hl)
  refine ⟨pre, post, hst, hpre, hnp, ?_, ?_⟩
  · intro r rest hctl
    have := ci.enter r rest hctl x hx
    exact ⟨this, hne r this⟩
  · intro r b hm hb
    have : lt s r x := by
      refine ci.nested r b hm x hx ?_
      rw [hst]
      intro hin
      have hk : (pre ++ x :: post).length - b ≤ pre.length := by simp; omega
      have : x ∈ pre := by
        have h2 := List.take_append (l₁ := pre) (l₂ := x :: post) (i := (pre ++ x :: post).length - b)
        rw [h2] at hin
        rcases List.mem_append.1 hin with hin | hin
        · exact List.mem_of_mem_take hin
        · have : (pre ++ x :: post).length - b - pre.length = 0 := by omega
          rw [this] at hin; simp at hin
      exact hnp this
    exact ⟨this, hne r this⟩

/-- ... hence whatever `_handle_async_task` is given while `x` waits for its second visit is `x` itself at its flagged
    entry (nothing above it), or a future that strictly precedes `x`. -/
theorem handled_between_visits (s : State) (h : WSReach s) (hg : s.guardFired = false) (x top : Nat)
    (st : List Nat) (hst : s.stack = top :: st) (hf : (s.task x).depsSched = true) (hc : s.computed x = false) :
    (top = x ∧ ∃ post, s.stack = x :: post) ∨ lt s top x := by
  obtain ⟨pre, post, hpp, hpre, _⟩ := no_revisit_between_visits s h hg x hf hc
  cases pre with
  | nil =>
    rw [hst] at hpp
    simp at hpp
    exact .inl ⟨hpp.1, post, by rw [hst, hpp.1, hpp.2]⟩
  | cons a pre =>
    rw [hst] at hpp
    simp at hpp
    exact .inr (hpp.1 ▸ hpre a List.mem_cons_self)

/-- Item 4 (partial).  A well-scoped program can make the model stuck only through an inadmissible oracle choice or
    through the two `fail`s about the return from a synchronous `value()` call (left open, see `P10.benignMsgs`).
    Impossible: "re-entrant task", "flush of unknown batch", "no admissible batch", "unknown batch", "empty stack",
    "task completed twice", "no batch", "suspended task is not at a yield", "uncomputed constant future".
    Full statement (not proved): only the "choice-not-allowed" case remains, and never with the silent oracle. -/
theorem no_stuck_wellscoped_partial (s : State) (h : WSReach s) (m : String) (hm : s.stuck = some m) :
    m = "value() returned without an outcome" ∨
    m = "exception reached a generator that is not in a synchronous call" ∨
    ∃ a b : Nat, m = s!"choice-not-allowed ({a} {b})" := by
  rcases stuck_benign s h m hm with h1 | h1
  · simp only [benignMsgs, List.mem_cons, List.mem_nil_iff, or_false] at h1
    rcases h1 with h1 | h1
    · exact .inl h1
    · exact .inr (.inl h1)
  · exact .inr (.inr h1)

theorem choice_front (a b : Nat) : (s!"choice-not-allowed ({a} {b})").toList.head? = some 'c' := by
  simp only [String.toList_append]
  have h : (toString "choice-not-allowed (").toList = 'c' :: "hoice-not-allowed (".toList := by decide
  rw [h]
  rfl

/-- the excluded messages, one by one -/
theorem not_stuck_with (s : State) (h : WSReach s) (m : String)
    (hm : m ∈ ["re-entrant task", "flush of unknown batch", "no admissible batch", "unknown batch", "empty stack",
      "task completed twice", "no batch", "suspended task is not at a yield", "uncomputed constant future"]) :
    s.stuck ≠ some m := by
  intro hs
  rcases no_stuck_wellscoped_partial s h m hs with h1 | h1 | ⟨a, b, h1⟩
  · subst h1; revert hm; decide
  · subst h1; revert hm; decide
  · subst h1
    simp only [List.mem_cons, List.mem_nil_iff, or_false] at hm
    rcases hm with hm | hm | hm | hm | hm | hm | hm | hm | hm <;>
      (have := congrArg (fun x : String => x.toList.head?) hm
       simp only [choice_front] at this
       revert this
       decide)

/-! ### non-vacuity: a DAG program in which a child is handed an older sibling -/

/-- task A: awaits one batch item -/
def exA : Body := .item 0 1 .ok (.yld (.f (.own 0)) (.ret 2) .reraise)
/-- task B: awaits the future its parent handed over -/
def exB : Body := .yld (.f (.inh 0)) (.ret 3) .reraise
/-- the root creates A, then B (handing A to it), and awaits both: a diamond -/
def exDag : Body := .spawn exA [] (.spawn exB [.own 0] (.yld (.tup [.f (.own 0), .f (.own 1)]) (.ret 1) .reraise))
/-- the same with B handed nothing: `inh 0` names a future that does not exist -/
def exBad : Body := .spawn exA [] (.spawn exB [] (.yld (.tup [.f (.own 0), .f (.own 1)]) (.ret 1) .reraise))

def exState (n : Nat) : State := runFuel n (initState {} [(.value, exDag)] [])

example : WellScoped exDag 0 0 = true := by decide
example : WellScoped exBad 0 0 = false := by decide
example : goWS exDag 0 0 = some [] := by decide

theorem exState_reach (n : Nat) : WSReach (exState n) :=
  wsreach_runFuel {} _ [] (by intro p hp; simp at hp; subst hp; decide) n

/-- the run terminates without getting stuck and computes the root -/
example : (exState 60).isDone = true ∧ (exState 60).stuck = none ∧
    (exState 60).out 0 = some (.ok (.node 1 [.tup [.node 2 [.a 1001], .node 3 [.node 2 [.a 1001]]]])) := by decide

/-- root 0 created A = 1 and B = 2; B inherited A; A created the item 3 -/
example : ((exState 60).task 0).own = [1, 2] ∧ ((exState 60).task 2).inh = [1] ∧ ((exState 60).task 1).own = [3] := by
  decide

/-- so `acyclic_refs` says: the item precedes A, A precedes B (B was handed its older sibling), both precede the root -/
example : lt (exState 60) 3 1 ∧ lt (exState 60) 1 2 ∧ lt (exState 60) 2 0 ∧ lt (exState 60) 3 0 := by
  have h := acyclic_refs _ (exState_reach 60)
  have h31 : lt (exState 60) 3 1 := h.1 1 3 (.inl (by decide))
  have h12 : lt (exState 60) 1 2 := h.1 2 1 (.inr (by decide))
  have h20 : lt (exState 60) 2 0 := h.1 0 2 (.inl (by decide))
  exact ⟨h31, h12, h20, h.2.2 _ _ _ h31 (h.2.2 _ _ _ h12 h20)⟩

/-- after 20 steps the root, A and B all wait for their second visit; the stack is item, A, B, root: above each
    flagged entry only smaller futures (A is on the stack because B awaits it - the DAG case) -/
example : (exState 20).stack = [3, 1, 2, 0] ∧ (exState 20).guardFired = false ∧
    ((exState 20).task 0).depsSched = true ∧ ((exState 20).task 1).depsSched = true ∧
    ((exState 20).task 2).depsSched = true ∧ (exState 20).computed 2 = false := by decide

example : ∃ pre post, (exState 20).stack = pre ++ 2 :: post ∧ (∀ e, e ∈ pre → lt (exState 20) e 2) :=
  let ⟨pre, post, h1, h2, _⟩ := no_revisit_between_visits _ (exState_reach 20) (by decide) 2 (by decide) (by decide)
  ⟨pre, post, h1, h2⟩

/-- the hypothesis of `no_reentrancy_state` is met during the run -/
example : (exState 8).ctl = [.waitLoop 0 0] ∧ (exState 8).stack = [1, 2, 0] := by decide

/-- the hypothesis `WellScoped` is needed: in `exBad` the dangling `inh 0` resolves to future 0, the root, so B awaits
    its own parent - a cycle in the await graph; the scheduler livelocks with the root on the stack ABOVE its own
    flagged entry (what `no_revisit_between_visits` excludes) -/
def exBadState (n : Nat) : State := runFuel n (initState {} [(.value, exBad)] [])

example : 2 ∈ ((exBadState 40).task 0).deps ∧ 0 ∈ ((exBadState 40).task 2).deps ∧
    (exBadState 40).stack = [0, 2, 0] ∧ ((exBadState 40).task 0).depsSched = true ∧
    (exBadState 40).computed 0 = false ∧ (exBadState 40).guardFired = false ∧ (exBadState 80).isDone = false := by
  decide

/-- the case left in `no_stuck_wellscoped_partial` does occur: an oracle that names a batch that is not flushable -/
example : (runFuel 60 (initState {} [(.value, exDag)] [(9, 9)])).stuck = some "choice-not-allowed (9 9)" := by decide

end AsynqModel.Core
