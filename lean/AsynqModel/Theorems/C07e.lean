import AsynqModel.Theorems.C07d
/-!
# C07 for SHARED tasks: a read never comes from nowhere (third audit, `audit/AUDIT3-core.md` item 1)

`C07_shared_read_depends_on_scheduler` (Theorems/C07d.lean) shows that WHICH awaiter's override a shared task reads depends
on the flush order (the open known finding `fail:scoped-read-of-shared-task-depends-on-flush-order`; the real library behaves
the same way: family `sharedread`, harness/checks/corefam7.py + Drv/Families7.lean).  What is schedule-independent, and what
that family judges strictly as clause `shared-read-from-nowhere`, is the SET of values a read may have.  Here is the
model-level form, for every state of every run of well-scoped programs (guard not fired), shared tasks included:

* `C07_read_from_somewhere`: the value of a scoped variable is 0 (the default) or the value of an override of that variable
  which is an OPEN with-block of a LIVE task (uncomputed, contexts active) that is ON THE SCHEDULER'S TASK STACK.
* `C07_read_from_spine`: the sharper form - the task is on the spine, and the value is the FIRST such override along the
  spine's blocks (`spineOverride`); with `C07_spine_label_chain` the spine, while the code of `u` runs, is `u` followed by
  tasks that wait for `u` - so a read of a shared task is its own innermost override, else the innermost override of one of
  the chains of tasks awaiting it, else the default.
* `C07e_expect_cases`: the list lemma both rest on.

Both follow from `C07_read_value_dag` and the definition of `P29.spineOverride`; no new hypothesis.
-/
namespace AsynqModel.Core
open P7

/-- `expect s R v` is 0 or the value of an override of `v` among the contexts `R` -/
theorem C07e_expect_cases (s : State) (v : Nat) : ∀ R : List Nat,
    expect s R v = 0 ∨ ∃ c val, c ∈ R ∧ kindOf s c = .override v val ∧ expect s R v = val
  | [] => Or.inl rfl
  | c :: R => by
    have ih := C07e_expect_cases s v R
    have lift : (expect s R v = 0 ∨ ∃ c' val, c' ∈ R ∧ kindOf s c' = .override v val ∧ expect s R v = val) →
        (expect s R v = 0 ∨ ∃ c' val, c' ∈ c :: R ∧ kindOf s c' = .override v val ∧ expect s R v = val) := by
      intro h
      rcases h with h | ⟨c', val, hm, hk, he⟩
      · exact Or.inl h
      · exact Or.inr ⟨c', val, List.mem_cons_of_mem _ hm, hk, he⟩
    cases hk : kindOf s c with
    | plain => simp only [expect, hk]; exact lift ih
    | nonasync => simp only [expect, hk]; exact lift ih
    | override var val =>
      simp only [expect, hk]
      by_cases hv : v = var
      · subst hv
        simp only [if_true]
        exact Or.inr ⟨c, val, List.mem_cons_self, hk, rfl⟩
      · simp only [if_neg hv]; exact lift ih

/-- **C07_read_from_spine**: in every state of a run of well-scoped programs in which the guard has not fired, the value of
    a scoped variable is 0 or the value of an override that is an open with-block of a task on the spine -/
theorem C07_read_from_spine (s : State) (h : P10.WSReach s) (hg : s.guardFired = false) (var : Nat) :
    s.svGet var = 0 ∨ ∃ t c val, t ∈ P29.spine s ∧ c ∈ P29.openBlocks s t ∧ kindOf s c = .override var val ∧
      s.svGet var = val := by
  rw [C07_read_value_dag s h hg var]
  rcases C07e_expect_cases s var (P29.spineBlocks s) with h0 | ⟨c, val, hm, hk, he⟩
  · exact Or.inl h0
  · obtain ⟨t, ht, hc⟩ := List.mem_flatMap.mp hm
    exact Or.inr ⟨t, c, val, ht, hc, hk, he⟩

/-- **C07_read_from_somewhere** (the model-level form of clause `shared-read-from-nowhere`): every value read is 0 or the
    value of an open override of a live task (uncomputed, contexts active) that is on the scheduler's task stack -/
theorem C07_read_from_somewhere (s : State) (h : P10.WSReach s) (hg : s.guardFired = false) (var : Nat) :
    s.svGet var = 0 ∨ ∃ t c val, t ∈ s.stack ∧ P29.live s t = true ∧ c ∈ P29.openBlocks s t ∧
      kindOf s c = .override var val ∧ s.svGet var = val := by
  rcases C07_read_from_spine s h hg var with h0 | ⟨t, c, val, ht, hc, hk, he⟩
  · exact Or.inl h0
  · have hm := (mem_fo (p := P29.live s) (l := s.stack)).mp ht
    exact Or.inr ⟨t, c, val, hm.1, hm.2, hc, hk, he⟩

/-- non-vacuity on the witness of the finding (run 2 of `C07_shared_read_depends_on_scheduler`, the shared task's second
    resume): the value read is 11, the override of awaiter A (task 2, context 1), which is live and on the stack -/
example : (C07d_state [(1, 0)] 68).svGet 1 = 11 ∧ (2 : Nat) ∈ (C07d_state [(1, 0)] 68).stack ∧
    P29.live (C07d_state [(1, 0)] 68) 2 = true ∧ (1 : Nat) ∈ P29.openBlocks (C07d_state [(1, 0)] 68) 2 ∧
    kindOf (C07d_state [(1, 0)] 68) 1 = .override 1 11 := by
  and_intros <;> decide

/-- the default branch is real: before anything is overridden the value is 0 -/
example : (C07d_state [] 0).svGet 1 = 0 := by decide

end AsynqModel.Core
