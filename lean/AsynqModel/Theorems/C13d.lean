import AsynqModel.Theorems.C13
/-!
# C13d  The C13 observers check EVERY position of a recorded history

The three observers of C13 (`Alru.spec`, `PerInst.spec`, `Lazy.spec`) fold their `watchStep` over a list of operations
and the list of recorded observations.  For each of them: an accepted history - of any length and origin, also the
records of a changed library - was accepted by `watchStep` at every position, from the reference cache built by the
records before it.
-/
namespace AsynqModel.Cache

namespace Alru

theorem watchRun_append (rk : Call → Option Key) (bd : Call → Option (List Nat)) (cap : Nat) (w : Watch)
    (ops₁ ops₂ : List Op) (obs₁ obs₂ : List Obs) (hl : ops₁.length = obs₁.length) :
    watchRun rk bd cap w (ops₁ ++ ops₂) (obs₁ ++ obs₂) = (match watchRun rk bd cap w ops₁ obs₁ with
      | .ok w' => watchRun rk bd cap w' ops₂ obs₂
      | .error e => .error e) := by
  induction ops₁ generalizing w obs₁ with
  | nil =>
    cases obs₁ with
    | nil => simp [watchRun]
    | cons _ _ => simp at hl
  | cons op ops ih =>
    cases obs₁ with
    | nil => simp at hl
    | cons ob obs =>
      simp only [List.cons_append, watchRun]
      cases watchStep rk bd cap w op ob with
      | error e => rfl
      | ok w' => exact ih w' obs (by simpa using hl)

/-- every record of an accepted alru_cache history was accepted by `watchStep` from the reference cache of its predecessors -/
theorem C13_alru_spec_every_step (rk : Call → Option Key) (bd : Call → Option (List Nat)) (cap : Nat)
    (ops₁ ops₂ : List Op) (obs₁ obs₂ : List Obs) (op : Op) (ob : Obs) (hl : ops₁.length = obs₁.length)
    (h : spec rk bd cap (ops₁ ++ op :: ops₂) (obs₁ ++ ob :: obs₂) = true) :
    ∃ w w', watchRun rk bd cap { entries := [], runs := 0 } ops₁ obs₁ = .ok w ∧ watchStep rk bd cap w op ob = .ok w' := by
  simp only [spec, watchRun_append _ _ _ _ _ _ _ _ hl] at h
  cases hw : watchRun rk bd cap { entries := [], runs := 0 } ops₁ obs₁ with
  | error e => simp [hw] at h
  | ok w =>
    simp only [hw, watchRun] at h
    cases hs : watchStep rk bd cap w op ob with
    | error e => simp [hs] at h
    | ok w' => exact ⟨w, w', rfl, hs⟩

end Alru

namespace PerInst

theorem watchRun_append (rk : Call → Option Key) (bd : Call → Option (List Nat)) (w : Watch)
    (ops₁ ops₂ : List Op) (obs₁ obs₂ : List Obs) (hl : ops₁.length = obs₁.length) :
    watchRun rk bd w (ops₁ ++ ops₂) (obs₁ ++ obs₂) = (match watchRun rk bd w ops₁ obs₁ with
      | .ok w' => watchRun rk bd w' ops₂ obs₂
      | .error e => .error e) := by
  induction ops₁ generalizing w obs₁ with
  | nil =>
    cases obs₁ with
    | nil => simp [watchRun]
    | cons _ _ => simp at hl
  | cons op ops ih =>
    cases obs₁ with
    | nil => simp at hl
    | cons ob obs =>
      simp only [List.cons_append, watchRun]
      cases watchStep rk bd w op ob with
      | error e => rfl
      | ok w' => exact ih w' obs (by simpa using hl)

/-- every record of an accepted acached_per_instance history was accepted by `watchStep` from the reference cache of its predecessors -/
theorem C13_perinst_spec_every_step (rk : Call → Option Key) (bd : Call → Option (List Nat))
    (ops₁ ops₂ : List Op) (obs₁ obs₂ : List Obs) (op : Op) (ob : Obs) (hl : ops₁.length = obs₁.length)
    (h : spec rk bd (ops₁ ++ op :: ops₂) (obs₁ ++ ob :: obs₂) = true) :
    ∃ w w', watchRun rk bd watchInit ops₁ obs₁ = .ok w ∧ watchStep rk bd w op ob = .ok w' := by
  simp only [spec, watchRun_append _ _ _ _ _ _ _ hl] at h
  cases hw : watchRun rk bd watchInit ops₁ obs₁ with
  | error e => simp [hw] at h
  | ok w =>
    simp only [hw, watchRun] at h
    cases hs : watchStep rk bd w op ob with
    | error e => simp [hs] at h
    | ok w' => exact ⟨w, w', rfl, hs⟩

end PerInst

namespace Lazy

theorem watchRun_append (ttl : Nat) (w : Watch)
    (ops₁ ops₂ : List Op) (obs₁ obs₂ : List Obs) (hl : ops₁.length = obs₁.length) :
    watchRun ttl w (ops₁ ++ ops₂) (obs₁ ++ obs₂) = (match watchRun ttl w ops₁ obs₁ with
      | .ok w' => watchRun ttl w' ops₂ obs₂
      | .error e => .error e) := by
  induction ops₁ generalizing w obs₁ with
  | nil =>
    cases obs₁ with
    | nil => simp [watchRun]
    | cons _ _ => simp at hl
  | cons op ops ih =>
    cases obs₁ with
    | nil => simp at hl
    | cons ob obs =>
      simp only [List.cons_append, watchRun]
      cases watchStep ttl w op ob with
      | error e => rfl
      | ok w' => exact ih w' obs (by simpa using hl)

/-- every record of an accepted alazy_constant history was accepted by `watchStep` from the reference state of its predecessors -/
theorem C13_lazy_spec_every_step (ttl t0 : Nat)
    (ops₁ ops₂ : List Op) (obs₁ obs₂ : List Obs) (op : Op) (ob : Obs) (hl : ops₁.length = obs₁.length)
    (h : spec ttl t0 (ops₁ ++ op :: ops₂) (obs₁ ++ ob :: obs₂) = true) :
    ∃ w w', watchRun ttl { stored := none, now := t0, runs := 0 } ops₁ obs₁ = .ok w ∧ watchStep ttl w op ob = .ok w' := by
  simp only [spec, watchRun_append _ _ _ _ _ _ hl] at h
  cases hw : watchRun ttl { stored := none, now := t0, runs := 0 } ops₁ obs₁ with
  | error e => simp [hw] at h
  | ok w =>
    simp only [hw, watchRun] at h
    cases hs : watchStep ttl w op ob with
    | error e => simp [hs] at h
    | ok w' => exact ⟨w, w', rfl, hs⟩

end Lazy

end AsynqModel.Cache
