import AsynqModel.Proofs.P9Runs
/-
  C20: "Debug, dump and profiling options never change behaviour" - the machine part.

  Of asynq's `_debug.options` only KEEP_DEPENDENCIES (`cfg.keepDeps`) and MAX_TASK_STACK_SIZE (`cfg.maxStack`) exist
  in the machine; every DUMP_* flag, COLLECT_PERF_STATS and ENABLE_COMPLEX_ASSERTIONS are no-ops by construction
  (`step` never reads anything else of `cfg` than `kinds`, `keepDeps`, `maxStack`: see `C20_cfg_reads`).

  WHAT IS TRUE, AND WHY THE STATEMENT HAS THIS SHAPE (found by evaluation first, see the examples at the end):
  * The two runs are NOT in lock-step.  With KEEP_DEPENDENCIES `_dependencies` is never cleared, so a `yield None`
    (or a yield of an empty structure) after an earlier real yield finds `len(self._dependencies) > 0`, leaves
    `_continue`, and the very next iteration of `_execute` re-enters the generator of the same task (it is still on
    top of the stack and everything in `_dependencies` is computed).  Without the option `_continue` just loops.
    The run with the option therefore takes two steps more; no event is emitted in them.  So the theorems relate
    `runFuel n0` of the default run with `runFuel n1` of the option run, `n0 ≤ n1 ≤ 2 * n0`.
  * Once the MAX_TASK_STACK_SIZE guard has fired the runs genuinely differ (`C20_guard_counterexample`): the guard
    empties the task stack while generators are still running, and then the "leave and re-enter" of the option run
    goes through `_execute`'s outer loop (pause/resume of contexts, possibly a batch flush) instead of straight back
    into the generator.  Hence the hypothesis `guardFired = false`.
  * What coincides: the traces after the driver's normalisation `P9.norm` (`handle20` in Drv/Core.lean), `stuck`,
    every future's outcome, `isDone`, `guardFired` (`P9.Obs`); in matched states even the whole state up to the
    residue the option leaves behind (`P9.P`: `deps` beyond the last yield, the `items` of flushed batches,
    `depsSched` of running tasks).
-/
namespace AsynqModel.Core
open AsynqModel.Core.P9

/-- C20, forward: every state of the run with default options is matched by a state of the run with
    KEEP_DEPENDENCIES, reached after at least as many and at most twice as many steps: equal projections
    (so equal normalised traces, outcomes, `stuck`, `isDone`).  Hypothesis: the guard has not fired. -/
theorem C20_keepdeps_inert (cfg : Cfg) (tops : List (Conv × Body)) (choices : List (Nat × Nat)) (n0 : Nat)
    (hg : (runFuel n0 (initState { cfg with keepDeps := false } tops choices)).guardFired = false) :
    ∃ n1, n0 ≤ n1 ∧ n1 ≤ 2 * n0 ∧
      P (runFuel n0 (initState { cfg with keepDeps := false } tops choices)) =
        P (runFuel n1 (initState { cfg with keepDeps := true } tops choices)) ∧
      Obs (runFuel n0 (initState { cfg with keepDeps := false } tops choices))
        (runFuel n1 (initState { cfg with keepDeps := true } tops choices)) := by
  obtain ⟨n1, h1, h2, hs⟩ := forward _ _ (sim_init cfg tops choices) n0 hg
  exact ⟨n1, h1, h2, hs.proj, hs.obs⟩

/-- C20, backward: every state of the run with KEEP_DEPENDENCIES (the two silent intermediate states included)
    shows the observer what some state of the default run shows, reached in no more steps. -/
theorem C20_keepdeps_inert_conv (cfg : Cfg) (tops : List (Conv × Body)) (choices : List (Nat × Nat)) (n1 : Nat)
    (hg : (runFuel n1 (initState { cfg with keepDeps := true } tops choices)).guardFired = false) :
    ∃ n0, n0 ≤ n1 ∧
      Obs (runFuel n0 (initState { cfg with keepDeps := false } tops choices))
        (runFuel n1 (initState { cfg with keepDeps := true } tops choices)) :=
  backward _ _ (sim_init cfg tops choices) n1 hg

/-- C20 for complete runs (what check C20 compares): if the default run has finished within `n` steps without
    the guard firing, the run with KEEP_DEPENDENCIES has finished within `2 * n` steps, and with any fuel `m ≥ 2 * n`
    it ends with the same normalised trace, the same outcomes, the same `stuck`. -/
theorem C20_keepdeps_complete (cfg : Cfg) (tops : List (Conv × Body)) (choices : List (Nat × Nat)) (n m : Nat)
    (hd : (runFuel n (initState { cfg with keepDeps := false } tops choices)).isDone = true)
    (hg : (runFuel n (initState { cfg with keepDeps := false } tops choices)).guardFired = false)
    (hm : 2 * n ≤ m) :
    Obs (runFuel n (initState { cfg with keepDeps := false } tops choices))
      (runFuel m (initState { cfg with keepDeps := true } tops choices)) := by
  obtain ⟨n1, _, h2, _, ho⟩ := C20_keepdeps_inert cfg tops choices n hg
  have hd1 : (runFuel n1 (initState { cfg with keepDeps := true } tops choices)).isDone = true := by
    rw [← ho.done]; exact hd
  have : m = n1 + (m - n1) := by omega
  rw [this, runFuel_stable _ _ _ hd1]
  exact ho

/-- C20, MAX_TASK_STACK_SIZE: a run in which the guard does not fire is, state by state, the run with any larger
    limit (in particular the default 1000000) - the states differ in `cfg.maxStack` only. -/
theorem C20_maxstack_inert (cfg : Cfg) (tops : List (Conv × Body)) (choices : List (Nat × Nat)) (M n : Nat)
    (hM : cfg.maxStack ≤ M) (hg : (runFuel n (initState cfg tops choices)).guardFired = false) :
    ∀ k, k ≤ n →
      runFuel k (initState { cfg with maxStack := M } tops choices) =
        { runFuel k (initState cfg tops choices) with cfg := { cfg with maxStack := M } } := by
  intro k hk
  have h := maxstack_run cfg tops choices M k hM (guard_run_mono _ n k hk hg)
  rw [h]
  show setM M _ = _
  unfold setM
  rw [cfg_run]
  rfl

/-- the same, for the observer -/
theorem C20_maxstack_trace (cfg : Cfg) (tops : List (Conv × Body)) (choices : List (Nat × Nat)) (M n : Nat)
    (hM : cfg.maxStack ≤ M) (hg : (runFuel n (initState cfg tops choices)).guardFired = false) :
    (runFuel n (initState { cfg with maxStack := M } tops choices)).trace = (runFuel n (initState cfg tops choices)).trace ∧
    (runFuel n (initState { cfg with maxStack := M } tops choices)).stuck = (runFuel n (initState cfg tops choices)).stuck ∧
    (runFuel n (initState { cfg with maxStack := M } tops choices)).guardFired = false := by
  rw [C20_maxstack_inert cfg tops choices M n hM hg n (Nat.le_refl _)]
  exact ⟨rfl, rfl, hg⟩

/-- C20, "the other options are not in the machine": a step reads nothing of `cfg` but `kinds`, `keepDeps` and
    `maxStack`; and `maxStack` only decides whether the guard fires.  (A `Cfg` has no other fields: the DUMP_*,
    COLLECT_PERF_STATS and ENABLE_COMPLEX_ASSERTIONS options have no counterpart at all - that modelling claim is tied
    to the code by the differential runs of check C20.)  Stated as: `step` commutes with replacing `maxStack`. -/
theorem C20_cfg_reads (s : State) (M : Nat) (hg : (step s).guardFired = false) (hM : s.cfg.maxStack ≤ M) :
    step { s with cfg := { s.cfg with maxStack := M } } = { step s with cfg := { s.cfg with maxStack := M } } := by
  have h := M_step M s hg hM
  unfold setM at h
  rw [h, cfg_step]

/-! ### non-vacuity -/

/-- item; yield it (blocks); `yield None`; return -/
def C20_prog : Body := .item 0 7 .ok (.yld (.f (.own 0)) (.yld .none (.ret 1) (.ret 2)) (.ret 3))

def C20_run (kd : Bool) (n : Nat) : State := runFuel n (initState { keepDeps := kd } [(.value, C20_prog)] [])

/-- for `decide`: drop the two payloads that are computed with `List.mergeSort` (which the kernel cannot unfold) -/
def C20_strip : Event → Event
  | .flushB k q its p _ => .flushB k q its p []
  | .svals _ => .svals []
  | e => e

def C20_isCtx : Event → Bool
  | .ctx _ _ => true
  | _ => false

-- the default run is complete after 19 steps, the run with KEEP_DEPENDENCIES after 20: one stutter
example : (C20_run false 19).isDone = true ∧ (C20_run false 18).isDone = false ∧
    (C20_run true 20).isDone = true ∧ (C20_run true 19).isDone = false := by decide
example : (C20_run false 19).guardFired = false ∧ (C20_run false 19).stuck = none := by decide
-- so the theorem applies: equal normalised traces, outcomes, ...
example : Obs (C20_run false 19) (C20_run true 38) :=
  C20_keepdeps_complete {} [(.value, C20_prog)] [] 19 38 (by decide) (by decide) (by decide)
example : (C20_run false 19).trace.map norm = (C20_run true 38).trace.map norm :=
  (C20_keepdeps_complete {} [(.value, C20_prog)] [] 19 38 (by decide) (by decide) (by decide)).trace
-- and by evaluation
example : (C20_run false 19).trace.map C20_strip = (C20_run true 20).trace.map C20_strip := by decide +kernel
-- the stutter: after 14 steps the default run is inside the generator, the other run has left it ...
example : (C20_run false 14).ctl = [.gen 0 none, .waitLoop 0 0] ∧ (C20_run true 14).ctl = [.waitLoop 0 0] ∧
    (C20_run false 14).trace.map C20_strip = (C20_run true 14).trace.map C20_strip := by decide
-- ... and is back one step later (state 15 of the option run is state 14 of the default run, up to the residue)
example : (C20_run true 15).ctl = [.gen 0 none, .waitLoop 0 0] ∧ (C20_run true 15).active = some 0 ∧
    (C20_run true 15).stack = (C20_run false 14).stack ∧
    (C20_run true 15).trace.map C20_strip = (C20_run false 14).trace.map C20_strip := by decide
example : Event.yield 0 1 .none ∈ (C20_run true 14).trace := by decide
-- the residue is real: `deps` still holds the computed item, the flushed batch its items
example : ((C20_run true 15).task 0).deps = [1] ∧ ((C20_run false 14).task 0).deps = [] ∧
    (C20_run true 15).batches = [{ kind := 0, seq := 0, items := [1], flushed := true }, { kind := 0, seq := 1 }] ∧
    (C20_run false 14).batches = [{ kind := 0, seq := 0, flushed := true }, { kind := 0, seq := 1 }] := by decide

/-- the guard hypothesis cannot be dropped: `R` opens a context and awaits `T`; `T` awaits an item, then calls `C`
    synchronously; inside that call the stack exceeds MAX_TASK_STACK_SIZE = 4 and the guard resets the scheduler;
    `T` catches the RuntimeError and yields `None`.  With KEEP_DEPENDENCIES `T` leaves its generator, `_execute`
    finds `R` blocked: `R`'s context is paused and resumed once more than in the default run. -/
def C20_C : Body := .item 0 1 .ok (.item 0 2 .ok (.yld (.tup [.f (.own 0), .f (.own 1)]) (.ret 5) (.ret 6)))
def C20_T : Body := .item 0 7 .ok (.yld (.f (.own 0)) (.sync C20_C [] (.ret 1) (.yld .none (.ret 2) (.ret 3))) (.ret 4))
def C20_R : Body := .withCtx .plain (.spawn C20_T [] (.yld (.f (.own 0)) .endwith .endwith)) (.ret 9)

def C20_guardRun (kd : Bool) (M : Nat) : State :=
  runFuel 300 (initState { keepDeps := kd, maxStack := M } [(.value, C20_R)] [])

theorem C20_guard_counterexample :
    (C20_guardRun false 4).isDone = true ∧ (C20_guardRun true 4).isDone = true ∧
    (C20_guardRun false 4).guardFired = true ∧
    (C20_guardRun false 4).trace.map norm ≠ (C20_guardRun true 4).trace.map norm := by
  refine ⟨by decide, by decide, by decide, ?_⟩
  intro h
  have h1 : (((C20_guardRun false 4).trace.map norm).filter C20_isCtx).length = 4 := by decide
  have h2 : (((C20_guardRun true 4).trace.map norm).filter C20_isCtx).length = 6 := by decide
  rw [h] at h1
  rw [h1] at h2
  cases h2

-- with the default limit the same program behaves the same under both settings (the guard does not fire)
example : (C20_guardRun false 1000000).guardFired = false ∧
    (C20_guardRun false 1000000).trace.map C20_strip = (C20_guardRun true 1000000).trace.map C20_strip := by
  decide +kernel

-- MAX_TASK_STACK_SIZE: with limit 5 the guard does not fire on this program, and the run is the run with 1000000
example : (C20_guardRun false 5).guardFired = false ∧ (C20_guardRun false 5).isDone = true := by decide
example : (C20_guardRun false 1000000).trace = (C20_guardRun false 5).trace :=
  (C20_maxstack_trace { keepDeps := false, maxStack := 5 } [(.value, C20_R)] [] 1000000 300 (by decide) (by decide)).1

end AsynqModel.Core
