import AsynqModel.Lib.Generator
import AsynqModel.Proofs.Generator
import AsynqModel.Proofs.GeneratorRel
/-!
# C17  Async generators deliver their Values in order, and only those

Theorems about the model `AsynqModel.Generator` of asynq/generator.py, for every generator body (any list of
`await` / `value v` steps), every `n` and every history of caller operations.

History: `take_first(gen, 0)` used to be `list_of_generator(gen)` (`i == n - 1` is never true for `n = 0`); this check
found it, /repo fixed it (`if n <= 0: return ret` before the loop), and the model has the fixed code.  All clauses
now hold without side conditions.
-/
namespace AsynqModel.Generator

/-- `list_of_generator` of a fresh generator returns exactly its Values in program order, having pulled every
    item of the body and run the underlying generator to its end - for every body -/
theorem C17_list (b : Body) :
    (listOf (init b)).2 = .lst ((values b).map .val) ∧ (listOf (init b)).1.rest = [] ∧
      (listOf (init b)).1.pulled = b.length ∧ (listOf (init b)).1.stopped = true := by
  obtain ⟨lt', p', e, hp, _⟩ := listOf_spec b 0 false none [] rfl (by simp)
  have : init b = ⟨b, 0, false, none, []⟩ := rfl
  rw [this, e]
  simp [hp]

/-- for every body and every `n`: `take_first(gen, n)` returns the first `n` Values (all of them if there are
    fewer, none for `n = 0`) and leaves the underlying generator exactly behind the n-th Value (`dropValues n b`):
    nothing after it has been pulled, and the generator has been run to its end only if `n ≥ 1` and it has fewer
    than `n` Values -/
theorem C17_take (b : Body) (n : Nat) :
    (takeFirst (init b) n).2 = .lst (((values b).take n).map .val) ∧
      (takeFirst (init b) n).1.rest = dropValues n b ∧
      (takeFirst (init b) n).1.pulled + (dropValues n b).length = b.length ∧
      (takeFirst (init b) n).1.stopped = decide ((values b).length < n) := by
  cases n with
  | zero => simp [takeFirst_zero, init, dropValues]
  | succ m =>
    obtain ⟨lt', p', e, hp, _⟩ := takeFirst_spec b m 0 false none [] rfl (by simp)
    have : init b = ⟨b, 0, false, none, []⟩ := rfl
    rw [this, e]
    simp at hp ⊢
    exact hp

/-- `take_first(gen, 0)` returns `[]` and leaves the generator completely untouched - in every state, also while a
    previously returned task is uncomputed (the guard lives in `send()`, which is never reached) -/
theorem C17_take_zero (s : St) : takeFirst s 0 = (s, .lst []) := takeFirst_zero s

/-- END_OF_GENERATOR never appears in the result of `take_first` or `list_of_generator` - for every state of the
    generator whatsoever and every `n` (including 0) -/
theorem C17_no_marker (s : St) (n : Nat) :
    (takeFirst s n).2.hasMarker = false ∧ (listOf s).2.hasMarker = false :=
  ⟨by cases n with
      | zero => simp [takeFirst_zero, Res.hasMarker]
      | succ m => simpa [takeFirst] using takeLoop_noMarker _ (m + 1) 0 s [] rfl,
    listLoop_noMarker _ s [] rfl⟩

/-- a task that `next()` returned uncomputed arms the guard, and while it is not computed every way of advancing
    the generator (`next`, `take_first` with `n ≥ 1`, `list_of_generator`) raises RuntimeError and changes nothing -/
theorem C17_guard (s : St) :
    ((next s).2 = .fut none → (next s).1.blocked = true) ∧
    (s.blocked = true → next s = (s, .raised .runtimeError) ∧ listOf s = (s, .raised .runtimeError) ∧
      ∀ m, takeFirst s (m + 1) = (s, .raised .runtimeError)) := by
  refine ⟨?_, fun hb => ⟨next_blocked s hb, listOf_blocked s hb, fun m => takeFirst_blocked s m hb⟩⟩
  obtain ⟨rest, pulled, stopped, lt, futs⟩ := s
  cases hb : blockedBy lt futs with
  | true => simp [next, send, blocked_eq, hb]
  | false =>
    cases stopped with
    | true => simp [next, send, blocked_eq, hb]
    | false =>
      cases rest with
      | nil => simp [next, send, blocked_eq, hb, getOneValue]
      | cons x r =>
        cases x with
        | value v => simp [next, send, blocked_eq, hb, getOneValue]
        | await bb => simp [next, send, blocked_eq, hb, getOneValue]; simp [blockedBy]

/-- the guard stays armed until the task is COMPUTED: a task returned by `next()` that has started and is parked
    on a future that needs a batch flush (`startTask` gives `none`) is not computed - `last_task` is untouched by
    `_send_inner`, so every way of advancing the generator is still refused (RuntimeError; `take_first(gen, 0)` returns
    `[]`) and changes nothing; and if the task did run to its end before the sibling, it is computed exactly as
    `_send_inner` run to completion computes it - for every state, every k and every first-await kind -/
theorem C17_guard_started (s : St) (k : Nat) (b : Bool) (hk : s.futs[k]? = some (.pending b))
    (hl : s.lastTask = some (.handle k)) :
    (∀ s1, startTask s b = (s1, none) →
      s1.blocked = true ∧ s1.lastTask = s.lastTask ∧ s1.futs = s.futs ∧
      (∀ a : Adv, stepBasic s1 a.toOp = (s1, refused a)) ∧ sendInner s1 = sendInner s) ∧
    (∀ s1 x, startTask s b = (s1, some x) → sendInner s = (s1, x)) := by
  have hsp := startTask_spec b s.rest s.pulled s.stopped s.lastTask s.futs
  have hs : (⟨s.rest, s.pulled, s.stopped, s.lastTask, s.futs⟩ : St) = s := rfl
  rw [hs] at hsp
  refine ⟨fun s1 h1 => ?_, hsp.1⟩
  obtain ⟨hl1, hf1, hsi⟩ := hsp.2 s1 h1
  have hb1 : s1.blocked = true := by simp [St.blocked, hl1, hf1, hl, hk]
  exact ⟨hb1, hl1, hf1, fun a => adv_blocked s1 a hb1, hsi⟩

/-- once `next()` has raised StopIteration it raises StopIteration forever, without touching the generator -/
theorem C17_exhausted (s : St) (h : (next s).2 = .raised .stopIteration) (k : Nat) :
    next (Nat.repeat (fun t => (next t).1) k (next s).1) = ((next s).1, .raised .stopIteration) := by
  have key : ∀ t : St, t.blocked = false → t.stopped = true → next t = (t, .raised .stopIteration) := by
    intro t hb hs; simp [next, send, hb, hs]
  have h1 : (next s).1.blocked = false ∧ (next s).1.stopped = true := by
    obtain ⟨rest, pulled, stopped, lt, futs⟩ := s
    cases hb : blockedBy lt futs with
    | true => simp [next, send, blocked_eq, hb] at h
    | false =>
      cases stopped with
      | true => simp [next, send, blocked_eq, hb]
      | false =>
        cases rest with
        | nil => simp [next, send, blocked_eq, hb, getOneValue]
        | cons x r => cases x <;> simp [next, send, blocked_eq, hb, getOneValue] at h
  have h2 : ∀ k, Nat.repeat (fun t => (next t).1) k (next s).1 = (next s).1 := by
    intro k
    induction k with
    | zero => rfl
    | succ j ih => simp only [Nat.repeat, ih, key _ h1.1 h1.2]
  rw [h2 k]
  exact key _ h1.1 h1.2

/-- repeated `take_first` calls (any `n`, including 0) on one generator continue where the previous call stopped:
    the results are the consecutive chunks of the Values - for every body and every list of `n`s -/
theorem C17_take_repeat (b : Body) (ns : List Nat) :
    takeMany (init b) ns = (chunks (values b) ns).map (fun c => .lst (c.map .val)) :=
  takeMany_spec ns b 0 false none [] rfl (by simp)

/-- nested generators (an outer generator iterating the inner one as documented and re-yielding its Values, `k`
    levels deep) deliver exactly the Values of the innermost body -/
theorem C17_nested (k : Nat) (b : Body) :
    values (wrapN k b) = values b ∧ (listOf (init (wrapN k b))).2 = .lst ((values b).map .val) := by
  refine ⟨values_wrapN k b, ?_⟩
  rw [(C17_list (wrapN k b)).1, values_wrapN]

/-- **C17 as a whole**: for every body and every history of caller operations (next / compute any returned future /
    take_first n for any n / list_of_generator / `par`: a returned future yielded together with a sibling that advances
    the generator while that future has started and is parked - in any order, including advancing while a task is
    uncomputed and after exhaustion), the observations of the model are accepted by the observer `spec` - the same Boolean function
    the check evaluates on the observations of the real code -/
theorem C17_spec_holds (b : Body) (ops : List Op) : spec b (run (init b) ops) = true := by
  obtain ⟨w', hw⟩ := watchRun_ok b.length ops (watchInit b) (init b) (rel_init b)
  simp [spec, hw]

/-! non-vacuity -/
-- a history that exercises the guard, a task with consecutive awaits, END_OF_GENERATOR, repeated take_first
example : spec [.await true, .value 1, .value 2, .await true, .await true, .value 3, .await true]
    (run (init [.await true, .value 1, .value 2, .await true, .await true, .value 3, .await true])
      [.next, .take 0, .next, .take 1, .list, .compute 0, .take 0, .take 1, .next, .next, .compute 1, .take 5, .next,
        .next]) = true := by
  decide
example : (run (init [.await true, .value 1]) [.next, .next, .take 1, .compute 0]).map (·.res) =
    [.fut none, .raised .runtimeError, .raised .runtimeError, .item (.val 1)] := by decide
example : (run (init [.value 1, .await true]) [.next, .next, .compute 1, .next, .next]).map (·.res) =
    [.fut (some 1), .fut none, .item .endMarker, .raised .stopIteration, .raised .stopIteration] := by decide
example : (takeFirst (init [.await true, .value 1, .value 2, .await true, .value 3]) 2).2 = .lst [.val 1, .val 2] ∧
    (takeFirst (init [.await true, .value 1, .value 2, .await true, .value 3]) 2).1.pulled = 3 := by decide
example : (run (init [.await true, .value 1]) [.next, .take 0, .compute 0, .take 0, .take 1]).map (·.res) =
    [.fut none, .lst [], .item (.val 1), .lst [], .lst []] := by decide
-- the observer is not trivially true: it rejects END_OF_GENERATOR in a result, a lost Value, over-consumption,
-- a missing RuntimeError, and the old behaviour of take_first(gen, 0)
example : spec [.value 1, .await true] [{ op := .list, res := .lst [.val 1, .endMarker], sib := none, pos := 2, fin := true, bad := 0 }] = false := by
  decide
example : spec [.value 1, .value 2] [{ op := .take 2, res := .lst [.val 1], sib := none, pos := 2, fin := false, bad := 0 }] = false := by
  decide
example : spec [.value 1, .value 2] [{ op := .take 1, res := .lst [.val 1], sib := none, pos := 2, fin := false, bad := 0 }] = false := by
  decide
example : spec [.await true, .value 1]
    [{ op := .next, res := .fut none, sib := none, pos := 1, fin := false, bad := 0 },
     { op := .take 1, res := .lst [.val 1], sib := none, pos := 2, fin := false, bad := 0 }] = false := by decide
example : spec [.value 1] [{ op := .take 0, res := .lst [.val 1], sib := none, pos := 1, fin := true, bad := 0 }] = false := by
  decide
example : spec [.await true] [{ op := .take 0, res := .lst [], sib := none, pos := 1, fin := true, bad := 0 }] = false := by decide
-- two consumers: the task is parked on a blocking await when the sibling advances (refused), resp. already computed
example : (run (init [.await true, .value 1, .await false, .value 2]) [.next, .par 0 .next, .next, .par 1 .next]).map
      (fun o => (o.res, o.sib)) =
    [(.fut none, none), (.item (.val 1), some (false, .raised .runtimeError)),
     (.fut none, none), (.item (.val 2), some (true, .raised .stopIteration))] := by decide
-- the observer rejects an advance that succeeded while the task was started but not computed
example : spec [.await true, .value 1, .value 2]
    [{ op := .next, res := .fut none, sib := none, pos := 1, fin := false, bad := 0 },
     { op := .par 0 .next, res := .item (.val 1), sib := some (false, .fut (some 2)), pos := 3, fin := false, bad := 0 }]
    = false := by decide

end AsynqModel.Generator
