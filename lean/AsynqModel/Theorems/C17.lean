import AsynqModel.Lib.Generator
import AsynqModel.Proofs.Generator
import AsynqModel.Proofs.GeneratorRel
import AsynqModel.Proofs.GeneratorNest
import AsynqModel.Proofs.GeneratorExact
/-!
# C17  Async generators deliver their Values in order, and only those

Theorems about the model `AsynqModel.Generator` of asynq/generator.py, for every generator body (any list of
`await` / `value v` steps), every `n` and every history of caller operations.

What is NOT in these theorems (checked on the implementation side only, by the correspondence run): the observation
field `bad` (awaits resumed with the awaited result, generator arguments delivered, another generator of the same
function undisturbed) is the literal 0 in the model - `_send_inner`'s `yield_result` plumbing is not modelled - so
`C17_spec_holds` says nothing about those three clauses of the observer; re-entrant advances and how far the INNER
generators of a nested generator are advanced are direct evaluations in the driver (`reenterExpected`, `innerLevels`).
Theorems that hold by construction of the model are marked BY CONSTRUCTION in their docstring (and listed apart in
harness/checks/c17.py): their content is the correspondence.

Scope: the statement is about bodies WITHOUT a `Value(END_OF_GENERATOR)` item (`noMarker b`, an explicit hypothesis of
the theorems about delivered Values).  For a body with such an item the clauses "all the Values are returned" and
"END_OF_GENERATOR never appears in the result" contradict each other (`C17_marker_payload_unsatisfiable`), so no
implementation satisfies the statement there; the model has that item (`Step.valueEnd`) and
`C17_marker_payload_behaviour` records what the code does with it (the item is dropped, and `take_first` then returns
more than `n` Values because `enumerate` counts tasks).

History: `take_first(gen, 0)` used to be `list_of_generator(gen)` (`i == n - 1` is never true for `n = 0`); this check
found it, /repo fixed it (`if n <= 0: return ret` before the loop), and the model has the fixed code.
-/
namespace AsynqModel.Generator

/-- `list_of_generator` of a fresh generator returns exactly the payloads of its Values in program order, having
    pulled every item of the body and run the underlying generator to its end - for every body without a marker
    payload -/
theorem C17_list (b : Body) (hm : noMarker b = true) :
    (listOf (init b)).2 = .lst (payloads b) ∧ (listOf (init b)).1.rest = [] ∧
      (listOf (init b)).1.pulled = b.length ∧ (listOf (init b)).1.stopped = true := by
  obtain ⟨lt', p', e, hp, _⟩ := listOf_spec b 0 false none [] hm rfl (by simp)
  have : init b = ⟨b, 0, false, none, []⟩ := rfl
  rw [this, e, payloads_eq_values b hm]
  simp [hp]

/-- for every body without a marker payload and every `n`: `take_first(gen, n)` returns the first `n` Values (all of
    them if there are fewer, none for `n = 0`) and leaves the underlying generator exactly behind the n-th Value
    (`dropValues n b`, see `C17_take_stops_at_value`): nothing after it has been pulled, and the generator has been
    run to its end only if `n ≥ 1` and it has fewer than `n` Values -/
theorem C17_take (b : Body) (n : Nat) (hm : noMarker b = true) :
    (takeFirst (init b) n).2 = .lst ((payloads b).take n) ∧
      (takeFirst (init b) n).1.rest = dropValues n b ∧
      (takeFirst (init b) n).1.pulled + (dropValues n b).length = b.length ∧
      (takeFirst (init b) n).1.stopped = decide ((payloads b).length < n) := by
  rw [payloads_eq_values b hm, ← List.map_take, List.length_map]
  cases n with
  | zero => simp [takeFirst_zero, init, dropValues]
  | succ m =>
    obtain ⟨lt', p', e, hp, _⟩ := takeFirst_spec b m 0 false none [] hm rfl (by simp)
    have : init b = ⟨b, 0, false, none, []⟩ := rfl
    rw [this, e]
    simp at hp ⊢
    exact hp

/-- "without consuming more of the generator than needed": if the body has at least `n ≥ 1` Values, what
    `take_first(gen, n)` pulled is a prefix of the body that ENDS with the n-th Value - the last item pulled from the
    underlying generator is the last Value returned -/
theorem C17_take_stops_at_value (b : Body) (m : Nat) (hm : noMarker b = true) (h : m < (payloads b).length) :
    ∃ pre v, b = pre ++ .value v :: (takeFirst (init b) (m + 1)).1.rest ∧
      (takeFirst (init b) (m + 1)).1.pulled = pre.length + 1 ∧
      (takeFirst (init b) (m + 1)).2 = .lst (payloads pre ++ [.val v]) := by
  obtain ⟨hres, hrest, hpos, _⟩ := C17_take b (m + 1) hm
  rw [payloads_eq_values b hm, List.length_map] at h
  obtain ⟨pre, v, e, hl, hv⟩ := dropValues_split b hm m h
  have hmp : noMarker pre = true := by
    have : noMarker (pre ++ .value v :: dropValues (m + 1) b) = true := by rw [← e]; exact hm
    clear e hl
    induction pre with
    | nil => rfl
    | cons x r ih => cases x <;> simp_all [noMarker]
  have hvals : values b = values pre ++ v :: values (dropValues (m + 1) b) := by
    have : ∀ (p q : Body), values (p ++ q) = values p ++ values q := by
      intro p q; induction p with
      | nil => rfl
      | cons x r ih => cases x <;> simp [values, ih]
    conv => lhs; rw [e]
    rw [this]; rfl
  refine ⟨pre, v, by rw [hrest]; exact e, ?_, ?_⟩
  · have hlen : b.length = pre.length + 1 + (dropValues (m + 1) b).length := by
      conv => lhs; rw [e]
      simp; omega
    omega
  · rw [hres, payloads_eq_values b hm, payloads_eq_values pre hmp, hvals, ← List.map_take]
    have key : ∀ (l r : List Nat) (x : Nat), (l ++ x :: r).take (l.length + 1) = l ++ [x] := by
      intro l r x; induction l with
      | nil => simp
      | cons y t ih => simpa using ih
    have : (values pre ++ v :: values (dropValues (m + 1) b)).take (m + 1) = values pre ++ [v] := by
      rw [← hl]; exact key _ _ _
    rw [this]; simp

/-- END_OF_GENERATOR never appears in the result of `take_first` or `list_of_generator` - for every state of the
    generator whatsoever (any body, also with marker payloads) and every `n` (including 0) -/
theorem C17_no_marker (s : St) (n : Nat) :
    (takeFirst s n).2.hasMarker = false ∧ (listOf s).2.hasMarker = false :=
  ⟨by cases n with
      | zero => simp [takeFirst_zero, Res.hasMarker]
      | succ m => simpa [takeFirst] using takeLoop_noMarker _ (m + 1) 0 s [] rfl,
    listLoop_noMarker _ s [] rfl⟩

/-- a task that `next()` returned uncomputed arms the guard, and while it is not computed every way of advancing
    the generator (`next`, `take_first` with `n ≥ 1`, `list_of_generator`) raises RuntimeError and changes nothing -
    for every state (any body) -/
theorem C17_guard (s : St) :
    ((next s).2 = .fut none → (next s).1.blocked = true) ∧
    (s.blocked = true → next s = (s, .raised .runtimeError) ∧ listOf s = (s, .raised .runtimeError) ∧
      ∀ m, takeFirst s (m + 1) = (s, .raised .runtimeError)) := by
  refine ⟨?_, fun hb => ⟨next_blocked s hb, listOf_blocked s hb, fun m => takeFirst_blocked s m hb⟩⟩
  obtain ⟨rest, pulled, stopped, lt, futs⟩ := s
  cases hb : blockedBy lt futs with
  | true => simp [next, send, blocked_eq, hb]
  | false =>
    cases stopped with
    | true => simp [next, send, blocked_eq, hb]
    | false =>
      cases rest with
      | nil => simp [next, send, blocked_eq, hb, getOneValue]
      | cons x r =>
        cases x with
        | value v => simp [next, send, blocked_eq, hb, getOneValue]
        | valueEnd => simp [next, send, blocked_eq, hb, getOneValue]
        | await bb => simp [next, send, blocked_eq, hb, getOneValue]; simp [blockedBy]

/-- the guard stays armed until the task is COMPUTED: a task returned by `next()` that has started and is parked
    on a future that needs a batch flush (`startTask` gives `none`, which happens exactly if its first await or one
    of the awaits before its Value needs a flush) is not computed - `last_task` is untouched by `_send_inner`, so every
    way of advancing the generator is still refused (RuntimeError; `take_first(gen, 0)` returns `[]`) and changes
    nothing; and if the task did run to its end before the sibling, it is computed exactly as `_send_inner` run to
    completion computes it - for every state, every k and every first-await kind.  `hl` holds in every reachable
    state (`C17_reachable`) and cannot be dropped (see the `example` below). -/
theorem C17_guard_started (s : St) (k : Nat) (b : Bool) (hk : s.futs[k]? = some (.pending b))
    (hl : s.lastTask = some (.handle k)) :
    ((startTask s b).2 = none ↔ (b || leadBlock s.rest) = true) ∧
    (∀ s1, startTask s b = (s1, none) →
      s1.blocked = true ∧ s1.lastTask = s.lastTask ∧ s1.futs = s.futs ∧
      (∀ a : Adv, stepBasic s1 a.toOp = (s1, refused a)) ∧ sendInner s1 = sendInner s) ∧
    (∀ s1 x, startTask s b = (s1, some x) → sendInner s = (s1, x)) := by
  have hsp := startTask_spec b s.rest s.pulled s.stopped s.lastTask s.futs
  have hs : (⟨s.rest, s.pulled, s.stopped, s.lastTask, s.futs⟩ : St) = s := rfl
  rw [hs] at hsp
  refine ⟨?_, fun s1 h1 => ?_, hsp.1⟩
  · have hp := startTask_parks s b
    cases h : (startTask s b).2 with
    | none =>
      rw [h] at hp
      have : (b || leadBlock s.rest) = true := by simpa using hp.symm
      simp [this]
    | some x =>
      rw [h] at hp
      have : (b || leadBlock s.rest) = false := by simpa using hp.symm
      simp [this]
  · obtain ⟨hl1, hf1, hsi⟩ := hsp.2 s1 h1
    have hb1 : s1.blocked = true := by simp [St.blocked, hl1, hf1, hl, hk]
    exact ⟨hb1, hl1, hf1, fun a => adv_blocked s1 a hb1, hsi⟩

/-- in every state a history reaches (any operations, body without marker payload): position accounting, the
    underlying generator is stopped only at its end, and an uncomputed task the caller holds is the one in `last_task`
    (the hypothesis `hl` of `C17_guard_started`) - so at most one task is ever uncomputed.
    `hm` is PROOF-TECHNICAL (the proof goes through the refinement relation `Rel`, which carries `noMarker`); no
    counterexample is known: the three invariants hold on every body of length ≤ 3 over {await t/f, value, valueEnd}
    for all histories of length ≤ 4 over 11 operations (second audit, bounded check) -/
theorem C17_reachable (b : Body) (hm : noMarker b = true) (ops : List Op) :
    let s := finalState (init b) ops
    s.pulled + s.rest.length = b.length ∧ (s.stopped = true → s.rest = []) ∧
      ∀ k bb, s.futs[k]? = some (.pending bb) → s.lastTask = some (.handle k) := by
  obtain ⟨w', h⟩ := rel_final b.length ops (watchInit b) (init b) (rel_init b hm)
  exact ⟨h.pos, h.wf, h.last⟩

/-- once `next()` has raised StopIteration it raises StopIteration forever, without touching the generator -/
theorem C17_exhausted (s : St) (h : (next s).2 = .raised .stopIteration) (k : Nat) :
    next (Nat.repeat (fun t => (next t).1) k (next s).1) = ((next s).1, .raised .stopIteration) := by
  have key : ∀ t : St, t.blocked = false → t.stopped = true → next t = (t, .raised .stopIteration) := by
    intro t hb hs; simp [next, send, hb, hs]
  have h1 : (next s).1.blocked = false ∧ (next s).1.stopped = true := by
    obtain ⟨rest, pulled, stopped, lt, futs⟩ := s
    cases hb : blockedBy lt futs with
    | true => simp [next, send, blocked_eq, hb] at h
    | false =>
      cases stopped with
      | true => simp [next, send, blocked_eq, hb]
      | false =>
        cases rest with
        | nil => simp [next, send, blocked_eq, hb, getOneValue]
        | cons x r => cases x <;> simp [next, send, blocked_eq, hb, getOneValue] at h
  have h2 : ∀ k, Nat.repeat (fun t => (next t).1) k (next s).1 = (next s).1 := by
    intro k
    induction k with
    | zero => rfl
    | succ j ih => simp only [Nat.repeat, ih, key _ h1.1 h1.2]
  rw [h2 k]
  exact key _ h1.1 h1.2

/-- repeated `take_first` calls (any `n`, including 0) on one generator continue where the previous call stopped:
    the results are the consecutive chunks of the Values, and after the calls the generator stands exactly behind its
    (Σ ns)-th Value - for every body without marker payload and every list of `n`s -/
theorem C17_take_repeat (b : Body) (ns : List Nat) (hm : noMarker b = true) :
    takeMany (init b) ns = (chunks (values b) ns).map (fun c => .lst (c.map .val)) ∧
    (takeManySt (init b) ns).rest = dropValues ns.sum b ∧
    (takeManySt (init b) ns).pulled + (dropValues ns.sum b).length = b.length := by
  have := takeMany_spec ns b 0 false none [] hm rfl (by simp)
  simpa [init] using this

/-- what a nested generator IS: the documented consumer loop (`for task in inner: value = yield task; if value is
    END_OF_GENERATOR: continue; yield Value(value)`), run as the Python generator of an outer `_AsyncGenerator` over the
    model of the inner generator (`outerResume`: next(inner) = `send`, the yielded inner task is computed by
    `sendInner`, it parks its awaiter iff `startTask` parks), yields exactly the steps `wrap b` - for every inner body
    (also with marker payloads, which the loop skips) and EVERY bound `n ≥ 2·|b| + 1` on the number of steps: the list
    is not a truncation by the bound (`outerBody` stops at the first exception the loop raises; that this exception is
    the StopIteration of the exhausted inner generator is `outerFor_nil` in Proofs/GeneratorNest.lean, not restated
    here) -/
theorem C17_nested_loop (b : Body) (n : Nat) (h : 2 * b.length + 1 ≤ n) : outerBody n (init b) .atFor = wrap b :=
  ((outerBody_spec b.length b (Nat.le_refl _) 0 false [] n (by simp) h).1 none rfl)

/-- nested generators (`k` levels of that loop) deliver exactly the Values of the innermost body: the nested body
    has no marker payload, the same payloads, and `list_of_generator` / `take_first` return them -/
theorem C17_nested (k : Nat) (b : Body) (hm : noMarker b = true) (n : Nat) :
    noMarker (wrapN k b) = true ∧ payloads (wrapN k b) = payloads b ∧
      (listOf (init (wrapN k b))).2 = .lst (payloads b) ∧
      (takeFirst (init (wrapN k b)) n).2 = .lst ((payloads b).take n) := by
  have hw := noMarker_wrapN k b hm
  have hp : payloads (wrapN k b) = payloads b := by
    rw [payloads_eq_values _ hw, payloads_eq_values _ hm, values_wrapN]
  refine ⟨hw, hp, ?_, ?_⟩
  · rw [(C17_list (wrapN k b) hw).1, hp]
  · rw [(C17_take (wrapN k b) n hw).1, hp]

/-- **C17 as a whole**: for every body without marker payload and every history of caller operations (next / compute
    any returned future / take_first n for any n / list_of_generator / `par`: a returned future yielded together with a
    sibling that advances the generator while that future has started and is parked - in any order, including
    advancing while a task is uncomputed and after exhaustion), the observations of the model are accepted by the
    observer `spec` - the same Boolean function the check evaluates on the observations of the real code -/
theorem C17_spec_holds (b : Body) (hm : noMarker b = true) (ops : List Op) : spec b (run (init b) ops) = true := by
  obtain ⟨w', hw⟩ := watchRun_ok b.length ops (watchInit b) (init b) (rel_init b hm)
  simp [spec, hw, hm]

/-- **the observer is exact**: for a body without marker payload, `spec` accepts a list of observations IF AND ONLY IF
    it is the model's run of the operations it records - every field of every observation (result, sibling result and
    whether the held task was computed, items pulled, exhaustion flag, `bad = 0`), for every operation including
    `send` and `par`.  So there is no wrong observation the observer accepts (the proof: `watchStep` accepts at most one
    observation per reference state and operation, `watchStep_det`, and it accepts the model's, `rel_step`).  In
    particular a rejected `send(x)` that moved ANYTHING, or was refused with another exception than TypeError, or a
    fresh generator treating `send(x)` as `next()` are rejected (the laxities the second audit listed). -/
theorem C17_spec_exact (b : Body) (hm : noMarker b = true) (obs : List Obs) :
    spec b obs = true ↔ obs = run (init b) (obs.map (·.op)) := by
  constructor
  · intro h
    refine watchRun_exact b.length obs (watchInit b) (init b) (rel_init b hm) ?_
    simp only [spec, hm, Bool.true_and] at h
    cases hw : watchRun b.length (watchInit b) obs with
    | ok w' => exact ⟨w', rfl⟩
    | error e => simp [hw] at h
  · intro h
    rw [h]
    exact C17_spec_holds b hm _

/-- why `noMarker` is a hypothesis and not a defect: for a body with a `Value(END_OF_GENERATOR)` item NO result
    satisfies both "list_of_generator returns all the Values" and "END_OF_GENERATOR does not appear in the result" -/
theorem C17_marker_payload_unsatisfiable (b : Body) (h : noMarker b = false) (r : Res) :
    ¬ (r = .lst (payloads b) ∧ r.hasMarker = false) := by
  rintro ⟨rfl, h2⟩
  have : (payloads b).any (· == .endMarker) = true := by
    clear h2
    induction b with
    | nil => simp [noMarker] at h
    | cons x t ih =>
      cases x with
      | valueEnd => simp [payloads]
      | await bb => simpa [payloads] using ih (by simpa [noMarker] using h)
      | value v =>
        have := ih (by simpa [noMarker] using h)
        simp only [payloads, List.any_cons, this, Bool.or_true]
  simp [Res.hasMarker, this] at h2

/-- ... and what the code (as modelled, confirmed by the correspondence run) does with such an item: it is dropped
    from the results, a manual consumer receives it as an END_OF_GENERATOR that does not end the generator, and because
    `enumerate` counts tasks `take_first(gen, 2)` overruns (three Values, generator exhausted) -/
theorem C17_marker_payload_behaviour :
    (listOf (init [.value 1, .valueEnd, .value 2, .value 3])).2 = .lst [.val 1, .val 2, .val 3] ∧
    (takeFirst (init [.value 1, .valueEnd, .value 2, .value 3]) 2).2 = .lst [.val 1, .val 2, .val 3] ∧
    (takeFirst (init [.value 1, .valueEnd, .value 2, .value 3]) 2).1.stopped = true ∧
    (run (init [.valueEnd, .await true, .valueEnd, .value 2]) [.next, .next, .compute 1, .next]).map (·.res) =
      [.fut (some .endMarker), .fut none, .item .endMarker, .fut (some (.val 2))] := by decide

/-- adequacy of the model's loops: the fuel that makes `listOf` / `takeFirst` structurally recursive is never used up
    (the `.raised .other` of the out-of-fuel branch is never the answer) - for every state whatsoever and every body,
    also with marker payloads.  (`sendInner`/`startTask`: `sendInnerLoop_spec`, `startLoop_spec` are unconditional.) -/
theorem C17_loops_within_fuel (s : St) (n : Nat) :
    (listOf s).2 ≠ .raised .other ∧ (takeFirst s n).2 ≠ .raised .other := by
  refine ⟨listLoop_within_fuel _ s [] (Nat.lt_succ_self _), ?_⟩
  cases n with
  | zero => simp [takeFirst_zero]
  | succ m => simpa [takeFirst] using takeLoop_within_fuel _ (m + 1) 0 s [] (Nat.lt_succ_self _)

/-- BY CONSTRUCTION of the model (`if n <= 0: return ret` is the first branch of `takeFirst`): `take_first(gen, 0)`
    returns `[]` and leaves the generator untouched in every state, also while a previously returned task is
    uncomputed.  The content of this clause is the correspondence run (take 0 at every point of scripted histories)
    and the observer clause `take-zero`. -/
theorem C17_take_zero (s : St) : takeFirst s 0 = (s, .lst []) := takeFirst_zero s

/-- BY CONSTRUCTION of the model (`sendVal` returns the state `s` literally in its TypeError branch): the rarely used
    entry point `send(x)` with `x` not None, on a generator that has not started (`St.fresh`: nothing pulled, not
    exhausted, no uncomputed task) is rejected with TypeError and NOTHING has moved - in particular the generator is
    not marked as stopped.  That nothing moves is an ASSUMPTION of the model, validated by the correspondence run and
    enforced on the implementation by the observer clause `send-rejected` (what `C17_spec_exact` says about that
    clause is the content). -/
theorem C17_send_rejected (s : St) (h : s.fresh = true) :
    observe s .send =
      (s, { op := .send, res := .raised .typeError, sib := none, pos := s.pulled, fin := s.stopped, bad := 0 }) := by
  simp [observe, sendVal_eq, h]

/-- BY CONSTRUCTION of the model (the last branch of `sendVal` is `next s`; the first two are the first two of `send`):
    on every other state `send(x)` is `next()` -/
theorem C17_send_started (s : St) (h : s.fresh = false) : sendVal s = next s := by
  simp [sendVal_eq, h]

/-- BY CONSTRUCTION (iterating `C17_send_rejected`), for EVERY body (no hypothesis): any number of `send(x)` calls on a
    generator that has not started are all rejected with TypeError and leave it exactly as it was created -/
theorem C17_send_fresh_noop (b : Body) (k : Nat) :
    finalState (init b) (List.replicate k .send) = init b ∧
      (run (init b) (List.replicate k .send)).all (fun o => o.res == .raised .typeError) = true := by
  have hf : (init b).fresh = true := by simp [St.fresh, St.blocked, init]
  constructor
  · induction k with
    | zero => rfl
    | succ j ih => simp only [List.replicate_succ, finalState, C17_send_rejected _ hf]; exact ih
  · induction k with
    | zero => rfl
    | succ j ih => simp only [List.replicate_succ, run, C17_send_rejected _ hf, List.all_cons]; simpa using ih

/-- corollary of `C17_send_fresh_noop` (by construction) and `C17_list` / `C17_take`: a rejected advance does not make
    the generator lose its Values - for every body without marker payload, every `k` and `n` -/
theorem C17_send_then_iterate (b : Body) (hm : noMarker b = true) (k n : Nat) :
    (listOf (finalState (init b) (List.replicate k .send))).2 = .lst (payloads b) ∧
      (takeFirst (finalState (init b) (List.replicate k .send)) n).2 = .lst ((payloads b).take n) := by
  rw [(C17_send_fresh_noop b k).1]
  exact ⟨(C17_list b hm).1, (C17_take b n hm).1⟩

/-- the observer clause for a rejected `send(x)` has teeth for EVERY body with a Value (what seeded change C17-9 does:
    the refused advance marks the generator as stopped, so the Values are lost): whatever else is observed, a history
    that starts with a rejected send followed by `list_of_generator` returning no Values is rejected -/
theorem C17_send_rejected_keeps_values (b : Body) (hm : noMarker b = true) (hv : payloads b ≠ [])
    (o1 o2 : Obs) (rest : List Obs) (h1 : o1.op = .send) (h2 : o2.op = .list) (hr : o2.res = .lst []) :
    spec b (o1 :: o2 :: rest) = false := by
  cases hs : spec b (o1 :: o2 :: rest) with
  | false => rfl
  | true =>
    exfalso
    have he := (C17_spec_exact b hm _).1 hs
    have hf : (init b).fresh = true := by simp [St.fresh, St.blocked, init]
    simp only [List.map_cons, h1, h2, run, C17_send_rejected _ hf, List.cons.injEq] at he
    have h3 : o2.res = (observe (init b) .list).2.res := by rw [he.2.1]
    have h4 : (observe (init b) .list).2.res = (listOf (init b)).2 := rfl
    rw [hr, h4, (C17_list b hm).1] at h3
    exact hv (by simpa using h3.symm)

/-! ## non-vacuity -/
-- a history that exercises the guard, a task with consecutive awaits, END_OF_GENERATOR, repeated take_first
example : spec [.await true, .value 1, .value 2, .await true, .await true, .value 3, .await true]
    (run (init [.await true, .value 1, .value 2, .await true, .await true, .value 3, .await true])
      [.next, .take 0, .next, .take 1, .list, .compute 0, .take 0, .take 1, .next, .next, .compute 1, .take 5, .next,
        .next]) = true := by
  decide
example : (run (init [.await true, .value 1]) [.next, .next, .take 1, .compute 0]).map (·.res) =
    [.fut none, .raised .runtimeError, .raised .runtimeError, .item (.val 1)] := by decide
example : (run (init [.value 1, .await true]) [.next, .next, .compute 1, .next, .next]).map (·.res) =
    [.fut (some (.val 1)), .fut none, .item .endMarker, .raised .stopIteration, .raised .stopIteration] := by decide
example : (takeFirst (init [.await true, .value 1, .value 2, .await true, .value 3]) 2).2 = .lst [.val 1, .val 2] ∧
    (takeFirst (init [.await true, .value 1, .value 2, .await true, .value 3]) 2).1.pulled = 3 := by decide
example : (run (init [.await true, .value 1]) [.next, .take 0, .compute 0, .take 0, .take 1]).map (·.res) =
    [.fut none, .lst [], .item (.val 1), .lst [], .lst []] := by decide
-- C17_take_stops_at_value: hypothesis satisfiable, the prefix is non-trivial
example : (payloads [.await true, .value 1, .await false, .value 2, .value 3]).length > 1 ∧
    (takeFirst (init [.await true, .value 1, .await false, .value 2, .value 3]) 2).1.rest = [.value 3] := by decide
-- ... and its hypothesis `m < number of Values` is necessary: with fewer Values take_first runs the generator off its
-- end, and what it pulled need not end with a Value (here it ends with the trailing await)
example : ¬ ∃ pre v, [Step.value 1, .await true] = pre ++ .value v :: (takeFirst (init [.value 1, .await true]) 2).1.rest := by
  have hr : (takeFirst (init [.value 1, .await true]) 2).1.rest = [] := by decide
  rw [hr]
  rintro ⟨pre, v, h⟩
  have := congrArg List.getLast? h
  simp at this
-- C17_nested_loop: the bound on `n` is necessary (`outerBody` lists at most `n` steps)
example : outerBody 0 (init [.value 1]) .atFor ≠ wrap [.value 1] ∧ outerBody 2 (init [.value 1]) .atFor = wrap [.value 1] ∧
    outerBody 3 (init [.value 1]) .atFor = wrap [.value 1] := by decide
-- C17_guard_started: hk and hl hold in a reachable state, both branches of startTask are taken
example : let s := (finalState (init [.await true, .value 1]) [.next]);
    s.futs[0]? = some (.pending true) ∧ s.lastTask = some (.handle 0) ∧ (startTask s true).2 = none := by decide
example : let s := (finalState (init [.await false, .value 1]) [.next]);
    s.futs[0]? = some (.pending false) ∧ s.lastTask = some (.handle 0) ∧ (startTask s false).2 = some (.val 1) := by
  decide
-- ... and `hl` cannot be dropped on arbitrary states: a pending future that is not `last_task` does not arm the guard
example : ∃ (s : St) (k : Nat) (b : Bool), s.futs[k]? = some (.pending b) ∧
    ¬ (∀ s1, startTask s b = (s1, none) → s1.blocked = true) :=
  ⟨{ rest := [], pulled := 0, stopped := false, lastTask := none, futs := [.pending true] }, 0, true, by decide, by
    intro h; have := h _ rfl; revert this; decide⟩
-- C17_exhausted: the premise is reached through a trailing await (END_OF_GENERATOR, then StopIteration)
example : (next (finalState (init [.value 1, .await true]) [.next, .next, .compute 1])).2 = .raised .stopIteration := by
  decide
-- C17_take_repeat: chunks with a 0 and an overshoot
example : takeMany (init [.value 1, .await true, .value 2, .value 3, .await false]) [1, 0, 5, 1] =
    [.lst [.val 1], .lst [], .lst [.val 2, .val 3], .lst []] := by decide
-- C17_nested_loop is about `wrap` and nothing else: dropping the awaits (which preserves the Values) is not what the loop yields
example : outerBody 7 (init [.await true, .await false, .value 1]) .atFor = [.await true, .value 1] ∧
    wrap [.value 1, .await true] = [.await false, .value 1, .await true] ∧
    wrap [.value 1, .await true] ≠ [.value 1] := by decide
example : wrapN 1 [.await true, .value 1, .valueEnd, .await false] =
      [.await true, .value 1, .await false, .await false] ∧
    wrapN 2 [.await true, .value 1, .valueEnd, .await false] = [.await true, .value 1, .await false] := by decide
-- the observer is not trivially true: it rejects END_OF_GENERATOR in a result, a lost Value, over-consumption,
-- a missing RuntimeError, and the old behaviour of take_first(gen, 0)
def ob (op : Op) (res : Res) (pos : Nat) (fin : Bool) (sib : Option (Bool × Res) := none) : Obs :=
  { op := op, res := res, sib := sib, pos := pos, fin := fin, bad := 0 }
example : spec [.value 1, .await true] [ob .list (.lst [.val 1, .endMarker]) 2 true] = false := by decide
example : spec [.value 1, .value 2] [ob (.take 2) (.lst [.val 1]) 2 false] = false := by decide
example : spec [.value 1, .value 2] [ob (.take 1) (.lst [.val 1]) 2 false] = false := by decide
example : spec [.await true, .value 1] [ob .next (.fut none) 1 false, ob (.take 1) (.lst [.val 1]) 2 false] = false := by
  decide
example : spec [.value 1] [ob (.take 0) (.lst [.val 1]) 1 true] = false := by decide
example : spec [.await true] [ob (.take 0) (.lst []) 1 true] = false := by decide
-- wrong order, list without running to the end, a task after exhaustion, StopIteration only once, END although a Value
-- follows the awaits, a task that consumed one Value too many, take_first n > values that did not finish
example : spec [.value 1, .value 2] [ob (.take 2) (.lst [.val 2, .val 1]) 2 false] = false := by decide
example : spec [.value 1, .value 2] [ob .list (.lst [.val 1, .val 2]) 2 false] = false := by decide
example : spec [.value 1] [ob .list (.lst [.val 1]) 1 true, ob .next (.fut none) 1 true] = false := by decide
example : spec [] [ob .next (.raised .stopIteration) 0 true, ob .next (.raised .runtimeError) 0 true] = false := by decide
example : spec [.await true, .await true, .value 1] [ob .next (.fut none) 1 false, ob (.compute 0) (.item .endMarker) 3 true]
    = false := by decide
example : spec [.await true, .value 1, .value 2] [ob .next (.fut none) 1 false, ob (.compute 0) (.item (.val 1)) 3 false]
    = false := by decide
example : spec [.value 1, .await true] [ob (.take 2) (.lst [.val 1]) 2 false] = false := by decide
-- (audit) an unknown future whose "computation" moved the generator is rejected
example : spec [.value 1] [ob (.compute 5) (.raised .other) 77 true] = false := by decide
example : spec [.value 1] [ob (.compute 5) (.raised .other) 0 false] = true := by decide
-- two consumers: the task is parked on a blocking await when the sibling advances (refused), resp. already computed
example : (run (init [.await true, .value 1, .await false, .value 2]) [.next, .par 0 .next, .next, .par 1 .next]).map
      (fun o => (o.res, o.sib)) =
    [(.fut none, none), (.item (.val 1), some (false, .raised .runtimeError)),
     (.fut none, none), (.item (.val 2), some (true, .raised .stopIteration))] := by decide
-- the observer rejects an advance that succeeded while the task was started but not computed
example : spec [.await true, .value 1, .value 2]
    [ob .next (.fut none) 1 false, ob (.par 0 .next) (.item (.val 1)) 3 false (some (false, .fut (some (.val 2))))]
    = false := by decide
-- (audit) ... also when the observation CLAIMS the task was computed although it must be parked (blocking await),
-- and a task reported as parked although none of its awaits needs a flush
example : spec [.await true, .value 1, .value 2]
    [ob .next (.fut none) 1 false, ob (.par 0 .next) (.item (.val 1)) 3 false (some (true, .fut (some (.val 2))))]
    = false := by decide
example : spec [.await false, .value 1, .value 2]
    [ob .next (.fut none) 1 false, ob (.par 0 .next) (.item (.val 1)) 2 false (some (false, .raised .runtimeError))]
    = false := by decide
example : spec [.await false, .await true, .value 1, .value 2]
    [ob .next (.fut none) 1 false, ob (.par 0 .next) (.item (.val 1)) 3 false (some (false, .raised .runtimeError))]
    = true := by decide
-- send(x): rejected on the fresh generator (also after take_first(gen, 0), which does not start it), next() afterwards
example : (run (init [.value 1, .await true, .value 2]) [.send, .take 0, .send, .next, .send, .send, .compute 1, .send,
      .send]).map (·.res) =
    [.raised .typeError, .lst [], .raised .typeError, .fut (some (.val 1)), .fut none, .raised .runtimeError,
      .item (.val 2), .raised .stopIteration, .raised .stopIteration] := by decide
-- the observer rejects what seeded change C17-9 does (a rejected send marks the generator as stopped: the Values are
-- lost), a send that was not rejected, and a rejected send that moved the generator
example : spec [.value 1, .value 2] [ob .send (.raised .typeError) 0 false, ob .list (.lst []) 0 false] = false := by decide
example : spec [.value 1, .value 2] [ob .send (.raised .typeError) 0 false, ob (.take 1) (.lst []) 0 false] = false := by
  decide
example : spec [.value 1, .value 2] [ob .send (.raised .typeError) 0 false, ob .next (.raised .stopIteration) 0 false]
    = false := by decide
-- (second audit, the `send` laxity) REJECTED since round 5: a fresh generator that treats send(x) as a correct next(),
-- also on the empty body (StopIteration + exhausted), and a refusal with another exception than TypeError (which
-- gets a clause name of its own) - the only accepted observation is the model's
example : spec [.value 1] [ob .send (.fut (some (.val 1))) 1 false] = false ∧
    specClause [.value 1] [ob .send (.fut (some (.val 1))) 1 false] = "send-rejected@send" := by decide
example : spec [] [ob .send (.raised .stopIteration) 0 true] = false ∧
    spec [] [ob .send (.raised .typeError) 0 false, ob .next (.raised .stopIteration) 0 true] = true := by decide
example : spec [.value 1] [ob .send (.raised .valueError) 0 false] = false ∧
    spec [.value 1] [ob .send (.raised .other) 0 false] = false ∧
    spec [.value 1] [ob .send (.raised .runtimeError) 0 false] = false ∧
    specClause [.value 1] [ob .send (.raised .valueError) 0 false] = "send-refusal-class@send" := by decide
-- C17_spec_exact, both directions on a history with every kind of operation; one flipped field is rejected
example : spec [.await true, .value 1, .await false, .value 2]
      (run (init [.await true, .value 1, .await false, .value 2])
        [.send, .take 0, .next, .par 0 (.take 1), .send, .compute 1, .list, .send]) = true ∧
    spec [.await true, .value 1] [ob .send (.raised .typeError) 0 false, ob .next (.fut none) 1 false,
      ob (.par 0 .list) (.item (.val 1)) 2 false (some (false, .raised .runtimeError)),
      { (ob .next (.raised .stopIteration) 2 true) with bad := 1 }] = false := by decide
-- C17_send_rejected_keeps_values: the hypotheses are satisfiable (seeded change C17-9's observations)
example : payloads [.await true, .value 1] ≠ [] ∧ (ob .send (.raised .typeError) 0 false).op = .send ∧
    (ob .list (.lst []) 0 false).res = .lst [] := by decide
-- C17_send_rejected_keeps_values: `hv` is necessary - for a body without Values the empty list is the right answer
example : spec [.await true] [ob .send (.raised .typeError) 0 false, ob .list (.lst []) 1 true] = true := by decide
-- nested generators: how far the inner generator has been advanced when the outer one has yielded p items
-- (`innerAt`, evaluated by the driver; no theorem): take_first(outer, 1) leaves the INNER generator behind its first
-- Value too, an outer task that has not run leaves the inner task not run
example : wrap [.await true, .await false, .value 1, .value 2] = [.await true, .value 1, .await false, .value 2] ∧
    innerAt [.await true, .await false, .value 1, .value 2] 0 false = (0, false) ∧
    innerAt [.await true, .await false, .value 1, .value 2] 1 false = (1, false) ∧
    innerAt [.await true, .await false, .value 1, .value 2] 2 false = (3, false) ∧
    innerAt [.await true, .await false, .value 1, .value 2] 4 false = (4, false) ∧
    innerAt [.await true, .await false, .value 1, .value 2] 4 true = (4, true) ∧
    innerLevels [.value 1, .await true] 2 5 true = [(3, true), (2, true)] := by decide
example : spec [.value 1] [ob .send (.fut (some (.val 2))) 1 false] = false := by decide
example : spec [.value 1] [ob .send (.raised .stopIteration) 0 false] = false := by decide
example : spec [.value 1] [ob .send (.raised .typeError) 1 false] = false := by decide
example : spec [.value 1, .value 2] [ob .send (.raised .typeError) 0 false, ob .list (.lst [.val 1, .val 2]) 2 true]
    = true := by decide
-- C17_send_rejected / C17_send_started (by construction): both hypotheses are satisfiable
example : (init [.value 1]).fresh = true ∧ (finalState (init [.value 1]) [.next]).fresh = false := by decide
-- re-entrant advances from the body (direct expectation, no theorem): inside the task -> RuntimeError (the guard),
-- inside send() -> ValueError (CPython), take_first(gen, 0) -> []; a log with a successful re-entrant advance is rejected
example : reenterExpected [.await true, .value 1] 1 .next = .raised .runtimeError ∧
    reenterExpected [.await true, .value 1] 0 .list = .raised .valueError ∧
    reenterExpected [.await true, .value 1] 2 .send = .raised .valueError ∧
    reenterExpected [.await true, .value 1] 1 (.take 0) = .lst [] := by decide
example : reenterRun true [.await true, .value 1] [(0, .next), (1, .take 1), (2, .list)] 0 false
      [(2, false, [⟨0, .next, .raised .valueError⟩, ⟨1, .take 1, .raised .runtimeError⟩]),
       (2, true, [⟨2, .list, .raised .valueError⟩])] = none ∧
    reenterRun false [.await true, .value 1] [(1, .next)] 0 false [(2, false, [⟨1, .next, .fut (some (.val 1))⟩])]
      = some "reenter-guard@next" ∧
    reenterRun false [.value 1] [(0, .next)] 0 false [(1, false, [])] = some "reenter-missing@next" := by decide
-- inside send() the property only demands a refusal: another exception than CPython's ValueError is a change of the
-- code (correspondence) but no violation; a successful advance or StopIteration is one
example : reenterRun false [.value 1] [(0, .next)] 0 false [(1, false, [⟨0, .next, .raised .runtimeError⟩])] = none ∧
    reenterRun true [.value 1] [(0, .next)] 0 false [(1, false, [⟨0, .next, .raised .runtimeError⟩])]
      = some "reenter-rejected@next" ∧
    reenterRun false [.value 1] [(0, .next)] 0 false [(1, false, [⟨0, .next, .raised .stopIteration⟩])]
      = some "reenter-rejected@next" ∧
    reenterRun false [.value 1] [(0, .list)] 0 false [(1, false, [⟨0, .list, .lst [.val 1]⟩])]
      = some "reenter-rejected@list" := by decide
-- a body with a marker payload is outside the statement: `spec` is false, the driver judges it by `outsideClause`
example : spec [.valueEnd] [] = false ∧ specClause [.valueEnd] [] = "marker-payload" := by decide
example : outsideClause (run (init [.value 1, .valueEnd, .await true]) [.next, .next, .take 3, .list, .next]) = "ok" := by
  decide

end AsynqModel.Generator
