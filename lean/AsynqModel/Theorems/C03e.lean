import AsynqModel.Proofs.P21Final
import AsynqModel.Theorems.C03d
import AsynqModel.Theorems.C05
/-!
# C03 (continued): the model of a well-scoped program never gets stuck; termination in the strong sense

`State.isDone` is true of STUCK states, so `C03_terminates` / `C03_terminates_silent` / `C03_terminates_yieldonly`
alone do not say that every top-level call returns or raises (audit, AUDIT-core.md item 1).  This file closes the gap.

**(a) `no_stuck_wellscoped`.**  For every configuration, every list of WELL-SCOPED top-level computations
(`P10.WellScoped`; NonAsyncContexts, synchronous calls, the MAX_TASK_STACK_SIZE guard are all allowed) and every flush
oracle: as long as the oracle condition `P21.oracleOK` has held in the states passed so far, the state is not stuck.
`P21.oracleOK s` is a Boolean function of ONE state: it is `false` exactly when the step out of `s` is a scheduler flush
with something to flush (`P21.flushPoint s`), the oracle still has a choice `c`, and `c` is not admissible
(`State.admissible`).  The condition is the weakest possible: `oracle_needed` - if it fails in a state of the run, the
next state IS stuck - hence `no_stuck_wellscoped_iff`.  With the silent oracle (`choices = []`) the machine picks an
admissible batch itself and nothing is assumed: `no_stuck_wellscoped_silent`.

What was open in `no_stuck_wellscoped_partial` (Theorems/Acyclic.lean) and is proved unreachable here:
* "value() returned without an outcome": invariant `P21.SInv.sr` - a task stopped at the run-time instruction
  `syncret f` is not suspended, and `f` is computed, or an exception has just left the nested `wait_for` and is about to
  be delivered to this very task, or a `wait_for(f)` frame sits directly on the task's generator frame (`P21.Ret`);
  it uses the batch invariant `P6.InvB` (an uncomputed item is a member of its unflushed batch, so `item.value()`
  flushes that batch and finds the item computed), proved here for ALL well-scoped programs, and
  `P10.ConstDone` (constant futures are born computed);
* "exception reached a generator that is not in a synchronous call": invariant `P21.SInv.rz` - while an exception is
  propagating, a generator frame at the head of the control stack belongs to a task stopped at `syncret`
  (from `P13.Buried`: under every `wait_for` frame sits a generator stopped at the matching `syncret`).
Well-scopedness is needed: `syncret` written in a program text is not well-scoped and gets stuck at once
(`C03e_wellscoped_needed`).

**(b) `C03_terminates_strong`.**  Under the hypotheses of `C03_terminates` plus the oracle condition there is `n` such
that the state after `n` steps is NOT stuck, the Python stack is empty, no top-level computation is running or left to
run, the trace contains exactly `tops.length` events `ret` (every top-level call has returned a value or raised), and
every task that has started is computed.  `C03_terminates_strong_silent`: the same for `choices = []` without the
oracle condition.
-/
namespace AsynqModel.Core
open AsynqModel.Core.P21

/-- (a) A well-scoped program never makes the model stuck while the oracle's choices are admissible when consumed. -/
theorem no_stuck_wellscoped (cfg : Cfg) (tops : List (Conv × Body)) (choices : List (Nat × Nat))
    (h : ∀ p, p ∈ tops → P10.WellScoped p.2 0 0 = true) (n : Nat)
    (hor : ∀ i, i < n → oracleOK (runFuel i (initState cfg tops choices)) = true) :
    (runFuel n (initState cfg tops choices)).stuck = none :=
  (runInv_runFuel (runInv_init cfg tops choices h) n hor).stuck

/-- (a), Boolean form of the hypothesis -/
theorem no_stuck_wellscoped_upTo (cfg : Cfg) (tops : List (Conv × Body)) (choices : List (Nat × Nat))
    (h : ∀ p, p ∈ tops → P10.WellScoped p.2 0 0 = true) (n : Nat)
    (hor : oracleOKUpTo n (initState cfg tops choices) = true) :
    (runFuel n (initState cfg tops choices)).stuck = none :=
  no_stuck_wellscoped cfg tops choices h n ((oracleOKUpTo_iff n _).1 hor)

/-- (a) for the silent oracle: unconditional -/
theorem no_stuck_wellscoped_silent (cfg : Cfg) (tops : List (Conv × Body))
    (h : ∀ p, p ∈ tops → P10.WellScoped p.2 0 0 = true) (n : Nat) :
    (runFuel n (initState cfg tops [])).stuck = none :=
  (choices_nil_runFuel (runInv_init cfg tops [] h) rfl n).1.stuck

/-- the state form: one step out of a reachable, non-stuck state of a well-scoped program whose run so far satisfied
    the oracle condition -/
theorem no_stuck_step (cfg : Cfg) (tops : List (Conv × Body)) (choices : List (Nat × Nat))
    (h : ∀ p, p ∈ tops → P10.WellScoped p.2 0 0 = true) (n : Nat)
    (hor : ∀ i, i ≤ n → oracleOK (runFuel i (initState cfg tops choices)) = true) :
    (step (runFuel n (initState cfg tops choices))).stuck = none := by
  have ri := runInv_runFuel (runInv_init cfg tops choices h) n (fun i hi => hor i (by omega))
  exact (runInv_step ri (hor n (Nat.le_refl _))).stuck

/-- the oracle condition is needed, for every program: where it fails, the next step is stuck -/
theorem oracle_needed (s : State) (h : oracleOK s = false) : s.isDone = false ∧ (step s).stuck ≠ none := by
  unfold oracleOK at h
  simp only [Bool.or_eq_false_iff, Bool.not_eq_false'] at h
  obtain ⟨hfp, hch⟩ := h
  unfold flushPoint at hfp
  split at hfp
  · rename_i root base rest hctl
    simp only [Bool.and_eq_true, Bool.not_eq_true', decide_eq_true_eq, Option.isNone_iff_eq_none] at hfp
    obtain ⟨⟨⟨⟨hs, hr⟩, hlen⟩, hroot⟩, hfl⟩ := hfp
    refine ⟨by simp [State.isDone, hs, hctl], ?_⟩
    cases hc : s.choices with
    | nil => rw [hc] at hch; cases hch
    | cons c cs =>
      rw [hc] at hch
      exact C05_inadmissible_stuck s root base rest hctl hlen hroot hr hs
        (by intro e; rw [e] at hfl; cases hfl) c cs hc hch
  · cases hfp

/-- along a run: the first state in which the oracle condition fails is followed by a stuck state -/
theorem oracle_needed_run (s0 : State) (n : Nat) (h : oracleOK (runFuel n s0) = false) :
    (runFuel (n + 1) s0).stuck ≠ none := by
  obtain ⟨hd, hst⟩ := oracle_needed _ h
  rw [runFuel_succ, hd]
  exact hst

/-- (a) as an equivalence: the run of a well-scoped program is never stuck iff the oracle condition holds all along -/
theorem no_stuck_wellscoped_iff (cfg : Cfg) (tops : List (Conv × Body)) (choices : List (Nat × Nat))
    (h : ∀ p, p ∈ tops → P10.WellScoped p.2 0 0 = true) :
    (∀ n, (runFuel n (initState cfg tops choices)).stuck = none) ↔
    (∀ n, oracleOK (runFuel n (initState cfg tops choices)) = true) := by
  constructor
  · intro hs n
    cases ho : oracleOK (runFuel n (initState cfg tops choices)) with
    | true => rfl
    | false => exact absurd (hs (n + 1)) (oracle_needed_run _ n ho)
  · intro ho n
    exact no_stuck_wellscoped cfg tops choices h n (fun i _ => ho i)

/-- the full form of `no_stuck_wellscoped_partial`: with ANY oracle, the only way a well-scoped program makes the model
    stuck is an inadmissible flush choice.  In particular the two `fail`s about the return from a synchronous
    `value()` call never happen. -/
theorem no_stuck_wellscoped_full (s : State) (h : P10.WSReach s) (m : String) (hm : s.stuck = some m) :
    ∃ a b : Nat, m = s!"choice-not-allowed ({a} {b})" := by
  suffices hk : (s.stuck = none → SInv s) ∧ ∀ m, s.stuck = some m → ∃ a b : Nat, m = s!"choice-not-allowed ({a} {b})" from
    hk.2 m hm
  clear hm
  induction h with
  | init cfg tops choices _ => exact ⟨fun _ => sinv_init cfg tops choices, fun m hm => by simp [initState] at hm⟩
  | @step s hs ih =>
    cases hst : s.stuck with
    | some m0 => rw [P1.step_stuck s m0 hst]; exact ih
    | none =>
      have hS := ih.1 hst
      cases hok : oracleOK s with
      | true =>
        have := step_not_stuck hs hS hst hok
        exact ⟨fun _ => sinv_step hs hS hok, fun m hm' => by rw [this] at hm'; cases hm'⟩
      | false =>
        have hfp : flushPoint s = true := by
          unfold oracleOK at hok
          simp only [Bool.or_eq_false_iff, Bool.not_eq_false'] at hok
          exact hok.1
        obtain ⟨root, hstep, _⟩ := flushPoint_step s hfp
        refine ⟨fun hn => absurd hn (oracle_needed s hok).2, fun m hm' => ?_⟩
        have hws' := P10.WSReach.step hs
        rw [hstep] at hm'
        rcases schedulerFlush_fail_msg s root hst m hm' with e | e | e
        · subst e
          exact absurd (hstep ▸ hm') (not_stuck_with _ hws' _ (by decide))
        · subst e
          exact absurd (hstep ▸ hm') (not_stuck_with _ hws' _ (by decide))
        · exact e

theorem no_syncret_stuck (s : State) (h : P10.WSReach s) :
    s.stuck ≠ some "value() returned without an outcome" ∧
    s.stuck ≠ some "exception reached a generator that is not in a synchronous call" := by
  constructor <;>
  · intro e
    obtain ⟨a, b, e'⟩ := no_stuck_wellscoped_full s h _ e
    have := congrArg (fun x : String => x.toList.head?) e'
    simp only [choice_front] at this
    revert this; decide

/-! ## (b) termination in the strong sense -/

/-- (b) TERMINATION, strong form.  Hypotheses of `C03_terminates` (well-scoped, no NonAsyncContext, the
    MAX_TASK_STACK_SIZE guard never fires) plus the oracle condition of (a): the run ends in a state that is not
    stuck, in which every top-level call has returned or raised and every started task is computed. -/
theorem C03_terminates_strong (cfg : Cfg) (tops : List (Conv × Body)) (choices : List (Nat × Nat))
    (h : ∀ p ∈ tops, Spec.bodyHasNonAsync p.2 = false ∧ P10.WellScoped p.2 0 0 = true)
    (hg : ∀ n, (runFuel n (initState cfg tops choices)).guardFired = false)
    (hor : ∀ n, oracleOK (runFuel n (initState cfg tops choices)) = true) :
    ∃ n, FinishedOK tops.length (runFuel n (initState cfg tops choices)) := by
  obtain ⟨n, hd, hall⟩ := C03_terminates cfg tops choices h hg
  have ri := runInv_runFuel (runInv_init cfg tops choices (fun p hp => (h p hp).2)) n (fun i _ => hor i)
  exact ⟨n, finishedOK_of ri hd hall⟩

/-- (b) for the silent oracle: no oracle condition -/
theorem C03_terminates_strong_silent (cfg : Cfg) (tops : List (Conv × Body))
    (h : ∀ p ∈ tops, Spec.bodyHasNonAsync p.2 = false ∧ P10.WellScoped p.2 0 0 = true)
    (hg : ∀ n, (runFuel n (initState cfg tops [])).guardFired = false) :
    ∃ n, FinishedOK tops.length (runFuel n (initState cfg tops [])) := by
  obtain ⟨n, hd, hall⟩ := C03_terminates cfg tops [] h hg
  exact ⟨n, finishedOK_of (choices_nil_runFuel (runInv_init cfg tops [] (fun p hp => (h p hp).2)) rfl n).1 hd hall⟩

/-- the bookkeeping behind the `ret` count, in every state of such a run: finished + running + still to run -/
theorem C03_tops_accounted (cfg : Cfg) (tops : List (Conv × Body)) (choices : List (Nat × Nat))
    (h : ∀ p, p ∈ tops → P10.WellScoped p.2 0 0 = true) (n : Nat)
    (hor : ∀ i, i < n → oracleOK (runFuel i (initState cfg tops choices)) = true) :
    P21.pend (runFuel n (initState cfg tops choices)) = tops.length :=
  (runInv_runFuel (runInv_init cfg tops choices h) n hor).pend

/-! ## non-vacuity and the hypotheses -/

/-- the DAG program of Theorems/Acyclic.lean with the silent oracle: never stuck (by the theorem), and the run ends -/
example : ∀ n, (exState n).stuck = none :=
  no_stuck_wellscoped_silent {} _ (by intro p hp; simp at hp; subst hp; decide)

example : ∃ n, FinishedOK 1 (runFuel n (initState {} [(.value, exDag)] [])) :=
  C03_terminates_strong_silent {} [(.value, exDag)] (by decide) (P6T.guard_never _ 200 (by decide) (by decide))

/-- programs with synchronous calls (`C03d_tops`: `fn()` and `future.value()` on a task and on a batch item) -/
example : ∀ n, (C03d_run n).stuck = none :=
  no_stuck_wellscoped_silent {} _ (by decide)

example : ∃ n, FinishedOK 2 (runFuel n (initState {} C03d_tops [])) :=
  C03_terminates_strong_silent {} C03d_tops (by decide) (P6T.guard_never _ 200 (by decide) (by decide))

example : FinishedOK 2 (C03d_run 200) := by
  refine ⟨by decide, by decide, by decide, by decide, by decide, ?_⟩
  have : ((List.range (C03d_run 200).futs.length).all fun t =>
      !((C03d_run 200).task t).started || (C03d_run 200).computed t) = true := by decide
  intro t hk hst
  have ht : t < (C03d_run 200).futs.length := P2.lt_of_kind _ t (by rw [hk]; intro e; cases e)
  have := List.all_eq_true.1 this t (List.mem_range.2 ht)
  rw [hst] at this
  simpa using this

/-- (a) needs neither "no NonAsyncContext" nor "the guard does not fire": a task that blocks inside a NonAsyncContext,
    then the DAG program, with MAX_TASK_STACK_SIZE = 3 (the guard fires, see `C03e_guard_fires`) -/
example : ∀ n, (runFuel n (initState { maxStack := 3 }
    [(.value, .withCtx .nonasync (.item 0 5 .ok (.yld (.f (.own 0)) .endwith (.raise 3))) (.ret 7)),
     (.value, exDag)] [])).stuck = none :=
  no_stuck_wellscoped_silent _ _ (by decide)

/-- an admissible oracle: the only batch of the DAG program, named explicitly -/
example : oracleOKUpTo 60 (initState {} [(.value, exDag)] [(0, 0)]) = true := by decide
example : (runFuel 60 (initState {} [(.value, exDag)] [(0, 0)])).stuck = none :=
  no_stuck_wellscoped_upTo {} _ _ (by intro p hp; simp at hp; subst hp; decide) 60 (by decide)
example : (runFuel 60 (initState {} [(.value, exDag)] [(0, 0)])).choices = [] := by decide

/-- THE ORACLE CONDITION IS NEEDED (the audit's example): the oracle names batch (9, 9), which does not exist.  The run
    satisfies the condition in its first 24 states, violates it in state 24 - a flush point - and is stuck from state
    25 on, with no `ret` event: the conclusion of `C03_terminates` holds, that of `C03_terminates_strong` does not. -/
theorem C03e_oracle_needed :
    P10.WellScoped exDag 0 0 = true ∧ Spec.bodyHasNonAsync exDag = false ∧
    oracleOKUpTo 24 (initState {} [(.value, exDag)] [(9, 9)]) = true ∧
    oracleOK (runFuel 24 (initState {} [(.value, exDag)] [(9, 9)])) = false ∧
    flushPoint (runFuel 24 (initState {} [(.value, exDag)] [(9, 9)])) = true ∧
    (runFuel 24 (initState {} [(.value, exDag)] [(9, 9)])).stuck = none ∧
    (runFuel 25 (initState {} [(.value, exDag)] [(9, 9)])).stuck = some "choice-not-allowed (9 9)" ∧
    (runFuel 60 (initState {} [(.value, exDag)] [(9, 9)])).isDone = true ∧
    P21.rets (runFuel 60 (initState {} [(.value, exDag)] [(9, 9)])).trace = 0 := by decide

/-- ... and so does not end in a `FinishedOK` state, whatever the fuel -/
example : ¬ ∃ n, FinishedOK 1 (runFuel n (initState {} [(.value, exDag)] [(9, 9)])) := by
  rintro ⟨n, hs, hctl, _, htops, _⟩
  have h25 : (runFuel 25 (initState {} [(.value, exDag)] [(9, 9)])).stuck = some "choice-not-allowed (9 9)" := by decide
  have hdone : (runFuel 25 (initState {} [(.value, exDag)] [(9, 9)])).isDone = true := by
    simp [State.isDone, h25]
  by_cases hn : n ≤ 25
  · have small : ∀ i, i ≤ 25 → ¬ ((runFuel i (initState {} [(.value, exDag)] [(9, 9)])).stuck = none ∧
        (runFuel i (initState {} [(.value, exDag)] [(9, 9)])).ctl = [] ∧
        (runFuel i (initState {} [(.value, exDag)] [(9, 9)])).tops = []) := by decide
    exact small n hn ⟨hs, hctl, htops⟩
  · obtain ⟨m, rfl⟩ := Nat.exists_eq_add_of_le (Nat.le_of_not_le hn)
    rw [P20.runFuel_add 25 m, P6T.runFuel_of_done m _ hdone, h25] at hs
    cases hs

/-- WELL-SCOPEDNESS IS NEEDED for the `syncret` messages: the run-time instruction `syncret` written in a program text
    (not well-scoped by definition) makes the model stuck at once, with the silent oracle -/
theorem C03e_wellscoped_needed :
    P10.WellScoped (.syncret 0 (.ret 1) (.ret 2)) 0 0 = false ∧
    (runFuel 10 (initState {} [(.value, .syncret 0 (.ret 1) (.ret 2))] [])).stuck =
      some "value() returned without an outcome" := by decide

/-! ## (c) a static sufficient condition for "the MAX_TASK_STACK_SIZE guard never fires" (audit item 2)

`C03_terminates` assumes `∀ n, guardFired = false`, a property of the whole run.  Here it follows from a condition on
the program text and the configuration alone:

    P20.topsW tops * max L 1 ≤ cfg.maxStack,

where `L` bounds the number of futures named by any one `yield` of the program (`P21.ybB L`, a Boolean function of the
body; `yieldWidth` computes the least such `L`) and `P20.topsW tops = Σ (2 * bsz body + 3)` is the weight of the program
(`P20.bsz`: number of instructions, children included) - every instruction executed and every top-level computation
started decreases the remaining weight `P20.M1`, so at most `topsW tops` futures are ever created.
The proof (Proofs/P21GuardA-C.lean): the scheduler stack is a concatenation of segments - what one push has left: the
root pushed by `_execute`, or the uncomputed dependencies pushed at the first visit of a blocked task; a segment has at
most `max L 1` entries (with KEEP_DEPENDENCIES too: the dependencies kept from earlier yields are computed and are not
pushed), and the topmost entries of the segments form a strictly decreasing chain in the post-order of the creation
forest, so there are at most `futs.length` segments.  The bound is not tight (it is quadratic in the size of the
program where the stack is at most quadratic in the number of futures), but it is static.
Hypotheses: those of `C03_terminates` (well-scoped, no NonAsyncContext: the proof uses the run invariant `P20.Good`).
No oracle condition: a stuck state does not move. -/

/-- (c) THE GUARD NEVER FIRES, statically: well-scoped computations without NonAsyncContext whose `yield`s name at most
    `L` futures each, and `topsW tops * max L 1 ≤ maxStack`. -/
theorem guard_never_static (cfg : Cfg) (tops : List (Conv × Body)) (choices : List (Nat × Nat))
    (h : ∀ p ∈ tops, Spec.bodyHasNonAsync p.2 = false ∧ P10.WellScoped p.2 0 0 = true)
    (L : Nat) (hL : ∀ p ∈ tops, ybB L p.2 = true) (hmax : P20.topsW tops * max L 1 ≤ cfg.maxStack) :
    ∀ n, (runFuel n (initState cfg tops choices)).guardFired = false := by
  intro n
  exact guard_run (L := L) (M := max L 1) (Nat.le_max_left _ _) (Nat.le_max_right _ _) cfg tops hmax n _ rfl rfl
    (fun _ => ginv_init L (max L 1) cfg tops choices (fun p hp => (h p hp).2) (fun p hp => (h p hp).1) hL)

/-- (c) with the bound computed from the program -/
theorem guard_never_stackBound (cfg : Cfg) (tops : List (Conv × Body)) (choices : List (Nat × Nat))
    (h : ∀ p ∈ tops, Spec.bodyHasNonAsync p.2 = false ∧ P10.WellScoped p.2 0 0 = true)
    (hmax : stackBound tops ≤ cfg.maxStack) :
    ∀ n, (runFuel n (initState cfg tops choices)).guardFired = false :=
  guard_never_static cfg tops choices h (topsWidth tops)
    (fun p hp => ybB_of_width _ p.2 (le_topsWidth tops p hp)) hmax

/-- the bound itself: in every state of such a run that is not stuck the scheduler stack has at most
    `topsW tops * max L 1` entries, and at most `topsW tops` futures exist -/
theorem C03_stack_bound (cfg : Cfg) (tops : List (Conv × Body)) (choices : List (Nat × Nat))
    (h : ∀ p ∈ tops, Spec.bodyHasNonAsync p.2 = false ∧ P10.WellScoped p.2 0 0 = true)
    (L : Nat) (hL : ∀ p ∈ tops, ybB L p.2 = true) (hmax : P20.topsW tops * max L 1 ≤ cfg.maxStack) (n : Nat)
    (hs : (runFuel n (initState cfg tops choices)).stuck = none) :
    (runFuel n (initState cfg tops choices)).stack.length ≤ P20.topsW tops * max L 1 ∧
    (runFuel n (initState cfg tops choices)).futs.length ≤ P20.topsW tops := by
  have hg := guard_never_static cfg tops choices h L hL hmax
  have key : ∀ n, (runFuel n (initState cfg tops choices)).stuck = none →
      GInv L (max L 1) (P20.topsW tops) (runFuel n (initState cfg tops choices)) := by
    intro n
    induction n with
    | zero =>
      intro _
      exact ginv_init L (max L 1) cfg tops choices (fun p hp => (h p hp).2) (fun p hp => (h p hp).1) hL
    | succ n ih =>
      intro hs
      have e := runFuel_succ n (initState cfg tops choices)
      have hg' := hg (n + 1)
      rw [e] at hs hg' ⊢
      split at hs
      · rename_i hd; rw [if_pos hd]; exact ih hs
      · rename_i hd
        rw [if_neg hd] at hg' ⊢
        exact ginv_step (Nat.le_max_left _ _) (Nat.le_max_right _ _) (ih (P1.stuck_of_step _ hs)) hs hg'
  have hI := key n hs
  exact ⟨stack_bound hI, by have := hI.c; omega⟩

/-- TERMINATION from static hypotheses only (plus the oracle condition): `C03_terminates_strong` without the run-level
    hypothesis about the guard -/
theorem C03_terminates_static (cfg : Cfg) (tops : List (Conv × Body)) (choices : List (Nat × Nat))
    (h : ∀ p ∈ tops, Spec.bodyHasNonAsync p.2 = false ∧ P10.WellScoped p.2 0 0 = true)
    (hmax : stackBound tops ≤ cfg.maxStack)
    (hor : ∀ n, oracleOK (runFuel n (initState cfg tops choices)) = true) :
    ∃ n, FinishedOK tops.length (runFuel n (initState cfg tops choices)) :=
  C03_terminates_strong cfg tops choices h (guard_never_stackBound cfg tops choices h hmax) hor

/-- ... and for the silent oracle: every hypothesis is a decidable property of `cfg` and `tops` -/
theorem C03_terminates_static_silent (cfg : Cfg) (tops : List (Conv × Body))
    (h : ∀ p ∈ tops, Spec.bodyHasNonAsync p.2 = false ∧ P10.WellScoped p.2 0 0 = true)
    (hmax : stackBound tops ≤ cfg.maxStack) :
    ∃ n, FinishedOK tops.length (runFuel n (initState cfg tops [])) :=
  C03_terminates_strong_silent cfg tops h (guard_never_stackBound cfg tops [] h hmax)

/-! ### non-vacuity of (c); what happens when the guard does fire -/

/-- the default configuration (`maxStack = 1000000`) satisfies the static condition for the example programs:
    no run had to be inspected -/
example : stackBound [(.value, exDag)] = 62 ∧ stackBound C03d_tops = 152 := by decide

example : ∃ n, FinishedOK 2 (runFuel n (initState {} C03d_tops [])) :=
  C03_terminates_static_silent {} C03d_tops (by decide) (by decide)

example : ∀ n, (runFuel n (initState {} [(.value, exDag)] [(9, 9)])).guardFired = false :=
  guard_never_stackBound {} _ _ (by decide) (by decide)

/-- the real stack of the DAG program reaches 4 entries (bound: 62) -/
example : (exState 20).stack.length = 4 := by decide

/-- the condition is about `maxStack`: with MAX_TASK_STACK_SIZE = 3 the guard DOES fire on the DAG program.  The run is
    not stuck (`no_stuck_wellscoped_silent` needs no hypothesis about the guard) and it still ends: the top-level call
    raises the RuntimeError the guard creates (`Err.stackguard`, the error C08 names).  No theorem says that every
    run in which the guard fires ends: `P20.Good` (the invariant behind `C03_terminates`) needs `guardFired = false` -
    the reset empties the scheduler stack but leaves the `depsSched` flags set, which breaks the stack discipline
    `P10.CInv` and the potential `Phi` of the termination measure. -/
theorem C03e_guard_fires :
    stackBound [(.value, exDag)] > 3 ∧
    (runFuel 400 (initState { maxStack := 3 } [(.value, exDag)] [])).guardFired = true ∧
    (runFuel 400 (initState { maxStack := 3 } [(.value, exDag)] [])).stuck = none ∧
    (runFuel 400 (initState { maxStack := 3 } [(.value, exDag)] [])).isDone = true ∧
    (runFuel 400 (initState { maxStack := 3 } [(.value, exDag)] [])).trace.filter P21.isRet =
      [.ret (.err .stackguard)] := by decide

end AsynqModel.Core
