import AsynqModel.Proofs.P15OrdMain
import AsynqModel.Theorems.C03
/-!
# SPECM for C03: the observer `Spec.checkC03` accepts the traces of the machine

The checks judge the trace of the real scheduler with the executable observer `Spec.checkC03` (`Spec.spec "C03"`); the
driver also evaluates it on the trace of the model (SPECM).  These theorems say what SPECM can report.

`P15.chk3 ord ret` is a literal copy of `Spec.checkC03` with two switches: the start-order clause is checked iff `ord`,
the `.ret` clause ("awaited-task-left-uncomputed") iff `ret`; `P15.chk3_full : chk3 true true = checkC03`.

* `Spec_C03_accepts_partial` - for EVERY reachable state of EVERY program (ill-scoped, stack guard fired,
  NonAsyncContext: all allowed) the observer accepts the clauses runs-after-completion,
  resumed-while-awaited-future-uncomputed, resume-index, never-awaited-task-started, resumed-before-start, started-twice,
  resumed-not-exactly-once-per-yield, resumed-without-new-yield, yield-index, completed-twice, unknown-event.
  `Spec_C03_only_order_ret`: whatever `Spec.spec "C03"` reports on a trace of the machine is "start-order" or
  "awaited-task-left-uncomputed".
* `Spec_C03_accepts` - **SPECM = none for C03**: in a run of well-scoped top-level computations in which the
  MAX_TASK_STACK_SIZE guard has not fired and no NonAsyncContext was created, the observer accepts the whole trace,
  every clause included.
  - The `.ret` clause rests on `C03_started_computed_at_return`: when a top-level call returns every task that has
    started is computed.  The guard and the NonAsyncContext hypothesis are both needed for it:
    `Spec_C03_ret_needs_guard`, `Spec_C03_ret_needs_noNonAsync` are runs of the machine on which the observer
    reports the clause.
  - The start-order clause rests on the stack invariant `C03_order_invariant`: an unstarted task that is awaited from
    one place only and sits on the scheduler stack has every task written before it (in the list / tuple it was first
    yielded in) started or above it on the stack; `extract_futures` + the reversed push put the uncomputed
    dependencies on the stack in written order (`P15.order_push`, dict subtrees reversed in between).  The three
    hypotheses are what the proof uses (labelled stack and frame discipline of P10 / P12, live mentions); no run of the
    machine violating the clause without them was found by random testing (30 000 programs), so for this clause they
    are probably not necessary.
  `Spec_C03_accepts_except_order` is the same statement without the start-order clause (kept for reference).
-/
namespace AsynqModel.Core
open P15

/-- every clause of the C03 observer except start-order and the `.ret` clause, for **every** reachable state of
    **every** program and every observer context -/
theorem Spec_C03_accepts_partial (c : Spec.Ctx) (s : State) (h : Reach s) :
    Spec.specRun (P15.chkC false false) c {} 0 s.trace.reverse = none :=
  (specRun_iff_okTr3 false false c s.trace).2 (R_reach h).ok

/-- whatever the executable `Spec.spec "C03"` reports on a trace of the machine is one of those two clauses -/
theorem Spec_C03_only_order_ret (c : Spec.Ctx) (s : State) (h : Reach s) (i : Nat) (msg : String)
    (hv : Spec.spec "C03" c s.trace.reverse = some (i, msg)) :
    msg = "start-order" ∨ msg = "awaited-task-left-uncomputed" := by
  unfold Spec.spec at hv
  rw [checkOf_C03] at hv
  exact only_order_ret c _ _ _ (Spec_C03_accepts_partial c s h) i msg hv

/-- the state-level fact behind the `.ret` clause: in a run of well-scoped computations, as long as the stack guard
    has not fired and no NonAsyncContext was created, whenever the Python stack is empty (a top-level call has
    returned / is about to return its result) every task that has started is computed -/
theorem C03_started_computed_at_return (s : State) (h : P10.WSReach s) (hg : s.guardFired = false)
    (hn : Inv.noNonAsync s = true) (hctl : s.ctl = []) (t : Nat) (hst : (s.task t).started = true) :
    s.computed t = true := by
  have := started_computed_at_top h hg hn hctl t hst
  unfold State.computed
  cases ho : s.out t with
  | none => exact absurd ho this
  | some _ => rfl

/-- the invariant that proves it: every uncomputed task that has started, is on the scheduler's stack or has a
    generator frame is awaited - through a chain of uncomputed suspended tasks - by the root of a `wait_for` frame -/
theorem C03_started_supported (s : State) (h : P10.WSReach s) (hg : s.guardFired = false)
    (hn : Inv.noNonAsync s = true) (t : Nat) (hk : (s.fut t).kind = .task) (hc : s.computed t = false)
    (ht : (s.task t).started = true ∨ t ∈ s.stack ∨ t ∈ P2.gens s.ctl) :
    ∃ c ∈ s.ctl, ∃ ρ, P12.isWait c ρ ∧ P15.Chain s ρ t :=
  aw_reach h hg hn t hk hc ht

/-- **all clauses except start-order**: the states of a run of well-scoped top-level computations in which the stack
    guard has not fired and no NonAsyncContext was created -/
theorem Spec_C03_accepts_except_order (cfg : Cfg) (tops : List (Conv × Body)) (choices : List (Nat × Nat)) (s : State)
    (h : P13.ReachFrom (initState cfg tops choices) s) (hw : ∀ p, p ∈ tops → P10.WellScoped p.2 0 0 = true)
    (hg : s.guardFired = false) (hn : Inv.noNonAsync s = true) (c : Spec.Ctx) :
    Spec.specRun (P15.chkC false true) c {} 0 s.trace.reverse = none :=
  (specRun_iff_okTr3 false true c s.trace).2 (R_reachW (wsreach_of_reachFrom h hw) hg hn).ok

/-- ... so the real observer can only ever answer "start-order" there -/
theorem Spec_C03_only_order (cfg : Cfg) (tops : List (Conv × Body)) (choices : List (Nat × Nat)) (s : State)
    (h : P13.ReachFrom (initState cfg tops choices) s) (hw : ∀ p, p ∈ tops → P10.WellScoped p.2 0 0 = true)
    (hg : s.guardFired = false) (hn : Inv.noNonAsync s = true) (i : Nat) (msg : String)
    (hv : Spec.spec "C03" (Spec.mkCtx cfg tops) s.trace.reverse = some (i, msg)) : msg = "start-order" := by
  unfold Spec.spec at hv
  rw [checkOf_C03] at hv
  exact only_order _ _ _ _ (Spec_C03_accepts_except_order cfg tops choices s h hw hg hn _) i msg hv

/-- **SPECM = none for C03**: the observer of property C03 accepts the trace of every state of a run of well-scoped
    top-level computations in which the stack guard has not fired and no NonAsyncContext was created -/
theorem Spec_C03_accepts (cfg : Cfg) (tops : List (Conv × Body)) (choices : List (Nat × Nat)) (s : State)
    (h : P13.ReachFrom (initState cfg tops choices) s) (hw : ∀ p, p ∈ tops → P10.WellScoped p.2 0 0 = true)
    (hg : s.guardFired = false) (hn : Inv.noNonAsync s = true) :
    Spec.spec "C03" (Spec.mkCtx cfg tops) s.trace.reverse = none :=
  (spec_C03_iff _ _).2 (R_reachFull (wsreach_of_reachFrom h hw) hg hn).ok

/-- the same for the reachability predicate of P10 and any observer context -/
theorem Spec_C03_accepts_ws (s : State) (h : P10.WSReach s) (hg : s.guardFired = false)
    (hn : Inv.noNonAsync s = true) (c : Spec.Ctx) : Spec.spec "C03" c s.trace.reverse = none :=
  (spec_C03_iff _ _).2 (R_reachFull h hg hn).ok

/-- ... in particular after any number of steps -/
theorem Spec_C03_accepts_run (cfg : Cfg) (tops : List (Conv × Body)) (choices : List (Nat × Nat)) (n : Nat)
    (hw : ∀ p, p ∈ tops → P10.WellScoped p.2 0 0 = true)
    (hg : (runFuel n (initState cfg tops choices)).guardFired = false)
    (hn : Inv.noNonAsync (runFuel n (initState cfg tops choices)) = true) :
    Spec.spec "C03" (Spec.mkCtx cfg tops) (runFuel n (initState cfg tops choices)).trace.reverse = none :=
  Spec_C03_accepts cfg tops choices _ (P13.reachFrom_runFuel _ n) hw hg hn

/-- the stack invariant behind the start-order clause: if the unstarted task `t`, awaited from one place only
    (`¬ elsewhere`), sits on the task stack at position `p` and belongs to the start-order obligation `(u, l)` the
    observer recorded at a yield of `u`, then every task written before it in `l` has started or sits above it -/
theorem C03_order_invariant (s : State) (h : P10.WSReach s) (hg : s.guardFired = false) (hn : Inv.noNonAsync s = true)
    (u : Nat) (l : List Nat) (hm : (u, l) ∈ (P14.wOf s.trace).orderObl) (p t : Nat) (hp : s.stack[p]? = some t)
    (ht : t ∈ l) (hts : (s.task t).started = false) (hs : ¬ P15.elsewhere (P14.wOf s.trace) t) :
    ∀ a ∈ l.takeWhile (· != t), (s.task a).started = true ∨ a ∈ s.stack.take p :=
  ordInv_reach h hg hn u l hm p t hp ht hts hs

/-- the task whose generator frame has just been pushed is the top of the stack, so the clause holds when it starts -/
theorem C03_order_at_start (s : State) (h : P10.WSReach s) (hg : s.guardFired = false) (hn : Inv.noNonAsync s = true)
    (t : Nat) (old : Option Nat) (rest : List Ctl) (hctl : s.ctl = .gen t old :: rest)
    (hts : (s.task t).started = false) :
    P15.elsewhere (P14.wOf s.trace) t ∨ P15.orderBad (P14.wOf s.trace) t = false :=
  order_ok h hg hn hctl hts

/-- what the simulation relation says besides acceptance, for every reachable state: the observer's table of outcomes
    is the machine's, its `runs` entry of a task is the task's resume counter (absent before the first start), and a
    task that has not started is still `pending` with no context registered -/
theorem Spec_C03_watch_agrees (s : State) (h : Reach s) :
    (∀ f, (P14.wOf s.trace).outs.lookup f = s.out f) ∧
    (∀ t, (P14.wOf s.trace).runs.lookup t = if (s.task t).started = true then some (s.task t).resumes else none) ∧
    (∀ t, (s.task t).started = false → (s.task t).pending = true ∧ (s.task t).ctxs = []) := by
  have r := R_reach h
  refine ⟨fun f => ?_, r.runs, r.ns⟩
  cases ho : s.out f with
  | some o => exact r.ora f o ho
  | none =>
    cases hl : (P14.wOf s.trace).outs.lookup f with
    | none => rfl
    | some o => have := r.orc f o hl; rw [ho] at this; cases this

/-! ### non-vacuity -/

/-- `chk3` with both switches on is the observer itself -/
example (c : Spec.Ctx) (w : Spec.Watch) (e : Event) : chk3 true true w e = Spec.checkC03 c w e := chk3_full c w e

/-- the observer rejects hand-made traces: a start of a task nobody awaited, a second start, a resume without a new
    yield, a resume with the wrong index, a yield with the wrong index, a second completion, a run after completion -/
example : Spec.spec "C03" (Spec.mkCtx {} [])
    [.top 0 .value, .new 0 (.task none), .run 0 0 true .start, .new 1 (.task (some 0)), .run 1 0 true .start] =
    some (4, "never-awaited-task-started") := by decide
example : Spec.spec "C03" (Spec.mkCtx {} [])
    [.top 0 .value, .new 0 (.task none), .run 0 0 true .start, .run 0 0 true .start] = some (3, "started-twice") := by
  decide
example : Spec.spec "C03" (Spec.mkCtx {} [])
    [.top 0 .value, .new 0 (.task none), .run 0 0 true .start, .run 0 1 true (.out (.ok .none))] =
    some (3, "resumed-without-new-yield") := by decide
example : Spec.spec "C03" (Spec.mkCtx {} [])
    [.top 0 .value, .new 0 (.task none), .run 0 0 true .start, .yield 0 0 .none, .run 0 2 true (.out (.ok .none))] =
    some (4, "resumed-not-exactly-once-per-yield") := by decide
example : Spec.spec "C03" (Spec.mkCtx {} [])
    [.top 0 .value, .new 0 (.task none), .run 0 0 true .start, .yield 0 1 .none] = some (3, "yield-index") := by decide
example : Spec.spec "C03" (Spec.mkCtx {} [])
    [.top 0 .value, .new 0 (.task none), .run 0 0 true .start, .done 0 (.ok .none), .done 0 (.ok .none)] =
    some (4, "completed-twice") := by decide
example : Spec.spec "C03" (Spec.mkCtx {} [])
    [.top 0 .value, .new 0 (.task none), .run 0 0 true .start, .done 0 (.ok .none), .run 0 1 true (.out (.ok .none))] =
    some (4, "runs-after-completion") := by decide
/-- ... a top-level call that returns while a started task is uncomputed, and children started out of written order -/
example : Spec.spec "C03" (Spec.mkCtx {} [])
    [.top 0 .value, .new 0 (.task none), .run 0 0 true .start, .ret (.ok .none)] =
    some (3, "awaited-task-left-uncomputed") := by decide
example : Spec.spec "C03" (Spec.mkCtx {} [])
    [.top 0 .value, .new 0 (.task none), .run 0 0 true .start, .new 1 (.task (some 0)), .new 2 (.task (some 0)),
     .yield 0 0 (.tup [.f 1, .f 2]), .run 2 0 true .start] = some (6, "start-order") := by decide

/-- a leaf that waits for a batch item; a parent that awaits the leaf -/
def C03s_leaf : Body := .item 0 1 .ok (.yld (.f (.own 0)) (.ret 1) .reraise)
def C03s_parent : Body := .spawn C03s_leaf [] (.yld (.f (.own 0)) (.ret 2) (.ret 3))

/-- a DAG with nested structures, a dict and a shared task, followed by a second computation -/
def C03s_dag : Body :=
  .spawn C03s_leaf [] (.spawn (.ret 7) [] (.spawn (.yld (.f (.inh 0)) (.ret 1) .reraise) [.own 1]
    (.yld (.tup [.f (.own 0), .lst [.f (.own 2), .f (.own 1)], .dict [0] [.f (.own 0)]]) (.ret 2) (.ret 3))))
def C03s_tops : List (Conv × Body) := [(.value, C03s_dag), (.call, C03s_parent)]
def C03s_run (n : Nat) : State := runFuel n (initState {} C03s_tops [])

theorem C03s_reach (n : Nat) : P13.ReachFrom (initState {} C03s_tops []) (C03s_run n) := P13.reachFrom_runFuel _ n

/-- the hypotheses of `Spec_C03_accepts_except_order` hold for this run, which is finished and not stuck ... -/
example : (C03s_run 200).isDone = true ∧ (C03s_run 200).stuck = none ∧ (C03s_run 200).guardFired = false ∧
    Inv.noNonAsync (C03s_run 200) = true ∧ (∀ p, p ∈ C03s_tops → P10.WellScoped p.2 0 0 = true) := by decide
example : Spec.specRun (P15.chkC false true) (Spec.mkCtx {} C03s_tops) {} 0 (C03s_run 200).trace.reverse = none :=
  Spec_C03_accepts_except_order {} C03s_tops [] _ (C03s_reach 200) (by decide) (by decide) (by decide) _
/-- ... the full observer accepts its trace (by the theorem, and by evaluation), the tasks start in the order
    0, 1, 3, 2 (5, 6 in the second computation), and the observer had start-order obligations to check: task 0 yielded
    the fresh tasks 3, 2 in this order -/
example : Spec.spec "C03" (Spec.mkCtx {} C03s_tops) (C03s_run 200).trace.reverse = none :=
  Spec_C03_accepts {} C03s_tops [] _ (C03s_reach 200) (by decide) (by decide) (by decide)
example : Spec.spec "C03" (Spec.mkCtx {} C03s_tops) (C03s_run 200).trace.reverse = none := by decide
example : ((C03s_run 200).trace.reverse.filterMap fun | .run t 0 _ .start => some t | _ => none) = [0, 1, 3, 2, 5, 6] := by
  decide
example : (P14.wOf (C03s_run 200).trace).orderObl = [(6, []), (5, [6]), (3, [2]), (1, []), (0, [3, 2])] := by decide
/-- every started task is computed at the end (`C03_started_computed_at_return`) -/
example : (C03s_run 200).ctl = [] ∧
    ((List.range (C03s_run 200).futs.length).all fun t =>
      !((C03s_run 200).task t).started || (C03s_run 200).computed t) = true := by decide

/-- the stack invariant on a state in the middle of that run (`C03_order_invariant` is not vacuous): task 0 has yielded
    `(1, [3, 2], {0: 1})`, its first visit has pushed `1, 3, 2, 1` (written order, the dict value last); tasks 3 and 2
    have not started, 2 is awaited from one place only, and 3 - written before 2 - sits above it -/
theorem C03s_mid_reach : P10.WSReach (C03s_run 9) := P15.wsreach_of_reachFrom (C03s_reach 9) (by decide)
example : (C03s_run 9).stack = [1, 3, 2, 1, 0] ∧ (P14.wOf (C03s_run 9).trace).orderObl = [(0, [3, 2])] ∧
    ((C03s_run 9).task 3).started = false ∧ ((C03s_run 9).task 2).started = false ∧
    ¬ P15.elsewhere (P14.wOf (C03s_run 9).trace) 2 ∧ (C03s_run 9).stack[2]? = some 2 := by decide
example : ∀ a ∈ [3, 2].takeWhile (· != 2), ((C03s_run 9).task a).started = true ∨ a ∈ (C03s_run 9).stack.take 2 :=
  C03_order_invariant _ C03s_mid_reach (by decide) (by decide) 0 [3, 2] (by decide) 2 2 (by decide) (by decide)
    (by decide) (by decide)

/-- a task that is awaited from two places may start before a task written before it: the root yields
    `(v, a, t)`, `v` itself awaits `t`, so the tasks start in the order root, `v`, `t`, `a` - and the observer, whose
    clause exempts such a `t` (`elsewhere`), accepts (in accordance with `Spec_C03_accepts`) -/
def C03s_shared : Body :=
  .spawn (.ret 1) [] (.spawn (.ret 2) [] (.spawn (.yld (.f (.inh 0)) (.ret 3) .reraise) [.own 1]
    (.yld (.tup [.f (.own 2), .f (.own 0), .f (.own 1)]) (.ret 9) .reraise)))
def C03s_sharedRun : State := runFuel 100 (initState {} [(.value, C03s_shared)] [])
example : (C03s_sharedRun.trace.reverse.filterMap fun | .run t 0 _ .start => some t | _ => none) = [0, 3, 2, 1] ∧
    (P14.wOf C03s_sharedRun.trace).orderObl = [(3, [2]), (0, [3, 1, 2])] ∧
    P15.elsewhere (P14.wOf C03s_sharedRun.trace) 2 := by decide
example : Spec.spec "C03" (Spec.mkCtx {} [(.value, C03s_shared)]) C03s_sharedRun.trace.reverse = none :=
  Spec_C03_accepts_run {} [(.value, C03s_shared)] [] 100 (by decide) (by decide) (by decide)

/-- **the guard hypothesis is needed**: with MAX_TASK_STACK_SIZE = 2 the guard fires when the leaf pushes its batch
    item; `wait_for` raises, the top-level call returns with two started tasks left uncomputed, and the observer
    reports the `.ret` clause on the machine's own trace -/
def C03s_guardRun : State := runFuel 100 (initState { maxStack := 2 } [(.value, C03s_parent)] [])
theorem Spec_C03_ret_needs_guard :
    C03s_guardRun.isDone = true ∧ C03s_guardRun.stuck = none ∧ C03s_guardRun.guardFired = true ∧
    Inv.noNonAsync C03s_guardRun = true ∧ P10.WellScoped C03s_parent 0 0 = true ∧
    Spec.spec "C03" (Spec.mkCtx { maxStack := 2 } [(.value, C03s_parent)]) C03s_guardRun.trace.reverse =
      some (8, "awaited-task-left-uncomputed") := by decide

/-- **the NonAsyncContext hypothesis is needed**: a task suspended inside a NonAsyncContext is failed by the
    scheduler when it is paused; the top-level call returns its AssertionError while the child it awaited has started
    and is still waiting for its batch -/
def C03s_naProg : Body := .withCtx .nonasync (.spawn C03s_leaf [] (.yld (.f (.own 0)) .endwith .endwith)) (.ret 1)
def C03s_naRun : State := runFuel 100 (initState {} [(.value, C03s_naProg)] [])
theorem Spec_C03_ret_needs_noNonAsync :
    C03s_naRun.isDone = true ∧ C03s_naRun.stuck = none ∧ C03s_naRun.guardFired = false ∧
    Inv.noNonAsync C03s_naRun = false ∧ P10.WellScoped C03s_naProg 0 0 = true ∧
    Spec.spec "C03" (Spec.mkCtx {} [(.value, C03s_naProg)]) C03s_naRun.trace.reverse =
      some (11, "awaited-task-left-uncomputed") := by decide

/-- in accordance with `Spec_C03_accepts_partial`, the observer without the two clauses accepts both traces -/
example : Spec.specRun (P15.chkC false false) default {} 0 C03s_guardRun.trace.reverse = none :=
  Spec_C03_accepts_partial _ _ (reach_runFuel _ _ _ _)
example : Spec.specRun (P15.chkC false false) default {} 0 C03s_naRun.trace.reverse = none :=
  Spec_C03_accepts_partial _ _ (reach_runFuel _ _ _ _)

end AsynqModel.Core
