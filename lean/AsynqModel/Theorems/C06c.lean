import AsynqModel.Lib.Contexts
import AsynqModel.Proofs.CtxEnter2
import AsynqModel.Proofs.CtxClauses
import AsynqModel.Proofs.CtxAlt3
/-!
# C06c  Task-scoped contexts under ARBITRARY histories of enter / exit / suspend / continue / finish

Theorems about the model `AsynqModel.Contexts` (asynq/contexts.py, scoped_value.py, the context bookkeeping of
async_task.py and its call sites in scheduler.py): one task, any number of contexts of the kinds plain AsyncContext
(with pause()/resume() raising at arbitrary call numbers), scoped-value override, NonAsyncContext, and ALL histories of
operations - blocks may overlap without being nested, operations may come in the wrong state.

`spec` is the Boolean observer the check evaluates on the observations of the real implementation (driver mode `ctxhist`).
-/
namespace AsynqModel.Contexts

/-- one operation: the observer accepts what the model does and stays related to the model's state (or stops making claims
    because the history misuses a block) -/
theorem step_sim (cfg : Cfg) (defs : List Kind) (nvars : Nat) (s : St) (w : W) (h : Rel defs nvars s w) (op : Op)
    (hc : cfg.cleanEnter = true ∨ ∀ c e, op = .enter c → (step cfg defs s op).2.esc ≠ .exc e) :
    ∃ w', watchStep defs nvars w (step cfg defs s op).2 = .ok w' ∧
      (w'.stopped = true ∨ Rel defs nvars (step cfg defs s op).1 w') := by
  rw [step_eq]
  cases op with
  | enter c =>
    refine enter_sim cfg defs nvars s w h c ?_
    rcases hc with hc | hc
    · exact Or.inl hc
    · exact Or.inr (fun e => hc c e rfl)
  | exit c => exact exit_sim cfg defs nvars s w h c
  | suspend => exact suspend_sim cfg defs nvars s w h
  | continue_ => exact continue_sim cfg defs nvars s w h
  | finish ok => exact finish_sim cfg defs nvars s w h ok

theorem watchRun_stopped (defs : List Kind) (nvars : Nat) (w : W) (hw : w.stopped = true) (obs : List Obs) :
    watchRun defs nvars w obs = .ok w := by
  induction obs with
  | nil => rfl
  | cons ob r ih => simp [watchRun, watchStep, hw, ih]

/-- no `enter` of the history let an exception of resume() escape -/
def noEnterRaise (obs : List Obs) : Bool :=
  obs.all fun ob => match ob.op, ob.esc with
    | .enter _, .exc _ => false
    | _, _ => true

theorem run_accepted (cfg : Cfg) (defs : List Kind) (nvars : Nat) (ops : List Op) :
    ∀ (s : St) (w : W), Rel defs nvars s w → (cfg.cleanEnter = true ∨ noEnterRaise (run cfg defs s ops) = true) →
      ∃ w', watchRun defs nvars w (run cfg defs s ops) = .ok w' ∧
        (w'.stopped = true ∨ Rel defs nvars (finalState cfg defs s ops) w') := by
  induction ops with
  | nil => intro s w h _; exact ⟨w, rfl, Or.inr h⟩
  | cons op rest ih =>
    intro s w h hc
    have hc1 : cfg.cleanEnter = true ∨ ∀ c e, op = .enter c → (step cfg defs s op).2.esc ≠ .exc e := by
      rcases hc with hc | hc
      · exact Or.inl hc
      · refine Or.inr (fun c e hop he => ?_)
        have hop' : (step cfg defs s op).2.op = .enter c := by rw [step_eq]; exact hop
        simp [run, noEnterRaise, hop', he] at hc
    have hc2 : cfg.cleanEnter = true ∨ noEnterRaise (run cfg defs (step cfg defs s op).1 rest) = true := by
      rcases hc with hc | hc
      · exact Or.inl hc
      · refine Or.inr ?_
        simp only [run, noEnterRaise, List.all_cons, Bool.and_eq_true] at hc
        exact hc.2
    obtain ⟨w1, hw1, hrel⟩ := step_sim cfg defs nvars s w h op hc1
    rcases hrel with hst | hrel
    · exact ⟨w1, by simp [run, watchRun, hw1, watchRun_stopped defs nvars w1 hst], Or.inl hst⟩
    · obtain ⟨w2, hw2, hfin⟩ := ih _ w1 hrel hc2
      exact ⟨w2, by simp [run, watchRun, hw1, hw2], by simpa [finalState] using hfin⟩

theorem rel_init (defs : List Kind) (nvars : Nat) : Rel defs nvars (init defs nvars) {} :=
  { core :=
      { reg := rfl, attr := fun _ _ hm => by simp at hm, lt := fun _ _ hm => by simp at hm, nodup := by simp,
        cslen := by simp [init], vlen := by simp [init], stkNodup := by simp, stkOv := fun _ hm => by simp at hm,
        chain := fun _ x hx => by
          show getV ((List.range nvars).map outer) x = outer x
          simp [getV, List.getD_eq_getElem?_getD, hx] },
    phase := rfl, active := rfl, status := rfl, runAct := fun _ => rfl, susAct := fun hx => by simp at hx,
    statNone := fun _ => rfl, stkOpen := fun _ hm => by simp at hm, stkAct := fun hx => by simp at hx, live := rfl }

/-- **the property as a whole, for the code as it is**: for all contexts and ALL histories in which no resume() raises
    inside `__enter__`, the observations of the model are accepted by `spec` -/
theorem C06c_spec_partial (cfg : Cfg) (defs : List Kind) (nvars : Nat) (ops : List Op)
    (h : noEnterRaise (run cfg defs (init defs nvars) ops) = true) :
    spec defs nvars (run cfg defs (init defs nvars) ops) = true := by
  obtain ⟨w', hw, _⟩ := run_accepted cfg defs nvars ops _ _ (rel_init defs nvars) (Or.inr h)
  simp [spec, hw]

/-- ... and WITHOUT any hypothesis for the repaired `AsyncContext.__enter__` (which unregisters the context again when
    its resume() raises): all contexts, all histories -/
theorem C06c_spec_holds_repaired (cfg : Cfg) (hcfg : cfg.cleanEnter = true) (defs : List Kind) (nvars : Nat) (ops : List Op) :
    spec defs nvars (run cfg defs (init defs nvars) ops) = true := by
  obtain ⟨w', hw, _⟩ := run_accepted cfg defs nvars ops _ _ (rel_init defs nvars) (Or.inl hcfg)
  simp [spec, hw]

/-- the hypothesis of `C06c_spec_partial` is needed for the code BEFORE the repair of `__enter__` (`leakyCfg`; /repo commit
    cfff886 repaired it): a context whose resume() raised inside `__enter__`
    (the exception escapes, the with-block is NOT entered, `__exit__` will never run) stays registered with the task and
    gets pause() at the next suspension -/
theorem C06c_enter_leak_counterexample :
    spec [.plain [1] []] 2 (run (leakyCfg false) [.plain [1] []] (init [.plain [1] []] 2) [.enter 0, .suspend]) = false ∧
    (run (leakyCfg false) [.plain [1] []] (init [.plain [1] []] 2) [.enter 0, .suspend]).map (·.calls) =
      [[⟨true, 0, true⟩], [⟨false, 0, false⟩]] := by
  decide

/-- ... and when the block is entered successfully LATER (a retry), the context keeps the place of the failed attempt
    among the registered ones: block 0 is entered after block 1 but paused after it - not last-in-first-out -/
theorem C06c_enter_leak_reorders_counterexample :
    (run (leakyCfg false) [.plain [2] [], .plain [] []] (init [.plain [2] [], .plain [] []] 1)
        [.enter 0, .exit 0, .enter 0, .enter 1, .enter 0, .suspend]).map (fun ob => (ob.calls.map unflag, ob.esc)) =
      [([(true, 0)], .none), ([(false, 0)], .none), ([(true, 0)], .exc (.hookR 0)), ([(true, 1)], .none),
       ([(true, 0)], .none), ([(false, 1), (false, 0)], .none)] ∧
    spec [.plain [2] [], .plain [] []] 1 (run (leakyCfg false) [.plain [2] [], .plain [] []]
      (init [.plain [2] [], .plain [] []] 1) [.enter 0, .exit 0, .enter 0, .enter 1, .enter 0, .suspend]) = false ∧
    spec [.plain [2] [], .plain [] []] 1 (run (repairedCfg false) [.plain [2] [], .plain [] []]
      (init [.plain [2] [], .plain [] []] 1) [.enter 0, .exit 0, .enter 0, .enter 1, .enter 0, .suspend]) = true := by
  decide

/-! ## the individual clauses, for the model in ANY state (no assumption on how the state was reached) -/

/-- `suspend` of a running task pauses EVERY registered context, the most recently entered first, exactly once each -
    also when some of the pause() calls raise; afterwards the task's contexts count as paused.  (With the bookkeeping
    `reg` = entry order of the open task-scoped blocks, whatever the order of the exits in between: see
    `C06c_exit_keeps_the_others`.) -/
theorem C06c_suspend_pauses_all_in_reverse_entry_order (cfg : Cfg) (defs : List Kind) (s : St)
    (hp : s.phase = .running) (ha : s.active = true) :
    (stepCore cfg defs s .suspend).2.1.map unflag = ((s.reg.reverse).filter (isPlain defs)).map (fun c => (false, c)) ∧
    (stepCore cfg defs s .suspend).1.active = false := by
  obtain ⟨cs, errs, hwalk, hcalls, herr, _, hact, _, _⟩ :=
    pauseLoop_walk defs s.reg.reverse { s with phase := .suspended, active := false } [] none
  rw [stepCore_suspend cfg defs s hp ha]
  refine ⟨?_, ?_⟩
  · simp only [hcalls, List.nil_append]; exact (walk_calls defs false _ _ _ hwalk).1
  · cases hx : (pauseLoop defs s.reg.reverse { s with phase := .suspended, active := false } [] none).2.2 with
    | none => simpa using hact
    | some x => simp only [acceptError]; split <;> simpa using hact

/-- a raising pause() fails the task with THAT exception - of the OUTERMOST (earliest entered) raising context when
    several raise (`_pause_contexts` keeps the last one) -, nothing escapes from the operation, and the task is failed
    if and only if some pause() raised; `errs` = what the pause() of each registered context raised, innermost first -/
theorem C06c_pause_error_fails_task (cfg : Cfg) (defs : List Kind) (s : St)
    (hp : s.phase = .running) (ha : s.active = true) (hs : s.status = .none) :
    ∃ errs, walk defs false s.reg.reverse (stepCore cfg defs s .suspend).2.1 = some errs ∧
      (stepCore cfg defs s .suspend).2.2 = .none ∧
      (stepCore cfg defs s .suspend).1.status = (match lastSome errs with | some e => .err e | none => .none) ∧
      (stepCore cfg defs s .suspend).1.phase = (match lastSome errs with | some _ => .done | none => .suspended) := by
  obtain ⟨cs, errs, hwalk, hcalls, herr, _, _, hph, hst⟩ :=
    pauseLoop_walk defs s.reg.reverse { s with phase := .suspended, active := false } [] none
  rw [stepCore_suspend cfg defs s hp ha]
  refine ⟨errs, by simpa [hcalls] using hwalk, rfl, ?_, ?_⟩ <;>
  · simp only [herr, keepLast]
    have hst' : (pauseLoop defs s.reg.reverse { s with phase := .suspended, active := false } [] none).1.status = .none :=
      hst.trans hs
    cases lastSome errs with
    | none => simp [hst', hph]
    | some x => simp [acceptError, hst']

/-- NonAsyncContext: a suspension while one is open fails the task (with AssertionError, unless an earlier-entered
    context's pause() raises as well) -/
theorem C06c_nonasync_suspension_fails_task (cfg : Cfg) (defs : List Kind) (s : St) (c : Nat)
    (hp : s.phase = .running) (ha : s.active = true) (hs : s.status = .none) (hc : c ∈ s.reg) (hk : kindOf defs c = .na) :
    (∃ e, (stepCore cfg defs s .suspend).1.status = .err e) ∧ (stepCore cfg defs s .suspend).1.phase = .done := by
  obtain ⟨errs, hwalk, _, hst, hph⟩ := C06c_pause_error_fails_task cfg defs s hp ha hs
  have := lastSome_ne_none errs _ (walk_na defs false _ _ _ c hwalk (by simpa using hc) hk)
  cases hl : lastSome errs with
  | none => exact absurd hl this
  | some e => rw [hl] at hst hph; exact ⟨⟨e, hst⟩, hph⟩

/-- `continue` of a suspended task resumes EVERY registered context in entry order, exactly once each - also when some
    resume() raises; a raising resume() fails the task with the FIRST exception raised; otherwise the task runs again -/
theorem C06c_continue_resumes_all_in_entry_order (cfg : Cfg) (defs : List Kind) (s : St)
    (hp : s.phase = .suspended) (ha : s.active = false) (hs : s.status = .none) :
    ∃ errs, walk defs true s.reg (stepCore cfg defs s .continue_).2.1 = some errs ∧
      (stepCore cfg defs s .continue_).2.1.map unflag = (s.reg.filter (isPlain defs)).map (fun c => (true, c)) ∧
      (stepCore cfg defs s .continue_).1.active = true ∧
      (stepCore cfg defs s .continue_).1.status = (match firstSome errs with | some e => .err e | none => .none) ∧
      (stepCore cfg defs s .continue_).1.phase = (match firstSome errs with | some _ => .done | none => .running) := by
  obtain ⟨cs, errs, hwalk, hcalls, herr, _, hact, hph, hst⟩ :=
    resumeLoop_walk defs s.reg { s with active := true } [] none
  have hst' : (resumeLoop defs s.reg { s with active := true } [] none).1.status = .none := hst.trans hs
  rw [stepCore_continue' cfg defs s hp ha hst']
  simp only [List.nil_append] at hcalls
  refine ⟨errs, by rw [hcalls]; exact hwalk, by rw [hcalls]; exact (walk_calls defs true _ _ _ hwalk).1, ?_, ?_, ?_⟩ <;>
  · simp only [herr, keepFirst]
    cases firstSome errs with
    | none => simp [hst', hact]
    | some x => simp [acceptError, hst', hact]

/-- leaving a block: a task-scoped AsyncContext gets exactly one pause() if the task's contexts are resumed, and NONE
    if they are paused already (the task is suspended, or it was failed while suspended and its generator is being
    closed); in both cases it is unregistered and the other contexts keep their places -/
theorem C06c_exit_pauses_iff_resumed (cfg : Cfg) (defs : List Kind) (s : St) (c : Nat) (hlt : c < defs.length)
    (hattr : (getC s.cs c).attr = .task) (hin : c ∈ s.reg) (hk : isAsyncCtx (kindOf defs c) = true) :
    (stepCore cfg defs s (.exit c)).1.reg = s.reg.erase c ∧
    (s.active = false → (stepCore cfg defs s (.exit c)).2.1 = [] ∧ (stepCore cfg defs s (.exit c)).2.2 = .none ∧
        (stepCore cfg defs s (.exit c)).1.vals = s.vals) ∧
    (s.active = true → (stepCore cfg defs s (.exit c)).2.1 = (pauseCtx defs { s with reg := s.reg.erase c } c).2.1 ∧
        (stepCore cfg defs s (.exit c)).2.2 = escOf (pauseCtx defs { s with reg := s.reg.erase c } c).2.2) := by
  have hstep : stepCore cfg defs s (.exit c) = exitOp cfg defs s c := by simp [stepCore, hlt]
  have hin' : s.reg.contains c = true := by simpa using hin
  rw [hstep]
  rcases Bool.eq_false_or_eq_true s.active with ha | ha
  · rw [exitOp_task_active cfg defs s c hattr hin' hk ha]
    obtain ⟨f1, _, _, _, _, f6, f7, _⟩ := afterPause_fields (pauseCtx defs { s with reg := s.reg.erase c } c) c
    exact ⟨by rw [f1, (pauseCtx_evOut defs _ c).2.1], fun h => by rw [ha] at h; exact absurd h (by simp), fun _ => ⟨f6, f7⟩⟩
  · rw [exitOp_task_paused cfg defs s c hattr hin' hk ha]
    exact ⟨rfl, fun _ => ⟨rfl, rfl, rfl⟩, fun h => by rw [ha] at h; exact absurd h (by simp)⟩

/-- leaving an older block does not disturb a newer one: `exit c` (of any context, in any state) never changes the
    registration of another context nor the relative order of the registered ones -/
theorem C06c_exit_keeps_the_others (cfg : Cfg) (defs : List Kind) (s : St) (c : Nat) :
    (stepCore cfg defs s (.exit c)).1.reg = s.reg ∨ (stepCore cfg defs s (.exit c)).1.reg = s.reg.erase c := by
  by_cases hlt : c < defs.length
  · have hstep : stepCore cfg defs s (.exit c) = exitOp cfg defs s c := by simp [stepCore, hlt]
    rw [hstep]
    have hp := fun s' => (pauseCtx_evOut defs s' c).2.1
    unfold exitOp
    simp only
    split
    · exact Or.inl rfl
    · split
      · exact Or.inl rfl
      · split
        · exact Or.inr rfl
        · split
          · rcases hx : pauseCtx defs { s with reg := s.reg.erase c } c with ⟨a, b, e⟩
            have := hp { s with reg := s.reg.erase c }; rw [hx] at this
            cases e <;> exact Or.inr this
          · exact Or.inr rfl
    · split
      · exact Or.inl rfl
      · rcases hx : pauseCtx defs s c with ⟨a, b, e⟩
        have := hp s; rw [hx] at this
        cases e <;> exact Or.inl this
  · exact Or.inl (by simp [stepCore, hlt])

/-! ## consequences of the simulation for the states REACHED by arbitrary histories -/

/-- every history (of the unrepaired code: without a resume() raising inside `__enter__`; of the repaired code: every history)
    leads to a state that the
    observer's picture describes - or the history misused a block and the observer has stopped -/
theorem C06c_reachable (cfg : Cfg) (defs : List Kind) (nvars : Nat) (ops : List Op)
    (h : cfg.cleanEnter = true ∨ noEnterRaise (run cfg defs (init defs nvars) ops) = true) :
    ∃ w, watchRun defs nvars {} (run cfg defs (init defs nvars) ops) = .ok w ∧
      (w.stopped = true ∨ Rel defs nvars (finalState cfg defs (init defs nvars) ops) w) :=
  run_accepted cfg defs nvars ops _ _ (rel_init defs nvars) h

/-- scoped values: after ANY well-used history whose overrides of one variable were paused last-in-first-out, every
    variable has the value of its innermost active override, else its outer value -/
theorem C06c_values_follow_innermost_override (cfg : Cfg) (defs : List Kind) (nvars : Nat) (ops : List Op)
    (h : cfg.cleanEnter = true ∨ noEnterRaise (run cfg defs (init defs nvars) ops) = true) (w : W)
    (hw : watchRun defs nvars {} (run cfg defs (init defs nvars) ops) = .ok w) (hs : w.stopped = false)
    (hv : w.valsOff = false) :
    (finalState cfg defs (init defs nvars) ops).vals = expectedVals defs w.stk nvars := by
  obtain ⟨w', hw', hrel⟩ := C06c_reachable cfg defs nvars ops h
  rw [hw] at hw'; cases hw'
  rcases hrel with hst | hrel
  · rw [hs] at hst; exact absurd hst (by simp)
  · exact vals_eq defs nvars _ w hrel.core hv

/-- ... in particular: while the task is suspended (or was failed during a suspension) no task-scoped override is
    active - if every open block is task-scoped, every variable has its outer value - -/
theorem C06c_paused_task_has_outer_values (cfg : Cfg) (defs : List Kind) (nvars : Nat) (ops : List Op)
    (h : cfg.cleanEnter = true ∨ noEnterRaise (run cfg defs (init defs nvars) ops) = true) (w : W)
    (hw : watchRun defs nvars {} (run cfg defs (init defs nvars) ops) = .ok w) (hs : w.stopped = false)
    (hv : w.valsOff = false) (hact : w.act = false) (hown : ∀ p ∈ w.opened, p.2 = true) :
    (finalState cfg defs (init defs nvars) ops).vals = (List.range nvars).map outer := by
  obtain ⟨w', hw', hrel⟩ := C06c_reachable cfg defs nvars ops h
  rw [hw] at hw'; cases hw'
  rcases hrel with hst | hrel
  · rw [hs] at hst; exact absurd hst (by simp)
  · have hstk : w.stk = [] := by
      cases hk : w.stk with
      | nil => rfl
      | cons d r =>
        have hd : d ∈ w.stk := by rw [hk]; simp
        obtain ⟨o, ho⟩ := (isOpen_iff w d).mp (hrel.stkOpen d hd)
        have : o = true := hown (d, o) ho
        subst this
        have := hrel.stkAct hact d hd
        rw [(ownedOpen_iff w d).mpr ho] at this
        exact absurd this (by simp)
    rw [vals_eq defs nvars _ w hrel.core hv, hstk]
    simp [expectedVals, expectedVal, stackOf]

/-- ... and when every block has been left - normally, by an exception, while the task runs, is suspended or is done -
    every variable is back to its outer value -/
theorem C06c_all_closed_restored (cfg : Cfg) (defs : List Kind) (nvars : Nat) (ops : List Op)
    (h : cfg.cleanEnter = true ∨ noEnterRaise (run cfg defs (init defs nvars) ops) = true) (w : W)
    (hw : watchRun defs nvars {} (run cfg defs (init defs nvars) ops) = .ok w) (hs : w.stopped = false)
    (hv : w.valsOff = false) (hcl : w.opened = []) :
    (finalState cfg defs (init defs nvars) ops).vals = (List.range nvars).map outer ∧
    (finalState cfg defs (init defs nvars) ops).reg = [] := by
  obtain ⟨w', hw', hrel⟩ := C06c_reachable cfg defs nvars ops h
  rw [hw] at hw'; cases hw'
  rcases hrel with hst | hrel
  · rw [hs] at hst; exact absurd hst (by simp)
  · have hstk : w.stk = [] := by
      cases hk : w.stk with
      | nil => rfl
      | cons d r =>
        have hd : d ∈ w.stk := by rw [hk]; simp
        obtain ⟨o, ho⟩ := (isOpen_iff w d).mp (hrel.stkOpen d hd)
        rw [hcl] at ho; simp at ho
    refine ⟨?_, by rw [hrel.core.reg]; simp [ownedIds, hcl]⟩
    rw [vals_eq defs nvars _ w hrel.core hv, hstk]
    simp [expectedVals, expectedVal, stackOf]

/-- the bookkeeping of the task is exactly the user's picture: the registered contexts are the open task-scoped blocks
    in entry order, and the task's `_contexts_active` flag says whether they are resumed -/
theorem C06c_registered_are_the_open_blocks (cfg : Cfg) (defs : List Kind) (nvars : Nat) (ops : List Op)
    (h : cfg.cleanEnter = true ∨ noEnterRaise (run cfg defs (init defs nvars) ops) = true) (w : W)
    (hw : watchRun defs nvars {} (run cfg defs (init defs nvars) ops) = .ok w) (hs : w.stopped = false) :
    (finalState cfg defs (init defs nvars) ops).reg = ownedIds w ∧
    (finalState cfg defs (init defs nvars) ops).active = w.act ∧
    ((finalState cfg defs (init defs nvars) ops).phase = .running → (finalState cfg defs (init defs nvars) ops).active = true) ∧
    ((finalState cfg defs (init defs nvars) ops).phase = .suspended → (finalState cfg defs (init defs nvars) ops).active = false) := by
  obtain ⟨w', hw', hrel⟩ := C06c_reachable cfg defs nvars ops h
  rw [hw] at hw'; cases hw'
  rcases hrel with hst | hrel
  · rw [hs] at hst; exact absurd hst (by simp)
  · exact ⟨hrel.core.reg, hrel.active, fun hp => hrel.active.trans (hrel.runAct (hrel.phase.symm.trans hp)),
      fun hp => hrel.active.trans (hrel.susAct (hrel.phase.symm.trans hp))⟩

/-! ## what acceptance by the observer MEANS (about `spec` alone: also valid for the implementation's observations) -/

/-- strict alternation: in every history of observations that the observer accepts without stopping, the resume() and
    pause() calls on a plain context c (none of which raised) strictly alternate, starting with a resume, and the last one
    is a resume if and only if the block is open and resumed at the end - so c is paused whenever its block has been left
    and whenever its task is suspended.  (`altRun false l = some b`: l alternates starting with `true`, ends with b) -/
theorem C06c_alternate (defs : List Kind) (nvars : Nat) (obs : List Obs) (w : W) (c : Nat) (hp : isPlain defs c = true)
    (hw : watchRun defs nvars {} obs = .ok w) (hs : w.stopped = false)
    (hnr : ∀ ob ∈ obs, ∀ cl ∈ ob.calls, cl.c = c → cl.raised = false) :
    altRun false (onCtx c (obs.flatMap (·.calls))) = some (resumedNow w c) := by
  have hwf : WF ({} : W) := { nodup := by simp, runAct := fun _ => rfl, susAct := fun hx => by simp at hx }
  have := alt_run defs nvars c hp obs {} w hwf rfl hw hs hnr
  simpa [resumedNow, isOpen] using this

/-- ... hence for the model, for ALL well-used histories: the calls the model makes on c alternate -/
theorem C06c_model_alternates (cfg : Cfg) (defs : List Kind) (nvars : Nat) (ops : List Op) (c : Nat)
    (hp : isPlain defs c = true)
    (h : cfg.cleanEnter = true ∨ noEnterRaise (run cfg defs (init defs nvars) ops) = true) (w : W)
    (hw : watchRun defs nvars {} (run cfg defs (init defs nvars) ops) = .ok w) (hs : w.stopped = false)
    (hnr : ∀ ob ∈ run cfg defs (init defs nvars) ops, ∀ cl ∈ ob.calls, cl.c = c → cl.raised = false) :
    altRun false (onCtx c ((run cfg defs (init defs nvars) ops).flatMap (·.calls))) = some (resumedNow w c) ∧
    (resumedNow w c = true → c ∈ (finalState cfg defs (init defs nvars) ops).reg ∨ ownedOpen w c = false) := by
  refine ⟨C06c_alternate defs nvars _ w c hp hw hs hnr, fun hr => ?_⟩
  obtain ⟨h1, _⟩ := C06c_registered_are_the_open_blocks cfg defs nvars ops h w hw hs
  cases ho : ownedOpen w c with
  | false => exact Or.inr rfl
  | true => exact Or.inl (by rw [h1, mem_ownedIds]; exact (ownedOpen_iff w c).mp ho)

/-! ## operations in the wrong state, as the code handles them -/

/-- `__exit__` of a context that was never entered (or was left already): AttributeError escapes and nothing changes
    (uncompiled build; in the compiled build `_active_task` is a typed slot that reads None: see `exitOp`) -/
theorem C06c_exit_not_entered (cfg : Cfg) (defs : List Kind) (s : St) (c : Nat) (hlt : c < defs.length)
    (ht : cfg.typed = false) (hattr : (getC s.cs c).attr = .absent) :
    stepCore cfg defs s (.exit c) = (s, [], .exc .attrError) := by
  simp [stepCore, hlt, exitOp, hattr, ht]

/-- `__enter__` twice: the context keeps its place among the registered ones and gets a second resume() -/
theorem C06c_enter_twice_keeps_place (s : St) (c : Nat) (hin : c ∈ s.reg) :
    (enterS1 s c).reg = s.reg := by
  simp [enterS1, hin]

/-- save/restore contexts only compose last-in-first-out (in synchronous code just as well): two overrides of ONE
    variable left in the order they were entered leave the variable at the inner value for good - which is why the
    observer stops making claims about values at the first such pause (`valsOff`) -/
theorem C06c_values_need_lifo :
    (finalState (leakyCfg false) [.ov 0 1, .ov 0 2] (init [.ov 0 1, .ov 0 2] 1) [.enter 0, .enter 1, .exit 0, .exit 1]).vals = [1] ∧
    spec [.ov 0 1, .ov 0 2] 1 (run (leakyCfg false) [.ov 0 1, .ov 0 2] (init [.ov 0 1, .ov 0 2] 1) [.enter 0, .enter 1, .exit 0, .exit 1]) = true := by
  decide

/-! ## non-vacuity -/

/-- two blocks that overlap without being nested, a suspension in between: a b entered, a left, suspension pauses b only,
    continuation resumes b only -/
example : (run (leakyCfg false) [.plain [] [], .plain [] []] (init [.plain [] [], .plain [] []] 1)
    [.enter 0, .enter 1, .exit 0, .suspend, .continue_, .exit 1, .finish true]).map (fun ob => ob.calls.map unflag) =
    [[(true, 0)], [(true, 1)], [(false, 0)], [(false, 1)], [(true, 1)], [(false, 1)], []] := by decide

/-- three blocks, the middle one left first; a raising pause() of the outermost fails the task, the others are still
    paused, and the exits that follow do not pause a second time -/
example : (run (leakyCfg false) [.plain [] [1], .plain [] [], .plain [] []] (init [.plain [] [1], .plain [] [], .plain [] []] 1)
    [.enter 0, .enter 1, .enter 2, .exit 1, .suspend, .exit 2, .exit 0]).map (fun ob => (ob.calls.map unflag, ob.status)) =
    [([(true, 0)], .none), ([(true, 1)], .none), ([(true, 2)], .none), ([(false, 1)], .none),
     ([(false, 2), (false, 0)], .err (.hookP 0)), ([], .err (.hookP 0)), ([], .err (.hookP 0))] := by decide

/-- overrides of two variables that overlap, across a suspension: values as in sequential code, outer values while
    suspended -/
example : (run (leakyCfg false) [.ov 0 1, .ov 1 2] (init [.ov 0 1, .ov 1 2] 2)
    [.enter 0, .enter 1, .exit 0, .suspend, .continue_, .exit 1]).map (·.vals) =
    [[1, 101], [1, 2], [100, 2], [100, 101], [100, 2], [100, 101]] := by decide

example : spec [.ov 0 1, .ov 1 2] 2 (run (leakyCfg false) [.ov 0 1, .ov 1 2] (init [.ov 0 1, .ov 1 2] 2)
    [.enter 0, .enter 1, .exit 0, .suspend, .continue_, .exit 1]) = true := by decide

/-- `altRun false` accepts exactly the sequences resume, pause, resume, ... -/
example : altRun false [true, false, true] = some true ∧ altRun false [true, true] = none ∧ altRun false [false] = none ∧
    altRun false [true, false, false] = none := by decide

/-- the observer is not trivially true: it rejects a suspension that pauses in entry order ... -/
example : spec [.plain [] [], .plain [] []] 1
    [⟨.enter 0, [⟨true, 0, false⟩], .none, [100], .none⟩, ⟨.enter 1, [⟨true, 1, false⟩], .none, [100], .none⟩,
     ⟨.suspend, [⟨false, 0, false⟩, ⟨false, 1, false⟩], .none, [100], .none⟩] = false := by decide
/-- ... a second pause() at the exit of a block whose task was failed while suspended ... -/
example : spec [.plain [] [1]] 1
    [⟨.enter 0, [⟨true, 0, false⟩], .none, [100], .none⟩,
     ⟨.suspend, [⟨false, 0, true⟩], .none, [100], .err (.hookP 0)⟩,
     ⟨.exit 0, [⟨false, 0, false⟩], .none, [100], .err (.hookP 0)⟩] = false := by decide
/-- ... a raising pause() that does not fail the task ... -/
example : spec [.plain [] [1]] 1
    [⟨.enter 0, [⟨true, 0, false⟩], .none, [100], .none⟩,
     ⟨.suspend, [⟨false, 0, true⟩], .none, [100], .none⟩] = false := by decide
/-- ... an override that is still in force while the task is suspended ... -/
example : spec [.ov 0 1] 1
    [⟨.enter 0, [], .none, [1], .none⟩, ⟨.suspend, [], .none, [1], .none⟩] = false := by decide
/-- ... and a NonAsyncContext that lets the task be suspended -/
example : spec [.na] 1
    [⟨.enter 0, [], .none, [100], .none⟩, ⟨.suspend, [], .none, [100], .none⟩] = false := by decide

end AsynqModel.Contexts
