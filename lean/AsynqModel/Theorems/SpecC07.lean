import AsynqModel.Proofs.P17Read
import AsynqModel.Proofs.P17Part
import AsynqModel.Proofs.P17C01
import AsynqModel.Theorems.SpecC02
/-!
# SPECM for C07: the executable observer `Spec.checkC07` accepts every trace of the machine

`Spec.checkC07` (`Core/Spec.lean`) is the observer the checks run on the trace of the REAL scheduler; the driver also
runs it on the trace of the model (SPECM).  Here: it raises no clause on the trace of any reachable state of the
machine - for well-scoped programs, while the MAX_TASK_STACK_SIZE guard has not fired and no NonAsyncContext exists.
The trace is stored newest first, the observer reads it oldest first (`s.trace.reverse`).

Clauses and where they come from:
* `ctx false c` with `c` not on top of the observer's stack of resumed contexts ("pause-not-innermost",
  "pause-without-resume"): `C07_lifo` + `P17.ctxStack_of_lifo`;
* `svals l` with a non-zero value ("override-not-restored"): `C07_svals_zero`;
* `ret _` with a resumed context left ("context-left-active"): `P7.ret_paused` + `P17.lifo_mem_word`;
* `bad _` ("unknown-event"): `P13.no_bad`;
* `read t var v` ("scoped-read-differs-from-sequential"): when every task on the awaiting chain from `t` to the root
  has exactly one awaiter (`Spec.Watch.chain`), `v` is the value of the innermost open override of `var` along that
  chain (nearest task first, latest entered first), else 0.  This is `P17.read_ok`:
  - the observer's table of contexts is the machine's, a context is registered with a task iff the observer has it
    open with that owner, the registered contexts of a task are in creation order (`P17.G2`, so the observer's
    candidate of a task is the innermost override among the task's registered contexts: `P17.cand_eq`);
  - whoever the machine says waits for a future is among the observer's `awaiters` of it, every awaiter can name the
    future it awaits, and nobody can name the root of a top-level computation (`P17.G1`), so the observer's chain of
    the running task is the spine of the labelled task stack of P12 - the running task, the task on whose behalf it
    was pushed, and so on down to the root (`P17.chain_top`);
  - the contexts of all tasks on that spine are active (`P17.LabIA`), every task with resumed contexts is on it
    (`P12.Heads`), and both the spine and the tasks with resumed contexts in stack order are sorted by the creation
    order (`P12.Lab.top_lt`, `P7.HotPos`): so the resumed contexts, most recently resumed first (`P7.rstack`), are
    the registered contexts of the tasks of the chain, nearest task first, latest entered first;
  - every scoped value is the value of the innermost resumed override (`C07_values`).

Hypotheses (all three are those of `C07_lifo` / `C07_values`):
* well-scoped programs (`P10.WellScoped`): needed, see `SpecC07_bad` below (an ill-scoped program builds an await
  cycle and the scheduler pauses a context that is not the innermost resumed one);
* `guardFired = false`: needed, see `SpecC07_guard` (the guard throws the task stack away, contexts stay resumed);
* no NonAsyncContext (`Inv.noNonAsync`): inherited from `C07_lifo` and `P12.J`; no counterexample is known (a task
  failed by `NonAsyncContext.pause()` is completed and its with-blocks are left in LIFO order in the model).
-/
namespace AsynqModel.Core
open AsynqModel.Core.P17

/-- **SPECM = none for C07**, every reachable state of a well-scoped run: the observer of property C07 - all five
    clauses, including the scoped-read clause - accepts the trace (for every observer context: `checkC07` does not
    look at it). -/
theorem Spec_C07_accepts_ws (s : State) (h : P10.WSReach s) (hg : s.guardFired = false)
    (hna : Inv.noNonAsync s = true) (ctx : Spec.Ctx) : Spec.spec "C07" ctx s.trace.reverse = none := by
  show Spec.specRun Spec.checkC07 ctx {} 0 s.trace.reverse = none
  rw [P13.specRun_none_iff, acc_split]
  exact ⟨(RA_reach h hg (P7.na_of_noNonAsync hna) ctx).g1.acc, acc_rest s h hg hna ctx⟩

/-- the states of the run of a well-scoped program are `P10.WSReach` -/
theorem wsreach_of_reachFrom {cfg : Cfg} {tops : List (Conv × Body)} {choices : List (Nat × Nat)} {s : State}
    (h : P13.ReachFrom (initState cfg tops choices) s) (hws : ∀ p, p ∈ tops → P10.WellScoped p.2 0 0 = true) :
    P10.WSReach s := by
  induction h with
  | init => exact P10.WSReach.init cfg tops choices hws
  | step _ ih => exact P10.WSReach.step ih

/-- **Spec_C07_accepts** (the statement as assigned): for the run of the machine on `tops` with flush oracle `choices`,
    if every top-level computation is well-scoped, the stack guard has not fired and no NonAsyncContext exists, the
    executable observer of C07 with the context of that run accepts the trace. -/
theorem Spec_C07_accepts (cfg : Cfg) (tops : List (Conv × Body)) (choices : List (Nat × Nat)) (s : State)
    (h : P13.ReachFrom (initState cfg tops choices) s) (hws : ∀ p, p ∈ tops → P10.WellScoped p.2 0 0 = true)
    (hg : s.guardFired = false) (hna : Inv.noNonAsync s = true) :
    Spec.spec "C07" (Spec.mkCtx cfg tops) s.trace.reverse = none :=
  Spec_C07_accepts_ws s (wsreach_of_reachFrom h hws) hg hna _

/-- the same for a run with fuel -/
theorem Spec_C07_accepts_run (cfg : Cfg) (tops : List (Conv × Body)) (choices : List (Nat × Nat)) (n : Nat)
    (hws : ∀ p, p ∈ tops → P10.WellScoped p.2 0 0 = true)
    (hg : (runFuel n (initState cfg tops choices)).guardFired = false)
    (hna : Inv.noNonAsync (runFuel n (initState cfg tops choices)) = true) :
    Spec.spec "C07" (Spec.mkCtx cfg tops) (runFuel n (initState cfg tops choices)).trace.reverse = none :=
  Spec_C07_accepts cfg tops choices _ (P13.reachFrom_runFuel _ n) hws hg hna

/-- the clause about `.read` events on its own, as a statement about the machine: while the code of task `t` runs, the
    observer's `.read` clause holds for the current value of every scoped variable -/
theorem Spec_C07_read_value (s : State) (h : P10.WSReach s) (hg : s.guardFired = false)
    (hna : Inv.noNonAsync s = true) (ctx : Spec.Ctx) (t : Nat) (old : Option Nat) (rest : List Ctl)
    (hctl : s.ctl = .gen t old :: rest) (var : Nat) :
    Spec.checkC07 ctx (P13.obs s.trace) (.read t var (.a (s.svGet var))) = none :=
  read_ok h hg (P7.na_of_noNonAsync hna) (RA_reach h hg (P7.na_of_noNonAsync hna) ctx) hctl var

/-- all clauses except "scoped-read-differs-from-sequential" (`P17.checkRest`: `checkC07` with the `.read` clause
    removed) -/
theorem Spec_C07_accepts_partial (s : State) (h : P10.WSReach s) (hg : s.guardFired = false)
    (hna : Inv.noNonAsync s = true) (ctx : Spec.Ctx) : Spec.specRun checkRest ctx {} 0 s.trace.reverse = none :=
  (P13.specRun_none_iff _ _ _).2 (acc_rest s h hg hna ctx)

/-- ... and the restricted observer differs from the real one only on that clause -/
theorem Spec_C07_partial_differs (ctx : Spec.Ctx) (w : Spec.Watch) (e : Event) :
    checkRest ctx w e = Spec.checkC07 ctx w e ∨
      (checkRest ctx w e = none ∧ Spec.checkC07 ctx w e = some "scoped-read-differs-from-sequential") :=
  checkRest_eq ctx w e

/-- **SPECM = none for C01**: the observer of property C01 is the delivery observer of C02 plus the `.read` clause of
    C07 ("C01 includes what task code reads from scoped values"); with `Spec_C02_accepts` for the first part and the
    `.read` clause proved here, it accepts every trace of a well-scoped run (stack guard not fired, no NonAsyncContext). -/
theorem Spec_C01_accepts {cfg : Cfg} {tops : List (Conv × Body)} {choices : List (Nat × Nat)} (s : State)
    (h : P4.ReachW cfg tops choices s) (hg : s.guardFired = false) (hn : Inv.noNonAsync s = true) :
    Spec.spec "C01" (Spec.mkCtx cfg tops) s.trace.reverse = none := by
  show Spec.specRun Spec.checkC01 (Spec.mkCtx cfg tops) {} 0 s.trace.reverse = none
  rw [P13.specRun_none_iff, acc_C01]
  refine ⟨(okTr_iff_acc _ _).1 ((P14.spec_C02_iff _ _).1 (Spec_C02_accepts s h hg hn)), ?_⟩
  exact (RA_reach (wsreach_of_reachW h) hg (P7.na_of_noNonAsync hn) _).g1.acc

/-! ## non-vacuity -/

/-- the observer of C01 rejects a wrong scoped read, and accepts the run of the shared-task example below -/
example : Spec.spec "C01" (Spec.mkCtx {} [])
    [.top 0 .value, .new 0 (.task none), .run 0 0 true .start, .ctxN 0 0 (.override 1 10), .ctx true 0,
     .read 0 1 (.a 0)] = some (5, "scoped-read-differs-from-sequential") := by decide

/-- the observer does reject: a read that differs from the innermost open override on the chain, a pause of a context
    that is not the innermost resumed one, a context left resumed, a scoped value that is not restored -/
example : Spec.spec "C07" (Spec.mkCtx {} [])
    [.top 0 .value, .new 0 (.task none), .run 0 0 true .start, .ctxN 0 0 (.override 1 10), .ctx true 0,
     .read 0 1 (.a 0)] = some (5, "scoped-read-differs-from-sequential") := by decide
example : Spec.spec "C07" (Spec.mkCtx {} [])
    [.top 0 .value, .new 0 (.task none), .run 0 0 true .start, .ctxN 0 0 (.override 1 10), .ctx true 0,
     .read 0 1 (.a 10)] = none := by decide
example : Spec.spec "C07" (Spec.mkCtx {} [])
    [.ctxN 0 0 .plain, .ctx true 0, .ctxN 1 0 .plain, .ctx true 1, .ctx false 0] = some (4, "pause-not-innermost") := by
  decide
example : Spec.spec "C07" (Spec.mkCtx {} []) [.ctxN 0 0 .plain, .ctx true 0, .ret (.ok .none)] =
    some (2, "context-left-active") := by decide
example : Spec.spec "C07" (Spec.mkCtx {} []) [.svals [(1, .a 3)]] = some (0, "override-not-restored") := by decide

/-- the program of `Theorems/C07b.lean`: a parent awaits two siblings inside an override; every task reads inside its
    with-blocks.  The hypotheses hold for its run, the observer accepts the trace (by the theorem), and the trace
    contains the events the clauses talk about: reads inside nested overrides, pauses, the final report -/
example : Spec.spec "C07" (Spec.mkCtx {} [(.value, C07b_prog)]) C07b_final.trace.reverse = none :=
  Spec_C07_accepts_run {} _ [] 100 (by intro p hp; simp at hp; subst hp; decide) (by decide) (by decide)

example : Event.read 1 1 (.a 11) ∈ C07b_final.trace ∧ Event.read 2 2 (.a 21) ∈ C07b_final.trace ∧
    Event.read 0 3 (.a 30) ∈ C07b_final.trace ∧ Event.ctx false 2 ∈ C07b_final.trace ∧
    C07b_final.isDone = true ∧ C07b_final.stuck = none := by decide

/-- the same by evaluation of the observer, on the trace up to the last step of the run (the payload of the final
    `.svals` event is sorted with `mergeSort`, which the kernel does not unfold) -/
example : Spec.spec "C07" (Spec.mkCtx {} [(.value, C07b_prog)]) (runFuel 56 C07b_init).trace.reverse = none ∧
    (runFuel 56 C07b_init).ctl = [] ∧ (runFuel 57 C07b_init).isDone = true := by decide +kernel

/-- a nested synchronous call inside an override: the callee reads the caller's override (the caller is on its chain
    through the observer's `syncStack`) -/
def SpecC07_sync : Body :=
  .withCtx (.override 2 7)
    (.sync (.read 2 (.item 0 3 .ok (.yld (.f (.own 0)) (.read 2 (.ret 5)) (.raise 0)))) [] (.read 2 .endwith)
      (.read 2 .endwith))
    (.read 2 (.ret 0))

example : let s := runFuel 200 (initState {} [(.value, SpecC07_sync)] [])
    s.isDone = true ∧ s.stuck = none ∧ Event.read 1 2 (.a 7) ∈ s.trace ∧ Event.read 0 2 (.a 0) ∈ s.trace := by decide

example : Spec.spec "C07" (Spec.mkCtx {} [(.value, SpecC07_sync)])
    (runFuel 200 (initState {} [(.value, SpecC07_sync)] [])).trace.reverse = none :=
  Spec_C07_accepts_run {} _ [] 200 (by intro p hp; simp at hp; subst hp; decide) (by decide) (by decide)

/-- a shared task: X is handed to Y and Z, which await it inside different overrides.  X's first read happens while
    only Y awaits it (the chain is X, Y, root: it reads Y's 11); after the flush both Y and Z await it, the observer's
    chain is undefined and the clause does not apply (X still reads 11 - the statement does not fix it) -/
def SpecC07_X : Body := .read 1 (.item 0 1 .ok (.yld (.f (.own 0)) (.read 1 (.ret 9)) (.raise 0)))
def SpecC07_Y : Body := .withCtx (.override 1 11) (.yld (.f (.inh 0)) (.read 1 .endwith) (.raise 0)) (.ret 1)
def SpecC07_Z : Body := .withCtx (.override 1 12) (.yld (.f (.inh 0)) (.read 1 .endwith) (.raise 0)) (.ret 2)
def SpecC07_shared : Body :=
  .spawn SpecC07_X [] (.spawn SpecC07_Y [.own 0] (.spawn SpecC07_Z [.own 0]
    (.yld (.tup [.f (.own 1), .f (.own 2)]) (.read 1 (.ret 0)) (.raise 1))))

example : let s := runFuel 300 (initState {} [(.value, SpecC07_shared)] [])
    s.isDone = true ∧ s.stuck = none ∧
    (s.trace.reverse.filterMap fun e => match e with | .read t v x => some (t, v, x) | _ => none) =
      [(1, 1, .a 11), (1, 1, .a 11), (2, 1, .a 11), (3, 1, .a 12), (0, 1, .a 0)] := by decide

example : Spec.spec "C07" (Spec.mkCtx {} [(.value, SpecC07_shared)])
    (runFuel 300 (initState {} [(.value, SpecC07_shared)] [])).trace.reverse = none :=
  Spec_C07_accepts_run {} _ [] 300 (by intro p hp; simp at hp; subst hp; decide) (by decide) (by decide)

/-- ... and the observer of C01 (delivery + scoped reads) accepts the same trace -/
example : Spec.spec "C01" (Spec.mkCtx {} [(.value, SpecC07_shared)])
    (runFuel 300 (initState {} [(.value, SpecC07_shared)] [])).trace.reverse = none :=
  Spec_C01_accepts _ (C01_reachW_runFuel {} _ [] (by decide) 300) (by decide) (by decide)

/-- `guardFired = false` is needed: with `MAX_TASK_STACK_SIZE = 1` the guard resets the scheduler while the parent's
    override is resumed; nothing pauses it and the observer objects when the computation returns -/
def SpecC07_guard : Body :=
  .withCtx (.override 1 5)
    (.spawn (.read 1 (.ret 1)) [] (.yld (.f (.own 0)) (.read 1 .endwith) (.read 1 .endwith)))
    (.read 1 (.ret 0))

example : let s := runFuel 100 (initState { maxStack := 1 } [(.value, SpecC07_guard)] [])
    s.isDone = true ∧ s.stuck = none ∧ s.guardFired = true ∧ Inv.noNonAsync s = true ∧
    P10.WellScoped SpecC07_guard 0 0 = true ∧
    Spec.spec "C07" (Spec.mkCtx { maxStack := 1 } [(.value, SpecC07_guard)]) s.trace.reverse =
      some (7, "context-left-active") := by decide +kernel

/-- well-scopedness is needed: the child's `inh 0` names a future it was not handed and resolves to future 0, the
    root: the child awaits its own parent, the root is pushed above its own entry and at its "second visit" pauses its
    context while the child's context, resumed later, is still resumed -/
def SpecC07_badChild : Body := .withCtx (.override 1 7) (.yld (.f (.inh 0)) (.ret 3) .reraise) (.ret 4)
def SpecC07_bad : Body :=
  .withCtx (.override 1 5) (.spawn SpecC07_badChild [] (.yld (.f (.own 0)) (.ret 1) .reraise)) (.ret 2)

example : let s := runFuel 20 (initState {} [(.value, SpecC07_bad)] [])
    s.stuck = none ∧ s.guardFired = false ∧ Inv.noNonAsync s = true ∧ P10.WellScoped SpecC07_bad 0 0 = false ∧
    Spec.spec "C07" (Spec.mkCtx {} [(.value, SpecC07_bad)]) s.trace.reverse = some (11, "pause-not-innermost") := by
  decide +kernel

end AsynqModel.Core
