import AsynqModel.Proofs.P12Final
import AsynqModel.Theorems.C06
import AsynqModel.Theorems.Acyclic
/-!
# C06, third part: "it is resumed whenever that task's own code runs (including synchronous calls it makes) and
# whenever tasks that only it is awaiting run; it is PAUSED whenever a task it is not awaiting runs and whenever a
# batch is flushed while the task is suspended"

Vocabulary (Proofs/P12Defs.lean): `P12.awaits s t u` - in state `s` task `t` waits for future `u`: `t` is uncomputed and
suspended at a yield (`pending`) and `u` is a leaf of the structure it yielded last / one of its `_dependencies`, or the
generator of `t` is stopped in the synchronous call `u.value()` (its body is `.syncret u ..`, not pending, and the
`wait_for(u)` frame sits directly on top of `t`'s generator frame on the Python stack).  `P12.awaitsStar s` is the
reflexive-transitive closure.

Hypotheses: `P10.WSReach s` (reachable, every top-level computation well-scoped: an ill-scoped program can build an
await cycle, see Theorems/Acyclic.lean), `s.guardFired = false` (the MAX_TASK_STACK_SIZE guard throws the task stack
away and leaves contexts resumed), `Inv.noNonAsync s` (a task failed by `NonAsyncContext.pause()` keeps running).

* `C06_resumed_implies_awaiting` : while the code of task `u` runs (head of the Python stack is `u`'s generator frame),
  EVERY resumed context belongs to `u`, to a task that waits for `u` directly or through other tasks, or to a task in
  the middle of a synchronous call that leads to `u`.  `C06_paused_unless_awaiting` is the contrapositive: the contexts
  of a task that is not awaiting `u` are paused while `u` runs.
* `C06_resumed_awaits_top` : the same at ANY time, with the top of the scheduler's task stack in place of `u`.
* `C06_paused_at_outer_flush` : when the scheduler flushes a batch for the outermost `wait_for` every context is
  paused, and the flush itself resumes nothing.  `C06_flush_nested`: at a flush inside a nested `wait_for` the resumed
  contexts belong to the caller of that synchronous call or to tasks waiting for it.
* `C06_own_code_resumed` : every registered (non-NonAsync) context of a task whose generator frame is on the Python
  stack is resumed - while its own code runs and while synchronous calls it made run;
  `C06_own_code_resumed_after_call`: in particular right after such a call returned.
-/
namespace AsynqModel.Core
open P5 P7 P12

/-- **C06_resumed_awaits_top**: the owner of every resumed context waits (`awaitsStar`) for the future on top of the
    scheduler's task stack (which is not empty). -/
theorem C06_resumed_awaits_top (s : State) (h : P10.WSReach s) (hg : s.guardFired = false)
    (hna : Inv.noNonAsync s = true) (c : Nat) (x : CtxSt) (hx : s.ctxs[c]? = some x) (hr : x.resumed = true) :
    ∃ t, x.owner = some t ∧ c ∈ (s.task t).ctxs ∧ ∃ top stk, s.stack = top :: stk ∧ awaitsStar s t top := by
  have na := na_of_noNonAsync hna
  have j := J_reach h hg na
  obtain ⟨o, ho, hm, hk, ha, hc⟩ := resumed_owner h.reach hg na hx hr
  refine ⟨o, ho, hm, ?_⟩
  cases hst : s.stack with
  | nil => exact absurd hst (active_stack_ne j hk ha hc)
  | cons top stk => exact ⟨top, stk, rfl, active_awaits_top j hst hk ha hc⟩

/-- **C06_resumed_implies_awaiting**: while the code of task `u` runs, every resumed context belongs to `u` itself,
    to a task waiting - directly or through tasks - for `u`, or to a task in the middle of a synchronous call that
    leads to `u`. -/
theorem C06_resumed_implies_awaiting (s : State) (h : P10.WSReach s) (hg : s.guardFired = false)
    (hna : Inv.noNonAsync s = true) (c : Nat) (x : CtxSt) (hx : s.ctxs[c]? = some x) (hr : x.resumed = true)
    (u : Nat) (old : Option Nat) (rest : List Ctl) (hctl : s.ctl = .gen u old :: rest) :
    ∃ t, x.owner = some t ∧ c ∈ (s.task t).ctxs ∧ awaitsStar s t u := by
  obtain ⟨t, ho, hm, top, stk, hst, ha⟩ := C06_resumed_awaits_top s h hg hna c x hx hr
  have hd := (P10.ws_cinv h hg).disc
  rw [hctl, hst] at hd
  have : top = u := by simpa using hd.1
  exact ⟨t, ho, hm, this ▸ ha⟩

/-- **C06_paused_unless_awaiting** ("paused whenever a task it is not awaiting runs"): while the code of task `u`
    runs, every context of a task `t` that does not wait for `u` is paused. -/
theorem C06_paused_unless_awaiting (s : State) (h : P10.WSReach s) (hg : s.guardFired = false)
    (hna : Inv.noNonAsync s = true) (c : Nat) (x : CtxSt) (hx : s.ctxs[c]? = some x) (t : Nat)
    (ho : x.owner = some t) (u : Nat) (old : Option Nat) (rest : List Ctl) (hctl : s.ctl = .gen u old :: rest)
    (hn : ¬ awaitsStar s t u) : x.resumed = false := by
  cases hr : x.resumed with
  | false => rfl
  | true =>
    obtain ⟨t', ho', _, ha⟩ := C06_resumed_implies_awaiting s h hg hna c x hx hr u old rest hctl
    rw [ho] at ho'; cases ho'
    exact absurd ha hn

/-- **C06_paused_at_outer_flush** ("paused whenever a batch is flushed while the task is suspended"): when the
    outermost `wait_for(root)` finds its `_execute` finished and `root` not computed, the step is a scheduler flush,
    every context is paused at that moment, and the flush changes no context and logs no resume/pause. -/
theorem C06_paused_at_outer_flush (s : State) (h : Reach s) (hs : s.stuck = none) (hg : s.guardFired = false)
    (hna : Inv.noNonAsync s = true) (root base : Nat) (hctl : s.ctl = [.waitLoop root base])
    (hlen : s.stack.length ≤ base) (hnc : s.computed root = false) :
    step s = s.schedulerFlush root ∧ (∀ (c : Nat) (x : CtxSt), s.ctxs[c]? = some x → x.resumed = false) ∧
    (step s).ctxs = s.ctxs ∧ ∃ evs, (step s).trace = evs ++ s.trace ∧ ∀ e ∈ evs, calm e = true := by
  have na := na_of_noNonAsync hna
  have k := K_reach h hg na
  have hr := (P3.reach_core s h hg).1.raising
  have e := step_eq_flush s hs root base [] hctl hr hlen hnc
  have q : Q calm s (s.schedulerFlush root) := q_schedulerFlush (fun e _ h => h) s root (P2.pinv_reach h).items
  refine ⟨e, ?_, by rw [e]; exact q.ctxs, by rw [e]; exact q.trace⟩
  have hst : s.stack = [] := by
    have := k.sf
    rw [hctl, SF_waitLoop, SF_nil] at this
    have h0 : s.stack.length - base = 0 := by omega
    rw [h0] at this
    simpa using this.2
  intro c x hx
  cases hres : x.resumed with
  | false => rfl
  | true =>
    exfalso
    obtain ⟨o, _, hm, _, ha, _⟩ := resumed_owner h hg na hx hres
    have hhot : hot s o = true := by
      simp only [hot, ha, Bool.true_and, Bool.not_eq_true', List.isEmpty_eq_false_iff]
      intro h0; rw [h0] at hm; cases hm
    have := k.stk o hhot
    rw [hst] at this; cases this

/-- **C06_flush_nested**: when a NESTED `wait_for(root)` - called synchronously from the generator of task `t` - finds
    its `_execute` finished (so that, `root` not being computed, a batch is flushed), the only resumed contexts belong
    to `t` or to tasks waiting for `t` (the callers further out, and whoever awaits them). -/
theorem C06_flush_nested (s : State) (h : P10.WSReach s) (hg : s.guardFired = false)
    (hna : Inv.noNonAsync s = true) (root base t : Nat) (old : Option Nat) (rest : List Ctl)
    (hctl : s.ctl = .waitLoop root base :: .gen t old :: rest) (hlen : s.stack.length ≤ base)
    (c : Nat) (x : CtxSt) (hx : s.ctxs[c]? = some x) (hr : x.resumed = true) :
    ∃ o, x.owner = some o ∧ c ∈ (s.task o).ctxs ∧ awaitsStar s o t := by
  obtain ⟨o, ho, hm, top, stk, hst, ha⟩ := C06_resumed_awaits_top s h hg hna c x hx hr
  have hd := (P10.ws_cinv h hg).disc
  rw [hctl] at hd
  have h2 := (disc_under_wait hd (.inr ⟨root, base, rfl, hlen⟩)).2
  rw [hst] at h2
  have : top = t := by simpa using h2.1
  exact ⟨o, ho, hm, this ▸ ha⟩

/-- ... and that step is the scheduler flush, which changes no context -/
theorem C06_flush_nested_step (s : State) (h : Reach s) (hs : s.stuck = none) (hg : s.guardFired = false)
    (root base : Nat) (rest : List Ctl) (hctl : s.ctl = .waitLoop root base :: rest)
    (hlen : s.stack.length ≤ base) (hnc : s.computed root = false) :
    step s = s.schedulerFlush root ∧ (step s).ctxs = s.ctxs ∧
    ∃ evs, (step s).trace = evs ++ s.trace ∧ ∀ e ∈ evs, calm e = true := by
  have e := step_eq_flush s hs root base rest hctl (P3.reach_core s h hg).1.raising hlen hnc
  have q : Q calm s (s.schedulerFlush root) := q_schedulerFlush (fun e _ h => h) s root (P2.pinv_reach h).items
  exact ⟨e, by rw [e]; exact q.ctxs, by rw [e]; exact q.trace⟩

/-- **C06_own_code_resumed** ("resumed whenever that task's own code runs, including synchronous calls it makes"):
    every context registered with a task whose generator frame is on the Python stack - the running task and the
    callers of the synchronous calls in progress - exists, is owned by that task and (unless it is a NonAsyncContext)
    is resumed. -/
theorem C06_own_code_resumed (s : State) (h : Reach s) (t : Nat) (old : Option Nat)
    (hm : (t, old) ∈ Inv.gensOf s.ctl) (c : Nat) (hc : c ∈ (s.task t).ctxs) :
    ∃ x : CtxSt, s.ctxs[c]? = some x ∧ x.owner = some t ∧ (x.kind = .nonasync ∨ x.resumed = true) := by
  obtain ⟨h1, h2, _, _⟩ := C06_flags_strong s h
  obtain ⟨x, hx, ho, hk⟩ := h1 t c hc
  refine ⟨x, hx, ho, ?_⟩
  rcases hk with hk | hk
  · exact .inl hk
  · exact .inr (by rw [hk]; exact h2 t old hm)

/-- the running task: the head of the Python stack is its generator frame -/
theorem C06_own_code_resumed_head (s : State) (h : Reach s) (u : Nat) (old : Option Nat) (rest : List Ctl)
    (hctl : s.ctl = .gen u old :: rest) (c : Nat) (hc : c ∈ (s.task u).ctxs) :
    ∃ x : CtxSt, s.ctxs[c]? = some x ∧ x.owner = some u ∧ (x.kind = .nonasync ∨ x.resumed = true) :=
  C06_own_code_resumed s h u old (by rw [hctl]; simp [Inv.gensOf]) c hc

/-- **C06_own_code_resumed_after_call**: right after a nested synchronous call of task `u` returned (the `wait_for`
    frame on top of `u`'s generator frame is popped: `root` is computed), `u`'s code continues with all its registered
    contexts resumed. -/
theorem C06_own_code_resumed_after_call (s : State) (h : Reach s) (hs : s.stuck = none) (hg : s.guardFired = false)
    (root base u : Nat) (old : Option Nat) (rest : List Ctl)
    (hctl : s.ctl = .waitLoop root base :: .gen u old :: rest) (hlen : s.stack.length ≤ base)
    (hcomp : s.computed root = true) :
    (step s).ctl = .gen u old :: rest ∧
    ∀ c ∈ ((step s).task u).ctxs, ∃ x : CtxSt, (step s).ctxs[c]? = some x ∧ x.owner = some u ∧
      (x.kind = .nonasync ∨ x.resumed = true) := by
  have e := step_eq_return s hs root base _ hctl (P3.reach_core s h hg).1.raising hlen hcomp
  have hc' : (step s).ctl = .gen u old :: rest := by rw [e]; simp [State.returnFromWait, hctl]
  exact ⟨hc', fun c hc => C06_own_code_resumed_head (step s) (Reach.step h) u old rest hc' c hc⟩

/-! ### non-vacuity -/

/-- sibling A: one context, blocks on a batch item -/
def C06b_childA : Body := .withCtx .plain (.item 0 1 .ok (.yld (.f (.own 0)) .endwith (.raise 0))) (.ret 1)
/-- sibling B: one context, blocks on an item of the same batch -/
def C06b_childB : Body := .withCtx .plain (.item 0 2 .ok (.yld (.f (.own 0)) .endwith (.raise 0))) (.ret 2)
/-- the parent awaits both siblings inside a context of its own -/
def C06b_prog : Body :=
  .withCtx .plain
    (.spawn C06b_childA [] (.spawn C06b_childB [] (.yld (.tup [.f (.own 0), .f (.own 1)]) .endwith (.raise 1))))
    (.ret 0)

/-- the future a body stopped in a synchronous call is calling -/
def C06b_syncTarget : Body → Option Nat
  | .syncret f _ _ => some f
  | _ => none

def C06b_state (n : Nat) : State := runFuel n (initState {} [(.value, C06b_prog)] [])

theorem C06b_ws (n : Nat) : P10.WSReach (C06b_state n) :=
  wsreach_runFuel {} _ [] (by intro p hp; simp at hp; subst hp; decide) n

/-- the run finishes without getting stuck -/
example : (C06b_state 60).isDone = true ∧ (C06b_state 60).stuck = none ∧
    (C06b_state 60).out 0 = some (.ok (.node 0 [.tup [.node 1 [.a 1001], .node 2 [.a 1002]]])) := by decide

/-- after 21 steps the code of sibling B (task 2) runs inside its with-block; sibling A (task 1) is suspended on its
    item.  The hypotheses of `C06_resumed_implies_awaiting` hold; context 0 (parent), 2 (B) are resumed, context 1 (A)
    is PAUSED; the parent is suspended with B among its dependencies, so `awaits s 0 2` -/
example : let s := C06b_state 21
    s.ctl = [.gen 2 none, .waitLoop 0 0] ∧ s.stack = [2, 0] ∧ s.guardFired = false ∧ Inv.noNonAsync s = true ∧
    s.ctxs.map (fun x => (x.owner, x.resumed)) = [(some 0, true), (some 1, false), (some 2, true)] ∧
    (s.computed 0 = false ∧ (s.task 0).pending = true ∧ 2 ∈ (s.task 0).deps) ∧
    (s.task 1).deps = [3] ∧ (s.task 1).lastY.leaves = [3] ∧ (s.task 3).deps = [] ∧ (s.task 3).lastY.leaves = [] ∧
    C06b_syncTarget (s.task 1).body = none ∧ C06b_syncTarget (s.task 3).body = none := by decide

/-- the parent waits for B: the conclusion of the theorem for context 0, derived from the theorem -/
example : ∃ t, t = 0 ∧ awaitsStar (C06b_state 21) t 2 := by
  obtain ⟨t, ho, _, ha⟩ := C06_resumed_implies_awaiting (C06b_state 21) (C06b_ws 21) (by decide) (by decide) 0
    { kind := .plain, owner := some 0, resumed := true } (by decide) rfl 2 none [.waitLoop 0 0] (by decide)
  exact ⟨t, by simpa using ho.symm, ha⟩

/-- sibling A does NOT wait for B (it waits for its item only, and an item waits for nothing), so
    `C06_paused_unless_awaiting` applies to its context: paused while B runs -/
theorem C06b_A_not_awaiting_B : ¬ awaitsStar (C06b_state 21) 1 2 := by
  have h1 : ∀ u, awaits (C06b_state 21) 1 u → u = 3 := by
    intro u hu
    rcases hu with ⟨_, _, h | h⟩ | ⟨⟨k, hh, hb⟩, _⟩
    · have e : ((C06b_state 21).task 1).lastY.leaves = [3] := by decide
      rw [e] at h; simpa using h
    · have e : ((C06b_state 21).task 1).deps = [3] := by decide
      rw [e] at h; simpa using h
    · have e : C06b_syncTarget ((C06b_state 21).task 1).body = none := by decide
      rw [hb] at e; cases e
  have h3 : ∀ u, ¬ awaits (C06b_state 21) 3 u := by
    intro u hu
    rcases hu with ⟨_, _, h | h⟩ | ⟨⟨k, hh, hb⟩, _⟩
    · have e : ((C06b_state 21).task 3).lastY.leaves = [] := by decide
      rw [e] at h; cases h
    · have e : ((C06b_state 21).task 3).deps = [] := by decide
      rw [e] at h; cases h
    · have e : C06b_syncTarget ((C06b_state 21).task 3).body = none := by decide
      rw [hb] at e; cases e
  intro h
  cases h with
  | head ha hs =>
    have := h1 _ ha
    subst this
    cases hs with
    | head ha' _ => exact h3 _ ha'

example : ∀ x : CtxSt, (C06b_state 21).ctxs[1]? = some x → x.resumed = false := fun x hx =>
  C06_paused_unless_awaiting (C06b_state 21) (C06b_ws 21) (by decide) (by decide) 1 x hx 1
    (by have e : (C06b_state 21).ctxs[1]? = some { kind := .plain, owner := some 1, resumed := false } := by decide
        rw [e] at hx; cases hx; rfl)
    2 none [.waitLoop 0 0] (by decide) C06b_A_not_awaiting_B

/-- after 26 steps both siblings and the parent are suspended and the outermost `wait_for` is about to flush the batch:
    the hypotheses of `C06_paused_at_outer_flush` hold, every context is paused, and the next step is the flush -/
example : let s := C06b_state 26
    s.stuck = none ∧ s.guardFired = false ∧ Inv.noNonAsync s = true ∧ s.ctl = [.waitLoop 0 0] ∧ s.stack = [] ∧
    s.computed 0 = false ∧ s.ctxs.map (·.resumed) = [false, false, false] ∧
    (step s).trace.take 3 = [.flushE 0 0, .bdone 0 0 true, .done 4 (.ok (.a 1002))] := by decide

/-- `C06_own_code_resumed`: at step 21 the running task B has its context 2 registered and resumed -/
example : ((C06b_state 21).task 2).ctxs = [2] ∧ Inv.gensOf (C06b_state 21).ctl = [(2, none)] := by decide

/-- a nested synchronous call: the caller (task 0, one context) calls `child.asynq().value()`; the child blocks on a
    batch item, so the nested `wait_for` flushes the batch while the caller's context is resumed -/
def C06b_sync : Body :=
  .withCtx .plain (.sync (.item 0 7 .ok (.yld (.f (.own 0)) (.ret 1) (.raise 0))) [] .endwith .endwith) (.ret 0)

def C06b_syncState (n : Nat) : State := runFuel n (initState {} [(.value, C06b_sync)] [])

example : (C06b_syncState 60).isDone = true ∧ (C06b_syncState 60).stuck = none := by decide

/-- the hypotheses of `C06_flush_nested` hold at some step: the nested `wait_for(1)` sits on the generator of task 0,
    its `_execute` is finished, the context of the caller is resumed (`awaitsStar s 0 0` by reflexivity) -/
example : ∃ n, let s := C06b_syncState n
    s.ctl = [.waitLoop 1 1, .gen 0 none, .waitLoop 0 0] ∧ s.stack = [0] ∧ s.computed 1 = false ∧
    s.ctxs.map (fun x => (x.owner, x.resumed)) = [(some 0, true)] ∧
    C06b_syncTarget (s.task 0).body = some 1 ∧ (s.task 0).pending = false := by
  refine ⟨14, ?_⟩
  decide

/-- the hypotheses of `C06_own_code_resumed_after_call` hold after 20 steps: the nested call has computed its root -/
example : let s := C06b_syncState 20
    s.stuck = none ∧ s.guardFired = false ∧ s.ctl = [.waitLoop 1 1, .gen 0 none, .waitLoop 0 0] ∧ s.stack = [0] ∧
    s.computed 1 = true ∧ (step s).ctl = [.gen 0 none, .waitLoop 0 0] ∧ ((step s).task 0).ctxs = [0] := by decide

/-- `awaitsStar` is not trivially true, and `awaits` is not empty -/
example : awaits (C06b_state 21) 0 2 := .inl (by decide)

end AsynqModel.Core
