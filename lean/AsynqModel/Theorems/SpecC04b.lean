import AsynqModel.Theorems.SpecC04
import AsynqModel.Theorems.C04b
import AsynqModel.Theorems.C05
import AsynqModel.Theorems.AuditFixes
/-!
  Corollaries asked for by the second audit of the core (audit/AUDIT2-core.md item 11):
  * `Spec_C04_accepts` - the name DESIGN.md 10.9 uses: the WHOLE C04 observer accepts every machine trace (the two halves
    `Spec_C04_accepts_settled_run` / `Spec_C04_only_count_of` and `Spec_C04_flush_count_accepts` put together);
  * `C05_items_answered'` - `C05_items_answered` without its unused hypothesis `_hf`;
  * `*_min` - the hypothesis-free primed variants of Theorems/AuditFixes.lean under names WITHOUT an apostrophe: the axiom
    audit of harness/framework.py parses `#print axioms` output with the pattern `'([^']+)' depends on axioms`, which cannot
    read a primed name, so a check module cannot list `C08_active'` itself.  Same statements (`type_of%`), same proofs.
-/
namespace AsynqModel.Core
open P1

/-- **the whole C04 observer accepts every trace of the machine**: for top-level computations that are yield-only, without
    NonAsyncContext and well-scoped (hypotheses on the program text only), after any number of steps under any configuration
    and flush oracle, if the state is not stuck (dischargeable: `no_stuck_wellscoped` / `_silent`) and the
    MAX_TASK_STACK_SIZE guard has not fired, `Spec.spec "C04"` - the `Settled` clause at every flush AND the flush-count
    clause at every `ret` - reports nothing on the machine's trace. -/
theorem Spec_C04_accepts (cfg : Cfg) (tops : List (Conv × Body)) (choices : List (Nat × Nat))
    (h : ∀ p ∈ tops, Spec.bodyHasSync p.2 = false ∧ Spec.bodyHasNonAsync p.2 = false ∧ P6.wsBody p.2 = true) (n : Nat)
    (hs : (runFuel n (initState cfg tops choices)).stuck = none)
    (hg : (runFuel n (initState cfg tops choices)).guardFired = false) :
    Spec.spec "C04" (Spec.mkCtx cfg tops) (runFuel n (initState cfg tops choices)).trace.reverse = none := by
  cases hv : Spec.spec "C04" (Spec.mkCtx cfg tops) (runFuel n (initState cfg tops choices)).trace.reverse with
  | none => rfl
  | some p =>
    exact absurd
      (Spec_C04_only_count_of _ _ _ _ (Spec_C04_accepts_settled_run cfg tops choices h n hg) p.1 p.2 hv)
      (Spec_C04_flush_count_accepts cfg tops choices (fun q hq => ⟨(h q hq).2.1, (h q hq).2.2⟩) _
        (P19.reachFrom_runFuel cfg tops choices n) hs hg p.1 p.2 hv)

/-- `C05_items_answered` without the unused hypothesis "the batch is not flushed yet" -/
theorem C05_items_answered' (s : State) (k q : Nat) (b : Batch) (hb : s.batch? k q = some b)
    (hheap : ∀ i ∈ b.items, i < s.futs.length) :
    (∀ i ∈ b.items, (s.flushBatch k q).computed i = true) ∧
    (∀ i ∈ b.items, ∀ payload mode, s.out i = none → (s.fut i).kind = .item k q payload mode →
      (s.flushBatch k q).out i = some (itemOutcome s.cfg k payload mode)) ∧
    (∀ f o, s.out f = some o → (s.flushBatch k q).out f = some o) ∧
    (∀ f, f ∉ b.items → (s.flushBatch k q).fut f = s.fut f) ∧
    (∃ b', (s.flushBatch k q).batch? k q = some b' ∧ b'.flushed = true) :=
  ⟨fun i hi => flushBatch_computed s k q b hb i hi (hheap i hi),
   fun i hi payload mode hn hk => flushBatch_out_item s k q b hb i k q payload mode hi (hheap i hi) hn hk,
   fun f o ho => flushBatch_out_stable s k q f o ho,
   fun f hf => flushBatch_fut_notin s k q b hb f hf,
   ⟨_, flushBatch_batch?_self s k q b hb, rfl⟩⟩

/-- = `C05_items_answered'` -/
theorem C05_items_answered_min : type_of% @C05_items_answered' := @C05_items_answered'
/-- = `C05_flush_once'` (AuditFixes.lean): without the unused `_hs : s.stuck = none` -/
theorem C05_flush_once_min : type_of% @C05_flush_once' := @C05_flush_once'
/-- = `C04_settled_at_flush'` (AuditFixes.lean): without the unused `_hroot` -/
theorem C04_settled_at_flush_min : type_of% @C04_settled_at_flush' := @C04_settled_at_flush'
/-- = `C04_settled_at_flush_step'` (AuditFixes.lean): without the unused `_hfl` -/
theorem C04_settled_at_flush_step_min : type_of% @C04_settled_at_flush_step' := @C04_settled_at_flush_step'
/-- = `C08_active_invariant'` (AuditFixes.lean): without the unused `_hs` -/
theorem C08_active_invariant_min : type_of% @C08_active_invariant' := @C08_active_invariant'
/-- = `C08_active'`: without the unused `_hs` -/
theorem C08_active_min : type_of% @C08_active' := @C08_active'
/-- = `C08_creator'`: without the unused `_hs` -/
theorem C08_creator_min : type_of% @C08_creator' := @C08_creator'
/-- = `C08_frames'`: without the unused `_hs` -/
theorem C08_frames_min : type_of% @C08_frames' := @C08_frames'
/-- = `C08_clean'`: without the unused `_hs`, `_hg` -/
theorem C08_clean_min : type_of% @C08_clean' := @C08_clean'
/-- = `C08_active_none_at_top'`: without the unused `_hs`, `_hg` -/
theorem C08_active_none_at_top_min : type_of% @C08_active_none_at_top' := @C08_active_none_at_top'

end AsynqModel.Core
