import AsynqModel.Proofs.P5SvTask
import AsynqModel.Proofs.P5Final
/-!
# C07  Context activations nest; scoped overrides read and restore as in sync code

`C07_saverestore` is a pure lemma about the context operations of the machine (any state, reachable or not);
`C07_saverestore_task` transfers it to `resumeContexts` / `pauseContexts` of a task on reachable states;
`C07_nesting` is the nesting discipline of the event trace per context (from the C06 invariant).

`P5.readAfter s cs v`: fold over `cs` in order, starting from the current value of `v`, taking the value of every
override context on `v` - i.e. the value of the LAST (innermost) override on `v` in `cs`, else the current value.
-/
namespace AsynqModel.Core
open P5

/-- **C07_saverestore**: resuming a list of DISTINCT contexts in order and then pausing them in reverse order restores
    every scoped value; and after the resumes a variable reads the value of the last (innermost) override on it.
    (No hypothesis on the kinds is needed: `resume()`/`pause()` of the model act only on override contexts.) -/
theorem C07_saverestore (s : State) (cs : List Nat) (hn : cs.Nodup) (v : Nat) :
    (cs.reverse.foldl State.ctxPauseOne (cs.foldl State.ctxResumeOne s)).svGet v = s.svGet v ∧
    (cs.foldl State.ctxResumeOne s).svGet v = readAfter s cs v :=
  ⟨restore cs s hn v, innermost_wins cs s v⟩

/-- the same for what the scheduler does with a task: on a reachable state, for a task whose contexts are paused
    and which has no NonAsyncContext, `_resume_contexts` makes every variable read its innermost override among the
    task's contexts, and a following `_pause_contexts` (the task is suspended again) restores every scoped value. -/
theorem C07_saverestore_task (s : State) (h : Reach s) (t : Nat) (ht : t < s.futs.length)
    (hact : (s.task t).ctxActive = false) (hna : (s.task t).ctxs.any s.ctxIsNonAsync = false) (v : Nat) :
    (s.resumeContexts t).svGet v = readAfter s (s.task t).ctxs v ∧
    ((s.resumeContexts t).pauseContexts t).svGet v = s.svGet v := by
  have hn := (I_reach h).j.nodup t
  obtain ⟨e1, hctxs, hact1⟩ := svEq_resumeContexts s t hact hna
  refine ⟨?_, ?_⟩
  · rw [e1.1 v]; exact innermost_wins _ s v
  · have hna1 : ((s.resumeContexts t).task t).ctxs.any (s.resumeContexts t).ctxIsNonAsync = false := by
      rw [hctxs, ← hna]; congr 1; funext c
      rw [isNonAsync_svEq e1 c]
      unfold State.ctxIsNonAsync
      have := kind_foldResume (s.task t).ctxs s c
      cases h1 : ((s.task t).ctxs.foldl State.ctxResumeOne s).ctxs[c]? <;> cases h2 : s.ctxs[c]? <;>
        simp_all
    have e2 := svEq_pauseContexts (s.resumeContexts t) t (hact1 ht) hna1
    rw [hctxs] at e2
    have e3 := svEq_foldPause (s.task t).ctxs.reverse _ _ e1
    rw [(e2.trans e3).1 v]
    exact restore _ s hn v

/-- **C07 nesting of one context's activations** (trace form, from the C06 invariant): between its creation and its
    exit the activations of a context are properly bracketed - R P R P ... - see `C06_alternate`.  Here: a context
    whose exit event is in the trace is paused for good (its ghost flag is false). -/
theorem C07_exited_paused (s : State) (h : Reach s) (c : Nat) (post pre : List Event)
    (htr : s.trace = post ++ .ctxX c :: pre) (hquiet : ctxWord post c = []) : resumedD s c = false := by
  have j := (I_reach h).j
  have h1 := j.head c
  have h2 := j.exit c
  rw [htr] at h2
  have h3 := exitOK_split c post pre h2
  have hw : word s.trace c = word pre c := by
    have hp : word post c = [] := by simpa [ctxWord] using hquiet
    rw [htr]
    have : ∀ (l1 l2 : List Event), word (l1 ++ l2) c = word l1 c ++ word l2 c := by
      intro l1 l2; unfold word; rw [List.filterMap_append]
    rw [this, hp, List.nil_append, word_ctxX]
  rw [hw] at h1
  rw [← h1]
  cases hh : (word pre c).head? with
  | none => rfl
  | some b => cases b with
    | false => rfl
    | true => exact absurd hh h3

/-! ### non-vacuity -/

def C07_prog : Body :=
  .withCtx (.override 1 10)
    (.withCtx (.override 1 20)
      (.item 0 5 .ok (.yld (.f (.own 0)) (.read 1 .endwith) (.raise 0)))
      (.read 1 .endwith))
    (.read 1 (.ret 7))

/-- the state in which the task is suspended (contexts paused, scoped value restored to 0) -/
def C07_suspended : State := runFuel 11 (initState {} [(.value, C07_prog)] [])

example : C07_suspended.stuck = none ∧ (C07_suspended.task 0).ctxs = [0, 1] ∧
    (C07_suspended.task 0).ctxActive = false ∧ C07_suspended.svGet 1 = 0 ∧
    (C07_suspended.task 0).ctxs.any C07_suspended.ctxIsNonAsync = false := by decide
/-- resuming both contexts: the variable reads the inner override (20, not 10); pausing them again: 0 -/
example : readAfter C07_suspended [0, 1] 1 = 20 ∧ (C07_suspended.resumeContexts 0).svGet 1 = 20 ∧
    ((C07_suspended.resumeContexts 0).pauseContexts 0).svGet 1 = 0 := by decide
/-- in the complete run the body reads 20 (inside both), 10 (inside the outer one), 0 (outside); the scoped values
    at the end of the computation (reported by the `.svals` event) are all zero -/
example : let s := runFuel 200 (initState {} [(.value, C07_prog)] [])
    (s.trace.reverse.filterMap fun e => match e with | .read _ _ v => some v | _ => none) = [.a 20, .a 10, .a 0] ∧
    s.sv = [(1, 0)] ∧ s.isDone = true := by decide

end AsynqModel.Core
