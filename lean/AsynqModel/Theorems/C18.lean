import AsynqModel.Lib.Debug
import AsynqModel.Proofs.Debug
/-!
# C18  Diagnostics are faithful and total: glued tracebacks, stack, repr, filter

Theorems about the model `AsynqModel.Debug` (Lib/Debug.lean).

Headline statements (what the property text says, about the model; `HEADLINE` of harness/checks/c18.py):
  filter : `C18_filter_sound` (the output is a rendering), `C18_filter_id`, `C18_filter_first_match`,
           `C18_filter_observer_exact` / `_observer_sound` (what SPEC=ok means), `C18_filter_tablesOK_needed`
  glue   : `C18_glue` (model = sequential reading `ref`), `C18_ref_passing_prefix`, `C18_glue_crosses` / `_crosses_own` /
           `_crosses_hook` (the literal "one frame per level in call order ending at the raiser"), `C18_glue_shape`,
           `C18_glue_starts_at_awaiter`
  stack  : `C18_stack_events_exact`, `C18_stack_orphan_partial`, `C18_glue_refines_partial` (ALL events of a run = the
           reference events), `C18_glue_observer_exact`, `C18_glue_spec_holds_partial`,
           `C18_stack_orphan_counterexample` (the defect before the fix), `C18_stackSafe_exact_small` (the hypothesis is needed, and
           no more), `C18_known_signature_exact` (the recorded finding's name is given to nothing but the predicted answer)
Statements that hold by construction of the model (kept, NOT headline: `BY_CONSTRUCTION` of c18.py; the content of the
str / repr / dump / format_error clause is the correspondence run on the real classes):
  `C18_filter_spec_holds` (the observer demands the model's output), `C18_repr_total_partial`, `C18_repr_raises_iff`,
  `C18_repr_spec_holds_partial`, `C18_repr_holders_total`, `C18_bare_percent_fails`, `C18_repr_flags_needed`,
  `C18_format_error_total`, `C18_format_error_non_exception`, `C18_format_error_garbage_traceback_attr`,
  `C18_extract_tb_hides_only_library`.
-/
namespace AsynqModel.Debug

/-! ## filter_traceback -/

/-- **soundness of the filter, for all pattern tables WITHOUT AN EMPTY PATTERN LIST (`tablesOK`) and all line lists**: the
    output is the input with some disjoint COMPLETE runs each replaced by the marker of its table entry; every other
    line is copied unchanged and in order (`Renders` is exactly that statement).  No partial run is ever collapsed.
    (`tablesOK` is needed, `C18_filter_tablesOK_needed`; the real function does not terminate on such a table.) -/
theorem C18_filter_sound (tbl : List Repl) (hok : tablesOK tbl = true) (lines : List Line) :
    Renders tbl lines (filterTb tbl lines) :=
  go_renders tbl hok lines.length lines (Nat.le_refl _)

/-- the Boolean observer the check evaluates on the implementation's output accepts the model's output.
    BY CONSTRUCTION since the observer demands exactly that output (`C18_filter_observer_exact`); what the output IS, is
    said by `C18_filter_sound` / `C18_filter_first_match`. -/
theorem C18_filter_spec_holds (tbl : List Repl) (hok : tablesOK tbl = true) (lines : List Line) :
    filterClause tbl lines (filterTb tbl lines) = "ok" := by
  simp [filterClause, hok]

/-- **what `SPEC=ok` means for an implementation output: it IS the model's output, and the table has no empty pattern
    list** (both directions) -/
theorem C18_filter_observer_exact (tbl : List Repl) (inp : List Line) (out : List Out) :
    filterClause tbl inp out = "ok" ↔ (tablesOK tbl = true ∧ out = filterTb tbl inp) := by
  unfold filterClause
  constructor
  · intro h
    by_cases hok : tablesOK tbl = true
    · refine ⟨hok, ?_⟩
      by_cases he : (out == filterTb tbl inp) = true
      · exact eq_of_beq he
      · exfalso
        simp only [hok, Bool.not_true, Bool.false_eq_true, if_false, he] at h
        split at h
        · split at h
          · exact absurd h (by decide)
          · rename_i hw
            exact hw (by simp [h])
        · split at h
          · exact absurd h (by decide)
          · rename_i hw
            exact hw (by simp [h])
    · exfalso
      simp only [hok, Bool.not_false, if_true] at h
      exact absurd h (by decide)
  · rintro ⟨hok, h⟩
    simp [hok, h]

/-- ... hence a rendering in the sense of `Renders` - the literal clause "only collapses complete runs of boilerplate
    lines into one marker each and leaves every other line untouched and in order" -/
theorem C18_filter_observer_sound (tbl : List Repl) (inp : List Line) (out : List Out)
    (h : filterClause tbl inp out = "ok") : Renders tbl inp out := by
  obtain ⟨hok, he⟩ := (C18_filter_observer_exact tbl inp out).mp h
  rw [he]
  exact C18_filter_sound tbl hok inp

/-- no complete run of any table entry at any position ⇒ the filter is the identity
    (hypothesis stated without the model's functions: no decomposition `pre ++ seg ++ post` with `seg` a complete run;
    a table with an empty pattern list cannot satisfy it - the empty run is complete everywhere - so this says nothing
    about such tables, like `C18_filter_sound`) -/
theorem C18_filter_id (tbl : List Repl) (lines : List Line)
    (h : ∀ r ∈ tbl, ∀ pre seg post, lines = pre ++ seg ++ post → ¬ Complete r.pats seg) :
    filterTb tbl lines = lines.map .copy := by
  apply noCompleteRun_go
  induction lines with
  | nil => rfl
  | cons l ls ih =>
    simp only [noCompleteRun, Bool.and_eq_true, List.all_eq_true, Bool.not_eq_true']
    constructor
    · intro r hr
      cases hm : matchRun r.pats (l :: ls) with
      | false => rfl
      | true =>
        rw [matchRun_iff] at hm
        exact absurd hm (h r hr [] _ ((l :: ls).drop r.pats.length) (by simp))
    · apply ih
      intro r hr pre seg post hls
      exact h r hr (l :: pre) seg post (by simp [hls])

/-- first match wins: a marker is that of the FIRST table entry with a complete run at this position, and a line is
    copied only if no entry has a complete run starting at it -/
theorem C18_filter_first_match (tbl : List Repl) (l : Line) (ls : List Line) :
    (∀ r, firstMatch tbl (l :: ls) = some r →
      (filterTb tbl (l :: ls)).head? = some (.marker r.marker) ∧
      ∃ pre post, tbl = pre ++ r :: post ∧ (∀ r' ∈ pre, matchRun r'.pats (l :: ls) = false) ∧
        Complete r.pats ((l :: ls).take r.pats.length)) ∧
    (firstMatch tbl (l :: ls) = none →
      (filterTb tbl (l :: ls)).head? = some (.copy l) ∧ ∀ r ∈ tbl, ¬ Complete r.pats ((l :: ls).take r.pats.length)) := by
  constructor
  · intro r hr
    obtain ⟨pre, post, h1, h2, h3⟩ := firstMatch_first hr
    refine ⟨by simp [filterTb, go, hr], pre, post, h1, h2, (matchRun_iff _ _).mp h3⟩
  · intro hn
    refine ⟨by simp [filterTb, go, hn], ?_⟩
    intro r hr hc
    have := firstMatch_none.mp hn r hr
    rw [(matchRun_iff _ _).mpr hc] at this
    exact absurd this (by decide)

/-- `tablesOK` cannot be dropped: with an empty pattern list the model's output is not a rendering (and the Python
    function loops for ever: `i = i + 0`) -/
theorem C18_filter_tablesOK_needed : ¬ Renders [⟨[], 7⟩] [⟨0, []⟩] (filterTb [⟨[], 7⟩] [⟨0, []⟩]) := by
  intro h
  have := rendersB_complete _ h
  revert this
  decide

/-! ## traceback gluing -/

/-- **gluing, for all chains** (every depth, await style, handler and raise position at every level, with or without
    an ErrorFuture at the bottom): the caller gets an exception iff the sequential reading `ref` says so, it is THAT
    exception object, and the user frames of its traceback - as the caller catches it, and as stored in `_traceback`
    (what `format_error` prints) - are the caller's frame followed by exactly the frames `ref` lists -/
theorem C18_glue (rule : FrameRule) (bottom : Bottom) (levels : List Level) :
    match (run rule bottom 0 [] levels).out, ref bottom 0 levels with
    | none, none => True
    | some e, some (tok, fs) =>
      e.tok = tok ∧ userFrames (callerView e) = .caller :: fs ∧ userFrames e.tb = fs
    | _, _ => False := by
  have h := run_agrees rule bottom levels 0 []
  unfold Agrees at h
  cases ho : (run rule bottom 0 [] levels).out with
  | none =>
    cases hr : ref bottom 0 levels with
    | none => trivial
    | some p => simp [ho, hr] at h
  | some e =>
    cases hr : ref bottom 0 levels with
    | none => simp [ho, hr] at h
    | some p =>
      obtain ⟨tok, fs⟩ := p
      simp only [ho, hr] at h
      obtain ⟨htok, hsame, htb, hbare⟩ := h
      refine ⟨htok, ?_, htb⟩
      have hty : e.hasType = e.hasTask := hsame.symm
      simp only [userFrames] at htb hbare ⊢
      cases ht : e.hasTask
      · obtain ⟨hc, hf⟩ := hbare ht
        rw [ht] at hty
        simp [callerView, unwind, valueRaises, reraise, hty, List.filter_cons, isUser, hc, hf]
      · rw [ht] at hty
        simp [callerView, unwind, valueRaises, reraise, hty, List.filter_cons, isUser, htb]

/-- the frames of an exception that reaches the awaiter of level `lv` in a chain of `len` levels: the generator frames
    of `n` consecutive levels `lv .. lv+n-1`, each exactly once, followed by the raising frames - either the `h` helper
    frames of the raiser `lv+n-1`, or the hook (and its helpers) of a context entered by level `lv+n`, which the
    scheduler called (the owner's generator is not on the Python stack then) -/
def GluedShape (lv len : Nat) (fs : List Frame) : Prop :=
  ∃ n, n ≤ len ∧
    ((∃ h, (0 < h → 0 < n) ∧
        fs = (List.range' lv n).map .task ++ (List.range h).map (fun k => .helper (lv + n - 1) (k + 1))) ∨
     (∃ h, n < len ∧ fs = (List.range' lv n).map .task ++ hookFrames (lv + n) h))

theorem refStep_shape (lv len : Nat) (L : Level) (child : Option (Nat × List Frame))
    (hc : ∀ tok fs, child = some (tok, fs) → GluedShape (lv + 1) len fs) :
    ∀ tok fs, refStep lv L child = some (tok, fs) → GluedShape lv (len + 1) fs := by
  intro tok fs h
  have hown : ∀ tok fs, (L.own.map fun h => (ownTok lv, raisedIn lv h)) = some (tok, fs) → GluedShape lv (len + 1) fs := by
    intro tok fs ho
    cases hx : L.own with
    | none => simp [hx] at ho
    | some h' =>
      simp only [hx, Option.map_some, Option.some.injEq, Prod.mk.injEq] at ho
      exact ⟨1, by omega, Or.inl ⟨h', by simp, by simp [← ho.2, raisedIn, List.range'_one]⟩⟩
  simp only [refStep] at h
  cases child with
  | none => exact hown tok fs h
  | some p =>
    obtain ⟨tok', fs'⟩ := p
    obtain ⟨n, hn, hshape⟩ := hc tok' fs' rfl
    cases hh : L.handler with
    | raiseNew hd =>
      simp only [hh, Option.some.injEq, Prod.mk.injEq] at h
      exact ⟨1, by omega, Or.inl ⟨hd, by simp, by simp [← h.2, raisedIn, List.range'_one]⟩⟩
    | swallow =>
      simp only [hh] at h
      exact hown tok fs h
    | pass | bare | named =>
      simp only [hh, Option.some.injEq, Prod.mk.injEq] at h
      refine ⟨n + 1, by omega, ?_⟩
      rcases hshape with ⟨h', hpos, hfs⟩ | ⟨h', hlt, hfs⟩
      · left
        refine ⟨h', by omega, ?_⟩
        rw [← h.2, hfs, List.range'_succ]
        cases n with
        | zero =>
          have : h' = 0 := by omega
          simp [this]
        | succ m =>
          have : lv + 1 + (m + 1) - 1 = lv + (m + 1 + 1) - 1 := by omega
          simp [this]
      · right
        refine ⟨h', by omega, ?_⟩
        rw [← h.2, hfs, List.range'_succ]
        have : lv + 1 + n = lv + (n + 1) := by omega
        simp [this]

/-- **one frame per task level, in call order, ending at the raising frame** (induction on the depth of the chain) -/
theorem C18_glue_shape (bottom : Bottom) (levels : List Level) :
    ∀ (lv tok : Nat) (fs : List Frame), ref bottom lv levels = some (tok, fs) → GluedShape lv levels.length fs := by
  induction levels with
  | nil =>
    intro lv tok fs h
    cases bottom <;> simp [ref] at h
    exact ⟨0, by simp, Or.inl ⟨0, by simp, by simp [h.2]⟩⟩
  | cons L rest ih =>
    intro lv tok fs h
    have hstep := refStep_shape lv rest.length L (ref bottom (lv + 1) rest) (fun tok fs h => ih (lv + 1) tok fs h)
    cases rest with
    | nil =>
      cases bottom with
      | hook r hd =>
        simp only [ref, Option.some.injEq, Prod.mk.injEq] at h
        exact ⟨0, by simp, Or.inr ⟨hd, by simp, by simp [← h.2]⟩⟩
      | none => exact hstep tok fs (by simpa only [ref] using h)
      | errFuture => exact hstep tok fs (by simpa only [ref] using h)
    | cons L' rest' => exact hstep tok fs (by simpa only [ref] using h)

theorem ref_cons (bottom : Bottom) (lv : Nat) (L : Level) (rest : List Level)
    (hh : rest ≠ [] ∨ ∀ r k, bottom ≠ .hook r k) :
    ref bottom lv (L :: rest) = refStep lv L (ref bottom (lv + 1) rest) := by
  cases rest with
  | nil => cases bottom <;> simp_all [ref]
  | cons => simp [ref]

theorem refStep_head (lv : Nat) (L : Level) (child : Option (Nat × List Frame)) (tok : Nat) (fs : List Frame)
    (h : refStep lv L child = some (tok, fs)) : fs.head? = some (.task lv) := by
  have hown : ∀ tok fs, (L.own.map fun h => (ownTok lv, raisedIn lv h)) = some (tok, fs) → fs.head? = some (.task lv) := by
    intro tok fs ho
    cases hx : L.own with
    | none => simp [hx] at ho
    | some h' =>
      simp only [hx, Option.map_some, Option.some.injEq, Prod.mk.injEq] at ho
      simp [← ho.2, raisedIn]
  simp only [refStep] at h
  cases child with
  | none => exact hown tok fs h
  | some p =>
    obtain ⟨tok', fs'⟩ := p
    cases hh : L.handler with
    | raiseNew hd =>
      simp only [hh, Option.some.injEq, Prod.mk.injEq] at h
      simp [← h.2, raisedIn]
    | swallow =>
      simp only [hh] at h
      exact hown tok fs h
    | pass | bare | named =>
      simp only [hh, Option.some.injEq, Prod.mk.injEq] at h
      simp [← h.2]

/-- unless the raiser is a context hook of the awaiter itself, the traceback of an exception that reaches the awaiter
    of level `lv` STARTS with the generator frame of level `lv` (so `GluedShape` holds with `n ≥ 1`: never empty) -/
theorem C18_glue_starts_at_awaiter (bottom : Bottom) (lv : Nat) (L : Level) (rest : List Level) (tok : Nat) (fs : List Frame)
    (hh : rest ≠ [] ∨ ∀ r k, bottom ≠ .hook r k) (h : ref bottom lv (L :: rest) = some (tok, fs)) :
    fs.head? = some (.task lv) := by
  rw [ref_cons bottom lv L rest hh] at h
  exact refStep_head lv L _ tok fs h

/-- **the literal reading of the gluing clause, reference side**: an exception that leaves the levels `tail` with frames
    `fs` and then crosses the `d = pre.length` levels `pre` - each of which lets it pass (no handler, `except: raise`,
    `except E as e: raise e`), whatever its await style, orphan flag, or the code after its await - arrives with
    exactly one generator frame per crossed level in front, outermost first, and is still THAT exception -/
theorem C18_ref_passing_prefix (bottom : Bottom) (pre tail : List Level)
    (hpre : ∀ L ∈ pre, L.handler.passes = true) :
    ∀ (lv tok : Nat) (fs : List Frame), ref bottom (lv + pre.length) tail = some (tok, fs) →
      ref bottom lv (pre ++ tail) = some (tok, (List.range' lv pre.length).map Frame.task ++ fs) := by
  induction pre with
  | nil => intro lv tok fs h; simpa using h
  | cons L pre ih =>
    intro lv tok fs h
    have hL := hpre L (by simp)
    have h' : ref bottom (lv + 1 + pre.length) tail = some (tok, fs) := by
      rw [← h]; congr 1; simp only [List.length_cons]; omega
    have := ih (fun M hM => hpre M (by simp [hM])) (lv + 1) tok fs h'
    -- `tail = []` is possible only above an ErrorFuture (a hook bottom delivers nothing to an empty tail)
    have hh : pre ++ tail ≠ [] ∨ ∀ r k, bottom ≠ .hook r k := by
      cases tail with
      | cons T tl => exact Or.inl (by simp)
      | nil =>
        refine Or.inr ?_
        intro r k hb
        rw [hb] at h
        simp [ref] at h
    rw [List.cons_append, ref_cons bottom lv L (pre ++ tail) hh, this]
    cases hh : L.handler <;> simp [Handler.passes, hh] at hL <;> simp [refStep, hh, List.range'_succ]

/-- **... and what the caller catches in the model of the code**: the same exception object, its traceback =
    the caller's frame, one frame per crossed level `0 .. d-1` in call order, then the frames `fs` the exception had
    when it left `tail`; `format_error` prints the same without the caller.  For every frame rule, bottom, and chain. -/
theorem C18_glue_crosses (rule : FrameRule) (bottom : Bottom) (pre tail : List Level) (tok : Nat) (fs : List Frame)
    (hpre : ∀ L ∈ pre, L.handler.passes = true)
    (href : ref bottom pre.length tail = some (tok, fs)) :
    ∃ e, (run rule bottom 0 [] (pre ++ tail)).out = some e ∧ e.tok = tok ∧
      userFrames (callerView e) = .caller :: ((List.range pre.length).map Frame.task ++ fs) ∧
      userFrames e.tb = (List.range pre.length).map Frame.task ++ fs := by
  have hg := C18_glue rule bottom (pre ++ tail)
  have hr := C18_ref_passing_prefix bottom pre tail hpre 0 tok fs (by simpa using href)
  rw [hr] at hg
  cases ho : (run rule bottom 0 [] (pre ++ tail)).out with
  | none => simp [ho] at hg
  | some e =>
    simp only [ho] at hg
    exact ⟨e, rfl, hg.1, by rw [hg.2.1, List.range_eq_range'], by rw [hg.2.2, List.range_eq_range']⟩

/-- instance: level `d` raises its own exception through `h` nested helper calls (the levels below it returned, or it
    swallowed what they raised) and `d` passing levels await it: the caller sees
    caller, L0, ..., Ld, H(d,1), ..., H(d,h) - one frame per task level, in call order, ending at the raising frame -/
theorem C18_glue_crosses_own (rule : FrameRule) (bottom : Bottom) (pre : List Level) (R : Level) (below : List Level) (h : Nat)
    (hpre : ∀ L ∈ pre, L.handler.passes = true) (hown : R.own = some h)
    (hbelow : ref bottom (pre.length + 1) below = none ∨ R.handler = .swallow)
    (hh : below ≠ [] ∨ ∀ r k, bottom ≠ .hook r k) :
    ∃ e, (run rule bottom 0 [] (pre ++ R :: below)).out = some e ∧ e.tok = ownTok pre.length ∧
      userFrames (callerView e) = .caller :: ((List.range (pre.length + 1)).map Frame.task ++
        (List.range h).map (fun k => Frame.helper pre.length (k + 1))) := by
  have href : ref bottom pre.length (R :: below) = some (ownTok pre.length, raisedIn pre.length h) := by
    rw [ref_cons bottom pre.length R below hh]
    rcases hbelow with hb | hb
    · simp [refStep, hb, hown]
    · cases hc : ref bottom (pre.length + 1) below <;> simp [refStep, hb, hown]
  obtain ⟨e, h1, h2, h3, _⟩ := C18_glue_crosses rule bottom pre (R :: below) _ _ hpre href
  exact ⟨e, h1, h2, by rw [h3]; simp [raisedIn, List.range_succ]⟩

/-- instance: the raiser is `pause()` / `resume()` of a context entered by the innermost level `d` (blocked on a batch
    item), called by the scheduler through `h` helpers: the caller sees caller, L0, ..., L(d-1), the hook, its helpers.
    The generator frame of level `d` itself is NOT there - it is not on the Python stack when the scheduler calls the hook. -/
theorem C18_glue_crosses_hook (rule : FrameRule) (onResume : Bool) (h : Nat) (pre : List Level) (R : Level)
    (hpre : ∀ L ∈ pre, L.handler.passes = true) :
    ∃ e, (run rule (.hook onResume h) 0 [] (pre ++ [R])).out = some e ∧ e.tok = hookTok ∧
      userFrames (callerView e) = .caller :: ((List.range pre.length).map Frame.task ++ hookFrames pre.length h) := by
  obtain ⟨e, h1, h2, h3, _⟩ := C18_glue_crosses rule (.hook onResume h) pre [R] hookTok (hookFrames pre.length h) hpre
    (by simp [ref])
  exact ⟨e, h1, h2, h3⟩

/-- asynq.debug.extract_tb (which skips frames of modules that set `__traceback_hide__`) hides library frames only:
    every user frame stays, in order -/
theorem C18_extract_tb_hides_only_library (fs : List Frame) : userFrames (visible fs) = userFrames fs :=
  userFrames_visible fs

/-! ## the asynq stack and the whole observation of a run -/

/-- **`format_asynq_stack()` inside the bodies, for every chain and frame rule**: the model's bodies record exactly the
    reference events - every level asks when it starts, a level with an `except` clause asks again iff the level below
    delivered an exception (model: the stored error; reference: `ref`), in that order, and each is told the levels
    `0 .. lv`, outermost first.  (That each answer is `0 .. lv` holds by construction of `run`: the creators of a
    running task are suspended in their await and show their own generator frame; the content of this theorem is
    WHICH events occur - it ties `child.out` of the traceback machinery to the sequential reading.) -/
theorem C18_stack_events_exact (rule : FrameRule) (bottom : Bottom) (levels : List Level) :
    (run rule bottom 0 [] levels).events = refEvents bottom 0 levels :=
  run_events rule bottom levels 0 [] rfl

/-- a task created by level `i` and run after the whole chain has finished (whatever failed meanwhile) lists `0 .. i`
    and itself, for EVERY orphan of the chain - provided no orphan is created at or below a level that let the
    exception of a SYNCHRONOUSLY called child pass (`stackSafe`, evaluated on the reference behaviour of the chain), or
    `_frame` is filled with a frame of the task's own synchronous code (`FrameRule.own`, not the code as it is) -/
theorem C18_stack_orphan_partial (rule : FrameRule) (bottom : Bottom) (levels : List Level)
    (hsafe : rule = .own ∨ stackSafe bottom 0 levels = true) :
    orphanEvents (run rule bottom 0 [] levels).lines 0 levels = refOrphans 0 levels := by
  simpa using run_orphans rule bottom levels 0 [] [] rfl rfl hsafe

/-- ... and without that hypothesis it was FALSE of the code before the fix (`FrameRule.deepest`): level 0 calls level 1 synchronously, level 1
    raises; `_continue_on_generator` stores the deepest traceback frame - level 1's - as level 0's `_frame`, so the
    orphan created by level 0 is told its creator is level 1 -/
theorem C18_stack_orphan_counterexample :
    runTop .deepest .none [{ await := .sync, handler := .pass, own := none, orphan := true },
                  { await := .yld, handler := .pass, own := some 0, orphan := false }] =
      [.stack .start 0 [0], .stack .start 1 [0, 1],
       .result (some (11, [.caller, .task 0, .task 1], [.caller, .task 0, .task 1], [.task 0, .task 1])),
       .stack .orphan 0 [1, 1000]] ∧
    glueClause .none [{ await := .sync, handler := .pass, own := none, orphan := true },
                    { await := .yld, handler := .pass, own := some 0, orphan := false }]
      (runTop .deepest .none [{ await := .sync, handler := .pass, own := none, orphan := true },
                     { await := .yld, handler := .pass, own := some 0, orphan := false }]) = "stack-foreign-entry-sync" := by
  decide

/-- **refinement: the whole observation of a run of the model of the code = the reference observation** (stack events
    of the bodies, the result with raw / extract_tb / format_error frames, the orphans' stacks), for all `stackSafe`
    chains of every depth -/
theorem C18_glue_refines_partial (rule : FrameRule) (bottom : Bottom) (levels : List Level)
    (hsafe : rule = .own ∨ stackSafe bottom 0 levels = true) :
    runTop rule bottom levels = refTop bottom levels := by
  have hglue := C18_glue rule bottom levels
  have hres : resultEvent (run rule bottom 0 [] levels).out = refResult (ref bottom 0 levels) := by
    cases ho : (run rule bottom 0 [] levels).out with
    | none =>
      rw [ho] at hglue
      cases hr : ref bottom 0 levels with
      | none => rfl
      | some p => simp [hr] at hglue
    | some e =>
      rw [ho] at hglue
      cases hr : ref bottom 0 levels with
      | none => simp [hr] at hglue
      | some p =>
        obtain ⟨tok, fs⟩ := p
        simp only [hr] at hglue
        obtain ⟨h1, h2, h3⟩ := hglue
        simp [resultEvent, refResult, h1, h2, h3, userFrames_visible]
  simp only [runTop, refTop, C18_stack_events_exact, hres, C18_stack_orphan_partial rule bottom levels hsafe]

/-- **what `SPEC=ok` means for the events of an implementation run: they ARE the reference events** - nothing missing,
    nothing extra, nothing reordered (both directions) -/
theorem C18_glue_observer_exact (bottom : Bottom) (levels : List Level) (events : List Event) :
    glueClause bottom levels events = "ok" ↔ events = refTop bottom levels := by
  unfold glueClause
  constructor
  · intro h
    by_cases he : (events == refTop bottom levels) = true
    · exact eq_of_beq he
    · exfalso
      simp only [he, Bool.false_eq_true, if_false] at h
      split at h
      · exact absurd h (by decide)
      · rename_i hw
        exact hw (by simp [h])
  · intro h
    simp [h]

/-- **the glue / stack observer accepts every run of the model** (for `stackSafe` chains): the Boolean function the
    check evaluates on the implementation's events is satisfied by the model's events -/
theorem C18_glue_spec_holds_partial (rule : FrameRule) (bottom : Bottom) (levels : List Level)
    (hsafe : rule = .own ∨ stackSafe bottom 0 levels = true) :
    glueClause bottom levels (runTop rule bottom levels) = "ok" :=
  (C18_glue_observer_exact bottom levels _).mpr (C18_glue_refines_partial rule bottom levels hsafe)

/-! ### the name of the recorded finding -/

theorem glueEventClause_known (bottom : Bottom) (levels : List Level) (g : Event)
    (h : glueEventClause bottom levels g = "stack-foreign-entry-sync") :
    stackSafe bottom 0 levels = false ∧ g ∈ runTop .deepest bottom levels ∧
      ∃ lv ls, g = .stack .orphan lv ls ∧ ls ≠ List.range (lv + 1) ++ [1000 + lv] := by
  cases g with
  | stack k lv ls =>
    cases k with
    | orphan =>
      simp only [glueEventClause, orphanWrongName] at h
      by_cases he : (ls == List.range (lv + 1) ++ [1000 + lv]) = true
      · simp [he] at h
      · simp only [he, Bool.false_eq_true, if_false] at h
        split at h
        · rename_i hc
          simp only [Bool.and_eq_true, Bool.not_eq_true', List.contains_iff_mem] at hc
          exact ⟨hc.1, hc.2, lv, ls, rfl, fun hh => he (by simp [hh])⟩
        · exact absurd h (by decide)
    | start | handler =>
      simp only [glueEventClause] at h
      split at h <;> exact absurd h (by decide)
  | result r =>
    simp only [glueEventClause] at h
    split at h
    · exact absurd h (by decide)
    · repeat' split at h
      all_goals exact absurd h (by decide)
    · exact absurd h (by decide)
    · exact absurd h (by decide)

theorem glueWhy_known (bottom : Bottom) (levels : List Level) :
    ∀ (es gs : List Event), glueWhy bottom levels es gs = "stack-foreign-entry-sync" →
      ∃ g ∈ gs, glueEventClause bottom levels g = "stack-foreign-entry-sync" := by
  intro es
  induction es with
  | nil =>
    intro gs h
    cases gs <;> simp only [glueWhy] at h <;> exact absurd h (by decide)
  | cons e es ih =>
    intro gs h
    cases gs with
    | nil =>
      simp only [glueWhy] at h
      split at h <;> exact absurd h (by decide)
    | cons g gs =>
      simp only [glueWhy] at h
      split at h
      · split at h
        · obtain ⟨g', hg', hc⟩ := ih gs h
          exact ⟨g', by simp [hg'], hc⟩
        · exact ⟨g, by simp, h⟩
      · repeat' split at h
        all_goals exact absurd h (by decide)

/-- **the signature of the recorded finding cannot swallow anything else** (audit 2, N8): if the observer names an
    implementation's events "stack-foreign-entry-sync", then the chain is outside `stackSafe` (so
    `C18_glue_refines_partial` does not claim the code right there) AND one of the implementation's events is an
    orphan's answer that is wrong and is exactly the answer the model of the defective code (`FrameRule.deepest`)
    predicts for this chain.  Every other wrong orphan answer is named "stack-orphan-wrong". -/
theorem C18_known_signature_exact (bottom : Bottom) (levels : List Level) (events : List Event)
    (h : glueClause bottom levels events = "stack-foreign-entry-sync") :
    stackSafe bottom 0 levels = false ∧
    ∃ lv ls, Event.stack .orphan lv ls ∈ events ∧ Event.stack .orphan lv ls ∈ runTop .deepest bottom levels ∧
      ls ≠ List.range (lv + 1) ++ [1000 + lv] := by
  unfold glueClause at h
  split at h
  · exact absurd h (by decide)
  · have hw : glueWhy bottom levels (refTop bottom levels) events = "stack-foreign-entry-sync" := by
      simp only at h
      split at h
      · exact absurd h (by decide)
      · exact h
    obtain ⟨g, hg, hc⟩ := glueWhy_known bottom levels _ _ hw
    obtain ⟨h1, h2, lv, ls, rfl, h3⟩ := glueEventClause_known bottom levels g hc
    exact ⟨h1, lv, ls, hg, h2, h3⟩

/-! ## str / repr / dump -/

/-- where the model of the current code can fail: `_AsyncGenerator.__repr__` reading an attribute that `__init__` never
    sets (flag lists extracted from the source), a ConstFuture / ErrorFuture describing itself before `_in_repr`
    exists (flag extracted from the source), and `format_error` given something that is neither None nor an exception
    together with a traceback -/
def wellFormed : Obj → Bool
  | .asyncGen init reads => subset reads init
  | .constInit inReprSet => inReprSet
  | .fmtErr i => !feRaises i
  | .badHeld _ viaDump => viaDump     -- str / repr of an object holding a value whose own repr raises (open finding)
  | _ => true

/-- totality, BY CONSTRUCTION OF THE MODEL (`render` is a total function whose only failing branches are the ones
    `wellFormed` names): for every object kind, abstract lifecycle state and operation the diagnostic returns.  The
    content of the "never raise" clause is carried by the correspondence run (state table on the real classes). -/
theorem C18_repr_total_partial (o : Obj) (op : Op) (h : wellFormed o = true) : (render o op).isOk = true := by
  cases o with
  | holder k p => cases k <;> cases op <;> first | (simp [render, fmtOf, pct, Res.isOk]; done) | (cases p <;> simp_all [render, fmtOf, pct, Res.isOk, wellFormed])
  | fmtErr i => cases op <;> simp_all [render, Res.isOk, wellFormed]
  | _ => cases op <;> simp_all [render, Res.isOk, wellFormed]

/-- ... and exactly there (the hypothesis is necessary cell by cell) -/
theorem C18_repr_raises_iff (o : Obj) (op : Op) : (render o op).isOk = wellFormed o := by
  cases o with
  | asyncGen i r => cases op <;> (simp only [render, wellFormed]; cases subset r i <;> simp [Res.isOk])
  | constInit b => cases op <;> (simp only [render, wellFormed]; cases b <;> simp [Res.isOk])
  | holder k p =>
    cases k <;> cases op <;> first
      | (simp [render, fmtOf, pct, Res.isOk, wellFormed]; done)
      | (rcases p with (_ | _ | n) | _ <;> simp [render, fmtOf, pct, Res.isOk, wellFormed])
  | fmtErr i => cases op <;> (simp only [render, wellFormed]; cases feRaises i <;> simp [Res.isOk])
  | badHeld k d => cases op <;> cases d <;> simp [render, Res.isOk, wellFormed]
  | _ => cases op <;> simp [render, Res.isOk, wellFormed]

/-- the totality observer accepts the model's answer for every well-formed object inside the statement - and for every
    object outside it (`format_error` of a non-exception), whatever happens -/
theorem C18_repr_spec_holds_partial (kind opName : String) (o : Obj) (op : Op)
    (h : wellFormed o = true ∨ inStatement o = false) : reprClause kind opName o (render o op) = "ok" := by
  rcases h with h | h
  · have := C18_repr_total_partial o op h
    cases hr : render o op with
    | ok s => simp [reprClause]
    | raised x => simp [hr, Res.isOk] at this
  · simp [reprClause, h]

/-- every object whose text is one format string over a held value (scoped values, their override contexts,
    `generator.Value`) describes itself whatever the shape of that value - tuples of any length included: no holder
    hands the value to `%` as the right operand (`Fmt.bare` is what `generator.Value` did before the fix 0bb3d68, `pct`
    shows what that meant).  BY CONSTRUCTION: `fmtOf` is a constant table (four times `.wrapped`, written by hand after
    reading the four format expressions); that the real classes behave so is checked by the correspondence run over
    every value shape, not by this theorem. -/
theorem C18_repr_holders_total (k : Holder) (p : PayShape) (op : Op) : render (.holder k p) op = .ok .text := by
  cases k <;> cases op <;> simp [render, fmtOf, pct]

/-- ... and the wrapping is needed: a bare `%` fails on tuples (CPython's `%`, as modelled by `pct`; a `decide` on
    that table - by construction) -/
theorem C18_bare_percent_fails :
    pct .bare (.tuple 0) = .raised .typeError ∧ pct .bare (.tuple 1) = .raised .misdescribed ∧
    pct .bare (.tuple 2) = .raised .typeError := by
  decide

/-- the flag hypotheses of `wellFormed` are needed (these were the code before the fixes bd367ef / e06b222):
    `_AsyncGenerator.__init__` setting `generator`(0), `last_task`(1), `is_stopped`(2) while `__repr__` reads
    `generator`(0) and `stopped`(3) - AttributeError in every state; a ConstFuture under DUMP_COMPUTED describing itself
    before `_in_repr` is assigned -/
theorem C18_repr_flags_needed :
    render (.asyncGen [0, 1, 2] [0, 3]) .repr = .raised .attributeError ∧
    render (.asyncGen [0, 1, 2] [0, 3]) .str = .raised .attributeError ∧
    render (.constInit false) .dump = .raised .attributeError := by
  decide

/-- `format_error` accepts any exception with or without traceback (`isExc`, or None; `_traceback` absent, None or a
    traceback): in the model it never raises, returns None exactly for None, and for an exception a text - with a
    traceback part iff a traceback was passed or stored by asynq on the exception.  BY CONSTRUCTION: conjunct 1 is the
    negation of `feRaises` under the hypotheses, the others read off the five-line table `formatError`; the content of
    the clause is the correspondence run (every cell is driven on the real function).  Both hypotheses are needed:
    `C18_format_error_non_exception`, `C18_format_error_garbage_traceback_attr`. -/
theorem C18_format_error_total (i : FeIn) (h : i.isNone = true ∨ i.isExc = true) (hg : i.tbAttr ≠ .garbage) :
    (∀ op, (render (.fmtErr i) op).isOk = true) ∧
    (formatError i = .none ↔ i.isNone = true) ∧
    (i.isNone = false → formatError i = .withTraceback ∨ formatError i = .onlyException) ∧
    (formatError i = .withTraceback ↔ (i.isNone = false ∧ (i.tbArg = true ∨ i.tbAttr = .real))) := by
  obtain ⟨n, x, ta, tg⟩ := i
  refine ⟨fun op => ?_, ?_⟩
  · cases op <;> cases n <;> cases x <;> cases ta <;> simp_all [render, feRaises, Res.isOk]
  · cases n <;> cases x <;> cases tg <;> cases ta <;> simp_all [formatError]

/-- outside the statement: `format_error("some string", tb)` (debug.py:120-122 hands the object to
    `traceback.format_exception`) raises AttributeError in the model of the code; without any traceback it returns an
    empty text.  The observer does not judge these cells (`inStatement`). -/
theorem C18_format_error_non_exception :
    render (.fmtErr ⟨false, false, .absent, true⟩) .str = .raised .attributeError ∧
    render (.fmtErr ⟨false, false, .real, false⟩) .str = .raised .attributeError ∧
    render (.fmtErr ⟨false, false, .absent, false⟩) .str = .ok (.fe .empty) ∧
    reprClause "formatError" "str" (.fmtErr ⟨false, false, .absent, true⟩) (.raised .attributeError) = "ok" := by
  decide

/-- outside the statement too (audit 2, N7): an exception whose private `_traceback` attribute holds something that is
    neither None nor a traceback.  `tb = tb or error._traceback` hands it to `traceback.format_exception`, which walks
    it: AttributeError - unless a real traceback is passed as `tb`.  asynq and qcore only ever store
    `sys.exc_info()[2]` there; the cell is driven and compared, not judged. -/
theorem C18_format_error_garbage_traceback_attr :
    render (.fmtErr ⟨false, true, .garbage, false⟩) .str = .raised .attributeError ∧
    render (.fmtErr ⟨false, true, .garbage, true⟩) .str = .ok (.fe .withTraceback) ∧
    render (.fmtErr ⟨true, false, .garbage, false⟩) .str = .ok (.fe .none) ∧
    inStatement (.fmtErr ⟨false, true, .garbage, false⟩) = false ∧
    reprClause "formatError" "str" (.fmtErr ⟨false, true, .garbage, false⟩) (.raised .attributeError) = "ok" ∧
    -- ... while `_traceback = None` on an exception is inside the statement and fine
    render (.fmtErr ⟨false, true, .isNone, false⟩) .str = .ok (.fe .onlyException) ∧
    inStatement (.fmtErr ⟨false, true, .isNone, false⟩) = true := by
  decide

/-! ## non-vacuity, and what the observers reject -/

/-- the three tables of debug.py (patterns numbered as the harness numbers them); a traceback with a complete
    TASK_CONTINUE run, a partial FUTURE_BASE run and foreign lines: only the complete run collapses -/
example :
    filterTb [⟨[0, 1, 1], 0⟩, ⟨[2, 3, 3, 4, 5, 6, 5, 7], 1⟩, ⟨[8, 9, 9, 9, 10], 2⟩]
      [⟨0, []⟩, ⟨1, [0]⟩, ⟨2, [0, 1]⟩, ⟨3, [0, 1]⟩, ⟨4, [2]⟩, ⟨5, [3, 7]⟩, ⟨6, []⟩] =
      [.copy ⟨0, []⟩, .marker 0, .copy ⟨4, [2]⟩, .copy ⟨5, [3, 7]⟩, .copy ⟨6, []⟩] := by
  decide

/-- the filter observer is not trivially true: it rejects an output that collapses a partial run -/
example :
    filterClause [⟨[0, 1, 1], 0⟩] [⟨0, [0]⟩, ⟨1, [0, 1]⟩, ⟨2, []⟩] [.marker 0, .copy ⟨2, []⟩] =
      "marker-replaces-incomplete-run" := by
  decide

/-- ... and refuses a table with an empty pattern list, whatever the output -/
example : filterClause [⟨[], 7⟩] [⟨0, []⟩] [.marker 7, .copy ⟨0, []⟩] = "empty-pattern-list" := by decide

/-- `C18_filter_id` is not vacuous: a traceback with partial runs only -/
example : filterTb [⟨[0, 1, 1], 0⟩] [⟨0, [0]⟩, ⟨1, [1]⟩, ⟨2, []⟩, ⟨3, [1]⟩] =
    [.copy ⟨0, [0]⟩, .copy ⟨1, [1]⟩, .copy ⟨2, []⟩, .copy ⟨3, [1]⟩] := by decide

def Lp : Level := ⟨.yld, .pass, none, false⟩
def Lr (h : Nat) : Level := ⟨.yld, .pass, some h, false⟩

/-- a chain of depth 3 where level 2 raises inside two helpers, level 1 re-raises with `raise e`, level 0 passes:
    the caller sees caller, L0, L1, L2, H2_1, H2_2 (an instance of `C18_glue_crosses_own`) -/
example :
    (runTop .deepest .none [⟨.yld, .pass, none, false⟩, ⟨.yld, .named, none, false⟩, ⟨.yld, .pass, some 2, false⟩]).getLast? =
      some (.result (some (21, [.caller, .task 0, .task 1, .task 2, .helper 2 1, .helper 2 2],
        [.caller, .task 0, .task 1, .task 2, .helper 2 1, .helper 2 2],
        [.task 0, .task 1, .task 2, .helper 2 1, .helper 2 2]))) := by
  decide

/-- the hypotheses of `C18_glue_crosses_own` are satisfiable with a swallowing raiser above a failing level -/
example : ref .none 1 [⟨.sync, .swallow, some 1, true⟩, Lr 0] = some (11, [.task 1, .helper 1 1]) := by decide

/-- with `_frame` kept inside the task's own frames (`FrameRule.own`) the chain of `C18_stack_orphan_counterexample`
    gives the orphan its real creator -/
example :
    (runTop .own .none [⟨.sync, .pass, none, true⟩, ⟨.yld, .pass, some 0, false⟩]).getLast? =
      some (.stack .orphan 0 [0, 1000]) := by
  decide

/-- `stackSafe` is weaker than the syntactic condition it replaces ("no level awaits synchronously without catching"):
    a synchronous call that does not fail, and one that fails where no orphan looks, are covered -/
example : stackSafe .none 0 [⟨.sync, .pass, none, true⟩] = true ∧
    stackSafe .none 0 [⟨.sync, .bare, some 2, true⟩, ⟨.yld, .pass, none, true⟩] = true ∧
    stackSafe .none 0 [⟨.yld, .pass, none, true⟩, ⟨.sync, .pass, none, false⟩, Lr 0] = true ∧
    stackSafe .none 0 [⟨.yld, .pass, none, false⟩, ⟨.sync, .pass, none, false⟩, ⟨.yld, .pass, some 0, true⟩] = false := by
  decide

/-- the raiser is a context hook: level 2 blocks on a batch item inside `with ctx:`, `ctx.pause()` raises from one helper
    while the scheduler suspends the task; the caller sees caller, L0, L1, the hook, its helper -/
example :
    (runTop .deepest (.hook false 1) [Lp, Lp, Lp]).getLast? =
      some (.result (some (4, [.caller, .task 0, .task 1, .hook 2, .hookHelper 2 1],
        [.caller, .task 0, .task 1, .hook 2, .hookHelper 2 1], [.task 0, .task 1, .hook 2, .hookHelper 2 1]))) := by
  decide

/-- the observer rejects a delivered traceback that stops above the hook (stored traceback lost) -/
example :
    glueClause (.hook true 0) [Lp, Lp]
      [.stack .start 0 [0], .stack .start 1 [0, 1],
       .result (some (4, [.caller, .task 0], [.caller, .task 0], [.task 0]))] = "glued-traceback" := by
  decide

/-- the observer rejects a traceback that lost a level -/
example :
    glueClause .none [Lp, Lr 0]
      [.stack .start 0 [0], .stack .start 1 [0, 1],
       .result (some (11, [.caller, .task 1], [.caller, .task 1], [.task 1]))] = "glued-traceback" := by
  decide

/-- audit B5 (a): an event list with NO stack events at all is rejected -/
example :
    glueClause .none [Lp, Lr 0]
      [.result (some (11, [.caller, .task 0, .task 1], [.caller, .task 0, .task 1], [.task 0, .task 1]))] =
      "stack-event-missing" := by
  decide

/-- audit B5 (b): stack events of levels that do not exist, duplicated, or of an orphan nobody created are rejected -/
example :
    glueClause .none [Lp, Lr 0]
      [.stack .start 7 (List.range 8), .stack .handler 5 (List.range 6), .stack .orphan 3 [0, 1, 2, 3, 1003],
       .result (some (11, [.caller, .task 0, .task 1], [.caller, .task 0, .task 1], [.task 0, .task 1]))] =
      "stack-event-wrong-slot" ∧
    glueClause .none [Lp, Lr 0]
      [.stack .start 0 [0], .stack .start 1 [0, 1], .stack .start 1 [0, 1],
       .result (some (11, [.caller, .task 0, .task 1], [.caller, .task 0, .task 1], [.task 0, .task 1]))] =
      "unexpected-event" ∧
    glueClause .none [Lp, Lr 0]
      [.stack .start 0 [0], .stack .start 1 [0, 1],
       .result (some (11, [.caller, .task 0, .task 1], [.caller, .task 0, .task 1], [.task 0, .task 1])),
       .stack .orphan 0 [0, 1000]] = "unexpected-event" ∧
    glueClause .none [Lp, Lr 0]
      [.stack .start 0 [0], .stack .start 1 [0, 1],
       .result (some (11, [.caller, .task 0, .task 1], [.caller, .task 0, .task 1], [.task 0, .task 1])),
       .result none] = "unexpected-event" := by
  decide

/-- a handler that did not ask although the level below failed, a missing orphan, a missing result -/
example :
    glueClause .none [⟨.yld, .named, none, true⟩, Lr 0]
      [.stack .start 0 [0], .stack .start 1 [0, 1],
       .result (some (11, [.caller, .task 0, .task 1], [.caller, .task 0, .task 1], [.task 0, .task 1])),
       .stack .orphan 0 [0, 1000]] = "stack-event-missing" ∧
    glueClause .none [⟨.yld, .named, none, true⟩, Lr 0]
      [.stack .start 0 [0], .stack .start 1 [0, 1], .stack .handler 0 [0],
       .result (some (11, [.caller, .task 0, .task 1], [.caller, .task 0, .task 1], [.task 0, .task 1]))] =
      "stack-event-missing" ∧
    glueClause .none [⟨.yld, .named, none, true⟩, Lr 0]
      [.stack .start 0 [0], .stack .start 1 [0, 1], .stack .handler 0 [0]] = "no-result" := by
  decide

/-- ... while the model's own run of that chain is accepted (`C18_glue_spec_holds_partial` is not vacuous) -/
example : glueClause .none [⟨.yld, .named, none, true⟩, Lr 0] (runTop .deepest .none [⟨.yld, .named, none, true⟩, Lr 0]) = "ok" := by
  decide

/-- repr: the totality observer accepts the scoped-value holders with every payload shape and rejects a raising or
    misdescribing diagnostic; `wellFormed` holds for the flags of the current tree -/
example : reprClause "scopedValue" "str" (.holder .scopedValue (.tuple 2)) (render (.holder .scopedValue (.tuple 2)) .str) = "ok" ∧
    reprClause "scopedValue" "str" (.holder .scopedValue (.tuple 2)) (.raised .typeError) = "raises:scopedValue.str" ∧
    reprClause "scopedValue" "repr" (.holder .scopedValue (.tuple 1)) (.raised .misdescribed) = "raises:scopedValue.repr" ∧
    wellFormed (.asyncGen [0, 1, 2] [0, 2]) = true ∧ wellFormed (.constInit true) = true ∧
    wellFormed (.holder .genValue (.tuple 2)) = true := by
  decide

/-! ### the hypotheses of the gluing theorems are needed (machine-checked witnesses) -/

/-- `hpre` of `C18_ref_passing_prefix` / `C18_glue_crosses` / `_crosses_own` / `_crosses_hook`: a crossed level that
    swallows, or raises something new, does not hand the exception on -/
example :
    ref .none 1 [Lr 0] = some (11, [.task 1]) ∧
    ref .none 0 ([⟨.yld, .swallow, none, false⟩] ++ [Lr 0]) = none ∧
    ref .none 0 ([⟨.yld, .raiseNew 0, none, false⟩] ++ [Lr 0]) = some (2, [.task 0]) := by
  decide

/-- `hbelow` of `C18_glue_crosses_own`: if the levels below the would-be raiser fail and it does not swallow, its own
    raise is never reached - the caller sees the lower exception -/
example :
    (⟨.yld, .pass, some 1, false⟩ : Level).own = some 1 ∧
    ref .none 0 [⟨.yld, .pass, some 1, false⟩, Lr 0] = some (11, [.task 0, .task 1]) := by
  decide

/-- `hh` of `C18_glue_crosses_own` and of `C18_glue_starts_at_awaiter`: the innermost level of a chain whose bottom is a
    context hook is failed from outside by the scheduler - its own raise never runs, and the traceback starts with the
    hook, not with that level's generator frame -/
example :
    ref (.hook false 0) 0 [⟨.yld, .pass, some 0, false⟩] = some (4, [.hook 0]) ∧
    (runTop .deepest (.hook false 0) [⟨.yld, .pass, some 0, false⟩]).getLast? =
      some (.result (some (4, [.caller, .hook 0], [.caller, .hook 0], [.hook 0]))) := by
  decide

/-- `C18_ref_passing_prefix` with an EMPTY tail (the hypothesis `tail ≠ []` of the earlier version was not needed):
    the exception of an ErrorFuture crosses two passing levels -/
example : ref .errFuture 0 ([Lp, Lp] ++ []) = some (3, [.task 0, .task 1]) := by decide

/-- audit 2, N8: a wrong orphan answer on a chain where nothing fails (`stackSafe`, model = reference) used to be
    named after the open finding because level 0 awaits synchronously; it is "stack-orphan-wrong" now.  Same for a
    wrong entry at the index of a synchronously awaiting level deeper in a safe chain. -/
example :
    stackSafe .none 0 [⟨.sync, .pass, none, true⟩, ⟨.yld, .pass, none, false⟩] = true ∧
    glueClause .none [⟨.sync, .pass, none, true⟩, ⟨.yld, .pass, none, false⟩]
      [.stack .start 0 [0], .stack .start 1 [0, 1], .result none, .stack .orphan 0 [1, 1000]] = "stack-orphan-wrong" ∧
    stackSafe .none 0 [⟨.yld, .pass, none, false⟩, ⟨.sync, .pass, none, true⟩, ⟨.yld, .pass, none, false⟩] = true ∧
    glueClause .none [⟨.yld, .pass, none, false⟩, ⟨.sync, .pass, none, true⟩, ⟨.yld, .pass, none, false⟩]
      [.stack .start 0 [0], .stack .start 1 [0, 1], .stack .start 2 [0, 1, 2], .result none,
       .stack .orphan 1 [0, 7, 1001]] = "stack-orphan-wrong" := by
  decide

/-- ... and on the chain of `C18_stack_orphan_counterexample` itself (outside `stackSafe`) only the predicted wrong
    answer `[1, 1000]` carries the recorded name; another wrong answer, or a too short one, does not -/
example :
    glueClause .none [⟨.sync, .pass, none, true⟩, Lr 0]
      [.stack .start 0 [0], .stack .start 1 [0, 1],
       .result (some (11, [.caller, .task 0, .task 1], [.caller, .task 0, .task 1], [.task 0, .task 1])),
       .stack .orphan 0 [5, 1000]] = "stack-orphan-wrong" ∧
    glueClause .none [⟨.sync, .pass, none, true⟩, Lr 0]
      [.stack .start 0 [0], .stack .start 1 [0, 1],
       .result (some (11, [.caller, .task 0, .task 1], [.caller, .task 0, .task 1], [.task 0, .task 1])),
       .stack .orphan 0 [1000]] = "stack-orphan-wrong" ∧
    glueClause .none [⟨.sync, .pass, none, true⟩, Lr 0]
      [.stack .start 0 [0], .stack .start 1 [0, 1],
       .result (some (11, [.caller, .task 0, .task 1], [.caller, .task 0, .task 1], [.task 0, .task 1])),
       .stack .orphan 0 [1, 1000]] = "stack-foreign-entry-sync" := by
  decide

/-- audit 2 (report N6; audit 1 test c / c2): the filter that never collapses, on an input with a complete run, and the
    marker of a LATER table entry where an earlier one matches, were accepted (both are renderings); rejected now -/
example :
    filterClause [⟨[0, 1, 1], 0⟩] [⟨0, [0]⟩, ⟨1, [0, 1]⟩, ⟨2, [0, 1]⟩]
      [.copy ⟨0, [0]⟩, .copy ⟨1, [0, 1]⟩, .copy ⟨2, [0, 1]⟩] = "complete-run-not-collapsed" ∧
    filterClause [⟨[0], 0⟩, ⟨[0, 1], 1⟩] [⟨0, [0]⟩, ⟨1, [1]⟩] [.marker 1] = "marker-not-first-match" ∧
    filterClause [⟨[0], 0⟩, ⟨[0, 1], 1⟩] [⟨0, [0]⟩, ⟨1, [1]⟩] (filterTb [⟨[0], 0⟩, ⟨[0, 1], 1⟩] [⟨0, [0]⟩, ⟨1, [1]⟩]) = "ok" ∧
    -- a run collapsed one position later than the scan meets it is a rendering too, and not the model's output
    filterClause [⟨[0], 0⟩] [⟨0, [0]⟩, ⟨1, [0]⟩] [.copy ⟨0, [0]⟩, .marker 0] = "complete-run-not-collapsed" := by
  decide

/-- audit 2, N7: `format_error` of an exception whose `_traceback` is garbage - the model used to say "returns" -/
example : render (.fmtErr ⟨false, true, .garbage, false⟩) .str = .raised .attributeError := by decide

/-! ## later retrievals of the error of a failed chain (round 5) -/

/-- **a second, third, ... consumer of a failed task sees the glued traceback, not what earlier consumers saw**: for
    every error prepared for re-raise (`_type_` set, `_traceback` showing `fs`) and EVERY content of its
    `__traceback__` (the frames of any number of earlier consumers), the synchronous caller catches it with the
    caller's frame followed by exactly `fs` -/
theorem C18_retrieval_resets (e : Err) (junk : List Frame) (fs : List Frame)
    (h2 : e.hasType = true) (h3 : userFrames e.tb = fs) :
    userFrames (callerView { e with cur := junk }) = .caller :: fs := by
  simp only [userFrames] at h3
  simp [callerView, unwind, valueRaises, reraise, h2, userFrames, List.filter_cons, isUser, h3]

/-- **refinement with later retrievals, for all chains of at least one task and all lists of retrievals** (the same
    task asked again; a new task put on top of the failed one with `yield` or a synchronous call, any number of
    times, in any order): the whole observation of the model of the code = the reference observation, in which every
    retrieval shows the caller's frame, one frame per task level crossed NOW, and the raising frames -/
theorem C18_again_refines_partial (rule : FrameRule) (bottom : Bottom) (L : Level) (rest : List Level)
    (rs : List Retrieval) (hsafe : rule = .own ∨ stackSafe bottom 0 (L :: rest) = true) :
    runTopAgain rule bottom (L :: rest) rs = refTopAgain bottom (L :: rest) rs := by
  have hglue := C18_glue rule bottom (L :: rest)
  have hagr := run_agrees rule bottom (L :: rest) 0 []
  simp only [runTopAgain, refTopAgain, refAgain, C18_glue_refines_partial rule bottom (L :: rest) hsafe]
  congr 1
  cases ho : (run rule bottom 0 [] (L :: rest)).out with
  | none =>
    rw [ho] at hglue
    cases hr : ref bottom 0 (L :: rest) with
    | none => rfl
    | some p => simp [hr] at hglue
  | some e =>
    rw [ho] at hagr
    cases hr : ref bottom 0 (L :: rest) with
    | none => simp [hr, Agrees] at hagr
    | some p =>
      obtain ⟨tok, fs⟩ := p
      simp only [hr, Agrees] at hagr
      obtain ⟨htok, hinv⟩ := hagr
      have ht := run_out_hasTask rule bottom L rest 0 [] e ho
      have hst : Stored e fs := ⟨ht, by rw [← hinv.same, ht], hinv.tb⟩
      have hs := seen_stored hst
      simp only
      rw [retrievals_ref rule rs 0 _ _ hs.1, hs.2, htok]

/-- **what `SPEC=ok` means for a run with later retrievals: the events ARE the reference events** (both directions) -/
theorem C18_again_observer_exact (bottom : Bottom) (levels : List Level) (rs : List Retrieval) (events : List Event) :
    againClause bottom levels rs events = "ok" ↔ events = refTopAgain bottom levels rs := by
  unfold againClause
  constructor
  · intro h
    by_cases he : (events == refTopAgain bottom levels rs) = true
    · exact eq_of_beq he
    · exfalso
      simp only [he, Bool.false_eq_true, if_false] at h
      split at h
      · rename_i hc
        rw [h] at hc
        exact absurd hc (by decide)
      · split at h
        · exact absurd h (by decide)
        · rename_i hw
          exact hw (by simp [h])
  · intro h
    simp [h]

/-- the observer accepts every run of the model with later retrievals -/
theorem C18_again_spec_holds_partial (rule : FrameRule) (bottom : Bottom) (L : Level) (rest : List Level)
    (rs : List Retrieval) (hsafe : rule = .own ∨ stackSafe bottom 0 (L :: rest) = true) :
    againClause bottom (L :: rest) rs (runTopAgain rule bottom (L :: rest) rs) = "ok" :=
  (C18_again_observer_exact bottom (L :: rest) rs _).mpr (C18_again_refines_partial rule bottom L rest rs hsafe)

/-- non-vacuity: `raise self._error` instead of `reraise` (seed C18-10) - the second consumer would see the first
    consumer's frames in the middle of the chain; the observer names it -/
example :
    againClause .none [Lp, Lr 0] [.direct]
      (refTop .none [Lp, Lr 0] ++
        [.result (some (11, [.caller, .caller, .task 0, .task 1], [.caller, .caller, .task 0, .task 1], [.task 0, .task 1]))])
      = "retrieval-glued-traceback" ∧
    againClause .none [Lp, Lr 0] [.direct, .viaTask .sync] (runTopAgain .own .none [Lp, Lr 0] [.direct, .viaTask .sync]) = "ok" ∧
    refAgain .none [Lp, Lr 0] [.direct, .viaTask .sync] =
      [.result (some (11, [.caller, .task 0, .task 1], [.caller, .task 0, .task 1], [.task 0, .task 1])),
       .result (some (11, [.caller, .task 101, .task 0, .task 1], [.caller, .task 101, .task 0, .task 1],
         [.task 101, .task 0, .task 1]))] := by
  decide

/-! ## audit 3: two behaviours of the code that the property text does not allow (open findings) -/

/-- **A5, counterexample in the model of the code as it is**: `str` / `repr` of a future, a failed future, a computed
    task, a scoped value, its override contexts and `generator.Value` holding a value whose own `__repr__` raises DO
    raise (the object is inside the statement: "never raise in any state"); the observer names it with the recorded
    signature, and only str / repr - `dump()` of the same object returns and would keep the ordinary name -/
theorem C18_repr_badheld_counterexample :
    (∀ k : BadHolder, ∀ op : Op, render (.badHeld k false) op = .raised .other ∧ inStatement (.badHeld k false) = true ∧
      (render (.badHeld k true) op).isOk = true) ∧
    reprClause "badHeld" "repr" (.badHeld .future false) (render (.badHeld .future false) .repr) = "held-value-repr-raises" ∧
    reprClause "badHeld" "dump" (.badHeld .future true) (.raised .other) = "raises:badHeld.dump" := by
  refine ⟨fun k op => ?_, by decide, by decide⟩
  cases k <;> cases op <;> decide

/-- the recorded name is given to nothing else: a `held-value-repr-raises` verdict means the object is one that holds
    a value whose repr raises, the operation is str / repr, and the operation raised -/
theorem C18_badheld_signature_exact (kind opName : String) (o : Obj) (r : Res)
    (h : reprClause kind opName o r = "held-value-repr-raises") :
    (∃ k, o = .badHeld k false) ∧ r.isOk = false := by
  unfold reprClause at h
  split at h
  · exact absurd h (by decide)
  · split at h
    · exact absurd h (by decide)
    · split at h
      · exact ⟨⟨_, rfl⟩, rfl⟩
      · exfalso
        simp only at h
        split at h
        · exact absurd h (by decide)
        · rename_i hne
          exact hne (by simp [h])

/-- the witness chain of A2: level 0 awaits level 1 inside `try: .. except E: pass` (swallow), level 1 raises -/
def rejectWitness : List Level := [⟨.yld, .swallow, none, false⟩, ⟨.yld, .pass, some 0, false⟩]

/-- three levels that let the exception of the innermost one (raised through one helper) pass -/
def rejectWitness3 : List Level := [⟨.yld, .pass, none, false⟩, ⟨.yld, .pass, none, false⟩, ⟨.yld, .pass, some 1, false⟩]

/-- **A2 after the repair b55deef** (the former counterexample, delivery part): in the model of the repaired code the
    chain whose exception class rejects attribute assignment DELIVERS - on `rejectWitness` the whole observation is the
    reference one (level 0 reports from its handler, the call returns) and the observer accepts it; across three levels
    THAT exception (token 21 = the reference's) reaches the caller after every level reported; the observation of the
    code before the repair is rejected under its old name, a foreign frame under its own. -/
theorem C18_reject_repaired :
    runTopC .rejects .own .none rejectWitness = refTop .none rejectWitness ∧
    rejectClause .own .none rejectWitness (runTopC .rejects .own .none rejectWitness) = "ok" ∧
    (ref .none 0 rejectWitness3).map (·.1) = some 21 ∧
    runTopC .rejects .own .none rejectWitness3 =
      [.stack .start 0 [0], .stack .start 1 [0, 1], .stack .start 2 [0, 1, 2],
       .result (some (21, [.caller, .task 0], [.caller, .task 0], []))] ∧
    rejectClause .own .none rejectWitness
      [.stack .start 0 [0], .stack .start 1 [0, 1], .result (some (rejectTok, [.caller], [.caller], []))] =
      "exception-rejecting-attributes-not-delivered" ∧
    rejectClause .own .none rejectWitness3
      [.stack .start 0 [0], .stack .start 1 [0, 1], .stack .start 2 [0, 1, 2],
       .result (some (21, [.caller, .task 0, .task 7], [.caller, .task 0, .task 7], []))] = "glued-traceback-foreign-frames" := by
  decide

/-- **residual open finding, counterexample in the model of the code as it is (b55deef)**: an exception whose class
    rejects attribute assignment crosses three levels awaited by yield and reaches the caller with the frames
    `[caller, task 0]` only - the reference (and the model for every ordinary class) demands
    `[caller, task 0, task 1, task 2, helper]`, ending at the raising frame; `format_error` names no frame.  The observer
    rejects it with the recorded name; the same frames with one reference frame more than the model predicts (a
    different truncation) are NOT given that name, nor is an incomplete traceback on an ordinary class. -/
theorem C18_reject_traceback_counterexample :
    refTop .none rejectWitness3 =
      [.stack .start 0 [0], .stack .start 1 [0, 1], .stack .start 2 [0, 1, 2],
       .result (some (21, [.caller, .task 0, .task 1, .task 2, .helper 2 1],
         [.caller, .task 0, .task 1, .task 2, .helper 2 1], [.task 0, .task 1, .task 2, .helper 2 1]))] ∧
    runTopC .accepts .own .none rejectWitness3 = refTop .none rejectWitness3 ∧
    runTopC .rejects .own .none rejectWitness3 ≠ refTop .none rejectWitness3 ∧
    rejectClause .own .none rejectWitness3 (runTopC .rejects .own .none rejectWitness3) =
      "exception-rejecting-attributes-traceback-incomplete" ∧
    rejectClause .own .none rejectWitness3
      [.stack .start 0 [0], .stack .start 1 [0, 1], .stack .start 2 [0, 1, 2],
       .result (some (21, [.caller, .task 0, .task 2], [.caller, .task 0, .task 2], []))] = "glued-traceback" ∧
    glueClause .none rejectWitness3 (runTopC .rejects .own .none rejectWitness3) = "glued-traceback" := by
  decide

/-- the glue statement with the exception class made explicit: for every class that ACCEPTS attribute assignment the
    whole observation is the reference one (hypothesis needed: `C18_reject_traceback_counterexample`) -/
theorem C18_glue_refines_class_partial (cls : ExcClass) (rule : FrameRule) (bottom : Bottom) (levels : List Level)
    (hcls : cls = .accepts) (hsafe : rule = .own ∨ stackSafe bottom 0 levels = true) :
    runTopC cls rule bottom levels = refTop bottom levels := by
  subst hcls
  exact C18_glue_refines_partial rule bottom levels hsafe

/-- the name of the behaviour before the repair is given exactly to event lists in which the caller caught the error
    of the rejected assignment (token `rejectTok`) -/
theorem C18_reject_signature_exact (rule : FrameRule) (bottom : Bottom) (levels : List Level) (events : List Event) :
    rejectClause rule bottom levels events = "exception-rejecting-attributes-not-delivered" ↔
      events.any Event.isRejected = true := by
  unfold rejectClause
  constructor
  · intro h
    split at h
    · assumption
    · exfalso
      simp only at h
      split at h
      · exact absurd h (by decide)
      · rename_i hne
        exact hne (by simp [h])
  · intro h
    simp [h]

/-- a chain of rejecting exceptions in which no exception ever crosses a level behaves like every other chain -/
example : rejectTop .own .errFuture [⟨.yld, .pass, none, true⟩, ⟨.yld, .swallow, none, false⟩] =
    refTop .errFuture [⟨.yld, .pass, none, true⟩, ⟨.yld, .swallow, none, false⟩] := by decide

end AsynqModel.Debug
