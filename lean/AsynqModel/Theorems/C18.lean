import AsynqModel.Lib.Debug
import AsynqModel.Proofs.Debug
/-!
# C18  Diagnostics are faithful and total: glued tracebacks, stack, repr, filter

Theorems about the model `AsynqModel.Debug` (Lib/Debug.lean).
-/
namespace AsynqModel.Debug

/-! ## filter_traceback -/

/-- **soundness of the filter, for ALL pattern tables and ALL line lists**: the output is the input with some disjoint
    COMPLETE runs each replaced by the marker of its table entry; every other line is copied unchanged and in order
    (`Renders` is exactly that statement).  No partial run is ever collapsed. -/
theorem C18_filter_sound (tbl : List Repl) (hok : tablesOK tbl = true) (lines : List Line) :
    Renders tbl lines (filterTb tbl lines) :=
  go_renders tbl hok lines.length lines (Nat.le_refl _)

/-- the Boolean observer the check evaluates on the implementation's output accepts the model's output -/
theorem C18_filter_spec_holds (tbl : List Repl) (hok : tablesOK tbl = true) (lines : List Line) :
    filterClause tbl lines (filterTb tbl lines) = "ok" := by
  have := rendersB_complete tbl (C18_filter_sound tbl hok lines)
  simp [filterClause, hok, this]

/-- what `SPEC=ok` means for an implementation output: it is a rendering in the sense of `Renders` -/
theorem C18_filter_observer_sound (tbl : List Repl) (inp : List Line) (out : List Out)
    (h : filterClause tbl inp out = "ok") : Renders tbl inp out := by
  unfold filterClause at h
  by_cases h1 : rendersB tbl inp out = true
  · exact rendersB_sound tbl out inp h1
  · exfalso
    simp only [h1] at h
    split at h
    · exact absurd h (by decide)
    · simp only [Bool.false_eq_true, if_false] at h
      split at h
      · exact absurd h (by decide)
      · rename_i hw
        exact hw (by simp [h])

/-- no complete run of any table entry at any position ⇒ the filter is the identity
    (hypothesis stated without the model's functions: no decomposition `pre ++ seg ++ post` with `seg` a complete run) -/
theorem C18_filter_id (tbl : List Repl) (lines : List Line)
    (h : ∀ r ∈ tbl, ∀ pre seg post, lines = pre ++ seg ++ post → ¬ Complete r.pats seg) :
    filterTb tbl lines = lines.map .copy := by
  apply noCompleteRun_go
  induction lines with
  | nil => rfl
  | cons l ls ih =>
    simp only [noCompleteRun, Bool.and_eq_true, List.all_eq_true, Bool.not_eq_true']
    constructor
    · intro r hr
      cases hm : matchRun r.pats (l :: ls) with
      | false => rfl
      | true =>
        rw [matchRun_iff] at hm
        exact absurd hm (h r hr [] _ ((l :: ls).drop r.pats.length) (by simp))
    · apply ih
      intro r hr pre seg post hls
      exact h r hr (l :: pre) seg post (by simp [hls])

/-- first match wins: a marker is that of the FIRST table entry with a complete run at this position, and a line is
    copied only if no entry has a complete run starting at it -/
theorem C18_filter_first_match (tbl : List Repl) (l : Line) (ls : List Line) :
    (∀ r, firstMatch tbl (l :: ls) = some r →
      (filterTb tbl (l :: ls)).head? = some (.marker r.marker) ∧
      ∃ pre post, tbl = pre ++ r :: post ∧ (∀ r' ∈ pre, matchRun r'.pats (l :: ls) = false) ∧
        Complete r.pats ((l :: ls).take r.pats.length)) ∧
    (firstMatch tbl (l :: ls) = none →
      (filterTb tbl (l :: ls)).head? = some (.copy l) ∧ ∀ r ∈ tbl, ¬ Complete r.pats ((l :: ls).take r.pats.length)) := by
  constructor
  · intro r hr
    obtain ⟨pre, post, h1, h2, h3⟩ := firstMatch_first hr
    refine ⟨by simp [filterTb, go, hr], pre, post, h1, h2, (matchRun_iff _ _).mp h3⟩
  · intro hn
    refine ⟨by simp [filterTb, go, hn], ?_⟩
    intro r hr hc
    have := firstMatch_none.mp hn r hr
    rw [(matchRun_iff _ _).mpr hc] at this
    exact absurd this (by decide)

/-! ## traceback gluing -/

/-- **gluing, for all chains** (every depth, await style, handler and raise position at every level, with or without
    an ErrorFuture at the bottom): the caller gets an exception iff the sequential reading `ref` says so, it is THAT
    exception object, and the user frames of its traceback - as the caller catches it, and as stored in `_traceback`
    (what `format_error` prints) - are the caller's frame followed by exactly the frames `ref` lists -/
theorem C18_glue (rule : FrameRule) (bottom : Bottom) (levels : List Level) :
    match (run rule bottom 0 [] levels).out, ref bottom 0 levels with
    | none, none => True
    | some e, some (tok, fs) =>
      e.tok = tok ∧ userFrames (callerView e) = .caller :: fs ∧ userFrames e.tb = fs
    | _, _ => False := by
  have h := run_agrees rule bottom levels 0 []
  unfold Agrees at h
  cases ho : (run rule bottom 0 [] levels).out with
  | none =>
    cases hr : ref bottom 0 levels with
    | none => trivial
    | some p => simp [ho, hr] at h
  | some e =>
    cases hr : ref bottom 0 levels with
    | none => simp [ho, hr] at h
    | some p =>
      obtain ⟨tok, fs⟩ := p
      simp only [ho, hr] at h
      obtain ⟨htok, hsame, htb, hbare⟩ := h
      refine ⟨htok, ?_, htb⟩
      have hty : e.hasType = e.hasTask := hsame.symm
      simp only [userFrames] at htb hbare ⊢
      cases ht : e.hasTask
      · obtain ⟨hc, hf⟩ := hbare ht
        rw [ht] at hty
        simp [callerView, unwind, valueRaises, reraise, hty, List.filter_cons, isUser, hc, hf]
      · rw [ht] at hty
        simp [callerView, unwind, valueRaises, reraise, hty, List.filter_cons, isUser, htb]

/-- the frames of an exception that reaches the awaiter of level `lv` in a chain of `len` levels: the generator frames
    of `n` consecutive levels `lv .. lv+n-1`, each exactly once, followed by the raising frames - either the `h` helper
    frames of the raiser `lv+n-1`, or the hook (and its helpers) of a context entered by level `lv+n`, which the
    scheduler called (the owner's generator is not on the Python stack then) -/
def GluedShape (lv len : Nat) (fs : List Frame) : Prop :=
  ∃ n, n ≤ len ∧
    ((∃ h, (0 < h → 0 < n) ∧
        fs = (List.range' lv n).map .task ++ (List.range h).map (fun k => .helper (lv + n - 1) (k + 1))) ∨
     (∃ h, n < len ∧ fs = (List.range' lv n).map .task ++ hookFrames (lv + n) h))

theorem refStep_shape (lv len : Nat) (L : Level) (child : Option (Nat × List Frame))
    (hc : ∀ tok fs, child = some (tok, fs) → GluedShape (lv + 1) len fs) :
    ∀ tok fs, refStep lv L child = some (tok, fs) → GluedShape lv (len + 1) fs := by
  intro tok fs h
  have hown : ∀ tok fs, (L.own.map fun h => (ownTok lv, raisedIn lv h)) = some (tok, fs) → GluedShape lv (len + 1) fs := by
    intro tok fs ho
    cases hx : L.own with
    | none => simp [hx] at ho
    | some h' =>
      simp only [hx, Option.map_some, Option.some.injEq, Prod.mk.injEq] at ho
      exact ⟨1, by omega, Or.inl ⟨h', by simp, by simp [← ho.2, raisedIn, List.range'_one]⟩⟩
  simp only [refStep] at h
  cases child with
  | none => exact hown tok fs h
  | some p =>
    obtain ⟨tok', fs'⟩ := p
    obtain ⟨n, hn, hshape⟩ := hc tok' fs' rfl
    cases hh : L.handler with
    | raiseNew hd =>
      simp only [hh, Option.some.injEq, Prod.mk.injEq] at h
      exact ⟨1, by omega, Or.inl ⟨hd, by simp, by simp [← h.2, raisedIn, List.range'_one]⟩⟩
    | swallow =>
      simp only [hh] at h
      exact hown tok fs h
    | pass | bare | named =>
      simp only [hh, Option.some.injEq, Prod.mk.injEq] at h
      refine ⟨n + 1, by omega, ?_⟩
      rcases hshape with ⟨h', hpos, hfs⟩ | ⟨h', hlt, hfs⟩
      · left
        refine ⟨h', by omega, ?_⟩
        rw [← h.2, hfs, List.range'_succ]
        cases n with
        | zero =>
          have : h' = 0 := by omega
          simp [this]
        | succ m =>
          have : lv + 1 + (m + 1) - 1 = lv + (m + 1 + 1) - 1 := by omega
          simp [this]
      · right
        refine ⟨h', by omega, ?_⟩
        rw [← h.2, hfs, List.range'_succ]
        have : lv + 1 + n = lv + (n + 1) := by omega
        simp [this]

/-- **one frame per task level, in call order, ending at the raising frame** (induction on the depth of the chain) -/
theorem C18_glue_shape (bottom : Bottom) (levels : List Level) :
    ∀ (lv tok : Nat) (fs : List Frame), ref bottom lv levels = some (tok, fs) → GluedShape lv levels.length fs := by
  induction levels with
  | nil =>
    intro lv tok fs h
    cases bottom <;> simp [ref] at h
    exact ⟨0, by simp, Or.inl ⟨0, by simp, by simp [h.2]⟩⟩
  | cons L rest ih =>
    intro lv tok fs h
    have hstep := refStep_shape lv rest.length L (ref bottom (lv + 1) rest) (fun tok fs h => ih (lv + 1) tok fs h)
    cases rest with
    | nil =>
      cases bottom with
      | hook r hd =>
        simp only [ref, Option.some.injEq, Prod.mk.injEq] at h
        exact ⟨0, by simp, Or.inr ⟨hd, by simp, by simp [← h.2]⟩⟩
      | none => exact hstep tok fs (by simpa only [ref] using h)
      | errFuture => exact hstep tok fs (by simpa only [ref] using h)
    | cons L' rest' => exact hstep tok fs (by simpa only [ref] using h)

/-- asynq.debug.extract_tb (which skips frames of modules that set `__traceback_hide__`) hides library frames only:
    every user frame stays, in order -/
theorem C18_extract_tb_hides_only_library (fs : List Frame) : userFrames (visible fs) = userFrames fs :=
  userFrames_visible fs

/-! ## the asynq stack -/

/-- `AsyncTask.traceback()` = the creator chain, outermost first, one line per task (induction on the depth) -/
theorem C18_stack_creator_chain (line : Nat → Frame) (d : Nat) :
    tracebackOf line d = (List.range (d + 1)).map line := by
  induction d with
  | zero => rfl
  | succ d ih => rw [tracebackOf, ih, List.range_succ (n := d + 1)]; simp

/-- `format_asynq_stack()` called inside the body of level `lv` (before its await, or in its except clause) lists
    levels `0 .. lv`, outermost first - for every chain -/
theorem C18_stack_in_body (rule : FrameRule) (bottom : Bottom) (levels : List Level) :
    ∀ ev ∈ (run rule bottom 0 [] levels).events,
      ∃ k lv, (k = .start ∨ k = .handler) ∧ ev = .stack k lv (List.range (lv + 1)) :=
  run_events rule bottom levels 0 [] rfl

/-- a task created by level `i` and run after the whole chain has finished (whatever failed meanwhile) lists
    `0 .. i` and itself - provided no level lets an exception of a SYNCHRONOUSLY called child pass (`syncSafe`), or
    `_frame` is filled with a frame of the task's own synchronous code (`FrameRule.own`, not the code as it is) -/
theorem C18_stack_orphan_partial (rule : FrameRule) (bottom : Bottom) (levels : List Level)
    (hsafe : rule = .own ∨ syncSafe levels = true) :
    ∀ ev ∈ orphanEvents (run rule bottom 0 [] levels).lines 0 levels,
      ∃ i, ev = .stack .orphan i (List.range (i + 1) ++ [1000 + i]) := by
  have hl := run_lines rule bottom levels hsafe 0 []
  rw [← List.range_eq_range'] at hl
  exact orphanEvents_spec _ levels.length hl levels 0 (by simp)

/-- ... and without that hypothesis it is FALSE of the current code: level 0 calls level 1 synchronously, level 1
    raises; `_continue_on_generator` stores the deepest traceback frame - level 1's - as level 0's `_frame`, so the
    orphan created by level 0 is told its creator is level 1 -/
theorem C18_stack_orphan_counterexample :
    runTop .deepest .none [{ await := .sync, handler := .pass, own := none, orphan := true },
                  { await := .yld, handler := .pass, own := some 0, orphan := false }] =
      [.stack .start 0 [0], .stack .start 1 [0, 1],
       .result (some (11, [.caller, .task 0, .task 1], [.caller, .task 0, .task 1], [.task 0, .task 1])),
       .stack .orphan 0 [1, 1000]] ∧
    glueSpec .none [{ await := .sync, handler := .pass, own := none, orphan := true },
                    { await := .yld, handler := .pass, own := some 0, orphan := false }]
      (runTop .deepest .none [{ await := .sync, handler := .pass, own := none, orphan := true },
                     { await := .yld, handler := .pass, own := some 0, orphan := false }]) = false := by
  decide

/-- **the glue / stack observer accepts every run of the model** (for `syncSafe` chains): the Boolean function the
    check evaluates on the implementation's events is satisfied by the model's events -/
theorem C18_glue_spec_holds_partial (rule : FrameRule) (bottom : Bottom) (levels : List Level)
    (hsafe : rule = .own ∨ syncSafe levels = true) :
    glueClause bottom levels (runTop rule bottom levels) = "ok" := by
  have hbody := C18_stack_in_body rule bottom levels
  have horph := C18_stack_orphan_partial rule bottom levels hsafe
  have hglue := C18_glue rule bottom levels
  have hall : ∀ ev ∈ runTop rule bottom levels, glueEventClause bottom levels ev = "ok" := by
    intro ev hev
    simp only [runTop, List.mem_append, List.mem_singleton] at hev
    rcases hev with (hev | rfl) | hev
    · obtain ⟨k, lv, hk, rfl⟩ := hbody ev hev
      rcases hk with rfl | rfl <;> simp [glueEventClause]
    · cases ho : (run rule bottom 0 [] levels).out with
      | none =>
        rw [ho] at hglue
        cases hr : ref bottom 0 levels with
        | none => simp [resultEvent, glueEventClause, hr]
        | some p => simp [hr] at hglue
      | some e =>
        rw [ho] at hglue
        cases hr : ref bottom 0 levels with
        | none => simp [hr] at hglue
        | some p =>
          obtain ⟨tok, fs⟩ := p
          simp only [hr] at hglue
          obtain ⟨h1, h2, h3⟩ := hglue
          simp [resultEvent, glueEventClause, hr, h1, h2, h3, userFrames_visible]
    · obtain ⟨i, rfl⟩ := horph ev hev
      simp [glueEventClause]
  have hcount : ((runTop rule bottom levels).filter Event.isResult).length = 1 := by
    have h1 : ((run rule bottom 0 [] levels).events.filter Event.isResult) = [] := by
      rw [List.filter_eq_nil_iff]
      intro ev hev
      obtain ⟨k, lv, _, rfl⟩ := hbody ev hev
      simp [Event.isResult]
    have h2 : ((orphanEvents (run rule bottom 0 [] levels).lines 0 levels).filter Event.isResult) = [] := by
      rw [List.filter_eq_nil_iff]
      intro ev hev
      obtain ⟨j, ls, rfl⟩ := orphanEvents_not_result _ _ _ ev hev
      simp [Event.isResult]
    simp only [runTop, List.filter_append, h1, h2]
    cases (run rule bottom 0 [] levels).out <;> rfl
  have hbad : ((runTop rule bottom levels).map (glueEventClause bottom levels)).filter (· != "ok") = [] := by
    rw [List.filter_eq_nil_iff]
    intro c hc
    simp only [List.mem_map] at hc
    obtain ⟨ev, hev, rfl⟩ := hc
    simp [hall ev hev]
  simp [glueClause, hbad, hcount]

/-! ## str / repr / dump -/

/-- the two places where the current code can raise: `_AsyncGenerator.__repr__` reading an attribute that
    `__init__` never sets, and a ConstFuture / ErrorFuture describing itself before `_in_repr` exists -/
def wellFormed : Obj → Bool
  | .asyncGen init reads => subset reads init
  | .constInit inReprSet => inReprSet
  | _ => true

/-- **totality**: for every object kind, every abstract lifecycle state and every operation `str` / `repr` / `dump`
    the diagnostic returns (never raises), under the explicit hypothesis `wellFormed` -/
theorem C18_repr_total_partial (o : Obj) (op : Op) (h : wellFormed o = true) : (render o op).isOk = true := by
  cases o <;> cases op <;> simp_all [render, Res.isOk, wellFormed]

/-- ... and the hypothesis is needed for the code as it is: `_AsyncGenerator.__init__` sets `generator`(0),
    `last_task`(1), `is_stopped`(2) while `__repr__` reads `generator`(0) and `stopped`(3) - AttributeError in every
    state; a ConstFuture under DUMP_COMPUTED describes itself before `_in_repr` is assigned -/
theorem C18_repr_counterexample :
    render (.asyncGen [0, 1, 2] [0, 3]) .repr = .raised .attributeError ∧
    render (.asyncGen [0, 1, 2] [0, 3]) .str = .raised .attributeError ∧
    render (.constInit false) .dump = .raised .attributeError := by
  decide

/-- `format_error` accepts any exception with or without traceback: it returns None exactly for None, and for an
    exception a text - with a traceback part iff a traceback was passed or stored by asynq on the exception -/
theorem C18_format_error_total (i : FeIn) :
    (formatError i = .none ↔ i.isNone = true) ∧
    (i.isNone = false → i.isExc = true → formatError i = .withTraceback ∨ formatError i = .onlyException) ∧
    (formatError i = .withTraceback ↔ (i.isNone = false ∧ (i.tbArg = true ∨ i.tbAttr = some true))) := by
  obtain ⟨n, x, ta, tg⟩ := i
  cases n <;> cases x <;> cases tg <;> rcases ta with _ | _ | _ <;> simp [formatError]

/-! ## non-vacuity -/

/-- the three tables of debug.py (patterns numbered as the harness numbers them); a traceback with a complete
    TASK_CONTINUE run, a partial FUTURE_BASE run and foreign lines: only the complete run collapses -/
example :
    filterTb [⟨[0, 1, 1], 0⟩, ⟨[2, 3, 3, 4, 5, 6, 5, 7], 1⟩, ⟨[8, 9, 9, 9, 10], 2⟩]
      [⟨0, []⟩, ⟨1, [0]⟩, ⟨2, [0, 1]⟩, ⟨3, [0, 1]⟩, ⟨4, [2]⟩, ⟨5, [3, 7]⟩, ⟨6, []⟩] =
      [.copy ⟨0, []⟩, .marker 0, .copy ⟨4, [2]⟩, .copy ⟨5, [3, 7]⟩, .copy ⟨6, []⟩] := by
  decide

/-- the observer is not trivially true: it rejects an output that collapses a partial run -/
example :
    filterClause [⟨[0, 1, 1], 0⟩] [⟨0, [0]⟩, ⟨1, [0, 1]⟩, ⟨2, []⟩] [.marker 0, .copy ⟨2, []⟩] =
      "marker-replaces-incomplete-run" := by
  decide

/-- a chain of depth 3 where level 2 raises inside two helpers, level 1 re-raises with `raise e`, level 0 passes:
    the caller sees caller, L0, L1, L2, H2_1, H2_2 -/
example :
    (runTop .deepest .none [⟨.yld, .pass, none, false⟩, ⟨.yld, .named, none, false⟩, ⟨.yld, .pass, some 2, false⟩]).getLast? =
      some (.result (some (21, [.caller, .task 0, .task 1, .task 2, .helper 2 1, .helper 2 2],
        [.caller, .task 0, .task 1, .task 2, .helper 2 1, .helper 2 2],
        [.task 0, .task 1, .task 2, .helper 2 1, .helper 2 2]))) := by
  decide

/-- with `_frame` kept inside the task's own frames (`FrameRule.own`) the chain of `C18_stack_orphan_counterexample`
    gives the orphan its real creator -/
example :
    (runTop .own .none [⟨.sync, .pass, none, true⟩, ⟨.yld, .pass, some 0, false⟩]).getLast? =
      some (.stack .orphan 0 [0, 1000]) := by
  decide

/-- the raiser is a context hook: level 2 blocks on a batch item inside `with ctx:`, `ctx.pause()` raises from one helper
    while the scheduler suspends the task; the caller sees caller, L0, L1, the hook, its helper -/
example :
    (runTop .deepest (.hook false 1) [⟨.yld, .pass, none, false⟩, ⟨.yld, .pass, none, false⟩, ⟨.yld, .pass, none, false⟩]).getLast? =
      some (.result (some (4, [.caller, .task 0, .task 1, .hook 2, .hookHelper 2 1],
        [.caller, .task 0, .task 1, .hook 2, .hookHelper 2 1], [.task 0, .task 1, .hook 2, .hookHelper 2 1]))) := by
  decide

/-- ... and the observer rejects a delivered traceback that stops above the hook (stored traceback lost) -/
example :
    glueClause (.hook true 0) [⟨.yld, .pass, none, false⟩, ⟨.yld, .pass, none, false⟩]
      [.stack .start 0 [0], .stack .start 1 [0, 1],
       .result (some (4, [.caller, .task 0], [.caller, .task 0], [.task 0]))] = "glued-traceback" := by
  decide

/-- the glue observer rejects a traceback that lost a level -/
example :
    glueClause .none [⟨.yld, .pass, none, false⟩, ⟨.yld, .pass, some 0, false⟩]
      [.stack .start 0 [0], .stack .start 1 [0, 1],
       .result (some (11, [.caller, .task 1], [.caller, .task 1], [.task 1]))] = "glued-traceback" := by
  decide

end AsynqModel.Debug
