import AsynqModel.Lib.CacheFam
import AsynqModel.Proofs.CacheFam
import AsynqModel.Theorems.C13
/-!
# C13, families: one decorator object applied to several functions

`cached = alru_cache(maxsize=3)` and then `@cached` above `f` AND above `g` (likewise `acached_per_instance()` above two
methods of a class, `alazy_constant(ttl)` above two functions).  The property speaks about each decorated function: it
behaves like ITS reference cache, and "calls whose arguments differ never receive each other's values" holds a fortiori
for calls of different functions.  The model `AsynqModel.Cache.*.Fam` (Lib/CacheFam.lean) follows tools.py: the cache is
built by `decorator(fn)` / `cache_fun(fun)`, once per decorated function, never by the decorator factory.

BY CONSTRUCTION (not headline claims; checks/c13.py BY_CONSTRUCTION): the alru_cache family model is the product of
single-function models (`Alru.Fam.observe := setAt sts o.fn (single observe)`), so
`C13_alru_shared_decorator_refines`, `C13_alru_shared_decorator_refines_keyfn`, `C13_alru_family_projection` and
`C13_alru_family_size_le_maxsize` are the single-function theorems lifted; they would hold for ANY per-function step.
That the real cache is per function is what the correspondence check on families establishes.

With content of their own:
* `C13_per_instance_shared_decorator_refines_partial`: the instance is SHARED by the methods - a drop is seen by every
  method's dict, and (`PerInst.Fam.pinnedAny`) a value cached by one method keeps the entries of all methods;
  for EVERY interleaved history without such a value the model is accepted by the observer that holds one reference
  cache per method and live instance;
* `C13_per_instance_family_leak_counterexample`: the open finding seen across methods - a value cached by ONE method that
  refers to the instance keeps the entries of ALL methods alive; `C13_per_instance_family_nfn_needed`;
* `C13_lazy_shared_decorator_refines`: ONE clock for all constants (a body of any duration run by one constant ages the
  others), one stored value and storing time per function.
-/
namespace AsynqModel.Cache

/-! ## alru_cache -/

/-- default key: for every assignment of signatures to functions, every maxsize ≥ 1 and EVERY interleaved history of
    calls (each in `alruCallOK` of its function's signature) of any number of functions decorated by
    ONE `alru_cache(maxsize)` object, the model is accepted by `Alru.Fam.spec`: one reference cache per function.
    BY CONSTRUCTION: the family model is the product of single-function models (`Fam.observe := setAt ..`), so this is
    `C13_alru_refines` lifted; that the cache is built in `decorator(fn)` and not in `alru_cache(..)` is what the
    correspondence check establishes, not this theorem -/
theorem C13_alru_shared_decorator_refines (sigs : Nat → Sig) (cap : Nat) (hcap : 1 ≤ cap) (ops : List Alru.Fam.Op)
    (h : ∀ o ∈ ops, alruCallOK (sigs o.fn) o.op.c = true) :
    Alru.Fam.spec (fun f => alruRefKey .default (sigs f)) (fun f => alruBind (sigs f)) cap ops
      (Alru.Fam.run (fun f => alruKey .default (sigs f)) (fun f => alruBind (sigs f)) (Alru.Fam.init cap) ops) = true := by
  obtain ⟨w', hw⟩ := Alru.Fam.watchRun_ok (fun f => alruKey .default (sigs f)) (fun f => alruRefKey .default (sigs f))
    (fun f => alruBind (sigs f)) cap hcap ops Alru.Fam.watchInit (Alru.Fam.init cap)
    (fun _ => Alru.rel_init cap) (fun _ => Alru.good_init cap) (fun o ho => alru_agree (sigs o.fn) o.op.c (h o ho))
  simp [Alru.Fam.spec, hw]

/-- custom key functions (the one `key_fn` of the decorator object, seen through each function's signature - or any
    family of key functions): every history, malformed calls included -/
theorem C13_alru_shared_decorator_refines_keyfn (kf : Nat → Call → Option Key) (bd : Nat → Call → Option (List Nat))
    (cap : Nat) (hcap : 1 ≤ cap) (ops : List Alru.Fam.Op) :
    Alru.Fam.spec kf bd cap ops (Alru.Fam.run kf bd (Alru.Fam.init cap) ops) = true := by
  obtain ⟨w', hw⟩ := Alru.Fam.watchRun_ok_eq kf bd cap hcap ops Alru.Fam.watchInit (Alru.Fam.init cap)
    (fun _ => Alru.rel_init cap)
  simp [Alru.Fam.spec, hw]

/-- every function gets a cache of its own: in ANY interleaved history, the observations made on the calls of function
    `f` are exactly the observations of `f`'s calls run alone on a single `alru_cache` - the other functions'
    calls, keys, values and evictions do not exist for `f` -/
theorem C13_alru_family_projection (mk : Nat → Call → Option Key) (bd : Nat → Call → Option (List Nat)) (cap : Nat)
    (f : Nat) (ops : List Alru.Fam.Op) :
    Alru.Fam.obsOf f ops (Alru.Fam.run mk bd (Alru.Fam.init cap) ops) =
      Alru.run (mk f) (bd f) (Alru.init cap) (Alru.Fam.opsOf f ops) :=
  Alru.Fam.obsOf_run mk bd f ops (Alru.Fam.init cap)

/-- ... hence each function's cache never holds more than maxsize entries, however many functions share the decorator
    object (they do not share the budget) -/
theorem C13_alru_family_size_le_maxsize (mk : Nat → Call → Option Key) (bd : Nat → Call → Option (List Nat)) (cap : Nat)
    (hcap : 1 ≤ cap) (f : Nat) (ops : List Alru.Fam.Op) :
    (Alru.Fam.finalState mk bd (Alru.Fam.init cap) ops f).cache.items.length ≤ cap := by
  rw [Alru.Fam.finalState_at]
  exact (C13_alru_size_le_maxsize (mk f) (bd f) cap hcap _).1

private abbrev sgF : Sig := ⟨[1, 2], [0], [], [], false⟩      -- def f(a, b=0)
private abbrev sgG : Sig := ⟨[1], [], [4], [(4, 0)], false⟩   -- def g(a, *, k=0)
private def sigsFG : Nat → Sig := fun f => if f == 0 then sgF else sgG

/-- non-vacuity: `cached = alru_cache(maxsize=1)` above `f(a, b=0)` and `g(a, *, k=0)`: `f(1)` miss, `g(1)` MISS (own
    cache, own body run 1), `f(1, 0)` hit, `g(a=1)` hit, `g(2)` evicts only g's entry, `f(b=0, a=1)` still a hit -/
example : (Alru.Fam.run (fun f => alruKey .default (sigsFG f)) (fun f => alruBind (sigsFG f)) (Alru.Fam.init 1)
    [⟨0, ⟨⟨[1], []⟩, false⟩⟩, ⟨1, ⟨⟨[1], []⟩, false⟩⟩, ⟨0, ⟨⟨[1, 0], []⟩, false⟩⟩, ⟨1, ⟨⟨[], [(1, 1)]⟩, false⟩⟩,
     ⟨1, ⟨⟨[2], []⟩, false⟩⟩, ⟨0, ⟨⟨[], [(2, 0), (1, 1)]⟩, false⟩⟩]).map (fun o => (o.res, o.runs)) =
    [(.ok ⟨1, [1, 0]⟩, 1), (.ok ⟨1, [1, 0]⟩, 1), (.ok ⟨1, [1, 0]⟩, 1), (.ok ⟨1, [1, 0]⟩, 1), (.ok ⟨2, [2, 0]⟩, 2),
     (.ok ⟨1, [1, 0]⟩, 1)] := by decide

/-- the observer rejects a cache that belongs to the decorator OBJECT (built in `alru_cache(...)` instead of
    `decorator(fn)`): `f(1)` then `g(1)` answered from the shared cache without running g's body -/
example : Alru.Fam.specClause (fun f => alruRefKey .default (sigsFG f)) (fun f => alruBind (sigsFG f)) 2
    [⟨0, ⟨⟨[1], []⟩, false⟩⟩, ⟨1, ⟨⟨[1], []⟩, false⟩⟩] [⟨.ok ⟨1, [1, 0]⟩, 1, 0⟩, ⟨.ok ⟨1, [1, 0]⟩, 0, 0⟩] = some .staleValue := by
  decide
/-- ... and one whose functions share the maxsize budget: maxsize 1, `f(1)`, `g(1)`, `f(1)` recomputed -/
example : Alru.Fam.specClause (fun f => alruRefKey .default (sigsFG f)) (fun f => alruBind (sigsFG f)) 1
    [⟨0, ⟨⟨[1], []⟩, false⟩⟩, ⟨1, ⟨⟨[1], []⟩, false⟩⟩, ⟨0, ⟨⟨[1], []⟩, false⟩⟩]
    [⟨.ok ⟨1, [1, 0]⟩, 1, 0⟩, ⟨.ok ⟨1, [1, 0]⟩, 1, 0⟩, ⟨.ok ⟨2, [1, 0]⟩, 2, 0⟩] = some .hitRanBody := by decide

/-! ## acached_per_instance -/

/-- for every assignment of method signatures, every number `nfn` of methods decorated by ONE `acached_per_instance()`
    object and EVERY interleaved history of calls (in `perInstCallOK` of their method's signature) on any instances
    and of instance drops, in which no body returns a value that refers to its instance, the model is accepted by
    `PerInst.Fam.spec`: one reference cache per method and live instance, all gone when the program drops the
    instance.  `_partial`: see `C13_per_instance_family_leak_counterexample` (`hsr`).  `_hf` (every called method is one of the `nfn` methods the drop
    observation sums over) is not used by the proof but keeps the statement honest: with `nfn` too small model AND
    observer ignore the entries of the methods beyond it, and the leaking history is accepted
    (`C13_per_instance_family_nfn_needed`) -/
theorem C13_per_instance_shared_decorator_refines_partial (nfn : Nat) (sigs : Nat → Sig) (ops : List PerInst.Fam.Op)
    (_hf : ∀ f i c r sr, PerInst.Fam.Op.call f i c r sr ∈ ops → f < nfn)
    (h : ∀ f i c r sr, PerInst.Fam.Op.call f i c r sr ∈ ops → perInstCallOK (sigs f) c = true)
    (hsr : PerInst.Fam.noSelfRef ops = true) :
    PerInst.Fam.spec nfn (fun f => perInstRefKey (sigs f)) (fun f => perInstBind (sigs f)) ops
      (PerInst.Fam.run nfn (fun f => perInstKey (sigs f)) (fun f => perInstBind (sigs f)) PerInst.Fam.init ops) = true := by
  obtain ⟨w', hw⟩ := PerInst.Fam.watchRun_ok nfn (fun f => perInstKey (sigs f)) (fun f => perInstRefKey (sigs f))
    (fun f => perInstBind (sigs f)) ops PerInst.Fam.watchInit PerInst.Fam.init (fun _ => PerInst.rel_init)
    (fun _ => PerInst.good_init) (fun f i c r sr ho => ⟨perInst_agree (sigs f) c (h f i c r sr ho), by
      have := List.all_eq_true.mp hsr _ ho
      simpa using this⟩)
  simp [PerInst.Fam.spec, hw]

private abbrev sgM1 : Sig := ⟨[9, 1], [], [], [], false⟩        -- def m1(self, a)
private def sigsM : Nat → Sig := fun _ => sgM1

/-- the open finding across methods: `obj.m0(1)` caches a value that refers to `obj`, `obj.m1(1)` caches a plain value,
    `del obj; gc.collect()`: the instance stays reachable from m0's closure dict, NO weakref callback fires, and the
    entries of BOTH methods stay (2 entries where the reference has none) -/
theorem C13_per_instance_family_leak_counterexample :
    PerInst.Fam.specClause 2 (fun f => perInstRefKey (sigsM f)) (fun f => perInstBind (sigsM f))
      [.call 0 0 ⟨[1], []⟩ false true, .call 1 0 ⟨[1], []⟩ false false, .drop 0]
      (PerInst.Fam.run 2 (fun f => perInstKey (sigsM f)) (fun f => perInstBind (sigsM f)) PerInst.Fam.init
        [.call 0 0 ⟨[1], []⟩ false true, .call 1 0 ⟨[1], []⟩ false false, .drop 0]) = some .instances ∧
    ((PerInst.Fam.run 2 (fun f => perInstKey (sigsM f)) (fun f => perInstBind (sigsM f)) PerInst.Fam.init
        [.call 0 0 ⟨[1], []⟩ false true, .call 1 0 ⟨[1], []⟩ false false, .drop 0]).map (·.extra)) = [1, 1, 2] := by
  decide

/-- `f < nfn` matters: with `nfn = 0` the drop observation sums over no method at all, and the leaking history
    (`obj.m0(1)` caches a value that refers to `obj`; `del obj`) is ACCEPTED by the observer -/
theorem C13_per_instance_family_nfn_needed :
    PerInst.Fam.specClause 0 (fun f => perInstRefKey (sigsM f)) (fun f => perInstBind (sigsM f))
      [.call 0 0 ⟨[1], []⟩ false true, .drop 0]
      (PerInst.Fam.run 0 (fun f => perInstKey (sigsM f)) (fun f => perInstBind (sigsM f)) PerInst.Fam.init
        [.call 0 0 ⟨[1], []⟩ false true, .drop 0]) = none ∧
    PerInst.Fam.specClause 1 (fun f => perInstRefKey (sigsM f)) (fun f => perInstBind (sigsM f))
      [.call 0 0 ⟨[1], []⟩ false true, .drop 0]
      (PerInst.Fam.run 1 (fun f => perInstKey (sigsM f)) (fun f => perInstBind (sigsM f)) PerInst.Fam.init
        [.call 0 0 ⟨[1], []⟩ false true, .drop 0]) = some .instances := by decide

/-- non-vacuity: two methods, two instances; the same arguments on the other method or the other instance miss, another
    spelling on the same method and instance hits; the drop of instance 0 removes its entry from BOTH methods' dicts
    (one entry left in all: instance 1 in m0); a new instance 0 starts from an empty cache in m1 -/
example : (PerInst.Fam.run 2 (fun f => perInstKey (sigsM f)) (fun f => perInstBind (sigsM f)) PerInst.Fam.init
    [.call 0 0 ⟨[1], []⟩ false false, .call 1 0 ⟨[1], []⟩ false false, .call 0 1 ⟨[1], []⟩ false false,
     .call 0 0 ⟨[], [(1, 1)]⟩ false false, .drop 0, .call 1 0 ⟨[1], []⟩ false false]).map (fun o => (o.runs, o.extra)) =
    [(1, 1), (1, 1), (2, 2), (2, 2), (3, 1), (2, 1)] := by decide
example : PerInst.Fam.spec 2 (fun f => perInstRefKey (sigsM f)) (fun f => perInstBind (sigsM f))
    [.call 0 0 ⟨[1], []⟩ false false, .call 1 0 ⟨[1], []⟩ false false, .call 0 1 ⟨[1], []⟩ false false,
     .call 0 0 ⟨[], [(1, 1)]⟩ false false, .drop 0, .call 1 0 ⟨[1], []⟩ false false]
    (PerInst.Fam.run 2 (fun f => perInstKey (sigsM f)) (fun f => perInstBind (sigsM f)) PerInst.Fam.init
      [.call 0 0 ⟨[1], []⟩ false false, .call 1 0 ⟨[1], []⟩ false false, .call 0 1 ⟨[1], []⟩ false false,
       .call 0 0 ⟨[], [(1, 1)]⟩ false false, .drop 0, .call 1 0 ⟨[1], []⟩ false false]) = true := by decide
/-- the observer rejects a closure dict shared by the methods (`cache = {}` built in `acached_per_instance()`):
    `obj.m0(1)` then `obj.m1(1)` answered with m0's value -/
example : PerInst.Fam.specClause 2 (fun f => perInstRefKey (sigsM f)) (fun f => perInstBind (sigsM f))
    [.call 0 0 ⟨[1], []⟩ false false, .call 1 0 ⟨[1], []⟩ false false]
    [⟨.ok ⟨1, [1]⟩, 1, 1⟩, ⟨.ok ⟨1, [1]⟩, 0, 1⟩] = some .staleValue := by decide

/-! ## alazy_constant -/

/-- for every ttl, every clock start ≥ 1 and EVERY interleaved history of calls and dirty() of any number of functions
    decorated by ONE `alazy_constant(ttl)` object, and of clock ticks (bodies of any duration advance the one clock for
    all of them), the model is accepted by `Lazy.Fam.spec`: one stored value and storing time per function -/
theorem C13_lazy_shared_decorator_refines (ttl t0 : Nat) (h : 1 ≤ t0) (ops : List Lazy.Fam.Op) :
    Lazy.Fam.spec ttl t0 ops (Lazy.Fam.run ttl (Lazy.Fam.init t0) ops) = true := by
  obtain ⟨w', hw⟩ := Lazy.Fam.watchRun_ok ttl ops (Lazy.Fam.watchInit t0) (Lazy.Fam.init t0) rfl
    (fun _ => Lazy.rel_init ttl t0 h) (fun _ => Nat.le_refl _)
  simp [Lazy.Fam.spec, hw]

/-- non-vacuity: ttl 5, two constants under one `alazy_constant(5)`: `c0()` computed at time 1; `c1()` runs ITS body (3 µs:
    the clock is 4 for everybody); `c0.dirty()` does not dirty c1: `c1()` is a hit; 6 µs later (time 10) c1's value
    (stored at 4) has expired: one recomputation; `c0()` is recomputed once because it was dirtied, then hits -/
example : (Lazy.Fam.run 5 (Lazy.Fam.init 1)
    [.call 0 false 0, .call 1 false 3, .dirty 0, .call 1 false 0, .tick 6, .call 1 false 0, .call 0 false 0, .call 0 false 0]).map
      (fun o => (o.res, o.runs, o.extra)) =
    [(.ok ⟨1, []⟩, 1, 1), (.ok ⟨1, []⟩, 1, 4), (.unit, 1, 4), (.ok ⟨1, []⟩, 1, 4), (.unit, 1, 10), (.ok ⟨2, []⟩, 2, 10),
     (.ok ⟨2, []⟩, 2, 10), (.ok ⟨2, []⟩, 2, 10)] := by decide
/-- the observer rejects state kept per decorator object: `c0()` then `c1()` answered with c0's value -/
example : Lazy.Fam.specClause 0 1 [.call 0 false 0, .call 1 false 0] [⟨.ok ⟨1, []⟩, 1, 1⟩, ⟨.ok ⟨1, []⟩, 0, 1⟩] =
    some .staleValue := by decide
/-- ... and a dirty() that dirties every constant of the decorator object -/
example : Lazy.Fam.specClause 0 1 [.call 0 false 0, .call 1 false 0, .dirty 0, .call 1 false 0]
    [⟨.ok ⟨1, []⟩, 1, 1⟩, ⟨.ok ⟨1, []⟩, 1, 1⟩, ⟨.unit, 1, 1⟩, ⟨.ok ⟨2, []⟩, 2, 1⟩] = some .hitRanBody := by decide

/-! ## by construction (NOT claimed): a call of one function does not touch another function's cache -/

theorem C13_alru_functions_independent (mk : Nat → Call → Option Key) (bd : Nat → Call → Option (List Nat))
    (sts : Alru.Fam.St) (o : Alru.Fam.Op) (g : Nat) (h : g ≠ o.fn) : (Alru.Fam.observe mk bd sts o).1 g = sts g := by
  simp [Alru.Fam.observe, setAt_other _ _ _ _ h]

end AsynqModel.Cache
