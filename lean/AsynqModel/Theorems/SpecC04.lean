import AsynqModel.Proofs.P18Link
import AsynqModel.Theorems.C04
/-!
# SPECM for C04, first clause: the observer's `Settled` check accepts every trace of the machine

The checks judge the trace of the real scheduler with the executable observer `Spec.checkC04` (`Spec.spec "C04"`):
at every `flushB` event of a yield-only program the root of the running top-level computation must be SETTLED in the
observer's reconstruction (`Spec.Watch.settled`, from `kinds` / `outs` / `lastYield` / `runs` / `flushedB`, with
fuel `kinds.length + 1`) - "flush-while-a-task-can-run", "flush-outside-computation" - no event may be outside the
vocabulary - "unknown-event" - and at every `ret` of a tree-shaped single-kind program the number of flushes must be
`roundsTop` - "flush-count-differs-from-longest-chain" (not covered here).  The driver also evaluates the observer on the
trace of the model (SPECM).  These theorems say that SPECM never reports one of the first three messages.

`P18.checkC04NoRet` is `Spec.checkC04` with the `.ret` clause removed.

* `Spec_C04_accepts_settled`        : for every `ReachYO s` (`Proofs/P6Main.lean`: yield-only, no NonAsyncContext, only
  in-scope references dereferenced) in which the MAX_TASK_STACK_SIZE guard has not fired, the observer without the
  `.ret` clause accepts the trace - for EVERY observer context and whether or not `s` is stuck;
* `Spec_C04_accepts_settled_static` : the same for `ReachWS s` (hypotheses on the program only: `P6.wsBody`);
* `Spec_C04_accepts_settled_run`    : the same for `runFuel n (initState cfg tops choices)` and `Spec.mkCtx cfg tops`;
* `Spec_C04_only_count`             : whatever the real `Spec.spec "C04"` reports on such a trace is
  "flush-count-differs-from-longest-chain";
* `Spec_C04_accepts_untreed`        : `Spec.spec "C04"` itself accepts when the `.ret` clause does not apply (the
  program hands futures to children, or uses more than one batch kind);
* `Spec_C04_accepts_sync`           : for a context with `hasSync = true` (a program with synchronous calls) the
  observer accepts the trace of every reachable state of every program (it only checks the vocabulary);
* `Spec_C04_fuel`                   : the observer's fuel always suffices (any watch, cyclic await graphs included);
* `Spec_C04_watch_agrees`           : the simulation relation behind the proof.

The proof: `C04_settled_at_flush` (`Theorems/C04.lean`) gives the state-level `P6.Settled s root` at every scheduler
flush; `P18.settled_of_rel` turns it into the observer's `Watch.settled` through the simulation relation
(P13: `isDone`/`flushedB`/`topRoot`; P14: `lastYield`; P9: `deps = left-overs ++ extract_futures(last yield)`;
P18: `kinds`, `runs`); `P18.settled_fuel` shows that the fuel is enough.
-/
namespace AsynqModel.Core
open AsynqModel.Core.P6 AsynqModel.Core.P18
open AsynqModel.Core.P13 (obs Acc)

/-- the one event the observer checks: at a scheduler flush of a yield-only run the root is settled for the observer -/
theorem Spec_C04_flush_ok (c : Spec.Ctx) {s : State} (h : ReachYO s) (hs : s.stuck = none) (hg : s.guardFired = false)
    (hG : G c s) (root base : Nat) (rest : List Ctl) (hctl : s.ctl = .waitLoop root base :: rest)
    (hlen : s.stack.length ≤ base) (hroot : s.computed root = false)
    (k q : Nat) (its : List Nat) (p : Nat × Nat) (pd : List PendingB) :
    checkC04NoRet c (obs s.trace) (.flushB k q its p pd) = none := by
  have hset := C04_settled_at_flush s h hs hg root base rest hctl hlen hroot
  have hrest : rest = [] := by
    rcases (inv6 s h hs hg).a.shape with h0 | ⟨r0, h0⟩ | ⟨r0, b0, h0⟩ | ⟨t0, old0, r0, b0, h0⟩ <;>
      rw [h0] at hctl
    · cases hctl
    · injection hctl with h1 _; cases h1
    · injection hctl with _ h2; exact h2.symm
    · injection hctl with h1 _; cases h1
  subst hrest
  have hi := P13.inv13_of_reach h.reach { (default : Spec.Ctx) with cfg := s.cfg } rfl
  have htop : (obs s.trace).topRoot = some root := by
    have hb := hi.sr.bur
    rw [hctl] at hb
    exact hi.sr.top root hb.1
  have hR : Rel s { obs s.trace with flushedB := (obs s.trace).flushedB.erase (k, q) } :=
    rel_of_reach h.reach hg hG _ rfl rfl rfl rfl (fun x hx => List.mem_of_mem_erase hx)
  have hw := settled_of_rel hR hset
  show Spec.checkC04 c (obs s.trace) (.flushB k q its p pd) = none
  simp only [Spec.checkC04]
  split
  · rfl
  · split
    · next r hr =>
      rw [htop] at hr
      injection hr with hr
      subst hr
      rw [if_pos]
      exact hw
    · next hr => rw [htop] at hr; cases hr

/-- one step: `G` is preserved as long as the guard does not fire -/
theorem Spec_C04_G_step (c : Spec.Ctx) {s : State} (hG : G c s) (hyo : s.stuck = none → ReachYO s)
    (hg : (step s).guardFired = false) : G c (step s) :=
  G_step hG fun root base rest hs hctl _ hlen hroot k q its p pd =>
    Spec_C04_flush_ok c (hyo hs) hs (P3.guard_mono s hg) hG root base rest hctl hlen hroot k q its p pd

theorem Spec_C04_G_reachYO (c : Spec.Ctx) {s : State} (h : ReachYO s) (hg : s.guardFired = false) : G c s := by
  induction h with
  | init cfg tops choices _ => exact G_init cfg tops choices
  | @step s hr _ ih => exact Spec_C04_G_step c (ih (P3.guard_mono s hg)) (fun _ => hr) hg

theorem Spec_C04_G_reachWS (c : Spec.Ctx) {s : State} (h : ReachWS s) (hg : s.guardFired = false) : G c s := by
  induction h with
  | init cfg tops choices _ => exact G_init cfg tops choices
  | @step s hr ih =>
    have hg0 := P3.guard_mono s hg
    exact Spec_C04_G_step c (ih hg0) (fun hs => (reachYO_of_ws s hr hs hg0).1) hg

/-- **SPECM for the `Settled` clause of C04.**  On the trace of every state of a yield-only run without
    NonAsyncContext in which only in-scope references are dereferenced and the stack guard has not fired, the observer
    `Spec.checkC04` without its `.ret` clause raises nothing: never "flush-while-a-task-can-run", never
    "flush-outside-computation", never "unknown-event".  Any observer context; `s` may be stuck. -/
theorem Spec_C04_accepts_settled (c : Spec.Ctx) (s : State) (h : ReachYO s) (hg : s.guardFired = false) :
    Spec.specRun checkC04NoRet c {} 0 s.trace.reverse = none :=
  (P13.specRun_none_iff checkC04NoRet c s.trace).2 (Spec_C04_G_reachYO c h hg).acc

/-- the same with hypotheses on the program only (`ReachWS`: every top-level body is yield-only, creates no
    NonAsyncContext and passes the static scope check `P6.wsBody` = harness/coregen.py `well_scoped`) -/
theorem Spec_C04_accepts_settled_static (c : Spec.Ctx) (s : State) (h : ReachWS s) (hg : s.guardFired = false) :
    Spec.specRun checkC04NoRet c {} 0 s.trace.reverse = none :=
  (P13.specRun_none_iff checkC04NoRet c s.trace).2 (Spec_C04_G_reachWS c h hg).acc

/-- ... in particular after any number of steps of the program, with the context the checks build from it -/
theorem Spec_C04_accepts_settled_run (cfg : Cfg) (tops : List (Conv × Body)) (choices : List (Nat × Nat))
    (h : ∀ p ∈ tops, Spec.bodyHasSync p.2 = false ∧ Spec.bodyHasNonAsync p.2 = false ∧ wsBody p.2 = true) (n : Nat)
    (hg : (runFuel n (initState cfg tops choices)).guardFired = false) :
    Spec.specRun checkC04NoRet (Spec.mkCtx cfg tops) {} 0 (runFuel n (initState cfg tops choices)).trace.reverse = none :=
  Spec_C04_accepts_settled_static _ _ (reachWS_runFuel cfg tops choices h n) hg

/-- the real checker differs from `checkC04NoRet` only by the `.ret` clause: if the observer without it accepts, the
    only message `Spec.checkC04` can give is "flush-count-differs-from-longest-chain" -/
theorem Spec_C04_only_count_of (c : Spec.Ctx) (l : List Event) (w : Spec.Watch) (j : Nat)
    (h : Spec.specRun checkC04NoRet c w j l = none) (i : Nat) (msg : String)
    (hv : Spec.specRun Spec.checkC04 c w j l = some (i, msg)) : msg = "flush-count-differs-from-longest-chain" := by
  induction l generalizing w j with
  | nil => simp [Spec.specRun] at hv
  | cons e l ih =>
    simp only [Spec.specRun] at h hv
    cases h1 : checkC04NoRet c w e with
    | some m => rw [h1] at h; cases h
    | none =>
      rw [h1] at h
      cases h2 : Spec.checkC04 c w e with
      | none => rw [h2] at hv; exact ih _ _ h hv
      | some m =>
        rw [h2] at hv
        injection hv with hv; injection hv with _ hv; subst hv
        cases e with
        | ret o =>
          simp only [Spec.checkC04] at h2
          split at h2
          · cases h2
          · split at h2
            · split at h2
              · injection h2 with h2; exact h2.symm
              · cases h2
            · cases h2
        | _ => simp only [checkC04NoRet] at h1; rw [h1] at h2; cases h2

/-- whatever `Spec.spec "C04"` reports on a trace of the machine (yield-only, well-scoped, no NonAsyncContext, guard
    not fired) is the flush-count clause - never the `Settled` clause, never `unknown-event` -/
theorem Spec_C04_only_count (c : Spec.Ctx) (s : State) (h : ReachYO s) (hg : s.guardFired = false) (i : Nat)
    (msg : String) (hv : Spec.spec "C04" c s.trace.reverse = some (i, msg)) :
    msg = "flush-count-differs-from-longest-chain" :=
  Spec_C04_only_count_of c _ _ _ (Spec_C04_accepts_settled c s h hg) i msg hv

/-- where the `.ret` clause does not apply the two checkers coincide -/
theorem Spec_C04_noRet_eq (c : Spec.Ctx) (hc : (c.hasSync || !c.treeShaped || !c.singleKind) = true) (w : Spec.Watch)
    (e : Event) : Spec.checkC04 c w e = checkC04NoRet c w e := by
  cases e with
  | ret o => simp only [Spec.checkC04, checkC04NoRet, hc, if_true]
  | _ => rfl

/-- the full observer `Spec.spec "C04"` accepts when the program is not tree-shaped or uses several batch kinds
    (the flush-count clause is not applied to such programs) -/
theorem Spec_C04_accepts_untreed (c : Spec.Ctx) (hc : (c.hasSync || !c.treeShaped || !c.singleKind) = true) (s : State)
    (h : ReachYO s) (hg : s.guardFired = false) : Spec.spec "C04" c s.trace.reverse = none := by
  have := Spec_C04_accepts_settled c s h hg
  unfold Spec.spec
  show Spec.specRun Spec.checkC04 c {} 0 s.trace.reverse = none
  rw [P13.specRun_none_iff] at this ⊢
  clear h hg
  generalize s.trace = tr at *
  induction tr with
  | nil => trivial
  | cons ev tr ih => exact ⟨ih this.1, by rw [Spec_C04_noRet_eq c hc]; exact this.2⟩

/-- a program with synchronous calls: the observer only checks the vocabulary; every trace of every program passes -/
theorem Spec_C04_accepts_sync (c : Spec.Ctx) (hc : c.hasSync = true) (s : State) (h : Reach s) :
    Spec.spec "C04" c s.trace.reverse = none := by
  show Spec.specRun Spec.checkC04 c {} 0 s.trace.reverse = none
  rw [P13.specRun_none_iff]
  apply P13.acc_of_forall
  intro e he w
  cases e with
  | flushB k q its p pd => simp only [Spec.checkC04, hc, if_true]
  | ret o => simp only [Spec.checkC04, hc, Bool.true_or, if_true]
  | bad m => exact absurd he (P13.no_bad h m)
  | _ => rfl

/-- the fuel of the observer (`Watch.fuel = kinds.length + 1`) always suffices: a future that is settled with some
    fuel is settled with the observer's fuel - for every watch, whatever the await graph looks like -/
theorem Spec_C04_fuel (w : Spec.Watch) (n f : Nat) (h : w.settled n f = true) : w.settled w.fuel f = true :=
  settled_fuel w n f h

/-- the link on its own: in every state of such a run a future that is `Settled` in the machine state is settled for
    the observer that has read the trace -/
theorem Spec_C04_settled_link (s : State) (h : ReachYO s) (hg : s.guardFired = false) (f : Nat) (hf : Settled s f) :
    (obs s.trace).settled (obs s.trace).fuel f = true :=
  settled_of_rel (rel_of_reach h.reach hg (Spec_C04_G_reachYO default h hg) _ rfl rfl rfl rfl (fun _ hx => hx)) hf

/-- the simulation relation behind the theorems: the observer knows exactly the machine's futures, with their kinds
    (task / item of the same batch), and has a `runs` entry for every started task -/
theorem Spec_C04_watch_agrees (s : State) (h : ReachYO s) (hg : s.guardFired = false) :
    (obs s.trace).fuel = s.futs.length + 1 ∧
    (∀ f, (s.fut f).kind = .task → (obs s.trace).isTask f = true) ∧
    (∀ f k q p m, (s.fut f).kind = .item k q p m → (obs s.trace).batchOf f = some (k, q)) ∧
    (∀ t, (s.task t).started = true → (obs s.trace).started t = true) := by
  have hG := Spec_C04_G_reachYO default h hg
  refine ⟨by unfold Spec.Watch.fuel; rw [hG.kl], fun f hk => ?_, fun f k q p m hk => ?_, hG.rs⟩
  · obtain ⟨nk, hl, hkm⟩ := hG.kd f (P2.lt_of_kind s f (by rw [hk]; intro h; cases h))
    obtain ⟨cr, e⟩ := hkm.1 hk
    subst e
    unfold Spec.Watch.isTask; rw [hl]
  · obtain ⟨nk, hl, hkm⟩ := hG.kd f (P2.lt_of_kind s f (by rw [hk]; intro h; cases h))
    obtain ⟨idx, e⟩ := hkm.2 k q p m hk
    subst e
    unfold Spec.Watch.batchOf; rw [hl]

/-! ## non-vacuity -/

example : Spec.checkOf "C04" = Spec.checkC04 := rfl

/-- the observer rejects hand-made traces: a flush while task 2 (awaited by the suspended root) has not even started, -/
example : Spec.spec "C04" (Spec.mkCtx {} [])
    [.top 0 .value, .new 0 (.task none), .run 0 0 true .start, .new 1 (.item 0 0 0 7 .ok), .new 2 (.task (some 0)),
     .yield 0 0 (.tup [.f 1, .f 2]), .flushB 0 0 [1] (0, 1) []] = some (6, "flush-while-a-task-can-run") := by decide
/-- ... a flush while the root is suspended on futures that are all computed (it could run), -/
example : Spec.spec "C04" (Spec.mkCtx {} [])
    [.top 0 .value, .new 0 (.task none), .run 0 0 true .start, .new 1 (.item 0 0 0 7 .ok), .new 2 (.const 3),
     .yield 0 0 (.f 2), .flushB 0 0 [1] (0, 1) []] = some (6, "flush-while-a-task-can-run") := by decide
/-- ... a flush of a batch the awaited item does not belong to, after the item's own batch was flushed, -/
example : Spec.spec "C04" (Spec.mkCtx {} [])
    [.top 0 .value, .new 0 (.task none), .run 0 0 true .start, .new 1 (.item 0 0 0 7 .ok), .new 2 (.item 1 0 0 7 .ok),
     .yield 0 0 (.f 1), .flushI 0 0 [1], .flushB 1 0 [2] (0, 1) []] = some (7, "flush-while-a-task-can-run") := by decide
/-- ... a flush outside any computation, an event outside the vocabulary; it accepts a correct flush -/
example : Spec.spec "C04" (Spec.mkCtx {} []) [.flushB 0 0 [1] (0, 1) []] = some (0, "flush-outside-computation") := by
  decide
example : Spec.spec "C04" (Spec.mkCtx {} []) [.top 0 .value, .bad "x"] = some (1, "unknown-event") := by decide
example : Spec.spec "C04" (Spec.mkCtx {} [])
    [.top 0 .value, .new 0 (.task none), .run 0 0 true .start, .new 1 (.item 0 0 0 7 .ok),
     .yield 0 0 (.f 1), .flushB 0 0 [1] (0, 1) []] = none := by decide

/-- the two programs of `Theorems/C04.lean` (a tree and a DAG with a shared item) satisfy the static hypotheses -/
theorem SpecC04_ex_hyp : ∀ p ∈ [(Conv.value, C04_tree), (Conv.call, C04_dag)],
    Spec.bodyHasSync p.2 = false ∧ Spec.bodyHasNonAsync p.2 = false ∧ wsBody p.2 = true := by decide

def SpecC04_exRun : State := runFuel 200 (initState {} [(.value, C04_tree), (.call, C04_dag)] [])

/-- the run is complete, not stuck, the guard has not fired, and it contains two scheduler flushes -/
example : SpecC04_exRun.isDone = true ∧ SpecC04_exRun.stuck = none ∧ SpecC04_exRun.guardFired = false ∧
    (SpecC04_exRun.trace.reverse.filterMap fun | .flushB k q items _ _ => some (k, q, items) | _ => none) =
      [(0, 0, [3, 4]), (0, 1, [6])] := by decide

/-- the observer accepts it: by the theorem ... -/
example : Spec.specRun checkC04NoRet (Spec.mkCtx {} [(.value, C04_tree), (.call, C04_dag)]) {} 0
    SpecC04_exRun.trace.reverse = none :=
  Spec_C04_accepts_settled_run {} _ [] SpecC04_ex_hyp 200 (by decide)
/-- ... and by evaluation; the full observer (with the flush-count clause) accepts it as well -/
example : Spec.specRun checkC04NoRet (Spec.mkCtx {} [(.value, C04_tree), (.call, C04_dag)]) {} 0
    SpecC04_exRun.trace.reverse = none := by decide +kernel
example : Spec.spec "C04" (Spec.mkCtx {} [(.value, C04_tree), (.call, C04_dag)]) SpecC04_exRun.trace.reverse = none := by
  decide +kernel

/-- at the first flush the observer's reconstruction says: the root (task 0) is settled with the observer's fuel (4
    futures + 1), while one step of fuel is not enough (the fuel matters) -/
example : (obs (C04_run 23).trace).fuel = 6 ∧ (obs (C04_run 23).trace).topRoot = some 0 ∧
    (obs (C04_run 23).trace).settled 6 0 = true ∧ (obs (C04_run 23).trace).settled 2 0 = false ∧
    (obs (C04_run 15).trace).settled 6 0 = false := by decide +kernel

/-- `KEEP_DEPENDENCIES` (left-over dependencies) and a flush oracle are covered: the theorem applies -/
example : Spec.specRun checkC04NoRet (Spec.mkCtx { keepDeps := true } [(.value, C04_dag), (.value, C04_tree)]) {} 0
    (runFuel 200 (initState { keepDeps := true } [(.value, C04_dag), (.value, C04_tree)] [(0, 0)])).trace.reverse = none :=
  Spec_C04_accepts_settled_run _ _ _ (by decide) 200 (by decide)

/-- the clause is about yield-only programs: in a program with a synchronous call the scheduler flushes inside the
    nested `wait_for` while the root is running; an observer that is (wrongly) told `hasSync = false` objects to the
    machine's own trace, the observer with the right context does not (`Spec_C04_accepts_sync`) -/
def SpecC04_syncProg : Body := .sync (.item 0 5 .ok (.yld (.f (.own 0)) (.ret 1) (.ret 2))) [] (.ret 3) (.ret 4)
example : Spec.specRun checkC04NoRet { Spec.mkCtx {} [(.value, SpecC04_syncProg)] with hasSync := false } {} 0
    (runFuel 200 (initState {} [(.value, SpecC04_syncProg)] [])).trace.reverse =
      some (8, "flush-while-a-task-can-run") := by decide +kernel
example : Spec.spec "C04" (Spec.mkCtx {} [(.value, SpecC04_syncProg)])
    (runFuel 200 (initState {} [(.value, SpecC04_syncProg)] [])).trace.reverse = none :=
  Spec_C04_accepts_sync _ (by decide) _ (P13.reachFrom_runFuel _ 200).reach

/-- the hypotheses "well-scoped", "no NonAsyncContext", "guard not fired" are those of `C04_settled_at_flush`; no run
    was found on which the observer objects when they fail.  Examples: an ill-scoped program whose root awaits itself
    never gets to a flush (the pass does not terminate: after 500 steps the trace still has 5 events); -/
example : (runFuel 500 (initState {} [(.value, .item 0 1 .ok (.yld (.tup [.f (.inh 5), .f (.own 0)]) (.ret 1) (.ret 2)))] [])).isDone = false ∧
    (runFuel 500 (initState {} [(.value, .item 0 1 .ok (.yld (.tup [.f (.inh 5), .f (.own 0)]) (.ret 1) (.ret 2)))] [])).trace.length = 5 := by
  decide +kernel
/-- ... a task that fails in a NonAsyncContext while its sibling waits for a batch: the observer accepts; -/
def SpecC04_naProg : Body :=
  .spawn (.withCtx .nonasync (.item 0 1 .ok (.yld (.f (.own 0)) .endwith .endwith)) (.ret 1)) []
    (.spawn (C04_leaf 2) [] (.yld (.tup [.f (.own 0), .f (.own 1)]) (.ret 2) (.ret 3)))
example : Event.done 1 (.err .nonasync) ∈ (runFuel 300 (initState {} [(.value, SpecC04_naProg)] [])).trace ∧
    Spec.specRun checkC04NoRet (Spec.mkCtx {} [(.value, SpecC04_naProg)]) {} 0
      (runFuel 300 (initState {} [(.value, SpecC04_naProg)] [])).trace.reverse = none := by decide +kernel
/-- ... MAX_TASK_STACK_SIZE = 2: the guard fires in the first computation, the following ones still pass the `Settled`
    clause (the full observer reports the flush count, as `Spec_C04_only_count` allows) -/
example : (runFuel 2000 (initState { maxStack := 2 } [(.value, C04_tree), (.value, C04_leaf 9), (.value, C04_tree)] [])).guardFired = true ∧
    Spec.specRun checkC04NoRet (Spec.mkCtx { maxStack := 2 } [(.value, C04_tree), (.value, C04_leaf 9), (.value, C04_tree)]) {} 0
      (runFuel 2000 (initState { maxStack := 2 } [(.value, C04_tree), (.value, C04_leaf 9), (.value, C04_tree)] [])).trace.reverse = none := by
  decide +kernel

end AsynqModel.Core
