import AsynqModel.Lib.Mock
import AsynqModel.Proofs.Mock
import AsynqModel.Proofs.MockSim
import AsynqModel.Proofs.MockFam
import AsynqModel.Proofs.MockBind
/-!
# C19  asynq.mock.patch replaces every calling convention and always restores

Theorems about the model `AsynqModel.Mock` (asynq/mock_.py on top of the contract of unittest.mock._patch) for
every environment of targets, every patcher specification and every history of operations.
-/
namespace AsynqModel.Mock

/-- **restore**: after ANY well-nested history - nested and sequential patches of the same or of different
    targets, with-blocks / decorators left normally or by exception, start/stop, stopall, failing `__enter__`s,
    patchers that could not be constructed - every host holds exactly what it held before. -/
theorem C19_restore (env : Env) (ops : List Op) (h : wellNested env ops = true) :
    (final env ops).store = env.initStore := by
  simp only [wellNested, Bool.and_eq_true, List.isEmpty_iff] at h
  have hinv := inv_final env ops (init env) (inv_init env) h.1
  funext t
  have := hinv.store t
  rw [show finalFrom env (init env) ops = final env ops from rfl, h.2] at this
  exact this

/-- at every moment of a disciplined history each target holds the object installed by its innermost open
    patch, and the original (or nothing, for a created attribute) if it has none -/
theorem C19_store_tracks_innermost (env : Env) (ops : List Op) (h : disciplined env ops = true) (t : Nat) :
    (final env ops).store t = expectAt env.initStore (final env ops).stack t :=
  (inv_final env ops (init env) (inv_init env) h).store t

/-- **a block puts back what was there**: after any disciplined history `pre`, a `with patcher:` / decorated call
    whose `__enter__` succeeded and whose body closed what it opened restores the store it found - whether it is
    left normally or by exception (`exc` is arbitrary), and whatever else is patched around it.
    Hypotheses: `hd` (discipline) and `hbal` / `hsk2` (the body closed what it opened) are needed - witnesses
    `C19_block_restores_balance_necessary` (`hbal`), `C19_block_restores_skip_necessary` (`hsk2`).  `hsk` and `hent` only select the case of interest (the block really runs:
    `pre` does not end inside a skipped body, `__enter__` succeeded); they are proof-technical, no counterexample is
    known without them (when the block does not run the store is not touched at all). -/
theorem C19_block_restores (env : Env) (pre body : List Op) (p : Nat) (exc : Bool)
    (hd : disciplined env (pre ++ .enter p :: body) = true)
    (hsk : (final env pre).skip = none)
    (hent : (final env (pre ++ [.enter p])).skip = none)
    (hbal : (final env (pre ++ .enter p :: body)).stack = (final env (pre ++ [.enter p])).stack)
    (hsk2 : (final env (pre ++ .enter p :: body)).skip = none) :
    (final env (pre ++ .enter p :: body ++ [.exit p exc])).store = (final env pre).store := by
  simp only [disciplined, disciplinedFrom_append, disciplinedFrom, Bool.and_eq_true, Bool.or_eq_true] at hd
  simp only [final, finalFrom_append, finalFrom, observe_fst] at *
  have hinv := inv_final env pre (init env) (inv_init env) hd.1
  have hopen : isOpen p (finalFrom env (init env) pre).stack = false := by
    cases hd.2.1 with
    | inl h => rw [hsk] at h; cases h
    | inr h => simpa [opOk] using h
  have := block_restores env _ p exc body hinv hsk hopen hent hd.2.2 hbal hsk2
  simp only [finalFrom, observe_fst, finalFrom_append] at this
  exact this.1

/-- **nested blocks**: construct any patchers, open blocks (with / decorator) of any duplicate-free list of them
    inside one another - on the same target or on different ones, to any depth - and leave them innermost first,
    each one normally or by exception: the history is well nested and every host holds what it held before.
    (`__enter__`s that fail - nothing to patch, patcher not constructed - skip their body as Python does.) -/
theorem C19_restore_nested_blocks (env : Env) (cs : List (Nat × PSpec)) (bs : List (Nat × Bool))
    (hnd : (bs.map Prod.fst).Nodup) :
    let ops := (cs.map fun c => Op.construct c.1 c.2) ++
      ((bs.map fun b => Op.enter b.1) ++ (bs.reverse.map fun b => Op.exit b.1 b.2))
    wellNested env ops = true ∧ (final env ops).store = env.initStore := by
  obtain ⟨h1, h2, h3⟩ := nested_blocks_restore env cs bs hnd
  exact ⟨by simp only [wellNested, enters, exits] at h2 h3 ⊢; simp only [h3, h2, List.isEmpty_nil, Bool.and_self], h1⟩

/-- **stopall**: construct any patchers, start any duplicate-free list of them (same or different targets, in any
    order; starts that fail are simply not active), call `patch.stopall()`: the history is well nested, nothing
    stays active and every host holds what it held before -/
theorem C19_restore_stopall (env : Env) (cs : List (Nat × PSpec)) (ps : List Nat) (hnd : ps.Nodup) :
    let ops := (cs.map fun c => Op.construct c.1 c.2) ++ ps.map Op.start ++ [Op.stopall]
    wellNested env ops = true ∧ (final env ops).store = env.initStore ∧ (final env ops).active = [] := by
  obtain ⟨h1, h2, h3, h4⟩ := starts_stopall env cs ps hnd
  exact ⟨by simp only [wellNested, h4, h2, List.isEmpty_nil, Bool.and_self], h1, h3⟩

/-- **conventions agree**: on the object a constructed patcher installs - DEFAULT mock, wrapped function /
    classmethod / staticmethod, wrapped bound method or attribute-rejecting callable, callable object, object made
    by new_callable, `@asynq()` function (which binds like the function it wraps) - reached through a module, a class or an
    instance, every one of the four calling conventions
    runs the replacement exactly once with the descriptor prefix followed by the caller's arguments and keyword
    arguments, and hands back what the replacement returned or raised; hence all four agree.
    PARTIAL: `hm` excludes the one formerly exposed combination - a function / classmethod / staticmethod object as the
    replacement, reached through a class or an instance, whose body is sensitive to asyncio mode (it makes a
    synchronous asynq call); there the code did NOT agree before /repo fix 45a545c.  In the model of the repaired code
    `hm` holds of every spec: `C19_conventions_agree` below is this theorem without it. -/
theorem C19_conventions_agree_partial (p n : Nat) (s : PSpec) (pt : Patcher) (d : Defaults) (hc : construct d p s = .ok pt) (via : Via)
    (args : List Nat) (kw : List (Nat × Nat)) (pre : List Nat) (hpre : expectedPrefix s.repl via = some pre)
    (hm : s.modeExposed via = false) (c c' : Conv) :
    conv (installedObj pt p n) via c args kw = conv (installedObj pt p n) via c' args kw ∧
    (conv (installedObj pt p n) via c args kw).out = s.behav.out ∧
    (conv (installedObj pt p n) via c args kw).calls =
      [{ callee := expectedCallee p s (installedObj pt p n).tok, args := pre ++ args, kw := kw }] := by
  rw [construct_inv d p s pt hc, conv_installed p n s via c args kw pre hpre hm,
    conv_installed p n s via c' args kw pre hpre hm]
  exact ⟨rfl, rfl, rfl⟩

/-- a plain function that makes a synchronous asynq call and returns 5, given to patcher 0 -/
def fakeSpec : PSpec :=
  { target := 0, repl := .func, create := false, autospecNone := false, viaObject := false, behav := .syncCall 5 }
/-- what `__enter__` of that patcher installs: the `asynq(sync_fn=fake)(fake)` pair, decorated -/
def fakeObj : Obj := installedObj { spec := fakeSpec, new := maybeWrapNew 0 fakeSpec } 0 0

/-- the fake of the former finding (a plain function that makes a synchronous asynq call, on a method reached through
    an instance): all four conventions return its value, with the same single run and the same arguments -/
theorem C19_conventions_agree_fake :
    fakeSpec.modeExposed .inst = false ∧
    (∀ c ∈ Conv.all, conv fakeObj .inst c [1] [] =
      { out := .ok 5, calls := [{ callee := .given 0, args := [instTok, 1], kw := [] }] }) := by
  decide

/-- **conventions agree, without exception**: `hm` of `C19_conventions_agree_partial` is true of every patcher -/
theorem C19_conventions_agree (p n : Nat) (s : PSpec) (pt : Patcher) (d : Defaults) (hc : construct d p s = .ok pt) (via : Via)
    (args : List Nat) (kw : List (Nat × Nat)) (pre : List Nat) (hpre : expectedPrefix s.repl via = some pre)
    (c c' : Conv) :
    conv (installedObj pt p n) via c args kw = conv (installedObj pt p n) via c' args kw ∧
    (conv (installedObj pt p n) via c args kw).out = s.behav.out :=
  have h := C19_conventions_agree_partial p n s pt d hc via args kw pre hpre (by simp [PSpec.modeExposed, pairAsyncioInMode]) c c'
  ⟨h.1, h.2.1⟩

/-- `__enter__` on a target that exists (or with create=True) installs the object in the host, returns that very
    object, and has put the `.asynq` / `.asyncio` wrappers on it exactly when it is callable -/
theorem C19_enter_installs (env : Env) (st : State) (s : PSpec) (pt : Patcher) (p : Nat)
    (hc : construct env.defaults p s = .ok pt)
    (h : (!s.create && (getOriginal env st s.target).1.isNone) = false) :
    (enter env pt p st).1.store s.target = some (installedObj pt p (st.entries p)) ∧
    (enter env pt p st).2 = .entered (installedObj pt p (st.entries p)).tok ∧
    ((installedObj pt p (st.entries p)).attached = (installedObj pt p (st.entries p)).shape.callable) := by
  rw [construct_inv _ p s pt hc]
  refine ⟨?_, ?_, ?_⟩
  · unfold enter; simp [h, upd]
  · unfold enter; simp [h]
  · obtain ⟨t, repl, cr, an, vo, bh, sl, sh⟩ := s
    rcases repl with _ | _ | _ | _ | _ | _ | _ | _ | (_ | _) | (_ | _ | _) <;>
      simp [installedObj, maybeWrapNew, freshObj, Shape.callable, Repl.desc?, Repl.isCallable, Repl.acceptsAttrs]

/-- **which object is installed**, for every replacement kind: a MagicMock / the factory's product made at this very
    entry (DEFAULT / new_callable), the `asynq(sync_fn=new)(new)` pair (function, classmethod, staticmethod object),
    the `Wrapper()` (bound method, callable that takes no attributes), and the caller's object ITSELF for a callable
    object, an `@asynq()` function and a non-callable - `expectedTok` is the table the observer `spec` checks every
    `__enter__` / `start()` of the implementation against -/
theorem C19_installed_object (p n : Nat) (s : PSpec) (pt : Patcher) (d : Defaults) (hc : construct d p s = .ok pt) :
    (installedObj pt p n).tok = expectedTok p n s := by
  rw [construct_inv d p s pt hc]
  exact tok_installed p n s

/-- **non-callable as is**: a replacement that is not callable is handed to `_patch` unchanged, installed as that
    very object (the patcher's own `new`, or the object it shares with another patcher), and nothing is attached
    to it -/
theorem C19_noncallable_as_is (env : Env) (st : State) (s : PSpec) (pt : Patcher) (p : Nat)
    (hr : s.repl = .value) (hc : construct env.defaults p s = .ok pt)
    (h : (!s.create && (getOriginal env st s.target).1.isNone) = false) :
    (enter env pt p st).1.store s.target =
      some { id := s.newId p, shape := .value, attached := false, callee := s.newId p, behav := s.behav } ∧
    (enter env pt p st).2 = .entered { id := s.newId p, tag := .asis } := by
  obtain ⟨h1, h2, _⟩ := C19_enter_installs env st s pt p hc h
  rw [h1, h2, construct_inv _ p s pt hc]
  simp [installedObj, maybeWrapNew, hr, Repl.desc?, Repl.isCallable, Shape.callable, Obj.tok, PSpec.newId]

/-- the same for a patcher whose `new` is its own object (not shared with another patcher) -/
theorem C19_noncallable_as_is_own (env : Env) (st : State) (s : PSpec) (pt : Patcher) (p : Nat)
    (hs : s.share = none) (hr : s.repl = .value) (hc : construct env.defaults p s = .ok pt)
    (h : (!s.create && (getOriginal env st s.target).1.isNone) = false) :
    (enter env pt p st).1.store s.target =
      some { id := .given p, shape := .value, attached := false, callee := .given p, behav := s.behav } ∧
    (enter env pt p st).2 = .entered { id := .given p, tag := .asis } := by
  have hid : s.newId p = .given p := by simp [PSpec.newId, hs]
  have := C19_noncallable_as_is env st s pt p hr hc h
  rw [hid] at this
  exact this

/-- **a shared replacement is one object**: when the `new` of patcher `p` is the very (attribute-accepting callable)
    object patcher `q` was given, what `p` installs and returns IS that object - not a copy, not a wrapper - and
    every convention, through every kind of lookup, ends in that one object with the caller's arguments.  (So the
    helper attributes `_PatchAsync.__enter__` puts on it are on the object both patches show.) -/
theorem C19_shared_replacement_same_object (p q n : Nat) (s : PSpec) (pt : Patcher) (d : Defaults)
    (hs : s.share = some q) (hr : s.repl = .callobj) (hc : construct d p s = .ok pt) :
    (installedObj pt p n).tok = { id := .given q, tag := .asis } ∧
    ∀ (via : Via) (c : Conv) (args : List Nat) (kw : List (Nat × Nat)),
      (conv (installedObj pt p n) via c args kw).calls = [{ callee := .given q, args := args, kw := kw }] := by
  refine ⟨?_, fun via c args kw => ?_⟩
  · rw [construct_inv d p s pt hc]
    simp [installedObj, maybeWrapNew, hr, Repl.desc?, Repl.isCallable, Repl.acceptsAttrs, Shape.callable, Obj.tok,
      PSpec.newId, hs]
  · have hpre : expectedPrefix s.repl via = some [] := by rw [hr]; rfl
    have hm : s.modeExposed via = false := by simp [PSpec.modeExposed, hr, Repl.desc?]
    rw [(C19_conventions_agree_partial p n s pt d hc via args kw [] hpre hm c c).2.2]
    simp [expectedCallee, hr, PSpec.newId, hs]

/-- `__exit__` of an entered patcher never swallows the exception that ends the block, and forgets its saved state
    (a second `__exit__` is an error, not a second restore) -/
theorem C19_exception_propagates (env : Env) (st : State) (pt : Patcher) (p : Nat) (exc : Bool)
    (sv : Option Obj × Bool) (h : st.saved p = some sv) :
    (exit env pt p exc st).2 = .exited exc ∧ (exit env pt p exc st).1.saved p = none ∧
    (exit env pt p exc (exit env pt p exc st).1).2 = .raised .attributeError := by
  unfold exit
  simp [h, upd]

/-- **C19 as a whole, for arbitrary signature defaults**: for every environment and every history of operations (well
    nested or not) in which (`hc`) no patcher uses new_callable while the `autospec` that reaches `_patch` is not None and
    (`hm`) no patcher is a mode-sensitive function / classmethod / staticmethod replacement in an environment where
    something is reached through a class or an instance, the observations of the model are accepted by the observer
    `spec` - the same Boolean function the check evaluates on the observations of the real implementation. -/
theorem C19_spec_holds_partial (env : Env) (ops : List Op)
    (hc : ops.all (Op.constructible env.defaults) = true) (hm : ops.all (Op.modeSafe env) = true) :
    spec env (run env ops) = true := by
  obtain ⟨w', h⟩ := watchRun_ok env ops hc hm watchInit (init env) (Or.inr (rel_init env))
  simp only [spec, run, initPeeks_eq, h]

/-- **C19 as a whole, for the code as it is** (`Defaults.current`: both signatures default `autospec=None`, which the
    harness re-reads from the code on every run, so `hc` above is true of every history): for EVERY environment of
    targets and EVERY history of operations, well nested or not, that satisfies `hm`, the observer accepts the
    observations of the model.  (`hm` was necessary before /repo fix 45a545c; in the model of the repaired code it holds
    of every history - `C19_spec_holds` - and `C19_asyncio_mode_repaired` replays the former counterexample.) -/
theorem C19_spec_holds_current_partial (env : Env) (ops : List Op) (hd : env.defaults = Defaults.current)
    (hm : ops.all (Op.modeSafe env) = true) :
    spec env (run env ops) = true := by
  apply C19_spec_holds_partial env ops _ hm
  rw [List.all_eq_true]
  intro op _
  cases op <;> simp [Op.constructible, PSpec.constructible, PSpec.autospecIsNone, hd, Defaults.current]

/-- ... in particular WITHOUT any hypothesis on the history when every target is a module-level function / attribute
    (nothing is reached through a class or an instance): there a mode-sensitive replacement agrees as well -/
theorem C19_spec_holds_module_level (env : Env) (ops : List Op) (hd : env.defaults = Defaults.current)
    (hv : env.targets.all (fun ts => ts.via == .plain) = true) :
    spec env (run env ops) = true := by
  apply C19_spec_holds_current_partial env ops hd
  rw [List.all_eq_true]
  intro op _
  cases op <;> simp [Op.modeSafe, PSpec.modeSafe, hv]

/-- the replacement of this patcher does not look at asyncio mode (it returns or raises, whatever the kind of object) -/
def Op.modeInsensitive : Op → Bool
  | .construct _ s => !s.behav.modeSensitive
  | _ => true

/-- ... and without any hypothesis on the environment when no replacement makes a synchronous asynq call -/
theorem C19_spec_holds_mode_insensitive (env : Env) (ops : List Op) (hd : env.defaults = Defaults.current)
    (hb : ops.all Op.modeInsensitive = true) :
    spec env (run env ops) = true := by
  apply C19_spec_holds_current_partial env ops hd
  rw [List.all_eq_true] at hb ⊢
  intro op hop
  have := hb op hop
  cases op with
  | construct p s =>
    simp only [Op.modeInsensitive, Bool.not_eq_true'] at this
    simp [Op.modeSafe, PSpec.modeSafe, this]
  | _ => rfl

/-- one `@asynq()` method, reached through an instance -/
def fakeEnv : Env := { targets := [{ kind := .asyncFn .func, host := .loc, via := .inst }] }
/-- `with patch("pkg.Svc.method", fake): svc.method(1) ...` -/
def fakeOps : List Op := [.construct 0 fakeSpec, .enter 0, .call 0 [1] [], .exit 0 false]

/-- **C19 as a whole, for the code as it is, without any hypothesis on the history or the environment** -/
theorem C19_spec_holds (env : Env) (ops : List Op) (hd : env.defaults = Defaults.current) :
    spec env (run env ops) = true := by
  apply C19_spec_holds_current_partial env ops hd
  rw [List.all_eq_true]
  intro op _
  cases op <;> simp [Op.modeSafe, PSpec.modeSafe, pairAsyncioInMode]

/-- the history of the former finding is accepted -/
theorem C19_asyncio_mode_repaired :
    spec fakeEnv (run fakeEnv fakeOps) = true ∧ (final fakeEnv fakeOps).store = fakeEnv.initStore :=
  ⟨C19_spec_holds fakeEnv fakeOps rfl, C19_restore _ _ (by decide)⟩

/-- **necessity of the hypothesis `hc` of `C19_spec_holds_partial`** (a regression witness, NOT a statement about today's
    tree): with the signatures of asynq 1.6 (`autospec=False` in `patch` / `patch.object`, repaired by 60e77e0)
    `asynq.mock.patch(target, new_callable=f)` cannot even be constructed - `_patch.__init__` rejects `new_callable`
    together with any `autospec is not None` - and the observer rejects the history; witness: one module function,
    one such patcher. -/
theorem C19_new_callable_asynq16_counterexample :
    spec { targets := [{ kind := .asyncFn .func, host := .loc, via := .plain }], defaults := Defaults.asynq16 }
      (run { targets := [{ kind := .asyncFn .func, host := .loc, via := .plain }], defaults := Defaults.asynq16 }
        [.construct 0 { target := 0, repl := .newCallable true, create := false, autospecNone := false, viaObject := false,
                        behav := .ret 1 }])
      = false := by
  decide

/-! ### names that are re-bound between the uses of a patcher; results and errors of every kind -/

/-- **the dotted path is resolved at every `__enter__`**: a patcher built from a string (`patch("pkg.Owner.attr")`)
    acts on the owner its name refers to at the moment it is entered - not on the one it named when the patcher was
    constructed, nor on the one an earlier use resolved (`pt0.spec.target` is arbitrary): the replacement goes into
    that owner's `__dict__`, `__enter__` returns it, and the patcher's `target` now is that owner (so `__exit__`
    restores there).  A getter that memoises its first answer violates this. -/
theorem C19_path_resolved_at_every_enter (env : Env) (st : State) (p : Nat) (pt0 : Patcher)
    (hsk : st.skip = none) (hpt : st.patchers p = some pt0) (hv : pt0.spec.viaObject = false)
    (hex : (!pt0.spec.create && (getOriginal env st (st.bind pt0.spec.slot)).1.isNone) = false) :
    let pt := resolveP st.bind pt0
    let st' := (step env st (.enter p)).1
    let o := installedObj pt p (st.entries p)
    st'.store (st.bind pt0.spec.slot) = some o ∧ (step env st (.enter p)).2 = .entered o.tok ∧
      (st'.patchers p).map (·.spec.target) = some (st.bind pt0.spec.slot) := by
  have ht := resolveP_target_string st.bind pt0 hv
  have h : (!(resolveP st.bind pt0).spec.create &&
      (getOriginal env st (resolveP st.bind pt0).spec.target).1.isNone) = false := by
    rw [ht, resolveP_create]; exact hex
  obtain ⟨h1, h2, h3, _, _⟩ := step_enter_ok env st p pt0 hsk hpt h
  refine ⟨?_, h1, ?_⟩
  · show (step env st (.enter p)).1.store _ = _
    rw [h2, ht, upd_same]
  · show ((step env st (.enter p)).1.patchers p).map _ = _
    rw [h3, Option.map_some, ht]

/-- the same for `patcher.start()` -/
theorem C19_path_resolved_at_every_start (env : Env) (st : State) (p : Nat) (pt0 : Patcher)
    (hsk : st.skip = none) (hpt : st.patchers p = some pt0) (hv : pt0.spec.viaObject = false)
    (hex : (!pt0.spec.create && (getOriginal env st (st.bind pt0.spec.slot)).1.isNone) = false) :
    let pt := resolveP st.bind pt0
    let st' := (step env st (.start p)).1
    let o := installedObj pt p (st.entries p)
    st'.store (st.bind pt0.spec.slot) = some o ∧ (step env st (.start p)).2 = .entered o.tok ∧
      (st'.patchers p).map (·.spec.target) = some (st.bind pt0.spec.slot) := by
  have ht := resolveP_target_string st.bind pt0 hv
  have h : (!(resolveP st.bind pt0).spec.create &&
      (getOriginal env st (resolveP st.bind pt0).spec.target).1.isNone) = false := by
    rw [ht, resolveP_create]; exact hex
  obtain ⟨h1, h2, h3, _, _⟩ := step_start_ok env st p pt0 hsk hpt h
  refine ⟨?_, h1, ?_⟩
  · show (step env st (.start p)).1.store _ = _
    rw [h2, ht, upd_same]
  · show ((step env st (.start p)).1.patchers p).map _ = _
    rw [h3, Option.map_some, ht]

/-- **`patch.object` keeps its object**: a patcher built with `patch.object(obj, name)` acts on the object it was
    given at construction (`pt0.spec.target`), whatever its former name refers to now (`st.bind` is arbitrary) - for
    `with` / decorator and for `start()` alike -/
theorem C19_object_target_fixed (env : Env) (st : State) (p : Nat) (pt0 : Patcher)
    (hsk : st.skip = none) (hpt : st.patchers p = some pt0) (hv : pt0.spec.viaObject = true)
    (hex : (!pt0.spec.create && (getOriginal env st pt0.spec.target).1.isNone) = false) :
    let o := installedObj pt0 p (st.entries p)
    ((step env st (.enter p)).1.store pt0.spec.target = some o ∧ (step env st (.enter p)).2 = .entered o.tok ∧
      (step env st (.enter p)).1.patchers p = some pt0) ∧
    ((step env st (.start p)).1.store pt0.spec.target = some o ∧ (step env st (.start p)).2 = .entered o.tok ∧
      (step env st (.start p)).1.patchers p = some pt0) := by
  have hr := resolveP_object st.bind pt0 hv
  have h : (!(resolveP st.bind pt0).spec.create &&
      (getOriginal env st (resolveP st.bind pt0).spec.target).1.isNone) = false := by
    rw [hr]; exact hex
  obtain ⟨h1, h2, h3, _, _⟩ := step_enter_ok env st p pt0 hsk hpt h
  obtain ⟨k1, k2, k3, _, _⟩ := step_start_ok env st p pt0 hsk hpt h
  rw [hr] at h1 h2 h3 k1 k2 k3
  exact ⟨⟨by rw [h2, upd_same], h1, h3⟩, ⟨by rw [k2, upd_same], k1, k3⟩⟩

/-- **calls through the name reach the replacement**: after a successful `__enter__` of a string patcher, a caller
    that goes through the same name (which still names the patched owner) finds the installed object, and all four
    conventions run on it -/
theorem C19_calls_through_name_reach_replacement (env : Env) (st : State) (p : Nat) (pt0 : Patcher)
    (hsk : st.skip = none) (hpt : st.patchers p = some pt0) (hv : pt0.spec.viaObject = false)
    (hex : (!pt0.spec.create && (getOriginal env st (st.bind pt0.spec.slot)).1.isNone) = false)
    (args : List Nat) (kw : List (Nat × Nat)) :
    let pt := resolveP st.bind pt0
    let st' := (step env st (.enter p)).1
    let o := installedObj pt p (st.entries p)
    (step env st' (.call pt0.spec.slot args kw)).2 =
      .called (Conv.all.map fun c => conv o (env.tspec (st.bind pt0.spec.slot)).via c args kw) := by
  have ht := resolveP_target_string st.bind pt0 hv
  have h : (!(resolveP st.bind pt0).spec.create &&
      (getOriginal env st (resolveP st.bind pt0).spec.target).1.isNone) = false := by
    rw [ht, resolveP_create]; exact hex
  obtain ⟨_, h2, _, h4, h5⟩ := step_enter_ok env st p pt0 hsk hpt h
  have hst : (step env st (.enter p)).1.store ((step env st (.enter p)).1.bind pt0.spec.slot) =
      some (installedObj (resolveP st.bind pt0) p (st.entries p)) := by
    rw [h5, h2, ht, upd_same]
  have := step_call_store env _ pt0.spec.slot _ args kw h4 hst
  rw [h5] at this
  exact this

/-- **the result object is handed back untouched**: whatever KIND of object the replacement returns - an ordinary
    value, None, a falsy object, one of asynq's own futures (ConstFuture, a lazy Future, an ErrorFuture, an AsyncTask),
    an exception instance, an object whose `__eq__` / `__bool__` raise, a container - every one of the four
    conventions hands back that very object (a future is not resolved, a falsy result is not dropped); and whatever
    kind of exception it raises - also one that derives from BaseException only, or is falsy - every convention
    raises that very exception (nothing is swallowed or replaced) -/
theorem C19_result_object_untouched (p n : Nat) (s : PSpec) (pt : Patcher) (d : Defaults)
    (hc : construct d p s = .ok pt) (via : Via) (args : List Nat) (kw : List (Nat × Nat)) (pre : List Nat)
    (hpre : expectedPrefix s.repl via = some pre) (c : Conv) :
    (∀ r k, s.behav = .ret r k → (conv (installedObj pt p n) via c args kw).out = .ok r k) ∧
    (∀ e k, s.behav = .raise e k → (conv (installedObj pt p n) via c args kw).out = .raised (.user e k)) := by
  refine ⟨fun r k hb => ?_, fun e k hb => ?_⟩
  · have hm : s.modeExposed via = false := by simp [PSpec.modeExposed, hb, Behav.modeSensitive]
    rw [(C19_conventions_agree_partial p n s pt d hc via args kw pre hpre hm c c).2.1, hb]; rfl
  · have hm : s.modeExposed via = false := by simp [PSpec.modeExposed, hb, Behav.modeSensitive]
    rw [(C19_conventions_agree_partial p n s pt d hc via args kw pre hpre hm c c).2.1, hb]; rfl

/-- **re-binding a name touches no host**: `pkg.Owner = Other` changes what the name refers to and nothing else -
    every host's `__dict__`, every open patch and every patcher object stay as they are (inside a skipped block body
    the operation does not even run) -/
theorem C19_rebind_touches_no_host (env : Env) (st : State) (s t : Nat) :
    (step env st (.rebind s t)).1.store = st.store ∧ (step env st (.rebind s t)).1.stack = st.stack ∧
    (step env st (.rebind s t)).1.patchers = st.patchers ∧ (step env st (.rebind s t)).1.saved = st.saved ∧
    (step env st (.rebind s t)).1.active = st.active := by
  unfold step
  cases st.skip with
  | none => exact ⟨rfl, rfl, rfl, rfl, rfl⟩
  | some qd => exact ⟨rfl, rfl, rfl, rfl, rfl⟩

/-- **a patch ends where it was entered, whatever its name means by then**: after any disciplined history `pre`, a
    block whose `__enter__` succeeded, inside which the owner named in ANY dotted path is re-bound (`rebind s t` is
    arbitrary - also the patcher's own name), puts back the store it found: `__exit__` restores the host the patch went
    into, not the one the name refers to now.  (Uses `C19_rebind_touches_no_host`.) -/
theorem C19_block_restores_across_rebind (env : Env) (pre : List Op) (p s t : Nat) (exc : Bool)
    (hd : disciplined env (pre ++ [.enter p]) = true)
    (hsk : (final env pre).skip = none)
    (hent : (final env (pre ++ [.enter p])).skip = none) :
    (final env (pre ++ [.enter p, .rebind s t, .exit p exc])).store = (final env pre).store := by
  have key : ∀ st : State, st.skip = none →
      (step env st (.rebind s t)).1.stack = st.stack ∧ (step env st (.rebind s t)).1.skip = none := by
    intro st h
    unfold step
    simp only [h]
    exact ⟨trivial, trivial⟩
  have hd' : disciplined env (pre ++ .enter p :: [.rebind s t]) = true := by
    simp only [disciplined, disciplinedFrom_append, disciplinedFrom, Bool.and_eq_true, Bool.and_true] at hd ⊢
    exact ⟨hd.1, hd.2, by simp [opOk]⟩
  have hfin : final env (pre ++ .enter p :: [.rebind s t]) =
      (step env (final env (pre ++ [.enter p])) (.rebind s t)).1 := by
    simp only [final, finalFrom_append, finalFrom, observe_fst]
  have := C19_block_restores env pre [.rebind s t] p exc hd' hsk hent
    (by rw [hfin]; exact (key _ hent).1) (by rw [hfin]; exact (key _ hent).2)
  simpa using this

/-- **an `@asynq()` function as the replacement** (`patch(target, other_async_fn)`): `_maybe_wrap_new` hands it on
    unchanged (it is not `inspect.isfunction`, it is callable and takes attributes), so the caller's object ITSELF is
    installed; unlike a plain callable object it has `__get__`, so it BINDS like the function it wraps - the instance
    in front when a method is reached through an instance, the class for an `@asynq()` classmethod, nothing through
    a module - and every convention runs it exactly once with that prefix and the caller's arguments -/
theorem C19_asynq_function_replacement (p n : Nat) (s : PSpec) (pt : Patcher) (dflt : Defaults) (d : Desc)
    (hr : s.repl = .asyncFn d) (hc : construct dflt p s = .ok pt) (via : Via) (c : Conv) (args : List Nat)
    (kw : List (Nat × Nat)) :
    (installedObj pt p n).tok = { id := s.newId p, tag := .asis } ∧
    conv (installedObj pt p n) via c args kw =
      { out := s.behav.out, calls := [{ callee := s.newId p, args := (bindPrefix d via).getD [] ++ args, kw := kw }] } := by
  have hpre : expectedPrefix s.repl via = some ((bindPrefix d via).getD []) := by rw [hr]; rfl
  have hm : s.modeExposed via = false := by simp [PSpec.modeExposed, hr, Repl.desc?]
  obtain ⟨_, h2, h3⟩ := C19_conventions_agree_partial p n s pt dflt hc via args kw _ hpre hm c c
  refine ⟨?_, ?_⟩
  · rw [C19_installed_object p n s pt dflt hc]; simp [expectedTok, hr]
  · have hcal : expectedCallee p s (installedObj pt p n).tok = s.newId p := by simp [expectedCallee, hr]
    rw [hcal] at h3
    cases hcv : conv (installedObj pt p n) via c args kw with
    | mk o cs => rw [hcv] at h2 h3; simp only [] at h2 h3; rw [h2, h3]

/-- `C19_block_restores` needs `hbal`: a body that starts a patch of ANOTHER target and does not stop it is a
    disciplined history satisfying every other hypothesis (`hd`, `hsk`, `hent`, `hsk2`), and after the block the store
    is not the one the block found (target 1 holds the started replacement) -/
theorem C19_block_restores_balance_necessary :
    let env : Env := { targets := [{ kind := .asyncFn .func, host := .loc, via := .plain },
                                   { kind := .asyncFn .func, host := .loc, via := .plain }] }
    let mk : Nat → PSpec := fun t => { target := t, repl := .default, create := false, autospecNone := false,
                                        viaObject := false, behav := .ret 5 }
    let pre : List Op := [.construct 0 (mk 0), .construct 1 (mk 1)]
    let body : List Op := [.start 1]
    disciplined env (pre ++ .enter 0 :: body) = true ∧ (final env pre).skip = none ∧
    (final env (pre ++ [.enter 0])).skip = none ∧ (final env (pre ++ .enter 0 :: body)).skip = none ∧
    ((final env (pre ++ .enter 0 :: body)).stack != (final env (pre ++ [.enter 0])).stack) = true ∧
    (final env (pre ++ .enter 0 :: body ++ [.exit 0 false])).store 1 ≠ (final env pre).store 1 := by
  decide

/-- `C19_block_restores` needs `hsk2`: a body that ends inside a block whose own `__enter__` failed (here: a patcher that
    was never constructed, its block not closed) satisfies every other hypothesis, `hbal` included; the `.exit` that follows
    belongs to the skipped body, so the replacement stays -/
theorem C19_block_restores_skip_necessary :
    let env : Env := { targets := [{ kind := .asyncFn .func, host := .loc, via := .plain }] }
    let pre : List Op := [.construct 0 { target := 0, repl := .default, create := false, autospecNone := false,
                                          viaObject := false, behav := .ret 5 }]
    let body : List Op := [.enter 7]
    disciplined env (pre ++ .enter 0 :: body) = true ∧ (final env pre).skip = none ∧
    (final env (pre ++ [.enter 0])).skip = none ∧
    ((final env (pre ++ .enter 0 :: body)).stack == (final env (pre ++ [.enter 0])).stack) = true ∧
    (final env (pre ++ .enter 0 :: body)).skip = some (7, 0) ∧
    (final env (pre ++ .enter 0 :: body ++ [.exit 0 false])).store 0 ≠ (final env pre).store 0 := by
  decide

/-! ### the duplicate-freeness hypotheses of the two family theorems are necessary -/

/-- `C19_restore_nested_blocks` needs `Nodup`: entering ONE patcher twice (the second `__enter__` overwrites the
    `temp_original` of the first) and leaving twice leaves the replacement behind - the second `__exit__` raises
    AttributeError - and such a history is not well nested -/
theorem C19_nested_blocks_nodup_necessary :
    let env : Env := { targets := [{ kind := .asyncFn .func, host := .loc, via := .plain }] }
    let s : PSpec := { target := 0, repl := .default, create := false, autospecNone := false, viaObject := false,
                       behav := .ret 5 }
    let ops : List Op := [.construct 0 s] ++ ([(0, false), (0, false)].map fun b => Op.enter b.1) ++
      ([(0, false), (0, false)].reverse.map fun b => Op.exit b.1 b.2)
    ((final env ops).store 0).map Obj.tok = some { id := .made 0 0, tag := .mock } ∧
      (final env ops).store 0 ≠ env.initStore 0 ∧ wellNested env ops = false ∧
      ((run env ops).map (·.res)).getLast? = some (.raised .attributeError) := by
  decide

/-- `C19_restore_stopall` needs `Nodup`: starting ONE patcher twice puts it into `_active_patches` twice; `stopall()`
    stops it once successfully, the second `stop()` raises out of `stopall()`, and the replacement stays -/
theorem C19_stopall_nodup_necessary :
    let env : Env := { targets := [{ kind := .asyncFn .func, host := .loc, via := .plain }] }
    let s : PSpec := { target := 0, repl := .default, create := false, autospecNone := false, viaObject := false,
                       behav := .ret 5 }
    let ops : List Op := [.construct 0 s] ++ [0, 0].map Op.start ++ [Op.stopall]
    (final env ops).store 0 ≠ env.initStore 0 ∧ wellNested env ops = false := by
  decide

/-! non-vacuity -/
section
private def env1 : Env := { targets := [{ kind := .asyncFn .func, host := .loc, via := .inst },
                                        { kind := .attr, host := .absent, via := .plain }] }
private def sp (t : Nat) (r : Repl) (create : Bool := false) : PSpec :=
  { target := t, repl := r, create := create, autospecNone := true, viaObject := false, behav := .ret 5 }
private def hist1 : List Op :=
  [.construct 0 (sp 0 .default), .construct 1 (sp 0 .func), .construct 2 (sp 1 .bound true), .construct 3 (sp 1 .value),
   .enter 0, .call 0 [1] [(0, 2)], .start 1, .call 0 [3] [], .enter 2, .enter 3, .exit 3 false, .exit 2 true, .stop 1,
   .exit 0 true, .start 2, .start 1, .stopall, .call 0 [] []]

/-- a history with nested patches of one target (default mock, then a function on top), a created attribute with a
    non-callable patched over a wrapped bound method, exits by exception, LIFO stop, stopall: well nested, restored,
    accepted by the observer -/
example : wellNested env1 hist1 = true := by decide
example : spec env1 (run env1 hist1) = true := by decide
example : ((final env1 hist1).store 0).map Obj.tok = some { id := .orig 0, tag := .orig } := by decide
/-- inside the patches the function replacement is reached with the instance in front -/
example : ((run env1 hist1).getD 7 default).res =
    .called (List.replicate 4 { out := .ok 5, calls := [{ callee := .given 1, args := [instTok, 3], kw := [] }] }) := by
  decide
/-- ill-nested: stopping the outer of two patches of one target first leaves the outer replacement behind -/
example : ((final env1 [.construct 0 (sp 0 .default), .construct 1 (sp 0 .func), .start 0, .start 1, .stop 0, .stop 1]).store 0).map
    Obj.tok = some { id := .made 0 0, tag := .mock } := by decide
example : wellNested env1 [.construct 0 (sp 0 .default), .construct 1 (sp 0 .func), .start 0, .start 1, .stop 0, .stop 1]
    = false := by decide
/-- the observer is not trivially true: it rejects a history whose with-block does not restore the original -/
example : spec env1
    [{ op := .construct 0 (sp 0 .callobj), res := .made, peeks := [some { id := .orig 0, tag := .orig }, none] },
     { op := .enter 0, res := .entered { id := .given 0, tag := .asis },
       peeks := [some { id := .given 0, tag := .asis }, none] },
     { op := .exit 0 false, res := .exited false, peeks := [some { id := .given 0, tag := .asis }, none] }] = false := by
  decide
/-- ... and one in which `.asyncio(...)` loses the keyword arguments -/
example : spec env1
    [{ op := .construct 0 (sp 0 .callobj), res := .made, peeks := [some { id := .orig 0, tag := .orig }, none] },
     { op := .enter 0, res := .entered { id := .given 0, tag := .asis },
       peeks := [some { id := .given 0, tag := .asis }, none] },
     { op := .call 0 [1] [(0, 2)],
       res := .called [{ out := .ok 5, calls := [{ callee := .given 0, args := [1], kw := [(0, 2)] }] },
                       { out := .ok 5, calls := [{ callee := .given 0, args := [1], kw := [(0, 2)] }] },
                       { out := .ok 5, calls := [{ callee := .given 0, args := [1], kw := [(0, 2)] }] },
                       { out := .ok 5, calls := [{ callee := .given 0, args := [1], kw := [] }] }],
       peeks := [some { id := .given 0, tag := .asis }, none] }] = false := by
  decide
/-! re-bound names and result kinds -/
/-- two classes with a same-named `@asynq()` method each, reached through instances -/
private def env2 : Env := { targets := [{ kind := .asyncFn .func, host := .loc, via := .inst },
                                        { kind := .asyncFn .func, host := .loc, via := .inst }] }
/-- one string patcher `patch("pkg.Owner.method", fn)`, used twice; between the uses the test re-binds `pkg.Owner`
    to the other class, and back afterwards -/
private def hist2 : List Op :=
  [.construct 0 (sp 0 .func), .enter 0, .call 0 [1] [], .exit 0 false, .rebind 0 1, .enter 0, .call 0 [1] [],
   .exit 0 true, .rebind 0 0, .call 0 [1] []]
private def tO0 : Option Tok := some { id := .orig 0, tag := .orig }
private def tO1 : Option Tok := some { id := .orig 1, tag := .orig }
private def tR : Tok := { id := .made 0 0, tag := .pair }

example : wellNested env2 hist2 = true := by decide
example : spec env2 (run env2 hist2) = true := by decide
example : (final env2 hist2).store = env2.initStore := C19_restore env2 hist2 (by decide)
/-- during the second use the replacement sits on the class the name refers to NOW; the first class is untouched -/
example : ((final env2 (hist2.take 6)).store 1).map Obj.tok = some tR ∧
    ((final env2 (hist2.take 6)).store 0).map Obj.tok = tO0 ∧
    ((final env2 (hist2.take 6)).patchers 0).map (·.spec.target) = some 1 := by decide
/-- ... during the first use it sat on the first class -/
example : ((final env2 (hist2.take 2)).store 0).map Obj.tok = some tR ∧
    ((final env2 (hist2.take 2)).store 1).map Obj.tok = tO1 := by decide
/-- ... and a caller that goes through the name during the second use gets the replacement, four times -/
example : ((run env2 hist2).getD 6 default).res =
    .called (List.replicate 4 { out := .ok 5, calls := [{ callee := .given 0, args := [instTok, 1], kw := [] }] }) := by
  decide
/-- after the block and the re-binding back, the name reaches the first class's original again -/
example : ((run env2 hist2).getD 9 default).res =
    .called (List.replicate 4 { out := .ok (origRet 0), calls := [{ callee := .orig 0, args := [instTok, 1], kw := [] }] }) := by
  decide
/-- the observer accepts the second use on the class the name refers to now ... -/
example : spec env2
    [{ op := .construct 0 (sp 0 .func), res := .made, peeks := [tO0, tO1] },
     { op := .enter 0, res := .entered tR, peeks := [some tR, tO1] },
     { op := .exit 0 false, res := .exited false, peeks := [tO0, tO1] },
     { op := .rebind 0 1, res := .unit, peeks := [tO0, tO1] },
     { op := .enter 0, res := .entered tR, peeks := [tO0, some tR] }] = true := by
  decide
/-- ... and REJECTS what a memoised getter produces: the second use patches the class of the first use again -/
example : spec env2
    [{ op := .construct 0 (sp 0 .func), res := .made, peeks := [tO0, tO1] },
     { op := .enter 0, res := .entered tR, peeks := [some tR, tO1] },
     { op := .exit 0 false, res := .exited false, peeks := [tO0, tO1] },
     { op := .rebind 0 1, res := .unit, peeks := [tO0, tO1] },
     { op := .enter 0, res := .entered tR, peeks := [some tR, tO1] }] = false := by
  decide
/-- the same on the observations of the model itself: alter the store seen after the second `__enter__` -/
example : spec env2 ((run env2 hist2).set 5
    { op := .enter 0, res := .entered tR, peeks := [some tR, tO1] }) = false := by decide
/-- a re-binding that moves an open patch (or anything else in a host) is rejected -/
example : spec env2
    [{ op := .construct 0 (sp 0 .func), res := .made, peeks := [tO0, tO1] },
     { op := .enter 0, res := .entered tR, peeks := [some tR, tO1] },
     { op := .rebind 0 1, res := .unit, peeks := [tO0, some tR] }] = false := by
  decide

/-- a replacement that returns a `ConstFuture` object -/
private def spCF : PSpec := { sp 0 .func with behav := .ret 5 .constFuture }
private def okCF (r : Nat) (k : RKind) : ConvRes :=
  { out := .ok r k, calls := [{ callee := .given 0, args := [instTok, 1], kw := [] }] }
/-- the model hands the future back as it is, under all four conventions -/
example : ((run env2 [.construct 0 spCF, .enter 0, .call 0 [1] []]).getD 2 default).res =
    .called (List.replicate 4 (okCF 5 .constFuture)) := by decide
example : spec env2
    [{ op := .construct 0 spCF, res := .made, peeks := [tO0, tO1] },
     { op := .enter 0, res := .entered tR, peeks := [some tR, tO1] },
     { op := .call 0 [1] [], res := .called [okCF 5 .constFuture, okCF 5 .constFuture, okCF 5 .constFuture, okCF 5 .constFuture],
       peeks := [some tR, tO1] }] = true := by
  decide
/-- the observer REJECTS conventions that resolve the future they were handed: `.asynq(...).value()` and
    `yield .asynq(...)` give the future's value, the sync call and `.asyncio` the future itself -/
example : spec env2
    [{ op := .construct 0 spCF, res := .made, peeks := [tO0, tO1] },
     { op := .enter 0, res := .entered tR, peeks := [some tR, tO1] },
     { op := .call 0 [1] [], res := .called [okCF 5 .constFuture, okCF 999999 .plain, okCF 999999 .plain, okCF 5 .constFuture],
       peeks := [some tR, tO1] }] = false := by
  decide
/-- ... and a BaseException-only error that one convention turns into an ordinary one -/
example : spec env2
    [{ op := .construct 0 { sp 0 .func with behav := .raise 3 .baseOnly }, res := .made, peeks := [tO0, tO1] },
     { op := .enter 0, res := .entered tR, peeks := [some tR, tO1] },
     { op := .call 0 [1] [],
       res := .called [{ out := .raised (.user 3 .baseOnly), calls := [{ callee := .given 0, args := [instTok, 1], kw := [] }] },
                       { out := .raised (.user 3 .baseOnly), calls := [{ callee := .given 0, args := [instTok, 1], kw := [] }] },
                       { out := .raised (.user 3 .baseOnly), calls := [{ callee := .given 0, args := [instTok, 1], kw := [] }] },
                       { out := .raised (.user 3 .exception), calls := [{ callee := .given 0, args := [instTok, 1], kw := [] }] }],
       peeks := [some tR, tO1] }] = false := by
  decide
/-! one replacement object given to two patchers -/
private def env3 : Env := { targets := [{ kind := .asyncFn .func, host := .loc, via := .plain }] }
private def spOwn : PSpec := sp 0 .callobj
private def spShared : PSpec := { sp 0 .callobj with share := some 0 }
private def hist3 : List Op :=
  [.construct 0 spOwn, .construct 1 spShared, .enter 0, .enter 1, .call 0 [1] [], .exit 1 false, .call 0 [1] [],
   .exit 0 false, .call 0 [1] []]
private def tG : Tok := { id := .given 0, tag := .asis }
private def okG : ConvRes := { out := .ok 5, calls := [{ callee := .given 0, args := [1], kw := [] }] }
private def noAttr : ConvRes := { out := .raised .attributeError, calls := [] }

example : wellNested env3 hist3 = true := by decide
example : spec env3 (run env3 hist3) = true := by decide
example : (final env3 hist3).store = env3.initStore := C19_restore env3 hist3 (by decide)
/-- during both calls - under both patches, and under the outer one alone - the host holds the one shared object -/
example : ((final env3 (hist3.take 5)).store 0).map Obj.tok = some tG ∧
    ((final env3 (hist3.take 7)).store 0).map Obj.tok = some tG := by decide
/-- ... and all four conventions work on it, also after the inner patch has ended -/
example : ((run env3 hist3).getD 4 default).res = .called (List.replicate 4 okG) ∧
    ((run env3 hist3).getD 6 default).res = .called (List.replicate 4 okG) := by decide
example : spec env3
    [{ op := .construct 0 spOwn, res := .made, peeks := [tO0] },
     { op := .construct 1 spShared, res := .made, peeks := [tO0] },
     { op := .enter 0, res := .entered tG, peeks := [some tG] },
     { op := .enter 1, res := .entered tG, peeks := [some tG] },
     { op := .call 0 [1] [], res := .called [okG, okG, okG, okG], peeks := [some tG] },
     { op := .exit 1 false, res := .exited false, peeks := [some tG] },
     { op := .call 0 [1] [], res := .called [okG, okG, okG, okG], peeks := [some tG] }] = true := by
  decide
/-- the observer REJECTS what an `__exit__` that strips the helper attributes from the shared object produces: after
    the inner patch has ended, `.asynq` / `.asyncio` are gone from the object the outer patch still shows -/
example : spec env3
    [{ op := .construct 0 spOwn, res := .made, peeks := [tO0] },
     { op := .construct 1 spShared, res := .made, peeks := [tO0] },
     { op := .enter 0, res := .entered tG, peeks := [some tG] },
     { op := .enter 1, res := .entered tG, peeks := [some tG] },
     { op := .call 0 [1] [], res := .called [okG, okG, okG, okG], peeks := [some tG] },
     { op := .exit 1 false, res := .exited false, peeks := [some tG] },
     { op := .call 0 [1] [], res := .called [okG, noAttr, noAttr, noAttr], peeks := [some tG] }] = false := by
  decide

/-! ### a replacement that makes a synchronous asynq call (second audit, N2) -/
private def envM : Env := { targets := [{ kind := .asyncFn .func, host := .loc, via := .plain }] }
private def okF (pre : List Nat) : ConvRes := { out := .ok 5, calls := [{ callee := .given 0, args := pre ++ [1], kw := [] }] }
private def tP : Tok := { id := .made 0 0, tag := .pair }
/-- on a module function all four conventions agree for it (`C19_spec_holds_module_level` applies: no hypothesis on the
    history) ... -/
example : spec envM (run envM fakeOps) = true := C19_spec_holds_module_level envM fakeOps rfl (by decide)
example : ((run envM fakeOps).getD 2 default).res = .called (List.replicate 4 (okF [])) := by decide
/-- ... `C19_conventions_agree_partial` is not vacuous for such a body (hypothesis `hm` holds through a module) ... -/
example := C19_conventions_agree_partial 0 0 fakeSpec { spec := fakeSpec, new := maybeWrapNew 0 fakeSpec } Defaults.current rfl
  .plain [1] [] [] rfl (by decide) .sync .asyncio
/-- ... and so is the mode-insensitive corollary (a history with every other replacement kind on a method) -/
example : spec fakeEnv (run fakeEnv [.construct 0 { fakeSpec with behav := .ret 5 }, .enter 0, .call 0 [1] [], .exit 0 true]) = true :=
  C19_spec_holds_mode_insensitive fakeEnv _ rfl (by decide)
/-- through an instance all four agree as well -/
example : ((run fakeEnv fakeOps).getD 2 default).res = .called (List.replicate 4 (okF [instTok])) := by decide
/-- ... the observer REJECTS exactly that, ACCEPTS four agreeing outcomes (what the repaired code gives), and names an
    `.asyncio` that fails differently (or any other convention refused) "conventions" -/
example : specClause fakeEnv
    [{ op := .construct 0 fakeSpec, res := .made, peeks := [some { id := .orig 0, tag := .orig }] },
     { op := .enter 0, res := .entered tP, peeks := [some tP] },
     { op := .call 0 [1] [], res := .called (List.replicate 4 (okF [instTok])), peeks := [some tP] }] = "ok" := by decide
example : specClause fakeEnv
    [{ op := .construct 0 fakeSpec, res := .made, peeks := [some { id := .orig 0, tag := .orig }] },
     { op := .enter 0, res := .entered tP, peeks := [some tP] },
     { op := .call 0 [1] [], res := .called [okF [instTok], okF [instTok], okF [instTok], { okF [instTok] with out := .raised .typeError }],
       peeks := [some tP] }] = "conventions@call" := by decide
example : specClause fakeEnv
    [{ op := .construct 0 fakeSpec, res := .made, peeks := [some { id := .orig 0, tag := .orig }] },
     { op := .enter 0, res := .entered tP, peeks := [some tP] },
     { op := .call 0 [1] [], res := .called [okF [instTok], { okF [instTok] with out := .raised .runtimeError }, okF [instTok], okF [instTok]],
       peeks := [some tP] }] = "conventions@call" := by decide
/-- the same failure on a module function (what seeded change C19-9 produces) is named apart -/
example : specClause envM
    [{ op := .construct 0 fakeSpec, res := .made, peeks := [some { id := .orig 0, tag := .orig }] },
     { op := .enter 0, res := .entered tP, peeks := [some tP] },
     { op := .call 0 [1] [], res := .called [okF [], okF [], okF [], { okF [] with out := .raised .runtimeError }],
       peeks := [some tP] }] = "asyncio-mode-reaches-replacement/direct@call" := by decide

/-! ### shape and frame are demanded of every observation, also after taint (second audit, N11 / R5) -/
private def tO : Option Tok := some { id := .orig 0, tag := .orig }
private def tGv : Tok := { id := .given 0, tag := .asis }
private def cO (r : Repl) : PSpec :=
  { target := 0, repl := r, create := false, autospecNone := false, viaObject := false, behav := .ret 5 }
/-- REJECTED (the audit's W6): re-entering an open patcher "answers" with something `__enter__` cannot answer -/
example : specClause envM
    [{ op := .construct 0 (cO .callobj), res := .made, peeks := [tO] },
     { op := .enter 0, res := .entered tGv, peeks := [some tGv] },
     { op := .enter 0, res := .unit, peeks := [] },
     { op := .exit 0 false, res := .made, peeks := [none, none, none] }] = "shape@enter" := by decide
/-- REJECTED: after the taint, an `__exit__` that answers like a constructor / a store with the wrong number of hosts -/
example : specClause envM
    [{ op := .construct 0 (cO .callobj), res := .made, peeks := [tO] },
     { op := .enter 0, res := .entered tGv, peeks := [some tGv] },
     { op := .enter 0, res := .entered tGv, peeks := [some tGv] },
     { op := .exit 0 false, res := .made, peeks := [none, none, none] }] = "shape@exit" := by decide
/-- REJECTED: after the taint, a CALL (a look, a re-binding, a construction) that changes what a host holds -/
example : specClause envM
    [{ op := .construct 0 (cO .callobj), res := .made, peeks := [tO] },
     { op := .enter 0, res := .entered tGv, peeks := [some tGv] },
     { op := .enter 0, res := .entered tGv, peeks := [some tGv] },
     { op := .call 0 [] [], res := .called (List.replicate 4 { out := .ok 5, calls := [] }), peeks := [tO] }]
    = "frame@call" := by decide
example : specClause envM
    [{ op := .construct 0 (cO .callobj), res := .made, peeks := [tO] },
     { op := .enter 0, res := .entered tGv, peeks := [some tGv] },
     { op := .enter 0, res := .entered tGv, peeks := [some tGv] },
     { op := .peek, res := .unit, peeks := [none] }] = "frame@peek" := by decide
/-- ACCEPTED after the taint: what the model itself does with the doubly entered patcher (unittest.mock's business) -/
example : spec envM (run envM [.construct 0 (cO .callobj), .enter 0, .enter 0, .exit 0 false, .call 0 [] [], .exit 0 false,
    .peek]) = true := C19_spec_holds_module_level envM _ rfl (by decide)
/-- REJECTED (the audit's W10): a call that answers with no outcome at all - also on an UNPATCHED target -/
example : specClause envM [{ op := .call 0 [1] [], res := .called [], peeks := [tO] }] = "shape@call" := by decide
/-- ... and on a non-callable replacement -/
example : specClause envM
    [{ op := .construct 0 (cO .value), res := .made, peeks := [tO] },
     { op := .enter 0, res := .entered tGv, peeks := [some tGv] },
     { op := .call 0 [1] [], res := .called [{ out := .raised .typeError, calls := [] }], peeks := [some tGv] }]
    = "shape@call" := by decide

/-! ### further instantiations (second audit: theorems that had no example) -/
private def ptF : Patcher := { spec := cO .func, new := maybeWrapNew 3 (cO .func) }
/-- `C19_conventions_agree_partial` on a method-like access path with an ordinary (mode-insensitive) function -/
example : (conv (installedObj ptF 3 0) .inst .yield [1, 2] [(0, 9)]).calls =
    [{ callee := .given 3, args := instTok :: [1, 2], kw := [(0, 9)] }] :=
  (C19_conventions_agree_partial 3 0 (cO .func) ptF Defaults.current rfl .inst [1, 2] [(0, 9)] [instTok] (by decide) (by decide)
    .yield .asyncio).2.2
example : (installedObj ptF 3 0).tok = { id := .made 3 0, tag := .pair } :=
  C19_installed_object 3 0 (cO .func) ptF Defaults.current rfl
/-- `C19_store_tracks_innermost` on a disciplined, NOT closed history with two open patches of one target -/
private def h2open : List Op := [.construct 0 (cO .func), .construct 1 (cO .callobj), .enter 0, .start 1]
example : ((final envM h2open).store 0).map Obj.tok = some { id := .given 1, tag := .asis } := by decide
example : (final envM h2open).store 0 = expectAt envM.initStore (final envM h2open).stack 0 :=
  C19_store_tracks_innermost envM h2open (by decide) 0

/-! ### what `__enter__` installs is checked for EVERY replacement kind (audit item B4) -/
private def envA : Env := { targets := [{ kind := .asyncFn .func, host := .loc, via := .plain }] }
private def spA (r : Repl) (b : Behav := .ret 5) : PSpec :=
  { target := 0, repl := r, create := false, autospecNone := false, viaObject := false, behav := b }
private def obC (r : Repl) (b : Behav := .ret 5) : Obs := { op := .construct 0 (spA r b), res := .made, peeks := [tO0] }
private def obE (o : Tok) (store : Option Tok) : Obs := { op := .enter 0, res := .entered o, peeks := [store] }
private def obX (store : Option Tok) : Obs := { op := .exit 0 false, res := .exited false, peeks := [store] }
private def tOrig : Tok := { id := .orig 0, tag := .orig }
private def tGiven : Tok := { id := .given 0, tag := .asis }

/-- REJECTED: an inert patch - DEFAULT replacement, nothing installed, `__enter__` "returns" the original - even when
    every call inside happens to behave like the declared replacement -/
example : specClause envA
    [obC .default (.ret 7000), obE tOrig tO0,
     { op := .call 0 [1] [], res := .called (List.replicate 4 { out := .ok 7000, calls := [{ callee := .orig 0, args := [1], kw := [] }] }),
       peeks := [tO0] },
     obX tO0] = "installed-object@enter" := by decide
/-- REJECTED: the original left in place for a callable-object replacement, with no call inside the block -/
example : specClause envA [obC .callobj, obE tOrig tO0, obX tO0] = "installed-object@enter" := by decide
/-- REJECTED: a callable object installed as a copy / wrapper instead of as it is -/
example : specClause envA
    [obC .callobj, obE { id := .made 0 0, tag := .wrapper } (some { id := .made 0 0, tag := .wrapper }), obX tO0]
    = "installed-object@enter" := by decide
/-- REJECTED: a plain function installed raw (no `asynq(sync_fn=new)(new)` pair, hence no `.asynq`) -/
example : specClause envA [obC .func, obE tGiven (some tGiven), obX tO0] = "installed-object@enter" := by decide
/-- REJECTED: an object nobody made as the product of new_callable (callable or not) -/
example : specClause envA
    [obC (.newCallable false), obE { id := .unknown, tag := .asis } (some { id := .unknown, tag := .asis }), obX tO0]
    = "installed-object@enter" := by decide
example : specClause envA
    [obC (.newCallable true), obE { id := .unknown, tag := .asis } (some { id := .unknown, tag := .asis }), obX tO0]
    = "installed-object@enter" := by decide
/-- REJECTED: a bound method installed without the `Wrapper()`; a non-callable that is copied -/
example : specClause envA [obC .bound, obE tGiven (some tGiven), obX tO0] = "installed-object@enter" := by decide
example : specClause envA
    [obC .value, obE { id := .made 0 0, tag := .fresh } (some { id := .made 0 0, tag := .fresh }), obX tO0]
    = "noncallable-as-is@enter" := by decide
/-- REJECTED: the second use of a DEFAULT patcher shows the MagicMock of the first use again (a new one is due) -/
example : specClause envA
    [obC .default, obE { id := .made 0 0, tag := .mock } (some { id := .made 0 0, tag := .mock }), obX tO0,
     obE { id := .made 0 0, tag := .mock } (some { id := .made 0 0, tag := .mock }), obX tO0]
    = "installed-object@enter" := by decide
/-- ACCEPTED: the right object for each kind (the same histories with what the model installs) -/
example : ∀ r ∈ [Repl.default, .func, .cmobj, .smobj, .bound, .callobj, .sealed, .value, .newCallable true,
                 .newCallable false, .asyncFn .func, .asyncFn .cm, .asyncFn .sm],
    spec envA (run envA [.construct 0 (spA r), .enter 0, .call 0 [1] [(0, 2)], .exit 0 false, .enter 0, .exit 0 true])
      = true := by decide
/-- the same for `start()` -/
example : specClause envA
    [obC .callobj, { op := .start 0, res := .entered tOrig, peeks := [tO0] }] = "installed-object@start" := by decide

/-! ### an `@asynq()` function as the replacement (audit item A8) -/
private def spAF : PSpec := { sp 0 (.asyncFn .func) with behav := .ret 5 }
/-- on a method reached through an instance it is installed as it is and gets the INSTANCE in front, under all four
    conventions (a callable object in the same place gets nothing in front) -/
example : (run env2 [.construct 0 spAF, .enter 0, .call 0 [1] [(0, 2)], .exit 0 false]).map (·.res) =
    [.made, .entered { id := .given 0, tag := .asis },
     .called (List.replicate 4 { out := .ok 5, calls := [{ callee := .given 0, args := [instTok, 1], kw := [(0, 2)] }] }),
     .exited false] := by decide
example : ((run env2 [.construct 0 (sp 0 .callobj), .enter 0, .call 0 [1] []]).getD 2 default).res =
    .called (List.replicate 4 { out := .ok 5, calls := [{ callee := .given 0, args := [1], kw := [] }] }) := by decide
/-- the observer REJECTS an `@asynq()` replacement that is called without the instance -/
example : spec env2
    [{ op := .construct 0 spAF, res := .made, peeks := [tO0, tO1] },
     { op := .enter 0, res := .entered { id := .given 0, tag := .asis }, peeks := [some { id := .given 0, tag := .asis }, tO1] },
     { op := .call 0 [1] [],
       res := .called (List.replicate 4 { out := .ok 5, calls := [{ callee := .given 0, args := [1], kw := [] }] }),
       peeks := [some { id := .given 0, tag := .asis }, tO1] }] = false := by decide

/-! ### the family theorems and the name-resolution theorems are not vacuous (their hypotheses are satisfiable) -/
private def envB : Env := { targets := [{ kind := .asyncFn .func, host := .loc, via := .plain },
                                        { kind := .asyncFn .func, host := .inherited, via := .plain }] }
private def spB (t : Nat) (r : Repl) : PSpec :=
  { target := t, repl := r, create := false, autospecNone := false, viaObject := false, behav := .ret 5 }
/-- `C19_block_restores`: an outer patch is open; the block's body has calls and a nested start/stop; left by exception -/
private def preB : List Op := [.construct 0 (spB 0 .default), .construct 1 (spB 0 .func), .construct 2 (spB 0 .bound), .enter 0]
private def bodyB : List Op := [.call 0 [1] [], .start 2, .call 0 [] [], .stop 2]
example : (final envB (preB ++ .enter 1 :: bodyB ++ [.exit 1 true])).store = (final envB preB).store :=
  C19_block_restores envB preB bodyB 1 true (by decide) (by decide) (by decide) (by decide) (by decide)
/-- ... and the store it restores is not the initial one, nor the one inside the block -/
example : ((final envB preB).store 0).map Obj.tok = some { id := .made 0 0, tag := .mock } ∧
    ((final envB (preB ++ .enter 1 :: bodyB)).store 0).map Obj.tok = some { id := .made 1 0, tag := .pair } := by decide
/-- `C19_block_restores_across_rebind` -/
example : (final env2 ([.construct 0 (sp 0 .func)] ++ [.enter 0, .rebind 0 1, .exit 0 true])).store =
    (final env2 [.construct 0 (sp 0 .func)]).store :=
  C19_block_restores_across_rebind env2 [.construct 0 (sp 0 .func)] 0 0 1 true (by decide) (by decide) (by decide)
/-- `C19_restore_nested_blocks`: three blocks on two targets (one of them inherited), mixed exits -/
private def csB : List (Nat × PSpec) := [(0, spB 0 .default), (1, spB 0 .func), (2, spB 1 .bound)]
example : (final envB ((csB.map fun c => Op.construct c.1 c.2) ++ [.enter 0, .enter 2, .enter 1, .exit 1 true, .exit 2 false,
    .exit 0 true])).store = envB.initStore :=
  (C19_restore_nested_blocks envB csB [(0, true), (2, false), (1, true)] (by decide)).2
/-- `C19_restore_stopall`: two started patches of one target -/
example : (final envB ((csB.map fun c => Op.construct c.1 c.2) ++ [.start 1, .start 0] ++ [.stopall])).active = [] :=
  (C19_restore_stopall envB csB [1, 0] (by decide)).2.2
/-- `C19_path_resolved_at_every_enter` / `_start`, `C19_object_target_fixed`, `C19_calls_through_name_reach_replacement`:
    a state with a string patcher and a `patch.object` patcher on an inherited method, the name re-bound -/
private def stB : State := final envB [.construct 0 (spB 1 .func), .construct 1 { spB 1 .callobj with viaObject := true },
                                       .rebind 1 0]
private def ptB (p : Nat) : Patcher := (stB.patchers p).getD default
example : ((step envB stB (.enter 0)).1.store 0).map Obj.tok = some { id := .made 0 0, tag := .pair } :=
  congrArg (Option.map Obj.tok)
    (C19_path_resolved_at_every_enter envB stB 0 (ptB 0) (by decide) (by decide) (by decide) (by decide)).1
example : ((step envB stB (.start 0)).1.store 0).map Obj.tok = some { id := .made 0 0, tag := .pair } :=
  congrArg (Option.map Obj.tok)
    (C19_path_resolved_at_every_start envB stB 0 (ptB 0) (by decide) (by decide) (by decide) (by decide)).1
example : ((step envB stB (.enter 1)).1.store 1).map Obj.tok = some { id := .given 1, tag := .asis } :=
  congrArg (Option.map Obj.tok)
    (C19_object_target_fixed envB stB 1 (ptB 1) (by decide) (by decide) (by decide) (by decide)).1.1
example := C19_calls_through_name_reach_replacement envB stB 0 (ptB 0) (by decide) (by decide) (by decide) (by decide)
  [1, 2] [(0, 3)]
end

end AsynqModel.Mock

/-! ## `__enter__` that fails after the replacement is installed (family `enterfail`, small model `Mock.EnterFail`) -/
namespace AsynqModel.Mock.EnterFail

/-- for EVERY product of `new_callable` - a callable that takes attributes, a non-callable (installed as is), a
    callable that takes no attributes (`__enter__` fails; the `except` clause of `_PatchAsync.__enter__` undoes the patch
    first) - and every activation style, each with its own protocol for a failing `__enter__` (PEP 343 `with`,
    ExitStack of the decorators, `start()` registering only after success, `stop()` / `stopall()` seeing only registered
    patchers): if the block runs the product is in place, and the original is back afterwards.
    (A finite table: 3 products x 5 styles, closed by evaluation of the protocol model; the outcome is the same in all
    five styles - `C19_enter_failure_style_irrelevant` - so it has 3 distinct rows.) -/
theorem C19_enter_failure_restores (prod : Product) (style : Style) :
    spec (runCurrent prod style) = true ∧ (runCurrent prod style).after = Held.orig ∧
      ((runCurrent prod style).entered = true ↔ prod ≠ .rejecting) := by
  cases prod <;> cases style <;> decide

/-- **the `except` clause is necessary, in every style**: without it (`undo := false`, the code before 06c0ef8) an
    attribute-rejecting product stays installed for good - no style calls `__exit__` after a failed `__enter__`,
    `stop()` answers None, `stopall()` does not see the patcher - and the observer rejects the outcome -/
theorem C19_enter_failure_needs_undo (style : Style) :
    (run false .rejecting style).after = Held.product ∧ spec (run false .rejecting style) = false ∧
      specClause (run false .rejecting style) = "enter-failed-original-not-restored" := by
  cases style <;> decide

/-- ... and it changes nothing for products the wrappers can be attached to -/
theorem C19_enter_undo_only_matters_on_failure (prod : Product) (style : Style) (h : prod ≠ .rejecting) :
    run false prod style = run true prod style := by
  cases prod <;> cases style <;> first | rfl | exact absurd rfl h

/-- the OUTCOME does not depend on the activation style (the styles differ in their intermediate protocol states only):
    the table of `C19_enter_failure_restores` has 3 distinct rows (one per product), not 15 -/
theorem C19_enter_failure_style_irrelevant (undo : Bool) (prod : Product) (style style' : Style) :
    run undo prod style = run undo prod style' := by
  cases undo <;> cases prod <;> cases style <;> cases style' <;> rfl

/-! non-vacuity: the observer of this family accepts the good outcome, rejects a leak and rejects a block that ran
    without the product in place; the protocol model distinguishes the styles' intermediate states -/
example : spec { entered := true, during := some .product, after := .orig } = true := by decide
example : spec { entered := true, during := some .product, after := .product } = false := by decide
example : spec { entered := true, during := some .orig, after := .orig } = false := by decide
example : spec { entered := false, during := none, after := .orig } = true := by decide
example : runCurrent .rejecting .startStopall = { entered := false, during := none, after := .orig } := by decide
example : runCurrent .accepting .deco = { entered := true, during := some .product, after := .orig } := by decide

/-- round 5 - whatever the product's `__setattr__` raises: with the clause of mock_.py today (`except BaseException`
    = `catchAll`), for every product, every activation style and every class of exception the attribute assignment
    raises, the original is back when the statement is over.
    HOLDS BY CONSTRUCTION (third audit, section C): `exc` is inert - `runWith catchAll p e s = runCurrent p s` by `rfl`
    (example below) - so this is `C19_enter_failure_restores` re-stated; listed under BY_CONSTRUCTION in c19.py.  The
    claim with content (the real `except` clause catches the two documented classes, ValueError, a KeyError subclass,
    RuntimeError, a falsy exception, a BaseException-only one) is the harness family `enterfail` on the real code. -/
theorem C19_enter_failure_restores_any_exception (prod : Product) (exc : ExcClass) (style : Style) :
    spec (runWith catchAll prod exc style) = true ∧ (runWith catchAll prod exc style).after = Held.orig := by
  have h := C19_enter_failure_restores prod style
  exact ⟨h.1, h.2.1⟩

/-- ... and catching ALL classes is necessary: whatever `except` clause is used, if there is a class of exception it does
    not catch, an attribute-rejecting product that raises it stays installed for good, in every activation style
    (so narrowing the clause to `(AttributeError, TypeError)` or to `Exception` breaks C19).
    HOLDS BY CONSTRUCTION as well: after `rw [h]` it is `C19_enter_failure_needs_undo` (the model looks at `catches exc`,
    never at `exc`); BY_CONSTRUCTION in c19.py.  The seeded narrowings of the clause are caught by family `enterfail`. -/
theorem C19_enter_failure_catch_all_necessary (catches : ExcClass → Bool) (exc : ExcClass) (style : Style)
    (h : catches exc = false) :
    (runWith catches .rejecting exc style).after = Held.product ∧
      spec (runWith catches .rejecting exc style) = false ∧
      specClause (runWith catches .rejecting exc style) = "enter-failed-original-not-restored" := by
  unfold runWith
  rw [h]
  exact C19_enter_failure_needs_undo style

/-- `exc` is inert under the clause of today -/
example (p : Product) (e : ExcClass) (s : Style) : runWith catchAll p e s = runCurrent p s := rfl

/-- non-vacuity: the two narrower clauses each miss a class -/
example : catchDocumented .valueError = false ∧ catchException .baseOnly = false ∧
    spec (runWith catchDocumented .rejecting .valueError .withBlock) = false ∧
    spec (runWith catchException .rejecting .baseOnly .startStopall) = false ∧
    spec (runWith catchDocumented .rejecting .attrSub .deco) = true := by decide

end AsynqModel.Mock.EnterFail
