import AsynqModel.Lib.Mock
import AsynqModel.Proofs.Mock
import AsynqModel.Proofs.MockSim
import AsynqModel.Proofs.MockFam
/-!
# C19  asynq.mock.patch replaces every calling convention and always restores

Theorems about the model `AsynqModel.Mock` (asynq/mock_.py on top of the contract of unittest.mock._patch) for
every environment of targets, every patcher specification and every history of operations.
-/
namespace AsynqModel.Mock

/-- **restore**: after ANY well-nested history - nested and sequential patches of the same or of different
    targets, with-blocks / decorators left normally or by exception, start/stop, stopall, failing `__enter__`s,
    patchers that could not be constructed - every host holds exactly what it held before. -/
theorem C19_restore (env : Env) (ops : List Op) (h : wellNested env ops = true) :
    (final env ops).store = env.initStore := by
  simp only [wellNested, Bool.and_eq_true, List.isEmpty_iff] at h
  have hinv := inv_final env ops (init env) (inv_init env) h.1
  funext t
  have := hinv.store t
  rw [show finalFrom env (init env) ops = final env ops from rfl, h.2] at this
  exact this

/-- at every moment of a disciplined history each target holds the object installed by its innermost open
    patch, and the original (or nothing, for a created attribute) if it has none -/
theorem C19_store_tracks_innermost (env : Env) (ops : List Op) (h : disciplined env ops = true) (t : Nat) :
    (final env ops).store t = expectAt env.initStore (final env ops).stack t :=
  (inv_final env ops (init env) (inv_init env) h).store t

/-- **a block puts back what was there**: after any disciplined history `pre`, a `with patcher:` / decorated call
    whose `__enter__` succeeded and whose body closed what it opened restores the store it found - whether it is
    left normally or by exception (`exc` is arbitrary), and whatever else is patched around it -/
theorem C19_block_restores (env : Env) (pre body : List Op) (p : Nat) (exc : Bool)
    (hd : disciplined env (pre ++ .enter p :: body) = true)
    (hsk : (final env pre).skip = none)
    (hent : (final env (pre ++ [.enter p])).skip = none)
    (hbal : (final env (pre ++ .enter p :: body)).stack = (final env (pre ++ [.enter p])).stack)
    (hsk2 : (final env (pre ++ .enter p :: body)).skip = none) :
    (final env (pre ++ .enter p :: body ++ [.exit p exc])).store = (final env pre).store := by
  simp only [disciplined, disciplinedFrom_append, disciplinedFrom, Bool.and_eq_true, Bool.or_eq_true] at hd
  simp only [final, finalFrom_append, finalFrom, observe_fst] at *
  have hinv := inv_final env pre (init env) (inv_init env) hd.1
  have hopen : isOpen p (finalFrom env (init env) pre).stack = false := by
    cases hd.2.1 with
    | inl h => rw [hsk] at h; cases h
    | inr h => simpa [opOk] using h
  have := block_restores env _ p exc body hinv hsk hopen hent hd.2.2 hbal hsk2
  simp only [finalFrom, observe_fst, finalFrom_append] at this
  exact this.1

/-- **nested blocks**: construct any patchers, open blocks (with / decorator) of any duplicate-free list of them
    inside one another - on the same target or on different ones, to any depth - and leave them innermost first,
    each one normally or by exception: the history is well nested and every host holds what it held before.
    (`__enter__`s that fail - nothing to patch, patcher not constructed - skip their body as Python does.) -/
theorem C19_restore_nested_blocks (env : Env) (cs : List (Nat × PSpec)) (bs : List (Nat × Bool))
    (hnd : (bs.map Prod.fst).Nodup) :
    let ops := (cs.map fun c => Op.construct c.1 c.2) ++
      ((bs.map fun b => Op.enter b.1) ++ (bs.reverse.map fun b => Op.exit b.1 b.2))
    wellNested env ops = true ∧ (final env ops).store = env.initStore := by
  obtain ⟨h1, h2, h3⟩ := nested_blocks_restore env cs bs hnd
  exact ⟨by simp only [wellNested, enters, exits] at h2 h3 ⊢; simp only [h3, h2, List.isEmpty_nil, Bool.and_self], h1⟩

/-- **stopall**: construct any patchers, start any duplicate-free list of them (same or different targets, in any
    order; starts that fail are simply not active), call `patch.stopall()`: the history is well nested, nothing
    stays active and every host holds what it held before -/
theorem C19_restore_stopall (env : Env) (cs : List (Nat × PSpec)) (ps : List Nat) (hnd : ps.Nodup) :
    let ops := (cs.map fun c => Op.construct c.1 c.2) ++ ps.map Op.start ++ [Op.stopall]
    wellNested env ops = true ∧ (final env ops).store = env.initStore ∧ (final env ops).active = [] := by
  obtain ⟨h1, h2, h3, h4⟩ := starts_stopall env cs ps hnd
  exact ⟨by simp only [wellNested, h4, h2, List.isEmpty_nil, Bool.and_self], h1, h3⟩

/-- **conventions agree**: on the object a constructed patcher installs - DEFAULT mock, wrapped function /
    classmethod / staticmethod, wrapped bound method or attribute-rejecting callable, callable object, object made
    by new_callable - reached through a module, a class or an instance, every one of the four calling conventions
    runs the replacement exactly once with the descriptor prefix followed by the caller's arguments and keyword
    arguments, and hands back what the replacement returned or raised; hence all four agree -/
theorem C19_conventions_agree (p n : Nat) (s : PSpec) (pt : Patcher) (d : Defaults) (hc : construct d p s = .ok pt) (via : Via)
    (args : List Nat) (kw : List (Nat × Nat)) (pre : List Nat) (hpre : expectedPrefix s.repl via = some pre)
    (c c' : Conv) :
    conv (installedObj pt p n) via c args kw = conv (installedObj pt p n) via c' args kw ∧
    (conv (installedObj pt p n) via c args kw).out = s.behav.out ∧
    (conv (installedObj pt p n) via c args kw).calls =
      [{ callee := expectedCallee p s.repl (installedObj pt p n).tok, args := pre ++ args, kw := kw }] := by
  rw [construct_inv d p s pt hc, conv_installed p n s via c args kw pre hpre,
    conv_installed p n s via c' args kw pre hpre]
  exact ⟨rfl, rfl, rfl⟩

/-- `__enter__` on a target that exists (or with create=True) installs the object in the host, returns that very
    object, and has put the `.asynq` / `.asyncio` wrappers on it exactly when it is callable -/
theorem C19_enter_installs (env : Env) (st : State) (s : PSpec) (pt : Patcher) (p : Nat)
    (hc : construct env.defaults p s = .ok pt)
    (h : (!s.create && (getOriginal env st s.target).1.isNone) = false) :
    (enter env pt p st).1.store s.target = some (installedObj pt p (st.entries p)) ∧
    (enter env pt p st).2 = .entered (installedObj pt p (st.entries p)).tok ∧
    ((installedObj pt p (st.entries p)).attached = (installedObj pt p (st.entries p)).shape.callable) := by
  rw [construct_inv _ p s pt hc]
  refine ⟨?_, ?_, ?_⟩
  · unfold enter; simp [h, upd]
  · unfold enter; simp [h]
  · obtain ⟨t, repl, cr, an, vo, bh⟩ := s
    rcases repl with _ | _ | _ | _ | _ | _ | _ | _ | (_ | _) <;>
      simp [installedObj, maybeWrapNew, freshObj, Shape.callable, Repl.desc?, Repl.isCallable, Repl.acceptsAttrs]

/-- **non-callable as is**: a replacement that is not callable is handed to `_patch` unchanged, installed as that
    very object, and nothing is attached to it -/
theorem C19_noncallable_as_is (env : Env) (st : State) (s : PSpec) (pt : Patcher) (p : Nat)
    (hr : s.repl = .value) (hc : construct env.defaults p s = .ok pt)
    (h : (!s.create && (getOriginal env st s.target).1.isNone) = false) :
    (enter env pt p st).1.store s.target =
      some { id := .given p, shape := .value, attached := false, callee := .given p, behav := s.behav } ∧
    (enter env pt p st).2 = .entered { id := .given p, tag := .asis } := by
  obtain ⟨h1, h2, _⟩ := C19_enter_installs env st s pt p hc h
  rw [h1, h2, construct_inv _ p s pt hc]
  simp [installedObj, maybeWrapNew, hr, Repl.desc?, Repl.isCallable, Shape.callable, Obj.tok]

/-- `__exit__` of an entered patcher never swallows the exception that ends the block, and forgets its saved state
    (a second `__exit__` is an error, not a second restore) -/
theorem C19_exception_propagates (env : Env) (st : State) (pt : Patcher) (p : Nat) (exc : Bool)
    (sv : Option Obj × Bool) (h : st.saved p = some sv) :
    (exit env pt p exc st).2 = .exited exc ∧ (exit env pt p exc st).1.saved p = none ∧
    (exit env pt p exc (exit env pt p exc st).1).2 = .raised .attributeError := by
  unfold exit
  simp [h, upd]

/-- **C19 as a whole** (for histories that do not use new_callable together with asynq's default autospec - see
    the counterexample below): for every environment and every history of operations, well nested or not, the
    observations of the model are accepted by the observer `spec` - the same Boolean function the check evaluates
    on the observations of the real implementation. -/
theorem C19_spec_holds_partial (env : Env) (ops : List Op)
    (hc : ops.all (Op.constructible env.defaults) = true) :
    spec env (run env ops) = true := by
  obtain ⟨w', h⟩ := watchRun_ok env ops hc watchInit (init env) (Or.inr (rel_init env))
  simp [spec, run, h]

/-- once both signatures default `autospec=None` (the harness reads the defaults from the code on every run), the
    hypothesis above is true of every history: C19 holds without exception -/
theorem C19_spec_holds_if_autospec_defaults_none (env : Env) (ops : List Op)
    (h1 : env.defaults.patchAutospecNone = true) (h2 : env.defaults.objectAutospecNone = true) :
    spec env (run env ops) = true := by
  apply C19_spec_holds_partial
  rw [List.all_eq_true]
  intro op _
  cases op <;> simp [Op.constructible, PSpec.constructible, PSpec.autospecIsNone, h1, h2]

/-- **genuine defect**: `asynq.mock.patch(target, new_callable=f)` cannot even be constructed, because
    `patch` / `patch.object` default `autospec=False` where unittest.mock expects `None`, and `_patch.__init__`
    rejects `new_callable` together with any `autospec is not None`.  The property (which lists new_callable among
    the replacement kinds) is false of the code; witness: one module function, one such patcher. -/
theorem C19_new_callable_counterexample :
    spec { targets := [{ kind := .asyncFn .func, host := .loc, via := .plain }] }
      (run { targets := [{ kind := .asyncFn .func, host := .loc, via := .plain }] }
        [.construct 0 { target := 0, repl := .newCallable true, create := false, autospecNone := false, viaObject := false,
                        behav := .ret 1 }])
      = false := by
  decide

/-! non-vacuity -/
section
private def env1 : Env := { targets := [{ kind := .asyncFn .func, host := .loc, via := .inst },
                                        { kind := .attr, host := .absent, via := .plain }] }
private def sp (t : Nat) (r : Repl) (create : Bool := false) : PSpec :=
  { target := t, repl := r, create := create, autospecNone := true, viaObject := false, behav := .ret 5 }
private def hist1 : List Op :=
  [.construct 0 (sp 0 .default), .construct 1 (sp 0 .func), .construct 2 (sp 1 .bound true), .construct 3 (sp 1 .value),
   .enter 0, .call 0 [1] [(0, 2)], .start 1, .call 0 [3] [], .enter 2, .enter 3, .exit 3 false, .exit 2 true, .stop 1,
   .exit 0 true, .start 2, .start 1, .stopall, .call 0 [] []]

/-- a history with nested patches of one target (default mock, then a function on top), a created attribute with a
    non-callable patched over a wrapped bound method, exits by exception, LIFO stop, stopall: well nested, restored,
    accepted by the observer -/
example : wellNested env1 hist1 = true := by decide
example : spec env1 (run env1 hist1) = true := by decide
example : ((final env1 hist1).store 0).map Obj.tok = some { id := .orig 0, tag := .orig } := by decide
/-- inside the patches the function replacement is reached with the instance in front -/
example : ((run env1 hist1).getD 7 default).res =
    .called (List.replicate 4 { out := .ok 5, calls := [{ callee := .given 1, args := [instTok, 3], kw := [] }] }) := by
  decide
/-- ill-nested: stopping the outer of two patches of one target first leaves the outer replacement behind -/
example : ((final env1 [.construct 0 (sp 0 .default), .construct 1 (sp 0 .func), .start 0, .start 1, .stop 0, .stop 1]).store 0).map
    Obj.tok = some { id := .made 0 0, tag := .mock } := by decide
example : wellNested env1 [.construct 0 (sp 0 .default), .construct 1 (sp 0 .func), .start 0, .start 1, .stop 0, .stop 1]
    = false := by decide
/-- the observer is not trivially true: it rejects a history whose with-block does not restore the original -/
example : spec env1
    [{ op := .construct 0 (sp 0 .callobj), res := .made, peeks := [some { id := .orig 0, tag := .orig }, none] },
     { op := .enter 0, res := .entered { id := .given 0, tag := .asis },
       peeks := [some { id := .given 0, tag := .asis }, none] },
     { op := .exit 0 false, res := .exited false, peeks := [some { id := .given 0, tag := .asis }, none] }] = false := by
  decide
/-- ... and one in which `.asyncio(...)` loses the keyword arguments -/
example : spec env1
    [{ op := .construct 0 (sp 0 .callobj), res := .made, peeks := [some { id := .orig 0, tag := .orig }, none] },
     { op := .enter 0, res := .entered { id := .given 0, tag := .asis },
       peeks := [some { id := .given 0, tag := .asis }, none] },
     { op := .call 0 [1] [(0, 2)],
       res := .called [{ out := .ok 5, calls := [{ callee := .given 0, args := [1], kw := [(0, 2)] }] },
                       { out := .ok 5, calls := [{ callee := .given 0, args := [1], kw := [(0, 2)] }] },
                       { out := .ok 5, calls := [{ callee := .given 0, args := [1], kw := [(0, 2)] }] },
                       { out := .ok 5, calls := [{ callee := .given 0, args := [1], kw := [] }] }],
       peeks := [some { id := .given 0, tag := .asis }, none] }] = false := by
  decide
end

end AsynqModel.Mock
