import AsynqModel.Lib.Batching
import AsynqModel.Proofs.Batching8
import AsynqModel.Proofs.Batching9
/-!
# C11  Batch lifecycle: pending to flushed or cancelled, once; no item left pending

Theorems about the model `AsynqModel.Batching` for both batch kinds (harness subclass of BatchBase with scripted
flush bodies; built-in DebugBatch), both settings of the debug option KEEP_DEPENDENCIES, **every** list of flush
scripts and **every** history of operations - where every `add` may give the new item completion handlers
(`spawn`: issue a new request; `link`: complete a pending sibling with a value or an error, which runs the
sibling's handlers in turn).

The per-operation theorems are stated for every snapshot `s` that satisfies the decidable invariant `Good s`;
`C11_no_item_left_pending` says that every reachable snapshot (`finalState scripts (init k keep) ops`, any `ops`)
does, and `C11_invariant_needed` exhibits a snapshot outside the invariant where they fail.

What the model cannot say (it has no such channel; see `harness/checks/c11.py` ASSUMPTIONS): hooks of the subclass
other than `_flush` (`_cancel`, `_try_switch_active_batch`) that raise, and code that re-enters the batch it is called
from.  "`flush()` / `cancel()` return normally" is therefore true of the model by construction; the content of these
two clauses is the correspondence check (the harness records an exception of the real call as the operation's result
and the observer's clauses `flush-total` / `cancel-total` reject it).
-/
namespace AsynqModel.Batching

/-- **C11 as a whole**: for both kinds, all flush scripts and all histories, the observations of the model are
    accepted by the observer `spec` - the same Boolean function the check evaluates on the observations of the
    real implementation. -/
theorem C11_spec_holds (k : Kind) (keep : Bool) (scripts : List Script) (ops : List Op) :
    spec k (run scripts (init k keep) ops) keep = true := by
  simp [spec, watchRun_ok scripts ops (init k keep) (good_init k keep)]

/-- **no item left pending**: in every reachable snapshot the active batch exists and is pending, every item of a
    finished batch is complete, every item of a pending batch is listed in its `items`, and no flush body ran
    for a pending batch or more than once for any batch -/
theorem C11_no_item_left_pending (k : Kind) (keep : Bool) (scripts : List Script) (ops : List Op) :
    Good (finalState scripts (init k keep) ops) :=
  good_final scripts ops (init k keep) (good_init k keep)

theorem observe_snd (scripts : List Script) (s : St) (op : Op) :
    (observe scripts s op).2 = ⟨op, (step scripts s op).2.1, (step scripts s op).2.2, (step scripts s op).1⟩ := rfl

/-- **the inductive step, for every snapshot inside the invariant** (not only the reachable ones): whatever the
    operation, the observer accepts the model's observation of it, and the invariant holds again afterwards -/
theorem C11_step_accepted (scripts : List Script) (s : St) (hg : Good s) (op : Op) :
    specStep false s (observe scripts s op).2 = none ∧ Good (step scripts s op).1 :=
  ⟨step_ok scripts s hg op, good_of_specStep (step_ok (rx := false) scripts s hg op)⟩

/-- **once**: any operation keeps the outcome of every finished batch (pending → flushed | cancelled happens once),
    the flush body of every batch has run at most once, and never for a pending batch -/
theorem C11_once (scripts : List Script) (s : St) (hg : Good s) (op : Op) (b : Nat) :
    s.runs b ≤ 1 ∧ (s.bout b = none → s.runs b = 0) ∧
      ∀ o, s.bout b = some o → (step scripts s op).1.bout b = some o := by
  have ⟨_, _, _, _, _, _, hE, _⟩ := specStep_unpack (step_ok (rx := false) scripts s hg op)
  by_cases hb : b < s.batches.length
  · have ⟨_, r1, r2⟩ := hg.2.2.2 b hb
    refine ⟨r1, r2, fun o ho => ?_⟩
    have := (hE.2.2.2.1 b hb).1 (by simp [ho])
    rw [← ho]; exact this
  · have e : s.batches[b]? = none := List.getElem?_eq_none_iff.mpr (Nat.le_of_not_lt hb)
    refine ⟨by simp [St.runs, e], fun _ => by simp [St.runs, e], fun o ho => ?_⟩
    simp [St.bout, e] at ho

/-- **an operation that has to flush a pending batch runs its body exactly once, and the body decides the outcome**
    (`fate s op = .flushed b clear`: `flush()` of pending b; `item.value()` of a pending item of b; `b.value()`,
    `b.error()` of pending b).  See `FlushedOk`: the batch is finished; user subclass - the body's start is the first
    event, there is no other start, the run counter is 1, the body ended exactly once, raising `r` or returning
    (`r = none`) with the batch still pending, and the batch's outcome is `bodyOutc r` (None, or the error the body
    raised: **never an outcome nobody produced**); DebugBatch - outcome None or FutureIsAlreadyComputed;
    the batch's item list is emptied iff the operation went through `flush()` and KEEP_DEPENDENCIES is off;
    exactly one fresh batch appears iff b held the active slot -/
theorem C11_flushed (scripts : List Script) (s : St) (hg : Good s) (op : Op) (b : Nat) (clear : Bool)
    (hf : fate s op = .flushed b clear) :
    FlushedOk s b clear (step scripts s op).1 (step scripts s op).2.2 := by
  have ⟨_, h2, _⟩ := specStep_unpack (step_ok (rx := false) scripts s hg op)
  exact flushedOk_of_fateClause h2 (by simpa [observe_snd] using hf)

/-- **flush**: `flush()` of a pending batch returns normally (by construction of the model, see the header) and
    flushes the batch in the sense of `C11_flushed`, with `clear = true` -/
theorem C11_flush (scripts : List Script) (s : St) (hg : Good s) (b : Nat) (hb : b < s.batches.length)
    (hp : s.bout b = none) :
    (step scripts s (.flush b)).2.1 = .unit ∧
    FlushedOk s b true (step scripts s (.flush b)).1 (step scripts s (.flush b)).2.2 := by
  refine ⟨?_, C11_flushed scripts s hg _ b true (fate_flush hb hp)⟩
  have e : s.batches[b]? = some s.batches[b] := List.getElem?_eq_getElem hb
  simp only [St.bout, e, Option.bind_some] at hp
  simp [step, e, hp]

theorem isSome_of_ne_none {α} {o : Option α} (h : ¬ o = none) : o.isSome = true := by
  cases o <;> simp_all

/-- **item.value() flushes**: asking an existing item for its value leaves the item complete and returns / raises
    exactly its outcome; if the item was pending, its batch was pending too and the call flushed it like `flush()`
    does (`C11_flushed`: body run once, outcome decided by the body - in particular the batch is NOT cancelled) -/
theorem C11_item_value_flushes (scripts : List Script) (s : St) (hg : Good s) (i : Nat) (hi : i < s.items.length) :
    let post := (step scripts s (.itemValue i)).1
    (post.iout i).isSome ∧ (step scripts s (.itemValue i)).2.1 = readValue (post.iout i) ∧
    (s.iout i = none →
      s.bout (s.ibatch i) = none ∧ FlushedOk s (s.ibatch i) true post (step scripts s (.itemValue i)).2.2) := by
  intro post
  have ⟨h1, _⟩ := specStep_unpack (step_ok (rx := false) scripts s hg (.itemValue i))
  rw [observe_snd] at h1
  have hni : ¬ s.items.length ≤ i := by omega
  simp only [opClause, hni, if_false] at h1
  split at h1
  · cases h1
  · rename_i r1
    split at h1
    · cases h1
    · rename_i r2
      refine ⟨isSome_of_ne_none (by simpa using r1), by simpa using r2, fun hn => ?_⟩
      have ⟨gb, _, gz⟩ := hg.2.2.1 i hi
      have hbp : s.bout (s.ibatch i) = none := by
        cases hx : s.bout (s.ibatch i) with
        | none => rfl
        | some y =>
          have := gz (by rw [hx]; rfl)
          rw [hn] at this; cases this
      refine ⟨hbp, C11_flushed scripts s hg _ _ true ?_⟩
      simp [fate, St.pendingBatch, hi, hn, gb, hbp]

/-- **batch.value() / batch.error() flush**: on a pending batch they run the flush body once (`C11_flushed`, the
    item list is kept) and return / raise exactly the batch's outcome -/
theorem C11_batch_value_flushes (scripts : List Script) (s : St) (hg : Good s) (b : Nat) (hb : b < s.batches.length)
    (hp : s.bout b = none) :
    FlushedOk s b false (step scripts s (.batchValue b)).1 (step scripts s (.batchValue b)).2.2 ∧
    (step scripts s (.batchValue b)).2.1 = readValue ((step scripts s (.batchValue b)).1.bout b) ∧
    FlushedOk s b false (step scripts s (.batchError b)).1 (step scripts s (.batchError b)).2.2 ∧
    (step scripts s (.batchError b)).2.1 = readError ((step scripts s (.batchError b)).1.bout b) := by
  have e : s.batches[b]? = some s.batches[b] := List.getElem?_eq_getElem hb
  have hp' := hp
  simp only [St.bout, e, Option.bind_some] at hp'
  refine ⟨C11_flushed scripts s hg _ b false (by simp [fate, St.pendingBatch, hb, hp]), ?_,
    C11_flushed scripts s hg _ b false (by simp [fate, St.pendingBatch, hb, hp]), ?_⟩
  · simp [step, e, hp']
  · simp [step, e, hp']

/-- **cancel**: `cancel(error?)` of an existing batch returns normally (by construction of the model, see the
    header); on a finished batch it changes nothing and logs nothing (any state); on a pending batch it finishes the
    batch with the given error (or BatchCancelledError), the flush body does not run (run counter 0, no body event),
    the item list is kept, and exactly one fresh batch appears iff the batch held the active slot -/
theorem C11_cancel (scripts : List Script) (s : St) (hg : Good s) (b : Nat) (x : Option Nat)
    (hb : b < s.batches.length) :
    (step scripts s (.cancel b x)).2.1 = .unit ∧
    ((s.bout b).isSome → step scripts s (.cancel b x) = (s, .unit, [])) ∧
    (s.bout b = none →
      CancelledOk s b (errOfCancel x) (step scripts s (.cancel b x)).1 (step scripts s (.cancel b x)).2.2) := by
  have e : s.batches[b]? = some s.batches[b] := List.getElem?_eq_getElem hb
  refine ⟨?_, ?_, ?_⟩
  · simp only [step, e]; split <;> rfl
  · intro h
    simp only [St.bout, e, Option.bind_some] at h
    simp [step, e, h]
  · intro hp
    have ⟨_, h2, _⟩ := specStep_unpack (step_ok (rx := false) scripts s hg (.cancel b x))
    exact cancelledOk_of_fateClause h2 (by simp [observe_snd, fate, St.pendingBatch, hb, hp])

/-- **an operation that has no pending batch to finish** (queries, reads of finished things, a second flush, a
    cancel of a finished batch, add) logs nothing but item creations, creates no batch and leaves the slot alone -/
theorem C11_quiet (scripts : List Script) (s : St) (hg : Good s) (op : Op) (hf : fate s op = .quiet) :
    (step scripts s op).2.2.all Ev.isCreated = true ∧ slotOk s (step scripts s op).1 none = true := by
  have ⟨_, h2, _⟩ := specStep_unpack (step_ok (rx := false) scripts s hg op)
  exact quiet_of_fateClause h2 (by simpa [observe_snd] using hf)

/-- **second flush** (holds in any state, by one unfolding of the model: the content is the correspondence):
    `flush()` of a finished batch raises BatchingError, changes nothing and logs nothing -/
theorem C11_second_flush_error (scripts : List Script) (s : St) (b : Nat) (h : (s.bout b).isSome) :
    step scripts s (.flush b) = (s, .raised .batching, []) := by
  simp only [step]
  cases e : s.batches[b]? with
  | none => simp [St.bout, e] at h
  | some B =>
    simp only [St.bout, e, Option.bind_some] at h
    simp [h]

/-- **no add after finish**: constructing an item on a finished batch raises the constructor's AssertionError and
    changes nothing (any state, by unfolding); a request through the service always succeeds and joins the active
    batch, because the active batch is never a finished one (this half needs the invariant) -/
theorem C11_no_add_after_finish (scripts : List Script) (s : St) (hg : Good s) (b p : Nat) (sp : Option Nat)
    (lk : Option Link) :
    ((s.bout b).isSome → step scripts s (.addTo b p) = (s, .raised .assertAdd, [])) ∧
    step scripts s (.add p sp lk) = (s.pushItem s.active p sp lk, .created s.items.length,
                                  [.created s.items.length s.active none]) := by
  refine ⟨fun h => ?_, ?_⟩
  · simp only [step]
    cases e : s.batches[b]? with
    | none => simp [St.bout, e] at h
    | some B => simp [newItemOn_finished h]
  · simp [step, newItemOn_pending hg.1 hg.2.1]

/-- **every change is logged exactly once** (`CountsOk`): whatever the operation, an item that went from pending to
    complete has exactly one completion event (its on_computed fired once - never twice), every other item none;
    every new item has exactly one creation event; a batch that went from pending to finished has been announced
    exactly once, every other batch not at all (so at most one batch finishes per operation) -/
theorem C11_every_change_logged_once (scripts : List Script) (s : St) (hg : Good s) (op : Op) :
    CountsOk s (step scripts s op).1 (step scripts s op).2.2 := by
  have ⟨_, _, _, _, _, hc, _⟩ := specStep_unpack (step_ok (rx := false) scripts s hg op)
  exact hc

theorem mem_of_announceCount {evs : List Ev} {b : Nat} (h : announceCount evs b = 1) :
    ∃ pend act, Ev.announce b pend act ∈ evs := by
  have hpos : 0 < announceCount evs b := by omega
  obtain ⟨ev, hev, hp⟩ := List.countP_pos_iff.mp hpos
  cases ev with
  | announce c pend act =>
    have : c = b := by simpa using hp
    subst this
    exact ⟨pend, act, hev⟩
  | _ => simp at hp

theorem mem_of_itemCount {evs : List Ev} {i : Nat} (h : itemCount evs i = 1) :
    ∃ o bb, Ev.item i o bb ∈ evs := by
  have hpos : 0 < itemCount evs i := by omega
  obtain ⟨ev, hev, hp⟩ := List.countP_pos_iff.mp hpos
  cases ev with
  | item j o bb =>
    have : j = i := by simpa using hp
    subst this
    exact ⟨o, bb, hev⟩
  | _ => simp at hp

/-- **items before announce**: a batch that an operation finishes IS announced (exactly one on_computed, see
    `C11_every_change_logged_once`), and whenever a batch announces its completion it was pending before, is finished
    now, is not the active batch, at the moment of the announcement none of its items was pending, no item of it is
    completed after the announcement, and all its items are complete afterwards; an item completed by the library (not
    by a script statement or a handler) holds the batch's error, else the "not set" AssertionError (user subclass,
    batch flushed) resp. - only in an operation that runs the flush body - its `_result` (DebugBatch); every item that
    the operation completes has a completion event carrying exactly its outcome -/
theorem C11_items_before_announce (scripts : List Script) (s : St) (hg : Good s) (op : Op) :
    let post := (step scripts s op).1
    let evs := (step scripts s op).2.2
    (∀ b, b < post.batches.length → s.bout b = none → (post.bout b).isSome → ∃ pend act, .announce b pend act ∈ evs) ∧
    (∀ b pend act, .announce b pend act ∈ evs →
        pend = [] ∧ act ≠ b ∧ s.bout b = none ∧ (post.bout b).isSome ∧
        ∀ i, i < post.items.length → post.ibatch i = b → (post.iout i).isSome) ∧
    afterAnnounceOk post evs = true ∧
    (∀ i o, .item i o false ∈ evs →
        post.iout i = some o ∧ s.iout i = none ∧
        itemRule post.kind (fate s op).bodyRuns o (post.bout (post.ibatch i)) (post.payload i) = true) ∧
    (∀ i, i < post.items.length → s.iout i = none → (post.iout i).isSome → ∃ bb, .item i ((post.iout i).getD (.val 0)) bb ∈ evs) ∧
    (evs.filter Ev.isAnnounce).length ≤ 1 := by
  intro post evs
  have ⟨_, _, h2, h3, ha, hc, _, h5⟩ := specStep_unpack (step_ok (rx := false) scripts s hg op)
  rw [observe_snd] at h2 h3 ha hc h5
  refine ⟨fun b hb hn hs => ?_, fun b pend act hmem => ?_, ha, fun i o hmem => ?_, fun i hi hn hs => ?_, h3⟩
  · have := hc.2 b hb
    rw [if_pos ⟨hn, hs⟩] at this
    exact mem_of_announceCount this
  · have hc := h2 _ hmem
    simp only [evClause] at hc
    split at hc
    · cases hc
    · rename_i r1
      split at hc
      · cases hc
      · rename_i r2
        split at hc
        · cases hc
        · rename_i r3
          split at hc
          · cases hc
          · rename_i r4
            have r4' := isSome_of_ne_none (by simpa using r4)
            refine ⟨by simpa using r1, r2, by simpa using r3, r4', fun i hi hb => ?_⟩
            have := (h5.2.2.1 i hi).2.2
            rw [hb] at this
            exact this r4'
  · have hc := h2 _ hmem
    simp only [evClause] at hc
    split at hc
    · cases hc
    · rename_i r1
      split at hc
      · cases hc
      · rename_i r2
        split at hc
        · cases hc
        · rename_i r3
          exact ⟨by simpa using r1, by simpa using r2, by simpa using r3⟩
  · have := (hc.1 i hi).1
    rw [if_pos ⟨hn, hs⟩] at this
    obtain ⟨o, bb, hmem⟩ := mem_of_itemCount this
    have hcl := h2 _ hmem
    simp only [evClause] at hcl
    split at hcl
    · cases hcl
    · rename_i r1
      have r1' : post.iout i = some o := by simpa using r1
      exact ⟨bb, by rw [r1']; exact hmem⟩

/-- **fresh batch during flush**: while the flush body of a batch runs the batch is not the active one (and that
    body had not run before and the batch was pending); every request issued during a flush or from an item's
    completion callback joins a pending batch different from the one being finished - the active one; such a
    request never fails.  (How many batches exist afterwards: `slot` in `FlushedOk` / `CancelledOk`, `C11_quiet`.) -/
theorem C11_fresh_batch_during_flush (scripts : List Script) (s : St) (hg : Good s) (op : Op) :
    let post := (step scripts s op).1
    let evs := (step scripts s op).2.2
    (∀ b act, .body b act ∈ evs → act ≠ b ∧ act = post.active ∧ s.bout b = none ∧ s.runs b = 0) ∧
    (∀ i b src, .created i b (some src) ∈ evs →
        b ≠ src ∧ b = post.active ∧ post.bout b = none ∧ post.ibatch i = b ∧ s.items.length ≤ i) ∧
    (∀ src, .createFail src ∉ evs) := by
  intro post evs
  have ⟨_, _, h2, _⟩ := specStep_unpack (step_ok (rx := false) scripts s hg op)
  rw [observe_snd] at h2
  refine ⟨fun b act hmem => ?_, fun i b src hmem => ?_, fun src hmem => ?_⟩
  · have hc := h2 _ hmem
    simp only [evClause] at hc
    split at hc
    · cases hc
    · rename_i r1
      split at hc
      · cases hc
      · rename_i r2
        split at hc
        · cases hc
        · rename_i r3
          split at hc
          · cases hc
          · rename_i r4
            exact ⟨r1, by simpa using r2, by simpa using r3, by simpa using r4⟩
  · have hc := h2 _ hmem
    simp only [evClause] at hc
    split at hc
    · cases hc
    · rename_i r1
      split at hc
      · cases hc
      · rename_i r2
        split at hc
        · cases hc
        · rename_i r3
          split at hc
          · cases hc
          · rename_i r4
            split at hc
            · cases hc
            · rename_i r5
              refine ⟨fun e => r4 (by rw [e]), ?_, by simpa using r3, by simpa using r2, by omega⟩
              exact Classical.byContradiction fun hne => r5 ⟨rfl, hne⟩
  · have hc := h2 _ hmem
    simp [evClause] at hc

/-- **an outcome set by the flush body or by a sibling's completion handler is kept**: whenever, during an operation,
    an item is completed by harness code (a script statement, or the `link` handler of a sibling that the library -
    or anybody - has just completed), the item was pending before the operation and holds exactly that outcome after
    it: the library neither completes it a second time (which would raise out of `cancel()` / abort `_computed` and
    leave the remaining items pending) nor replaces what was set -/
theorem C11_set_outcome_kept (scripts : List Script) (s : St) (hg : Good s) (op : Op) :
    let post := (step scripts s op).1
    let evs := (step scripts s op).2.2
    ∀ i o, .item i o true ∈ evs → post.iout i = some o ∧ s.iout i = none ∧ i < post.items.length := by
  intro post evs i o hmem
  have ⟨_, _, h2, _⟩ := specStep_unpack (step_ok (rx := false) scripts s hg op)
  rw [observe_snd] at h2
  have hc := h2 _ hmem
  simp only [evClause] at hc
  split at hc
  · cases hc
  · rename_i r1
    split at hc
    · cases hc
    · rename_i r2
      have r1' : post.iout i = some o := by simpa using r1
      exact ⟨r1', by simpa using r2, iout_isSome_lt (by rw [r1']; rfl)⟩

/-- **the nesting bound of the model is never reached**: `completeItem` follows a chain of `link` handlers through
    structural recursion on a bound; the model passes the number of items.  For a pending item, every bound that is at
    least the number of items gives the same result - a chain is never cut short by the bound, so the theorems above
    speak about handler chains of every length. -/
theorem completeItem_fuel_enough (f : Nat) (s : St) (i : Nat) (o : Outc) (bb : Bool) (hn : s.iout i = none)
    (hf : s.items.length ≤ f) : completeItem f s i o bb = completeItem s.items.length s i o bb :=
  completeItem_fuel_irrelevant f s.items.length s i o bb hn
    (Nat.le_trans (linkedPending_le s) hf) (linkedPending_le s)

/-! ## the invariant is needed

A snapshot outside `Good` (an item pending although its batch is finished - what a `_computed` that forgets an item
leaves behind): `item.value()` returns the internal marker instead of a value, the item stays pending, and the
observer rejects the observation.  So the hypothesis `Good s` of the theorems above cannot be dropped, and the
theorems say something about the reachable snapshots only because `C11_no_item_left_pending` holds. -/
def strayState : St :=
  { kind := .user, active := 1, batches := [⟨some (.val 0), [0], 1⟩, ⟨none, [], 0⟩], items := [⟨0, 1, none, none, none⟩] }

theorem C11_invariant_needed :
    ¬ Good strayState ∧ (step [] strayState (.itemValue 0)).2.1 = .marker ∧
    (step [] strayState (.itemValue 0)).1.iout 0 = none ∧
    specStep false strayState (observe [] strayState (.itemValue 0)).2 = some "item-value-completes" := by
  decide

/-! ## non-vacuity

A concrete history on a user batch whose flush body sets item 0, issues a new request and then raises a
BaseException: the second item gets the flush error from `_computed`, item 1's callback issues another request,
both requests join the fresh batch 1; then a second flush, a cancel and an add on the finished batch. -/
def demoScripts : List Script := [[.setValue 0 1, .newItem 4, .raise 5]]
def demoOps : List Op :=
  [.add 1 none none, .add 2 (some 9) none, .flush 0, .itemValue 1, .flush 0, .cancel 0 none, .addTo 0 3, .batchError 0]

example : spec .user (run demoScripts (init .user) demoOps) = true := by decide

/-- the third operation (the flush) really produces the events the clauses talk about -/
example : ((run demoScripts (init .user) demoOps)[2]?).map (·.evs) = some
    [.body 0 1, .item 0 (.val 1) true, .created 2 1 (some 0), .bodyEnd 0 (some (.user 5)) none,
     .item 1 (.err (.user 5)) false, .created 3 1 (some 0), .announce 0 [] 1] := by decide

example : ((run demoScripts (init .user) demoOps).map (·.res)) =
    [.created 0, .created 1, .unit, .raised (.user 5), .raised .batching, .unit, .raised .assertAdd,
     .errIs (some (.user 5))] := by decide

/-- the hypotheses of `C11_flushed` are met by the flush above (`fate` says the batch has to be flushed) ... -/
example : fate (finalState demoScripts (init .user) (demoOps.take 2)) (.flush 0) = .flushed 0 true := by decide
/-- ... by `item.value()` of a pending item, `batch.value()` of a pending batch; `cancel` has to cancel -/
example : fate (finalState demoScripts (init .user) (demoOps.take 2)) (.itemValue 1) = .flushed 0 true := by decide
example : fate (finalState demoScripts (init .user) (demoOps.take 2)) (.batchValue 0) = .flushed 0 false := by decide
example : fate (finalState demoScripts (init .user) (demoOps.take 2)) (.cancel 0 (some 3)) = .cancelled 0 (.user 3) := by
  decide
example : fate (finalState demoScripts (init .user) (demoOps.take 3)) (.flush 0) = .quiet := by decide

/-- DebugBatch: flush sets every item to its result; a cancelled batch gives its items the cancellation error -/
example : ((run [] (init .debug) [.add 3 (some 7) none, .flush 0, .add 4 none none, .cancel 1 none, .itemValue 2]).map (·.res)) =
    [.created 0, .unit, .created 2, .unit, .raised .cancelled] := by decide

/-! ### the observer rejects the wrong observations (each is an observation of ONE operation after `add0`) -/

def add0 (k : Kind) (keep : Bool := false) : Obs := ⟨.add 1 none none, .created 0, [.created 0 0 none],
  { kind := k, keep := keep, active := 0, batches := [⟨none, [0], 0⟩], items := [⟨0, 1, none, none, none⟩] }⟩

/-- what a correct flush with a body that sets nothing looks like: accepted -/
example : specClause .user [add0 .user,
    ⟨.flush 0, .unit, [.body 0 1, .bodyEnd 0 none none, .item 0 (.err .notSet) false, .announce 0 [] 1],
     { kind := .user, active := 1, batches := [⟨some (.val 0), [], 1⟩, ⟨none, [], 0⟩],
       items := [⟨0, 1, none, none, some (.err .notSet)⟩] }⟩] = "ok" := by decide

/-- it rejects a flush that announces the batch while item 0 is pending ... -/
example : specClause .user [add0 .user,
    ⟨.flush 0, .unit, [.body 0 1, .bodyEnd 0 none none, .announce 0 [0] 1],
      { kind := .user, active := 1, batches := [⟨some (.val 0), [], 1⟩, ⟨none, [], 0⟩],
        items := [⟨0, 1, none, none, none⟩] }⟩] = "items-before-announce@flush" := by decide

/-- ... a flush body that runs while its batch still holds the active slot ... -/
example : specClause .user
    [⟨.flush 0, .unit, [.body 0 0, .bodyEnd 0 none none, .announce 0 [] 1],
      { kind := .user, active := 1, batches := [⟨some (.val 0), [], 1⟩, ⟨none, [], 0⟩], items := [] }⟩]
    = "active-during-flush@flush" := by decide

/-- ... a second flush that does not raise ... -/
example : specClause .user
    [⟨.cancel 0 none, .unit, [.announce 0 [] 1],
      { kind := .user, active := 1, batches := [⟨some (.err .cancelled), [], 0⟩, ⟨none, [], 0⟩], items := [] }⟩,
     ⟨.flush 0, .unit, [],
      { kind := .user, active := 1, batches := [⟨some (.err .cancelled), [], 0⟩, ⟨none, [], 0⟩], items := [] }⟩]
    = "second-flush-error@flush" := by decide

/-- ... `item.value()` that CANCELS the pending batch instead of flushing it (body never runs) ... -/
example : specClause .user [add0 .user,
    ⟨.itemValue 0, .raised .cancelled, [.item 0 (.err .cancelled) false, .announce 0 [] 1],
     { kind := .user, active := 1, batches := [⟨some (.err .cancelled), [], 0⟩, ⟨none, [], 0⟩],
       items := [⟨0, 1, none, none, some (.err .cancelled)⟩] }⟩] = "flush-runs-body-once@itemValue" := by decide

/-- ... `batch.value()` likewise ... -/
example : specClause .user [add0 .user,
    ⟨.batchValue 0, .raised .cancelled, [.item 0 (.err .cancelled) false, .announce 0 [] 1],
     { kind := .user, active := 1, batches := [⟨some (.err .cancelled), [0], 0⟩, ⟨none, [], 0⟩],
       items := [⟨0, 1, none, none, some (.err .cancelled)⟩] }⟩] = "flush-runs-body-once@batchValue" := by decide

/-- ... a flush whose body returned, but the batch's own value is not None ... -/
example : specClause .user [add0 .user,
    ⟨.flush 0, .unit, [.body 0 1, .bodyEnd 0 none none, .item 0 (.err .notSet) false, .announce 0 [] 1],
     { kind := .user, active := 1, batches := [⟨some (.val 7), [], 1⟩, ⟨none, [], 0⟩],
       items := [⟨0, 1, none, none, some (.err .notSet)⟩] }⟩] = "flush-outcome@flush" := by decide

/-- ... or the batch holds an error nobody raised ... -/
example : specClause .user [add0 .user,
    ⟨.flush 0, .unit, [.body 0 1, .bodyEnd 0 none none, .item 0 (.err (.user 3)) false, .announce 0 [] 1],
     { kind := .user, active := 1, batches := [⟨some (.err (.user 3)), [], 1⟩, ⟨none, [], 0⟩],
       items := [⟨0, 1, none, none, some (.err (.user 3))⟩] }⟩] = "flush-outcome@flush" := by decide

/-- ... or an error different from the one the body raised ... -/
example : specClause .user [add0 .user,
    ⟨.flush 0, .unit, [.body 0 1, .bodyEnd 0 (some (.user 5)) none, .item 0 (.err (.user 3)) false, .announce 0 [] 1],
     { kind := .user, active := 1, batches := [⟨some (.err (.user 3)), [], 1⟩, ⟨none, [], 0⟩],
       items := [⟨0, 1, none, none, some (.err (.user 3))⟩] }⟩] = "flush-outcome@flush" := by decide

/-- ... a flush without any completion / announcement event that leaves an item with a value out of nowhere ... -/
example : specClause .user [add0 .user,
    ⟨.flush 0, .unit, [.body 0 1, .bodyEnd 0 none none],
     { kind := .user, active := 1, batches := [⟨some (.val 0), [], 1⟩, ⟨none, [], 0⟩],
       items := [⟨0, 1, none, none, some (.val 42)⟩] }⟩] = "every-change-logged-once@flush" := by decide

/-- ... a cancel without any event ... -/
example : specClause .user [add0 .user,
    ⟨.cancel 0 none, .unit, [],
     { kind := .user, active := 1, batches := [⟨some (.err .cancelled), [0], 0⟩, ⟨none, [], 0⟩],
       items := [⟨0, 1, none, none, some (.val 42)⟩] }⟩] = "every-change-logged-once@cancel" := by decide

/-- ... a cancelled DebugBatch whose item gets its `_result` instead of the cancellation error ... -/
example : specClause .debug [add0 .debug,
    ⟨.cancel 0 none, .unit, [.item 0 (.val 1) false, .announce 0 [] 1],
     { kind := .debug, active := 1, batches := [⟨some (.err .cancelled), [0], 0⟩, ⟨none, [], 0⟩],
       items := [⟨0, 1, none, none, some (.val 1)⟩] }⟩] = "leftover-outcome@cancel" := by decide

/-- ... the same item completed twice within one operation ... -/
example : specClause .user [add0 .user,
    ⟨.cancel 0 none, .unit, [.item 0 (.err .cancelled) false, .item 0 (.err .cancelled) false, .announce 0 [] 1],
     { kind := .user, active := 1, batches := [⟨some (.err .cancelled), [0], 0⟩, ⟨none, [], 0⟩],
       items := [⟨0, 1, none, none, some (.err .cancelled)⟩] }⟩] = "every-change-logged-once@cancel" := by decide

/-- ... `flush()` that keeps the item list although KEEP_DEPENDENCIES is off ... -/
example : specClause .user [add0 .user,
    ⟨.flush 0, .unit, [.body 0 1, .bodyEnd 0 none none, .item 0 (.err .notSet) false, .announce 0 [] 1],
     { kind := .user, active := 1, batches := [⟨some (.val 0), [0], 1⟩, ⟨none, [], 0⟩],
       items := [⟨0, 1, none, none, some (.err .notSet)⟩] }⟩] = "keep-dependencies@flush" := by decide

/-- ... or clears it although KEEP_DEPENDENCIES is on ... -/
example : specClause .user [add0 .user true,
    ⟨.flush 0, .unit, [.body 0 1, .bodyEnd 0 none none, .item 0 (.err .notSet) false, .announce 0 [] 1],
     { kind := .user, keep := true, active := 1, batches := [⟨some (.val 0), [], 1⟩, ⟨none, [], 0⟩],
       items := [⟨0, 1, none, none, some (.err .notSet)⟩] }⟩] true = "keep-dependencies@flush" := by decide

/-- ... an item of the batch completed after the batch's announcement ... -/
example : specClause .user [add0 .user,
    ⟨.cancel 0 none, .unit, [.announce 0 [] 1, .item 0 (.err .cancelled) false],
     { kind := .user, active := 1, batches := [⟨some (.err .cancelled), [0], 0⟩, ⟨none, [], 0⟩],
       items := [⟨0, 1, none, none, some (.err .cancelled)⟩] }⟩] = "items-before-announce@cancel" := by decide

/-- ... and a flush that creates two fresh batches -/
example : specClause .user [add0 .user,
    ⟨.flush 0, .unit, [.body 0 2, .bodyEnd 0 none none, .item 0 (.err .notSet) false, .announce 0 [] 2],
     { kind := .user, active := 2, batches := [⟨some (.val 0), [], 1⟩, ⟨none, [], 0⟩, ⟨none, [], 0⟩],
       items := [⟨0, 1, none, none, some (.err .notSet)⟩] }⟩] = "fresh-batch@flush" := by decide

/-! ### completion handlers that complete a sibling (`link`)

Three items, none set by anybody; item 0's handler completes item 1 with value 5; item 2's handler would complete
item 0 (already complete by then).  `cancel()` completes item 0 with the cancellation error, the handler completes
item 1, the loop of `_computed` skips item 1 and completes item 2; one announcement, nothing pending. -/
def linkOps : List Op :=
  [.add 1 none (some ⟨1, false, 5⟩), .add 2 none none, .add 3 none (some ⟨0, true, 2⟩)]

example : ((run [] (init .user) (linkOps ++ [.cancel 0 none]))[3]?).map (·.evs) = some
    [.item 0 (.err .cancelled) false, .item 1 (.val 5) true, .item 2 (.err .cancelled) false, .announce 0 [] 1] := by
  decide

example : spec .user (run [] (init .user) (linkOps ++ [.cancel 0 none, .itemValue 1, .flush 0])) = true := by decide

/-- the same under `flush()` with a body that sets nothing, and under KEEP_DEPENDENCIES -/
example : ((run [[]] (init .user true) (linkOps ++ [.flush 0]))[3]?).map (fun ob => (ob.evs, ob.post.bitems 0)) = some
    ([.body 0 1, .bodyEnd 0 none none, .item 0 (.err .notSet) false, .item 1 (.val 5) true,
      .item 2 (.err .notSet) false, .announce 0 [] 1], [0, 1, 2]) := by decide

/-- a chain of handlers: the flush body sets item 2, whose handler completes item 0, whose handler completes item 1 -/
example : ((run [[.setValue 2 7]] (init .user)
      [.add 1 none (some ⟨1, false, 5⟩), .add 2 none none, .add 3 none (some ⟨0, true, 2⟩), .flush 0])[3]?).map (·.evs) =
    some [.body 0 1, .item 2 (.val 7) true, .item 0 (.err (.user 2)) true, .item 1 (.val 5) true,
          .bodyEnd 0 none none, .announce 0 [] 1] := by
  decide

/-- DebugBatch: `_flush` sets item 0, the handler completes item 1, then `_flush` itself reaches item 1 and its
    `set_value` raises FutureIsAlreadyComputed out of the body: the batch fails with that error, item 2 gets it -/
example : ((run [] (init .debug) (linkOps ++ [.flush 0, .batchError 0]))).map (·.res) =
    [.created 0, .created 1, .created 2, .unit, .errIs (some .already)] := by decide

/-- the observer rejects what a `_computed` working on a stale snapshot of the unset items does: `cancel()` raises -/
example : specClause .user
    [⟨.add 1 none (some ⟨1, false, 5⟩), .created 0, [.created 0 0 none],
      { kind := .user, active := 0, batches := [⟨none, [0], 0⟩], items := [⟨0, 1, none, some ⟨1, false, 5⟩, none⟩] }⟩,
     ⟨.add 2 none none, .created 1, [.created 1 0 none],
      { kind := .user, active := 0, batches := [⟨none, [0, 1], 0⟩],
        items := [⟨0, 1, none, some ⟨1, false, 5⟩, none⟩, ⟨0, 2, none, none, none⟩] }⟩,
     ⟨.cancel 0 none, .raised .already, [.item 0 (.err .cancelled) false, .item 1 (.val 5) true],
      { kind := .user, active := 1, batches := [⟨some (.err .cancelled), [0, 1], 0⟩, ⟨none, [], 0⟩],
        items := [⟨0, 1, none, some ⟨1, false, 5⟩, some (.err .cancelled)⟩, ⟨0, 2, none, none, some (.val 5)⟩] }⟩]
    = "cancel-total@cancel" := by decide

end AsynqModel.Batching
