import AsynqModel.Lib.Batching
import AsynqModel.Proofs.Batching7
import AsynqModel.Proofs.Batching8
/-!
# C11  Batch lifecycle: pending to flushed or cancelled, once; no item left pending

Theorems about the model `AsynqModel.Batching` for both batch kinds (harness subclass of BatchBase with scripted
flush bodies; built-in DebugBatch), both settings of the debug option KEEP_DEPENDENCIES, **every** list of flush
scripts and **every** history of operations - where every `add` may give the new item completion handlers
(`spawn`: issue a new request; `link`: complete a pending sibling with a value or an error, which runs the
sibling's handlers in turn).
`Reach scripts k s` below is spelled `s = finalState scripts (init k keep) ops` for an arbitrary `ops`.
-/
namespace AsynqModel.Batching

/-- **C11 as a whole**: for both kinds, all flush scripts and all histories, the observations of the model are
    accepted by the observer `spec` - the same Boolean function the check evaluates on the observations of the
    real implementation. -/
theorem C11_spec_holds (k : Kind) (keep : Bool) (scripts : List Script) (ops : List Op) :
    spec k (run scripts (init k keep) ops) keep = true := by
  simp [spec, watchRun_ok scripts ops (init k keep) (good_init k keep)]

/-- **no item left pending**: in every reachable snapshot the active batch exists and is pending, every item of a
    finished batch is complete, every item of a pending batch is listed in its `items`, and no flush body ran
    for a pending batch or more than once for any batch -/
theorem C11_no_item_left_pending (k : Kind) (keep : Bool) (scripts : List Script) (ops : List Op) :
    Good (finalState scripts (init k keep) ops) :=
  good_final scripts ops (init k keep) (good_init k keep)

/-- **once**: from any reachable snapshot, any operation keeps the outcome of every finished batch (pending →
    flushed | cancelled happens once) and the flush body of every batch has run at most once -/
theorem C11_once (k : Kind) (keep : Bool) (scripts : List Script) (ops : List Op) (op : Op) (b : Nat) :
    let s := finalState scripts (init k keep) ops
    s.runs b ≤ 1 ∧ (s.bout b = none → s.runs b = 0) ∧
      ∀ o, s.bout b = some o → (step scripts s op).1.bout b = some o := by
  intro s
  have hg : Good s := C11_no_item_left_pending k keep scripts ops
  have ⟨_, _, _, hE, _⟩ := specStep_unpack (step_ok scripts s hg op)
  by_cases hb : b < s.batches.length
  · have ⟨_, r1, r2⟩ := hg.2.2.2 b hb
    refine ⟨r1, r2, fun o ho => ?_⟩
    have := (hE.2.2.2.1 b hb).1 (by simp [ho])
    rw [← ho]; exact this
  · have e : s.batches[b]? = none := List.getElem?_eq_none_iff.mpr (Nat.le_of_not_lt hb)
    refine ⟨by simp [St.runs, e], fun _ => by simp [St.runs, e], fun o ho => ?_⟩
    simp [St.bout, e] at ho

theorem isSome_of_ne_none {α} {o : Option α} (h : ¬ o = none) : o.isSome = true := by
  cases o <;> simp_all

theorem observe_snd (scripts : List Script) (s : St) (op : Op) :
    (observe scripts s op).2 = ⟨op, (step scripts s op).2.1, (step scripts s op).2.2, (step scripts s op).1⟩ := rfl

/-- **flush is total**: `flush()` of a pending batch of a reachable snapshot returns normally whatever the flush
    body does (sets all / some / no items, sets item errors, raises Exception or BaseException, issues
    requests), leaves the batch finished, and (user subclass) has run the body exactly once -/
theorem C11_flush_total (k : Kind) (keep : Bool) (scripts : List Script) (ops : List Op) (b : Nat) :
    let s := finalState scripts (init k keep) ops
    b < s.batches.length → s.bout b = none →
      (step scripts s (.flush b)).2.1 = .unit ∧ ((step scripts s (.flush b)).1.bout b).isSome ∧
      (s.kind = .user → (step scripts s (.flush b)).1.runs b = 1) := by
  intro s hb hp
  have hg : Good s := C11_no_item_left_pending k keep scripts ops
  have ⟨h1, _⟩ := specStep_unpack (step_ok scripts s hg (.flush b))
  rw [observe_snd] at h1
  have hnb : ¬ s.batches.length ≤ b := by omega
  simp [opClause, hnb, hp] at h1
  split at h1
  · rename_i r1
    split at h1
    · cases h1
    · rename_i r2
      split at h1
      · cases h1
      · rename_i r3
        refine ⟨r1, ?_, fun hk => ?_⟩
        · cases hx : (step scripts s (Op.flush b)).1.bout b with
          | none => exact absurd hx r2
          | some _ => rfl
        · exact Classical.byContradiction fun hne => r3 ⟨hk, hne⟩
  · cases h1

/-- **second flush**: `flush()` of a finished batch raises BatchingError, changes nothing and logs nothing
    (in particular the flush body does not run again) - in any state -/
theorem C11_second_flush_error (scripts : List Script) (s : St) (b : Nat) (h : (s.bout b).isSome) :
    step scripts s (.flush b) = (s, .raised .batching, []) := by
  simp only [step]
  cases e : s.batches[b]? with
  | none => simp [St.bout, e] at h
  | some B =>
    simp only [St.bout, e, Option.bind_some] at h
    simp [h]

/-- **cancel is total**: `cancel(error?)` of an existing batch never raises; on a finished batch it is a no-op
    (any state); on a pending batch of a reachable snapshot it finishes the batch with the given error (or
    BatchCancelledError) without running the flush body -/
theorem C11_cancel_total (k : Kind) (keep : Bool) (scripts : List Script) (ops : List Op) (b : Nat) (x : Option Nat) :
    let s := finalState scripts (init k keep) ops
    b < s.batches.length →
      (step scripts s (.cancel b x)).2.1 = .unit ∧
      ((s.bout b).isSome → step scripts s (.cancel b x) = (s, .unit, [])) ∧
      (s.bout b = none → (step scripts s (.cancel b x)).1.bout b = some (.err (errOfCancel x)) ∧
                         (step scripts s (.cancel b x)).1.runs b = 0) := by
  intro s hb
  have hg : Good s := C11_no_item_left_pending k keep scripts ops
  have ⟨h1, _⟩ := specStep_unpack (step_ok scripts s hg (.cancel b x))
  rw [observe_snd] at h1
  have hnb : ¬ s.batches.length ≤ b := by omega
  have e : s.batches[b]? = some s.batches[b] := List.getElem?_eq_getElem hb
  refine ⟨?_, ?_, ?_⟩
  · simp only [step, e]; split <;> rfl
  · intro h
    simp only [St.bout, e, Option.bind_some] at h
    simp [step, e, h]
  · intro hp
    simp [opClause, hnb, hp] at h1
    repeat' split at h1
    all_goals first | exact ⟨by assumption, by assumption⟩ | cases h1

/-- **no add after finish**: constructing an item on a finished batch raises the constructor's AssertionError and
    changes nothing (any state); a request through the service in a reachable snapshot always succeeds, because
    the active batch is never a finished one -/
theorem C11_no_add_after_finish (k : Kind) (keep : Bool) (scripts : List Script) (ops : List Op) (b p : Nat) (sp : Option Nat)
    (lk : Option Link) :
    let s := finalState scripts (init k keep) ops
    ((s.bout b).isSome → step scripts s (.addTo b p) = (s, .raised .assertAdd, [])) ∧
    step scripts s (.add p sp lk) = (s.pushItem s.active p sp lk, .created s.items.length,
                                  [.created s.items.length s.active none]) := by
  intro s
  have hg : Good s := C11_no_item_left_pending k keep scripts ops
  refine ⟨fun h => ?_, ?_⟩
  · simp only [step]
    cases e : s.batches[b]? with
    | none => simp [St.bout, e] at h
    | some B => simp [newItemOn_finished h]
  · simp [step, newItemOn_pending hg.1 hg.2.1]

/-- **items before announce**: whenever an operation on a reachable snapshot makes a batch announce its completion
    (on_computed), that batch was pending before, is finished now, is not the active batch, and at the moment of
    the announcement none of its items was pending; a leftover item (not set by a script statement) holds the
    batch's error, else the "not set" AssertionError (user subclass) resp. its `_result` (DebugBatch); and at
    most one batch is announced per operation -/
theorem C11_items_before_announce (k : Kind) (keep : Bool) (scripts : List Script) (ops : List Op) (op : Op) :
    let s := finalState scripts (init k keep) ops
    let post := (step scripts s op).1
    let evs := (step scripts s op).2.2
    (∀ b pend act, .announce b pend act ∈ evs →
        pend = [] ∧ act ≠ b ∧ s.bout b = none ∧ (post.bout b).isSome ∧
        ∀ i, i < post.items.length → post.ibatch i = b → (post.iout i).isSome) ∧
    (∀ i o, .item i o false ∈ evs →
        post.iout i = some o ∧ s.iout i = none ∧
        itemRule post.kind o (post.bout (post.ibatch i)) (post.payload i) = true) ∧
    (evs.filter Ev.isAnnounce).length ≤ 1 := by
  intro s post evs
  have hg : Good s := C11_no_item_left_pending k keep scripts ops
  have ⟨_, h2, h3, _, h5⟩ := specStep_unpack (step_ok scripts s hg op)
  rw [observe_snd] at h2 h3 h5
  refine ⟨fun b pend act hmem => ?_, fun i o hmem => ?_, h3⟩
  · have hc := h2 _ hmem
    simp only [evClause] at hc
    split at hc
    · cases hc
    · rename_i r1
      split at hc
      · cases hc
      · rename_i r2
        split at hc
        · cases hc
        · rename_i r3
          split at hc
          · cases hc
          · rename_i r4
            have r4' := isSome_of_ne_none (by simpa using r4)
            refine ⟨by simpa using r1, r2, by simpa using r3, r4', fun i hi hb => ?_⟩
            have := (h5.2.2.1 i hi).2.2
            rw [hb] at this
            exact this r4'
  · have hc := h2 _ hmem
    simp only [evClause] at hc
    split at hc
    · cases hc
    · rename_i r1
      split at hc
      · cases hc
      · rename_i r2
        split at hc
        · cases hc
        · rename_i r3
          exact ⟨by simpa using r1, by simpa using r2, by simpa using r3⟩

/-- **item.value() flushes**: asking an existing item of a reachable snapshot for its value leaves the item
    complete, returns / raises exactly its outcome, and - if the item was pending - its batch is finished
    afterwards (so the batch was flushed by the call) -/
theorem C11_item_value_flushes (k : Kind) (keep : Bool) (scripts : List Script) (ops : List Op) (i : Nat) :
    let s := finalState scripts (init k keep) ops
    let post := (step scripts s (.itemValue i)).1
    i < s.items.length →
      (post.iout i).isSome ∧ (step scripts s (.itemValue i)).2.1 = readValue (post.iout i) ∧
      (s.iout i = none → (post.bout (post.ibatch i)).isSome) := by
  intro s post hi
  have hg : Good s := C11_no_item_left_pending k keep scripts ops
  have ⟨h1, _⟩ := specStep_unpack (step_ok scripts s hg (.itemValue i))
  rw [observe_snd] at h1
  have hni : ¬ s.items.length ≤ i := by omega
  simp only [opClause, hni, if_false] at h1
  split at h1
  · cases h1
  · rename_i r1
    split at h1
    · cases h1
    · rename_i r2
      split at h1
      · cases h1
      · rename_i r3
        refine ⟨isSome_of_ne_none (by simpa using r1), by simpa using r2, fun hn => ?_⟩
        cases hx : post.bout (post.ibatch i) with
        | some _ => rfl
        | none => exact absurd ⟨by simp [hn], by simp [post] at hx; simp [hx]⟩ r3

/-- **fresh batch during flush**: while the flush body of a batch runs the batch is not the active one (and that
    body had not run before and the batch was pending); every request issued during a flush or from an item's
    completion callback joins a pending batch different from the one being finished - the active one; such a
    request never fails -/
theorem C11_fresh_batch_during_flush (k : Kind) (keep : Bool) (scripts : List Script) (ops : List Op) (op : Op) :
    let s := finalState scripts (init k keep) ops
    let post := (step scripts s op).1
    let evs := (step scripts s op).2.2
    (∀ b act, .body b act ∈ evs → act ≠ b ∧ act = post.active ∧ s.bout b = none ∧ s.runs b = 0) ∧
    (∀ i b src, .created i b (some src) ∈ evs →
        b ≠ src ∧ b = post.active ∧ post.bout b = none ∧ post.ibatch i = b ∧ s.items.length ≤ i) ∧
    (∀ src, .createFail src ∉ evs) := by
  intro s post evs
  have hg : Good s := C11_no_item_left_pending k keep scripts ops
  have ⟨_, h2, _⟩ := specStep_unpack (step_ok scripts s hg op)
  rw [observe_snd] at h2
  refine ⟨fun b act hmem => ?_, fun i b src hmem => ?_, fun src hmem => ?_⟩
  · have hc := h2 _ hmem
    simp only [evClause] at hc
    split at hc
    · cases hc
    · rename_i r1
      split at hc
      · cases hc
      · rename_i r2
        split at hc
        · cases hc
        · rename_i r3
          split at hc
          · cases hc
          · rename_i r4
            exact ⟨r1, by simpa using r2, by simpa using r3, by simpa using r4⟩
  · have hc := h2 _ hmem
    simp only [evClause] at hc
    split at hc
    · cases hc
    · rename_i r1
      split at hc
      · cases hc
      · rename_i r2
        split at hc
        · cases hc
        · rename_i r3
          split at hc
          · cases hc
          · rename_i r4
            split at hc
            · cases hc
            · rename_i r5
              refine ⟨fun e => r4 (by rw [e]), ?_, by simpa using r3, by simpa using r2, by omega⟩
              exact Classical.byContradiction fun hne => r5 ⟨rfl, hne⟩
  · have hc := h2 _ hmem
    simp [evClause] at hc

/-- **an outcome set by the flush body or by a sibling's completion handler is kept**: whenever, during an operation
    on a reachable snapshot, an item is completed by harness code (a script statement, or the `link` handler of a
    sibling that the library - or anybody - has just completed), the item was pending before the operation and holds
    exactly that outcome after it: the library neither completes it a second time (which would raise out of
    `cancel()` / abort `_computed` and leave the remaining items pending) nor replaces what was set -/
theorem C11_set_outcome_kept (k : Kind) (keep : Bool) (scripts : List Script) (ops : List Op) (op : Op) :
    let s := finalState scripts (init k keep) ops
    let post := (step scripts s op).1
    let evs := (step scripts s op).2.2
    ∀ i o, .item i o true ∈ evs → post.iout i = some o ∧ s.iout i = none ∧ i < post.items.length := by
  intro s post evs i o hmem
  have hg : Good s := C11_no_item_left_pending k keep scripts ops
  have ⟨_, h2, _, _, _⟩ := specStep_unpack (step_ok scripts s hg op)
  rw [observe_snd] at h2
  have hc := h2 _ hmem
  simp only [evClause] at hc
  split at hc
  · cases hc
  · rename_i r1
    split at hc
    · cases hc
    · rename_i r2
      have r1' : post.iout i = some o := by simpa using r1
      refine ⟨r1', by simpa using r2, ?_⟩
      apply Classical.byContradiction
      intro hlt
      have : post.items[i]? = none := List.getElem?_eq_none_iff.mpr (Nat.le_of_not_lt hlt)
      simp [St.iout, this] at r1'

/-- **the nesting bound of the model is never reached**: `completeItem` follows a chain of `link` handlers through
    structural recursion on a bound; the model passes the number of items.  For a pending item, every bound that is at
    least the number of items gives the same result - a chain is never cut short by the bound, so the theorems above
    speak about handler chains of every length. -/
theorem completeItem_fuel_enough (f : Nat) (s : St) (i : Nat) (o : Outc) (bb : Bool) (hn : s.iout i = none)
    (hf : s.items.length ≤ f) : completeItem f s i o bb = completeItem s.items.length s i o bb :=
  completeItem_fuel_irrelevant f s.items.length s i o bb hn
    (Nat.le_trans (linkedPending_le s) hf) (linkedPending_le s)

/-! ## non-vacuity

A concrete history on a user batch whose flush body sets item 0, issues a new request and then raises a
BaseException: the second item gets the flush error from `_computed`, item 1's callback issues another request,
both requests join the fresh batch 1; then a second flush, a cancel and an add on the finished batch. -/
def demoScripts : List Script := [[.setValue 0 1, .newItem 4, .raise 5]]
def demoOps : List Op :=
  [.add 1 none none, .add 2 (some 9) none, .flush 0, .itemValue 1, .flush 0, .cancel 0 none, .addTo 0 3, .batchError 0]

example : spec .user (run demoScripts (init .user) demoOps) = true := by decide

/-- the third operation (the flush) really produces the events the clauses talk about -/
example : ((run demoScripts (init .user) demoOps)[2]?).map (·.evs) = some
    [.body 0 1, .item 0 (.val 1) true, .created 2 1 (some 0), .item 1 (.err (.user 5)) false,
     .created 3 1 (some 0), .announce 0 [] 1] := by decide

example : ((run demoScripts (init .user) demoOps).map (·.res)) =
    [.created 0, .created 1, .unit, .raised (.user 5), .raised .batching, .unit, .raised .assertAdd,
     .errIs (some (.user 5))] := by decide

/-- DebugBatch: flush sets every item to its result; a cancelled batch gives its items the cancellation error -/
example : ((run [] (init .debug) [.add 3 (some 7) none, .flush 0, .add 4 none none, .cancel 1 none, .itemValue 2]).map (·.res)) =
    [.created 0, .unit, .created 2, .unit, .raised .cancelled] := by decide

/-- the observer is not trivially true: it rejects a flush that announces the batch while item 0 is pending ... -/
example : specClause .user
    [⟨.add 1 none none, .created 0, [.created 0 0 none],
      { kind := .user, active := 0, batches := [⟨none, [0], 0⟩], items := [⟨0, 1, none, none, none⟩] }⟩,
     ⟨.flush 0, .unit, [.body 0 1, .announce 0 [0] 1],
      { kind := .user, active := 1, batches := [⟨some (.val 0), [], 1⟩, ⟨none, [], 0⟩],
        items := [⟨0, 1, none, none, none⟩] }⟩] = "items-before-announce@flush" := by decide

/-- ... a flush body that runs while its batch still holds the active slot ... -/
example : specClause .user
    [⟨.flush 0, .unit, [.body 0 0, .announce 0 [] 1],
      { kind := .user, active := 1, batches := [⟨some (.val 0), [], 1⟩, ⟨none, [], 0⟩], items := [] }⟩]
    = "active-during-flush@flush" := by decide

/-- ... and a second flush that does not raise -/
example : specClause .user
    [⟨.cancel 0 none, .unit, [.announce 0 [] 1],
      { kind := .user, active := 1, batches := [⟨some (.err .cancelled), [], 0⟩, ⟨none, [], 0⟩], items := [] }⟩,
     ⟨.flush 0, .unit, [],
      { kind := .user, active := 1, batches := [⟨some (.err .cancelled), [], 0⟩, ⟨none, [], 0⟩], items := [] }⟩]
    = "second-flush-error@flush" := by decide

/-! ### completion handlers that complete a sibling (`link`)

Three items, none set by anybody; item 0's handler completes item 1 with value 5; item 2's handler would complete
item 0 (already complete by then).  `cancel()` completes item 0 with the cancellation error, the handler completes
item 1, the loop of `_computed` skips item 1 and completes item 2; one announcement, nothing pending. -/
def linkOps : List Op :=
  [.add 1 none (some ⟨1, false, 5⟩), .add 2 none none, .add 3 none (some ⟨0, true, 2⟩)]

example : ((run [] (init .user) (linkOps ++ [.cancel 0 none]))[3]?).map (·.evs) = some
    [.item 0 (.err .cancelled) false, .item 1 (.val 5) true, .item 2 (.err .cancelled) false, .announce 0 [] 1] := by
  decide

example : spec .user (run [] (init .user) (linkOps ++ [.cancel 0 none, .itemValue 1, .flush 0])) = true := by decide

/-- the same under `flush()` with a body that sets nothing, and under KEEP_DEPENDENCIES -/
example : ((run [[]] (init .user true) (linkOps ++ [.flush 0]))[3]?).map (fun ob => (ob.evs, ob.post.bitems 0)) = some
    ([.body 0 1, .item 0 (.err .notSet) false, .item 1 (.val 5) true, .item 2 (.err .notSet) false,
      .announce 0 [] 1], [0, 1, 2]) := by decide

/-- a chain of handlers: the flush body sets item 2, whose handler completes item 0, whose handler completes item 1 -/
example : ((run [[.setValue 2 7]] (init .user)
      [.add 1 none (some ⟨1, false, 5⟩), .add 2 none none, .add 3 none (some ⟨0, true, 2⟩), .flush 0])[3]?).map (·.evs) =
    some [.body 0 1, .item 2 (.val 7) true, .item 0 (.err (.user 2)) true, .item 1 (.val 5) true, .announce 0 [] 1] := by
  decide

/-- DebugBatch: `_flush` sets item 0, the handler completes item 1, then `_flush` itself reaches item 1 and its
    `set_value` raises FutureIsAlreadyComputed out of the body: the batch fails with that error, item 2 gets it -/
example : ((run [] (init .debug) (linkOps ++ [.flush 0, .batchError 0]))).map (·.res) =
    [.created 0, .created 1, .created 2, .unit, .errIs (some .already)] := by decide

/-- the observer rejects what a `_computed` working on a stale snapshot of the unset items does: `cancel()` raises -/
example : specClause .user
    [⟨.add 1 none (some ⟨1, false, 5⟩), .created 0, [.created 0 0 none],
      { kind := .user, active := 0, batches := [⟨none, [0], 0⟩], items := [⟨0, 1, none, some ⟨1, false, 5⟩, none⟩] }⟩,
     ⟨.add 2 none none, .created 1, [.created 1 0 none],
      { kind := .user, active := 0, batches := [⟨none, [0, 1], 0⟩],
        items := [⟨0, 1, none, some ⟨1, false, 5⟩, none⟩, ⟨0, 2, none, none, none⟩] }⟩,
     ⟨.cancel 0 none, .raised .already, [.item 0 (.err .cancelled) false, .item 1 (.val 5) true],
      { kind := .user, active := 1, batches := [⟨some (.err .cancelled), [0, 1], 0⟩, ⟨none, [], 0⟩],
        items := [⟨0, 1, none, some ⟨1, false, 5⟩, some (.err .cancelled)⟩, ⟨0, 2, none, none, some (.val 5)⟩] }⟩]
    = "cancel-total@cancel" := by decide

end AsynqModel.Batching
