import AsynqModel.Lib.Batching
import AsynqModel.Lib.BatchingHook
import AsynqModel.Proofs.Batching8
import AsynqModel.Proofs.Batching9
/-!
# C11  Batch lifecycle: pending to flushed or cancelled, once; no item left pending

Theorems about the model `AsynqModel.Batching` for both batch kinds (harness subclass of BatchBase with scripted
flush bodies; built-in DebugBatch), both settings of the debug option KEEP_DEPENDENCIES, **every** list of flush
scripts and **every** history of operations - where every `add` may give the new item completion handlers
(`spawn`: issue a new request; `link`: complete a pending sibling with a value or an error, which runs the
sibling's handlers in turn).

The per-operation theorems are stated for every snapshot `s` that satisfies the decidable invariant `Good s`;
`C11_no_item_left_pending` says that every reachable snapshot (`finalState scripts (init k keep) ops`, any `ops`)
does, and `C11_invariant_needed` exhibits a snapshot outside the invariant where they fail.

The protected hook `_cancel()` of the subclass: since /repo fix f2f3435 `BatchBase._computed` calls the hook inside
`try: ... except Exception` (batching.py:123-133), so an Exception out of the hook changes nothing the harness observes.
The model says exactly that: `stepH hook` (Lib/BatchingHook.lean) IGNORES its hook parameter (`stepH _ := step`), and
`C11_spec_holds_hook` is therefore `C11_spec_holds` re-stated (it holds BY CONSTRUCTION and is listed so in
harness/checks/c11.py; that a raising hook really changes nothing is the content of the correspondence run, case key
`hook`).  `stepHook` in the same file is the behaviour of the tree BEFORE the fix, kept for reference only (the former
finding `user/cancel-hook-raises`; no theorem is about it).

Theorems that hold by one unfolding of the model, in any state (`C11_second_flush_error`, `C11_cancel_finished_noop`,
`C11_no_add_after_finish`, `C11_flush_cancel_return`), are listed apart (BY_CONSTRUCTION in harness/checks/c11.py): their
content is the correspondence check (the harness records an exception of the real call as the operation's result and
the observer's clauses `flush-total` / `cancel-total` / `second-flush-error` / `cancel-noop` / `no-add-after-finish`
judge the recorded result).  What the model cannot say: see `harness/checks/c11.py` ASSUMPTIONS.
-/
namespace AsynqModel.Batching

/-- **C11 as a whole**: for both kinds, all flush scripts and all histories, the observations of the model are
    accepted by the observer `spec` - the same Boolean function the check evaluates on the observations of the
    real implementation. -/
theorem C11_spec_holds (k : Kind) (keep : Bool) (scripts : List Script) (ops : List Op) :
    spec k (run scripts (init k keep) ops) keep = true := by
  simp [spec, watchRun_ok scripts ops (init k keep) (good_init k keep)]

/-- **no item left pending**: in every reachable snapshot the active batch exists and is pending, every item of a
    finished batch is complete, every item of a pending batch is listed in its `items`, and no flush body ran
    for a pending batch or more than once for any batch -/
theorem C11_no_item_left_pending (k : Kind) (keep : Bool) (scripts : List Script) (ops : List Op) :
    Good (finalState scripts (init k keep) ops) :=
  good_final scripts ops (init k keep) (good_init k keep)

theorem observe_snd (scripts : List Script) (s : St) (op : Op) :
    (observe scripts s op).2 = ⟨op, (step scripts s op).2.1, (step scripts s op).2.2, (step scripts s op).1⟩ := rfl

/-- **the inductive step, for every snapshot inside the invariant** (not only the reachable ones): whatever the
    operation, the observer accepts the model's observation of it, and the invariant holds again afterwards -/
theorem C11_step_accepted (scripts : List Script) (s : St) (hg : Good s) (op : Op) :
    specStep false s (observe scripts s op).2 = none ∧ Good (step scripts s op).1 :=
  ⟨step_ok scripts s hg op, good_of_specStep (step_ok (rx := false) scripts s hg op)⟩

/-- **once**: any operation keeps the outcome of every finished batch (pending → flushed | cancelled happens once),
    the flush body of every batch has run at most once, and never for a pending batch -/
theorem C11_once (scripts : List Script) (s : St) (hg : Good s) (op : Op) (b : Nat) :
    s.runs b ≤ 1 ∧ (s.bout b = none → s.runs b = 0) ∧
      ∀ o, s.bout b = some o → (step scripts s op).1.bout b = some o := by
  have ⟨_, _, _, _, _, _, hE, _⟩ := specStep_unpack (step_ok (rx := false) scripts s hg op)
  by_cases hb : b < s.batches.length
  · have ⟨_, r1, r2⟩ := hg.2.2.2 b hb
    refine ⟨r1, r2, fun o ho => ?_⟩
    have := (hE.2.2.2.1 b hb).1 (by simp [ho])
    rw [← ho]; exact this
  · have e : s.batches[b]? = none := List.getElem?_eq_none_iff.mpr (Nat.le_of_not_lt hb)
    refine ⟨by simp [St.runs, e], fun _ => by simp [St.runs, e], fun o ho => ?_⟩
    simp [St.bout, e] at ho

/-- **an operation that has to flush a pending batch runs its body exactly once, and the body decides the outcome**
    (`fate s op = .flushed b clear`: `flush()` of pending b; `item.value()` of a pending item of b; `b.value()`,
    `b.error()` of pending b).  See `FlushedOk`: the batch is finished; user subclass - the body's start is the first
    event, there is no other start, the run counter is 1, the body ended exactly once, raising `r` or returning
    (`r = none`) with the batch still pending, and the batch's outcome is `bodyOutc r` (None, or the error the body
    raised: **never an outcome nobody produced**), and the library completes no item before the body has ended;
    DebugBatch - outcome None, or FutureIsAlreadyComputed WITH A CAUSE (`alreadyCause`: an item of the batch was complete
    before, or a handler completed a sibling during the operation, or the item list names an item twice);
    the batch's item list is emptied iff the operation went through `flush()` and KEEP_DEPENDENCIES is off;
    exactly one fresh batch appears iff b held the active slot -/
theorem C11_flushed (scripts : List Script) (s : St) (hg : Good s) (op : Op) (b : Nat) (clear : Bool)
    (hf : fate s op = .flushed b clear) :
    FlushedOk s b clear (step scripts s op).1 (step scripts s op).2.2 := by
  have ⟨_, h2, _⟩ := specStep_unpack (step_ok (rx := false) scripts s hg op)
  exact flushedOk_of_fateClause h2 (by simpa [observe_snd] using hf)

theorem isSome_of_ne_none {α} {o : Option α} (h : ¬ o = none) : o.isSome = true := by
  cases o <;> simp_all

/-- **item.value() flushes**: asking an existing item for its value leaves the item complete and returns / raises
    exactly its outcome; if the item was pending, its batch was pending too and the call flushed it like `flush()`
    does (`C11_flushed`: body run once, outcome decided by the body - in particular the batch is NOT cancelled) -/
theorem C11_item_value_flushes (scripts : List Script) (s : St) (hg : Good s) (i : Nat) (hi : i < s.items.length) :
    let post := (step scripts s (.itemValue i)).1
    (post.iout i).isSome ∧ (step scripts s (.itemValue i)).2.1 = readValue (post.iout i) ∧
    (s.iout i = none →
      s.bout (s.ibatch i) = none ∧ FlushedOk s (s.ibatch i) true post (step scripts s (.itemValue i)).2.2) := by
  intro post
  have ⟨h1, _⟩ := specStep_unpack (step_ok (rx := false) scripts s hg (.itemValue i))
  rw [observe_snd] at h1
  have hni : ¬ s.items.length ≤ i := by omega
  simp only [opClause, hni, if_false] at h1
  split at h1
  · cases h1
  · rename_i r1
    split at h1
    · cases h1
    · rename_i r2
      refine ⟨isSome_of_ne_none (by simpa using r1), by simpa using r2, fun hn => ?_⟩
      have ⟨gb, _, gz⟩ := hg.2.2.1 i hi
      have hbp : s.bout (s.ibatch i) = none := by
        cases hx : s.bout (s.ibatch i) with
        | none => rfl
        | some y =>
          have := gz (by rw [hx]; rfl)
          rw [hn] at this; cases this
      refine ⟨hbp, C11_flushed scripts s hg _ _ true ?_⟩
      simp [fate, St.pendingBatch, hi, hn, gb, hbp]

/-- **batch.value() / batch.error() flush**: on a pending batch they run the flush body once (`C11_flushed`, the
    item list is kept) and return / raise exactly the batch's outcome -/
theorem C11_batch_value_flushes (scripts : List Script) (s : St) (hg : Good s) (b : Nat) (hb : b < s.batches.length)
    (hp : s.bout b = none) :
    FlushedOk s b false (step scripts s (.batchValue b)).1 (step scripts s (.batchValue b)).2.2 ∧
    (step scripts s (.batchValue b)).2.1 = readValue ((step scripts s (.batchValue b)).1.bout b) ∧
    FlushedOk s b false (step scripts s (.batchError b)).1 (step scripts s (.batchError b)).2.2 ∧
    (step scripts s (.batchError b)).2.1 = readError ((step scripts s (.batchError b)).1.bout b) := by
  have e : s.batches[b]? = some s.batches[b] := List.getElem?_eq_getElem hb
  have hp' := hp
  simp only [St.bout, e, Option.bind_some] at hp'
  refine ⟨C11_flushed scripts s hg _ b false (by simp [fate, St.pendingBatch, hb, hp]), ?_,
    C11_flushed scripts s hg _ b false (by simp [fate, St.pendingBatch, hb, hp]), ?_⟩
  · simp [step, e, hp']
  · simp [step, e, hp']

/-- **cancel**: `cancel(error?)` of a pending batch finishes the batch with the given error (or BatchCancelledError),
    the flush body does not run (run counter 0, no body event), the item list is kept, and exactly one fresh batch
    appears iff the batch held the active slot -/
theorem C11_cancel (scripts : List Script) (s : St) (hg : Good s) (b : Nat) (x : Option Nat)
    (hb : b < s.batches.length) (hp : s.bout b = none) :
    CancelledOk s b (errOfCancel x) (step scripts s (.cancel b x)).1 (step scripts s (.cancel b x)).2.2 := by
  have ⟨_, h2, _⟩ := specStep_unpack (step_ok (rx := false) scripts s hg (.cancel b x))
  exact cancelledOk_of_fateClause h2 (by simp [observe_snd, fate, St.pendingBatch, hb, hp])

/-- **an operation that has no pending batch to finish** (queries, reads of finished things, a second flush, a
    cancel of a finished batch, add) logs nothing but item creations, creates no batch and leaves the slot alone -/
theorem C11_quiet (scripts : List Script) (s : St) (hg : Good s) (op : Op) (hf : fate s op = .quiet) :
    (step scripts s op).2.2.all Ev.isCreated = true ∧ slotOk s (step scripts s op).1 none = true := by
  have ⟨_, h2, _⟩ := specStep_unpack (step_ok (rx := false) scripts s hg op)
  exact quiet_of_fateClause h2 (by simpa [observe_snd] using hf)

/-! ### by construction of the model (any state, one unfolding): the content of these clauses is the correspondence -/

/-- **second flush**: `flush()` of a finished batch raises BatchingError, changes nothing and logs nothing -/
theorem C11_second_flush_error (scripts : List Script) (s : St) (b : Nat) (h : (s.bout b).isSome) :
    step scripts s (.flush b) = (s, .raised .batching, []) := by
  simp only [step]
  cases e : s.batches[b]? with
  | none => simp [St.bout, e] at h
  | some B =>
    simp only [St.bout, e, Option.bind_some] at h
    simp [h]

/-- **cancel is a no-op on a finished batch** -/
theorem C11_cancel_finished_noop (scripts : List Script) (s : St) (b : Nat) (x : Option Nat) (h : (s.bout b).isSome) :
    step scripts s (.cancel b x) = (s, .unit, []) := by
  simp only [step]
  cases e : s.batches[b]? with
  | none => simp [St.bout, e] at h
  | some B => simp only [St.bout, e, Option.bind_some] at h; simp [h]

/-- **no add after finish**: constructing an item on a finished batch raises the constructor's AssertionError and
    changes nothing -/
theorem C11_no_add_after_finish (scripts : List Script) (s : St) (b p : Nat) (h : (s.bout b).isSome) :
    step scripts s (.addTo b p) = (s, .raised .assertAdd, []) := by
  simp only [step]
  cases e : s.batches[b]? with
  | none => simp [St.bout, e] at h
  | some B => simp [newItemOn_finished h]

/-- **flush() / cancel() return normally**: the model has no exception channel out of these two calls (since fix f2f3435
    the `_cancel` hook of the subclass has none either: an Exception it raises is caught in `BatchBase._computed`) -/
theorem C11_flush_cancel_return (scripts : List Script) (s : St) (b : Nat) (x : Option Nat) (hb : b < s.batches.length) :
    (s.bout b = none → (step scripts s (.flush b)).2.1 = .unit) ∧ (step scripts s (.cancel b x)).2.1 = .unit := by
  have e : s.batches[b]? = some s.batches[b] := List.getElem?_eq_getElem hb
  refine ⟨fun hp => ?_, ?_⟩
  · simp only [St.bout, e, Option.bind_some] at hp
    simp [step, e, hp]
  · simp only [step, e]; split <;> rfl

/-! ### with content again -/

/-- **a request through the service always succeeds and joins the active batch**, because the active batch is never
    a finished one (needs the invariant) -/
theorem C11_request_joins_active (scripts : List Script) (s : St) (hg : Good s) (p : Nat) (sp : Option Nat)
    (lk : Option Link) :
    step scripts s (.add p sp lk) = (s.pushItem s.active p sp lk, .created s.items.length,
                                  [.created s.items.length s.active none]) := by
  simp [step, newItemOn_pending hg.1 hg.2.1]

/-- **frame** (what finishing a batch does NOT touch): every item completed during an operation - by the library, a
    script statement or a handler - belongs to the batch the operation has to finish (`fate`), so flushing or
    cancelling a batch never completes an item of another batch (in particular not of the fresh batch that requests
    issued during the flush join); and the item list of every other batch is what it was plus the items constructed
    on it during the operation, in order -/
theorem C11_frame (scripts : List Script) (s : St) (hg : Good s) (op : Op) :
    let post := (step scripts s op).1
    let evs := (step scripts s op).2.2
    (∀ i o bb, .item i o bb ∈ evs → (fate s op).batch? = some (post.ibatch i)) ∧
    (∀ c, c < post.batches.length → (fate s op).batch? ≠ some c → post.bitems c = s.bitems c ++ createdOn evs c) := by
  intro post evs
  have h := specStep_frame (step_ok (rx := false) scripts s hg op)
  unfold frameClause at h
  rw [firstFail_none] at h
  unfold frameChecks at h
  simp only [List.mem_cons, List.not_mem_nil, or_false, observe_snd] at h
  have h1 := h (_, "item-of-other-batch") (Or.inl rfl)
  have h2 := h (_, "items-frame") (Or.inr rfl)
  simp only [List.all_eq_true] at h1 h2
  refine ⟨fun i o bb hm => ?_, fun c hc hne => ?_⟩
  · have := h1 _ hm
    simpa using this
  · have := h2 c (by simpa using hc)
    simp only [Bool.or_eq_true, beq_iff_eq] at this
    rcases this with this | this
    · exact absurd this hne
    · exact this

/-- **every change is logged exactly once** (`CountsOk`): whatever the operation, an item that went from pending to
    complete has exactly one completion event (its on_computed fired once - never twice), every other item none;
    every new item has exactly one creation event; a batch that went from pending to finished has been announced
    exactly once, every other batch not at all (so at most one batch finishes per operation) -/
theorem C11_every_change_logged_once (scripts : List Script) (s : St) (hg : Good s) (op : Op) :
    CountsOk s (step scripts s op).1 (step scripts s op).2.2 := by
  have ⟨_, _, _, _, _, hc, _⟩ := specStep_unpack (step_ok (rx := false) scripts s hg op)
  exact hc

/-- **items before announce**: a batch that an operation finishes IS announced (exactly one on_computed, see
    `C11_every_change_logged_once`), and whenever a batch announces its completion it was pending before, is finished
    now, is not the active batch, at the moment of the announcement none of its items was pending, no item of it is
    completed after the announcement, and all its items are complete afterwards; an item completed by the library (not
    by a script statement or a handler) holds the batch's error, else the "not set" AssertionError (user subclass,
    batch flushed) resp. - only in an operation that runs the flush body - its `_result` (DebugBatch) - and the item
    belongs to the batch being finished, see `C11_frame`; every item that the operation completes has a completion
    event carrying exactly its outcome -/
theorem C11_items_before_announce (scripts : List Script) (s : St) (hg : Good s) (op : Op) :
    let post := (step scripts s op).1
    let evs := (step scripts s op).2.2
    (∀ b, b < post.batches.length → s.bout b = none → (post.bout b).isSome → ∃ pend act, .announce b pend act ∈ evs) ∧
    (∀ b pend act, .announce b pend act ∈ evs →
        pend = [] ∧ act ≠ b ∧ s.bout b = none ∧ (post.bout b).isSome ∧
        ∀ i, i < post.items.length → post.ibatch i = b → (post.iout i).isSome) ∧
    afterAnnounceOk post evs = true ∧
    (∀ i o, .item i o false ∈ evs →
        post.iout i = some o ∧ s.iout i = none ∧
        itemRule post.kind (fate s op).bodyRuns o (post.bout (post.ibatch i)) (post.payload i) = true) ∧
    (∀ i, i < post.items.length → s.iout i = none → (post.iout i).isSome → ∃ bb, .item i ((post.iout i).getD (.val 0)) bb ∈ evs) ∧
    (evs.filter Ev.isAnnounce).length ≤ 1 := by
  intro post evs
  have ⟨_, _, h2, h3, ha, hc, _, h5⟩ := specStep_unpack (step_ok (rx := false) scripts s hg op)
  rw [observe_snd] at h2 h3 ha hc h5
  refine ⟨fun b hb hn hs => ?_, fun b pend act hmem => ?_, ha, fun i o hmem => ?_, fun i hi hn hs => ?_, h3⟩
  · have := hc.2 b hb
    rw [if_pos ⟨hn, hs⟩] at this
    exact mem_of_announceCount this
  · have hc := h2 _ hmem
    simp only [evClause] at hc
    split at hc
    · cases hc
    · rename_i r1
      split at hc
      · cases hc
      · rename_i r2
        split at hc
        · cases hc
        · rename_i r3
          split at hc
          · cases hc
          · rename_i r4
            have r4' := isSome_of_ne_none (by simpa using r4)
            refine ⟨by simpa using r1, r2, by simpa using r3, r4', fun i hi hb => ?_⟩
            have := (h5.2.2.1 i hi).2.2
            rw [hb] at this
            exact this r4'
  · have hc := h2 _ hmem
    simp only [evClause] at hc
    split at hc
    · cases hc
    · rename_i r1
      split at hc
      · cases hc
      · rename_i r2
        split at hc
        · cases hc
        · rename_i r3
          exact ⟨by simpa using r1, by simpa using r2, by simpa using r3⟩
  · have := (hc.1 i hi).1
    rw [if_pos ⟨hn, hs⟩] at this
    obtain ⟨o, bb, hmem⟩ := mem_of_itemCount this
    have hcl := h2 _ hmem
    simp only [evClause] at hcl
    split at hcl
    · cases hcl
    · rename_i r1
      have r1' : post.iout i = some o := by simpa using r1
      exact ⟨bb, by rw [r1']; exact hmem⟩

/-- **fresh batch during flush**: while the flush body of a batch runs the batch is not the active one (and that
    body had not run before and the batch was pending); every request issued during a flush or from an item's
    completion callback joins a pending batch different from the one being finished - the active one; such a
    request never fails.  (How many batches exist afterwards: `slot` in `FlushedOk` / `CancelledOk`, `C11_quiet`.) -/
theorem C11_fresh_batch_during_flush (scripts : List Script) (s : St) (hg : Good s) (op : Op) :
    let post := (step scripts s op).1
    let evs := (step scripts s op).2.2
    (∀ b act, .body b act ∈ evs → act ≠ b ∧ act = post.active ∧ s.bout b = none ∧ s.runs b = 0) ∧
    (∀ i b src, .created i b (some src) ∈ evs →
        b ≠ src ∧ b = post.active ∧ post.bout b = none ∧ post.ibatch i = b ∧ s.items.length ≤ i) ∧
    (∀ src, .createFail src ∉ evs) := by
  intro post evs
  have ⟨_, _, h2, _⟩ := specStep_unpack (step_ok (rx := false) scripts s hg op)
  rw [observe_snd] at h2
  refine ⟨fun b act hmem => ?_, fun i b src hmem => ?_, fun src hmem => ?_⟩
  · have hc := h2 _ hmem
    simp only [evClause] at hc
    split at hc
    · cases hc
    · rename_i r1
      split at hc
      · cases hc
      · rename_i r2
        split at hc
        · cases hc
        · rename_i r3
          split at hc
          · cases hc
          · rename_i r4
            exact ⟨r1, by simpa using r2, by simpa using r3, by simpa using r4⟩
  · have hc := h2 _ hmem
    simp only [evClause] at hc
    split at hc
    · cases hc
    · rename_i r1
      split at hc
      · cases hc
      · rename_i r2
        split at hc
        · cases hc
        · rename_i r3
          split at hc
          · cases hc
          · rename_i r4
            split at hc
            · cases hc
            · rename_i r5
              refine ⟨fun e => r4 (by rw [e]), ?_, by simpa using r3, by simpa using r2, by omega⟩
              exact Classical.byContradiction fun hne => r5 ⟨rfl, hne⟩
  · have hc := h2 _ hmem
    simp [evClause] at hc

/-- **an outcome set by the flush body or by a sibling's completion handler is kept**: whenever, during an operation,
    an item is completed by harness code (a script statement, or the `link` handler of a sibling that the library -
    or anybody - has just completed), the item was pending before the operation and holds exactly that outcome after
    it: the library neither completes it a second time (which would raise out of `cancel()` / abort `_computed` and
    leave the remaining items pending) nor replaces what was set -/
theorem C11_set_outcome_kept (scripts : List Script) (s : St) (hg : Good s) (op : Op) :
    let post := (step scripts s op).1
    let evs := (step scripts s op).2.2
    ∀ i o, .item i o true ∈ evs → post.iout i = some o ∧ s.iout i = none ∧ i < post.items.length := by
  intro post evs i o hmem
  have ⟨_, _, h2, _⟩ := specStep_unpack (step_ok (rx := false) scripts s hg op)
  rw [observe_snd] at h2
  have hc := h2 _ hmem
  simp only [evClause] at hc
  split at hc
  · cases hc
  · rename_i r1
    split at hc
    · cases hc
    · rename_i r2
      have r1' : post.iout i = some o := by simpa using r1
      exact ⟨r1', by simpa using r2, iout_isSome_lt (by rw [r1']; rfl)⟩

/-- **the nesting bound of the model is never reached**: `completeItem` follows a chain of `link` handlers through
    structural recursion on a bound; the model passes the number of items.  For a pending item, every bound that is at
    least the number of items gives the same result - a chain is never cut short by the bound, so the theorems above
    speak about handler chains of every length. -/
theorem completeItem_fuel_enough (f : Nat) (s : St) (i : Nat) (o : Outc) (bb : Bool) (hn : s.iout i = none)
    (hf : s.items.length ≤ f) : completeItem f s i o bb = completeItem s.items.length s i o bb :=
  completeItem_fuel_irrelevant f s.items.length s i o bb hn
    (Nat.le_trans (linkedPending_le s) hf) (linkedPending_le s)

/-- the bound is needed: with a smaller one a chain of handlers IS cut short (two pending items, item 0's handler
    completes item 1: bound 0 stops after item 0) -/
example :
    let s : St := { kind := .user, active := 0, batches := [⟨none, [0, 1], 0⟩],
                    items := [⟨0, 1, none, some ⟨1, false, 5⟩, none⟩, ⟨0, 2, none, none, none⟩] }
    (completeItem 0 s 0 (.val 1) true).1.iout 1 = none ∧
    (completeItem s.items.length s 0 (.val 1) true).1.iout 1 = some (.val 5) := by decide

/-! ## the `_cancel()` hook of the subclass (second audit, item P1; FIXED in /repo by f2f3435)

`BatchBase._computed` calls `self._cancel()` inside `try: ... except Exception` before it completes the leftover items
(batching.py:123-133).  `stepH hook` is the code as it is: the hook parameter is inert, the three statements below
hold by `rfl` / by `C11_spec_holds` (BY_CONSTRUCTION in c11.py; third audit, section C).  The claim with content - a raising
hook changes no observation of the REAL batch - is checked by the correspondence run of the cases with key `hook`. -/

theorem stepH_any (hook : Option Nat) (scripts : List Script) (s : St) (op : Op) :
    stepH hook scripts s op = step scripts s op := rfl

theorem runH_any (hook : Option Nat) (scripts : List Script) (ops : List Op) :
    ∀ s, runH hook scripts s ops = run scripts s ops := by
  induction ops with
  | nil => intro s; rfl
  | cons op ops ih =>
    intro s
    simp only [runH, run, observeH, observe, stepH_any, ih]

/-- `C11_spec_holds` re-stated for the model with the (inert) hook parameter: holds by construction (`runH_any`), no
    claim of its own -/
theorem C11_spec_holds_hook (hook : Option Nat) (k : Kind) (keep : Bool) (scripts : List Script)
    (ops : List Op) : spec k (runH hook scripts (init k keep) ops) keep = true := by
  rw [runH_any]
  exact C11_spec_holds k keep scripts ops

/-- the former counterexample: `cancel()` returns, the item gets the cancellation error, the batch is announced -/
example : (runH (some 1) [] (init .user) [.add 1 none none, .cancel 0 none, .itemValue 0]).map (·.res) =
    [.created 0, .unit, .raised .cancelled] := by decide

/-- a hook that raises is harmless as long as no batch finishes with an error (body returns: `set_value(None)`) -/
example : spec .user (runH (some 1) [[.setAll]] (init .user) [.add 1 none none, .flush 0, .cancel 0 none, .itemValue 0]) = true := by
  decide

/-! ## the invariant is needed

A snapshot outside `Good` (an item pending although its batch is finished - what a `_computed` that forgets an item
leaves behind): `item.value()` returns the internal marker instead of a value, the item stays pending, and the
observer rejects the observation.  So the hypothesis `Good s` of the theorems above cannot be dropped, and the
theorems say something about the reachable snapshots only because `C11_no_item_left_pending` holds. -/
def strayState : St :=
  { kind := .user, active := 1, batches := [⟨some (.val 0), [0], 1⟩, ⟨none, [], 0⟩], items := [⟨0, 1, none, none, none⟩] }

theorem C11_invariant_needed :
    ¬ Good strayState ∧ (step [] strayState (.itemValue 0)).2.1 = .marker ∧
    (step [] strayState (.itemValue 0)).1.iout 0 = none ∧
    specStep false strayState (observe [] strayState (.itemValue 0)).2 = some "item-value-completes" := by
  decide

/-! ## non-vacuity

A concrete history on a user batch whose flush body sets item 0, issues a new request and then raises a
BaseException: the second item gets the flush error from `_computed`, item 1's callback issues another request,
both requests join the fresh batch 1; then a second flush, a cancel and an add on the finished batch. -/
def demoScripts : List Script := [[.setValue 0 1, .newItem 4, .raise 5]]
def demoOps : List Op :=
  [.add 1 none none, .add 2 (some 9) none, .flush 0, .itemValue 1, .flush 0, .cancel 0 none, .addTo 0 3, .batchError 0]

example : spec .user (run demoScripts (init .user) demoOps) = true := by decide

/-- the third operation (the flush) really produces the events the clauses talk about -/
example : ((run demoScripts (init .user) demoOps)[2]?).map (·.evs) = some
    [.body 0 1, .item 0 (.val 1) true, .created 2 1 (some 0), .bodyEnd 0 (some (.user 5)) none,
     .item 1 (.err (.user 5)) false, .created 3 1 (some 0), .announce 0 [] 1] := by decide

example : ((run demoScripts (init .user) demoOps).map (·.res)) =
    [.created 0, .created 1, .unit, .raised (.user 5), .raised .batching, .unit, .raised .assertAdd,
     .errIs (some (.user 5))] := by decide

/-- the hypotheses of `C11_flushed` are met by the flush above (`fate` says the batch has to be flushed) ... -/
example : fate (finalState demoScripts (init .user) (demoOps.take 2)) (.flush 0) = .flushed 0 true := by decide
/-- ... by `item.value()` of a pending item, `batch.value()` of a pending batch; `cancel` has to cancel -/
example : fate (finalState demoScripts (init .user) (demoOps.take 2)) (.itemValue 1) = .flushed 0 true := by decide
example : fate (finalState demoScripts (init .user) (demoOps.take 2)) (.batchValue 0) = .flushed 0 false := by decide
example : fate (finalState demoScripts (init .user) (demoOps.take 2)) (.cancel 0 (some 3)) = .cancelled 0 (.user 3) := by
  decide
example : fate (finalState demoScripts (init .user) (demoOps.take 3)) (.flush 0) = .quiet := by decide

/-- DebugBatch: flush sets every item to its result; a cancelled batch gives its items the cancellation error -/
example : ((run [] (init .debug) [.add 3 (some 7) none, .flush 0, .add 4 none none, .cancel 1 none, .itemValue 2]).map (·.res)) =
    [.created 0, .unit, .created 2, .unit, .raised .cancelled] := by decide

/-! ### the observer rejects the wrong observations (each is an observation of ONE operation after `add0`) -/

def add0 (k : Kind) (keep : Bool := false) : Obs := ⟨.add 1 none none, .created 0, [.created 0 0 none],
  { kind := k, keep := keep, active := 0, batches := [⟨none, [0], 0⟩], items := [⟨0, 1, none, none, none⟩] }⟩

/-- what a correct flush with a body that sets nothing looks like: accepted -/
example : specClause .user [add0 .user,
    ⟨.flush 0, .unit, [.body 0 1, .bodyEnd 0 none none, .item 0 (.err .notSet) false, .announce 0 [] 1],
     { kind := .user, active := 1, batches := [⟨some (.val 0), [], 1⟩, ⟨none, [], 0⟩],
       items := [⟨0, 1, none, none, some (.err .notSet)⟩] }⟩] = "ok" := by decide

/-- it rejects a flush that announces the batch while item 0 is pending ... -/
example : specClause .user [add0 .user,
    ⟨.flush 0, .unit, [.body 0 1, .bodyEnd 0 none none, .announce 0 [0] 1],
      { kind := .user, active := 1, batches := [⟨some (.val 0), [], 1⟩, ⟨none, [], 0⟩],
        items := [⟨0, 1, none, none, none⟩] }⟩] = "items-before-announce@flush" := by decide

/-- ... a flush body that runs while its batch still holds the active slot ... -/
example : specClause .user
    [⟨.flush 0, .unit, [.body 0 0, .bodyEnd 0 none none, .announce 0 [] 1],
      { kind := .user, active := 1, batches := [⟨some (.val 0), [], 1⟩, ⟨none, [], 0⟩], items := [] }⟩]
    = "active-during-flush@flush" := by decide

/-- ... a second flush that does not raise ... -/
example : specClause .user
    [⟨.cancel 0 none, .unit, [.announce 0 [] 1],
      { kind := .user, active := 1, batches := [⟨some (.err .cancelled), [], 0⟩, ⟨none, [], 0⟩], items := [] }⟩,
     ⟨.flush 0, .unit, [],
      { kind := .user, active := 1, batches := [⟨some (.err .cancelled), [], 0⟩, ⟨none, [], 0⟩], items := [] }⟩]
    = "second-flush-error@flush" := by decide

/-- ... `item.value()` that CANCELS the pending batch instead of flushing it (body never runs) ... -/
example : specClause .user [add0 .user,
    ⟨.itemValue 0, .raised .cancelled, [.item 0 (.err .cancelled) false, .announce 0 [] 1],
     { kind := .user, active := 1, batches := [⟨some (.err .cancelled), [], 0⟩, ⟨none, [], 0⟩],
       items := [⟨0, 1, none, none, some (.err .cancelled)⟩] }⟩] = "flush-runs-body-once@itemValue" := by decide

/-- ... `batch.value()` likewise ... -/
example : specClause .user [add0 .user,
    ⟨.batchValue 0, .raised .cancelled, [.item 0 (.err .cancelled) false, .announce 0 [] 1],
     { kind := .user, active := 1, batches := [⟨some (.err .cancelled), [0], 0⟩, ⟨none, [], 0⟩],
       items := [⟨0, 1, none, none, some (.err .cancelled)⟩] }⟩] = "flush-runs-body-once@batchValue" := by decide

/-- ... a flush whose body returned, but the batch's own value is not None ... -/
example : specClause .user [add0 .user,
    ⟨.flush 0, .unit, [.body 0 1, .bodyEnd 0 none none, .item 0 (.err .notSet) false, .announce 0 [] 1],
     { kind := .user, active := 1, batches := [⟨some (.val 7), [], 1⟩, ⟨none, [], 0⟩],
       items := [⟨0, 1, none, none, some (.err .notSet)⟩] }⟩] = "flush-outcome@flush" := by decide

/-- ... or the batch holds an error nobody raised ... -/
example : specClause .user [add0 .user,
    ⟨.flush 0, .unit, [.body 0 1, .bodyEnd 0 none none, .item 0 (.err (.user 3)) false, .announce 0 [] 1],
     { kind := .user, active := 1, batches := [⟨some (.err (.user 3)), [], 1⟩, ⟨none, [], 0⟩],
       items := [⟨0, 1, none, none, some (.err (.user 3))⟩] }⟩] = "flush-outcome@flush" := by decide

/-- ... or an error different from the one the body raised ... -/
example : specClause .user [add0 .user,
    ⟨.flush 0, .unit, [.body 0 1, .bodyEnd 0 (some (.user 5)) none, .item 0 (.err (.user 3)) false, .announce 0 [] 1],
     { kind := .user, active := 1, batches := [⟨some (.err (.user 3)), [], 1⟩, ⟨none, [], 0⟩],
       items := [⟨0, 1, none, none, some (.err (.user 3))⟩] }⟩] = "flush-outcome@flush" := by decide

/-- ... a flush without any completion / announcement event that leaves an item with a value out of nowhere ... -/
example : specClause .user [add0 .user,
    ⟨.flush 0, .unit, [.body 0 1, .bodyEnd 0 none none],
     { kind := .user, active := 1, batches := [⟨some (.val 0), [], 1⟩, ⟨none, [], 0⟩],
       items := [⟨0, 1, none, none, some (.val 42)⟩] }⟩] = "every-change-logged-once@flush" := by decide

/-- ... a cancel without any event ... -/
example : specClause .user [add0 .user,
    ⟨.cancel 0 none, .unit, [],
     { kind := .user, active := 1, batches := [⟨some (.err .cancelled), [0], 0⟩, ⟨none, [], 0⟩],
       items := [⟨0, 1, none, none, some (.val 42)⟩] }⟩] = "every-change-logged-once@cancel" := by decide

/-- ... a cancelled DebugBatch whose item gets its `_result` instead of the cancellation error ... -/
example : specClause .debug [add0 .debug,
    ⟨.cancel 0 none, .unit, [.item 0 (.val 1) false, .announce 0 [] 1],
     { kind := .debug, active := 1, batches := [⟨some (.err .cancelled), [0], 0⟩, ⟨none, [], 0⟩],
       items := [⟨0, 1, none, none, some (.val 1)⟩] }⟩] = "leftover-outcome@cancel" := by decide

/-- ... the same item completed twice within one operation ... -/
example : specClause .user [add0 .user,
    ⟨.cancel 0 none, .unit, [.item 0 (.err .cancelled) false, .item 0 (.err .cancelled) false, .announce 0 [] 1],
     { kind := .user, active := 1, batches := [⟨some (.err .cancelled), [0], 0⟩, ⟨none, [], 0⟩],
       items := [⟨0, 1, none, none, some (.err .cancelled)⟩] }⟩] = "every-change-logged-once@cancel" := by decide

/-- ... `flush()` that keeps the item list although KEEP_DEPENDENCIES is off ... -/
example : specClause .user [add0 .user,
    ⟨.flush 0, .unit, [.body 0 1, .bodyEnd 0 none none, .item 0 (.err .notSet) false, .announce 0 [] 1],
     { kind := .user, active := 1, batches := [⟨some (.val 0), [0], 1⟩, ⟨none, [], 0⟩],
       items := [⟨0, 1, none, none, some (.err .notSet)⟩] }⟩] = "keep-dependencies@flush" := by decide

/-- ... or clears it although KEEP_DEPENDENCIES is on ... -/
example : specClause .user [add0 .user true,
    ⟨.flush 0, .unit, [.body 0 1, .bodyEnd 0 none none, .item 0 (.err .notSet) false, .announce 0 [] 1],
     { kind := .user, keep := true, active := 1, batches := [⟨some (.val 0), [], 1⟩, ⟨none, [], 0⟩],
       items := [⟨0, 1, none, none, some (.err .notSet)⟩] }⟩] true = "keep-dependencies@flush" := by decide

/-- ... an item of the batch completed after the batch's announcement ... -/
example : specClause .user [add0 .user,
    ⟨.cancel 0 none, .unit, [.announce 0 [] 1, .item 0 (.err .cancelled) false],
     { kind := .user, active := 1, batches := [⟨some (.err .cancelled), [0], 0⟩, ⟨none, [], 0⟩],
       items := [⟨0, 1, none, none, some (.err .cancelled)⟩] }⟩] = "items-before-announce@cancel" := by decide

/-- ... and a flush that creates two fresh batches -/
example : specClause .user [add0 .user,
    ⟨.flush 0, .unit, [.body 0 2, .bodyEnd 0 none none, .item 0 (.err .notSet) false, .announce 0 [] 2],
     { kind := .user, active := 2, batches := [⟨some (.val 0), [], 1⟩, ⟨none, [], 0⟩, ⟨none, [], 0⟩],
       items := [⟨0, 1, none, none, some (.err .notSet)⟩] }⟩] = "fresh-batch@flush" := by decide

/-! ### wrong observations of the second audit (N9), now rejected -/

/-- flush of DebugBatch 0 also completes, with its `_result`, the item that a spawn handler has just put on the FRESH
    pending batch 1 (the last sentence of C11 defeated for DebugBatch) ... -/
example : specClause .debug
  [⟨.add 1 (some 4) none, .created 0, [.created 0 0 none],
     { kind := .debug, active := 0, batches := [⟨none, [0], 0⟩], items := [⟨0, 1, some 4, none, none⟩] }⟩,
   ⟨.flush 0, .unit, [.item 0 (.val 1) false, .created 1 1 (some 0), .item 1 (.val 4) false, .announce 0 [] 1],
     { kind := .debug, active := 1, batches := [⟨some (.val 0), [], 0⟩, ⟨none, [1], 0⟩],
       items := [⟨0, 1, some 4, none, some (.val 1)⟩, ⟨1, 4, none, none, some (.val 4)⟩] }⟩]
  = "item-of-other-batch@flush" := by decide

/-- ... a DebugBatch flush that ends with FutureIsAlreadyComputed although no item was complete before and no handler
    completed anything ... -/
example : specClause .debug [add0 .debug,
  ⟨.flush 0, .unit, [.item 0 (.err .already) false, .announce 0 [] 1],
   { kind := .debug, active := 1, batches := [⟨some (.err .already), [], 0⟩, ⟨none, [], 0⟩],
     items := [⟨0, 1, none, none, some (.err .already)⟩] }⟩] = "flush-outcome@flush" := by decide

/-- ... (the legitimate one: a handler of item 0 completes item 1 before `_flush` reaches it - accepted) ... -/
example : spec .debug (run [] (init .debug) [.add 1 none (some ⟨1, false, 5⟩), .add 2 none none, .flush 0]) = true ∧
    (finalState [] (init .debug) [.add 1 none (some ⟨1, false, 5⟩), .add 2 none none, .flush 0]).bout 0
      = some (.err .already) := by decide

def cancel0 : Obs := ⟨.cancel 0 none, .unit, [.item 0 (.err .cancelled) false, .announce 0 [] 1],
   { kind := .user, active := 1, batches := [⟨some (.err .cancelled), [0], 0⟩, ⟨none, [], 0⟩],
     items := [⟨0, 1, none, none, some (.err .cancelled)⟩] }⟩

/-- ... an operation on batch 1 that empties the kept item list of the finished batch 0 ... -/
example : specClause .user [add0 .user, cancel0,
  ⟨.flush 1, .unit, [.body 1 2, .bodyEnd 1 none none, .announce 1 [] 2],
   { kind := .user, active := 2, batches := [⟨some (.err .cancelled), [], 0⟩, ⟨some (.val 0), [], 1⟩, ⟨none, [], 0⟩],
     items := [⟨0, 1, none, none, some (.err .cancelled)⟩] }⟩] = "items-frame@flush" := by decide

/-- ... or turns it into [0, 0, 0] ... -/
example : specClause .user [add0 .user, cancel0,
  ⟨.flush 1, .unit, [.body 1 2, .bodyEnd 1 none none, .announce 1 [] 2],
   { kind := .user, active := 2, batches := [⟨some (.err .cancelled), [0,0,0], 0⟩, ⟨some (.val 0), [], 1⟩, ⟨none, [], 0⟩],
     items := [⟨0, 1, none, none, some (.err .cancelled)⟩] }⟩] = "items-frame@flush" := by decide

/-- ... and a library that completes the leftover item with "not set" BEFORE the flush body has ended -/
example : specClause .user [add0 .user,
  ⟨.flush 0, .unit, [.body 0 1, .item 0 (.err .notSet) false, .bodyEnd 0 none none, .announce 0 [] 1],
   { kind := .user, active := 1, batches := [⟨some (.val 0), [], 1⟩, ⟨none, [], 0⟩],
     items := [⟨0, 1, none, none, some (.err .notSet)⟩] }⟩] = "leftover-before-body-end@flush" := by decide

/-! ### completion handlers that complete a sibling (`link`)

Three items, none set by anybody; item 0's handler completes item 1 with value 5; item 2's handler would complete
item 0 (already complete by then).  `cancel()` completes item 0 with the cancellation error, the handler completes
item 1, the loop of `_computed` skips item 1 and completes item 2; one announcement, nothing pending. -/
def linkOps : List Op :=
  [.add 1 none (some ⟨1, false, 5⟩), .add 2 none none, .add 3 none (some ⟨0, true, 2⟩)]

example : ((run [] (init .user) (linkOps ++ [.cancel 0 none]))[3]?).map (·.evs) = some
    [.item 0 (.err .cancelled) false, .item 1 (.val 5) true, .item 2 (.err .cancelled) false, .announce 0 [] 1] := by
  decide

example : spec .user (run [] (init .user) (linkOps ++ [.cancel 0 none, .itemValue 1, .flush 0])) = true := by decide

/-- the same under `flush()` with a body that sets nothing, and under KEEP_DEPENDENCIES -/
example : ((run [[]] (init .user true) (linkOps ++ [.flush 0]))[3]?).map (fun ob => (ob.evs, ob.post.bitems 0)) = some
    ([.body 0 1, .bodyEnd 0 none none, .item 0 (.err .notSet) false, .item 1 (.val 5) true,
      .item 2 (.err .notSet) false, .announce 0 [] 1], [0, 1, 2]) := by decide

/-- a chain of handlers: the flush body sets item 2, whose handler completes item 0, whose handler completes item 1 -/
example : ((run [[.setValue 2 7]] (init .user)
      [.add 1 none (some ⟨1, false, 5⟩), .add 2 none none, .add 3 none (some ⟨0, true, 2⟩), .flush 0])[3]?).map (·.evs) =
    some [.body 0 1, .item 2 (.val 7) true, .item 0 (.err (.user 2)) true, .item 1 (.val 5) true,
          .bodyEnd 0 none none, .announce 0 [] 1] := by
  decide

/-- DebugBatch: `_flush` sets item 0, the handler completes item 1, then `_flush` itself reaches item 1 and its
    `set_value` raises FutureIsAlreadyComputed out of the body: the batch fails with that error, item 2 gets it -/
example : ((run [] (init .debug) (linkOps ++ [.flush 0, .batchError 0]))).map (·.res) =
    [.created 0, .created 1, .created 2, .unit, .errIs (some .already)] := by decide

/-- the observer rejects what a `_computed` working on a stale snapshot of the unset items does: `cancel()` raises -/
example : specClause .user
    [⟨.add 1 none (some ⟨1, false, 5⟩), .created 0, [.created 0 0 none],
      { kind := .user, active := 0, batches := [⟨none, [0], 0⟩], items := [⟨0, 1, none, some ⟨1, false, 5⟩, none⟩] }⟩,
     ⟨.add 2 none none, .created 1, [.created 1 0 none],
      { kind := .user, active := 0, batches := [⟨none, [0, 1], 0⟩],
        items := [⟨0, 1, none, some ⟨1, false, 5⟩, none⟩, ⟨0, 2, none, none, none⟩] }⟩,
     ⟨.cancel 0 none, .raised .already, [.item 0 (.err .cancelled) false, .item 1 (.val 5) true],
      { kind := .user, active := 1, batches := [⟨some (.err .cancelled), [0, 1], 0⟩, ⟨none, [], 0⟩],
        items := [⟨0, 1, none, some ⟨1, false, 5⟩, some (.err .cancelled)⟩, ⟨0, 2, none, none, some (.val 5)⟩] }⟩]
    = "cancel-total@cancel" := by decide

end AsynqModel.Batching
