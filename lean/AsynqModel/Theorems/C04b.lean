import AsynqModel.Proofs.P19Final
import AsynqModel.Proofs.P13Obs
/-!
# C04 (flush-count clause)  A single-kind computation performs exactly as many flushes as its longest chain of dependent requests

`Seq.roundsTop cfg body` is the reference count: the length of the longest chain of sequentially dependent batch
requests of `body` (`Seq.roundsBody`: an item created when `r` flushes have happened is complete after flush `r + 1`,
a child task starts when it is first awaited, a `yield` waits for the slowest leaf).

**Theorem** (`C04_flush_count`).  Let `tops` be top-level computations that are
* yield-only (`Spec.bodyHasSync = false`), without NonAsyncContext (`Spec.bodyHasNonAsync = false`),
* well-scoped (`P6.wsBody`, the Lean counterpart of `harness/coregen.py: well_scoped`),
* tree-shaped (`Spec.bodyShares = false`: no future is handed to a child) and
* single-kind (every batch item has kind `k0`)
(`P19.ProgOK k0 tops`).  In every state reachable from `initState cfg tops choices` (any configuration: priorities,
raising flush, KEEP_DEPENDENCIES; any flush oracle; any number of steps) that is not stuck and in which the
MAX_TASK_STACK_SIZE guard has not fired, every `ret` event of the trace is preceded - since the `top i conv` event
that opened its computation - by exactly `roundsTop cfg body_i` scheduler flushes (`flushB` events).

This is an optimality statement about the scheduler: (≥) a flush can only complete items that exist, so a chain of
`k` dependent requests needs `k` flushes; (≤) at each flush every task that could run has run
(`C04_settled_at_flush`), so each flush retires a whole level.  The proof (`Proofs/P19*.lean`) maintains a
*prediction*: every future reachable from the root carries the `FutR` descriptor `roundsBody` would give it, and the
descriptor of a started task is `roundsBody` of its remaining program; each machine step preserves the prediction of
the root, a flush increments the counter without changing it because the root is settled.

Hypotheses that are needed (machine-checked counterexamples below): no NonAsyncContext, guard not fired, tree shape,
single kind.  `Spec.checkC04` tests `hasSync`, `treeShaped`, `singleKind` only, so on traces of programs *with* a
NonAsyncContext (or when the guard fires) it can answer "flush-count-differs-from-longest-chain" although the
scheduler is right (`C04b_nonasync_counterexample`); for all other programs it never does
(`Spec_C04_flush_count_accepts`).
-/
namespace AsynqModel.Core
open AsynqModel.Core.P19

/-- **C04 (flush count)**, trace form. -/
theorem C04_flush_count (k0 : Nat) (cfg : Cfg) (tops : List (Conv × Body)) (choices : List (Nat × Nat))
    (hP : ProgOK k0 tops) (s : State) (h : ReachFrom cfg tops choices s) (hs : s.stuck = none)
    (hg : s.guardFired = false) (l1 l2 : List Event) (o : Outcome) (htr : s.trace = l1 ++ .ret o :: l2) :
    ∃ conv body, tops[topOf l2]? = some (conv, body) ∧ fcount l2 = roundsTop cfg body :=
  (minv_reach hP h hs hg).tr l1 l2 o htr

/-- the same for `runFuel` -/
theorem C04_flush_count_run (k0 : Nat) (cfg : Cfg) (tops : List (Conv × Body)) (choices : List (Nat × Nat))
    (hP : ProgOK k0 tops) (n : Nat) (hs : (runFuel n (initState cfg tops choices)).stuck = none)
    (hg : (runFuel n (initState cfg tops choices)).guardFired = false) (l1 l2 : List Event) (o : Outcome)
    (htr : (runFuel n (initState cfg tops choices)).trace = l1 ++ .ret o :: l2) :
    ∃ conv body, tops[topOf l2]? = some (conv, body) ∧ fcount l2 = roundsTop cfg body :=
  C04_flush_count k0 cfg tops choices hP _ (reachFrom_runFuel cfg tops choices n) hs hg l1 l2 o htr

/-- state form: when `wait_for(root)` has returned and the result is about to be handed to the caller, the number of
    flushes of this computation is `roundsTop` of its body; while the computation runs the root is described by the
    prediction invariant `P19.E` -/
theorem C04_flush_count_state (k0 : Nat) (cfg : Cfg) (tops : List (Conv × Body)) (choices : List (Nat × Nat))
    (hP : ProgOK k0 tops) (s : State) (hR : ReachFrom cfg tops choices s) (hs : s.stuck = none)
    (hg : s.guardFired = false) (root : Nat) (hcur : s.curTop = some root) :
    ∃ conv body, tops[topOf s.trace]? = some (conv, body) ∧
      (s.computed root = true → fcount s.trace = roundsTop cfg body) ∧
      (s.computed root = false → fcount s.trace ≤ roundsTop cfg body) := by
  obtain ⟨conv, body, h1, hE⟩ := (minv_reach hP hR hs hg).main root hcur
  refine ⟨conv, body, h1, ?_, ?_⟩
  · intro hc
    rcases hE with ⟨_, hn⟩ | ⟨hc', _⟩
    · exact hn
    · rw [hc] at hc'; cases hc'
  · intro hc
    rcases hE with ⟨hc', _⟩ | ⟨_, fin, hfr, hloc⟩
    · rw [hc] at hc'; cases hc'
    · rcases hfr with h | ⟨_, h0, _⟩
      · have L := hloc root .root
        cases hst : (P6.view s root).started with
        | false =>
          obtain ⟨_, _, _, _, hk, _⟩ := ((P4.good_tr_reach (hR.ws hP).2 hs hg
            (noNonAsync_of_noNA (P6.inv6 s (P6.reachYO_of_ws s (hR.ws hP).1 hs hg).1 hs hg).a.noNA)).2.ti).cur root hcur
          have := L.fresh (P6.out_none_of_uncomputed hc) hk hst
          rw [h] at this; cases this
        | true =>
          obtain ⟨_, _, _, _, hk, _⟩ := ((P4.good_tr_reach (hR.ws hP).2 hs hg
            (noNonAsync_of_noNA (P6.inv6 s (P6.reachYO_of_ws s (hR.ws hP).1 hs hg).1 hs hg).a.noNA)).2.ti).cur root hcur
          obtain ⟨pv, q, LL⟩ := L.live ⟨hk, P6.out_none_of_uncomputed hc, hst⟩
          rw [LL.hfin] at h
          injection h with h
          have := (pr_shift s.cfg 0 (P6.view s root).body (P6.view s root).conts (fcount s.trace)
            ((P6.view s root).own.map fin) _ (Inv.dens s (P6.view s root).own) pv (TR.refl0 _ _)).2
          rw [← LL.hpr] at this
          omega
      · omega

/-! ### the observer `Spec.checkC04` never reports the flush count of a machine trace -/

theorem watch_flushCount (w : Spec.Watch) (e : Event) :
    (Spec.watchEvent w e).flushCount =
      (match e with | .top _ _ => 0 | .flushB _ _ _ _ _ => w.flushCount + 1 | _ => w.flushCount) := by
  cases e with
  | new f k => cases k <;> simp [Spec.watchEvent] <;> split <;> rfl
  | ctx r c => cases r <;> rfl
  | yield t i y => simp [Spec.watchEvent, Spec.Watch.mention]
  | syncE t f => simp [Spec.watchEvent, Spec.Watch.mention]
  | _ => rfl

theorem watch_topIdx (w : Spec.Watch) (e : Event) :
    (Spec.watchEvent w e).topIdx = (match e with | .top i _ => i | _ => w.topIdx) := by
  cases e with
  | new f k => cases k <;> simp [Spec.watchEvent] <;> split <;> rfl
  | ctx r c => cases r <;> rfl
  | yield t i y => simp [Spec.watchEvent, Spec.Watch.mention]
  | syncE t f => simp [Spec.watchEvent, Spec.Watch.mention]
  | _ => rfl

theorem obs_flushCount (tr : List Event) : (P13.obs tr).flushCount = fcount tr := by
  induction tr with
  | nil => rfl
  | cons e tr ih =>
    rw [P13.obs_cons, watch_flushCount, ih]
    cases e <;> rfl

theorem obs_topIdx (tr : List Event) : (P13.obs tr).topIdx = topOf tr := by
  induction tr with
  | nil => rfl
  | cons e tr ih =>
    rw [P13.obs_cons, watch_topIdx, ih]
    cases e <;> rfl

/-- a violation reported by `specRun` is a violation of one event in the observer state after the events before it -/
theorem specRun_some (chk : Spec.Ctx → Spec.Watch → Event → Option String) (c : Spec.Ctx) :
    ∀ (l : List Event) (w : Spec.Watch) (i j : Nat) (msg : String), Spec.specRun chk c w i l = some (j, msg) →
      ∃ pre e post, l = pre ++ e :: post ∧ chk c (pre.foldl Spec.watchEvent w) e = some msg := by
  intro l
  induction l with
  | nil => intro w i j msg h; simp [Spec.specRun] at h
  | cons a l ih =>
    intro w i j msg h
    simp only [Spec.specRun] at h
    cases hc : chk c w a with
    | some m =>
      rw [hc] at h
      simp at h
      exact ⟨[], a, l, rfl, by show chk c w a = some msg; rw [hc, h.2]⟩
    | none =>
      rw [hc] at h
      obtain ⟨pre, e, post, h1, h2⟩ := ih _ _ _ _ h
      exact ⟨a :: pre, e, post, by rw [h1]; rfl, h2⟩

theorem eraseDups_nil_iff {l : List Nat} (h : l.eraseDups = []) : l = [] := by
  cases l with
  | nil => rfl
  | cons a l => rw [List.eraseDups_cons] at h; cases h

theorem single_kind {l : List Nat} (h : l.eraseDups.length ≤ 1) : ∃ k0, ∀ k ∈ l, k = k0 := by
  cases l with
  | nil => exact ⟨0, by simp⟩
  | cons a l =>
    rw [List.eraseDups_cons] at h
    have h2 : (List.filter (fun b => !b == a) l).eraseDups = [] := by
      cases hh : (List.filter (fun b => !b == a) l).eraseDups with
      | nil => rfl
      | cons x y => rw [hh] at h; simp at h
    have h3 := eraseDups_nil_iff h2
    refine ⟨a, fun k hk => ?_⟩
    rcases List.mem_cons.1 hk with e | e
    · exact e
    · have hk' : k ∉ List.filter (fun b => !b == a) l := by rw [h3]; simp
      rw [List.mem_filter] at hk'
      have : ¬ ((!k == a) = true) := fun hh => hk' ⟨e, hh⟩
      simpa using this

/-- the static flags of `Spec.mkCtx` give the hypotheses of the theorem -/
theorem progOK_of_ctx (cfg : Cfg) (tops : List (Conv × Body))
    (h0 : ∀ p ∈ tops, Spec.bodyHasNonAsync p.2 = false ∧ P6.wsBody p.2 = true)
    (h1 : (Spec.mkCtx cfg tops).hasSync = false) (h2 : (Spec.mkCtx cfg tops).treeShaped = true)
    (h3 : (Spec.mkCtx cfg tops).singleKind = true) : ∃ k0, ProgOK k0 tops := by
  have hs : ∀ p ∈ tops, Spec.bodyHasSync p.2 = false := by
    intro p hp
    have : (tops.any fun p => Spec.bodyHasSync p.2) = false := h1
    rw [List.any_eq_false] at this
    simpa using this p hp
  have ht : ∀ p ∈ tops, Spec.bodyShares p.2 = false := by
    intro p hp
    have : (!(tops.any fun p => Spec.bodyShares p.2)) = true := h2
    have h' : (tops.any fun p => Spec.bodyShares p.2) = false := by simpa using this
    rw [List.any_eq_false] at h'
    simpa using h' p hp
  have hk : ((tops.map fun p => Spec.bodyKinds p.2).flatten.eraseDups.length ≤ 1) := by
    have : decide ((tops.map fun p => Spec.bodyKinds p.2).flatten.eraseDups.length ≤ 1) = true := h3
    exact of_decide_eq_true this
  obtain ⟨k0, hk0⟩ := single_kind hk
  refine ⟨k0, fun p hp => ⟨hs p hp, (h0 p hp).1, (h0 p hp).2, ht p hp, fun k hkk => hk0 k ?_⟩⟩
  rw [List.mem_flatten]
  exact ⟨Spec.bodyKinds p.2, List.mem_map.2 ⟨p, hp, rfl⟩, hkk⟩

/-- **Observer corollary**: on the trace of a well-scoped program without NonAsyncContext (state not stuck, guard
    not fired) `Spec.checkC04` never answers "flush-count-differs-from-longest-chain". -/
theorem Spec_C04_flush_count_accepts (cfg : Cfg) (tops : List (Conv × Body)) (choices : List (Nat × Nat))
    (h0 : ∀ p ∈ tops, Spec.bodyHasNonAsync p.2 = false ∧ P6.wsBody p.2 = true)
    (s : State) (h : ReachFrom cfg tops choices s) (hs : s.stuck = none) (hg : s.guardFired = false)
    (i : Nat) (msg : String) (hv : Spec.spec "C04" (Spec.mkCtx cfg tops) s.trace.reverse = some (i, msg)) :
    msg ≠ "flush-count-differs-from-longest-chain" := by
  intro hmsg
  have hv' : Spec.specRun Spec.checkC04 (Spec.mkCtx cfg tops) {} 0 s.trace.reverse = some (i, msg) := hv
  obtain ⟨pre, e, post, hsplit, hchk⟩ := specRun_some _ _ _ _ _ _ _ hv'
  have htr : s.trace = post.reverse ++ e :: pre.reverse := by
    have := congrArg List.reverse hsplit
    simpa using this
  have hw : pre.foldl Spec.watchEvent {} = P13.obs pre.reverse := by rw [P13.obs_eq]; simp
  rw [hw, hmsg] at hchk
  cases e with
  | ret o =>
    simp only [Spec.checkC04] at hchk
    split at hchk
    · cases hchk
    · rename_i hflags
      simp only [Bool.or_eq_true, Bool.not_eq_true', not_or, Bool.not_eq_true, Bool.not_eq_false] at hflags
      obtain ⟨k0, hP⟩ := progOK_of_ctx cfg tops h0 hflags.1.1 hflags.1.2 hflags.2
      obtain ⟨conv, body, h1, h2⟩ := C04_flush_count k0 cfg tops choices hP s h hs hg _ _ o htr
      rw [obs_topIdx, obs_flushCount] at hchk
      have ht : (Spec.mkCtx cfg tops).tops[topOf pre.reverse]? = some (conv, body) := h1
      rw [ht] at hchk
      simp only at hchk
      have hc : (Spec.mkCtx cfg tops).cfg = cfg := rfl
      rw [hc, h2] at hchk
      simp at hchk
  | flushB k q items prio pend =>
    simp only [Spec.checkC04] at hchk
    split at hchk
    · cases hchk
    · split at hchk
      · split at hchk
        · cases hchk
        · exact absurd (Option.some.inj hchk) (by decide)
      · exact absurd (Option.some.inj hchk) (by decide)
  | bad m => exact absurd (Option.some.inj hchk) (by decide)
  | _ => cases hchk

/-! ## non-vacuity -/

/-- a chain of `n` sequentially dependent requests: request, await it, then a child that does the same -/
def C04b_chain : Nat → Body
  | 0 => .ret 0
  | n + 1 => .item 0 n .ok (.yld (.f (.own 0)) (.spawn (C04b_chain n) [] (.yld (.f (.own 1)) (.ret 1) .reraise)) .reraise)

/-- a tree with branches of different depth: a chain of two; a branch whose first request is left unset by the
    flush (the handler issues a failing request and awaits both); and a request of the root itself, all awaited
    through a dict -/
def C04b_tree : Body :=
  .spawn (C04b_chain 2) [] (.spawn (.item 0 7 .unset (.yld (.f (.own 0)) (.ret 1)
      (.item 0 8 (.err 3) (.yld (.lst [.f (.own 1), .f (.own 0)]) (.ret 2) (.ret 3))))) []
    (.item 0 9 .ok (.yld (.dict [1, 2, 3] [.f (.own 0), .f (.own 1), .f (.own 2)]) (.ret 4) .reraise)))

def C04b_run (cfg : Cfg) (tops : List (Conv × Body)) (n : Nat) : State := runFuel n (initState cfg tops [])

/-- the hypotheses on the program hold for both (so the theorem applies to every state of their runs) -/
theorem C04b_progOK : ProgOK 0 [(.value, C04b_chain 2), (.call, C04b_tree)] := by
  unfold ProgOK SB
  decide

set_option maxRecDepth 20000 in
/-- the run of the two computations ends after 126 steps, not stuck, guard not fired; the chain of two needs two
    flushes and so does the tree (its deepest branch): the trace holds 2 `top`, 4 `flushB` and 2 `ret` events;
    `roundsTop` says the same -/
example : (C04b_run {} [(.value, C04b_chain 2), (.call, C04b_tree)] 130).isDone = true ∧
    (C04b_run {} [(.value, C04b_chain 2), (.call, C04b_tree)] 130).stuck = none ∧
    (C04b_run {} [(.value, C04b_chain 2), (.call, C04b_tree)] 130).guardFired = false ∧
    roundsTop {} (C04b_chain 2) = 2 ∧ roundsTop {} C04b_tree = 2 ∧
    ((C04b_run {} [(.value, C04b_chain 2), (.call, C04b_tree)] 130).trace.filterMap fun
      | .flushB .. => some 0 | .ret _ => some 1 | .top .. => some 2 | _ => none) = [1, 0, 0, 2, 1, 0, 0, 2] := by
  decide

set_option maxRecDepth 20000 in
/-- the theorem applied to this run: every `ret` event of its trace closes a computation with exactly `roundsTop`
    flushes -/
example : ∀ l1 l2 o, (C04b_run {} [(.value, C04b_chain 2), (.call, C04b_tree)] 130).trace = l1 ++ .ret o :: l2 →
    ∃ conv body, [(Conv.value, C04b_chain 2), (Conv.call, C04b_tree)][topOf l2]? = some (conv, body) ∧
      fcount l2 = roundsTop {} body :=
  fun l1 l2 o h => C04_flush_count_run 0 {} _ [] C04b_progOK 130 (by decide) (by decide) l1 l2 o h

set_option maxRecDepth 20000 in
/-- the observer accepts the trace -/
example : Spec.spec "C04" (Spec.mkCtx {} [(.value, C04b_chain 2), (.call, C04b_tree)])
    (C04b_run {} [(.value, C04b_chain 2), (.call, C04b_tree)] 130).trace.reverse = none := by decide

/-! ## the hypotheses are needed -/

/-- a task suspended inside a NonAsyncContext is failed when it is paused, before the request it waits for is
    flushed: the computation ends with 0 flushes where `roundsTop` counts 1, and `Spec.checkC04` - which does not look
    at `hasNonAsync` - reports the flush count -/
def C04b_na : Body :=
  .spawn (.withCtx .nonasync (.item 0 1 .ok (.yld (.f (.own 0)) .endwith .endwith)) (.ret 1)) []
    (.yld (.f (.own 0)) (.ret 2) (.ret 3))

theorem C04b_nonasync_counterexample :
    (C04b_run {} [(.value, C04b_na)] 200).isDone = true ∧ (C04b_run {} [(.value, C04b_na)] 200).stuck = none ∧
    (C04b_run {} [(.value, C04b_na)] 200).guardFired = false ∧
    fcount (C04b_run {} [(.value, C04b_na)] 200).trace = 0 ∧ roundsTop {} C04b_na = 1 ∧
    Spec.bodyHasSync C04b_na = false ∧ Spec.bodyShares C04b_na = false ∧ P6.wsBody C04b_na = true ∧
    Spec.spec "C04" (Spec.mkCtx {} [(.value, C04b_na)]) (C04b_run {} [(.value, C04b_na)] 200).trace.reverse =
      some (13, "flush-count-differs-from-longest-chain") := by decide

/-- when the MAX_TASK_STACK_SIZE guard fires the computation is aborted: 0 flushes instead of 2 -/
theorem C04b_guard_counterexample :
    (C04b_run { maxStack := 1 } [(.value, C04b_chain 2)] 200).isDone = true ∧
    (C04b_run { maxStack := 1 } [(.value, C04b_chain 2)] 200).guardFired = true ∧
    fcount (C04b_run { maxStack := 1 } [(.value, C04b_chain 2)] 200).trace = 0 ∧
    roundsTop { maxStack := 1 } (C04b_chain 2) = 2 := by decide

/-- a future handed to a child (`bodyShares`): `roundsTop` does not follow inherited futures (0), the run needs one
    flush -/
def C04b_dag : Body :=
  .item 0 1 .ok (.spawn (.yld (.f (.inh 0)) (.ret 1) (.ret 2)) [.own 0] (.yld (.f (.own 1)) (.ret 3) (.ret 4)))

theorem C04b_shared_counterexample :
    (C04b_run {} [(.value, C04b_dag)] 200).isDone = true ∧ (C04b_run {} [(.value, C04b_dag)] 200).stuck = none ∧
    fcount (C04b_run {} [(.value, C04b_dag)] 200).trace = 1 ∧ roundsTop {} C04b_dag = 0 ∧
    Spec.bodyShares C04b_dag = true := by decide

/-- two batch kinds awaited together: two flushes (one per kind), `roundsTop` counts one round -/
def C04b_two : Body :=
  .item 0 1 .ok (.item 1 2 .ok (.yld (.tup [.f (.own 0), .f (.own 1)]) (.ret 1) (.ret 2)))

theorem C04b_two_kinds_counterexample :
    (C04b_run {} [(.value, C04b_two)] 200).isDone = true ∧ (C04b_run {} [(.value, C04b_two)] 200).stuck = none ∧
    fcount (C04b_run {} [(.value, C04b_two)] 200).trace = 2 ∧ roundsTop {} C04b_two = 1 ∧
    Spec.bodyKinds C04b_two = [0, 1] := by decide

end AsynqModel.Core
