import AsynqModel.Proofs.P29Chain
import AsynqModel.Theorems.C06d
import AsynqModel.Theorems.NoNA
/-!
# C07 for SHARED tasks: what a task reads from a scoped variable in ANY well-scoped program (DAGs included)
# (second audit, `audit/AUDIT2-core.md` item 9)

`Spec_C07_read_value` (Theorems/SpecC07.lean) and `C07_reads_sequential` (Theorems/C07c.lean) say what a task reads only
when every task on its awaiting chain has exactly one awaiter (`Spec.Watch.chain = some _`), resp. for tree-shaped
programs.  For a task awaited by two tasks the observer makes no claim.  Here is the statement for all well-scoped
programs; it is `C06_resumed_iff_on_spine` (Theorems/C06d.lean: the resumed contexts are those of the running task and of
the awaiters through which the scheduler's depth-first walk reached it) combined with `C07_values_any` (Theorems/NoNA.lean:
a scoped variable has the value of the innermost resumed override).

Executable vocabulary (Proofs/P29Spine.lean), everything read off the state:
* `P29.live s t`       : `t` is an uncomputed task whose `_contexts_active` flag is set;
* `P29.spine s`        : the `live` entries of the scheduler's task stack, top first, each at its first occurrence;
* `P29.openBlocks s t` : the contexts of the open with-blocks of `t`, latest entered first;
* `P29.spineBlocks s`  : the open blocks of the tasks of the spine, nearest task first;
* `P29.spineOverride s var` : the value of the first override of `var` in `spineBlocks s`, else 0 (`P7.expect`).

Theorems.
* `C07_read_value_dag`: in EVERY state of a run of well-scoped programs (guard not fired) - in particular while the code
  of a task `u` runs -: `s.svGet var = P29.spineOverride s var`.
* `C07_spine_label_chain`: while the code of `u` runs, for a labelling `L` of the task stack (`P17.LabA`: every entry
  labelled with the task on whose behalf it was pushed): `P29.spine s = u :: P17.lspine L` - `u`, the label of `u`'s
  entry, the label of that task's entry, ... down to the root; every one of them waits for `u`; the callers of the
  synchronous calls in progress are among them.  `C07_spine_unique`: every labelling that satisfies `P26.Spine` (the
  hypothesis of both theorems; not every `P17.LabA` labelling) gives the same chain.
* `C07_resumed_iff_on_spine`: the executable form of `C06_resumed_iff_on_spine`: an AsyncContext of an open with-block
  of `t` is resumed iff `t ∈ P29.spine s` (any state).
* `C07_read_value_tree`: whenever the observer of C07 makes a claim about a read of the running task `u`
  (`Watch.chain = some ch`: every task on the chain has exactly one awaiter - the observer's own condition, which is
  what tree shape is for; that the chain IS defined for every tree-shaped program is not proved here), its chain IS
  the spine and its expectation is `spineOverride`; `Spec_C07_read_value_spine` is `Spec_C07_read_value_any` restated.
* `C07_shared_read_depends_on_scheduler`: one program, one configuration, two flush oracles: the shared task reads 11
  when the scheduler reaches it through awaiter A and 22 when it reaches it through awaiter B.  What a shared task
  reads depends on who scheduled it first; `spineOverride` predicts both.  In the second run the SAME task reads 22 and
  later 11 (`C07d_both_await`: at that moment both awaiters wait for it and the observer makes no claim).
* `C07d_long_spine`: a spine with the task's own nested blocks, a synchronous caller and the root.
* `C07d_needs_guard`, `C07d_needs_wellscoped`: machine-checked states in which the equation fails without the hypothesis.

Hypotheses: well-scoped programs (an ill-scoped one can build an await cycle, `SpecC07_bad`) and `guardFired = false`
(`SpecC07_guard`: the guard throws the task stack away while contexts stay resumed) - those of `C07_values_any`.  None
about NonAsyncContexts, `stuck`, or the shape of the program.
-/
namespace AsynqModel.Core
open P12 P17

/-- **C07_read_value_dag**: in every state of a run of well-scoped programs in which the stack guard has not fired -
    in particular while the code of any task runs, shared or not - every scoped variable has the value of the innermost
    open override among the open with-blocks of the tasks on the spine (nearest task first, latest entered first), else 0. -/
theorem C07_read_value_dag (s : State) (h : P10.WSReach s) (hg : s.guardFired = false) (var : Nat) :
    s.svGet var = P29.spineOverride s var :=
  P29.read_value h hg var

/-- the form of the assignment: while the code of task `u` runs (`gen u _` at the head of the Python stack), what a
    `.read var` of `u` reports is `spineOverride s var`, and the spine starts with `u` -/
theorem C07_read_value_dag_running (s : State) (h : P10.WSReach s) (hg : s.guardFired = false) (u : Nat)
    (old : Option Nat) (rest : List Ctl) (hctl : s.ctl = .gen u old :: rest) (var : Nat) :
    s.svGet var = P29.spineOverride s var ∧ (P29.spine s).head? = some u := by
  refine ⟨P29.read_value h hg var, ?_⟩
  obtain ⟨L, sp⟩ := P26.spine_reach h hg
  rw [P29.spine_eq_lspine h hg sp hctl]; rfl

/-- the same for a run from an initial state -/
theorem C07_read_value_dag_run (cfg : Cfg) (tops : List (Conv × Body)) (choices : List (Nat × Nat)) (s : State)
    (h : P13.ReachFrom (initState cfg tops choices) s) (hws : ∀ p, p ∈ tops → P10.WellScoped p.2 0 0 = true)
    (hg : s.guardFired = false) (var : Nat) : s.svGet var = P29.spineOverride s var :=
  P29.read_value (wsreach_of_reachFrom h hws) hg var

/-- **C07_spine_label_chain**: while the code of `u` runs there is a labelling `L` of the task stack (every entry but
    the bottom one labelled with a task that directly waits for it and has active contexts, the label of an entry
    being the next entry or the label of the next entry) such that the spine is `u`, the label of `u`'s entry, the
    label of that task's entry, ...; all of them wait for `u`; the callers of synchronous calls are on it. -/
theorem C07_spine_label_chain (s : State) (h : P10.WSReach s) (hg : s.guardFired = false) (u : Nat)
    (old : Option Nat) (rest : List Ctl) (hctl : s.ctl = .gen u old :: rest) :
    ∃ L : List (Nat × Nat), L.map Prod.fst = s.stack ∧ LabA s L ∧ P29.spine s = u :: lspine L ∧
      (∀ q ∈ P29.spine s, awaitsStar s q u) ∧ (∀ cl ∈ P2.gens s.ctl, cl ∈ P29.spine s) := by
  obtain ⟨L, sp⟩ := P26.spine_reach h hg
  have he := P29.spine_eq_lspine h hg sp hctl
  have hd := (P10.ws_cinv h hg).disc
  rw [hctl] at hd
  have hhead : s.stack.head? = some u := disc_gen_head hd
  have pi := P2.pinv_reach h.reach
  refine ⟨L, sp.stk, sp.lab, he, ?_, ?_⟩
  · intro q hq
    rw [he] at hq
    rcases List.mem_cons.1 hq with e | hq
    · rw [e]; exact .refl _
    · exact sp.label_awaits hhead (lspine_sub _ sp.lab q hq).1
  · intro cl hcl
    have hl : P29.live s cl = true :=
      P29.live_iff.2 ⟨pi.genKind cl hcl, by simp [State.computed, pi.live cl hcl], pi.rca cl hcl⟩
    unfold P29.spine
    rw [P7.mem_fo]
    refine ⟨?_, hl⟩
    rcases sp.only (pi.genKind cl hcl) (pi.rca cl hcl) (by simp [State.computed, pi.live cl hcl]) with h1 | h1
    · exact List.mem_of_mem_head? h1
    · rw [← sp.stk]
      exact P29.label_mem_stack sp.lab h1

/-- every labelling of the task stack that satisfies `P26.Spine` gives the same chain of labels -/
theorem C07_spine_unique (s : State) (h : P10.WSReach s) (hg : s.guardFired = false) (u : Nat)
    (old : Option Nat) (rest : List Ctl) (hctl : s.ctl = .gen u old :: rest) (L L' : List (Nat × Nat))
    (sp : P26.Spine s L) (sp' : P26.Spine s L') : lspine L = lspine L' := by
  have h1 := P29.spine_eq_lspine h hg sp hctl
  have h2 := P29.spine_eq_lspine h hg sp' hctl
  rw [h1] at h2
  exact (List.cons.inj h2).2

/-- **C07_resumed_iff_on_spine** (executable form of `C06_resumed_iff_on_spine`, any state): an AsyncContext of an open
    with-block of task `t` is resumed iff `t` is on the spine -/
theorem C07_resumed_iff_on_spine (s : State) (h : P10.WSReach s) (hg : s.guardFired = false) (t c : Nat) (x : CtxSt)
    (hc : c ∈ P29.openBlocks s t) (hx : s.ctxs[c]? = some x) (hk : x.kind ≠ .nonasync) :
    x.resumed = true ↔ t ∈ P29.spine s := by
  obtain ⟨hreg, x', hx', _, hf⟩ := P26.open_flag h.reach hg hc
  rw [hx] at hx'; cases hx'
  obtain ⟨hkt, hcomp⟩ := P26.open_live h.reach hg hc
  have k := P27.K_reach' h.reach hg
  unfold P29.spine
  rw [hf hk, P7.mem_fo, P29.live_iff]
  constructor
  · intro ha
    refine ⟨k.stk t ?_, hkt, hcomp, ha⟩
    have hne : (s.task t).ctxs ≠ [] := by intro e; rw [e] at hreg; cases hreg
    cases hh : (s.task t).ctxs with
    | nil => exact absurd hh hne
    | cons a l => simp [P7.hot, ha, hh]
  · exact fun hh => hh.2.2.2

/-! ## the observer of C07: when it makes a claim, its chain is the spine -/

/-- **C07_read_value_tree**: while the code of `u` runs, if the observer's awaiting chain of `u` is defined (every task
    on it has exactly one awaiter - the only case in which `Spec.checkC07` makes a claim about a `.read`), the chain is
    the spine and the observer's expected value is `spineOverride`. -/
theorem C07_read_value_tree (s : State) (h : P10.WSReach s) (hg : s.guardFired = false) (u : Nat)
    (old : Option Nat) (rest : List Ctl) (hctl : s.ctl = .gen u old :: rest) (ch : List Nat)
    (hch : (P13.obs s.trace).chain (P13.obs s.trace).fuel u = some ch) (var : Nat) :
    ch = P29.spine s ∧ expectedOf (P13.obs s.trace) var ch = P29.spineOverride s var :=
  ⟨P29.chain_eq_spine h hg hctl hch, P29.expected_eq_spineOverride h hg hctl hch var⟩

/-- `Spec_C07_read_value_any` is the instance: the observer accepts a read of `spineOverride s var` by the running task -/
theorem Spec_C07_read_value_spine (s : State) (h : P10.WSReach s) (hg : s.guardFired = false) (ctx : Spec.Ctx)
    (u : Nat) (old : Option Nat) (rest : List Ctl) (hctl : s.ctl = .gen u old :: rest) (var : Nat) :
    Spec.checkC07 ctx (P13.obs s.trace) (.read u var (.a (P29.spineOverride s var))) = none := by
  rw [← C07_read_value_dag s h hg var]
  exact Spec_C07_read_value_any s h hg ctx u old rest hctl var

/-! ## a shared task: what it reads depends on who scheduled it first -/

/-- the shared task: reads variable 1, blocks on a batch item of kind 2, reads variable 1 again -/
def C07d_X : Body := .read 1 (.item 2 1 .ok (.yld (.f (.own 0)) (.read 1 (.ret 9)) (.raise 0)))
/-- an awaiter: blocks on a batch item of kind `kind`, then enters `override(var 1 := val)` and awaits the future its
    parent handed over -/
def C07d_aw (kind val tag : Nat) : Body :=
  .item kind 1 .ok (.yld (.f (.own 0))
    (.withCtx (.override 1 val) (.yld (.f (.inh 0)) .endwith (.raise 0)) (.ret tag)) (.raise 0))
/-- the parent creates X (future 1), hands it to A (future 2, kind 0, value 11) and to B (future 3, kind 1, value 22) and
    awaits both -/
def C07d_dag : Body :=
  .spawn C07d_X [] (.spawn (C07d_aw 0 11 1) [.own 0] (.spawn (C07d_aw 1 22 2) [.own 0]
    (.yld (.tup [.f (.own 1), .f (.own 2)]) (.ret 0) (.raise 0))))

/-- the run under flush oracle `ch` -/
def C07d_state (ch : List (Nat × Nat)) (n : Nat) : State := runFuel n (initState {} [(.value, C07d_dag)] ch)

theorem C07d_ws (ch : List (Nat × Nat)) (n : Nat) : P10.WSReach (C07d_state ch n) :=
  wsreach_runFuel {} _ ch (by intro p hp; simp at hp; subst hp; decide) n

/-- the `.read` events of a trace, oldest first: (task, variable, value) -/
def C07d_reads (s : State) : List (Nat × Nat × Val) :=
  s.trace.reverse.filterMap fun e => match e with | .read t v x => some (t, v, x) | _ => none

/-- **C07_shared_read_depends_on_scheduler**: the SAME well-scoped program, the same configuration, three admissible
    flush oracles; all runs end normally.
    * Default oracle (batches 0, 1, 2 in this order): awaiter A (task 2) is resumed first and schedules the shared task 1:
      while task 1 runs (state 33) the stack is `[1, 2, 3, 0]`, the spine `[1, 2, 0]` (B, task 3, is a stack entry but not
      on the spine), the only open block on the spine is A's override (context 0): task 1 reads 11, and 11 again after
      its own batch.
    * Oracle `[(1, 0)]` (batches 1, 0, 2): B (task 3) is resumed first and schedules task 1 (state 36, spine `[1, 3, 0]`):
      task 1 reads 22.  When it is resumed after its own batch (state 68) the depth-first walk reaches it through A
      (spine `[1, 2, 0]`, open block: A's override, context 1): the SAME task now reads 11.
    * Oracle `[(1, 0), (2, 0)]` (batches 1, 2, 0): task 1 reads 22 both times.
    In every case the value is `spineOverride`. -/
theorem C07_shared_read_depends_on_scheduler :
    P10.WellScoped C07d_dag 0 0 = true ∧ Spec.bodyShares C07d_dag = true ∧
    -- run 1
    (C07d_state [] 300).isDone = true ∧ (C07d_state [] 300).stuck = none ∧ (C07d_state [] 300).guardFired = false ∧
    C07d_reads (C07d_state [] 300) = [(1, 1, .a 11), (1, 1, .a 11)] ∧
    (C07d_state [] 33).ctl = [.gen 1 none, .waitLoop 0 0] ∧ (C07d_state [] 33).stack = [1, 2, 3, 0] ∧
    P29.spine (C07d_state [] 33) = [1, 2, 0] ∧ P29.spineBlocks (C07d_state [] 33) = [0] ∧
    P29.spineOverride (C07d_state [] 33) 1 = 11 ∧
    -- run 2
    (C07d_state [(1, 0)] 300).isDone = true ∧ (C07d_state [(1, 0)] 300).stuck = none ∧
    (C07d_state [(1, 0)] 300).guardFired = false ∧
    C07d_reads (C07d_state [(1, 0)] 300) = [(1, 1, .a 22), (1, 1, .a 11)] ∧
    (C07d_state [(1, 0)] 36).ctl = [.gen 1 none, .waitLoop 0 0] ∧ (C07d_state [(1, 0)] 36).stack = [1, 3, 0] ∧
    P29.spine (C07d_state [(1, 0)] 36) = [1, 3, 0] ∧ P29.spineBlocks (C07d_state [(1, 0)] 36) = [0] ∧
    P29.spineOverride (C07d_state [(1, 0)] 36) 1 = 22 ∧
    (C07d_state [(1, 0)] 68).ctl = [.gen 1 none, .waitLoop 0 0] ∧ (C07d_state [(1, 0)] 68).stack = [1, 2, 3, 0] ∧
    P29.spine (C07d_state [(1, 0)] 68) = [1, 2, 0] ∧ P29.spineBlocks (C07d_state [(1, 0)] 68) = [1] ∧
    P29.spineOverride (C07d_state [(1, 0)] 68) 1 = 11 ∧
    -- run 3
    (C07d_state [(1, 0), (2, 0)] 300).isDone = true ∧ (C07d_state [(1, 0), (2, 0)] 300).stuck = none ∧
    (C07d_state [(1, 0), (2, 0)] 300).guardFired = false ∧
    C07d_reads (C07d_state [(1, 0), (2, 0)] 300) = [(1, 1, .a 22), (1, 1, .a 22)] := by
  and_intros <;> decide

/-- state 68 of run 2: BOTH awaiters wait for the shared task, both are inside their override (contexts 1 and 0), the
    observer of C07 makes no claim (two awaiters: no chain) - and the task reads the override of the awaiter on the
    spine, A; B's override is paused -/
theorem C07d_both_await :
    awaits (C07d_state [(1, 0)] 68) 2 1 ∧ awaits (C07d_state [(1, 0)] 68) 3 1 ∧
    P29.openBlocks (C07d_state [(1, 0)] 68) 2 = [1] ∧ P29.openBlocks (C07d_state [(1, 0)] 68) 3 = [0] ∧
    ¬ (3 ∈ P29.spine (C07d_state [(1, 0)] 68)) ∧
    (P13.obs (C07d_state [(1, 0)] 68).trace).chain (P13.obs (C07d_state [(1, 0)] 68).trace).fuel 1 = none ∧
    (C07d_state [(1, 0)] 68).ctxs = [{ kind := .override 1 22, owner := some 3, resumed := false, old := 0 },
                                     { kind := .override 1 11, owner := some 2, resumed := true, old := 0 }] := by
  refine ⟨.inl ⟨by decide, by decide, .inl (by decide)⟩, .inl ⟨by decide, by decide, .inl (by decide)⟩, by decide,
    by decide, by decide, by decide, by decide⟩

/-- the theorem applied to these states (by the theorem, not by evaluation): the value of variable 1 while the shared
    task runs -/
example : (C07d_state [] 33).svGet 1 = 11 := by
  rw [C07_read_value_dag _ (C07d_ws [] 33) (by decide) 1]; decide
example : (C07d_state [(1, 0)] 36).svGet 1 = 22 := by
  rw [C07_read_value_dag _ (C07d_ws _ 36) (by decide) 1]; decide
example : (C07d_state [(1, 0)] 68).svGet 1 = 11 := by
  rw [C07_read_value_dag _ (C07d_ws _ 68) (by decide) 1]; decide
/-- ... and B's override is paused because B is not on the spine (`C07_resumed_iff_on_spine`) -/
example (x : CtxSt) (hx : (C07d_state [(1, 0)] 68).ctxs[0]? = some x) (hk : x.kind ≠ .nonasync) : x.resumed ≠ true := by
  intro hr
  rw [C07_resumed_iff_on_spine _ (C07d_ws _ 68) (by decide) 3 0 x (by decide) hx hk] at hr
  revert hr; decide

/-- in the first resume of run 1 only A has awaited the shared task so far: the observer's chain is defined and is the
    spine (`C07_read_value_tree`) -/
example : (P13.obs (C07d_state [] 33).trace).chain (P13.obs (C07d_state [] 33).trace).fuel 1 = some [1, 2, 0] := by
  decide
example : [1, 2, 0] = P29.spine (C07d_state [] 33) :=
  (C07_read_value_tree _ (C07d_ws [] 33) (by decide) 1 none [.waitLoop 0 0] (by decide) [1, 2, 0] (by decide) 1).1

/-! ## a longer spine: own nested blocks, a synchronous caller, the root -/

/-- the shared task: two nested overrides of variable 3, blocks on a batch item inside them, then reads 1, 2, 3 -/
def C07d_X2 : Body :=
  .withCtx (.override 3 7) (.withCtx (.override 3 8)
    (.item 2 1 .ok (.yld (.f (.own 0)) (.read 1 (.read 2 (.read 3 .endwith))) (.raise 0))) (.read 3 .endwith)) (.ret 9)
/-- B: inside `override(1 := 22)` awaits the shared task -/
def C07d_B2 : Body := .withCtx (.override 1 22) (.yld (.f (.inh 0)) .endwith (.raise 0)) (.ret 2)
/-- A: inside `override(1 := 11)` calls `.value()` of the shared task synchronously -/
def C07d_A2 : Body := .withCtx (.override 1 11) (.syncfut (.inh 0) .endwith (.raise 0)) (.ret 1)
/-- the root: inside `override(2 := 5)` creates X (1), B (2), A (3) and awaits B and A -/
def C07d_dag2 : Body :=
  .withCtx (.override 2 5) (.spawn C07d_X2 [] (.spawn C07d_B2 [.own 0] (.spawn C07d_A2 [.own 0]
    (.yld (.tup [.f (.own 1), .f (.own 2)]) .endwith (.raise 0))))) (.ret 0)

def C07d_state2 (n : Nat) : State := runFuel n (initState {} [(.value, C07d_dag2)] [])

theorem C07d_ws2 (n : Nat) : P10.WSReach (C07d_state2 n) :=
  wsreach_runFuel {} _ [] (by intro p hp; simp at hp; subst hp; decide) n

/-- state 36: the shared task 1 - started through B (task 2), suspended inside its two blocks - is resumed inside the
    synchronous call of A (task 3): the Python stack is `gen 1, wait_for(1), gen 3, wait_for(0)`; the spine is
    `[1, 3, 0]` (B waits for task 1 too but is not on it; the observer's chain is undefined); the open blocks along
    the spine are 3, 2 (task 1's own, latest entered first), 4 (A's), 0 (the root's); variable 1 reads A's 11 (not B's
    22), variable 2 the root's 5, variable 3 the inner 8.  The run ends normally with these reads. -/
theorem C07d_long_spine :
    P10.WellScoped C07d_dag2 0 0 = true ∧ (C07d_state2 300).isDone = true ∧ (C07d_state2 300).stuck = none ∧
    (C07d_state2 300).guardFired = false ∧
    (C07d_state2 36).ctl = [.gen 1 (some 3), .waitLoop 1 2, .gen 3 none, .waitLoop 0 0] ∧
    (C07d_state2 36).stack = [1, 3, 0] ∧ P29.spine (C07d_state2 36) = [1, 3, 0] ∧
    P29.spineBlocks (C07d_state2 36) = [3, 2, 4, 0] ∧
    [1, 2, 3].map (P29.spineOverride (C07d_state2 36)) = [11, 5, 8] ∧
    (P13.obs (C07d_state2 36).trace).chain (P13.obs (C07d_state2 36).trace).fuel 1 = none ∧
    C07d_reads (C07d_state2 300) = [(1, 1, .a 11), (1, 2, .a 5), (1, 3, .a 8), (1, 3, .a 7)] := by
  and_intros <;> decide

/-- the theorems applied to that state -/
example : [1, 2, 3].map (C07d_state2 36).svGet = [11, 5, 8] := by
  simp only [List.map, C07_read_value_dag _ (C07d_ws2 36) (by decide)]; decide
example : ∃ L : List (Nat × Nat), L.map Prod.fst = (C07d_state2 36).stack ∧ LabA (C07d_state2 36) L ∧
    P29.spine (C07d_state2 36) = 1 :: lspine L ∧ (∀ q ∈ P29.spine (C07d_state2 36), awaitsStar (C07d_state2 36) q 1) ∧
    (∀ cl ∈ P2.gens (C07d_state2 36).ctl, cl ∈ P29.spine (C07d_state2 36)) :=
  C07_spine_label_chain _ (C07d_ws2 36) (by decide) 1 (some 3) [.waitLoop 1 2, .gen 3 none, .waitLoop 0 0] (by decide)

/-! ## the hypotheses are needed -/

/-- **`guardFired = false` cannot be dropped**: `SpecC07_guard` (well-scoped, tree-shaped) with `MAX_TASK_STACK_SIZE = 1`,
    followed by a second top-level computation that reads variable 1.  The guard throws the task stack away while the
    override of task 0 is resumed; while the root of the NEXT computation (task 2) runs, the spine is `[2]`, no block is
    open on it, `spineOverride = 0` - and the variable still has the value 5 of the stale override. -/
def C07d_guardState (n : Nat) : State :=
  runFuel n (initState { maxStack := 1 } [(.value, SpecC07_guard), (.value, .read 1 (.ret 5))] [])

theorem C07d_needs_guard :
    P10.WSReach (C07d_guardState 13) ∧ (C07d_guardState 13).guardFired = true ∧ (C07d_guardState 13).stuck = none ∧
    (C07d_guardState 13).ctl = [.gen 2 none, .waitLoop 2 0] ∧ P29.spine (C07d_guardState 13) = [2] ∧
    P29.spineOverride (C07d_guardState 13) 1 = 0 ∧ (C07d_guardState 13).svGet 1 = 5 :=
  ⟨wsreach_runFuel _ _ [] (by intro p hp; simp at hp; rcases hp with rfl | rfl <;> decide) 13,
    by decide, by decide, by decide, by decide, by decide, by decide⟩

/-- **well-scopedness cannot be dropped** (from the all-states form): in `SpecC07_bad` the child awaits its own parent
    (an await cycle); the root is pushed above its own entry, the stack is `[0, 1, 0]`, the first-occurrence order of the
    live entries is `[0, 1]` but the child's override was resumed last: the variable reads 7, `spineOverride` is 5.
    (No state of this run with a generator frame on top disagrees; for the form "while a task runs" the hypothesis is
    inherited from `C07_values_any` / the labelled-stack invariant and no counterexample is known.) -/
theorem C07d_needs_wellscoped :
    let s := runFuel 13 (initState {} [(.value, SpecC07_bad)] [])
    P10.WellScoped SpecC07_bad 0 0 = false ∧ s.stuck = none ∧ s.guardFired = false ∧ s.stack = [0, 1, 0] ∧
    P29.spine s = [0, 1] ∧ P29.spineOverride s 1 = 5 ∧ s.svGet 1 = 7 := by
  decide

end AsynqModel.Core
