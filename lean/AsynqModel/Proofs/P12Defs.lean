import AsynqModel.Proofs.P7Cold
/-!
  P12 (C06, "resumed whenever ... runs / paused whenever a task it is not awaiting runs"): the vocabulary.

  * `awaits s t u`     : in state `s` task `t` waits for future `u`: either `t` is suspended at a yield (uncomputed,
                         `pending`) and `u` is a leaf of what it yielded last / one of its `_dependencies`, or the
                         generator of `t` is in the middle of the synchronous call `u.value()`: its body is
                         `.syncret u ..` and the `wait_for(u)` frame sits directly on top of `t`'s generator frame
  * `awaitsStar s`     : the reflexive-transitive closure
  * `TEq`, `Hp X s s'` : the heap-side frame condition of a transition: every task outside `X` keeps `pending`, `deps`,
                         `lastY`, `body`, `ctxActive` and its `computed` status; futures are only added; a new task
                         future is pending with inactive contexts
-/
namespace AsynqModel.Core.P12
open AsynqModel.Core P5 P7

/-- `w` is a `wait_for(r)` frame (before or inside `_execute`) -/
def isWait (w : Ctl) (r : Nat) : Prop := w = .waitEnter r ∨ ∃ b, w = .waitLoop r b

/-- on the Python stack `c` a `wait_for(u)` frame sits directly on top of the generator frame of task `t` -/
def edgeIn (c : List Ctl) (t u : Nat) : Prop :=
  ∃ pre w old post, c = pre ++ w :: .gen t old :: post ∧ isWait w u

/-- the generator of `t` is in the middle of the synchronous call `u.value()` -/
def syncEdge (s : State) (t u : Nat) : Prop :=
  (∃ k h, (s.task t).body = .syncret u k h) ∧ (s.task t).pending = false ∧ edgeIn s.ctl t u

/-- task `t` waits for future `u` -/
def awaits (s : State) (t u : Nat) : Prop :=
  (s.computed t = false ∧ (s.task t).pending = true ∧
    (u ∈ (s.task t).lastY.leaves ∨ u ∈ (s.task t).deps)) ∨
  syncEdge s t u

/-- `t` waits for `v`, directly or through other tasks (or `t = v`) -/
inductive awaitsStar (s : State) : Nat → Nat → Prop
  | refl (t : Nat) : awaitsStar s t t
  | head {t u v : Nat} : awaits s t u → awaitsStar s u v → awaitsStar s t v

theorem awaitsStar.single {s : State} {t u : Nat} (h : awaits s t u) : awaitsStar s t u :=
  .head h (.refl u)

theorem awaitsStar.trans {s : State} {a b c : Nat} (h1 : awaitsStar s a b) (h2 : awaitsStar s b c) :
    awaitsStar s a c := by
  induction h1 with
  | refl _ => exact h2
  | head h _ ih => exact .head h (ih h2)

theorem awaitsStar.tail {s : State} {a b c : Nat} (h1 : awaitsStar s a b) (h2 : awaits s b c) :
    awaitsStar s a c := h1.trans (.single h2)

/-! ### the heap-side frame condition -/

/-- the fields of a task the argument looks at -/
structure TEq (a b : TaskSt) : Prop where
  pending : b.pending = a.pending
  deps : b.deps = a.deps
  lastY : b.lastY = a.lastY
  body : b.body = a.body
  act : b.ctxActive = a.ctxActive

theorem TEq.refl (a : TaskSt) : TEq a a := ⟨rfl, rfl, rfl, rfl, rfl⟩
theorem TEq.trans {a b c : TaskSt} (h1 : TEq a b) (h2 : TEq b c) : TEq a c :=
  ⟨h2.pending.trans h1.pending, h2.deps.trans h1.deps, h2.lastY.trans h1.lastY, h2.body.trans h1.body,
    h2.act.trans h1.act⟩

/-- no exception -/
abbrev E : Nat → Prop := fun _ => False
/-- only task `t` is changed -/
abbrev O (t : Nat) : Nat → Prop := fun p => p = t

structure Hp (X : Nat → Prop) (s s' : State) : Prop where
  len : s.futs.length ≤ s'.futs.length
  kind : ∀ p, p < s.futs.length → (s'.fut p).kind = (s.fut p).kind
  task : ∀ p, ¬ X p → (s.fut p).kind = .task → TEq (s.task p) (s'.task p) ∧ s'.computed p = s.computed p
  comp : ∀ p, s.computed p = true → s'.computed p = true
  fresh : ∀ p, s.futs.length ≤ p → (s'.fut p).kind = .task →
    (s'.task p).pending = true ∧ (s'.task p).ctxActive = false
  xlt : ∀ p, X p → p < s.futs.length

theorem fut_of_futs {s s' : State} (h : s'.futs = s.futs) (p : Nat) : s'.fut p = s.fut p := by
  unfold State.fut; rw [h]
theorem task_of_futs {s s' : State} (h : s'.futs = s.futs) (p : Nat) : s'.task p = s.task p := by
  unfold State.task; rw [fut_of_futs h]
theorem computed_of_futs {s s' : State} (h : s'.futs = s.futs) (p : Nat) : s'.computed p = s.computed p := by
  unfold State.computed State.out; rw [fut_of_futs h]

theorem Hp.refl (X : Nat → Prop) (s : State) (hx : ∀ p, X p → p < s.futs.length) : Hp X s s := by
  refine ⟨Nat.le_refl _, fun _ _ => rfl, fun _ _ _ => ⟨TEq.refl _, rfl⟩, fun _ h => h, ?_, hx⟩
  intro p hp hk
  rw [fut_default s p hp] at hk; cases hk

theorem Hp.trans {X : Nat → Prop} {a b c : State} (h1 : Hp X a b) (h2 : Hp X b c) : Hp X a c := by
  refine ⟨Nat.le_trans h1.len h2.len, ?_, ?_, fun p hp => h2.comp p (h1.comp p hp), ?_, h1.xlt⟩
  · intro p hp
    rw [h2.kind p (Nat.lt_of_lt_of_le hp h1.len), h1.kind p hp]
  · intro p hx hk
    have hl := lt_of_kind_task a p hk
    obtain ⟨e1, c1⟩ := h1.task p hx hk
    obtain ⟨e2, c2⟩ := h2.task p hx (by rw [h1.kind p hl]; exact hk)
    exact ⟨e1.trans e2, c2.trans c1⟩
  · intro p hp hk
    rcases Nat.lt_or_ge p b.futs.length with hl | hl
    · have hkb : (b.fut p).kind = .task := by rw [← h2.kind p hl]; exact hk
      obtain ⟨f1, f2⟩ := h1.fresh p hp hkb
      have hx : ¬ X p := fun hx => by have := h1.xlt p hx; omega
      obtain ⟨e2, _⟩ := h2.task p hx hkb
      exact ⟨by rw [e2.pending]; exact f1, by rw [e2.act]; exact f2⟩
    · exact h2.fresh p hl hk

theorem Hp.mono {X Y : Nat → Prop} {s s' : State} (h : Hp X s s') (hxy : ∀ p, X p → Y p)
    (hy : ∀ p, Y p → p < s.futs.length) : Hp Y s s' :=
  ⟨h.len, h.kind, fun p hp hk => h.task p (fun hx => hp (hxy p hx)) hk, h.comp, h.fresh, hy⟩

/-- the exception set `E` can be replaced by any (well-formed) one -/
theorem Hp.ofE {X : Nat → Prop} {s s' : State} (h : Hp E s s') (hx : ∀ p, X p → p < s.futs.length) : Hp X s s' :=
  h.mono (fun _ hf => hf.elim) hx

theorem Hp.congr_right {X : Nat → Prop} {s s1 s' : State} (h : Hp X s s1) (e : s'.futs = s1.futs) : Hp X s s' := by
  refine ⟨by rw [e]; exact h.len, fun p hp => by rw [fut_of_futs e]; exact h.kind p hp, ?_, ?_, ?_, h.xlt⟩
  · intro p hx hk
    rw [task_of_futs e, computed_of_futs e]; exact h.task p hx hk
  · intro p hp; rw [computed_of_futs e]; exact h.comp p hp
  · intro p hp hk
    rw [fut_of_futs e] at hk
    rw [task_of_futs e]; exact h.fresh p (by exact hp) hk

theorem Hp.of_futs {s s' : State} (e : s'.futs = s.futs) : Hp E s s' :=
  (Hp.refl E s (fun _ h => h.elim)).congr_right e

/-! ### the helpers -/

theorem hp_updTask_keep (s : State) (t : Nat) (g : TaskSt → TaskSt) (hg : ∀ ts, TEq ts (g ts)) :
    Hp E s (s.updTask t g) := by
  refine ⟨by simp, fun p _ => kind_updTask s t p g, ?_, fun p hp => by rw [computed_updTask]; exact hp, ?_,
    fun _ h => h.elim⟩
  · intro p _ _
    refine ⟨?_, computed_updTask s t p g⟩
    rw [task_updTask]
    split
    · next h => rw [h.1]; exact hg _
    · exact TEq.refl _
  · intro p hp hk
    rw [kind_updTask, fut_default s p hp] at hk; cases hk

theorem hp_updTask (s : State) (t : Nat) (g : TaskSt → TaskSt) (ht : t < s.futs.length) :
    Hp (O t) s (s.updTask t g) := by
  refine ⟨by simp, fun p _ => kind_updTask s t p g, ?_, fun p hp => by rw [computed_updTask]; exact hp, ?_,
    fun p h => by rw [h]; exact ht⟩
  · intro p hp _
    refine ⟨?_, computed_updTask s t p g⟩
    rw [task_updTask_ne s t p g hp]; exact TEq.refl _
  · intro p hp hk
    rw [kind_updTask, fut_default s p hp] at hk; cases hk

theorem hp_complete (s : State) (f : Nat) (o : Outcome) (X : Nat → Prop) (hx : ∀ p, X p → p < s.futs.length)
    (hf : (s.fut f).kind = .task → X f) : Hp X s (s.complete f o) := by
  have hfut := fun g => fut_complete s f g o
  refine ⟨by simp [State.complete], ?_, ?_, ?_, ?_, hx⟩
  · intro p _
    rw [hfut]; split
    · next h => rw [h.1]
    · rfl
  · intro p hp hk
    have hne : ¬ (p = f ∧ f < s.futs.length) := fun h => hp (h.1 ▸ hf (h.1 ▸ hk))
    have e : (s.complete f o).fut p = s.fut p := by rw [hfut, if_neg hne]
    refine ⟨?_, by simp only [State.computed, State.out, e]⟩
    simp only [State.task, e]; exact TEq.refl _
  · intro p hp
    simp only [State.computed, State.out, hfut] at hp ⊢
    split
    · rfl
    · exact hp
  · intro p hp hk
    rw [hfut] at hk
    split at hk
    · next h => omega
    · rw [fut_default s p hp] at hk; cases hk

theorem hp_complete_nt (s : State) (f : Nat) (o : Outcome) (hk : (s.fut f).kind ≠ .task) : Hp E s (s.complete f o) :=
  hp_complete s f o E (fun _ h => h.elim) (fun h => hk h)

theorem hp_complete_self (s : State) (f : Nat) (o : Outcome) (hf : f < s.futs.length) :
    Hp (O f) s (s.complete f o) :=
  hp_complete s f o (O f) (fun p h => by rw [h]; exact hf) (fun _ => rfl)

theorem hp_alloc (s : State) (x : Fut) (nk : NewKind) (h1 : x.ts.pending = true) (h2 : x.ts.ctxActive = false) :
    Hp E s (s.alloc x nk).1 := by
  have hfut := fun g => P2.fut_alloc s x nk g
  have hold : ∀ p, p < s.futs.length → (s.alloc x nk).1.fut p = s.fut p := fun p hp => by
    rw [hfut, if_neg (by omega)]
  refine ⟨by simp [State.alloc, State.emit], fun p hp => by rw [hold p hp], ?_, ?_, ?_, fun _ h => h.elim⟩
  · intro p _ hk
    have e := hold p (lt_of_kind_task s p hk)
    refine ⟨?_, by simp only [State.computed, State.out, e]⟩
    simp only [State.task, e]; exact TEq.refl _
  · intro p hp
    rcases Nat.lt_or_ge p s.futs.length with hl | hl
    · simpa only [State.computed, State.out, hold p hl] using hp
    · simp [State.computed, State.out, fut_default s p hl] at hp
  · intro p hp hk
    rw [hfut] at hk
    simp only [State.task, hfut]
    split at hk
    · next h => simp only [h, if_true]; exact ⟨h1, h2⟩
    · rw [fut_default s p hp] at hk; cases hk

theorem hp_newTask (s : State) (child : Body) (inh : List Nat) : Hp E s (s.newTask child inh).1 := by
  unfold State.newTask
  exact hp_alloc _ _ _ rfl rfl

theorem hp_switchActive (s : State) (k q : Nat) : Hp E s (s.switchActive k q) := by
  unfold State.switchActive
  split
  · split
    · exact Hp.of_futs rfl
    · exact Hp.refl E s (fun _ h => h.elim)
  · exact Hp.refl E s (fun _ h => h.elim)

theorem hp_flushItems (kind : Nat) (l : List Nat) : ∀ s : State, Hp E s (s.flushItems kind l) := by
  induction l with
  | nil => intro s; exact Hp.refl E s (fun _ h => h.elim)
  | cons i is ih =>
    intro s
    unfold State.flushItems
    refine Hp.trans ?_ (ih _)
    split
    · exact Hp.refl E s (fun _ h => h.elim)
    · split
      · next h => exact hp_complete_nt _ _ _ (by rw [h]; intro h'; cases h')
      · next h => exact hp_complete_nt _ _ _ (by rw [h]; intro h'; cases h')
      · exact Hp.refl E s (fun _ h => h.elim)

theorem hp_finishItems (e : Err) (l : List Nat) : ∀ s : State, (∀ i ∈ l, (s.fut i).kind ≠ .task) →
    Hp E s (s.finishItems e l) := by
  induction l with
  | nil => intro s _; exact Hp.refl E s (fun _ h => h.elim)
  | cons i is ih =>
    intro s hl
    unfold State.finishItems
    have h1 : Hp E s (if s.computed i then s else s.complete i (.err e)) := by
      split
      · exact Hp.refl E s (fun _ h => h.elim)
      · exact hp_complete_nt _ _ _ (hl i (by simp))
    refine h1.trans (ih _ ?_)
    intro j hj hk
    have hlt : j < s.futs.length := by
      have := lt_of_kind_task _ j hk
      have hlen : (if s.computed i then s else s.complete i (.err e)).futs.length = s.futs.length := by
        split
        · rfl
        · simp [State.complete]
      omega
    rw [h1.kind j hlt] at hk
    exact hl j (by simp [hj]) hk

theorem len_flushItems (k : Nat) (l : List Nat) : ∀ x : State, (x.flushItems k l).futs.length = x.futs.length := by
  induction l with
  | nil => intro x; rfl
  | cons i is ih =>
    intro x
    unfold State.flushItems
    rw [ih]
    split
    · rfl
    · split <;> simp [State.complete]

theorem len_switchActive (s : State) (k q : Nat) : (s.switchActive k q).futs.length = s.futs.length := by
  unfold State.switchActive
  split
  · split <;> rfl
  · rfl

theorem hp_flushBatch (s : State) (k q : Nat) (hi : P2.ItemsOk s) : Hp E s (s.flushBatch k q) := by
  unfold State.flushBatch
  split
  · exact Hp.of_futs rfl
  · next b hb =>
    have hbm : b ∈ s.batches := List.mem_of_find?_eq_some hb
    have h1 : Hp E s ((s.switchActive k q).emit (.flushI k q b.items)) :=
      (hp_switchActive s k q).congr_right rfl
    have h2 := h1.trans (hp_flushItems k b.items _)
    have hnt : ∀ i ∈ b.items,
        ((((s.switchActive k q).emit (.flushI k q b.items)).flushItems k b.items).fut i).kind ≠ .task := by
      intro i hi' hk
      have hki := P7.not_task_of_item (hi b hbm i hi')
      by_cases hlt : i < s.futs.length
      · rw [h2.kind i hlt] at hk; exact hki hk
      · have hlen : (((s.switchActive k q).emit (.flushI k q b.items)).flushItems k b.items).futs.length =
            s.futs.length := by
          rw [len_flushItems]
          exact len_switchActive s k q
        have := lt_of_kind_task _ i hk
        omega
    refine Hp.congr_right (s1 := State.finishItems _ _ _) ?_ rfl
    exact h2.trans (hp_finishItems _ _ _ hnt)

theorem hp_flushBatch_of (s x : State) (k q : Nat) (e : x.futs = s.futs) (hb : x.batches = s.batches)
    (hi : P2.ItemsOk s) : Hp E s (x.flushBatch k q) :=
  (Hp.of_futs e).trans (hp_flushBatch x k q (P7.itemsOk_of_eq (fun f => by rw [fut_of_futs e]) hb hi))

theorem hp_schedulerFlush (s : State) (root : Nat) (hi : P2.ItemsOk s) : Hp E s (s.schedulerFlush root) := by
  unfold State.schedulerFlush
  simp only
  repeat' split
  all_goals first | exact Hp.of_futs rfl | skip
  all_goals
    refine Hp.congr_right (s1 := State.flushBatch _ _ _) ?_ rfl
    exact hp_flushBatch_of s _ _ _ rfl rfl hi

/-! ### context operations -/

theorem futs_pauseIf (s1 : State) (b : Bool) (c : Nat) (e : Event) :
    ((if b then s1 else s1.ctxPauseOne c).emit e).futs = s1.futs := by
  show (if b then s1 else s1.ctxPauseOne c).futs = s1.futs
  split
  · rfl
  · exact (flagOp_pause s1 c).futs

theorem hp_ctxExit (s : State) (c : Nat) : Hp E s (s.ctxExit c) := by
  unfold State.ctxExit
  simp only
  split
  · next o ho =>
    refine Hp.congr_right (s1 := s.updTask o fun ts => { ts with ctxs := ts.ctxs.erase c }) ?_ (futs_pauseIf _ _ _ _)
    exact hp_updTask_keep s o _ (fun _ => ⟨rfl, rfl, rfl, rfl, rfl⟩)
  · next ho =>
    exact Hp.congr_right (s1 := s) (Hp.refl E s (fun _ h => h.elim)) (futs_pauseIf _ _ _ _)

theorem hp_foldExit (l : List (Nat × Body)) : ∀ s : State, Hp E s (l.foldl (fun s p => s.ctxExit p.1) s) := by
  induction l with
  | nil => intro s; exact Hp.refl E s (fun _ h => h.elim)
  | cons p l ih => intro s; exact (hp_ctxExit s p.1).trans (ih _)

theorem hp_exitAll (s : State) (t : Nat) : Hp E s (s.exitAll t) := by
  unfold State.exitAll
  exact (hp_foldExit _ s).trans (hp_updTask_keep _ t _ (fun _ => ⟨rfl, rfl, rfl, rfl, rfl⟩))

end AsynqModel.Core.P12
