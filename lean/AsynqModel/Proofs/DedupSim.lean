import AsynqModel.Lib.Dedup
import AsynqModel.Proofs.Dedup
/-! C12: every operation of the model is accepted by the observer and keeps the simulation relation
    (one lemma per operation kind) -/
namespace AsynqModel.Dedup
set_option linter.unusedSimpArgs false

@[simp] theorem observe_fst (fns : List FnDecl) (s : St) (op : Op) : (observe fns s op).1 = (step fns s op).1 := rfl
@[simp] theorem observe_op (fns : List FnDecl) (s : St) (op : Op) : (observe fns s op).2.op = op := rfl
@[simp] theorem observe_res (fns : List FnDecl) (s : St) (op : Op) : (observe fns s op).2.res = (step fns s op).2 := rfl

theorem watch_gaveUp (fns : List FnDecl) (w : Watch) (ob : Obs) (h : w.gaveUp = true) : watchStep fns w ob = .ok w := by
  simp [watchStep, h]

theorem sim_start (fns : List FnDecl) (s : St) (w : Watch) (t : Nat) (h : Rel fns s w) :
    ∃ w', watchStep fns w (observe fns s (.start t)).2 = .ok w' ∧ Rel fns (observe fns s (.start t)).1 w' := by
  simp only [watchStep, h.live, Bool.false_eq_true, ↓reduceIte, observe_op, observe_res, observe_fst]
  cases ht : s.tasks[t]? with
  | none =>
    simp only [step, ht, rel_info_none fns s w h t ht]
    exact ⟨w, rfl, h⟩
  | some task =>
    obtain ⟨x, hx, hr⟩ := rel_info fns s w h t task ht
    simp only [step, ht, hx]
    by_cases hd : task.out.isSome = true
    · have : x.done = true := by rw [hr.done, hd]
      simp only [hd, this, ↓reduceIte]
      exact ⟨w, rfl, h⟩
    · have hd' : task.out.isSome = false := by simpa using hd
      have : x.done = false := by rw [hr.done, hd']
      simp only [hd', this, Bool.false_eq_true, ↓reduceIte, hr.b, beq_self_eq_true]
      refine ⟨_, rfl, ?_⟩
      refine rel_set fns s w h t task _ x _ ht hx ?_ ?_ ?_ ?_ <;> try rfl
      exact ⟨fun _ => rfl, by simp [hd'], hr.reg, hr.b, hr.key⟩


theorem sim_resume (fns : List FnDecl) (s : St) (w : Watch) (t : Nat) (thrown : Bool) (h : Rel fns s w) :
    ∃ w', watchStep fns w (observe fns s (.resume t thrown)).2 = .ok w' ∧
      Rel fns (observe fns s (.resume t thrown)).1 w' := by
  simp only [watchStep, h.live, Bool.false_eq_true, ↓reduceIte, observe_op, observe_res, observe_fst]
  cases ht : s.tasks[t]? with
  | none =>
    simp only [step, ht, rel_info_none fns s w h t ht]
    exact ⟨w, rfl, h⟩
  | some task =>
    obtain ⟨x, hx, hr⟩ := rel_info fns s w h t task ht
    simp only [step, ht, hx]
    by_cases hd : task.out.isSome = true
    · have : x.done = true := by rw [hr.done, hd]
      simp only [hd, this, ↓reduceIte]
      exact ⟨w, rfl, h⟩
    · have hd' : task.out.isSome = false := by simpa using hd
      have : x.done = false := by rw [hr.done, hd']
      cases thrown with
      | true =>
        simp only [hd', this, Bool.false_eq_true, ↓reduceIte]
        refine ⟨_, rfl, ?_⟩
        exact rel_wset fns s w h t task x _ ht hx ⟨fun _ => rfl, by simp [hd', this], hr.reg, hr.b, hr.key⟩
      | false =>
        simp only [hd', this, Bool.false_eq_true, ↓reduceIte]
        refine ⟨_, rfl, ?_⟩
        refine rel_set fns s w h t task _ x _ ht hx ?_ ?_ ?_ ?_ <;> try rfl
        exact ⟨fun z => by simp at z ⊢, by simp [hd', this], hr.reg, hr.b, hr.key⟩

theorem sim_suspend (fns : List FnDecl) (s : St) (w : Watch) (t : Nat) (h : Rel fns s w) :
    ∃ w', watchStep fns w (observe fns s (.suspend t)).2 = .ok w' ∧ Rel fns (observe fns s (.suspend t)).1 w' := by
  simp only [watchStep, h.live, Bool.false_eq_true, ↓reduceIte, observe_op, observe_res, observe_fst]
  cases ht : s.tasks[t]? with
  | none =>
    simp only [step, ht, rel_info_none fns s w h t ht]
    exact ⟨w, rfl, h⟩
  | some task =>
    obtain ⟨x, hx, hr⟩ := rel_info fns s w h t task ht
    simp only [step, ht, hx]
    by_cases hd : task.out.isSome = true
    · have : x.done = true := by rw [hr.done, hd]
      simp only [hd, this, ↓reduceIte]
      exact ⟨w, rfl, h⟩
    · have hd' : task.out.isSome = false := by simpa using hd
      have : x.done = false := by rw [hr.done, hd']
      simp only [hd', this, Bool.false_eq_true, ↓reduceIte]
      refine ⟨_, rfl, ?_⟩
      refine rel_set fns s w h t task _ x _ ht hx ?_ ?_ ?_ ?_ <;> try rfl
      exact ⟨fun z => by simp at z ⊢, by simp [hd', this], hr.reg, hr.b, hr.key⟩


theorem sim_dirty (fns : List FnDecl) (hs : sigsOk fns = true) (s : St) (w : Watch) (c : Spell) (h : Rel fns s w) :
    ∃ w', watchStep fns w (observe fns s (.dirty c)).2 = .ok w' ∧
      (w'.gaveUp = true ∨ Rel fns (observe fns s (.dirty c)).1 w') := by
  simp only [watchStep, h.live, Bool.false_eq_true, ↓reduceIte, observe_op, observe_res, observe_fst]
  cases hd : fns[c.fn]? with
  | none =>
    simp only [step, hd]
    exact ⟨w, rfl, Or.inr h⟩
  | some d =>
    simp only [step, hd]
    cases hb : d.sig.bind (effArgs d c) c.kw with
    | error e => exact ⟨_, rfl, Or.inl rfl⟩
    | ok b =>
      obtain ⟨tup, hk⟩ := key_ok_of_bind d.sig _ _ b hb
      simp only [hk, beq_self_eq_true, ↓reduceIte]
      refine ⟨_, rfl, Or.inr ?_⟩
      have hkr : KeyRel fns { tup := tup, th := c.th, fn := c.fn } { fn := c.fn, th := c.th, b := b } :=
        ⟨rfl, rfl, d, _, _, hd, hb, hk⟩
      constructor
      · exact h.len
      · exact h.pt
      · intro k rk hr
        simp only [mget_merase]
        have := keyrel_inj fns hs _ _ _ _ hr hkr
        by_cases e : k = { tup := tup, th := c.th, fn := c.fn }
        · simp [e, this.mp e]
        · have e' : ¬ rk = { fn := c.fn, th := c.th, b := b } := fun x => e (this.mpr x)
          simp only [e, e', ↓reduceIte]
          exact h.agree k rk hr
      · intro k t hm
        simp only [mget_merase] at hm
        split at hm
        · contradiction
        · exact h.wf k t hm
      · rfl


/-- the pointwise part of the relation after replacing task `t` on both sides -/
theorem pt_set (fns : List FnDecl) (s : St) (w : Watch) (h : Rel fns s w) (t : Nat) (task' : Task) (x' : WTask)
    (hr : TRel fns task' x') :
    (w.info.set t x').length = (s.tasks.set t task').length ∧
    ∀ (i : Nat) (a : Task) (y : WTask), (s.tasks.set t task')[i]? = some a → (w.info.set t x')[i]? = some y → TRel fns a y := by
  refine ⟨by simp [h.len], ?_⟩
  intro i a y ha hy
  simp only [List.getElem?_set] at ha hy
  by_cases hi : t = i
  · simp only [hi, ↓reduceIte] at ha hy
    split at ha
    · split at hy
      · injection ha with ha; injection hy with hy
        subst ha; subst hy; exact hr
      · contradiction
    · contradiction
  · simp only [hi, ↓reduceIte] at ha hy
    exact h.pt i a y ha hy

theorem sim_complete (fns : List FnDecl) (hs : sigsOk fns = true) (s : St) (w : Watch) (t : Nat) (o : Outc)
    (h : Rel fns s w) :
    ∃ w', watchStep fns w (observe fns s (.complete t o)).2 = .ok w' ∧
      Rel fns (observe fns s (.complete t o)).1 w' := by
  simp only [watchStep, h.live, Bool.false_eq_true, ↓reduceIte, observe_op, observe_res, observe_fst]
  cases ht : s.tasks[t]? with
  | none =>
    simp only [step, ht, rel_info_none fns s w h t ht]
    exact ⟨w, rfl, h⟩
  | some task =>
    obtain ⟨x, hx, hr⟩ := rel_info fns s w h t task ht
    simp only [step, ht, hx]
    by_cases hd : task.out.isSome = true
    · have : x.done = true := by rw [hr.done, hd]
      simp only [hd, this, ↓reduceIte]
      exact ⟨w, rfl, h⟩
    · have hd' : task.out.isSome = false := by simpa using hd
      have hxd : x.done = false := by rw [hr.done, hd']
      simp only [hd', hxd, Bool.false_eq_true, ↓reduceIte]
      have hag := h.agree task.key x.rk hr.key
      have hrel' : TRel fns { task with running := false, out := some o } { x with running := false, done := true } :=
        ⟨fun z => by simp at z, rfl, hr.reg, hr.b, hr.key⟩
      obtain ⟨hlen, hpt⟩ := pt_set fns s w h t _ _ hrel'
      -- no table entry other than the one under its own key can point to t
      have honly : ∀ k, mget s.table k = some t → k = task.key ∧ task.reg = true := by
        intro k hk
        obtain ⟨a, ha, hka, hra, _⟩ := h.wf k t hk
        rw [ht] at ha; injection ha with ha; subst ha
        exact ⟨hka.symm, hra⟩
      by_cases hm : mget s.table task.key = some t
      · -- the task still owns its entry: both sides remove it
        have hreg := (honly _ hm).2
        have hm' : mget w.ref x.rk = some t := by rw [← hag]; exact hm
        simp only [hreg] at hlen hpt
        simp only [setTask, wset, hreg, hm, hm', beq_self_eq_true, Bool.and_self, ↓reduceIte]
        refine ⟨_, rfl, ?_⟩
        constructor
        · exact hlen
        · exact hpt
        · intro k rk hkr
          simp only [mget_merase]
          have := keyrel_inj fns hs _ _ _ _ hkr hr.key
          by_cases e : k = task.key
          · simp [e, this.mp e]
          · have e' : ¬ rk = x.rk := fun z => e (this.mpr z)
            simp only [e, e', ↓reduceIte]
            exact h.agree k rk hkr
        · intro k t0 hm0
          simp only [mget_merase] at hm0
          split at hm0
          · contradiction
          · rename_i hne
            obtain ⟨a, ha, hka, hra, hoa⟩ := h.wf k t0 hm0
            by_cases e : t = t0
            · subst e
              exact absurd (honly k hm0).1 hne
            · exact ⟨a, by simp [List.getElem?_set, e, ha], hka, hra, hoa⟩
        · exact h.live
      · -- not registered, or dirtied meanwhile (entry absent or owned by a newer task): nothing is removed
        have hm' : ¬ mget w.ref x.rk = some t := by rw [← hag]; exact hm
        have e1 : (mget (setTask s t { task with running := false, out := some o }).table task.key == some t) = false := by
          simpa [setTask] using hm
        have e2 : (mget w.ref x.rk == some t) = false := by simpa using hm'
        simp only [e1, e2, Bool.and_false, Bool.false_eq_true, ↓reduceIte]
        refine ⟨_, rfl, ?_⟩
        constructor
        · exact hlen
        · exact hpt
        · exact h.agree
        · intro k t0 hm0
          obtain ⟨a, ha, hka, hra, hoa⟩ := h.wf k t0 hm0
          by_cases e : t = t0
          · subst e
            have := (honly k hm0).1
            subst this
            exact absurd hm0 hm
          · exact ⟨a, by simp [setTask, List.getElem?_set, e, ha], hka, hra, hoa⟩
        · exact h.live

end AsynqModel.Dedup
