import AsynqModel.Lib.Dedup
import AsynqModel.Proofs.Dedup
/-! C12: every operation of the model is accepted by the observer and keeps the simulation relation
    (one lemma per operation kind) -/
namespace AsynqModel.Dedup
set_option linter.unusedSimpArgs false
set_option linter.unusedVariables false

@[simp] theorem observe_fst (fns : List FnDecl) (s : St) (op : Op) : (observe fns s op).1 = (step fns s op).1 := rfl
@[simp] theorem observe_op (fns : List FnDecl) (s : St) (op : Op) : (observe fns s op).2.op = op := rfl
@[simp] theorem observe_res (fns : List FnDecl) (s : St) (op : Op) : (observe fns s op).2.res = (step fns s op).2 := rfl

theorem sim_start (fns : List FnDecl) (s : St) (w : Watch) (t : Nat) (h : Rel fns s w) :
    ∃ w', watchStep fns w (observe fns s (.start t)).2 = .ok w' ∧ Rel fns (observe fns s (.start t)).1 w' := by
  simp only [watchStep, observe_op, observe_res, observe_fst]
  cases ht : s.tasks[t]? with
  | none =>
    simp only [step, ht, rel_info_none fns s w h t ht]
    exact ⟨w, rfl, h⟩
  | some task =>
    obtain ⟨x, hx, hr⟩ := rel_info fns s w h t task ht
    simp only [step, ht, hx]
    by_cases hd : task.out.isSome = true
    · have : x.done = true := by rw [hr.done, hd]
      simp only [hd, this, Bool.true_or, ↓reduceIte]
      exact ⟨w, rfl, h⟩
    · have hd' : task.out.isSome = false := by simpa using hd
      have hxd : x.done = false := by rw [hr.done, hd']
      by_cases hs : task.started = true
      · have : x.started = true := by rw [hr.started, hs]
        simp only [hd', hs, hxd, this, Bool.or_true, Bool.false_eq_true, ↓reduceIte]
        exact ⟨w, rfl, h⟩
      · have hs' : task.started = false := by simpa using hs
        have hxs : x.started = false := by rw [hr.started, hs']
        simp only [hd', hs', hxd, hxs, Bool.or_self, Bool.false_eq_true, ↓reduceIte, hr.b, beq_self_eq_true]
        refine ⟨_, rfl, ?_⟩
        refine rel_set fns s w h t task _ x _ ht hx ?_ ?_ ?_ ?_ <;> try rfl
        exact ⟨fun _ => rfl, by simp [hd', hxd], rfl, hr.b, hr.key, hr.out⟩

theorem sim_resume (fns : List FnDecl) (s : St) (w : Watch) (t : Nat) (thrown : Bool) (h : Rel fns s w) :
    ∃ w', watchStep fns w (observe fns s (.resume t thrown)).2 = .ok w' ∧
      Rel fns (observe fns s (.resume t thrown)).1 w' := by
  simp only [watchStep, observe_op, observe_res, observe_fst]
  cases ht : s.tasks[t]? with
  | none =>
    simp only [step, ht, rel_info_none fns s w h t ht]
    exact ⟨w, rfl, h⟩
  | some task =>
    obtain ⟨x, hx, hr⟩ := rel_info fns s w h t task ht
    simp only [step, ht, hx]
    by_cases hd : task.out.isSome = true
    · have : x.done = true := by rw [hr.done, hd]
      simp only [hd, this, Bool.true_or, ↓reduceIte]
      exact ⟨w, rfl, h⟩
    · have hd' : task.out.isSome = false := by simpa using hd
      have hxd : x.done = false := by rw [hr.done, hd']
      by_cases hs : task.started = true
      · have hxs : x.started = true := by rw [hr.started, hs]
        cases thrown with
        | true =>
          simp only [hd', hs, hxd, hxs, Bool.not_true, Bool.or_self, Bool.false_eq_true, ↓reduceIte, beq_self_eq_true]
          refine ⟨_, rfl, ?_⟩
          exact rel_wset fns s w h t task x _ ht hx ⟨fun _ => rfl, by simp [hd', hxd], by simp [hxs, hs], hr.b, hr.key, hr.out⟩
        | false =>
          simp only [hd', hs, hxd, hxs, Bool.not_true, Bool.or_self, Bool.false_eq_true, ↓reduceIte, beq_self_eq_true]
          refine ⟨_, rfl, ?_⟩
          refine rel_set fns s w h t task _ x _ ht hx ?_ ?_ ?_ ?_ <;> try rfl
          exact ⟨fun z => by simp at z ⊢, by simp [hd', hxd], by simp [hxs, hs], hr.b, hr.key, hr.out⟩
      · have hs' : task.started = false := by simpa using hs
        have hxs : x.started = false := by rw [hr.started, hs']
        simp only [hd', hs', hxd, hxs, Bool.not_false, Bool.or_true, Bool.false_eq_true, ↓reduceIte]
        exact ⟨w, rfl, h⟩

theorem sim_suspend (fns : List FnDecl) (s : St) (w : Watch) (t : Nat) (h : Rel fns s w) :
    ∃ w', watchStep fns w (observe fns s (.suspend t)).2 = .ok w' ∧ Rel fns (observe fns s (.suspend t)).1 w' := by
  simp only [watchStep, observe_op, observe_res, observe_fst]
  cases ht : s.tasks[t]? with
  | none =>
    simp only [step, ht, rel_info_none fns s w h t ht]
    exact ⟨w, rfl, h⟩
  | some task =>
    obtain ⟨x, hx, hr⟩ := rel_info fns s w h t task ht
    simp only [step, ht, hx]
    by_cases hd : task.out.isSome = true
    · have : x.done = true := by rw [hr.done, hd]
      simp only [hd, this, Bool.true_or, ↓reduceIte]
      exact ⟨w, rfl, h⟩
    · have hd' : task.out.isSome = false := by simpa using hd
      have hxd : x.done = false := by rw [hr.done, hd']
      by_cases hs : task.started = true
      · have hxs : x.started = true := by rw [hr.started, hs]
        simp only [hd', hs, hxd, hxs, Bool.not_true, Bool.or_self, Bool.false_eq_true, ↓reduceIte, beq_self_eq_true]
        refine ⟨_, rfl, ?_⟩
        refine rel_set fns s w h t task _ x _ ht hx ?_ ?_ ?_ ?_ <;> try rfl
        exact ⟨fun z => by simp at z ⊢, by simp [hd', hxd], by simp [hxs, hs], hr.b, hr.key, hr.out⟩
      · have hs' : task.started = false := by simpa using hs
        have hxs : x.started = false := by rw [hr.started, hs']
        simp only [hd', hs', hxd, hxs, Bool.not_false, Bool.or_true, Bool.false_eq_true, ↓reduceIte]
        exact ⟨w, rfl, h⟩

/-- reading a task: the reader receives the outcome the observer recorded at the completion -/
theorem sim_await (fns : List FnDecl) (s : St) (w : Watch) (t : Nat) (h : Rel fns s w) :
    ∃ w', watchStep fns w (observe fns s (.await t)).2 = .ok w' ∧ Rel fns (observe fns s (.await t)).1 w' := by
  simp only [watchStep, observe_op, observe_res, observe_fst]
  cases ht : s.tasks[t]? with
  | none =>
    simp only [step, ht, rel_info_none fns s w h t ht]
    exact ⟨w, rfl, h⟩
  | some task =>
    obtain ⟨x, hx, hr⟩ := rel_info fns s w h t task ht
    simp only [step, ht, hx, hr.out, beq_self_eq_true, ↓reduceIte]
    exact ⟨w, rfl, h⟩

/-- `dirty()`: with arguments that bind, "nothing in flight" for exactly that call; with arguments that do not bind
    the model either raises and changes nothing, or removes one entry of that function and thread -/
theorem sim_dirty (fns : List FnDecl) (s : St) (w : Watch) (c : Spell) (hop : opOk fns (.dirty c) = true)
    (h : Rel fns s w) :
    ∃ w', watchStep fns w (observe fns s (.dirty c)).2 = .ok w' ∧ Rel fns (observe fns s (.dirty c)).1 w' := by
  simp only [watchStep, observe_op, observe_res, observe_fst]
  cases hd : fns[c.fn]? with
  | none =>
    simp only [step, hd]
    exact ⟨w, rfl, h⟩
  | some d =>
    simp only [step, hd]
    simp only [opOk, hd] at hop
    cases hb : d.sig.bind (effArgs d c) c.kw with
    | error e =>
      cases hk : d.sig.key (effArgs d c) c.kw with
      | error n => exact ⟨w, rfl, h⟩
      | ok tup =>
        refine ⟨_, rfl, ?_⟩
        constructor
        · exact h.len
        · exact h.pt
        · intro k rk hr
          simp only [mget_merase]
          by_cases e : k = { tup := tup, th := c.th, fn := c.fn }
          · simp only [e, ↓reduceIte]
            obtain ⟨f1, t1, _⟩ := hr
            apply pget_ploosen_none
            · rw [← f1, e]
            · rw [← t1, e]
          · simp only [e, ↓reduceIte]
            exact pget_ploosen_mono _ _ _ _ _ (h.agree k rk hr)
        · intro k t hm
          simp only [mget_merase] at hm
          split at hm
          · contradiction
          · exact h.wf k t hm
    | ok b =>
      obtain ⟨tup, hk⟩ := key_ok_of_bind d.sig _ _ b hb
      simp only [hk, beq_self_eq_true, ↓reduceIte]
      refine ⟨_, rfl, ?_⟩
      have hkr : KeyRel fns { tup := tup, th := c.th, fn := c.fn } { fn := c.fn, th := c.th, b := b } :=
        ⟨rfl, rfl, d, _, _, hd, hop, hb, hk⟩
      constructor
      · exact h.len
      · exact h.pt
      · intro k rk hr
        simp only [mget_merase, pget_pset]
        have := keyrel_inj fns _ _ _ _ hr hkr
        by_cases e : k = { tup := tup, th := c.th, fn := c.fn }
        · simp [e, this.mp e]
        · have e' : ¬ rk = { fn := c.fn, th := c.th, b := b } := fun x => e (this.mpr x)
          simp only [e, e', ↓reduceIte]
          exact h.agree k rk hr
      · intro k t hm
        simp only [mget_merase] at hm
        split at hm
        · contradiction
        · exact h.wf k t hm

theorem ite_tasks (c : Prop) [Decidable c] (S : St) (tb : List (Key × Nat)) :
    (if c then ({ tasks := S.tasks, table := tb } : St) else S).tasks = S.tasks := by
  split <;> rfl

/-- the pointwise part of the relation after replacing task `t` on both sides -/
theorem pt_set (fns : List FnDecl) (s : St) (w : Watch) (h : Rel fns s w) (t : Nat) (task' : Task) (x' : WTask)
    (hr : TRel fns task' x') :
    (w.info.set t x').length = (s.tasks.set t task').length ∧
    ∀ (i : Nat) (a : Task) (y : WTask), (s.tasks.set t task')[i]? = some a → (w.info.set t x')[i]? = some y → TRel fns a y := by
  refine ⟨by simp [h.len], ?_⟩
  intro i a y ha hy
  simp only [List.getElem?_set] at ha hy
  by_cases hi : t = i
  · simp only [hi, ↓reduceIte] at ha hy
    split at ha
    · split at hy
      · injection ha with ha; injection hy with hy
        subst ha; subst hy; exact hr
      · contradiction
    · contradiction
  · simp only [hi, ↓reduceIte] at ha hy
    exact h.pt i a y ha hy

theorem sim_complete (fns : List FnDecl) (s : St) (w : Watch) (t : Nat) (o : Outc)
    (h : Rel fns s w) :
    ∃ w', watchStep fns w (observe fns s (.complete t o)).2 = .ok w' ∧
      Rel fns (observe fns s (.complete t o)).1 w' := by
  simp only [watchStep, observe_op, observe_res, observe_fst]
  cases ht : s.tasks[t]? with
  | none =>
    simp only [step, ht, rel_info_none fns s w h t ht]
    exact ⟨w, rfl, h⟩
  | some task =>
    obtain ⟨x, hx, hr⟩ := rel_info fns s w h t task ht
    simp only [step, ht, hx]
    by_cases hd : task.out.isSome = true
    · have : x.done = true := by rw [hr.done, hd]
      simp only [hd, this, ↓reduceIte]
      exact ⟨w, rfl, h⟩
    · have hd' : task.out.isSome = false := by simpa using hd
      have hxd : x.done = false := by rw [hr.done, hd']
      simp only [hd', hxd, Bool.false_eq_true, ↓reduceIte, beq_self_eq_true]
      refine ⟨_, rfl, ?_⟩
      have hrel' : TRel fns { task with running := false, out := some o } { x with running := false, done := true, out := some o } :=
        ⟨fun z => by simp at z, rfl, hr.started, hr.b, hr.key, rfl⟩
      obtain ⟨hlen, hpt⟩ := pt_set fns s w h t _ _ hrel'
      -- no table entry other than the one under its own key can point to t
      have honly : ∀ k, mget s.table k = some t → k = task.key ∧ task.reg = true := by
        intro k hk
        obtain ⟨a, ha, hka, hra, _⟩ := h.wf k t hk
        rw [ht] at ha; injection ha with ha; subst ha
        exact ⟨hka.symm, hra⟩
      have hother : ∀ k t0, t0 ≠ t → mget s.table k = some t0 →
          ∃ a, (s.tasks.set t { task with running := false, out := some o })[t0]? = some a ∧
            a.key = k ∧ a.reg = true ∧ a.out = none := by
        intro k t0 hne hm0
        obtain ⟨a, ha, hka, hra, hoa⟩ := h.wf k t0 hm0
        have : ¬ t = t0 := fun e => hne e.symm
        exact ⟨a, by simp [List.getElem?_set, this, ha], hka, hra, hoa⟩
      -- the table after the completion, entry by entry
      have htab : ∀ k, mget (if (task.reg && mget (setTask s t { task with running := false, out := some o }).table task.key == some t) = true
            then { setTask s t { task with running := false, out := some o } with
                    table := merase (setTask s t { task with running := false, out := some o }).table task.key }
            else setTask s t { task with running := false, out := some o }).table k =
          if mget s.table k = some t then none else mget s.table k := by
        intro k
        by_cases hm : mget s.table task.key = some t
        · have hreg := (honly _ hm).2
          simp only [setTask, hreg, hm, beq_self_eq_true, Bool.and_self, ↓reduceIte, mget_merase]
          by_cases e : k = task.key
          · simp [e, hm]
          · have : ¬ mget s.table k = some t := fun z => e (honly k z).1
            simp [e, this]
        · have e1 : (mget s.table task.key == some t) = false := by simpa using hm
          simp only [setTask, e1, Bool.and_false, Bool.false_eq_true, ↓reduceIte]
          have : ¬ mget s.table k = some t := fun z => hm (by rw [← (honly k z).1]; exact z)
          simp [this]
      constructor
      · simp only [wset, ite_tasks]; simpa [setTask] using hlen
      · simp only [wset, ite_tasks]; simpa [setTask] using hpt
      · intro k rk hkr
        rw [htab k]
        simp only [wset, pget_pset]
        have hag := h.agree k rk hkr
        have := keyrel_inj fns _ _ _ _ hkr hr.key
        by_cases e : rk = x.rk
        · subst e
          simp only [↓reduceIte, List.mem_map]
          exact ⟨mget s.table k, hag, rfl⟩
        · have e' : ¬ k = task.key := fun z => e (this.mp z)
          have : ¬ mget s.table k = some t := fun z => e' (honly k z).1
          simp only [e, this, ↓reduceIte]
          exact hag
      · intro k t0 hm0
        rw [htab k] at hm0
        split at hm0
        · contradiction
        · rename_i hne
          have e : t0 ≠ t := fun z => hne (by rw [← z]; exact hm0)
          obtain ⟨a, ha, hr'⟩ := hother k t0 e hm0
          refine ⟨a, ?_, hr'⟩
          simp only [ite_tasks]; simpa [setTask] using ha

end AsynqModel.Dedup
