import AsynqModel.Proofs.P6TInv
/-
  P6T (termination, property C03), part 9: the lexicographic measure
  `(M1, M2, phase, Phi, gfl)` decreases with every step of a well-scoped yield-only run that is not finished, not
  stuck and in which the MAX_TASK_STACK_SIZE guard does not fire; hence every such run finishes.
-/
namespace AsynqModel.Core.P6T
open AsynqModel.Core AsynqModel.Core.P6

/-! ### the order -/

abbrev T5 := Nat × Nat × Nat × Nat × Nat

def Lt5 : T5 → T5 → Prop :=
  Prod.Lex (· < ·) (Prod.Lex (· < ·) (Prod.Lex (· < ·) (Prod.Lex (· < ·) (· < ·))))

theorem lt5_wf : WellFounded Lt5 :=
  (Prod.lex Nat.lt_wfRel (Prod.lex Nat.lt_wfRel (Prod.lex Nat.lt_wfRel (Prod.lex Nat.lt_wfRel Nat.lt_wfRel)))).wf

theorem lt5_1 {a b c d e a' b' c' d' e' : Nat} (h : a' < a) : Lt5 (a', b', c', d', e') (a, b, c, d, e) :=
  Prod.Lex.left _ _ h

theorem lt5_le {a b c d e a' b' c' d' e' : Nat} (h : a' ≤ a)
    (h2 : Prod.Lex (· < ·) (Prod.Lex (· < ·) (Prod.Lex (· < ·) (· < ·))) (b', c', d', e') (b, c, d, e)) :
    Lt5 (a', b', c', d', e') (a, b, c, d, e) := by
  rcases Nat.lt_or_eq_of_le h with h | h
  · exact lt5_1 h
  · subst h; exact Prod.Lex.right _ h2

theorem lt5_2 {a b c d e a' b' c' d' e' : Nat} (h : a' ≤ a) (h2 : b' < b) :
    Lt5 (a', b', c', d', e') (a, b, c, d, e) := lt5_le h (Prod.Lex.left _ _ h2)

theorem lt5_3 {a b c d e a' b' c' d' e' : Nat} (h : a' ≤ a) (h2 : b' = b) (h3 : c' < c) :
    Lt5 (a', b', c', d', e') (a, b, c, d, e) := by
  subst h2; exact lt5_le h (Prod.Lex.right _ (Prod.Lex.left _ _ h3))

theorem lt5_4 {a b c d e a' b' c' d' e' : Nat} (h : a' ≤ a) (h2 : b' = b) (h3 : c' = c) (h4 : d' < d) :
    Lt5 (a', b', c', d', e') (a, b, c, d, e) := by
  subst h2; subst h3; exact lt5_le h (Prod.Lex.right _ (Prod.Lex.right _ (Prod.Lex.left _ _ h4)))

theorem lt5_5 {a b c d e a' b' c' d' e' : Nat} (h : a' ≤ a) (h2 : b' = b) (h3 : c' = c) (h4 : d' = d)
    (h5 : e' < e) : Lt5 (a', b', c', d', e') (a, b, c, d, e) := by
  subst h2; subst h3; subst h4
  exact lt5_le h (Prod.Lex.right _ (Prod.Lex.right _ (Prod.Lex.right _ h5)))

/-! ### the measure -/

/-- where the thread is: outside `wait_for` (1 with a result to deliver, else 0), at the head of `wait_for` (3),
    inside `_execute` (2) -/
def phase (s : State) : Nat :=
  match s.ctl with
  | [] => if s.curTop.isSome then 1 else 0
  | .waitEnter _ :: _ => 3
  | _ => 2

/-- 1 at the head of the loop of `_execute`, 0 inside a generator -/
def gfl (s : State) : Nat :=
  match s.ctl with
  | .waitLoop _ _ :: _ => 1
  | _ => 0

noncomputable def mu (s : State) (P : Nat → List Nat) : T5 := (M1 s, M2 s, phase s, Phi s P, gfl s)

theorem M2_of_batches {s r : State} (h : r.batches = s.batches) : M2 r = M2 s := by unfold M2; rw [h]

theorem phase_nil_le {s : State} (h : s.ctl = []) : phase s ≤ 1 := by
  unfold phase; rw [h]; dsimp only; split <;> omega

theorem Bof_upd1 {s r : State} {t : Nat} {v' : FV} (U : Upd1S s r t v')
    (h : (if v'.kind = .task then v'.deps.length else 0) = depTerm s t) : Bof r = Bof s := by
  unfold Bof
  rw [Dsum_same U.len]
  intro f
  by_cases e : f = t
  · subst e
    unfold depTerm at h ⊢
    rw [U.viewT]; exact h
  · unfold depTerm; rw [U.viewO f e]

/-- every step of an unfinished run decreases the measure -/
theorem mu_step {s : State} {P P' : Nat → List Nat} (h : InvT s P) (hs : s.stuck = none)
    (hnd : s.isDone = false) (hst : (step s).stuck = none) (hg : (step s).guardFired = false)
    (hP : (∀ t old rest, s.ctl ≠ .gen t old :: rest) → P' = P) : Lt5 (mu (step s) P') (mu s P) := by
  obtain ⟨hA, hB, hC, hS, hW, hcore⟩ := h
  have hr := hcore.raising
  have hgen : ∀ t old rest, s.ctl = .gen t old :: rest → (view s t).kind = .task ∧ okV (view s t) :=
    fun t old rest hc => ⟨(hA.gen t old rest hc).1, hA.ok t⟩
  have d := step_desc s hs hr hA.noNA hgen hst hg
  obtain ⟨hstk0, hbase⟩ := core_facts hcore hA.shape
  -- no step increases `M1`
  have hM1 : M1 (step s) ≤ M1 s := by
    refine M1_le hA d ?_
    intro t old rest hctl hsr
    have e := step_gen s hs hr hctl
    rw [e] at hsr hst
    exact genStep_sameRun s t old (hgen t old rest hctl).1 (hgen t old rest hctl).2 hst hsr
  unfold mu
  rcases hA.shape with hctl | ⟨root, hctl⟩ | ⟨root, base, hctl⟩ | ⟨t, old, root, base, hctl⟩
  · -- outside `wait_for`
    cases hcur : s.curTop with
    | some f =>
      have e := step_nil_some s hs hctl f hcur
      refine lt5_3 hM1 (M2_of_batches (by rw [e]; rfl)) ?_
      have h1 : phase (step s) = 0 := by rw [e]; unfold phase State.finishTop; simp [State.emit, hctl]
      have h2 : phase s = 1 := by unfold phase; rw [hctl, hcur]; rfl
      omega
    | none =>
      cases htops : s.tops with
      | nil => simp [State.isDone, hs, hctl, hcur, htops] at hnd
      | cons p rest =>
        obtain ⟨conv, body⟩ := p
        refine lt5_1 ?_
        have e : step s = { ((({ s with tops := rest, topIdx := s.topIdx + 1 } : State).emit (.top s.topIdx conv)).newTask body []).1 with
            curTop := some ((({ s with tops := rest, topIdx := s.topIdx + 1 } : State).emit (.top s.topIdx conv)).newTask body []).2,
            ctl := [.waitEnter ((({ s with tops := rest, topIdx := s.topIdx + 1 } : State).emit (.top s.topIdx conv)).newTask body []).2] } := by
          unfold step; simp [hs, hctl, hcur, htops]
        have U := updN_newTask s (({ s with tops := rest, topIdx := s.topIdx + 1 } : State).emit (.top s.topIdx conv))
          rfl rfl rfl rfl body []
        rw [e]
        exact M1_top htops ⟨U.len, U.viewN, U.viewO, U.batches, U.stack, U.noNA⟩ rfl
  · -- at the head of `wait_for`
    have hph : phase s = 3 := by unfold phase; rw [hctl]
    cases hc : s.computed root with
    | true =>
      have e := step_waitEnter_ret s hs hr hctl hc
      refine lt5_3 hM1 (M2_of_batches (by rw [e]; rfl)) ?_
      have : phase (step s) ≤ 1 := phase_nil_le (by rw [e]; simp [State.returnFromWait, hctl])
      omega
    | false =>
      have e := step_waitEnter_loop s hs hr hctl hc
      refine lt5_3 hM1 (M2_of_batches (by rw [e])) ?_
      have : phase (step s) = 2 := by rw [e]; unfold phase; simp [hctl]
      omega
  · -- inside `_execute`
    have hb0 : base = 0 := hbase root base [] hctl
    subst hb0
    have hph : phase s = 2 := by unfold phase; rw [hctl]
    have hPP : P' = P := hP (fun t old rest h => by rw [hctl] at h; cases h)
    subst hPP
    cases hstack : s.stack with
    | nil =>
      cases hc : s.computed root with
      | true =>
        have e := step_waitLoop_ret s hs hr hctl (by rw [hstack]; simp) hc
        refine lt5_3 hM1 (M2_of_batches (by rw [e]; rfl)) ?_
        have : phase (step s) ≤ 1 := phase_nil_le (by rw [e]; simp [State.returnFromWait, hctl])
        omega
      | false =>
        -- the scheduler flush: a flushable batch exists, it is flushed
        have e := step_waitLoop_flush s hs hr hctl (by rw [hstack]; simp) hc
        have hfl := flushable_ne_nil hB hS root 0 [] hctl hstack hc
        refine lt5_2 hM1 ?_
        rcases P1.schedulerFlush_cases s root hfl with ⟨m, hm, _⟩ | ⟨c, b, _, hadm, hbc, hfw⟩
        · rw [e, hm] at hst; simp [State.fail] at hst
        · have hcf := (P1.admissible_spec s c hadm).1
          obtain ⟨_, b', hb', hne, hunf⟩ := (P1.mem_flushable s c.1 c.2).1 hcf
          rw [hbc] at hb'; cases hb'
          rw [e, hfw] at hst ⊢
          unfold P1.flushWith at hst ⊢
          obtain ⟨_, _, _, _, hFB⟩ := flushBatch_desc _ c.1 c.2 hst
          unfold M2
          refine M2_flush hFB (b := b) hbc ?_
          unfold liveB
          rw [hunf]
          cases hi : b.items with
          | nil => exact absurd hi hne
          | cons _ _ => rfl
    | cons top st =>
      have hlen : s.stack.length > 0 := by rw [hstack]; simp
      have e := step_waitLoop_iter s hs hr hctl hlen
      rw [e] at hst hg hM1 ⊢
      have hprog := executeIter_progress s hA.noNA hst hg
      have d' := executeIter_desc s ⟨root, 0, [], hctl⟩ hA.noNA hst hg
      have hphase : ∀ r : State, r.ctl = s.ctl → phase r = phase s := by
        intro r hrc; unfold phase; rw [hrc, hctl]
      cases d' with
      | quiet e' hst' hctl' =>
        rcases hprog with h1 | h1
        · rw [hst'] at h1; exact absurd rfl h1
        · rw [hctl'] at h1; exact absurd rfl h1
      | top conv body rest htops hctl0 U htops' hctl' => rw [hctl] at hctl0; cases hctl0
      | ret root' hw hroot e' hst' hctl' =>
        refine lt5_3 hM1 (M2_of_batches e'.batches) ?_
        have : phase s.executeIter ≤ 1 := phase_nil_le (by rw [hctl', hctl]; rfl)
        omega
      | enterLoop root' rest hctl0 _ _ _ _ => rw [hctl] at hctl0; cases hctl0
      | pop hw top' st' hstk hcase e' hst' hctl' =>
        refine lt5_4 hM1 (M2_of_batches e'.batches) (hphase _ hctl') ?_
        have hB' : Bof s.executeIter = Bof s := by
          unfold Bof; rw [Dsum_same e'.len (fun f => by unfold depTerm; rw [e'.view])]
        refine Phi_pop e'.len hB' hstk hst' (fun x _ => e'.view x) ?_
        intro A A' _
        unfold ew
        rw [hB', e'.len, e'.view]
        unfold ewp
        have hn : ¬ ((view s top').kind = .task ∧ (view s top').out = none) := by
          intro ⟨h1, h2⟩
          rcases hcase with hc | ⟨_, k, q, p, m, hk⟩
          · rw [uncomputed_of_out_none h2] at hc; cases hc
          · rw [hk] at h1; cases h1
        rw [if_neg hn, if_neg hn]
      | popLazy hw top' st' hstk lo hk hc U hst' hctl' =>
        have hB' : Bof s.executeIter = Bof s := Bof_upd1 U (by
          unfold depTerm doneView; rw [hk]; simp)
        refine lt5_4 hM1 (M2_of_batches U.batches) (hphase _ hctl') ?_
        refine Phi_pop U.len hB' hstk hst' U.viewO ?_
        intro A A' _
        unfold ew ewp
        rw [U.viewT]
        have h1 : ¬ ((doneView (lazyOutcome lo) (view s top')).kind = .task ∧
            (doneView (lazyOutcome lo) (view s top')).out = none) := by
          intro ⟨h1, _⟩
          have : (view s top').kind = .task := h1
          rw [hk] at this; cases this
        have h2 : ¬ ((view s top').kind = .task ∧ (view s top').out = none) := by
          intro ⟨h1, _⟩; rw [hk] at h1; cases h1
        rw [if_neg h1, if_neg h2]
      | second hw top' st' hstk hk hc hbl hfl U hst' hctl' =>
        have hB' : Bof s.executeIter = Bof s := Bof_upd1 U (by unfold depTerm flagView; rfl)
        refine lt5_4 hM1 (M2_of_batches U.batches) (hphase _ hctl') ?_
        refine Phi_pop U.len hB' hstk hst' U.viewO ?_
        intro A A' hmem
        unfold ew
        rw [hB', U.len, U.viewT]
        refine ewp_congr rfl rfl (fun _ _ => ?_)
        constructor
        · intro h; cases h.1
        · intro h; exact absurd hmem h.2
      | first hw top' st' hstk hk hc hbl hfl U hst' hctl' =>
        have hB' : Bof s.executeIter = Bof s := Bof_upd1 U (by unfold depTerm flagView; rfl)
        refine lt5_4 hM1 (M2_of_batches U.batches) (hphase _ hctl') ?_
        exact Phi_first hC U.len hB' hstk hk hc hfl U.viewT U.viewO hst'
      | enterGen hw top' st' hstk hk hc hnb e' hst' a hctl' =>
        refine lt5_5 hM1 (M2_of_batches e'.batches) ?_ (Phi_same e' hst') ?_
        · unfold phase; rw [hctl', hctl]
        · unfold gfl; rw [hctl', hctl]; simp
      | gen t old rest hctl0 _ => rw [hctl] at hctl0; cases hctl0
      | flush root' base' rest hctl0 hlen' _ _ _ =>
        rw [hctl] at hctl0
        injection hctl0 with h1 _
        injection h1 with _ h2
        subst h2
        omega
  · -- an instruction of the running task
    have e := step_gen s hs hr hctl
    rw [e] at hst ⊢
    obtain ⟨hk, hok⟩ := hgen t old _ hctl
    have d' := genStep_desc s t old hk hok hst
    exact lt5_1 (M1_gen hA hctl d' (genStep_sameRun s t old hk hok hst))

/-! ### termination -/

theorem runFuel_succ_of_not_done (n : Nat) (s : State) (h : s.isDone = false) :
    runFuel (n + 1) s = runFuel n (step s) := by
  rw [runFuel]; simp [h]

theorem runFuel_of_done (n : Nat) (s : State) (h : s.isDone = true) : runFuel n s = s := by
  cases n with
  | zero => rfl
  | succ n => rw [runFuel]; simp [h]

theorem terminates_aux : ∀ (m : T5) (s : State) (P : Nat → List Nat), InvT s P → s.stuck = none →
    (∀ n, (runFuel n s).guardFired = false) → mu s P = m → ∃ n, (runFuel n s).isDone = true := by
  intro m
  induction m using lt5_wf.induction with
  | _ m ih =>
    intro s P hT hs hgd hm
    cases hd : s.isDone with
    | true => exact ⟨0, hd⟩
    | false =>
      have hg1 : (step s).guardFired = false := by
        have := hgd 1
        rw [runFuel_succ_of_not_done 0 s hd] at this
        exact this
      cases hst : (step s).stuck with
      | some msg =>
        refine ⟨1, ?_⟩
        rw [runFuel_succ_of_not_done 0 s hd]
        show (step s).isDone = true
        simp [State.isDone, hst]
      | none =>
        obtain ⟨P', hT', hP⟩ := invT_step hT hs hst hg1
        have hlt := mu_step hT hs hd hst hg1 hP
        rw [hm] at hlt
        obtain ⟨n, hn⟩ := ih _ hlt (step s) P' hT' hst
          (fun n => by have := hgd (n + 1); rw [runFuel_succ_of_not_done n s hd] at this; exact this) rfl
        exact ⟨n + 1, by rw [runFuel_succ_of_not_done n s hd]; exact hn⟩

/-- every run of a yield-only, NonAsyncContext-free, well-scoped program in which the MAX_TASK_STACK_SIZE guard
    never fires finishes (whatever the flush oracle answers: a refused choice makes the state stuck, which counts
    as finished for `runFuel`) -/
theorem terminates (cfg : Cfg) (tops : List (Conv × Body)) (choices : List (Nat × Nat))
    (h : ∀ p ∈ tops, Spec.bodyHasSync p.2 = false ∧ Spec.bodyHasNonAsync p.2 = false ∧ wsBody p.2 = true)
    (hg : ∀ n, (runFuel n (initState cfg tops choices)).guardFired = false) :
    ∃ n, (runFuel n (initState cfg tops choices)).isDone = true :=
  terminates_aux _ _ _ (invT_init cfg tops choices h) rfl hg rfl

end AsynqModel.Core.P6T
