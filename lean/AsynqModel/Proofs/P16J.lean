import AsynqModel.Proofs.P12Final
/-!
  P16, part 8: the DFS-chain invariant `P12.J` WITHOUT the hypothesis that no NonAsyncContext exists.

  `P12.J_reach` assumes `P7.NA s`; the only place where it is used is the classification of the steps (`P12.step_sc`):
  `_pause_contexts` / `_resume_contexts` complete no task.  With NonAsyncContexts the second visit of a blocked task
  may FAIL the task (`NonAsyncContext.pause()` raises): the task is completed, its contexts are inactive - the case
  `suspend` of `Sc'` allows that; `_resume_contexts` never fails in a reachable state, because an uncomputed task
  whose contexts are paused has no NonAsyncContext (`P2.PInv.z`).
  The statements and proofs below are those of `P12Step` / `P12Inv` with these two changes.
-/
namespace AsynqModel.Core.P16
open AsynqModel.Core P5 P7 P12

/-! ### `_resume_contexts` / `_pause_contexts` of a task without registered NonAsyncContext -/

theorem nf_resume' (s : State) (t : Nat) (hna : P2.NAfree s t) (hact : (s.task t).ctxActive = false) :
    s.resumeContexts t =
      (s.task t).ctxs.foldl (flipOne true) (s.updTask t fun ts => { ts with ctxActive := true }) := by
  rw [resumeContexts_eq]
  simp only [hact, Bool.false_eq_true, if_false]
  have hany : (s.task t).ctxs.any ((s.task t).ctxs.foldl (flipOne true)
      (s.updTask t fun ts => { ts with ctxActive := true })).ctxIsNonAsync = false := by
    rw [List.any_eq_false]
    intro c hc
    rw [isNonAsync_foldFlip]
    simp [show (s.updTask t fun ts => { ts with ctxActive := true }).ctxIsNonAsync c = s.ctxIsNonAsync c from rfl,
      hna c hc]
  rw [hany]; rfl

theorem nf_pause' (s : State) (t : Nat) (hna : P2.NAfree s t) (hact : (s.task t).ctxActive = true) :
    s.pauseContexts t =
      (s.task t).ctxs.reverse.foldl (flipOne false) (s.updTask t fun ts => { ts with ctxActive := false }) := by
  rw [pauseContexts_eq]
  simp only [hact, Bool.not_true, Bool.false_eq_true, if_false]
  have hany : (s.task t).ctxs.any ((s.task t).ctxs.reverse.foldl (flipOne false)
      (s.updTask t fun ts => { ts with ctxActive := false })).ctxIsNonAsync = false := by
    rw [List.any_eq_false]
    intro c hc
    rw [isNonAsync_foldFlip]
    simp [show (s.updTask t fun ts => { ts with ctxActive := false }).ctxIsNonAsync c = s.ctxIsNonAsync c from rfl,
      hna c hc]
  rw [hany]; rfl

theorem flip_resume'' (s : State) (t : Nat) (hz : (s.task t).ctxActive = false → P2.NAfree s t) (ht : t < s.futs.length) :
    CtxFlip true t s (s.resumeContexts t) := by
  by_cases hact : (s.task t).ctxActive = true
  · rw [nf_resume_active s t hact]; exact ctxFlip_refl true t s ht hact
  · have hact' : (s.task t).ctxActive = false := by simpa using hact
    refine ctxFlip_of_futs true t s _ ht (same_resumeContexts s t) ?_
    rw [nf_resume' s t (hz hact') hact', futs_foldFlip]

theorem flip_pause'' (s : State) (t : Nat) (hna : P2.NAfree s t) (ht : t < s.futs.length) :
    CtxFlip false t s (s.pauseContexts t) := by
  by_cases hact : (s.task t).ctxActive = true
  · refine ctxFlip_of_futs false t s _ ht (same_pauseContexts s t) ?_
    rw [nf_pause' s t hna hact, futs_foldFlip]
  · have hact' : (s.task t).ctxActive = false := by simpa using hact
    have e : s.pauseContexts t = s := by rw [pauseContexts_eq]; simp [hact']
    rw [e]; exact ctxFlip_refl false t s ht hact'

/-- `_pause_contexts` of an uncomputed task with a registered NonAsyncContext: the task fails -/
theorem pause_fail (s : State) (t : Nat) (hna : ¬ P2.NAfree s t) (hact : (s.task t).ctxActive = true)
    (ht : t < s.futs.length) (hnc : s.computed t = false) :
    Hp (O t) s (s.pauseContexts t) ∧ ((s.pauseContexts t).task t).ctxActive = false ∧
      (s.pauseContexts t).computed t = true := by
  have hany : ∀ x : State, (∀ c, x.ctxIsNonAsync c = s.ctxIsNonAsync c) → (s.task t).ctxs.any x.ctxIsNonAsync = true := by
    intro x hx
    rw [List.any_eq_true]
    unfold P2.NAfree at hna
    have : ∃ c, c ∈ (s.task t).ctxs ∧ s.ctxIsNonAsync c = true := by
      by_cases h : ∃ c, c ∈ (s.task t).ctxs ∧ s.ctxIsNonAsync c = true
      · exact h
      · exfalso; apply hna
        intro c hc
        cases hcc : s.ctxIsNonAsync c with
        | false => rfl
        | true => exact absurd ⟨c, hc, hcc⟩ h
    obtain ⟨c, hc, hcc⟩ := this
    exact ⟨c, hc, by rw [hx]; exact hcc⟩
  rw [pauseContexts_eq]
  simp only [hact, Bool.not_true, Bool.false_eq_true, if_false]
  generalize hs1 : (s.task t).ctxs.reverse.foldl (flipOne false) (s.updTask t fun ts => { ts with ctxActive := false }) = s1
  have hf : s1.futs = (s.updTask t fun ts => { ts with ctxActive := false }).futs := by rw [← hs1, futs_foldFlip]
  have hna1 : ∀ c, s1.ctxIsNonAsync c = s.ctxIsNonAsync c := by
    intro c; rw [← hs1, isNonAsync_foldFlip]; rfl
  rw [hany s1 hna1]
  simp only [if_true]
  have h1 : Hp (O t) s s1 := (hp_updTask s t _ ht).congr_right hf
  have hc1 : s1.computed t = false := by rw [computed_of_futs hf, computed_updTask]; exact hnc
  have ha1 : (s1.task t).ctxActive = false := by rw [task_of_futs hf, task_updTask_self _ _ _ ht]
  refine ⟨?_, ?_, ?_⟩
  · unfold State.failSuspended
    simp only [hc1, Bool.false_eq_true, if_false]
    exact ((h1.exitAll t).updT _).completeT _
  · rw [(mono_failSuspended s1 t _).tact t]; exact ha1
  · unfold State.failSuspended
    simp only [hc1, Bool.false_eq_true, if_false]
    exact computed_complete_self _ _ _ (by simpa using (h1.exitAll t).lt' t rfl)

/-! ### classification of the steps -/

inductive Sc' (s r : State) : Prop
  | same (hp : Hp E s r) (c : r.ctl = s.ctl) (st : r.stack = s.stack)
  | top (f : Nat) (hc : s.ctl = []) (hp : Hp E s r) (c : r.ctl = [.waitEnter f]) (st : r.stack = s.stack)
  | popEnter (root : Nat) (rest : List Ctl) (hc : s.ctl = .waitEnter root :: rest) (hp : Hp E s r) (c : r.ctl = rest)
      (st : r.stack = s.stack)
  | popLoop (root base : Nat) (rest : List Ctl) (hc : s.ctl = .waitLoop root base :: rest)
      (hlen : s.stack.length ≤ base) (hp : Hp E s r) (c : r.ctl = rest) (st : r.stack = s.stack)
  | enterLoop (root : Nat) (rest : List Ctl) (hc : s.ctl = .waitEnter root :: rest) (hp : Hp E s r)
      (c : r.ctl = .waitLoop root s.stack.length :: rest) (st : r.stack = root :: s.stack)
  | flush (root base : Nat) (rest : List Ctl) (hc : s.ctl = .waitLoop root base :: rest)
      (hlen : s.stack.length ≤ base) (hp : Hp E s r) (c : r.ctl = .waitEnter root :: rest) (st : r.stack = s.stack)
  | pop (root base : Nat) (rest : List Ctl) (top : Nat) (stk : List Nat) (hc : s.ctl = .waitLoop root base :: rest)
      (hst : s.stack = top :: stk) (hlen : base < s.stack.length)
      (hno : s.computed top = true ∨ (s.fut top).kind ≠ .task) (hp : Hp E s r) (c : r.ctl = s.ctl) (st : r.stack = stk)
  | suspend (root base : Nat) (rest : List Ctl) (top : Nat) (stk : List Nat)
      (hc : s.ctl = .waitLoop root base :: rest) (hst : s.stack = top :: stk) (hlen : base < s.stack.length)
      (hk : (s.fut top).kind = .task) (hp : Hp (O top) s r) (hact : (r.task top).ctxActive = false)
      (hpend : r.computed top = false → (r.task top).pending = (s.task top).pending) (c : r.ctl = s.ctl)
      (st : r.stack = stk)
  | visit (root base : Nat) (rest : List Ctl) (top : Nat) (stk : List Nat)
      (hc : s.ctl = .waitLoop root base :: rest) (hst : s.stack = top :: stk) (hlen : base < s.stack.length)
      (hk : (s.fut top).kind = .task) (hnc : s.computed top = false) (ds : List Nat) (hne : ds ≠ [])
      (hds : ∀ d ∈ ds, d ∈ (s.task top).deps) (hp : Hp (O top) s r)
      (hpend : (r.task top).pending = (s.task top).pending) (hdeps : (r.task top).deps = (s.task top).deps)
      (hcomp : r.computed top = false) (c : r.ctl = s.ctl) (st : r.stack = ds ++ s.stack)
  | enterGen (root base : Nat) (rest : List Ctl) (top : Nat) (stk : List Nat) (old : Option Nat)
      (hc : s.ctl = .waitLoop root base :: rest) (hst : s.stack = top :: stk) (hlen : base < s.stack.length)
      (hk : (s.fut top).kind = .task) (hnc : s.computed top = false) (hp : Hp (O top) s r)
      (c : r.ctl = .gen top old :: s.ctl) (st : r.stack = s.stack)
  | gen (t : Nat) (old : Option Nat) (rest : List Ctl) (hc : s.ctl = .gen t old :: rest) (g : GenR s t r)
  | guard (h : r.guardFired = true)


theorem Sc'.mkSuspend {s : State} (x r : State) (root base : Nat) (rest : List Ctl) (top : Nat) (stk : List Nat)
    (hc : s.ctl = .waitLoop root base :: rest) (hst : s.stack = top :: stk) (hlen : base < s.stack.length)
    (hk : (s.fut top).kind = .task) (hp : Hp (O top) s x) (hact : (x.task top).ctxActive = false)
    (hpend : x.computed top = false → (x.task top).pending = (s.task top).pending)
    (ef : r.futs = x.futs) (c : r.ctl = s.ctl) (st : r.stack = stk) : Sc' s r :=
  .suspend root base rest top stk hc hst hlen hk (hp.cg ef) (by rw [task_of_futs ef]; exact hact)
    (by rw [task_of_futs ef, computed_of_futs ef]; exact hpend) c st

theorem Sc'.mkVisit {s : State} (x r : State) (root base : Nat) (rest : List Ctl) (top : Nat) (stk : List Nat)
    (hc : s.ctl = .waitLoop root base :: rest) (hst : s.stack = top :: stk) (hlen : base < s.stack.length)
    (hk : (s.fut top).kind = .task) (hnc : s.computed top = false) (ds : List Nat) (hne : ds ≠ [])
    (hds : ∀ d ∈ ds, d ∈ (s.task top).deps) (hp : Hp (O top) s x)
    (hpend : (x.task top).pending = (s.task top).pending) (hdeps : (x.task top).deps = (s.task top).deps)
    (hcomp : x.computed top = false) (ef : r.futs = x.futs) (c : r.ctl = s.ctl) (st : r.stack = ds ++ s.stack) :
    Sc' s r :=
  .visit root base rest top stk hc hst hlen hk hnc ds hne hds (hp.cg ef) (by rw [task_of_futs ef]; exact hpend)
    (by rw [task_of_futs ef]; exact hdeps) (by rw [computed_of_futs ef]; exact hcomp) c st

theorem handle_sc' (s : State) (hz : ∀ u, s.computed u = false → (s.task u).ctxActive = false → P2.NAfree s u) (root base : Nat) (rest : List Ctl) (t : Nat) (stk : List Nat)
    (hctl : s.ctl = .waitLoop root base :: rest) (hst : s.stack = t :: stk) (hlen : base < s.stack.length)
    (hk : (s.fut t).kind = .task) (hnc : s.computed t = false) : Sc' s (s.handleTask t) := by
  have hzt := hz t hnc
  have ht := lt_of_kind_task s t hk
  unfold State.handleTask
  simp only []
  split
  · next hb =>
    split
    · -- second visit
      have h1 : Hp (O t) s (s.updTask t fun ts => { ts with depsSched := false }) := hp_updTask s t _ ht
      have hts1 : (s.updTask t fun ts => { ts with depsSched := false }).task t = { s.task t with depsSched := false } :=
        task_updTask_self _ _ _ ht
      by_cases hna : P2.NAfree s t
      · have fl := flip_pause'' (s.updTask t fun ts => { ts with depsSched := false }) t
          (by intro c hc; rw [hts1] at hc; exact hna c hc) (by simpa using ht)
        refine Sc'.mkSuspend ((s.updTask t fun ts => { ts with depsSched := false }).pauseContexts t) _ root base rest t
          stk hctl hst hlen hk (h1.trans fl.hp) fl.act (fun _ => by rw [fl.pending, hts1]) rfl ?_ ?_
        · show (State.pauseContexts _ t).ctl = _
          rw [fl.same.ctl]; rfl
        · show (State.pauseContexts _ t).stack.tail = _
          rw [fl.same.stack]
          show s.stack.tail = stk
          rw [hst]; rfl
      · have hact : (s.task t).ctxActive = true := by
          cases ha : (s.task t).ctxActive with
          | true => rfl
          | false => exact absurd (hzt ha) hna
        have sm := same_pauseContexts (s.updTask t fun ts => { ts with depsSched := false }) t
        obtain ⟨f1, f2, f3⟩ := pause_fail (s.updTask t fun ts => { ts with depsSched := false }) t
          (by intro hh; apply hna; intro c hc; exact hh c (by rw [hts1]; exact hc)) (by rw [hts1]; exact hact)
          (by simpa using ht) (by rw [computed_updTask]; exact hnc)
        refine Sc'.mkSuspend ((s.updTask t fun ts => { ts with depsSched := false }).pauseContexts t) _ root base rest t
          stk hctl hst hlen hk (h1.trans f1) f2 (fun hh => by rw [f3] at hh; cases hh) rfl ?_ ?_
        · show (State.pauseContexts _ t).ctl = _
          rw [sm.ctl]; rfl
        · show (State.pauseContexts _ t).stack.tail = _
          rw [sm.stack]
          show s.stack.tail = stk
          rw [hst]; rfl
    · -- first visit
      have h1 : Hp (O t) s (s.updTask t fun ts => { ts with depsSched := true }) := hp_updTask s t _ ht
      have hts0 : (s.updTask t fun ts => { ts with depsSched := true }).task t = { s.task t with depsSched := true } :=
        task_updTask_self _ _ _ ht
      have fl := flip_resume'' (s.updTask t fun ts => { ts with depsSched := true }) t
        (by intro ha c hc; rw [hts0] at ha hc; exact hzt ha c hc) (by simpa using ht)
      have hts : (s.updTask t fun ts => { ts with depsSched := true }).task t = { s.task t with depsSched := true } :=
        task_updTask_self _ _ _ ht
      have hcomp : ∀ f, ((s.updTask t fun ts => { ts with depsSched := true }).resumeContexts t).computed f =
          s.computed f := fun f => by rw [fl.comp, computed_updTask]
      refine Sc'.mkVisit ((s.updTask t fun ts => { ts with depsSched := true }).resumeContexts t) _ root base rest t stk
        hctl hst hlen hk hnc
        (((s.task t).deps.filter fun d =>
          !((s.updTask t fun ts => { ts with depsSched := true }).resumeContexts t).computed d).reverse) ?_ ?_
        (h1.trans fl.hp) ?_ ?_ ?_ rfl ?_ ?_
      · intro hnil
        rw [List.reverse_eq_nil_iff, List.filter_eq_nil_iff] at hnil
        rw [List.any_eq_true] at hb
        obtain ⟨d, hd, hdc⟩ := hb
        have := hnil d hd
        rw [hcomp] at this
        exact this hdc
      · intro d hd
        exact (List.mem_filter.1 (List.mem_reverse.1 hd)).1
      · rw [fl.pending, hts]
      · rw [fl.deps, hts]
      · rw [hcomp]; exact hnc
      · show (State.resumeContexts _ t).ctl = _
        rw [fl.same.ctl]; rfl
      · show _ ++ (State.resumeContexts _ t).stack = _
        rw [fl.same.stack]; rfl
  · split
    · exact .same (Hp.of_futs rfl) rfl rfl
    · have fl := flip_resume'' s t hzt ht
      refine .enterGen root base rest t stk (s.resumeContexts t).active hctl hst hlen hk hnc (fl.hp.cg rfl) ?_ ?_
      · show _ :: (s.resumeContexts t).ctl = _
        rw [fl.same.ctl]
      · show (s.resumeContexts t).stack = _
        rw [fl.same.stack]

theorem exec_sc' (s : State) (hz : ∀ u, s.computed u = false → (s.task u).ctxActive = false → P2.NAfree s u) (root base : Nat) (rest : List Ctl)
    (hctl : s.ctl = .waitLoop root base :: rest) (hlen : base < s.stack.length) : Sc' s s.executeIter := by
  unfold State.executeIter
  split
  · exact .same (Hp.of_futs rfl) rfl rfl
  · next top stk hst =>
    split
    · exact .guard rfl
    · split
      · next hc =>
        exact .pop root base rest top stk hctl hst hlen (.inl hc) (Hp.of_futs rfl) rfl (by simp [State.popStack, hst])
      · next hc =>
        split
        · next hk => exact handle_sc' s hz root base rest top stk hctl hst hlen hk (by simpa using hc)
        · next hk =>
          refine .pop root base rest top stk hctl hst hlen (.inr (by rw [hk]; intro h; cases h)) ?_ ?_ ?_
          · refine Hp.of_futs ?_
            show (State.popStack _).futs = _
            simp only [State.popStack]
            split
            · split <;> rfl
            · rfl
          · show (State.popStack _).ctl = s.ctl
            simp only [State.popStack]
            split
            · split <;> rfl
            · rfl
          · show (State.popStack _).stack = stk
            simp only [State.popStack]
            split
            · split <;> simp [hst]
            · simp [hst]
        · next o hk =>
          exact .pop root base rest top stk hctl hst hlen (.inr (by rw [hk]; intro h; cases h))
            ((hp_complete_nt s top _ (by rw [hk]; intro h; cases h)).cg rfl) rfl
            (by simp [State.popStack, State.complete, State.emit, State.setFut, hst])
        · exact .same (Hp.of_futs rfl) rfl rfl

theorem step_sc' (s : State) (hz : ∀ u, s.computed u = false → (s.task u).ctxActive = false → P2.NAfree s u) (hi : P2.ItemsOk s) (hr : s.raising = none)
    (hgk : ∀ t old rest, s.ctl = .gen t old :: rest → t < s.futs.length) : Sc' s (step s) := by
  unfold step
  split
  · exact .same (Hp.refl E s (fun _ h => h.elim)) rfl rfl
  · split
    · next hctl =>
      split
      · exact .same (Hp.of_futs rfl) rfl rfl
      · split
        · exact .same (Hp.refl E s (fun _ h => h.elim)) rfl rfl
        · next conv body rest' _ =>
          refine .top _ hctl ?_ rfl rfl
          have h1 : Hp E s (({ s with tops := rest', topIdx := s.topIdx + 1 } : State).emit (.top s.topIdx conv)) :=
            Hp.of_futs rfl
          exact (h1.trans (hp_newTask _ body [])).cg rfl
    · next root rest hctl =>
      simp only [hr, Option.isSome_none, Bool.false_eq_true, if_false]
      split
      · exact .popEnter root rest hctl (Hp.of_futs rfl) (by simp [State.returnFromWait, hctl]) rfl
      · exact .enterLoop root rest hctl (Hp.of_futs rfl) (by simp [hctl]) rfl
    · next root base rest hctl =>
      simp only [hr, Option.isSome_none, Bool.false_eq_true, if_false]
      split
      · next hlen => exact exec_sc' s hz root base rest hctl hlen
      · next hlen =>
        have hle : s.stack.length ≤ base := Nat.le_of_not_lt hlen
        split
        · exact .popLoop root base rest hctl hle (Hp.of_futs rfl) (by simp [State.returnFromWait, hctl]) rfl
        · have c := same_schedulerFlush s root
          refine .flush root base rest hctl hle (hp_schedulerFlush s root hi) ?_ c.stack
          rw [c.ctl]
          show _ :: s.ctl.tail = _
          rw [hctl]; rfl
    · next t old rest hctl =>
      simp only [hr, Option.isSome_none, Bool.false_and, Bool.false_eq_true, if_false]
      exact .gen t old rest hctl (genStep_r s t old (hgk t old rest hctl) hi)


/-- what the libraries P2, P3, P10 say about a reachable state of a well-scoped program (no `NA`) -/
structure Lib' (s : State) : Prop where
  hinv : P10.HInv s
  chain : s.ctl.Pairwise (P10.nest s)
  disc : P10.disc s.ctl s.stack
  nodup : (P2.gens s.ctl).Nodup
  genKind : ∀ t ∈ P2.gens s.ctl, (s.fut t).kind = .task
  notIn : ∀ root base rest top st, s.ctl = .waitLoop root base :: rest → base < s.stack.length →
    s.stack = top :: st → top ∉ P2.gens s.ctl
  z : ∀ u, s.computed u = false → (s.task u).ctxActive = false → P2.NAfree s u
  items : P2.ItemsOk s
  raising : s.raising = none

theorem lab_keep' {X : Nat → Prop} {s r : State} (lb : Lib' s) (hp : Hp X s r)
    (hX : ∀ p, X p → s.stack.head? = some p) (st : r.stack = s.stack)
    (he : ∀ p u, s.stack.head? ≠ some p → edgeIn s.ctl p u → edgeIn r.ctl p u) (h : LabI s) : LabI r := by
  obtain ⟨L, hL, hlab, hh⟩ := h
  refine ⟨L, by rw [st]; exact hL, Lab.transfer_top lb.hinv lb.chain hp hlab hL hX he, ?_⟩
  intro o hk ha hc
  rw [st]
  by_cases hx : X o
  · exact .inl (hX o hx)
  · obtain ⟨h1, h2, h3⟩ := heads_back hp hk ha hc hx
    exact hh o h1 h2 h3

theorem lab_pop' {X : Nat → Prop} {s r : State} (lb : Lib' s) (hp : Hp X s r) {top : Nat} {stk : List Nat}
    (hst : s.stack = top :: stk) (hX : ∀ p, X p → p = top) (st : r.stack = stk)
    (he : ∀ p u, s.stack.head? ≠ some p → edgeIn s.ctl p u → edgeIn r.ctl p u)
    (hexcl : ¬ ((r.fut top).kind = .task ∧ (r.task top).ctxActive = true ∧ r.computed top = false))
    (h : LabI s) : LabI r := by
  obtain ⟨L, hL, hlab, hh⟩ := h
  have hX' : ∀ p, X p → s.stack.head? = some p := fun p hx => by rw [hX p hx, hst]; rfl
  have hlabr : Lab r L := Lab.transfer_top lb.hinv lb.chain hp hlab hL hX' he
  cases L with
  | nil => rw [hst] at hL; cases hL
  | cons x L' =>
    obtain ⟨a, pa⟩ := x
    rw [hst] at hL
    simp only [List.map_cons, List.cons.injEq] at hL
    obtain ⟨rfl, hL'⟩ := hL
    refine ⟨L', by rw [st]; exact hL', hlabr.tail, ?_⟩
    intro o hk ha hc
    by_cases ho : o = a
    · subst ho; exact absurd ⟨hk, ha, hc⟩ hexcl
    · have hx : ¬ X o := fun hx => ho (hX o hx)
      obtain ⟨h1, h2, h3⟩ := heads_back hp hk ha hc hx
      rcases hh o h1 h2 h3 with h4 | h4
      · rw [hst] at h4; simp at h4; exact absurd h4.symm ho
      · simp only [List.map_cons, List.mem_cons] at h4
        rcases h4 with h4 | h4
        · -- `o` is the label of the popped entry
          cases L' with
          | nil =>
            have : pa = a := hlab
            exact absurd (h4.trans this) ho
          | cons y L'' =>
            obtain ⟨b, pb⟩ := y
            rcases hlab.2.1 with e | e
            · left
              rw [st, ← hL']; simp [h4, e]
            · right
              simp [h4, e]
        · exact .inr h4

theorem lab_push' {s r : State} (lb : Lib' s) {top : Nat} {stk : List Nat} (hp : Hp (O top) s r)
    (hst : s.stack = top :: stk) (ds : List Nat) (hne : ds ≠ []) (hl : ∀ d ∈ ds, Link r top d)
    (st : r.stack = ds ++ s.stack)
    (he : ∀ p u, s.stack.head? ≠ some p → edgeIn s.ctl p u → edgeIn r.ctl p u) (h : LabI s) : LabI r := by
  obtain ⟨L, hL, hlab, hh⟩ := h
  have hX' : ∀ p, O top p → s.stack.head? = some p := fun p hx => by rw [hx, hst]; rfl
  have hlabr : Lab r L := Lab.transfer_top lb.hinv lb.chain hp hlab hL hX' he
  cases L with
  | nil => rw [hst] at hL; cases hL
  | cons x L' =>
    obtain ⟨a, pa⟩ := x
    have hL0 := hL
    rw [hst] at hL
    simp only [List.map_cons, List.cons.injEq] at hL
    obtain ⟨rfl, hL'⟩ := hL
    refine ⟨ds.map (fun d => (d, a)) ++ (a, pa) :: L', ?_, Lab.push ds L' pa hlabr hl, ?_⟩
    · rw [st, ← hL0, List.map_append, map_fst_pair]
    · intro o hk ha hc
      right
      by_cases ho : o = a
      · subst ho
        cases ds with
        | nil => exact absurd rfl hne
        | cons d ds => simp
      · obtain ⟨h1, h2, h3⟩ := heads_back hp hk ha hc ho
        rcases hh o h1 h2 h3 with h4 | h4
        · rw [hst] at h4; simp at h4; exact absurd h4.symm ho
        · simp only [List.map_append, List.mem_append]
          exact .inr h4

theorem J_step' (s : State) (lb : Lib' s) (j : J s) (hg : (step s).guardFired = false) : J (step s) := by
  have hgk : ∀ t old rest, s.ctl = .gen t old :: rest → t < s.futs.length := fun t old rest hc =>
    lt_of_kind_task s t (lb.genKind t (by rw [hc]; simp [P2.gens]))
  have hid : ∀ p u, s.stack.head? ≠ some p → edgeIn s.ctl p u → edgeIn s.ctl p u := fun _ _ _ h => h
  cases step_sc' s lb.z lb.items lb.raising hgk with
  | same hp c st =>
    refine ⟨lab_keep' lb hp (fun _ h => h.elim) st (by rw [c]; exact hid) j.lab, ?_, ?_⟩
    · exact sync_keep hp j.sync (fun _ _ h => h.elim) (fun p u h => .inl (by rw [c] at h; exact h))
    · exact pend_keep hp j.pend (fun t h _ => by rw [c]; exact h) (fun _ h => h.elim)
  | top f hc hp c st =>
    refine ⟨lab_keep' lb hp (fun _ h => h.elim) st ?_ j.lab, ?_, ?_⟩
    · intro p u _ h; rw [hc] at h; exact absurd h edgeIn_nil
    · refine sync_keep hp j.sync (fun _ _ h => h.elim) (fun p u h => ?_)
      rw [c] at h
      rcases edgeIn_cons_inv h with h | ⟨_, _, _, h⟩
      · exact absurd h edgeIn_nil
      · cases h
    · exact pend_keep hp j.pend (fun t h _ => by rw [hc] at h; simp [P2.gens] at h) (fun _ h => h.elim)
  | popEnter root rest hc hp c st =>
    refine ⟨lab_keep' lb hp (fun _ h => h.elim) st ?_ j.lab, ?_, ?_⟩
    · rw [c]; exact edge_pop hc lb.disc (.inl ⟨root, rfl⟩)
    · exact sync_keep hp j.sync (fun _ _ h => h.elim)
        (fun p u h => .inl (by rw [c] at h; rw [hc]; exact edgeIn_cons _ h))
    · exact pend_keep hp j.pend (fun t h _ => by rw [c]; rw [hc, gens_waitEnter] at h; exact h) (fun _ h => h.elim)
  | popLoop root base rest hc hlen hp c st =>
    refine ⟨lab_keep' lb hp (fun _ h => h.elim) st ?_ j.lab, ?_, ?_⟩
    · rw [c]; exact edge_pop hc lb.disc (.inr ⟨root, base, rfl, hlen⟩)
    · exact sync_keep hp j.sync (fun _ _ h => h.elim)
        (fun p u h => .inl (by rw [c] at h; rw [hc]; exact edgeIn_cons _ h))
    · exact pend_keep hp j.pend (fun t h _ => by rw [c]; rw [hc, gens_waitLoop] at h; exact h) (fun _ h => h.elim)
  | enterLoop root rest hc hp c st =>
    have he : ∀ p u, edgeIn s.ctl p u → edgeIn (step s).ctl p u := by
      intro p u h
      rw [hc] at h; rw [c]
      exact edgeIn_rehead h (isWait_enter_loop root _)
    refine ⟨?_, ?_, ?_⟩
    · obtain ⟨L, hL, hlab, hh⟩ := j.lab
      have hlabr : Lab (step s) L :=
        Lab.transfer_top lb.hinv lb.chain hp hlab hL (fun _ h => h.elim) (fun p u _ h => he p u h)
      have hd := lb.disc
      rw [hc] at hd
      rcases hd.1 with hnil | ⟨t, old, rest', hrest⟩
      · -- the outermost `wait_for`
        rw [hnil] at hd
        have hstk : s.stack = [] := hd.2
        refine ⟨[(root, root)], by rw [st, hstk]; rfl, rfl, ?_⟩
        intro o hk ha hc'
        obtain ⟨h1, h2, h3⟩ := heads_back hp hk ha hc' (fun h => h)
        rcases hh o h1 h2 h3 with h4 | h4
        · rw [hstk] at h4; cases h4
        · have : L = [] := by
            cases L with
            | nil => rfl
            | cons x L => rw [hstk] at hL; cases hL
          rw [this] at h4; cases h4
      · -- a nested `wait_for`, called from the generator of `t`, the top of the stack
        rw [hrest] at hd
        have hhead : s.stack.head? = some t := disc_gen_head hd.2
        cases L with
        | nil => rw [← hL] at hhead; cases hhead
        | cons x L' =>
          obtain ⟨a, pa⟩ := x
          have hat : a = t := by rw [← hL] at hhead; simpa using hhead
          subst hat
          have hedge : edgeIn s.ctl a root := by rw [hc, hrest]; exact edgeIn_head old rest' (isWait_enter root)
          have hl : Link s a root := ⟨(j.sync a root hedge).1, .inr (j.sync a root hedge).2⟩
          have hlr : Link (step s) a root := hl.transfer hp (fun h => h) (he a root)
          refine ⟨(root, a) :: (a, pa) :: L', by rw [st, ← hL]; rfl, ⟨hlr, .inl rfl, hlabr⟩, ?_⟩
          intro o hk ha hc'
          obtain ⟨h1, h2, h3⟩ := heads_back hp hk ha hc' (fun h => h)
          right
          rcases hh o h1 h2 h3 with h4 | h4
          · rw [hhead] at h4
            simp only [Option.some.injEq] at h4
            simp [h4]
          · simp only [List.map_cons, List.mem_cons] at h4 ⊢
            exact .inr h4
    · refine sync_keep hp j.sync (fun _ _ h => h.elim) (fun p u h => .inl ?_)
      rw [c] at h; rw [hc]
      exact edgeIn_rehead h (isWait_loop_enter root _)
    · exact pend_keep hp j.pend (fun t h _ => by rw [c, gens_waitLoop]; rw [hc, gens_waitEnter] at h; exact h)
        (fun _ h => h.elim)
  | flush root base rest hc hlen hp c st =>
    refine ⟨lab_keep' lb hp (fun _ h => h.elim) st ?_ j.lab, ?_, ?_⟩
    · intro p u _ h
      rw [hc] at h; rw [c]
      exact edgeIn_rehead h (isWait_loop_enter root base)
    · refine sync_keep hp j.sync (fun _ _ h => h.elim) (fun p u h => .inl ?_)
      rw [c] at h; rw [hc]
      exact edgeIn_rehead h (isWait_enter_loop root base)
    · exact pend_keep hp j.pend (fun t h _ => by rw [c, gens_waitEnter]; rw [hc, gens_waitLoop] at h; exact h)
        (fun _ h => h.elim)
  | pop root base rest top stk hc hst hlen hno hp c st =>
    refine ⟨lab_pop' lb hp hst (fun _ h => h.elim) st (by rw [c]; exact hid) ?_ j.lab, ?_, ?_⟩
    · rintro ⟨h1, h2, h3⟩
      rcases hno with h | h
      · rw [hp.comp top h] at h3; cases h3
      · rcases Nat.lt_or_ge top s.futs.length with hl | hl
        · rw [hp.kind top hl] at h1; exact h h1
        · have := (hp.fresh top hl h1).2
          rw [h2] at this; cases this
    · exact sync_keep hp j.sync (fun _ _ h => h.elim) (fun p u h => .inl (by rw [c] at h; exact h))
    · exact pend_keep hp j.pend (fun t h _ => by rw [c]; exact h) (fun _ h => h.elim)
  | suspend root base rest top stk hc hst hlen hk hp hact hpend c st =>
    have hnin := lb.notIn root base rest top stk hc hlen hst
    refine ⟨lab_pop' lb hp hst (fun _ h => h) st (by rw [c]; exact hid) ?_ j.lab, ?_, ?_⟩
    · rintro ⟨_, h2, _⟩
      rw [hact] at h2; cases h2
    · exact sync_keep hp j.sync (fun p u hx h => by rw [hx] at h; exact hnin (edgeIn_gens h))
        (fun p u h => .inl (by rw [c] at h; exact h))
    · refine pend_keep hp j.pend (fun t h _ => by rw [c]; exact h) ?_
      intro t hx _ hcr _
      rw [hx] at hcr ⊢
      rw [hpend hcr]
      refine j.pend top hk ?_ hnin
      cases hcs : s.computed top with
      | false => rfl
      | true => rw [hp.comp top hcs] at hcr; cases hcr
  | visit root base rest top stk hc hst hlen hk hnc ds hne hds hp hpend hdeps hcomp c st =>
    have hnin := lb.notIn root base rest top stk hc hlen hst
    have hpt : (s.task top).pending = true := j.pend top hk hnc hnin
    refine ⟨lab_push' lb hp hst ds hne ?_ st (by rw [c]; exact hid) j.lab, ?_, ?_⟩
    · intro d hd
      refine ⟨by rw [hp.kind top (lt_of_kind_task s top hk)]; exact hk, .inl ⟨hcomp, by rw [hpend]; exact hpt, ?_⟩⟩
      rw [hdeps]; exact hds d hd
    · exact sync_keep hp j.sync (fun p u hx h => by rw [hx] at h; exact hnin (edgeIn_gens h))
        (fun p u h => .inl (by rw [c] at h; exact h))
    · refine pend_keep hp j.pend (fun t h _ => by rw [c]; exact h) ?_
      intro t hx _ _ _
      rw [hx, hpend]; exact hpt
  | enterGen root base rest top stk old hc hst hlen hk hnc hp c st =>
    have hnin := lb.notIn root base rest top stk hc hlen hst
    refine ⟨lab_keep' lb hp (fun p hx => by rw [hx, hst]; rfl) st ?_ j.lab, ?_, ?_⟩
    · intro p u _ h; rw [c]; exact edgeIn_cons _ h
    · refine sync_keep hp j.sync (fun p u hx h => by rw [hx] at h; exact hnin (edgeIn_gens h)) (fun p u h => .inl ?_)
      rw [c] at h
      rcases edgeIn_cons_inv h with h | ⟨hw, _⟩
      · exact h
      · exact absurd hw isWait_not_gen
    · refine pend_keep hp j.pend (fun t h _ => by rw [c, gens_gen]; exact List.mem_cons_of_mem _ h) ?_
      intro t hx _ _ hn
      rw [c, gens_gen, hx] at hn
      exact absurd List.mem_cons_self hn
  | gen t old rest hc g =>
    have hd := lb.disc
    rw [hc] at hd
    have hhead : s.stack.head? = some t := disc_gen_head hd
    have hX : ∀ p, O t p → s.stack.head? = some p := fun p hx => by rw [hx]; exact hhead
    have hnod := lb.nodup
    rw [hc] at hnod
    have hXe : ∀ p u, O t p → ¬ edgeIn s.ctl p u := fun p u hx h => by
      rw [hx, hc] at h; exact not_edgeIn_head hnod h
    have hkt : (s.fut t).kind = .task := lb.genKind t (by rw [hc]; simp [P2.gens])
    cases g with
    | stay hp c st =>
      refine ⟨lab_keep' lb hp hX st (by rw [c]; exact hid) j.lab, ?_, ?_⟩
      · exact sync_keep hp j.sync hXe (fun p u h => .inl (by rw [c] at h; exact h))
      · refine pend_keep hp j.pend (fun t h _ => by rw [c]; exact h) ?_
        intro p hx _ _ hn
        rw [c, hc, gens_gen, hx] at hn
        exact absurd List.mem_cons_self hn
    | leave hp c st h =>
      have hc' : (step s).ctl = rest := by rw [c, hc]; rfl
      refine ⟨lab_keep' lb hp hX st ?_ j.lab, ?_, ?_⟩
      · intro p u _ h
        rw [hc'] ; rw [hc] at h
        rcases edgeIn_cons_inv h with h | ⟨hw, _⟩
        · exact h
        · exact absurd hw isWait_not_gen
      · exact sync_keep hp j.sync hXe (fun p u h => .inl (by rw [hc'] at h; rw [hc]; exact edgeIn_cons _ h))
      · refine pend_keep hp j.pend ?_ ?_
        · intro p hm hx
          rw [hc'] ; rw [hc, gens_gen] at hm
          rcases List.mem_cons.1 hm with hm | hm
          · exact absurd hm hx
          · exact hm
        · intro p hx _ hcr _
          rw [hx] at hcr ⊢
          rcases h with h | h
          · exact h
          · rw [h] at hcr; cases hcr
    | call f hp c st hb hpnd =>
      refine ⟨lab_keep' lb hp hX st (by intro p u _ h; rw [c]; exact edgeIn_cons _ h) j.lab, ?_, ?_⟩
      · refine sync_keep hp j.sync hXe (fun p u h => ?_)
        have h0 := h
        rw [c] at h
        rcases edgeIn_cons_inv h with h | ⟨hw, old', post, e⟩
        · exact .inl h
        · right
          rw [hc] at e
          simp only [List.cons.injEq, Ctl.gen.injEq] at e
          obtain ⟨⟨rfl, _⟩, _⟩ := e
          have hu : u = f := by
            rcases hw with hw | ⟨b, hw⟩
            · cases hw; rfl
            · cases hw
          subst hu
          exact ⟨by rw [hp.kind _ (lt_of_kind_task s _ hkt)]; exact hkt, hb, hpnd, h0⟩
      · refine pend_keep hp j.pend (fun t h _ => by rw [c, gens_waitEnter]; exact h) ?_
        intro p hx _ _ hn
        rw [c, gens_waitEnter, hc, gens_gen, hx] at hn
        exact absurd List.mem_cons_self hn
  | guard h => rw [h] at hg; cases hg


theorem lib'_of_ws {s : State} (h : P10.WSReach s) (hg : s.guardFired = false) : Lib' s := by
  have pi := P2.pinv_reach h.reach
  refine ⟨(P10.ws_hinv h).1, (P10.ws_binv h).chain, (P10.ws_cinv h hg).disc, pi.distinct, pi.genKind, ?_, ?_,
    pi.items, (P3.reach_core s h.reach hg).1.raising⟩
  · intro root base rest top st hc hlen hst
    exact not_mem_gens_of_any ((P10.ws_binv h).not_inGens (P10.ws_hinv h).1 hc hlen hst)
  · intro u hu ha
    refine pi.z u ?_ ha
    cases ho : s.out u with
    | none => rfl
    | some o => simp [State.computed, ho] at hu

/-- the DFS-chain invariant of `P12` for every reachable state of a well-scoped program in which the stack guard has
    not fired - NonAsyncContexts allowed -/
theorem J_reach' {s : State} (h : P10.WSReach s) (hg : s.guardFired = false) : J s := by
  induction h with
  | init cfg tops choices _ => exact J_init cfg tops choices
  | @step s hs ih =>
    have hg0 := P3.guard_mono s hg
    exact J_step' s (lib'_of_ws hs hg0) (ih hg0) hg

end AsynqModel.Core.P16
