import AsynqModel.Proofs.P4Step
/-! P4: the invariant holds in every reachable state of a well-scoped run -/
namespace AsynqModel.Core.P4
open AsynqModel.Core

theorem good_init (cfg : Cfg) (tops : List (Conv × Body)) (choices : List (Nat × Nat))
    (h : ∀ p ∈ tops, wsTop p.2 = true) : Good (initState cfg tops choices) := by
  have hd : ∀ f, (initState cfg tops choices).fut f = {} := fun f => fut_default _ f (Nat.zero_le _)
  refine ⟨?_, ?_, h⟩
  · constructor
    · intro f o ho; rw [hd] at ho; cases ho
    · intro t hk; rw [hd] at hk; cases hk
    · intro t i hi; rw [hd] at hi; cases hi
    · intro t i hi; rw [hd] at hi; cases hi
    · intro t g k b _ hb; rw [hd] at hb; cases hb
    · intro t _; rw [hd]; rfl
    · intro t r hr; rw [hd] at hr; cases hr
    · intro t; rw [hd]; rfl
    · intro t _ _ hs; rw [hd] at hs; cases hs
    · intro t y k b _ _ hs; rw [hd] at hs; cases hs
    · intro t _ hs; rw [hd] at hs; cases hs
    · intro f k q p m hk; rw [hd] at hk; cases hk
    · intro f o hk; rw [hd] at hk; cases hk
    · intro b hb; cases hb
  · constructor
    · simp [initState, Inv.gensOf]
    · intro c r hc; cases hc
    · intro t o r hc; cases hc
    · intro p hp; simp [initState, Inv.gensOf] at hp
    · intro p hp; simp [initState, Inv.gensOf] at hp
    · rfl

theorem good_reach {cfg : Cfg} {tops : List (Conv × Body)} {choices : List (Nat × Nat)} {s : State}
    (h : ReachW cfg tops choices s) (hs : s.stuck = none) (hg : s.guardFired = false)
    (hn : Inv.noNonAsync s = true) : Good s := by
  induction h with
  | init hw => exact good_init cfg tops choices hw
  | step _ ih =>
    have hn' := step_noNonAsync _ hn
    exact good_step (ih (step_stuck _ hs) (step_guard _ hg) hn') hn' hs hg

end AsynqModel.Core.P4
