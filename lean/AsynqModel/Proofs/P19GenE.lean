import AsynqModel.Proofs.P19GenD
/-
  P19, part 15: the prediction invariant and the steps of a task body, part E: the instructions that create a future
  (`spawn`, `item`, `const`, `errfut`, `lazy`): the new future gets the description `roundsBody` appends to its table.
-/
namespace AsynqModel.Core.P19
open AsynqModel.Core AsynqModel.Core.P6

theorem PVok.own_append {v : FV} {pv : Y} (h : PVok v pv) (f : Nat) (k : Body) : PVok (ownView v f k) pv := by
  refine ⟨?_, ?_⟩
  · show v.prevY = pv.mapLeaves (vres (ownView v f k))
    rw [h.eq]
    apply P4.mapLeaves_congr
    intro r hr
    obtain ⟨i, rfl, hi⟩ := h.sc r hr
    show v.own.getD i 0 = (v.own ++ [f]).getD i 0
    rw [List.getD_eq_getElem?_getD, List.getD_eq_getElem?_getD, List.getElem?_append_left hi]
  · intro r hr
    obtain ⟨i, e, hi⟩ := h.sc r hr
    refine ⟨i, e, ?_⟩
    show i < (v.own ++ [f]).length
    simp; omega

/-- an instruction of the running task `t` that creates the future `fn` described by `a` -/
theorem E_upd2 {k0 : Nat} {s r : State} {t root R : Nat} (C : GenCtx k0 s r t root)
    (hp : (view s t).pending = false) (k : Body) (nv : FV) (a : FutR)
    (hu : Upd2 s r t (ownView (view s t) s.futs.length k) nv)
    (hnl : ¬ (nv.kind = .task ∧ nv.out = none ∧ nv.started = true))
    (hN : ∀ fin' : Nat → FutR, fin' s.futs.length = a → Loc r (fcount s.trace) fin' s.futs.length)
    (hI : Idle r s.futs.length)
    (hT : ∀ (tbl : List FutR) (pv : Y),
      pr s.cfg (view s t).body (view s t).conts (fcount s.trace) tbl (Inv.dens s (view s t).own) pv =
        pr s.cfg k (view s t).conts (fcount s.trace) (tbl ++ [a])
          (Inv.dens s (view s t).own ++ [(r.fut s.futs.length).den]) pv)
    (hE : E s root R) : E r root R := by
  have hvT : view r t = ownView (view s t) s.futs.length k := hu.viewT
  have hvN : view r s.futs.length = nv := hu.viewN
  have hvo : ∀ x, x ≠ t → x ≠ s.futs.length → view r x = view s x := hu.viewO
  have hst : (view s t).started = true := C.hA.sOfR t hp
  have hl : Live s t := ⟨C.kind, C.out, hst⟩
  have hfc : fcount r.trace = fcount s.trace := C.hx.fcount
  have htn : t ≠ s.futs.length := Nat.ne_of_lt C.lt
  have hrootLt : ∀ f, s.computed f = true → f ≠ s.futs.length := fun f hf => Nat.ne_of_lt (computed_lt hf)
  have hcomp : ∀ f, f ≠ s.futs.length → r.computed f = s.computed f := by
    intro f hf
    by_cases hft : f = t
    · subst hft; rw [computed_eq_view, computed_eq_view, hvT]; rfl
    · rw [computed_of_view (hvo f hft hf)]
  rcases hE with ⟨hc, hn⟩ | ⟨hc, fin, hfr, hloc⟩
  · exact Or.inl ⟨by rw [hcomp root (hrootLt root hc)]; exact hc, hfc.trans hn⟩
  · have hrlt : root < s.futs.length := (hloc root .root).lt
    have hrn : root ≠ s.futs.length := Nat.ne_of_lt hrlt
    let fin' : Nat → FutR := fun x => if x = s.futs.length then a else fin x
    have hfin'o : ∀ x, x ≠ s.futs.length → fin' x = fin x := fun x hx => by
      show (if x = s.futs.length then _ else _) = _; rw [if_neg hx]
    have hfin'n : fin' s.futs.length = a := by show (if _ = _ then _ else _) = _; rw [if_pos rfl]
    have hnlr : ¬ Live r s.futs.length := by rw [Live, hvN]; exact hnl
    have htrk : ∀ {f : Nat}, Trk r root f → f = s.futs.length ∨ Trk s root f :=
      Trk.transfer hnlr (fun x f hlx hf => by
        by_cases hxt : x = t
        · subst hxt
          rw [hvT] at hf
          rcases List.mem_append.1 (show f ∈ (view s x).own ++ [s.futs.length] from hf) with h | h
          · exact Or.inr ⟨hl, h⟩
          · simp at h; exact Or.inl h
        · by_cases hxn : x = s.futs.length
          · rw [hxn] at hlx; exact absurd hlx hnlr
          · rw [Live, hvo x hxt hxn] at hlx
            rw [hvo x hxt hxn] at hf
            exact Or.inr ⟨hlx, hf⟩)
    refine Or.inr ⟨by rw [hcomp root hrn]; exact hc, fin', ?_, ?_⟩
    · rw [hfin'o root hrn]
      rcases hfr with h | ⟨h1, h2, h3⟩
      · exact Or.inl h
      · have hrt : root ≠ t := by
          intro e; rw [e, hst] at h1; cases h1
        right; rw [hvo root hrt hrn, hfc, C.hx.cfg]; exact ⟨h1, h2, h3⟩
    · intro f hf
      rw [hfc]
      rcases htrk hf with hfn | hfs
      · rw [hfn]; exact hN fin' hfin'n
      · have L := hloc f hfs
        have hfn : f ≠ s.futs.length := Nat.ne_of_lt L.lt
        by_cases hft : f = t
        · subst hft
          obtain ⟨pv, q, LL⟩ := L.live hl
          have hown' : (view r f).own = (view s f).own ++ [s.futs.length] := by rw [hvT]; rfl
          refine ⟨by rw [hu.len]; exact Nat.lt_succ_of_lt C.lt, ?_, ?_, ?_, ?_, ?_, ?_⟩
          · intro h; rw [hvT] at h; exact absurd C.out h
          · intro k' q' p m _ h; rw [hvT] at h; have h' : (view s f).kind = _ := h; rw [C.kind] at h'; cases h'
          · intro lo _ h; rw [hvT] at h; have h' : (view s f).kind = _ := h; rw [C.kind] at h'; cases h'
          · intro _; rw [hvT]; show (view s f).kind ≠ _ ∧ (view s f).kind ≠ _; rw [C.kind]; exact ⟨by simp, by simp⟩
          · intro _ _ h; rw [hvT] at h; have h' : (view s f).started = false := h; rw [hst] at h'; cases h'
          · intro _
            refine ⟨pv, q, (hfin'o f htn).trans LL.hfin, by rw [hvT]; exact LL.hpv.own_append _ _, ?_, ?_, ?_⟩
            · have hmap : (view r f).own.map fin' = (view s f).own.map fin ++ [a] := by
                rw [hown', List.map_append]
                congr 1
                · apply List.map_congr_left
                  intro x hx
                  exact hfin'o x (Nat.ne_of_lt (C.hV.ownLt f x hx))
                · simp [hfin'n]
              have hdens : Inv.dens r (view r f).own = Inv.dens s (view s f).own ++ [(r.fut s.futs.length).den] := by
                rw [hown']
                unfold Inv.dens
                rw [List.map_append]
                congr 1
                apply List.map_congr_left
                intro x hx
                exact C.hx.den x (C.hV.ownLt f x hx)
              rw [hmap, hdens, C.hx.cfg]
              have hb : (view r f).body = k := by rw [hvT]; rfl
              have hc' : (view r f).conts = (view s f).conts := by rw [hvT]; rfl
              rw [hb, hc', ← hT]
              exact LL.hpr
            · intro d hd _
              rw [hown'] at hd
              rcases List.mem_append.1 hd with h | h
              · have hid := LL.hidle d h (Or.inl hp)
                have hdt : d ≠ f := fun e => C.not_idle (e ▸ hid)
                have hdn : d ≠ s.futs.length := Nat.ne_of_lt (C.hV.ownLt f d h)
                exact hid.of_view ⟨(view s d).flag, by rw [hvo d hdt hdn]; rfl⟩ (by rw [C.stack]; exact id)
              · simp at h; rw [h]; exact hI
            · intro y k' h' hp'
              rw [hvT] at hp'
              have : (view s f).pending = true := hp'
              rw [hp] at this; cases this
        · exact L.other C (Nat.le_refl _) hft hfn hvo (fun x _ hx => hfin'o x hx) (fun _ _ => hfin'o t htn)

end AsynqModel.Core.P19
