import AsynqModel.Proofs.P20Gen
/-
  P25 (termination without the NonAsync / guard hypotheses), part 1: `P20.genStep_gd` without the hypothesis that the
  remaining program creates no NonAsyncContext.  `GD'` is `P20.GD` minus the bookkeeping about `Spec.bodyHasNonAsync`,
  plus one constructor for the instruction `with NonAsyncContext(): ...` (whose effect on the views is that of any other
  `with`, but which breaks `P6.NoNA`, a field of the description `P6.Upd1`); `yield` also records that the new
  dependencies are old ones or futures named in the structure just yielded.
-/
namespace AsynqModel.Core.P25
open AsynqModel.Core AsynqModel.Core.P6 AsynqModel.Core.P6T AsynqModel.Core.P20

/-- what `genStep t` does -/
inductive GD' (s r : State) (t : Nat) : Prop
  /-- the first `send(None)` -/
  | start (hp : (view s t).pending = true) (hs : (view s t).started = false)
      (hu : Upd1 s r t (startView (view s t)))
  /-- an instruction that only changes the running task's private state (a resume included) -/
  | loc (v' : FV) (hu : Upd1 s r t v')
      (hkind : v'.kind = (view s t).kind) (hout : v'.out = (view s t).out)
      (hpend : v'.pending = false)
      (hstart : v'.started = true ∨ ((view s t).pending = false ∧ v'.started = (view s t).started))
      (hbs : BStep (view s t) v')
      (hsame : v'.started = (view s t).started) (hdeps : v'.deps = [] ∨ v'.deps = (view s t).deps)
  /-- `with NonAsyncContext():` -/
  | locNA (b k : Body) (cid : Nat) (hb : (view s t).body = .withCtx .nonasync b k)
      (hp : (view s t).pending = false) (hl : r.futs.length = s.futs.length) (htops : r.tops = s.tops)
      (hvt : view r t = pushView (cid, k) b (view s t)) (hvo : ∀ f, f ≠ t → view r f = view s f)
  /-- `child.asynq(...)` -/
  | spawn (child k : Body) (pass : List Ref) (hb : (view s t).body = .spawn child pass k)
      (hp : (view s t).pending = false)
      (hu : Upd2 s r t (ownView (view s t) s.futs.length k)
              (taskView child (pass.map (s.task t).resolve)))
      (hbat : r.batches = s.batches)
  /-- a batch item is created -/
  | item (kind payload : Nat) (mode : ItemMode) (k : Body) (seq : Nat)
      (hb : (view s t).body = .item kind payload mode k) (hp : (view s t).pending = false)
      (hu : Upd2 s r t (ownView (view s t) s.futs.length k)
              (plainView (.item kind seq payload mode) none))
      (hbat : ItemBatches s.batches r.batches kind seq s.futs.length)
  /-- a constant, error or lazy future is created -/
  | other (k : Body) (kd : FKind) (out : Option Outcome)
      (hb : (∃ a, (view s t).body = .const a k) ∨ (∃ a, (view s t).body = .errfut a k) ∨
        (∃ a, (view s t).body = .lazy a k))
      (hp : (view s t).pending = false)
      (hu : Upd2 s r t (ownView (view s t) s.futs.length k) (plainView kd out))
      (hbat : r.batches = s.batches)
      (hkd : (kd = .const ∧ out.isSome = true) ∨ (kd = .errfut ∧ out.isSome = true) ∨ ((∃ o, kd = .lazy o) ∧ out = none))
  /-- `yield`: the task is suspended -/
  | yield (npy : RY) (nd : List Nat) (leave : Bool)
      (hp : (view s t).pending = false)
      (hu : Upd1 s r t (yieldView (view s t) nd npy leave))
      (hdy : ∀ d ∈ nd, d ∈ (view s t).deps ∨ d ∈ extractFutures npy)
  /-- the task finishes -/
  | finish (o : Outcome) (hp : (view s t).pending = false)
      (hu : Upd1 s r t (finishView (view s t) o))
  /-- `child.asynq(...).value()`: the child is created, a nested `wait_for` starts -/
  | sync (child k h : Body) (pass : List Ref) (hb : (view s t).body = .sync child pass k h)
      (hp : (view s t).pending = false)
      (hu : Upd2 s r t (ownView (view s t) s.futs.length (.syncret s.futs.length k h))
              (taskView child (pass.map (s.task t).resolve)))
      (hbat : r.batches = s.batches)
  /-- `future.value()`: nothing (computed / a task: a nested `wait_for` starts), a direct flush of the item's batch,
      or the computation of a lazy future -/
  | syncfut (rf : Ref) (k h : Body) (s1 : State) (hb : (view s t).body = .syncfut rf k h)
      (hp : (view s t).pending = false)
      (hu : Upd1 s s1 t (bodyView (.syncret ((s.task t).resolve rf) k h) (view s t)))
      (F : FlushDesc s1 r)
      (hT : P2.ItemsOk s1 → ∀ f, (view s1 f).kind = .task → view r f = view s1 f)

theorem genStep_gd' (s : State) (t : Nat) (old : Option Nat) (hk : (view s t).kind = .task)
    (hst : (s.genStep t old).stuck = none) :
    GD' s (s.genStep t old) t := by
  have ht : t < s.futs.length := lt_of_view_task s t hk
  have U0 : Upd1 s s t (view s t) := Upd1.of_eqv (Eqv.refl s) t
  have hbody : (view s t).body = (s.task t).body := rfl
  have hpend : (view s t).pending = (s.task t).pending := rfl
  revert hst
  unfold State.genStep
  dsimp only
  split
  · rename_i hp
    split
    · -- start
      rename_i hs
      intro _
      have hs' : (view s t).started = false := by
        show (s.task t).started = false
        simpa using hs
      exact .start hp hs' ((U0.updTask ht _ startView (fun _ => rfl)).emit _)
    · rename_i hs
      have hs : (view s t).started = true := by
        show (s.task t).started = true
        simpa using hs
      split
      · rename_i y k h v hb _
        intro _
        have hb' : (view s t).body = .yld y k h := hb
        exact .loc _ ((U0.updTask ht _ (resumeView s.cfg.keepDeps k) (fun _ => rfl)).emit _)
          rfl rfl rfl (Or.inl hs)
          (.yld y k h hb' (Or.inl rfl) rfl) rfl (by unfold resumeView; cases s.cfg.keepDeps <;> simp)
      · rename_i y k h e hb _
        intro _
        have hb' : (view s t).body = .yld y k h := hb
        exact .loc _ ((U0.updTask ht _ (resumeView s.cfg.keepDeps h) (fun _ => rfl)).emit _)
          rfl rfl rfl (Or.inl hs)
          (.yld y k h hb' (Or.inr rfl) rfl) rfl (by unfold resumeView; cases s.cfg.keepDeps <;> simp)
      · rename_i k h v hb _
        intro _
        have hb' : (view s t).body = .reyld k h := hb
        exact .loc _ ((U0.updTask ht _ (resumeView s.cfg.keepDeps k) (fun _ => rfl)).emit _)
          rfl rfl rfl (Or.inl hs)
          (.reyld k h hb' (Or.inl rfl) rfl) rfl (by unfold resumeView; cases s.cfg.keepDeps <;> simp)
      · rename_i k h e hb _
        intro _
        have hb' : (view s t).body = .reyld k h := hb
        exact .loc _ ((U0.updTask ht _ (resumeView s.cfg.keepDeps h) (fun _ => rfl)).emit _)
          rfl rfl rfl (Or.inl hs)
          (.reyld k h hb' (Or.inr rfl) rfl) rfl (by unfold resumeView; cases s.cfg.keepDeps <;> simp)
      · intro h; simp at h
  · rename_i hp
    have hp : (view s t).pending = false := by
      show (s.task t).pending = false
      simpa using hp
    have fin : ∀ o, (s.finishTask t old o).stuck = none → GD' s (s.finishTask t old o) t := fun o h =>
      .finish o hp (finishTask_desc s t old o ht h).1
    split
    · exact fin _
    · exact fin _
    · exact fin _
    · exact fin _
    · -- spawn
      rename_i child pass k hb
      intro _
      have hb' : (view s t).body = .spawn child pass k := hb
      refine .spawn child k pass hb' hp ?_ rfl
      unfold State.newTask
      exact (Upd2.alloc (EqvNB.refl s) t ht _ _).updTask ht _ (fun v => ownView v s.futs.length k) (fun _ => rfl)
    · -- item
      rename_i kind payload mode k hb
      have hb' : (view s t).body = .item kind payload mode k := hb
      split
      · intro h; simp at h
      · rename_i b hcur
        intro _
        have key : ∀ s1 : State, EqvNB s s1 → s1.futs.length = s.futs.length →
            (s1.batches = s.batches ∨ (curBatchL s.batches kind = none ∧
              s1.batches = s.batches ++ [({ kind := kind, seq := 0 } : Batch)])) →
            s1.curBatch? kind = some b →
            GD' s (((s1.alloc (itemFut s1.cfg kind b.seq payload mode)
                (.item kind b.seq b.items.length payload mode)).1.updBatch kind b.seq
                  (addItemB s1.futs.length)).updTask t (ownTs s1.futs.length k)) t := by
          intro s1 e hl hbat hcur'
          refine .item kind payload mode k b.seq hb' hp ?_ ⟨s1.batches, b, ?_, hcur', rfl, ?_⟩
          · have U := (Upd2.alloc e t ht (itemFut s1.cfg kind b.seq payload mode)
                (.item kind b.seq b.items.length payload mode)).eqvNB
              (r' := ((s1.alloc (itemFut s1.cfg kind b.seq payload mode)
                (.item kind b.seq b.items.length payload mode)).1.updBatch kind b.seq (addItemB s1.futs.length)))
              ⟨rfl, fun _ => rfl, rfl, rfl, id⟩
            have U' := U.updTask ht (ownTs s1.futs.length k) (fun v => ownView v s1.futs.length k) (fun _ => rfl)
            rw [← hl]
            exact U'
          · rcases hbat with h | ⟨h1, h2⟩
            · exact Or.inl h
            · exact Or.inr ⟨h1, h2⟩
          · rw [← hl]; rfl
        cases hcb : s.curBatch? kind with
        | some b0 =>
          simp only [hcb] at hcur ⊢
          exact key s (EqvNB.refl s) rfl (Or.inl rfl) (hcb.trans hcur)
        | none =>
          simp only [hcb] at hcur ⊢
          exact key _ ⟨rfl, fun _ => rfl, rfl, rfl, id⟩ rfl (Or.inr ⟨hcb, rfl⟩) hcur
    · -- const
      rename_i v k hb
      intro _
      have hb' : (view s t).body = .const v k := hb
      refine .other k .const (some (.ok (.a v))) (Or.inl ⟨v, hb'⟩) hp ?_ rfl
        (Or.inl ⟨rfl, rfl⟩)
      exact (Upd2.alloc (EqvNB.refl s) t ht _ _).updTask ht _ (fun v => ownView v s.futs.length k) (fun _ => rfl)
    · -- errfut
      rename_i e k hb
      intro _
      have hb' : (view s t).body = .errfut e k := hb
      refine .other k .errfut (some (.err (.u e))) (Or.inr (Or.inl ⟨e, hb'⟩)) hp ?_ rfl
        (Or.inr (Or.inl ⟨rfl, rfl⟩))
      exact (Upd2.alloc (EqvNB.refl s) t ht _ _).updTask ht _ (fun v => ownView v s.futs.length k) (fun _ => rfl)
    · -- lazy
      rename_i lo k hb
      intro _
      have hb' : (view s t).body = .lazy lo k := hb
      refine .other k (.lazy lo) none (Or.inr (Or.inr ⟨lo, hb'⟩)) hp ?_ rfl
        (Or.inr (Or.inr ⟨⟨lo, rfl⟩, rfl⟩))
      exact (Upd2.alloc (EqvNB.refl s) t ht _ _).updTask ht _ (fun v => ownView v s.futs.length k) (fun _ => rfl)
    · -- yld
      rename_i y k h hb
      generalize hnd : (if s.cfg.keepDeps = true then (s.task t).deps else []) ++
        extractFutures (YS.mapLeaves (s.task t).resolve y) = nd
      have U := (U0.emit (.yield t (s.task t).resumes (y.mapLeaves (s.task t).resolve))).updTask ht
        (fun ts => { ts with pending := true, lastY := y.mapLeaves (s.task t).resolve,
                             prevY := y.mapLeaves (s.task t).resolve, prevYRef := y, deps := nd })
        (yieldG nd (y.mapLeaves (s.task t).resolve)) (fun _ => rfl)
      have hdy : ∀ d ∈ nd, d ∈ (view s t).deps ∨ d ∈ extractFutures (y.mapLeaves (s.task t).resolve) := by
        intro d hd
        rw [← hnd] at hd
        rcases List.mem_append.1 hd with h | h
        · left
          split at h
          · exact h
          · cases h
        · exact Or.inr h
      split
      · intro _
        exact .yield (y.mapLeaves (s.task t).resolve) nd false hp U hdy
      · intro _
        exact .yield (y.mapLeaves (s.task t).resolve) nd true hp (U.leaveGen ht old) hdy
    · -- reyld
      rename_i k h hb
      generalize hnd : (if s.cfg.keepDeps = true then (s.task t).deps else []) ++
        extractFutures (s.task t).prevY = nd
      have U := (U0.emit (.yield t (s.task t).resumes (s.task t).prevY)).updTask ht
        (fun ts => { ts with pending := true, lastY := (s.task t).prevY, deps := nd })
        (yieldG' nd) (fun _ => rfl)
      have hdy : ∀ d ∈ nd, d ∈ (view s t).deps ∨ d ∈ extractFutures (view s t).prevY := by
        intro d hd
        rw [← hnd] at hd
        rcases List.mem_append.1 hd with h | h
        · left
          split at h
          · exact h
          · cases h
        · exact Or.inr h
      split
      · intro _
        exact .yield (view s t).prevY nd false hp U hdy
      · intro _
        exact .yield (view s t).prevY nd true hp (U.leaveGen ht old) hdy
    · -- sync
      rename_i c p k h hb
      intro _
      have hb' : (view s t).body = .sync c p k h := hb
      refine .sync c k h p hb' hp ?_ rfl
      unfold State.newTask
      have U := (Upd2.alloc (EqvNB.refl s) t ht
        ({ kind := .task, ts := { body := c, inh := p.map (s.task t).resolve, creator := s.active },
           den := (evalBody s.cfg c [] [] ((p.map (s.task t).resolve).map fun i => (s.fut i).den) none .none).outcome } : Fut)
        (.task s.active)).updTask ht
        (fun ts => { ts with own := ts.own ++ [s.futs.length], body := .syncret s.futs.length k h })
        (fun v => ownView v s.futs.length (.syncret s.futs.length k h)) (fun _ => rfl)
      exact U.eqvNB ⟨rfl, fun _ => rfl, rfl, rfl, id⟩
    · -- syncfut
      rename_i rf k h hb
      have hb' : (view s t).body = .syncfut rf k h := hb
      have U := (U0.updTask ht (fun ts => { ts with body := .syncret ((s.task t).resolve rf) k h })
        (bodyView (.syncret ((s.task t).resolve rf) k h)) (fun _ => rfl)).emit
        (.syncE t ((s.task t).resolve rf))
      split
      · intro _
        exact .syncfut rf k h _ hb' hp U (flushDesc_refl _) (fun _ _ _ => rfl)
      · rename_i hcf
        split
        · intro _
          exact .syncfut rf k h _ hb' hp U (flushDesc_withCtl (flushDesc_refl _) _) (fun _ _ _ => rfl)
        · rename_i kind seq _ _ hkf
          split
          · rename_i b hb0
            split
            · intro _
              exact .syncfut rf k h _ hb' hp U (flushDesc_refl _) (fun _ _ _ => rfl)
            · intro hst
              refine .syncfut rf k h _ hb' hp U (flushDesc_flushBatch _ _ _ hst) ?_
              intro hi f hkt
              refine (flushBatch_only _ kind seq b hb0).1 f ?_
              intro hmem
              have := hi b (List.mem_of_find?_eq_some hb0) f hmem
              have hkt' : (State.fut _ f).kind = .task := hkt
              rw [hkt'] at this
              cases this
          · intro _
            exact .syncfut rf k h _ hb' hp U (flushDesc_refl _) (fun _ _ _ => rfl)
        · rename_i o hkf
          intro _
          refine .syncfut rf k h _ hb' hp U (flushDesc_complete _ _ _ (by simpa using hcf)) ?_
          intro _ f hkt
          refine view_complete_ne _ _ _ _ ?_
          intro e
          have hkt' : (State.fut _ f).kind = .task := hkt
          rw [e, hkf] at hkt'
          cases hkt'
        · intro _
          exact .syncfut rf k h _ hb' hp U (flushDesc_refl _) (fun _ _ _ => rfl)
    · -- syncret
      rename_i f k h hb
      have hb' : (view s t).body = .syncret f k h := hb
      have e0 : EqvK s { s with raising := none } := ⟨rfl, fun _ => rfl, rfl, rfl, rfl, rfl, rfl, id⟩
      split
      · intro h; simp at h
      · rename_i v _
        intro _
        exact .loc _ (((Upd1.of_eqvK e0 t).updTask ht (fun ts => { ts with env := ts.env ++ [v], body := k })
          (bodyView k) (fun _ => rfl)).emit _) rfl rfl hp (Or.inr ⟨hp, rfl⟩)
          (.syncret f k h hb' (Or.inl rfl) rfl) rfl (Or.inr rfl)
      · rename_i e _
        intro _
        exact .loc _ (((Upd1.of_eqvK e0 t).updTask ht (fun ts => { ts with caught := some e, body := h })
          (bodyView h) (fun _ => rfl)).emit _) rfl rfl hp (Or.inr ⟨hp, rfl⟩)
          (.syncret f k h hb' (Or.inr rfl) rfl) rfl (Or.inr rfl)
    · -- withCtx
      rename_i c b k hb
      intro _
      have hb' : (view s t).body = .withCtx c b k := hb
      by_cases hcn : c = .nonasync
      · subst hcn
        have e4 : ∀ s' : State, Eqv s' (P3.wc4 s' s.ctxs.length) := by
          intro s'; unfold P3.wc4; split
          · exact eqv_updTask _ _ _ (fun _ => rfl)
          · exact Eqv.refl _
        have e := e4 (P3.wc3 (P3.wc1 s .nonasync) s.ctxs.length t .nonasync)
        have hv3 : ∀ f, view (P3.wc3 (P3.wc1 s .nonasync) s.ctxs.length t .nonasync) f = view s f := fun _ => rfl
        refine .locNA b k s.ctxs.length hb' hp ?_ ?_ ?_ ?_
        · show (State.updTask (P3.wc4 (P3.wc3 (P3.wc1 s .nonasync) s.ctxs.length t .nonasync) s.ctxs.length) t _).futs.length = _
          rw [length_updTask, e.len]; rfl
        · show (P3.wc4 (P3.wc3 (P3.wc1 s .nonasync) s.ctxs.length t .nonasync) s.ctxs.length).tops = _
          rw [e.tops]; rfl
        · show view (State.updTask (P3.wc4 (P3.wc3 (P3.wc1 s .nonasync) s.ctxs.length t .nonasync) s.ctxs.length) t _) t = _
          rw [view_updTask, if_pos ⟨rfl, by rw [e.len]; exact ht⟩]
          have := e.view t
          rw [hv3] at this
          unfold view at this
          unfold pushView view
          rw [← this]
          rfl
        · intro f hf
          show view (State.updTask (P3.wc4 (P3.wc3 (P3.wc1 s .nonasync) s.ctxs.length t .nonasync) s.ctxs.length) t _) f = _
          rw [view_updTask, if_neg (fun hh => hf hh.1), e.view, hv3]
      · have e := eqvK_withCtx s t c hcn
        exact .loc _ ((Upd1.of_eqvK e t).updTask ht _ (pushView (s.ctxs.length, k) b)
          (fun _ => rfl)) rfl rfl hp (Or.inr ⟨hp, rfl⟩)
          (.withCtx c b k s.ctxs.length hb' rfl rfl) rfl (Or.inr rfl)
    · -- endwith
      rename_i hbw
      have hbw' : (view s t).body = .endwith := hbw
      split
      · exact fin _
      · rename_i cid k rest hc
        intro _
        have hc' : (view s t).conts = (cid, k) :: rest := hc
        have e := eqv_ctxExit s cid
        exact .loc _ ((Upd1.of_eqv e t).updTask ht _ (contView rest k) (fun _ => rfl))
          rfl rfl hp (Or.inr ⟨hp, rfl⟩) (.endwith cid k rest hbw' hc' rfl rfl) rfl (Or.inr rfl)
    · -- read
      rename_i var k hb
      intro _
      have hb' : (view s t).body = .read var k := hb
      have e := (eqv_svTouch s var).trans (eqv_emit _ (.read t var (.a ((s.svTouch var).svGet var))))
      exact .loc _ ((Upd1.of_eqv e t).updTask ht _ (bodyView k) (fun _ => rfl))
        rfl rfl hp (Or.inr ⟨hp, rfl⟩)
        (.read var k hb' rfl rfl) rfl (Or.inr rfl)
    · -- active
      rename_i k hb
      intro _
      have hb' : (view s t).body = .active k := hb
      exact .loc _ ((U0.emit (.active t s.active)).updTask ht _ (bodyView k) (fun _ => rfl))
        rfl rfl hp (Or.inr ⟨hp, rfl⟩)
        (.active k hb' rfl rfl) rfl (Or.inr rfl)

end AsynqModel.Core.P25
