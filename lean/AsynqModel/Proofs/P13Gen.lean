import AsynqModel.Proofs.P13Flush
/-!
  P13, part 5: one instruction of a task body (`genStep`) as far as the observer of C05 is concerned: every
  instruction either stays in the generator, leaves it, makes a synchronous call (with or without a nested
  `wait_for`), or returns from one; the observer relation `LI` is preserved and the observer's stack of open
  synchronous calls changes accordingly.
-/
namespace AsynqModel.Core.P13
open AsynqModel.Core AsynqModel.Core.Spec AsynqModel.Core.P1

/-- the task is in the middle of a step, about to return from a synchronous call -/
def runningRet (ts : TaskSt) : Prop := ∃ f k h, ts.body = .syncret f k h ∧ ts.pending = false

namespace T
variable {c : Ctx} {x : Option Nat} {s y : State}

theorem emitSyncE (h : Q c x s y) (t f : Nat) : T c x (List.cons (t, f)) s (y.emit (.syncE t f)) s.ctl := by
  refine ⟨h.len, h.kind, h.body, h.ctl, h.top, ?_⟩
  intro hs
  obtain ⟨l, s1, t1⟩ := h.ob hs
  refine ⟨l.emit_sync _ trivial, ?_, t1⟩
  show (t, f) :: (W y).syncStack = _
  rw [s1]; rfl

theorem emitSyncX (h : Q c x s y) (t f : Nat) (o : Outcome) :
    T c x (fun l => l.erase (t, f)) s (y.emit (.syncX t f o)) s.ctl := by
  refine ⟨h.len, h.kind, h.body, h.ctl, h.top, ?_⟩
  intro hs
  obtain ⟨l, s1, t1⟩ := h.ob hs
  refine ⟨l.emit_sync _ trivial, ?_, t1⟩
  show (W y).syncStack.erase (t, f) = _
  rw [s1]; rfl

theorem leaveGen {g ctl'} (h : T c x g s y ctl') (t : Nat) (old : Option Nat) :
    T c x g s (y.leaveGen t old) y.ctl.tail := by
  unfold State.leaveGen
  refine T.mkCtl (ctl' := ctl') ?_ ..
  exact h.updTask _ _ (fun _ => rfl) (fun _ hp => hp)

theorem finishTask (h : Q c x s y) (t : Nat) (old : Option Nat) (o : Outcome) (hl : t < s.futs.length)
    (hk : (s.fut t).kind = .task) :
    Q c x s (y.finishTask t old o) ∨ T c x id s (y.finishTask t old o) s.ctl.tail := by
  unfold State.finishTask
  split
  · exact Or.inl (h.fail _)
  · next hc =>
    refine Or.inr ?_
    have h1 : Q c x s (((y.exitAll t).updTask t fun ts => { ts with pending := false }).complete t o) := by
      refine T.complete ?_ _ _ (by simpa using hc) hl (by rw [hk]; intro _ _ _ _ e; cases e)
      exact (h.exitAll t).updTask _ _ (fun _ => rfl) (fun _ _ => rfl)
    have := h1.leaveGen t old
    rw [h1.ctl] at this
    exact this

end T

/-- `qq` with allocation -/
macro "qa" : tactic => `(tactic| repeat' (first
  | assumption
  | exact T.refl _ _ _
  | refine T.emit ?_ _ (by rfl)
  | refine T.updTask ?_ _ _ (fun _ => rfl) (by first | exact fun _ h => h | exact fun _ _ => rfl)
  | refine T.updSelf ?_ _
  | refine T.fail ?_ _
  | refine T.svSet ?_ _ _
  | refine T.svTouch ?_ _
  | refine T.ctxSetResumed ?_ _ _
  | refine T.ctxResumeOne ?_ _
  | refine T.ctxExit ?_ _
  | refine T.popStack ?_
  | refine T.newTask ?_ _ _
  | refine T.alloc ?_ _ _ rfl (by intro _ _ _ _ _ e; first | (cases e; rfl) | cases e)
  | refine T.mk' ?_ ..))

inductive GenOut (c : Ctx) (s : State) (t : Nat) (r : State) : Prop
  | stay (hb : ¬ runningRet (s.task t)) (q : Q c (some t) s r)
  | leave (hb : ¬ runningRet (s.task t)) (q : T c (some t) id s r s.ctl.tail)
  | call (f : Nat) (k h : Body) (hb : ¬ runningRet (s.task t))
      (q : T c (some t) (List.cons (t, f)) s r (.waitEnter f :: s.ctl))
      (hbody : (r.task t).body = .syncret f k h) (hp : (r.task t).pending = false)
  | callNow (f : Nat) (k h : Body) (hb : ¬ runningRet (s.task t)) (q : T c (some t) (List.cons (t, f)) s r s.ctl)
      (hbody : (r.task t).body = .syncret f k h) (hp : (r.task t).pending = false)
  | ret (f : Nat) (k h : Body) (hbody : (s.task t).body = .syncret f k h) (hp : (s.task t).pending = false)
      (q : T c (some t) (fun l => l.erase (t, f)) s r s.ctl)
  | failed (m : String) (e : r = s.fail m)

theorem gen_finish {c : Ctx} {s : State} {t : Nat} (old : Option Nat) (o : Outcome) (hl : t < s.futs.length)
    (hk : (s.fut t).kind = .task) (hb : ¬ runningRet (s.task t)) : GenOut c s t (s.finishTask t old o) := by
  rcases T.finishTask (T.refl c (some t) s) t old o hl hk with h | h
  · exact .stay hb h
  · exact .leave hb h

theorem gen_yield {c : Ctx} {s : State} {t : Nat} (old : Option Nat) (e : Event) (he : plain e = true)
    (g : TaskSt → TaskSt) (deps : List Nat) (hb : ¬ runningRet (s.task t)) :
    GenOut c s t (if deps.isEmpty then (s.emit e).updTask t g else ((s.emit e).updTask t g).leaveGen t old) := by
  have q1 : Q c (some t) s ((s.emit e).updTask t g) := ((T.refl c (some t) s).emit e he).updSelf g
  split
  · exact .stay hb q1
  · have := q1.leaveGen t old
    rw [q1.ctl] at this
    exact .leave hb this

theorem lt_of_kind_ne {s : State} {f : Nat} (h : (s.fut f).kind ≠ .const) : f < s.futs.length := by
  apply Classical.byContradiction
  intro hn
  exact h (by rw [fut_default s f (by omega)])

theorem task_self_updTask (s : State) (t : Nat) (g : TaskSt → TaskSt) (hl : t < s.futs.length) :
    (s.updTask t g).task t = g (s.task t) := by
  rw [task_updTask]; simp [hl]

theorem task_emit (s : State) (e : Event) (t : Nat) : (s.emit e).task t = s.task t := rfl

/-- a synchronous call that enters a nested `wait_for` -/
theorem gen_call_aux (c : Ctx) (s : State) (t : Nat) (s1 : State) (f : Nat) (k h : Body)
    (q1 : Q c (some t) s s1) (hl1 : t < s1.futs.length) (hp : (s1.task t).pending = false)
    (hb : ¬ runningRet (s.task t)) :
    GenOut c s t { ((s1.updTask t fun ts => { ts with own := ts.own ++ [f], body := .syncret f k h }).emit
      (.syncE t f)) with ctl := .waitEnter f :: s.ctl } := by
  have q2 := T.emitSyncE (q1.updSelf fun ts => { ts with own := ts.own ++ [f], body := .syncret f k h }) t f
  have e : ∀ (z : State), z.futs = (s1.updTask t fun ts => { ts with own := ts.own ++ [f], body := .syncret f k h }).futs →
      (z.task t).body = .syncret f k h ∧ (z.task t).pending = false := by
    intro z hz
    rw [task_of_futs hz, task_self_updTask _ _ _ hl1]
    exact ⟨rfl, hp⟩
  exact .call f k h hb (q2.mkCtl ..) (e _ rfl).1 (e _ rfl).2

theorem gen_item (c : Ctx) (s : State) (t kind payload : Nat) (mode : ItemMode) (k : Body)
    (hb : ¬ runningRet (s.task t)) : GenOut c s t (
    let s := match s.curBatch? kind with
      | some _ => s
      | none => { s with batches := s.batches ++ [({ kind := kind, seq := 0 } : Batch)] }
    match s.curBatch? kind with
    | none => s.fail "no batch"
    | some b =>
      let (s, f) := s.alloc { kind := .item kind b.seq payload mode, den := itemOutcome s.cfg kind payload mode } (.item kind b.seq b.items.length payload mode)
      let s := s.updBatch kind b.seq fun b => { b with items := b.items ++ [f] }
      s.updTask t fun ts => { ts with own := ts.own ++ [f], body := k }) := by
  extract_lets s0
  have h0 : Q c (some t) s s0 := by
    simp only [s0]
    split
    · exact T.refl _ _ _
    · exact (T.refl c (some t) s).appendBatch _ rfl
  have hctl : s0.ctl = s.ctl := h0.ctl
  clear_value s0
  split
  · exact .stay hb (h0.fail _)
  · next b hcb =>
    refine .stay hb ?_
    show T c (some t) id s (State.updTask _ t _) s.ctl
    refine T.updSelf ?_ _
    refine T.addItem (p := payload) (m := mode) ?_ _ _ _ (by simp [State.emit]) ?_
    · qa
    · exact congrArg Fut.kind (fut_alloc_self s0 _ _)

theorem gen_syncfut (c : Ctx) (s : State) (t : Nat) (f : Nat) (k h : Body) (hl : t < s.futs.length)
    (hpend : (s.task t).pending = false) (hb : ¬ runningRet (s.task t)) : GenOut c s t (
    let s := (s.updTask t fun ts => { ts with body := .syncret f k h }).emit (.syncE t f)
    if s.computed f then s else
    match (s.fut f).kind with
    | .task => { s with ctl := .waitEnter f :: s.ctl }
    | .item kind seq _ _ =>
      match s.batch? kind seq with
      | some b => if b.flushed then s else s.flushBatch kind seq
      | none => s
    | .lazy o => s.complete f (lazyOutcome o)
    | _ => s) := by
  extract_lets s1
  have q1 : Q c (some t) s (s.updTask t fun ts => { ts with body := .syncret f k h }) := by qa
  have q2 : T c (some t) (List.cons (t, f)) s s1 s.ctl := T.emitSyncE q1 t f
  have hbody1 : (s1.task t).body = .syncret f k h := by
    simp only [s1]
    rw [task_emit, task_self_updTask _ _ _ hl]
  have hp1 : (s1.task t).pending = false := by
    simp only [s1]
    rw [task_emit, task_self_updTask _ _ _ hl]
    exact hpend
  have hctl1 : s1.ctl = s.ctl := rfl
  have hkind1 : ∀ g, (s1.fut g).kind = (s.fut g).kind := fun g => by
    simp only [s1]
    simp
  clear_value s1
  split
  · exact .callNow f k h hb q2 hbody1 hp1
  · next hcf =>
    split
    · have := q2.mkCtl s1.stack s1.sbatches s1.active (.waitEnter f :: s1.ctl) s1.ctxs s1.sv s1.tops s1.topIdx
        s1.raising s1.choices s1.stuck s1.guardFired
      rw [hctl1] at this ⊢
      exact .call f k h hb this hbody1 hp1
    · split
      · next b hbq =>
        split
        · exact .callNow f k h hb q2 hbody1 hp1
        · next hfl =>
          refine .callNow f k h hb (q2.flushBatch _ _ b hbq (by simpa using hfl)) ?_ ?_
          · rw [(BP.flushBatch s1 _ _ t).1]; exact hbody1
          · rw [(BP.flushBatch s1 _ _ t).2]; exact hp1
      · exact .callNow f k h hb q2 hbody1 hp1
    · next o hkf =>
      have hkf0 : (s.fut f).kind = .lazy o := by rw [← hkind1]; exact hkf
      have hlf : f < s.futs.length := lt_of_kind_ne (by rw [hkf0]; intro e; cases e)
      refine .callNow f k h hb (q2.complete f _ (by simpa using hcf) hlf (by rw [hkf0]; intro _ _ _ _ e; cases e)) ?_ ?_
      · rw [(task_complete s1 f _ t).1]; exact hbody1
      · rw [(task_complete s1 f _ t).2]; exact hp1
    · exact .callNow f k h hb q2 hbody1 hp1

theorem gen_out (c : Ctx) (s : State) (t : Nat) (old : Option Nat) (hl : t < s.futs.length)
    (hk : (s.fut t).kind = .task) : GenOut c s t (s.genStep t old) := by
  unfold State.genStep
  simp only []
  split
  · next hpend =>
    have hb : ¬ runningRet (s.task t) := fun ⟨_, _, _, _, hp⟩ => by rw [hpend] at hp; cases hp
    split
    · exact .stay hb (by qa)
    · split <;> exact .stay hb (by qa)
  · next hpend =>
    have hpend : (s.task t).pending = false := by simpa using hpend
    have nb : ∀ {b : Body}, (s.task t).body = b → (∀ f k h, b ≠ .syncret f k h) → ¬ runningRet (s.task t) :=
      fun hb hne ⟨f, k, h, e, _⟩ => hne f k h (hb.symm.trans e)
    split
    · next heq => exact gen_finish old _ hl hk (nb heq (by intro _ _ _ e; cases e))
    · next heq => exact gen_finish old _ hl hk (nb heq (by intro _ _ _ e; cases e))
    · next heq => exact gen_finish old _ hl hk (nb heq (by intro _ _ _ e; cases e))
    · next heq => exact gen_finish old _ hl hk (nb heq (by intro _ _ _ e; cases e))
    · next heq => exact .stay (nb heq (by intro _ _ _ e; cases e)) (by qa)
    · next kind payload mode k heq => exact gen_item c s t kind payload mode k (nb heq (by intro _ _ _ e; cases e))
    · next heq => exact .stay (nb heq (by intro _ _ _ e; cases e)) (by qa)
    · next heq => exact .stay (nb heq (by intro _ _ _ e; cases e)) (by qa)
    · next heq => exact .stay (nb heq (by intro _ _ _ e; cases e)) (by qa)
    · next heq => exact gen_yield old _ (by rfl) _ _ (nb heq (by intro _ _ _ e; cases e))
    · next heq => exact gen_yield old _ (by rfl) _ _ (nb heq (by intro _ _ _ e; cases e))
    · -- sync
      next child pass k h heq =>
      have hb := nb heq (by intro _ _ _ e; cases e)
      have hl1 : t < (s.newTask child (pass.map (s.task t).resolve)).1.futs.length := by
        simp [State.newTask]; omega
      exact gen_call_aux c s t (s.newTask child (pass.map (s.task t).resolve)).1 _ k h (by qa) hl1
        (by rw [show (s.newTask child (pass.map (s.task t).resolve)).1.task t = s.task t from
              task_alloc_lt s _ _ t hl]; exact hpend) hb
    · next rf k h heq => exact gen_syncfut c s t _ k h hl hpend (nb heq (by intro _ _ _ e; cases e))
    · -- syncret
      next f k h heq =>
      split
      · exact .failed _ rfl
      · refine .ret f k h heq hpend ?_
        refine T.emitSyncX ?_ t f _
        refine T.updSelf ?_ _
        exact (T.refl c (some t) s).mk' ..
      · refine .ret f k h heq hpend ?_
        refine T.emitSyncX ?_ t f _
        refine T.updSelf ?_ _
        exact (T.refl c (some t) s).mk' ..
    · -- withCtx
      next cx b k heq =>
      refine .stay (nb heq (by intro _ _ _ e; cases e)) ?_
      refine T.updSelf ?_ _
      split
      · split <;> split <;> qa
      · refine T.ctxResumeOne ?_ _
        split <;> split <;> qa
    · -- endwith
      next heq =>
      have hb := nb heq (by intro _ _ _ e; cases e)
      split
      · exact gen_finish old _ hl hk hb
      · refine .stay hb ?_
        refine T.updSelf ?_ _
        exact (T.refl c (some t) s).ctxExit _
    · next heq => exact .stay (nb heq (by intro _ _ _ e; cases e)) (by qa)
    · next heq => exact .stay (nb heq (by intro _ _ _ e; cases e)) (by qa)

end AsynqModel.Core.P13
