import AsynqModel.Proofs.P3Inv
/-
  P3 (property C08), part 6: from one step to all reachable states.
-/
namespace AsynqModel.Core.P3
open AsynqModel.Core

/-- what C08 says about a single event of the trace -/
def GoodEv : Event → Prop
  | .active t seen => seen = some t
  | .sched same n _ _ a => same = true ∧ n = 0 ∧ a = none
  | _ => True

theorem StepEv.good {s : State} {e : Event} (h : StepEv s e) : GoodEv e := by
  cases e <;> first | exact h | trivial

theorem guardReset_guardFired (s : State) : (guardReset s).guardFired = true := rfl

/-- `guardFired` is never reset -/
theorem guard_mono (s : State) (h : (step s).guardFired = false) : s.guardFired = false := by
  rcases step_core s with ⟨_, _, e⟩ | ⟨e, _⟩
  · rw [e, guardReset_guardFired] at h; cases h
  · rw [← e]; exact h

/-- `stuck` is sticky -/
theorem step_of_stuck (s : State) (h : s.stuck ≠ none) : step s = s := by
  unfold step
  rw [if_pos]
  cases hs : s.stuck
  · exact absurd hs h
  · rfl

theorem core_init (cfg tops choices) : Core (initState cfg tops choices) :=
  ⟨rfl, rfl, rfl⟩

/-- the invariant holds in every reachable state in which the guard has never fired -/
theorem reach_core (s : State) (h : Reach s) (hg : s.guardFired = false) :
    Core s ∧ ∀ e ∈ s.trace, GoodEv e := by
  induction h with
  | init cfg tops choices => exact ⟨core_init _ _ _, by simp [initState]⟩
  | @step s _ ih =>
    have hg0 := guard_mono s hg
    obtain ⟨hc, ht⟩ := ih hg0
    rcases step_core s with ⟨_, _, e⟩ | ⟨_, h2⟩
    · rw [e, guardReset_guardFired] at hg; cases hg
    · obtain ⟨hc', hx⟩ := h2 hc
      exact ⟨hc', hx.forall (fun _ => StepEv.good) ht⟩

/-- `step` only prepends events, and (guard never fired before) they all are `StepEv` events -/
theorem step_ext (s : State) (h : Reach s) (hg : s.guardFired = false) : Ext (StepEv s) s (step s) := by
  rcases step_core s with ⟨_, _, e⟩ | ⟨_, h2⟩
  · rw [e]; exact Ext.of_trace_eq rfl
  · exact (h2 (reach_core s h hg).1).2

/-- the executable invariant `Inv.frames` follows from `chain` -/
theorem frames_of_core {s : State} (hc : Core s) : Inv.frames s = true := by
  have hf := hc.frames
  unfold Inv.frames
  simp only [Bool.and_eq_true, Bool.or_eq_true]
  refine ⟨⟨chain_sorted _ _ hf, ?_⟩, ?_⟩
  · cases hb : Inv.waitBases s.ctl with
    | nil => rfl
    | cons b bs => rw [hb] at hf; simpa using (chain_cons.1 hf).1
  · cases hctl : s.ctl with
    | nil =>
      right
      rw [hctl] at hf
      have := chain_nil.1 hf
      simpa [List.isEmpty_iff] using List.eq_nil_of_length_eq_zero this
    | cons c rest => left; simp

end AsynqModel.Core.P3
