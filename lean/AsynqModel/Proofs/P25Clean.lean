import AsynqModel.Proofs.P25Phi
import AsynqModel.Proofs.P20Clean
/-
  P25 (termination without the NonAsync / guard hypotheses), part 5: the two components of the measure that bound the
  number of scheduler passes that end with NOTHING to flush.

  After a MAX_TASK_STACK_SIZE reset (and inside nested `wait_for`s) tasks may carry a STALE `_dependencies_scheduled`
  flag: the next pass that meets such a task treats its first visit as the second one (pops it without pushing its
  dependencies), so the pass may end with the root uncomputed and no batch scheduled; `wait_for` then loops.  Each
  such visit clears a stale flag.
  * `SF s`: the number of flagged uncomputed tasks that do not occur on the scheduler stack above the base of the
    innermost `_execute` (`region s`).  No step of a pass increases it; pushing a stale-flagged task decreases it.
  * `Clean' R s`: `P20.CleanL` (every uncomputed dependency of a flagged entry above the base is above that entry or
    settled-and-scheduled; the root is at the base or settled-and-scheduled) plus `PosL`: above the topmost occurrence
    of a flagged entry all entries have a rank `≤` its rank.  A step of a pass preserves it unless `SF` decreases;
    when a clean pass is back at its base with the root uncomputed, a flushable batch exists.
-/
namespace AsynqModel.Core.P25
open AsynqModel.Core AsynqModel.Core.P6 AsynqModel.Core.P6T AsynqModel.Core.P20

/-- the part of the scheduler stack above the base of the innermost `_execute` -/
def region (s : State) : List Nat :=
  match s.ctl with
  | .waitLoop _ base :: _ => s.stack.take (s.stack.length - base)
  | _ => []

theorem mem_take_iff (l : List Nat) (base x : Nat) :
    x ∈ l.take (l.length - base) ↔ ∃ above below, l = above ++ x :: below ∧ base ≤ below.length := by
  constructor
  · intro h
    obtain ⟨a, b, hab⟩ := List.append_of_mem h
    refine ⟨a, b ++ l.drop (l.length - base), ?_, ?_⟩
    · have := List.take_append_drop (l.length - base) l
      rw [hab] at this
      exact this.symm.trans (by simp)
    · have h1 : (l.drop (l.length - base)).length = l.length - (l.length - base) := List.length_drop
      have h2 : (l.take (l.length - base)).length = min (l.length - base) l.length := List.length_take
      rw [hab] at h2
      simp at h2
      simp only [List.length_append]
      omega
  · rintro ⟨above, below, rfl, hb⟩
    rw [List.take_append]
    apply List.mem_append_right
    have : (above ++ x :: below).length - base - above.length = (below.length - base) + 1 := by
      simp only [List.length_append, List.length_cons]; omega
    rw [this]
    simp

/-- ... and the decomposition can be taken at the topmost occurrence -/
theorem mem_take_first (l : List Nat) (base x : Nat) (h : x ∈ l.take (l.length - base)) :
    ∃ above below, l = above ++ x :: below ∧ base ≤ below.length ∧ x ∉ above := by
  obtain ⟨a, b, hab, hna⟩ := List.eq_append_cons_of_mem h
  refine ⟨a, b ++ l.drop (l.length - base), ?_, ?_, hna⟩
  · have := List.take_append_drop (l.length - base) l
    rw [hab] at this
    exact this.symm.trans (by simp)
  · have h1 : (l.drop (l.length - base)).length = l.length - (l.length - base) := List.length_drop
    have h2 : (l.take (l.length - base)).length = min (l.length - base) l.length := List.length_take
    rw [hab] at h2
    simp at h2
    simp only [List.length_append]
    omega

theorem mem_region_first {s : State} {root base : Nat} {rest : List Ctl} (hctl : s.ctl = .waitLoop root base :: rest)
    {x : Nat} (h : x ∈ region s) : ∃ above below, s.stack = above ++ x :: below ∧ base ≤ below.length ∧ x ∉ above := by
  unfold region at h
  rw [hctl] at h
  exact mem_take_first s.stack base x h

theorem mem_region_loop {s : State} {root base : Nat} {rest : List Ctl} (hctl : s.ctl = .waitLoop root base :: rest)
    (x : Nat) : x ∈ region s ↔ ∃ above below, s.stack = above ++ x :: below ∧ base ≤ below.length := by
  unfold region
  rw [hctl]
  exact mem_take_iff s.stack base x

theorem region_not_loop {s : State} (h : ∀ root base rest, s.ctl ≠ .waitLoop root base :: rest) : region s = [] := by
  unfold region
  split
  · rename_i root base rest hc; exact absurd hc (h root base rest)
  · rfl

open Classical in
/-- stale-flag indicator -/
noncomputable def sfv (s : State) (x : Nat) : Nat := if Flagged s x ∧ x ∉ region s then 1 else 0

/-- the number of flagged uncomputed tasks outside the current pass -/
noncomputable def SF (s : State) : Nat := rsum (sfv s) s.futs.length

theorem sfv_le_one (s : State) (x : Nat) : sfv s x ≤ 1 := by unfold sfv; split <;> omega

theorem sfv_le {s r : State} {x : Nat} (h : Flagged r x → x ∉ region r → Flagged s x ∧ x ∉ region s) :
    sfv r x ≤ sfv s x := by
  unfold sfv
  by_cases hr : Flagged r x ∧ x ∉ region r
  · rw [if_pos hr, if_pos (h hr.1 hr.2)]; exact Nat.le_refl _
  · rw [if_neg hr]; exact Nat.zero_le _

theorem SF_le {s r : State} (hl : r.futs.length = s.futs.length)
    (h : ∀ x, Flagged r x → x ∉ region r → Flagged s x ∧ x ∉ region s) : SF r ≤ SF s := by
  unfold SF
  rw [hl]
  exact rsum_le _ (fun x _ => sfv_le (h x))

theorem SF_lt {s r : State} (hl : r.futs.length = s.futs.length)
    (h : ∀ x, Flagged r x → x ∉ region r → Flagged s x ∧ x ∉ region s)
    {d : Nat} (hd : Flagged s d) (hds : d ∉ region s) (hdr : d ∈ region r) : SF r < SF s := by
  unfold SF
  rw [hl]
  apply P20.rsum_lt_of_le
  · exact fun x _ => sfv_le (h x)
  · refine ⟨d, lt_of_view_task s d hd.1, ?_⟩
    have h1 : sfv s d = 1 := by unfold sfv; rw [if_pos ⟨hd, hds⟩]
    have h2 : sfv r d = 0 := by unfold sfv; rw [if_neg (fun hh => hh.2 hdr)]
    rw [h1, h2]
    exact Nat.zero_lt_one

/-! ### `Clean'` -/

/-- above the topmost occurrence of a flagged entry (above the base) every entry has a rank `≤` its rank -/
def PosL (R : Nat → Nat) (s : State) (base : Nat) : Prop :=
  ∀ above x below, s.stack = above ++ x :: below → base ≤ below.length → Flagged s x → x ∉ above →
    ∀ y ∈ above, R y ≤ R x

/-- the current pass of the innermost `_execute` is a faithful depth-first traversal so far -/
def Clean' (R : Nat → Nat) (s : State) : Prop :=
  ∀ root base rest, s.ctl = .waitLoop root base :: rest → CleanL s root base ∧ PosL R s base

theorem clean'_of_noLoop {R : Nat → Nat} {r : State} (h : ∀ root base rest, r.ctl ≠ .waitLoop root base :: rest) :
    Clean' R r :=
  fun root base rest hc => absurd hc (h root base rest)

/-- when a clean pass is back at its base with the root uncomputed, a flushable batch exists -/
theorem flushable_ne_nil' {R : Nat → Nat} {s : State} (hc : Clean' R s) {root base : Nat} {rest : List Ctl}
    (hctl : s.ctl = .waitLoop root base :: rest) (hlen : s.stack.length ≤ base) (hroot : s.computed root = false) :
    s.flushable ≠ [] := by
  rcases (hc root base rest hctl).1.root with ⟨pre, post, h1, h2⟩ | h1
  · have := congrArg List.length h1
    simp at this
    omega
  · exact h1.witness hroot

/-- a flagged entry is popped or loses nothing: `PosL` after a pop -/
theorem posL_pop {R : Nat → Nat} {s r : State} {base top : Nat} {st : List Nat} (h : PosL R s base)
    (hstk : s.stack = top :: st) (hst : r.stack = st)
    (hfl : ∀ x, Flagged r x → Flagged s x ∧ x ≠ top) : PosL R r base := by
  intro above x below hs hb hx hna y hy
  rw [hst] at hs
  obtain ⟨hxs, hne⟩ := hfl x hx
  have hs' : s.stack = (top :: above) ++ x :: below := by rw [hstk, hs]; rfl
  refine h (top :: above) x below hs' hb hxs ?_ y (List.mem_cons_of_mem _ hy)
  intro hm
  rcases List.mem_cons.1 hm with e | e
  · exact hne e
  · exact hna e

/-- first visit of the blocked unflagged task on top of the stack, when no pushed dependency is flagged -/
theorem posL_first {R : Nat → Nat} {s r : State} {base top : Nat} {st : List Nat} (h : PosL R s base)
    (hstk : s.stack = top :: st)
    (hst : r.stack = ((view s top).deps.filter fun d => !s.computed d).reverse ++ s.stack)
    (hvo : ∀ x, x ≠ top → view r x = view s x)
    (hrk : ∀ d ∈ (view s top).deps, R d < R top)
    (hnf : ∀ d ∈ (view s top).deps, ¬ Flagged s d) : PosL R r base := by
  intro above x below hs hb hx hna y hy
  rw [hst, hstk] at hs
  have hdsmem : ∀ d, d ∈ ((view s top).deps.filter fun d => !s.computed d).reverse → d ∈ (view s top).deps :=
    fun d hd => (List.mem_filter.1 (List.mem_reverse.1 hd)).1
  rcases split_first hs with ⟨l, h1, h2⟩ | ⟨h1, h2, h3⟩ | ⟨a', h1, h2⟩
  · -- a pushed dependency is not flagged
    exfalso
    have hxm : x ∈ ((view s top).deps.filter fun d => !s.computed d).reverse := by rw [h1]; simp
    have hxd := hdsmem x hxm
    have hne : x ≠ top := fun e => by
      have := hrk x hxd
      rw [e] at this
      exact Nat.lt_irrefl _ this
    exact hnf x hxd (flagged_of_view (hvo x hne) hx)
  · subst h2
    rw [h1] at hy
    exact Nat.le_of_lt (hrk y (hdsmem y hy))
  · have hne : x ≠ top := fun e => hna (by rw [h1, e]; simp)
    have hxs : Flagged s x := flagged_of_view (hvo x hne) hx
    have hs' : s.stack = (top :: a') ++ x :: below := by rw [hstk, h2]; rfl
    have hna' : x ∉ top :: a' := by
      intro hm
      rcases List.mem_cons.1 hm with e | e
      · exact hne e
      · exact hna (by rw [h1]; simp [e])
    have hpos := h (top :: a') x below hs' hb hxs hna'
    rw [h1] at hy
    rcases List.mem_append.1 hy with hy | hy
    · exact Nat.le_of_lt (Nat.lt_of_lt_of_le (hrk y (hdsmem y hy)) (hpos top List.mem_cons_self))
    · exact hpos y hy

/-- `P20.cleanL_first` with "no pushed dependency is flagged" as a hypothesis -/
theorem cleanL_first' {R : Nat → Nat} {s r : State} {root base : Nat} (h : CleanL s root base)
    {top : Nat} {st : List Nat} (hstk : s.stack = top :: st)
    (hst : r.stack = ((view s top).deps.filter fun d => !s.computed d).reverse ++ s.stack)
    (hvt : view r top = flagView true (view s top)) (hvo : ∀ x, x ≠ top → view r x = view s x)
    (hset : ∀ f, SS s f → SS r f)
    (hrk : ∀ d ∈ (view s top).deps, R d < R top)
    (hnf : ∀ d ∈ (view s top).deps, ¬ Flagged s d) : CleanL r root base := by
  have hcomp : ∀ f, r.computed f = s.computed f := by
    intro f
    by_cases e : f = top
    · subst e; rw [computed_eq_view, computed_eq_view, hvt]; rfl
    · exact computed_of_view (hvo f e)
  have hdeps : ∀ x, (view r x).deps = (view s x).deps := by
    intro x
    by_cases e : x = top
    · subst e; rw [hvt]; rfl
    · rw [hvo x e]
  have hmemds : ∀ d, d ∈ (view s top).deps → s.computed d = false →
      d ∈ ((view s top).deps.filter fun d => !s.computed d).reverse := by
    intro d hd hcd
    exact List.mem_reverse.2 (List.mem_filter.2 ⟨hd, by simp [hcd]⟩)
  refine ⟨?_, ?_⟩
  · intro above x below hs hb hx d hd hcd
    rw [hst, hstk] at hs
    rw [hdeps] at hd
    rw [hcomp] at hcd
    rcases split_first hs with ⟨l, h1, h2⟩ | ⟨h1, h2, h3⟩ | ⟨a', h1, h2⟩
    · exfalso
      have hxm : x ∈ ((view s top).deps.filter fun d => !s.computed d).reverse := by rw [h1]; simp
      have hxd : x ∈ (view s top).deps := (List.mem_filter.1 (List.mem_reverse.1 hxm)).1
      have hne : x ≠ top := fun e => by
        have := hrk x hxd
        rw [e] at this
        exact Nat.lt_irrefl _ this
      exact hnf x hxd (flagged_of_view (hvo x hne) hx)
    · subst h2
      exact Or.inr (h1 ▸ hmemds d hd hcd)
    · by_cases e : x = top
      · subst e
        refine Or.inr ?_
        rw [h1]
        exact List.mem_append_left _ (hmemds d hd hcd)
      · have hxs : Flagged s x := flagged_of_view (hvo x e) hx
        have hs' : s.stack = (top :: a') ++ x :: below := by rw [hstk, h2]; rfl
        rcases h.dfs (top :: a') x below hs' hb hxs d hd hcd with h3 | h3
        · exact Or.inl (hset d h3)
        · refine Or.inr ?_
          rw [h1]
          exact List.mem_append_right _ h3
  · rcases h.root with ⟨pre, post, h1, h2⟩ | h1
    · exact Or.inl ⟨_ ++ pre, post, by rw [hst, h1, List.append_assoc], h2⟩
    · exact Or.inr (hset root h1)

/-- `_execute(root)` starts with a root that carries no (stale) flag: the pass is clean -/
theorem clean'_enter {R : Nat → Nat} {s r : State} {root : Nat} {rest : List Ctl}
    (hctl : r.ctl = .waitLoop root s.stack.length :: rest) (hst : r.stack = root :: s.stack)
    (hv : ∀ f, view r f = view s f) (hnf : ¬ Flagged s root) : Clean' R r := by
  intro root' base' rest' hc'
  rw [hctl] at hc'
  injection hc' with h1 _
  injection h1 with h1 h2
  subst h1; subst h2
  have key : ∀ above x below, r.stack = above ++ x :: below → s.stack.length ≤ below.length → above = [] ∧ x = root := by
    intro above x below hs hb
    rw [hst] at hs
    have hl := congrArg List.length hs
    simp at hl
    have ha : above = [] := by
      cases above with
      | nil => rfl
      | cons a as => simp at hl; omega
    subst ha
    simp at hs
    exact ⟨rfl, hs.1.symm⟩
  refine ⟨⟨?_, Or.inl ⟨[], s.stack, hst, rfl⟩⟩, ?_⟩
  · intro above x below hs hb hx
    obtain ⟨_, rfl⟩ := key above x below hs hb
    exact absurd (flagged_of_view (hv x) hx) hnf
  · intro above x below hs hb hx _ y hy
    obtain ⟨rfl, _⟩ := key above x below hs hb
    cases hy

end AsynqModel.Core.P25
