import AsynqModel.Proofs.P10Trans
import AsynqModel.Proofs.P3Gen
/-
  P10, part 6: one instruction of a task body (`genStep`).  `genStep_out`: the step stays in the generator frame,
  leaves it, or pushes a nested `wait_for(f)` with `f` a future the task can name; in every case the heap-side
  description `HP` holds.  The proof follows P3Gen.lean (`genStep_trans`) case by case; the new content is that
  every instruction keeps the task state well-scoped and only ever stores named futures in `deps`/`lastY`/`prevY`.
-/
namespace AsynqModel.Core.P10
open AsynqModel.Core

inductive GOut (s : State) (t : Nat) (r : State) : Prop
  | stay (h : HP s r) (c : r.ctl = s.ctl)
  | leave (h : HP s r) (c : r.ctl = s.ctl.tail)
  | call (f : Nat) (h : HP s r) (c : r.ctl = .waitEnter f :: s.ctl) (n : HInv s → Named r t f)

theorem ws_to (ts ts' : TaskSt) (hinh : ts'.inh = ts.inh) (hconts : ts'.conts = ts.conts)
    (hw : wsB ts'.body ts'.own.length ts.inh.length (contQ ts.inh.length ts.conts) = true) : wsTS ts' = true := by
  apply wsTS_of_wsB
  rw [hinh, hconts]; exact hw

theorem ws_body (ts : TaskSt) (h : wsTS ts = true) {b : Body} (hb : ts.body = b)
    (hns : ∀ f k h, b ≠ .syncret f k h) :
    wsB b ts.own.length ts.inh.length (contQ ts.inh.length ts.conts) = true := by
  have := wsB_of_wsTS ts h (by rw [hb]; exact hns)
  rw [hb] at this; exact this

/-- wrapper (so that the generic closers `rfl` / `exact id` never touch this goal) -/
structure SuspStep (a b : TaskSt) : Prop where
  imp : SuspOK a → SuspOK b

section
variable (s : State) (t : Nat) (g : TaskSt → TaskSt)
  (hsusp : SuspStep (s.task t) (g (s.task t)))
  (hown : (g (s.task t)).own = (s.task t).own) (hinh : (g (s.task t)).inh = (s.task t).inh)
  (hws : HInv s → wsTS (g (s.task t)) = true)
  (hdeps : HInv s → ∀ d, d ∈ (g (s.task t)).deps → Named s t d)
  (hlast : HInv s → ∀ d, d ∈ (g (s.task t)).lastY.leaves → Named s t d)
  (hprev : HInv s → ∀ d, d ∈ (g (s.task t)).prevY.leaves → Named s t d)
  (hsched : (g (s.task t)).depsSched = true → (s.task t).depsSched = true)
include hsusp hown hinh hws hdeps hlast hprev hsched

theorem hp_upd0 : HP s (s.updTask t g) := hp_upd t g rfl rfl rfl rfl rfl hown hinh hws hdeps hlast hprev hsched hsusp.imp

theorem hp_updE (e : Event) : HP s ((s.updTask t g).emit e) :=
  hp_upd t g rfl rfl rfl rfl rfl hown hinh hws hdeps hlast hprev hsched hsusp.imp

theorem hp_updP (e : Event) : HP s ((s.emit e).updTask t g) :=
  hp_upd t g rfl rfl rfl rfl rfl hown hinh hws hdeps hlast hprev hsched hsusp.imp

theorem hp_updR (e : Event) : HP s (({ s with raising := none }.updTask t g).emit e) :=
  hp_upd t g rfl rfl rfl rfl rfl hown hinh hws hdeps hlast hprev hsched hsusp.imp
end

/-- `hp_upd0` / `hp_updE` with the goals that are closed by `rfl` / `id` removed:
    what remains is `ws`, `deps`, `lastY`, `prevY` -/
macro "hp_upd_tac" : tactic =>
  `(tactic| (first
      | refine hp_updE _ _ _ ?_ ?_ ?_ ?_ ?_ ?_ ?_ ?_ _
      | refine hp_updP _ _ _ ?_ ?_ ?_ ?_ ?_ ?_ ?_ ?_ _
      | refine hp_updR _ _ _ ?_ ?_ ?_ ?_ ?_ ?_ ?_ ?_ _
      | refine hp_upd0 _ _ _ ?_ ?_ ?_ ?_ ?_ ?_ ?_ ?_) <;> first | rfl | exact id | skip)

/-- the update resets `pending`, or leaves it alone while it is known to be false -/
macro "susp_tac" : tactic =>
  `(tactic| (refine ⟨fun _ hp _ => ?_⟩; first | cases hp | exact absurd hp (by assumption)))


/-- noise, then the running task moves on to its next instruction (nothing is created, `deps`/`lastY`/`prevY` and
    the scheduled flag are not touched) -/
theorem hp_next {s s1 : State} (nz : NZ s s1) (t : Nat) (g : TaskSt → TaskSt)
    (hown : (g (s1.task t)).own = (s1.task t).own) (hinh : (g (s1.task t)).inh = (s1.task t).inh)
    (hdeps : (g (s1.task t)).deps = (s1.task t).deps) (hlast : (g (s1.task t)).lastY = (s1.task t).lastY)
    (hprev : (g (s1.task t)).prevY = (s1.task t).prevY)
    (hsched : (g (s1.task t)).depsSched = (s1.task t).depsSched)
    (hpend : (g (s1.task t)).pending = (s1.task t).pending) (hnp : ¬ (s.task t).pending = true)
    (hws : wsTS (s1.task t) = true → wsTS (g (s1.task t)) = true) : HP s (s1.updTask t g) := by
  refine nz.hp.trans (hp_upd0 s1 t g ⟨fun _ hp _ => absurd ((nz.ts t).pending (hpend ▸ hp)) hnp⟩ hown hinh
    (fun hi => hws (hi.ws t)) ?_ ?_ ?_ ?_)
  · intro hi d hd; rw [hdeps] at hd; exact hi.deps t d hd
  · intro hi d hd; rw [hlast] at hd; exact hi.lastY t d hd
  · intro hi d hd; rw [hprev] at hd; exact hi.prevY t d hd
  · intro h; rw [hsched] at h; exact h

theorem gout_leave {s s1 : State} (h : HP s s1) (hc : s1.ctl = s.ctl) (t : Nat) (old : Option Nat) :
    GOut s t (s1.leaveGen t old) :=
  .leave (h.trans ((nz_updTask s1 t _ keep_sched_false).hp.congr rfl rfl rfl rfl rfl))
    (by simp [State.leaveGen, hc])

theorem gout_ite_leave {s s1 : State} {t : Nat} {old : Option Nat} (c : Prop) [Decidable c] (key : HP s s1)
    (hc : s1.ctl = s.ctl) : GOut s t (if c then s1 else s1.leaveGen t old) := by
  split
  · exact .stay key hc
  · exact gout_leave key hc t old

theorem gout_call {s s1 : State} {t : Nat} (h : HP s s1) (hc : s1.ctl = s.ctl) (f : Nat)
    (hn : HInv s → Named s1 t f) : GOut s t { s1 with ctl := .waitEnter f :: s1.ctl } :=
  .call f (h.congr rfl rfl rfl rfl rfl) (by simp [hc]) hn

theorem gout_finish (s : State) (t : Nat) (old : Option Nat) (o : Outcome) (hl : s.computed t = false) :
    GOut s t (s.finishTask t old o) := by
  unfold State.finishTask
  split
  · rename_i hc; rw [hl] at hc; cases hc
  · have h : NZ s (((s.exitAll t).updTask t fun ts => { ts with pending := false }).complete t o) :=
      ((nz_exitAll s t).trans (nz_updTask _ _ _ keep_pending_false)).trans (nz_complete _ _ _)
    exact gout_leave h.hp h.ctl t old

/-- the fields of a freshly created task -/
theorem hp_spawn (s : State) (t : Nat) (child : Body) (inh : List Nat) (g : TaskSt → TaskSt) (ht : t < s.futs.length)
    (xinh : HInv s → ∀ y, y ∈ inh → Named s t y)
    (xws : HInv s → wsB child 0 inh.length (fun _ => true) = true)
    (hown : (g (s.task t)).own = (s.task t).own ++ [s.futs.length]) (hinh : (g (s.task t)).inh = (s.task t).inh)
    (hws : HInv s → wsTS (g (s.task t)) = true)
    (hdeps : (g (s.task t)).deps = (s.task t).deps)
    (hlast : (g (s.task t)).lastY = (s.task t).lastY)
    (hprev : (g (s.task t)).prevY = (s.task t).prevY)
    (hsched : (g (s.task t)).depsSched = true → (s.task t).depsSched = true)
    (hpend : (g (s.task t)).pending = (s.task t).pending) (hnp : ¬ (s.task t).pending = true) :
    HP s ((s.newTask child inh).1.updTask t g) := by
  unfold State.newTask
  refine hp_alloc t _ _ g ht rfl rfl rfl rfl rfl rfl xinh ?_ rfl rfl rfl rfl hown hinh hws hdeps hlast hprev hsched rfl
    (fun _ hp _ => absurd (hpend ▸ hp) hnp) (fun h => by rcases h with h | h <;> cases h)
  intro hi
  exact wsTS_of_wsB _ (wsB_mono _ _ _ _ _ (fun _ _ => rfl) (xws hi))

/-- a leaf future (constant, error, lazy) -/
theorem hp_leaf (s : State) (t : Nat) (x : Fut) (nk : NewKind) (g : TaskSt → TaskSt) (ht : t < s.futs.length)
    (hx : x.ts = {})
    (hown : (g (s.task t)).own = (s.task t).own ++ [s.futs.length]) (hinh : (g (s.task t)).inh = (s.task t).inh)
    (hws : HInv s → wsTS (g (s.task t)) = true)
    (hdeps : (g (s.task t)).deps = (s.task t).deps)
    (hlast : (g (s.task t)).lastY = (s.task t).lastY)
    (hprev : (g (s.task t)).prevY = (s.task t).prevY)
    (hsched : (g (s.task t)).depsSched = true → (s.task t).depsSched = true)
    (hpend : (g (s.task t)).pending = (s.task t).pending) (hnp : ¬ (s.task t).pending = true)
    (xc : (x.kind = .const ∨ x.kind = .errfut) → x.out.isSome = true) :
    HP s ((s.alloc x nk).1.updTask t g) := by
  refine hp_alloc t x nk g ht rfl rfl rfl rfl rfl ?_ ?_ ?_ ?_ ?_ ?_ ?_ hown hinh hws hdeps hlast hprev hsched ?_
    (fun _ hp _ => absurd (hpend ▸ hp) hnp) xc
  all_goals rw [hx]
  all_goals first | rfl | skip
  · intro _ y hy; cases hy
  · intro _; rfl

/-- a batch item -/
theorem hp_item (s : State) (t : Nat) (x : Fut) (nk : NewKind) (g : TaskSt → TaskSt) (k q : Nat) (gb : Batch → Batch)
    (ht : t < s.futs.length) (hx : x.ts = {})
    (hown : (g (s.task t)).own = (s.task t).own ++ [s.futs.length]) (hinh : (g (s.task t)).inh = (s.task t).inh)
    (hws : HInv s → wsTS (g (s.task t)) = true)
    (hdeps : (g (s.task t)).deps = (s.task t).deps)
    (hlast : (g (s.task t)).lastY = (s.task t).lastY)
    (hprev : (g (s.task t)).prevY = (s.task t).prevY)
    (hsched : (g (s.task t)).depsSched = true → (s.task t).depsSched = true)
    (hpend : (g (s.task t)).pending = (s.task t).pending) (hnp : ¬ (s.task t).pending = true)
    (xc : (x.kind = .const ∨ x.kind = .errfut) → x.out.isSome = true) :
    HP s (((s.alloc x nk).1.updBatch k q gb).updTask t g) := by
  refine hp_alloc t x nk g ht rfl rfl rfl rfl rfl ?_ ?_ ?_ ?_ ?_ ?_ ?_ hown hinh hws hdeps hlast hprev hsched ?_
    (fun _ hp _ => absurd (hpend ▸ hp) hnp) xc
  all_goals rw [hx]
  all_goals first | rfl | skip
  · intro _ y hy; cases hy
  · intro _; rfl

theorem task_spawn_self (s : State) (t : Nat) (x : Fut) (nk : NewKind) (g : TaskSt → TaskSt) (ht : t < s.futs.length) :
    ((s.alloc x nk).1.updTask t g).task t = g (s.task t) := by
  rw [task_updTask_self _ _ _ (by simp; omega), task_alloc]
  simp [Nat.ne_of_lt ht]

theorem mem_map_resolve (ts : TaskSt) (l : List Ref) (h : l.all (refOk ts.own.length ts.inh.length) = true)
    (y : Nat) (hy : y ∈ l.map ts.resolve) : y ∈ ts.own ∨ y ∈ ts.inh := by
  rw [List.mem_map] at hy
  obtain ⟨r, hr, rfl⟩ := hy
  exact resolve_mem ts r (List.all_eq_true.1 h r hr)

theorem conts_ctxExitAux (s : State) (c f : Nat) (owner : Option Nat) :
    ((P3.ctxExitAux s c owner).task f).conts = (s.task f).conts := by
  unfold P3.ctxExitAux
  cases owner <;> dsimp only
  · split
    · rfl
    · show ((s.ctxPauseOne c).task f).conts = _
      unfold State.task; rw [P2.fut_ctxPauseOne]
  · rename_i o
    have h1 : ((s.updTask o fun ts => { ts with ctxs := ts.ctxs.erase c }).task f).conts = (s.task f).conts := by
      rw [task_updTask]; split
      · rename_i h; rw [h.1]
      · rfl
    split
    · exact h1
    · rw [← h1]
      show ((State.ctxPauseOne _ c).task f).conts = _
      unfold State.task; rw [P2.fut_ctxPauseOne]

theorem conts_ctxExit (s : State) (c f : Nat) : ((s.ctxExit c).task f).conts = (s.task f).conts := by
  rw [P3.ctxExit_eq]
  exact conts_ctxExitAux _ _ _ _

theorem ws_of_withCtx (ts : TaskSt) {cid : Nat} {b k : Body}
    (hw : wsB b ts.own.length ts.inh.length (fun m => wsB k m ts.inh.length (contQ ts.inh.length ts.conts)) = true) :
    wsTS { ts with conts := (cid, k) :: ts.conts, body := b } = true := by
  apply wsTS_of_wsB
  exact wsB_mono _ _ _ _ _ (fun m hm => hm) hw

theorem ws_of_endwith (ts : TaskSt) {cid : Nat} {k : Body} {rest : List (Nat × Body)}
    (hw : wsB .endwith ts.own.length ts.inh.length (contQ ts.inh.length ((cid, k) :: rest)) = true) :
    wsTS { ts with conts := rest, body := k } = true := by
  apply wsTS_of_wsB
  exact hw

/-- the (filtered) batch list of a kind is not empty once a batch of that kind has been appended -/
theorem curBatch_append (s : State) (kind : Nat) :
    ({ s with batches := s.batches ++ [({ kind := kind, seq := 0 } : Batch)] } : State).curBatch? kind ≠ none := by
  unfold State.curBatch?
  simp [List.filter_append]

theorem genStep_out (s : State) (t : Nat) (old : Option Nat) (ht : t < s.futs.length)
    (hlive : s.computed t = false) (hsus : SuspOK (s.task t)) : GOut s t (s.genStep t old) := by
  unfold State.genStep
  dsimp only
  split
  · split
    · refine .stay ?_ rfl
      hp_upd_tac
      · susp_tac
      · intro hi; rw [← hi.ws t]; exact wsTS_congr rfl rfl rfl rfl
      · intro _ d hd; cases hd
      · intro _ d hd; simp [YS.leaves] at hd
      · intro hi d hd; exact hi.prevY t d hd
    · split
      · rename_i y k h v hb _
        refine .stay ?_ rfl
        hp_upd_tac
        · susp_tac
        · intro hi
          have hw := ws_body _ (hi.ws t) hb (by intro _ _ _ h; cases h)
          simp only [wsB, Bool.and_eq_true] at hw
          exact ws_to (s.task t) _ rfl rfl hw.1.2
        · intro hi d hd; dsimp only at hd; split at hd
          · exact hi.deps t d hd
          · cases hd
        · intro _ d hd; simp [YS.leaves] at hd
        · intro hi d hd; exact hi.prevY t d hd
      · rename_i y k h e hb _
        refine .stay ?_ rfl
        hp_upd_tac
        · susp_tac
        · intro hi
          have hw := ws_body _ (hi.ws t) hb (by intro _ _ _ h; cases h)
          simp only [wsB, Bool.and_eq_true] at hw
          exact ws_to (s.task t) _ rfl rfl hw.2
        · intro hi d hd; dsimp only at hd; split at hd
          · exact hi.deps t d hd
          · cases hd
        · intro _ d hd; simp [YS.leaves] at hd
        · intro hi d hd; exact hi.prevY t d hd
      · rename_i k h v hb _
        refine .stay ?_ rfl
        hp_upd_tac
        · susp_tac
        · intro hi
          have hw := ws_body _ (hi.ws t) hb (by intro _ _ _ h; cases h)
          simp only [wsB, Bool.and_eq_true] at hw
          exact ws_to (s.task t) _ rfl rfl hw.1
        · intro hi d hd; dsimp only at hd; split at hd
          · exact hi.deps t d hd
          · cases hd
        · intro _ d hd; simp [YS.leaves] at hd
        · intro hi d hd; exact hi.prevY t d hd
      · rename_i k h e hb _
        refine .stay ?_ rfl
        hp_upd_tac
        · susp_tac
        · intro hi
          have hw := ws_body _ (hi.ws t) hb (by intro _ _ _ h; cases h)
          simp only [wsB, Bool.and_eq_true] at hw
          exact ws_to (s.task t) _ rfl rfl hw.2
        · intro hi d hd; dsimp only at hd; split at hd
          · exact hi.deps t d hd
          · cases hd
        · intro _ d hd; simp [YS.leaves] at hd
        · intro hi d hd; exact hi.prevY t d hd
      · -- a started suspended task is at a yield
        rename_i hpend hst _ _ h1 h2 h3 h4
        exfalso
        have hstarted : (s.task t).started = true := by
          cases hh : (s.task t).started with
          | true => rfl
          | false => rw [hh] at hst; exact absurd rfl hst
        have hy := hsus hpend hstarted
        cases hb : (s.task t).body <;> rw [hb] at hy <;> try (simp [isYield] at hy; done)
        · cases hr : unwrap s.out (s.task t).lastY with
          | ok v => exact h1 _ _ _ v hb hr
          | error e => exact h2 _ _ _ e hb hr
        · cases hr : unwrap s.out (s.task t).lastY with
          | ok v => exact h3 _ _ v hb hr
          | error e => exact h4 _ _ e hb hr
  · split
    · exact gout_finish _ _ _ _ hlive
    · exact gout_finish _ _ _ _ hlive
    · exact gout_finish _ _ _ _ hlive
    · exact gout_finish _ _ _ _ hlive
    · -- spawn
      rename_i child pass k hb
      refine .stay (hp_spawn s t child _ _ ht ?_ ?_ rfl rfl ?_ rfl rfl rfl id rfl (by assumption)) rfl
      · intro hi y hy
        have hw := ws_body _ (hi.ws t) hb (by intro _ _ _ h; cases h)
        simp only [wsB, Bool.and_eq_true] at hw
        exact mem_map_resolve _ _ hw.1.1 y hy
      · intro hi
        have hw := ws_body _ (hi.ws t) hb (by intro _ _ _ h; cases h)
        simp only [wsB, Bool.and_eq_true] at hw
        rw [List.length_map]; exact hw.1.2
      · intro hi
        have hw := ws_body _ (hi.ws t) hb (by intro _ _ _ h; cases h)
        simp only [wsB, Bool.and_eq_true] at hw
        refine ws_to (s.task t) _ rfl rfl ?_
        simpa using hw.2
    · -- item
      rename_i kind payload mode k hb
      have hws : HInv s → wsB k ((s.task t).own.length + 1) (s.task t).inh.length
          (contQ (s.task t).inh.length (s.task t).conts) = true := fun hi => by
        have hw := ws_body _ (hi.ws t) hb (by intro _ _ _ h; cases h)
        simpa only [wsB] using hw
      cases hcb : s.curBatch? kind with
      | some b0 =>
        simp only [hcb]
        refine .stay (hp_item s t _ _ _ _ _ _ ht rfl rfl rfl ?_ rfl rfl rfl id rfl (by assumption) (fun h => by first | rfl | (rcases h with h | h <;> cases h))) rfl
        intro hi
        refine ws_to (s.task t) _ rfl rfl ?_
        simpa using hws hi
      | none =>
        have h0 : HP s { s with batches := s.batches ++ [({ kind := kind, seq := 0 } : Batch)] } :=
          hp_of_futs rfl rfl rfl rfl rfl
        split
        · rename_i heq; exact absurd heq (curBatch_append s kind)
        · refine .stay (h0.trans
            (hp_item { s with batches := s.batches ++ [({ kind := kind, seq := 0 } : Batch)] } t _ _ _ _ _ _ ht rfl rfl rfl
              ?_ rfl rfl rfl ?_ rfl (by assumption) (fun h => by first | rfl | (rcases h with h | h <;> cases h)))) rfl
          · intro hi
            have hi' : HInv s := hinv_keep hi rfl fun f => TsKeep.refl _
            refine ws_to (s.task t) _ rfl rfl ?_
            show wsB k (((s.task t).own ++ [_]).length) _ _ = true
            rw [List.length_append]; exact hws hi'
          · exact id
    · -- const
      rename_i v k hb
      refine .stay (hp_leaf s t _ _ _ ht rfl rfl rfl ?_ rfl rfl rfl id rfl (by assumption) (fun h => by first | rfl | (rcases h with h | h <;> cases h))) rfl
      intro hi
      have hw := ws_body _ (hi.ws t) hb (by intro _ _ _ h; cases h)
      refine ws_to (s.task t) _ rfl rfl ?_
      simpa [wsB] using hw
    · -- errfut
      rename_i v k hb
      refine .stay (hp_leaf s t _ _ _ ht rfl rfl rfl ?_ rfl rfl rfl id rfl (by assumption) (fun h => by first | rfl | (rcases h with h | h <;> cases h))) rfl
      intro hi
      have hw := ws_body _ (hi.ws t) hb (by intro _ _ _ h; cases h)
      refine ws_to (s.task t) _ rfl rfl ?_
      simpa [wsB] using hw
    · -- lazy
      rename_i v k hb
      refine .stay (hp_leaf s t _ _ _ ht rfl rfl rfl ?_ rfl rfl rfl id rfl (by assumption) (fun h => by first | rfl | (rcases h with h | h <;> cases h))) rfl
      intro hi
      have hw := ws_body _ (hi.ws t) hb (by intro _ _ _ h; cases h)
      refine ws_to (s.task t) _ rfl rfl ?_
      simpa [wsB] using hw
    · -- yld
      rename_i y k h hb
      have hleaf : HInv s → ∀ d, d ∈ (y.mapLeaves (s.task t).resolve).leaves → Named s t d := fun hi d hd => by
        have hw := ws_body _ (hi.ws t) hb (by intro _ _ _ h; cases h)
        simp only [wsB, Bool.and_eq_true] at hw
        rw [leaves_mapLeaves] at hd
        exact mem_map_resolve _ _ hw.1.1 d hd
      have key : HP s ((s.emit (.yield t (s.task t).resumes (y.mapLeaves (s.task t).resolve))).updTask t fun ts =>
          { ts with pending := true, lastY := y.mapLeaves (s.task t).resolve,
                    prevY := y.mapLeaves (s.task t).resolve, prevYRef := y,
                    deps := (if s.cfg.keepDeps then (s.task t).deps else []) ++
                      extractFutures (y.mapLeaves (s.task t).resolve) }) := by
        hp_upd_tac
        · refine ⟨fun _ _ _ => ?_⟩
          show isYield (s.task t).body = true
          rw [hb]; rfl
        · intro hi; rw [← hi.ws t]; exact wsTS_congr rfl rfl rfl rfl
        · intro hi d hd
          dsimp only at hd
          rcases List.mem_append.1 hd with hd | hd
          · split at hd
            · exact hi.deps t d hd
            · cases hd
          · exact hleaf hi d ((P2.mem_extractFutures _ _).1 hd)
        · exact hleaf
        · exact hleaf
      exact gout_ite_leave _ key rfl
    · -- reyld
      rename_i k h hb
      have key : HP s ((s.emit (.yield t (s.task t).resumes (s.task t).prevY)).updTask t fun ts =>
          { ts with pending := true, lastY := (s.task t).prevY,
                    deps := (if s.cfg.keepDeps then (s.task t).deps else []) ++ extractFutures (s.task t).prevY }) := by
        hp_upd_tac
        · refine ⟨fun _ _ _ => ?_⟩
          show isYield (s.task t).body = true
          rw [hb]; rfl
        · intro hi; rw [← hi.ws t]; exact wsTS_congr rfl rfl rfl rfl
        · intro hi d hd
          dsimp only at hd
          rcases List.mem_append.1 hd with hd | hd
          · split at hd
            · exact hi.deps t d hd
            · cases hd
          · exact hi.prevY t d ((P2.mem_extractFutures _ _).1 hd)
        · intro hi d hd; exact hi.prevY t d hd
        · intro hi d hd; exact hi.prevY t d hd
      exact gout_ite_leave _ key rfl
    · -- sync
      rename_i child pass k h hb
      refine gout_call ?_ ?_ _ ?_
      · refine HP.trans ?_ (nz_emit _ _).hp
        refine hp_spawn s t child _ _ ht ?_ ?_ rfl rfl ?_ rfl rfl rfl id rfl (by assumption)
        · intro hi y hy
          have hw := ws_body _ (hi.ws t) hb (by intro _ _ _ h; cases h)
          simp only [wsB, Bool.and_eq_true] at hw
          exact mem_map_resolve _ _ hw.1.1.1 y hy
        · intro hi
          have hw := ws_body _ (hi.ws t) hb (by intro _ _ _ h; cases h)
          simp only [wsB, Bool.and_eq_true] at hw
          rw [List.length_map]; exact hw.1.1.2
        · intro hi
          have hw := ws_body _ (hi.ws t) hb (by intro _ _ _ h; cases h)
          simp only [wsB, Bool.and_eq_true] at hw
          unfold wsTS
          simp only [Bool.and_eq_true, List.length_append, List.length_singleton]
          exact ⟨hw.1.2, hw.2⟩
      · rfl
      · intro _
        left
        unfold State.newTask
        rw [P2.emit_task, task_spawn_self _ _ _ _ _ ht]
        simp
    · -- syncfut
      rename_i r k h hb
      have key : HP s ((s.updTask t fun ts => { ts with body := .syncret ((s.task t).resolve r) k h }).emit
          (.syncE t ((s.task t).resolve r))) := by
        hp_upd_tac
        · susp_tac
        · intro hi
          have hw := ws_body _ (hi.ws t) hb (by intro _ _ _ h; cases h)
          simp only [wsB, Bool.and_eq_true] at hw
          unfold wsTS
          simp only [Bool.and_eq_true]
          exact ⟨hw.1.2, hw.2⟩
        · intro hi d hd; exact hi.deps t d hd
        · intro hi d hd; exact hi.lastY t d hd
        · intro hi d hd; exact hi.prevY t d hd
      have hnamed : HInv s → Named s t ((s.task t).resolve r) := fun hi => by
        have hw := ws_body _ (hi.ws t) hb (by intro _ _ _ h; cases h)
        simp only [wsB, Bool.and_eq_true] at hw
        exact resolve_mem _ _ hw.1.1
      split
      · exact .stay key rfl
      · split
        · exact gout_call key rfl _ (fun hi => key.named _ _ (hnamed hi))
        · split
          · split
            · exact .stay key rfl
            · rename_i b heq _
              exact .stay (key.trans (nz_flushBatch _ _ _ b heq).hp) (nz_flushBatch _ _ _ b heq).ctl
          · exact .stay key rfl
        · exact .stay (key.trans (nz_complete _ _ _).hp) rfl
        · exact .stay key rfl
    · -- syncret
      rename_i f k h hb
      have hw : HInv s → wsB k (s.task t).own.length (s.task t).inh.length
            (contQ (s.task t).inh.length (s.task t).conts) = true ∧
          wsB h (s.task t).own.length (s.task t).inh.length
            (contQ (s.task t).inh.length (s.task t).conts) = true := fun hi => by
        have := hi.ws t
        unfold wsTS at this
        rw [hb] at this
        simpa only [Bool.and_eq_true] using this
      split
      · exact .stay (hp_fail _ _ (by decide)) rfl
      · refine .stay ?_ rfl
        hp_upd_tac
        · susp_tac
        · intro hi; exact ws_to (s.task t) _ rfl rfl (hw hi).1
        · intro hi d hd; exact hi.deps t d hd
        · intro hi d hd; exact hi.lastY t d hd
        · intro hi d hd; exact hi.prevY t d hd
      · refine .stay ?_ rfl
        hp_upd_tac
        · susp_tac
        · intro hi; exact ws_to (s.task t) _ rfl rfl (hw hi).2
        · intro hi d hd; exact hi.deps t d hd
        · intro hi d hd; exact hi.lastY t d hd
        · intro hi d hd; exact hi.prevY t d hd
    · -- withCtx
      rename_i c b k hb
      have nz : NZ s (P3.wc5 (P3.wc4 (P3.wc3 (P3.wc1 s c) s.ctxs.length t c) s.ctxs.length) c s.ctxs.length) := by
        have h1 : NZ s (P3.wc1 s c) := by
          unfold P3.wc1; split
          · exact nz_svTouch _ _
          · exact NZ.refl _
        have h3 : ∀ s0 : State, NZ s0 (P3.wc3 s0 s.ctxs.length t c) := fun s0 =>
          (nz_emit s0 (.ctxN s.ctxs.length t c)).trans (nz_of_futs rfl rfl rfl rfl rfl rfl rfl)
        have h4 : ∀ s0 : State, NZ s0 (P3.wc4 s0 s.ctxs.length) := fun s0 => by
          unfold P3.wc4; split
          · exact nz_updTask _ _ _ (fun ts => keep_ctxs _ ts)
          · exact NZ.refl _
        have h5 : ∀ s0 : State, NZ s0 (P3.wc5 s0 c s.ctxs.length) := fun s0 => by
          unfold P3.wc5; split
          · exact NZ.refl _
          · exact nz_ctxResumeOne _ _
        exact ((h1.trans (h3 _)).trans (h4 _)).trans (h5 _)
      refine .stay (hp_next nz t _ rfl rfl rfl rfl rfl rfl rfl (by assumption) ?_) nz.ctl
      intro h1
      have hb1 := (nz.ts t).body.trans hb
      have hw := ws_body _ h1 hb1 (by intro _ _ _ h; cases h)
      simp only [wsB] at hw
      exact ws_of_withCtx _ hw
    · -- endwith
      rename_i hb
      split
      · exact gout_finish _ _ _ _ hlive
      · rename_i cid k rest hc
        have nz := nz_ctxExit s cid
        refine .stay (hp_next nz t _ rfl rfl rfl rfl rfl rfl rfl (by assumption) ?_) nz.ctl
        intro h1
        have hb1 := (nz.ts t).body.trans hb
        have hc1 : ((s.ctxExit cid).task t).conts = (cid, k) :: rest := (conts_ctxExit s cid t).trans hc
        have hw := ws_body _ h1 hb1 (by intro _ _ _ h; cases h)
        rw [hc1] at hw
        exact ws_of_endwith _ hw
    · -- read
      rename_i var k hb
      have nz : NZ s ((s.svTouch var).emit (.read t var (.a ((s.svTouch var).svGet var)))) :=
        (nz_svTouch _ _).trans (nz_emit _ _)
      refine .stay (hp_next nz t _ rfl rfl rfl rfl rfl rfl rfl (by assumption) ?_) nz.ctl
      intro h1
      have hb1 := (nz.ts t).body.trans hb
      have hw := ws_body _ h1 hb1 (by intro _ _ _ h; cases h)
      exact ws_to _ _ rfl rfl (by simpa only [wsB] using hw)
    · -- active
      rename_i k hb
      have nz : NZ s (s.emit (.active t s.active)) := nz_emit _ _
      refine .stay (hp_next nz t _ rfl rfl rfl rfl rfl rfl rfl (by assumption) ?_) nz.ctl
      intro h1
      have hb1 := (nz.ts t).body.trans hb
      have hw := ws_body _ h1 hb1 (by intro _ _ _ h; cases h)
      exact ws_to _ _ rfl rfl (by simpa only [wsB] using hw)

end AsynqModel.Core.P10
