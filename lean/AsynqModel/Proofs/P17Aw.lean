import AsynqModel.Proofs.P17Step
import AsynqModel.Proofs.P17Lab
/-!
  P17, part 9: the observer's `awaiters` and the machine.
  * a task the machine says is waiting for `a` (`P12.Link`) is among the observer's awaiters of `a` (`link_awaiter`);
  * every observer's awaiter of `a` can name `a` (`named_of_awaiter`);
  * nobody awaits the root of the outermost `wait_for` (`awaiters_bottom`).
-/
namespace AsynqModel.Core.P17
open AsynqModel.Core AsynqModel.Core.Spec
open AsynqModel.Core.P13 (obs W)
open AsynqModel.Core.P10 (Named)

/-! ### the observer alone -/

theorem lookup_of_mem_nodup {β : Type} : ∀ (l : List (Nat × β)) (k : Nat) (v : β), (l.map (·.1)).Nodup → (k, v) ∈ l →
    l.lookup k = some v
  | [], _, _, _, h => by cases h
  | (a, b) :: l, k, v, hn, h => by
    simp only [List.map_cons, List.nodup_cons] at hn
    rcases List.mem_cons.1 h with e | h2
    · cases e; simp
    · have hne : k ≠ a := by
        intro e; subst e
        exact hn.1 (List.mem_map.2 ⟨(k, v), h2, rfl⟩)
      have : (k == a) = false := by simp [hne]
      rw [List.lookup_cons, this]
      exact lookup_of_mem_nodup l k v hn.2 h2

theorem mem_of_lookup {β : Type} : ∀ (l : List (Nat × β)) (k : Nat) (v : β), l.lookup k = some v → (k, v) ∈ l
  | [], _, _, h => by cases h
  | (a, b) :: l, k, v, h => by
    rw [List.lookup_cons] at h
    by_cases e : k = a
    · subst e; simp at h; subst h; exact List.mem_cons_self
    · have : (k == a) = false := by simp [e]
      rw [this] at h
      exact List.mem_cons_of_mem _ (mem_of_lookup l k v h)

theorem nodup_filter_keys {β : Type} (l : List (Nat × β)) (p : Nat × β → Bool) (h : (l.map (·.1)).Nodup) :
    ((l.filter p).map (·.1)).Nodup := by
  have : ((l.filter p).map (·.1)).Sublist (l.map (·.1)) := (List.filter_sublist).map _
  exact this.nodup h

theorem nodup_insertKV {β : Type} (l : List (Nat × β)) (k : Nat) (v : β) (h : (l.map (·.1)).Nodup) :
    ((insertKV l k v).map (·.1)).Nodup := by
  unfold insertKV
  simp only [List.map_cons, List.nodup_cons]
  refine ⟨?_, nodup_filter_keys l _ h⟩
  intro hm
  obtain ⟨p, hp, e⟩ := List.mem_map.1 hm
  have := (List.mem_filter.1 hp).2
  simp [e] at this

/-- the keys of the observer's `lastYield` are distinct -/
theorem lastYield_nodup : ∀ (tr : List Event), ((obs tr).lastYield.map (·.1)).Nodup
  | [] => by simp [P13.obs]
  | e :: tr => by
    have ih := lastYield_nodup tr
    rw [P13.obs_cons]
    cases e with
    | run t i dc r => exact nodup_filter_keys _ _ ih
    | done f o => exact nodup_filter_keys _ _ ih
    | yield t i y => exact nodup_insertKV _ _ _ ih
    | new f k => rw [P14.new_lastYield]; exact ih
    | ctx r c => cases r <;> exact ih
    | _ => exact ih

theorem mem_awaiters {w : Watch} {p a : Nat} :
    p ∈ w.awaiters a ↔ (∃ i y, (p, i, y) ∈ w.lastYield ∧ a ∈ y.leaves) ∨ (p, a) ∈ w.syncStack := by
  unfold Watch.awaiters
  rw [List.mem_eraseDups, List.mem_append, List.mem_filterMap, List.mem_filterMap]
  constructor
  · rintro (⟨⟨t, i, y⟩, hm, he⟩ | ⟨⟨q, f⟩, hm, he⟩)
    · left
      simp only at he
      split at he
      · next hc =>
        cases he
        exact ⟨i, y, hm, List.contains_iff_mem.1 hc⟩
      · cases he
    · right
      simp only at he
      split at he
      · next hc =>
        cases he
        have : f = a := by simpa using hc
        subst this; exact hm
      · cases he
  · rintro (⟨i, y, hm, hy⟩ | hm)
    · left
      refine ⟨(p, i, y), hm, ?_⟩
      simp only
      rw [if_pos (List.contains_iff_mem.2 hy)]
    · right
      refine ⟨(p, a), hm, ?_⟩
      simp

/-! ### synchronous calls -/

theorem mem_calls_of_edge : ∀ (c : List Ctl) (p u : Nat), P12.edgeIn c p u → (p, u) ∈ P13.calls c := by
  intro c p u ⟨pre, w, old, post, e, hw⟩
  subst e
  induction pre with
  | nil =>
    rcases hw with rfl | ⟨b, rfl⟩ <;> simp [P13.calls, P13.callHead]
  | cons x pre ih =>
    cases x with
    | gen t o => simpa [P13.calls] using ih
    | waitEnter r => simp only [List.cons_append, P13.calls, List.mem_append]; exact .inr ih
    | waitLoop r b => simp only [List.cons_append, P13.calls, List.mem_append]; exact .inr ih

/-! ### the machine's awaiting and the observer's -/

section
variable {c : Ctx} {s : State}

theorem link_awaiter {c' : Ctx} (g : G1 c s) (sr : P13.SR c' s) {p a : Nat} (h : P12.Link s p a) (hc : s.computed a = false) :
    p ∈ (W s).awaiters a := by
  rw [mem_awaiters]
  rcases h.2 with ⟨h1, h2, h3⟩ | h3
  · obtain ⟨i, y, hl, hy⟩ := g.aw p a h2 h1 h3 hc
    exact .inl ⟨i, y, mem_of_lookup _ _ _ hl, hy⟩
  · right
    obtain ⟨extra, he, _⟩ := sr.ss
    rw [he]
    exact List.mem_append_right _ (mem_calls_of_edge _ _ _ h3.2.2)

theorem named_of_awaiter (g : G1 c s) {p a : Nat} (h : p ∈ (W s).awaiters a) : Named s p a := by
  rw [mem_awaiters] at h
  rcases h with ⟨i, y, hm, hy⟩ | hm
  · exact g.lyn p i y a (lookup_of_mem_nodup _ _ _ (lastYield_nodup s.trace) hm) hy
  · exact g.sn p a hm

/-- the root of the outermost `wait_for` frame is the root of the current top-level computation -/
theorem curTop_of_bottom : ∀ (ctl : List Ctl) (r : Nat), P13.Buried s ctl → bottomRoot ctl = some r → s.curTop = some r
  | [], r, _, h => by cases h
  | [w], r, hb, h => by
    rw [bottomRoot_single] at h
    cases w with
    | gen t o => cases h
    | waitEnter r0 => simp only [P13.rootOf, Option.some.injEq] at h; subst h; exact hb.1
    | waitLoop r0 b => simp only [P13.rootOf, Option.some.injEq] at h; subst h; exact hb.1
  | w :: x :: rest, r, hb, h => by
    rw [bottomRoot_cons _ (List.cons_ne_nil _ _)] at h
    have hb' : P13.Buried s (x :: rest) := by
      cases w with
      | gen t o => exact hb
      | waitEnter r0 => exact hb.2
      | waitLoop r0 b => exact hb.2
    exact curTop_of_bottom (x :: rest) r hb' h

/-- nobody awaits the root of the outermost `wait_for` -/
theorem awaiters_bottom {c' : Ctx} (g : G1 c s) (sr : P13.SR c' s) {r : Nat} (h : bottomRoot s.ctl = some r) :
    (W s).awaiters r = [] := by
  have hct := curTop_of_bottom s.ctl r sr.bur h
  have htr := sr.top r hct
  obtain ⟨_, hn⟩ := g.rn r htr
  rw [List.eq_nil_iff_forall_not_mem]
  intro p hp
  exact hn p r (named_of_awaiter g hp) rfl

end

end AsynqModel.Core.P17
