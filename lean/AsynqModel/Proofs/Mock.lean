import AsynqModel.Lib.Mock
/-! helper lemmas for C19: the invariant that ties the attribute store to the stack of open patches -/
namespace AsynqModel.Mock

theorem upd_same {α : Type} (f : Nat → α) (k : Nat) (v : α) : upd f k v k = v := by simp [upd]
theorem upd_other {α : Type} (f : Nat → α) (k i : Nat) (v : α) (h : i ≠ k) : upd f k v i = f i := by simp [upd, h]

/-! ### stacks of open patches -/

theorem isOpen_cons {α : Type} (p : Nat) (e : Entry α) (stk : List (Entry α)) :
    isOpen p (e :: stk) = (e.p == p || isOpen p stk) := rfl

theorem isOpen_false_iff {α : Type} (p : Nat) (stk : List (Entry α)) :
    isOpen p stk = false ↔ ∀ e ∈ stk, e.p ≠ p := by
  induction stk with
  | nil => simp [isOpen]
  | cons e stk ih => simp [isOpen_cons, ih]

theorem isOpen_true_iff {α : Type} (p : Nat) (stk : List (Entry α)) :
    isOpen p stk = true ↔ ∃ e ∈ stk, e.p = p := by
  induction stk with
  | nil => simp [isOpen]
  | cons e stk ih => simp [isOpen_cons, ih]

theorem mem_eraseP {α : Type} (p : Nat) (stk : List (Entry α)) (e : Entry α) (h : e ∈ eraseP p stk) : e ∈ stk := by
  induction stk with
  | nil => simp [eraseP] at h
  | cons x stk ih =>
    simp only [eraseP] at h
    split at h
    · exact List.mem_cons_of_mem _ h
    · cases h with
      | head => exact List.mem_cons_self
      | tail _ h => exact List.mem_cons_of_mem _ (ih h)

/-- no patcher occurs twice among the open patches -/
def NoDup {α : Type} : List (Entry α) → Prop
  | [] => True
  | e :: rest => isOpen e.p rest = false ∧ NoDup rest

theorem isOpen_eraseP_false {α : Type} (p q : Nat) (stk : List (Entry α)) (h : isOpen q stk = false) :
    isOpen q (eraseP p stk) = false := by
  rw [isOpen_false_iff] at *
  intro e he
  exact h e (mem_eraseP p stk e he)

theorem NoDup_eraseP {α : Type} (p : Nat) (stk : List (Entry α)) (h : NoDup stk) : NoDup (eraseP p stk) := by
  induction stk with
  | nil => simp [eraseP, NoDup]
  | cons e stk ih =>
    simp only [eraseP]
    split
    · exact h.2
    · exact ⟨isOpen_eraseP_false _ _ _ h.1, ih h.2⟩

theorem isOpen_eraseP_self {α : Type} (p : Nat) (stk : List (Entry α)) (h : NoDup stk) :
    isOpen p (eraseP p stk) = false := by
  induction stk with
  | nil => simp [eraseP, isOpen]
  | cons e stk ih =>
    simp only [eraseP]
    split
    · rename_i hp; rw [← hp]; exact h.1
    · rename_i hp
      rw [isOpen_cons]
      simp [hp, ih h.2]

/-- an entry on top of its target is an open entry -/
theorem isTop_isOpen {α : Type} (t p : Nat) (stk : List (Entry α)) (h : isTop t p stk = true) : isOpen p stk = true := by
  induction stk with
  | nil => simp [isTop] at h
  | cons e stk ih =>
    simp only [isTop] at h
    rw [isOpen_cons]
    split at h
    · simp [h]
    · simp [ih h]

/-- mapping the payload does not change the shape of a stack -/
def mapStk {α β : Type} (f : α → β) (stk : List (Entry α)) : List (Entry β) :=
  stk.map fun e => { p := e.p, t := e.t, o := f e.o }

theorem isTop_mapStk {α β : Type} (f : α → β) (t p : Nat) (stk : List (Entry α)) :
    isTop t p (mapStk f stk) = isTop t p stk := by
  induction stk with
  | nil => rfl
  | cons e stk ih =>
    simp only [mapStk, List.map_cons, isTop] at *
    rw [ih]

theorem isOpen_mapStk {α β : Type} (f : α → β) (p : Nat) (stk : List (Entry α)) :
    isOpen p (mapStk f stk) = isOpen p stk := by
  induction stk with
  | nil => rfl
  | cons e stk ih =>
    simp only [mapStk, List.map_cons, isOpen] at *
    rw [ih]

theorem eraseP_mapStk {α β : Type} (f : α → β) (p : Nat) (stk : List (Entry α)) :
    eraseP p (mapStk f stk) = mapStk f (eraseP p stk) := by
  induction stk with
  | nil => rfl
  | cons e stk ih =>
    simp only [mapStk, List.map_cons, eraseP] at *
    split
    · rfl
    · simp [ih]

theorem expectAt_mapStk {α β : Type} (f : α → β) (init : Nat → Option α) (stk : List (Entry α)) (t : Nat) :
    expectAt (fun t => (init t).map f) (mapStk f stk) t = (expectAt init stk t).map f := by
  induction stk with
  | nil => rfl
  | cons e stk ih =>
    simp only [mapStk, List.map_cons, expectAt] at *
    split
    · rfl
    · exact ih

theorem topFor_mapStk {α β : Type} (f : α → β) (t : Nat) (stk : List (Entry α)) :
    topFor t (mapStk f stk) = (topFor t stk).map fun e => { p := e.p, t := e.t, o := f e.o } := by
  induction stk with
  | nil => rfl
  | cons e stk ih =>
    simp only [mapStk, List.map_cons, topFor] at *
    split
    · rfl
    · exact ih

theorem expectAt_topFor {α : Type} (init : Nat → Option α) (stk : List (Entry α)) (t : Nat) :
    expectAt init stk t = match topFor t stk with | some e => some e.o | none => init t := by
  induction stk with
  | nil => rfl
  | cons e stk ih =>
    simp only [expectAt, topFor]
    split
    · rfl
    · exact ih

theorem topFor_mem {α : Type} (stk : List (Entry α)) (t : Nat) (e : Entry α) (h : topFor t stk = some e) :
    e ∈ stk ∧ e.t = t := by
  induction stk with
  | nil => simp [topFor] at h
  | cons x stk ih =>
    simp only [topFor] at h
    split at h
    · injection h with h; subst h; exact ⟨List.mem_cons_self, by assumption⟩
    · exact ⟨List.mem_cons_of_mem _ (ih h).1, (ih h).2⟩


/-! ### the invariant -/

/-- every open patch remembers exactly what was below it: what its `__exit__` will write is what the store
    held for its target when only the patches below were open -/
def SavedOk (env : Env) (pat : Nat → Option Patcher) (saved : Nat → Option (Option Obj × Bool)) :
    List (Entry Obj) → Prop
  | [] => True
  | e :: rest =>
    (∃ pt sv n, pat e.p = some pt ∧ pt.spec.target = e.t ∧ e.o = installedObj pt e.p n ∧ saved e.p = some sv ∧
        restoredVal env pt.spec sv = expectAt env.initStore rest e.t) ∧ SavedOk env pat saved rest

structure Inv (env : Env) (st : State) : Prop where
  store : ∀ t, st.store t = expectAt env.initStore st.stack t
  saved : SavedOk env st.patchers st.saved st.stack
  nodup : NoDup st.stack

theorem SavedOk_congr (env : Env) (pat pat' : Nat → Option Patcher) (saved saved' : Nat → Option (Option Obj × Bool))
    (stk : List (Entry Obj)) (h : ∀ e ∈ stk, pat e.p = pat' e.p ∧ saved e.p = saved' e.p)
    (hs : SavedOk env pat saved stk) : SavedOk env pat' saved' stk := by
  induction stk with
  | nil => trivial
  | cons e stk ih =>
    obtain ⟨⟨pt, sv, n, h1, h2, h3, h4, h5⟩, hr⟩ := hs
    have he := h e List.mem_cons_self
    refine ⟨⟨pt, sv, n, ?_, h2, h3, ?_, h5⟩, ih (fun x hx => h x (List.mem_cons_of_mem _ hx)) hr⟩
    · rw [← he.1]; exact h1
    · rw [← he.2]; exact h4

theorem SavedOk_mem (env : Env) (pat : Nat → Option Patcher) (saved : Nat → Option (Option Obj × Bool))
    (stk : List (Entry Obj)) (hs : SavedOk env pat saved stk) (e : Entry Obj) (he : e ∈ stk) :
    ∃ pt sv n, pat e.p = some pt ∧ pt.spec.target = e.t ∧ e.o = installedObj pt e.p n ∧ saved e.p = some sv := by
  induction stk with
  | nil => cases he
  | cons x stk ih =>
    obtain ⟨⟨pt, sv, n, h1, h2, h3, h4, _⟩, hr⟩ := hs
    cases he with
    | head => exact ⟨pt, sv, n, h1, h2, h3, h4⟩
    | tail _ he => exact ih hr he

/-- ending the top patch of target `t`: the promised store changes at `t` only, to what that patch saved -/
theorem expectAt_eraseP (env : Env) (pat : Nat → Option Patcher) (saved : Nat → Option (Option Obj × Bool))
    (stk : List (Entry Obj)) (hs : SavedOk env pat saved stk) (p : Nat) (pt : Patcher) (hp : pat p = some pt)
    (htop : isTop pt.spec.target p stk = true) :
    ∃ sv, saved p = some sv ∧
      ∀ x, expectAt env.initStore (eraseP p stk) x
            = upd (expectAt env.initStore stk) pt.spec.target (restoredVal env pt.spec sv) x := by
  induction stk with
  | nil => simp [isTop] at htop
  | cons e stk ih =>
    obtain ⟨⟨pt', sv, n, h1, h2, h3, h4, h5⟩, hr⟩ := hs
    simp only [isTop] at htop
    by_cases het : e.t = pt.spec.target
    · simp only [het, if_true, beq_iff_eq] at htop
      rw [htop] at h1 h4
      rw [hp] at h1; injection h1 with h1; subst h1
      refine ⟨sv, h4, fun x => ?_⟩
      simp only [eraseP, htop, if_true, upd, expectAt]
      by_cases hx : x = pt.spec.target
      · simp [hx, h5, het]
      · have : ¬ e.t = x := by rw [het]; exact fun h => hx h.symm
        simp [hx, this]
    · simp only [het, if_false] at htop
      have hep : e.p ≠ p := by
        intro h; rw [h, hp] at h1; injection h1 with h1; subst h1; exact het h2.symm
      obtain ⟨sv', hsv, hx⟩ := ih hr htop
      refine ⟨sv', hsv, fun x => ?_⟩
      simp only [eraseP, hep, if_false, expectAt]
      by_cases hxe : e.t = x
      · have : x ≠ pt.spec.target := by rw [← hxe]; exact het
        simp [hxe, upd, this]
      · simp only [hxe, if_false, hx x, upd]

theorem SavedOk_eraseP (env : Env) (pat : Nat → Option Patcher) (saved : Nat → Option (Option Obj × Bool))
    (stk : List (Entry Obj)) (hs : SavedOk env pat saved stk) (hn : NoDup stk) (p : Nat) (pt : Patcher)
    (hp : pat p = some pt) (htop : isTop pt.spec.target p stk = true) :
    SavedOk env pat (upd saved p none) (eraseP p stk) := by
  induction stk with
  | nil => simp [isTop] at htop
  | cons e stk ih =>
    have hs' := hs
    obtain ⟨⟨pt', sv, n, h1, h2, h3, h4, h5⟩, hr⟩ := hs
    simp only [isTop] at htop
    by_cases het : e.t = pt.spec.target
    · simp only [het, if_true, beq_iff_eq] at htop
      simp only [eraseP, htop, if_true]
      refine SavedOk_congr env pat pat saved _ stk (fun x hx => ⟨rfl, ?_⟩) hr
      have := (isOpen_false_iff e.p stk).1 hn.1 x hx
      rw [htop] at this
      simp [upd, this]
    · simp only [het, if_false] at htop
      have hep : e.p ≠ p := by
        intro h; rw [h, hp] at h1; injection h1 with h1; subst h1; exact het h2.symm
      simp only [eraseP, hep, if_false]
      obtain ⟨sv', _, hx⟩ := expectAt_eraseP env pat saved stk hr p pt hp htop
      refine ⟨⟨pt', sv, n, h1, h2, h3, ?_, ?_⟩, ih hr hn.2 htop⟩
      · simp [upd, hep, h4]
      · rw [h5, hx e.t]
        have : e.t ≠ pt.spec.target := het
        simp [upd, this]

/-- what `__exit__` will write back is what `get_original` found when the patch was entered -/
theorem restoredVal_getOriginal (env : Env) (st : State) (s : PSpec)
    (h : (!s.create && (getOriginal env st s.target).1.isNone) = false) :
    restoredVal env s (getOriginal env st s.target) = st.store s.target := by
  unfold getOriginal at *
  cases hst : st.store s.target with
  | some o => simp [restoredVal]
  | none =>
    simp only [hst] at h
    cases hi : env.inh s.target <;> cases hc : s.create <;> simp_all [restoredVal]


/-! ### every operation preserves the invariant -/

theorem inv_init (env : Env) : Inv env (init env) :=
  ⟨fun _ => rfl, trivial, trivial⟩

theorem inv_enter (env : Env) (st : State) (pt : Patcher) (p : Nat) (h : Inv env st)
    (hp : st.patchers p = some pt) (hopen : isOpen p st.stack = false) : Inv env (enter env pt p st).1 := by
  unfold enter
  simp only []
  split
  · exact h
  · rename_i hc
    have hc' : (!pt.spec.create && (getOriginal env st pt.spec.target).1.isNone) = false :=
      Bool.eq_false_iff.2 hc
    refine ⟨fun t => ?_, ⟨⟨pt, _, st.entries p, hp, rfl, rfl, upd_same _ _ _, ?_⟩, ?_⟩, ⟨hopen, h.nodup⟩⟩
    · simp only [expectAt, upd]
      by_cases ht : t = pt.spec.target
      · simp [ht]
      · have : ¬ pt.spec.target = t := fun h => ht h.symm
        simp [ht, this, h.store t]
    · rw [restoredVal_getOriginal env st pt.spec hc', h.store]
    · refine SavedOk_congr env _ _ st.saved _ st.stack (fun e he => ⟨rfl, ?_⟩) h.saved
      have := (isOpen_false_iff p st.stack).1 hopen e he
      simp [upd, this]

theorem inv_exit (env : Env) (st : State) (pt : Patcher) (p : Nat) (exc : Bool) (h : Inv env st)
    (hp : st.patchers p = some pt) (htop : isTop pt.spec.target p st.stack = true) :
    Inv env (exit env pt p exc st).1 := by
  obtain ⟨sv, hsv, hx⟩ := expectAt_eraseP env st.patchers st.saved st.stack h.saved p pt hp htop
  unfold exit
  simp only [hsv]
  refine ⟨fun t => ?_, SavedOk_eraseP env st.patchers st.saved st.stack h.saved h.nodup p pt hp htop,
    NoDup_eraseP p st.stack h.nodup⟩
  rw [hx t]
  simp only [upd, h.store t]

theorem exit_res (env : Env) (st : State) (pt : Patcher) (p : Nat) (exc : Bool) (h : Inv env st)
    (hp : st.patchers p = some pt) (htop : isTop pt.spec.target p st.stack = true) :
    (exit env pt p exc st).2 = .exited exc ∧ (exit env pt p exc st).1.stack = eraseP p st.stack ∧
    (exit env pt p exc st).1.active = st.active ∧ (exit env pt p exc st).1.patchers = st.patchers ∧
    (exit env pt p exc st).1.skip = st.skip := by
  obtain ⟨sv, hsv, _⟩ := expectAt_eraseP env st.patchers st.saved st.stack h.saved p pt hp htop
  unfold exit
  simp [hsv]

theorem inv_active (env : Env) (st : State) (a : List Nat) (h : Inv env st) : Inv env { st with active := a } :=
  ⟨h.store, h.saved, h.nodup⟩

theorem inv_skip (env : Env) (st : State) (k : Option (Nat × Nat)) (h : Inv env st) : Inv env { st with skip := k } :=
  ⟨h.store, h.saved, h.nodup⟩

theorem inv_start (env : Env) (st : State) (pt : Patcher) (p : Nat) (h : Inv env st)
    (hp : st.patchers p = some pt) (hopen : isOpen p st.stack = false) : Inv env (start env pt p st).1 := by
  have := inv_enter env st pt p h hp hopen
  unfold start
  simp only []
  split
  · exact inv_active env _ _ this
  · exact this

theorem inv_stop (env : Env) (st : State) (pt : Patcher) (p : Nat) (h : Inv env st)
    (hp : st.patchers p = some pt) (hok : st.active.contains p = false ∨ isTop pt.spec.target p st.stack = true) :
    Inv env (stop env pt p st).1 := by
  unfold stop
  by_cases hin : p ∈ st.active
  · have htop : isTop pt.spec.target p st.stack = true := by
      cases hok with
      | inl h' => simp [hin] at h'
      | inr h' => exact h'
    simp only [hin, if_true]
    have := inv_exit env { st with active := st.active.erase p } pt p false (inv_active env st _ h) hp htop
    split <;> exact this
  · simp only [hin, if_false]
    exact h

theorem inv_stopall (env : Env) (i : Nat) (st : State) (h : Inv env st) (hok : stopallOk env i st = true) :
    Inv env (stopallLoop env i st).1 := by
  induction i generalizing st with
  | zero => exact h
  | succ i ih =>
    unfold stopallLoop
    unfold stopallOk at hok
    cases ha : st.active[i]? with
    | none => simpa using h
    | some p =>
      simp only [ha] at hok ⊢
      cases hpt : st.patchers p with
      | none => simp [hpt] at hok
      | some pt =>
        simp only [hpt, Bool.and_eq_true] at hok ⊢
        have hs := inv_stop env st pt p h hpt (Or.inr hok.1)
        split
        · exact hs
        · exact ih _ hs hok.2

/-- replacing the patcher object of a patcher that has no open patch (what `__enter__` does when it re-resolves
    `self.target`) keeps the invariant -/
theorem inv_setPatcher (env : Env) (st : State) (p : Nat) (pt : Patcher) (h : Inv env st)
    (hopen : isOpen p st.stack = false) : Inv env (setPatcher st p pt) := by
  refine ⟨h.store, ?_, h.nodup⟩
  refine SavedOk_congr env st.patchers _ st.saved _ st.stack (fun e he => ⟨?_, rfl⟩) h.saved
  have := (isOpen_false_iff p st.stack).1 hopen e he
  simp [setPatcher, upd, this]

theorem setPatcher_patchers (st : State) (p : Nat) (pt : Patcher) : (setPatcher st p pt).patchers p = some pt := by
  simp [setPatcher, upd]

theorem inv_bind (env : Env) (st : State) (b : Nat → Nat) (h : Inv env st) : Inv env { st with bind := b } :=
  ⟨h.store, h.saved, h.nodup⟩

theorem inv_step (env : Env) (st : State) (op : Op) (h : Inv env st)
    (hok : st.skip.isSome = true ∨ opOk env st op = true) : Inv env (step env st op).1 := by
  unfold step
  cases hsk : st.skip with
  | some qd =>
    obtain ⟨q, d⟩ := qd
    simp only []
    cases op <;> simp only [] <;> (try exact h)
    · split
      · exact inv_skip env st _ h
      · exact h
    · split
      · split <;> exact inv_skip env st _ h
      · exact h
  | none =>
    have hok : opOk env st op = true := by
      cases hok with
      | inl h' => simp [hsk] at h'
      | inr h' => exact h'
    simp only []
    cases op with
    | construct p s =>
      simp only []
      cases hpt : st.patchers p with
      | some _ => exact h
      | none =>
        simp only []
        cases hc : construct env.defaults p (retarget st.bind s) with
        | error x => exact h
        | ok pt =>
          refine ⟨h.store, ?_, h.nodup⟩
          refine SavedOk_congr env st.patchers _ st.saved _ st.stack (fun e he => ⟨?_, rfl⟩) h.saved
          obtain ⟨pt', _, _, h1, _⟩ := SavedOk_mem env _ _ _ h.saved e he
          have : e.p ≠ p := by intro hh; rw [hh, hpt] at h1; cases h1
          simp [upd, this]
    | enter p =>
      simp only [opOk, Bool.not_eq_true'] at hok
      simp only []
      cases hpt : st.patchers p with
      | none => exact inv_skip env st _ h
      | some pt0 =>
        simp only []
        have := inv_enter env (setPatcher st p (resolveP st.bind pt0)) (resolveP st.bind pt0) p
          (inv_setPatcher env st p _ h hok) (setPatcher_patchers st p _) hok
        split
        · exact this
        · exact inv_skip env _ _ this
    | exit p exc =>
      simp only [opOk] at hok
      simp only []
      cases hpt : st.patchers p with
      | none => exact h
      | some pt =>
        simp only [hpt, Bool.and_eq_true] at hok
        exact inv_exit env st pt p exc h hpt hok.1
    | start p =>
      simp only [opOk, Bool.not_eq_true'] at hok
      simp only []
      cases hpt : st.patchers p with
      | none => exact h
      | some pt0 =>
        exact inv_start env (setPatcher st p (resolveP st.bind pt0)) (resolveP st.bind pt0) p
          (inv_setPatcher env st p _ h hok) (setPatcher_patchers st p _) hok
    | stop p =>
      simp only [opOk] at hok
      simp only []
      cases hpt : st.patchers p with
      | none => exact h
      | some pt =>
        simp only [hpt, Bool.or_eq_true, Bool.not_eq_true'] at hok
        exact inv_stop env st pt p h hpt hok
    | stopall => exact inv_stopall env _ st h hok
    | call t args kw => exact h
    | peek => exact h
    | rebind s t => exact ⟨h.store, h.saved, h.nodup⟩

end AsynqModel.Mock
