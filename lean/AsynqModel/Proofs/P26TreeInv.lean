import AsynqModel.Proofs.P26TreeGen
import AsynqModel.Proofs.P13Flush
import AsynqModel.Proofs.P10Inv
/-!
  P26, part 3: the tree invariant `TI` of the runs of tree-shaped programs and its preservation by `step`.

  `TI s`:
  * `tops` : every top-level computation still to run is `lns`;
  * `ts`   : every task inherited nothing (`inh = []`) and its rest is `lns`;
  * `bound`, `own` : created futures exist, and no future is in the `own` list of two tasks;
  * `root` : the root of the current top-level computation exists and is in no `own` list.
  Consequence (`TI.named_unique`, `TI.root_unnamed`): at most one task can name (`P10.Named`) a given future, and
  nobody can name the root.
-/
namespace AsynqModel.Core.P26
open AsynqModel.Core AsynqModel.Core.P10

structure TI (s : State) : Prop where
  tops : ∀ p ∈ s.tops, lns p.2 true = true
  ts : ∀ u, NsT (s.task u)
  bound : Bd s
  own : ∀ p q f, f ∈ (s.task p).own → f ∈ (s.task q).own → p = q
  root : ∀ r, s.curTop = some r → r < s.futs.length ∧ ∀ p, r ∉ (s.task p).own

theorem TI.of_ts {s r : State} (h : TI s) (t : TS s r) (htops : ∀ p ∈ r.tops, p ∈ s.tops)
    (hcur : ∀ x, r.curTop = some x → s.curTop = some x) : TI r where
  tops := fun p hp => h.tops p (htops p hp)
  ts := t.ns h.ts
  bound := t.bound h.bound
  own := fun p q f hp hq => by
    rcases Nat.lt_or_ge f s.futs.length with hl | hl
    · exact h.own p q f (t.ownOld h.bound p f hp hl) (t.ownOld h.bound q f hq hl)
    · exact t.ownNew h.bound p q f hl hp hq
  root := fun x hx => by
    obtain ⟨h1, h2⟩ := h.root x (hcur x hx)
    exact ⟨Nat.lt_of_lt_of_le h1 t.len, fun p hp => h2 p (t.ownOld h.bound p x hp h1)⟩

theorem TI.named_unique {s : State} (h : TI s) {p q a : Nat} (hp : Named s p a) (hq : Named s q a) : p = q := by
  rcases hp with hp | hp
  · rcases hq with hq | hq
    · exact h.own p q a hp hq
    · rw [(h.ts q).inh] at hq; cases hq
  · rw [(h.ts p).inh] at hp; cases hp

theorem TI.root_unnamed {s : State} (h : TI s) {r : Nat} (hr : s.curTop = some r) (p : Nat) : ¬ Named s p r := by
  rintro (hp | hp)
  · exact (h.root r hr).2 p hp
  · rw [(h.ts p).inh] at hp; cases hp

/-! ### the scheduler -/

theorem ts_pauseContexts (s : State) (t : Nat) : TS s (s.pauseContexts t) := ts_nz (nz_pauseContexts s t)
theorem ts_resumeContexts (s : State) (t : Nat) : TS s (s.resumeContexts t) := ts_nz (nz_resumeContexts s t)

theorem ts_handleTask (s : State) (t : Nat) : TS s (s.handleTask t) := by
  unfold State.handleTask
  dsimp only
  split
  · split
    · exact ((ts_updTask s t _ rfl rfl id).trans (ts_pauseContexts _ _)).congr rfl
    · exact ((ts_updTask s t _ rfl rfl id).trans (ts_resumeContexts _ _)).congr rfl
  · split
    · exact ts_of_futs rfl
    · exact (ts_resumeContexts _ _).congr rfl

theorem ts_executeIter (s : State) : TS s s.executeIter := by
  unfold State.executeIter
  split
  · exact ts_of_futs rfl
  · split
    · exact ts_of_futs rfl
    · split
      · exact ts_of_futs rfl
      · split
        · exact ts_handleTask _ _
        · refine TS.congr (r := s) (TS.refl s) ?_
          show (State.popStack _).futs = s.futs
          split
          · split <;> rfl
          · rfl
        · exact (ts_nz (nz_complete _ _ _)).congr rfl
        · exact ts_of_futs rfl

theorem ts_flushBatch (s : State) (k q : Nat) : TS s (s.flushBatch k q) := by
  cases hb : s.batch? k q with
  | none => unfold State.flushBatch; rw [hb]; exact ts_of_futs rfl
  | some b => exact ts_nz (nz_flushBatch s k q b hb)

theorem ts_schedulerFlush (s : State) (root : Nat) : TS s (s.schedulerFlush root) := by
  unfold State.schedulerFlush
  dsimp only
  repeat' split
  all_goals first | exact ts_of_futs rfl | skip
  all_goals
    refine TS.congr (r := State.flushBatch _ _ _) ?_ rfl
    exact TS.congr_left (ts_flushBatch _ _ _) rfl

/-- the fields `tops`, `curTop` -/
structure TC (s r : State) : Prop where
  tops : r.tops = s.tops
  cur : r.curTop = s.curTop

theorem tc_flushBatch (s : State) (k q : Nat) : TC s (s.flushBatch k q) := by
  refine ⟨?_, (P13.ctl_flushBatch s k q).2⟩
  cases hb : s.batch? k q with
  | none => unfold State.flushBatch; rw [hb]; rfl
  | some b => exact (nz_flushBatch s k q b hb).tops

theorem tc_schedulerFlush (s : State) (root : Nat) : TC s (s.schedulerFlush root) := by
  unfold State.schedulerFlush
  dsimp only
  repeat' split
  all_goals first | exact ⟨rfl, rfl⟩ | skip
  all_goals
    constructor
    · show (State.flushBatch _ _ _).tops = _
      exact (tc_flushBatch _ _ _).tops
    · show (State.flushBatch _ _ _).curTop = _
      exact (tc_flushBatch _ _ _).cur

/-! ### one step -/

/-- a top-level computation starts: its root is a fresh task that nobody owns -/
theorem TI_top (s : State) (h : TI s) (conv : Conv) (body : Body) (rest : List (Conv × Body))
    (htops : s.tops = (conv, body) :: rest) (s1 : State) (hf : s1.futs = s.futs) (x : Fut) (nk : NewKind)
    (cr : Option Nat) (hx : x.ts = { body := body, inh := [], creator := cr }) (r : State)
    (hr : r.futs = (s1.alloc x nk).1.futs) (hrt : r.tops = rest) (hrc : r.curTop = some s.futs.length) : TI r := by
  have hlen : r.futs.length = s.futs.length + 1 := by rw [hr]; simp [State.alloc, State.emit, hf]
  have hnew : ∀ u, r.task u = if u = s.futs.length then x.ts else s.task u := by
    intro u
    rw [task_of_futs hr, task_alloc, hf, task_of_futs hf]
  refine ⟨?_, ?_, ?_, ?_, ?_⟩
  · intro p hp
    rw [hrt] at hp
    exact h.tops p (by rw [htops]; exact List.mem_cons_of_mem _ hp)
  · intro u
    rw [hnew]
    split
    · rw [hx]; exact ⟨rfl, h.tops (conv, body) (by rw [htops]; exact List.mem_cons_self)⟩
    · exact h.ts u
  · intro u f hf'
    rw [hnew] at hf'
    rw [hlen]
    split at hf'
    · rw [hx] at hf'; cases hf'
    · have := h.bound u f hf'; omega
  · intro p q f hp hq
    rw [hnew] at hp hq
    split at hp
    · rw [hx] at hp; cases hp
    · split at hq
      · rw [hx] at hq; cases hq
      · exact h.own p q f hp hq
  · intro r0 hr0
    rw [hrc] at hr0
    have hr' : r0 = s.futs.length := (Option.some.inj hr0).symm
    subst hr'
    refine ⟨by rw [hlen]; omega, ?_⟩
    intro p hp
    rw [hnew] at hp
    split at hp
    · rw [hx] at hp; cases hp
    · have := h.bound p _ hp; omega

theorem TI_step (s : State) (h : TI s) (hgen : ∀ t old rest, s.ctl = .gen t old :: rest → t < s.futs.length) :
    TI (step s) := by
  unfold step
  split
  · exact h
  · split
    · split
      · -- finishTop
        refine h.of_ts (ts_of_futs rfl) (fun p hp => hp) ?_
        intro x hx; cases hx
      · split
        · exact h
        · -- a top-level computation starts
          rename_i conv body rest htops
          simp only []
          unfold State.newTask
          exact TI_top s h conv body rest htops
            (({ s with tops := rest, topIdx := s.topIdx + 1 } : State).emit (.top s.topIdx conv)) rfl _ (.task s.active)
            s.active rfl _ rfl rfl rfl
    · split
      · exact h.of_ts (ts_of_futs rfl) (fun p hp => hp) (fun x hx => hx)
      · split
        · exact h.of_ts (ts_of_futs rfl) (fun p hp => hp) (fun x hx => hx)
        · exact h.of_ts (ts_of_futs rfl) (fun p hp => hp) (fun x hx => hx)
    · split
      · exact h.of_ts (ts_of_futs rfl) (fun p hp => hp) (fun x hx => hx)
      · split
        · have xf := P19.xf_executeIter s
          exact h.of_ts (ts_executeIter s) (fun p hp => by rw [← xf.tops]; exact hp)
            (fun x hx => by rw [← xf.curTop]; exact hx)
        · split
          · exact h.of_ts (ts_of_futs rfl) (fun p hp => hp) (fun x hx => hx)
          · rename_i root base _ _ _ _ _
            have tc := tc_schedulerFlush s root
            exact h.of_ts (ts_schedulerFlush s root) (fun p hp => by rw [← tc.tops]; exact hp)
              (fun x hx => by rw [← tc.cur]; exact hx)
    · rename_i t old rest hctl
      have key : ∀ c : Bool, TI (if c = true then
          s.fail "exception reached a generator that is not in a synchronous call" else s.genStep t old) := by
        intro c
        cases c
        · have xf := P19.xf_genStep s t old
          exact h.of_ts (ts_genStep s t old (hgen t old rest hctl)) (fun p hp => by rw [← xf.tops]; exact hp)
            (fun x hx => by rw [← xf.curTop]; exact hx)
        · exact h.of_ts (ts_of_futs rfl) (fun p hp => hp) (fun x hx => hx)
      exact key _

theorem TI_init (cfg : Cfg) (tops : List (Conv × Body)) (choices : List (Nat × Nat))
    (hws : ∀ p ∈ tops, WellScoped p.2 0 0 = true) (htree : ∀ p ∈ tops, Spec.bodyShares p.2 = false) :
    TI (initState cfg tops choices) := by
  have ht : ∀ u, (initState cfg tops choices).task u = {} := fun u => by simp [initState, State.task, State.fut]
  refine ⟨fun p hp => lns_of_top (hws p hp) (htree p hp), fun u => by rw [ht]; exact nsT_default, ?_, ?_, ?_⟩
  · intro u f hf; rw [ht] at hf; cases hf
  · intro p q f hp; rw [ht] at hp; cases hp
  · intro r hr; cases hr

end AsynqModel.Core.P26
