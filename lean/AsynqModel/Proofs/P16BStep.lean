import AsynqModel.Proofs.P16B
import AsynqModel.Proofs.P7Cases
import AsynqModel.Proofs.P5Reach
/-!
  P16, part 7: the registration invariant `B` is preserved by every step (`B_reach`).
-/
namespace AsynqModel.Core.P16
open AsynqModel.Core AsynqModel.Core.P5

theorem newCtx_eq (s0 : State) (n t : Nat) (c : CtxKind) (hact : s0.active = some t) :
    newCtx s0 n t c =
      ({ s0.emit (.ctxN n t c) with ctxs := s0.ctxs ++ [({ kind := c, owner := some t } : CtxSt)] } : State).updTask t
        fun ts => { ts with ctxs := ts.ctxs ++ [n] } := by
  unfold newCtx
  simp only [emit_active, emit_ctxs, hact]

/-- `with c:` entered by the running task `t` -/
theorem B.withCtx {s0 : State} (b : B s0) (t : Nat) (c : CtxKind) (bd k : Body) (hact : s0.active = some t)
    (ht : t < s0.futs.length) (hk : (s0.fut t).kind = .task) (hnc : s0.computed t = false) :
    B ((if c == .nonasync then newCtx s0 s0.ctxs.length t c
        else (newCtx s0 s0.ctxs.length t c).ctxResumeOne s0.ctxs.length).updTask t
          fun ts => { ts with conts := (s0.ctxs.length, k) :: ts.conts, body := bd }) := by
  rw [newCtx_eq s0 _ t c hact]
  generalize hY : ({ s0.emit (.ctxN s0.ctxs.length t c) with
      ctxs := s0.ctxs ++ [({ kind := c, owner := some t } : CtxSt)] } : State) = Y
  have hYf : Y.futs = s0.futs := by rw [← hY]; rfl
  have hYc : Y.ctxs = s0.ctxs ++ [({ kind := c, owner := some t } : CtxSt)] := by rw [← hY]
  generalize hn0 : Y.updTask t (fun ts => { ts with ctxs := ts.ctxs ++ [s0.ctxs.length] }) = n0
  have hn0f : n0.futs.length = s0.futs.length := by rw [← hn0]; simp [hYf]
  have hn0t : ∀ u, n0.task u = if u = t then { s0.task t with ctxs := (s0.task t).ctxs ++ [s0.ctxs.length] } else s0.task u := by
    intro u
    rw [← hn0, task_updTask]
    have e : ∀ v, Y.task v = s0.task v := fun v => by simp [State.task, State.fut, hYf]
    by_cases hu : u = t
    · subst hu; simp [hYf, ht, e]
    · simp [hu, e]
  have hn0k : ∀ f, (n0.fut f).kind = (s0.fut f).kind := by
    intro f; rw [← hn0, kind_updTask]; simp [State.fut, hYf]
  have hn0c : ∀ f, n0.computed f = s0.computed f := by
    intro f; rw [← hn0, computed_updTask]; simp [State.computed, State.out, State.fut, hYf]
  have hn0x : n0.ctxs = s0.ctxs ++ [({ kind := c, owner := some t } : CtxSt)] := by rw [← hn0]; exact hYc
  -- the optional `resume()`
  generalize hX : (if c == .nonasync then n0 else n0.ctxResumeOne s0.ctxs.length) = X
  have hXt : ∀ u, X.task u = n0.task u := by
    intro u; rw [← hX]; split
    · rfl
    · exact (flagOp_resume n0 _).task u
  have hXf : X.futs = n0.futs := by
    rw [← hX]; split
    · rfl
    · exact (flagOp_resume n0 _).futs
  have hXko : ∀ c' : Nat, (X.ctxs[c']?).map ko = (n0.ctxs[c']?).map ko := by
    intro c'; rw [← hX]; split
    · rfl
    · exact ko_flag (flagOp_resume n0 _) c'
  have hXlt : t < X.futs.length := by rw [hXf, hn0f]; exact ht
  have hrt : ∀ u, ((X.updTask t fun ts => { ts with conts := (s0.ctxs.length, k) :: ts.conts, body := bd }).task u) =
      if u = t then
        ({ s0.task t with ctxs := (s0.task t).ctxs ++ [s0.ctxs.length], conts := (s0.ctxs.length, k) :: (s0.task t).conts, body := bd } : TaskSt)
      else s0.task u := by
    intro u
    rw [task_updTask]
    by_cases hu : u = t
    · subst hu; simp [hXlt, hXt, hn0t]
    · simp [hu, hXt, hn0t]
  have hrk : ∀ f, ((X.updTask t fun ts => { ts with conts := (s0.ctxs.length, k) :: ts.conts, body := bd }).fut f).kind =
      (s0.fut f).kind := by
    intro f; rw [kind_updTask, ← hn0k]; simp [State.fut, hXf]
  have hrc : ∀ f, (X.updTask t fun ts => { ts with conts := (s0.ctxs.length, k) :: ts.conts, body := bd }).computed f =
      s0.computed f := by
    intro f; rw [computed_updTask, ← hn0c]; simp [State.computed, State.out, State.fut, hXf]
  have hold : ∀ (c' : Nat) (x : CtxSt), s0.ctxs[c']? = some x → ∃ x' : CtxSt, X.ctxs[c']? = some x' ∧ x'.owner = x.owner := by
    intro c' x hx
    have h1 := hXko c'
    have hlt : c' < s0.ctxs.length := lt_of_getElem?_some hx
    rw [hn0x, List.getElem?_append_left hlt, hx] at h1
    cases hy : X.ctxs[c']? with
    | none => rw [hy] at h1; cases h1
    | some y =>
      rw [hy] at h1
      simp only [Option.map_some, Option.some.injEq, ko, Prod.mk.injEq] at h1
      exact ⟨y, rfl, h1.2⟩
  have hnew : ∃ x', X.ctxs[s0.ctxs.length]? = some x' ∧ x'.owner = some t := by
    have h1 := hXko s0.ctxs.length
    rw [hn0x] at h1
    simp only [List.getElem?_append_right (Nat.le_refl _), Nat.sub_self, List.getElem?_cons_zero, Option.map_some] at h1
    cases hy : X.ctxs[s0.ctxs.length]? with
    | none => rw [hy] at h1; cases h1
    | some y =>
      rw [hy] at h1
      simp only [Option.map_some, Option.some.injEq, ko, Prod.mk.injEq] at h1
      exact ⟨y, rfl, h1.2⟩
  refine ⟨fun u c' h => ?_, fun u h => ?_, fun u c' h => ?_⟩
  · rw [hrt] at h ⊢
    by_cases hu : u = t
    · subst hu
      simp only [if_true, List.mem_append, List.mem_singleton] at h
      simp only [if_true, List.map_cons, List.mem_cons]
      rcases h with h | h
      · exact .inr (b.k1w u c' h)
      · exact .inl h
    · simp only [hu, if_false] at h ⊢
      exact b.k1w u c' h
  · rw [hrk, hrc]
    rw [hrt] at h
    by_cases hu : u = t
    · subst hu; exact ⟨hk, hnc⟩
    · simp only [hu, if_false] at h
      exact b.ck u h
  · show ∃ x, X.ctxs[c']? = some x ∧ x.owner = some u
    rw [hrt] at h
    by_cases hu : u = t
    · subst hu
      simp only [if_true, List.map_cons, List.mem_cons] at h
      rcases h with h | h
      · subst h; exact hnew
      · obtain ⟨x, hx, ho⟩ := b.cown u c' h
        obtain ⟨x', hx', ho'⟩ := hold c' x hx
        exact ⟨x', hx', by rw [ho', ho]⟩
    · simp only [hu, if_false] at h
      obtain ⟨x, hx, ho⟩ := b.cown u c' h
      obtain ⟨x', hx', ho'⟩ := hold c' x hx
      exact ⟨x', hx', by rw [ho', ho]⟩

/-- the end of a with-block of the running task `t` -/
theorem B.endwith {s : State} (b : B s) (t cid : Nat) (k : Body) (cs : List (Nat × Body))
    (hconts : (s.task t).conts = (cid, k) :: cs) (hn : (s.task t).ctxs.Nodup) :
    B ((s.ctxExit cid).updTask t fun ts => { ts with conts := cs, body := k }) := by
  obtain ⟨hk, hnc⟩ := b.ck t (by rw [hconts]; simp)
  have ht := lt_of_kind_task s t hk
  have hp : P12.Hp (P12.O t) s ((s.ctxExit cid).updTask t fun ts => { ts with conts := cs, body := k }) :=
    ((P12.Hp.start t s ht).ctxExit cid).updT _
  have hx := P12.hp_ctxExit s cid
  have hlt : t < (s.ctxExit cid).futs.length := Nat.lt_of_lt_of_le ht hx.len
  have hrc : ∀ u, (((s.ctxExit cid).updTask t fun ts => { ts with conts := cs, body := k }).task u).conts =
      if u = t then cs else (s.task u).conts := by
    intro u
    rw [task_updTask]
    by_cases hu : u = t
    · subst hu; simp [hlt]
    · simp [hu, conts_ctxExit]
  have hrx : ∀ u, (((s.ctxExit cid).updTask t fun ts => { ts with conts := cs, body := k }).task u).ctxs =
      ((s.ctxExit cid).task u).ctxs :=
    fun u => task_updTask_field _ t u (fun ts => { ts with conts := cs, body := k }) (·.ctxs) (fun _ => rfl)
  have hown := b.cown t cid (by rw [hconts]; simp)
  refine ⟨fun u c h => ?_, fun u h => ?_, fun u c h => ?_⟩
  · rw [hrx] at h
    rw [hrc]
    by_cases hu : u = t
    · subst hu
      rw [if_pos rfl]
      rw [ctxs_ctxExit, if_pos hown] at h
      obtain ⟨hne, hm⟩ := hn.mem_erase_iff.1 h
      have := b.k1w u c hm
      rw [hconts] at this
      simp only [List.map_cons, List.mem_cons] at this
      rcases this with e | e
      · exact absurd e hne
      · exact e
    · rw [if_neg hu]
      exact b.k1w u c (ctxs_ctxExit_sub s cid u c h)
  · rw [hrc] at h
    have hs : (s.task u).conts ≠ [] := by
      by_cases hu : u = t
      · subst hu; rw [hconts]; simp
      · rwa [if_neg hu] at h
    obtain ⟨h1, h2⟩ := b.ck u hs
    refine ⟨by rw [hp.kind u (lt_of_kind_task s u h1)]; exact h1, ?_⟩
    rw [computed_updTask, (hx.task u (fun hh => hh) h1).2]; exact h2
  · have hs : c ∈ (s.task u).conts.map (·.1) := by
      rw [hrc] at h
      by_cases hu : u = t
      · subst hu
        rw [if_pos rfl] at h
        rw [hconts]; simp only [List.map_cons, List.mem_cons]; exact .inr h
      · rwa [if_neg hu] at h
    exact owner_of_ko (fun c' => ko_ctxExit s cid c') (b.cown u c hs)

theorem B_step {s : State} (i : I s) (pi : P2.PInv s) (co : P3.Core s) (b : B s)
    (hg : (step s).guardFired = false) : B (step s) := by
  have j := i.j
  cases P7.step_cases s pi.items co.raising with
  | neutral q _ _ => exact b.ofQ q
  | top f _ e => rw [e]; exact b.ofQ (P7.q_finishTop s f)
  | enterLoop _ _ _ _ q _ _ => exact b.ofQ q
  | pop _ _ _ _ _ _ _ _ _ q _ _ => exact b.ofQ q
  | suspend root base rest t stk hctl hst hlen hk hnc hsched e =>
    rw [e]
    have ht : t < s.futs.length := lt_of_kind_task s t hk
    have b1 : B (s.updTask t fun ts => { ts with depsSched := false }) := b.updTask t _ (fun _ => rfl) (fun _ => rfl)
    refine B.of_eq (b1.pauseContexts t (by simpa using ht) ?_) rfl rfl
    rw [task_updTask_field s t t (fun ts => { ts with depsSched := false }) (·.ctxs) (fun _ => rfl)]; exact j.nodup t
  | visit root base rest t stk hctl hst hlen hk hnc hsched ds hds e =>
    rw [e]
    have ht : t < s.futs.length := lt_of_kind_task s t hk
    have b1 : B (s.updTask t fun ts => { ts with depsSched := true }) := b.updTask t _ (fun _ => rfl) (fun _ => rfl)
    refine B.of_eq (b1.resumeContexts t (by simpa using ht) ?_) rfl rfl
    rw [task_updTask_field s t t (fun ts => { ts with depsSched := true }) (·.ctxs) (fun _ => rfl)]; exact j.nodup t
  | enterGen root base rest t stk hctl hst hlen hk hnc e =>
    rw [e]
    have ht : t < s.futs.length := lt_of_kind_task s t hk
    exact B.of_eq (b.resumeContexts t ht (j.nodup t)) rfl rfl
  | gen t old rest hctl _ _ g =>
    have hm : t ∈ P2.gens s.ctl := by rw [hctl]; simp [P2.gens]
    have hk := pi.genKind t hm
    have ht : t < s.futs.length := lt_of_kind_task s t hk
    have hnc : s.computed t = false := by simp [State.computed, pi.live t hm]
    have hact : s.active = some t := by
      have ha := co.active
      rw [hctl, gensOf_cons_gen] at ha
      exact (P3.activeChain_cons.1 ha).1
    cases g with
    | neutral q => exact b.ofQ q
    | withCtx c bd k s0 h0 e =>
      rw [e]
      have hs0 : s0.futs = s.futs ∧ s0.ctxs = s.ctxs ∧ s0.active = s.active := by
        rcases h0 with rfl | ⟨var, rfl⟩
        · exact ⟨rfl, rfl, rfl⟩
        · exact ⟨by simp, by simp, by simp⟩
      have b0 : B s0 := b.of_eq hs0.1 hs0.2.1
      have hlen : s.ctxs.length = s0.ctxs.length := by rw [hs0.2.1]
      rw [hlen]
      refine b0.withCtx t c bd k (by rw [hs0.2.2]; exact hact) (by rw [hs0.1]; exact ht) ?_ ?_
      · simpa [State.fut, hs0.1] using hk
      · simpa [State.computed, State.out, State.fut, hs0.1] using hnc
    | endwith cid k cs hconts e =>
      rw [e]
      exact b.endwith t cid k cs hconts (j.nodup t)
    | finish o hnc' e =>
      rw [e]
      unfold State.leaveGen
      exact B.of_eq (B.updTask (b.exitComplete t ht (j.nodup t) o) t (fun ts => { ts with depsSched := false })
        (fun _ => rfl) (fun _ => rfl)) rfl rfl
  | guard hgf => rw [hgf] at hg; cases hg

theorem B_reach {s : State} (h : Reach s) (hg : s.guardFired = false) : B s := by
  induction h with
  | init cfg tops choices => exact B_init cfg tops choices
  | @step s hs ih =>
    have hg0 := P3.guard_mono s hg
    exact B_step (I_reach hs) (P2.pinv_reach hs) (P3.reach_core s hs hg0).1 (ih hg0) hg

end AsynqModel.Core.P16
