import AsynqModel.Proofs.P21Step
/-
  P21, part 5: the invariant `SInv` about tasks stopped at a `syncret` (inside a synchronous `value()` call), its
  preservation, and the theorem that a step out of a reachable non-stuck state of a well-scoped program is not stuck
  unless the oracle hands the scheduler flush an inadmissible choice.
-/
namespace AsynqModel.Core.P21
open AsynqModel.Core

/-- where the `value()` call of `f` that task `t` is stopped in stands: `f` is computed; or an exception has just left
    the nested `wait_for` and `t` is about to receive it; or a `wait_for(f)` frame sits directly on `t`'s generator frame -/
def Ret (s : State) (t f : Nat) : Prop :=
  s.computed f = true ∨
  (s.raising.isSome = true ∧ ∃ old rest, s.ctl = .gen t old :: rest) ∨
  (∃ pre w old rest, s.ctl = pre ++ w :: .gen t old :: rest ∧ P13.rootOf w = some f)

structure SInv (s : State) : Prop where
  sr : ∀ t f k h, (s.task t).body = .syncret f k h → (s.task t).pending = false ∧ Ret s t f
  rz : s.raising.isSome = true → ∀ t old rest, s.ctl = .gen t old :: rest → ∃ f k h, (s.task t).body = .syncret f k h
  b : P6.InvB s

theorem sinv_congr {s r : State} (h : SInv s) (hf : r.futs = s.futs) (hc : r.ctl = s.ctl) (hr : r.raising = s.raising)
    (hb : r.batches = s.batches) : SInv r := by
  have hfut : ∀ f, r.fut f = s.fut f := fun f => by unfold State.fut; rw [hf]
  have htask : ∀ f, r.task f = s.task f := fun f => by unfold State.task; rw [hfut]
  have hcomp : ∀ f, r.computed f = s.computed f := fun f => by unfold State.computed State.out; rw [hfut]
  refine ⟨fun t f k hh hbd => ?_, fun hrz t old rest hctl => ?_, invB_congr h.b hf hb⟩
  · rw [htask] at hbd ⊢
    obtain ⟨hp, hret⟩ := h.sr t f k hh hbd
    refine ⟨hp, ?_⟩
    unfold Ret at hret ⊢
    rw [hcomp, hr, hc]; exact hret
  · rw [htask]
    exact h.rz (hr ▸ hrz) t old rest (hc ▸ hctl)

theorem sinv_init (cfg : Cfg) (tops : List (Conv × Body)) (choices : List (Nat × Nat)) :
    SInv (initState cfg tops choices) := by
  refine ⟨fun t f k h hb => ?_, fun hr => by simp [initState] at hr, P6.invB_init cfg tops choices⟩
  rw [task_ge _ t (Nat.zero_le _)] at hb
  cases hb

/-! ### transfer of `Ret` along the moves of the control stack -/

section
variable {s r : State} (cm : ∀ f, s.computed f = true → r.computed f = true)
include cm

theorem ret_same {t f : Nat} (hc : r.ctl = s.ctl) (hr : s.raising.isSome = true → r.raising.isSome = true)
    (h : Ret s t f) : Ret r t f := by
  rcases h with h | ⟨h1, h2⟩ | h
  · exact .inl (cm f h)
  · exact .inr (.inl ⟨hr h1, by rw [hc]; exact h2⟩)
  · exact .inr (.inr (by rw [hc]; exact h))

theorem ret_same' {t f : Nat} (hc : r.ctl = s.ctl) (hne : ∀ old rest, s.ctl ≠ .gen t old :: rest)
    (h : Ret s t f) : Ret r t f := by
  rcases h with h | ⟨_, old, rest, h2⟩ | h
  · exact .inl (cm f h)
  · exact absurd h2 (hne old rest)
  · exact .inr (.inr (by rw [hc]; exact h))

theorem ret_push {t f : Nat} {c : Ctl} (hc : r.ctl = c :: s.ctl)
    (h2 : ¬ (s.raising.isSome = true ∧ ∃ old rest, s.ctl = .gen t old :: rest)) (h : Ret s t f) : Ret r t f := by
  rcases h with h | h | ⟨pre, w, old, rest, h3, hw⟩
  · exact .inl (cm f h)
  · exact absurd h h2
  · exact .inr (.inr ⟨c :: pre, w, old, rest, by rw [hc, h3]; rfl, hw⟩)

theorem ret_pop {t f : Nat} {w : Ctl} {root : Nat} {rest : List Ctl} (hs : s.ctl = w :: rest) (hc : r.ctl = rest)
    (hw : P13.rootOf w = some root) (hcase : r.computed root = true ∨ r.raising.isSome = true) (h : Ret s t f) :
    Ret r t f := by
  rcases h with h | ⟨_, old, rest', h2⟩ | ⟨pre, w', old, rest', h3, hw'⟩
  · exact .inl (cm f h)
  · rw [hs] at h2; injection h2 with h2 _; subst h2; cases hw
  · cases pre with
    | nil =>
      rw [hs] at h3
      simp only [List.nil_append] at h3
      injection h3 with e1 e2
      subst e1
      rw [hw] at hw'
      injection hw' with hw'
      subst hw'
      rcases hcase with hcase | hcase
      · exact .inl hcase
      · exact .inr (.inl ⟨hcase, old, rest', by rw [hc, e2]⟩)
    | cons a pre =>
      rw [hs] at h3
      simp only [List.cons_append] at h3
      injection h3 with e1 e2
      exact .inr (.inr ⟨pre, w', old, rest', by rw [hc, e2], hw'⟩)

theorem ret_swap {t f : Nat} {w w' : Ctl} {root : Nat} {rest : List Ctl} (hs : s.ctl = w :: rest)
    (hc : r.ctl = w' :: rest) (hw : P13.rootOf w = some root) (hw' : P13.rootOf w' = some root) (h : Ret s t f) :
    Ret r t f := by
  rcases h with h | ⟨_, old, rest', h2⟩ | ⟨pre, w0, old, rest', h3, hw0⟩
  · exact .inl (cm f h)
  · rw [hs] at h2; injection h2 with h2 _; subst h2; cases hw
  · cases pre with
    | nil =>
      rw [hs] at h3
      simp only [List.nil_append] at h3
      injection h3 with e1 e2
      subst e1
      exact .inr (.inr ⟨[], w', old, rest', by rw [hc, e2]; rfl, by rw [hw', ← hw0, hw]⟩)
    | cons a pre =>
      rw [hs] at h3
      simp only [List.cons_append] at h3
      injection h3 with e1 e2
      exact .inr (.inr ⟨w' :: pre, w0, old, rest', by rw [hc, e2]; rfl, hw0⟩)

theorem ret_leave {t f x : Nat} {old : Option Nat} {rest : List Ctl} (hs : s.ctl = .gen x old :: rest)
    (hc : r.ctl = rest) (hne : t ≠ x) (h : Ret s t f) : Ret r t f := by
  rcases h with h | ⟨_, old', rest', h2⟩ | ⟨pre, w', old', rest', h3, hw'⟩
  · exact .inl (cm f h)
  · rw [hs] at h2; injection h2 with h2 _; injection h2 with h2; exact absurd h2.symm hne
  · cases pre with
    | nil =>
      rw [hs] at h3
      simp only [List.nil_append] at h3
      injection h3 with e1 e2
      subst e1; cases hw'
    | cons a pre =>
      rw [hs] at h3
      simp only [List.cons_append] at h3
      injection h3 with e1 e2
      exact .inr (.inr ⟨pre, w', old', rest', by rw [hc, e2], hw'⟩)

end

/-- the generic transfer of `SInv` along `G` -/
theorem sinv_of_g {x : Option Nat} {s r : State} (g : G x s r) (hS : SInv s)
    (hret : ∀ t f, x ≠ some t → t < s.futs.length → Ret s t f → Ret r t f)
    (hx : ∀ t, x = some t → ∀ f k h, (r.task t).body = .syncret f k h → (r.task t).pending = false ∧ Ret r t f)
    (hrz : r.raising.isSome = true → ∀ t old rest, r.ctl = .gen t old :: rest →
      ∃ f k h, (r.task t).body = .syncret f k h) : SInv r := by
  refine ⟨fun t f k h hb => ?_, hrz, g.ib hS.b⟩
  by_cases hlt : t < s.futs.length
  · by_cases hxt : x = some t
    · exact hx t hxt f k h hb
    · obtain ⟨e1, e2⟩ := g.other t hxt hlt
      rw [e1] at hb
      obtain ⟨hp, hr⟩ := hS.sr t f k h hb
      refine ⟨?_, hret t f hxt hlt hr⟩
      cases hp' : (r.task t).pending with
      | false => rfl
      | true => rw [e2 hp'] at hp; cases hp
  · have := g.fresh t (by omega)
    rw [hb] at this; cases this

end AsynqModel.Core.P21
