import AsynqModel.Proofs.P17Obs
import AsynqModel.Proofs.P13Inv
import AsynqModel.Proofs.P14Inv
import AsynqModel.Proofs.P10Heap
/-!
  P17, part 3: the relation `G1 c s` between the observer state `W s = obs s.trace` and the machine state, as far as
  awaiting is concerned, and its preservation by the primitive operations of the machine.

  * `acc` : the observer's `.read` clause has accepted every event so far;
  * `dq`  : a task that is not suspended has all its `_dependencies` computed;
  * `aw`  : an uncomputed dependency of a suspended, uncomputed task is a leaf of the structure the observer has
            recorded for it (`lastYield`): the task is among the observer's `awaiters` of the dependency;
  * `lyn` : every leaf of a structure in `lastYield` is a future the task can name (`P10.Named`);
  * `sn`  : every open synchronous call the observer knows targets a future the caller can name;
  * `rn`  : nobody can name the root of the current top-level computation (the observer's `topRoot`);
  * `xr`  : no root task is expected.
-/
namespace AsynqModel.Core.P17
open AsynqModel.Core AsynqModel.Core.Spec
open AsynqModel.Core.P13 (obs W)
open AsynqModel.Core.P10 (Named)

/-- the fields of the observer state `G1` looks at -/
def g1view (w : Watch) : List (Nat × Nat × RY) × List (Nat × Nat) × Option Nat × Bool :=
  (w.lastYield, w.syncStack, w.topRoot, w.expectRoot)

/-- events that change none of these fields and are not `.read` events -/
def plain1 : Event → Bool
  | .top _ _ => false
  | .new _ _ => false
  | .run _ _ _ _ => false
  | .yield _ _ _ => false
  | .done _ _ => false
  | .syncE _ _ => false
  | .syncX _ _ _ => false
  | .read _ _ _ => false
  | _ => true

theorem g1view_plain (w : Watch) (e : Event) (h : plain1 e = true) : g1view (watchEvent w e) = g1view w := by
  cases e <;> simp [plain1] at h <;> simp [watchEvent, g1view]
  case ctx r c => cases r <;> simp

theorem g1view_read (w : Watch) (t var : Nat) (v : Val) : g1view (watchEvent w (.read t var v)) = g1view w := rfl

theorem checkRead_plain (c : Ctx) (w : Watch) (e : Event) (h : plain1 e = true) : checkRead c w e = none := by
  cases e <;> simp [plain1] at h <;> rfl

theorem checkRead_other (c : Ctx) (w : Watch) (e : Event) (h : ∀ t var v, e ≠ .read t var v) :
    checkRead c w e = none := by
  cases e <;> first | rfl | exact absurd rfl (h _ _ _)

structure G1 (c : Ctx) (s : State) : Prop where
  acc : P13.Acc checkRead c s.trace
  dq : ∀ p d, (s.task p).pending = false → d ∈ (s.task p).deps → s.computed d = true
  aw : ∀ p d, (s.task p).pending = true → s.computed p = false → d ∈ (s.task p).deps → s.computed d = false →
    ∃ i y, (W s).lastYield.lookup p = some (i, y) ∧ d ∈ y.leaves
  lyn : ∀ p i y d, (W s).lastYield.lookup p = some (i, y) → d ∈ y.leaves → Named s p d
  sn : ∀ p f, (p, f) ∈ (W s).syncStack → Named s p f
  rn : ∀ r, (W s).topRoot = some r → r < s.futs.length ∧ ∀ x y, Named s x y → y ≠ r
  xr : (W s).expectRoot = false

variable {c : Ctx}

/-- the fields of a task `G1` looks at -/
structure TK (a b : TaskSt) : Prop where
  pending : b.pending = a.pending
  deps : b.deps = a.deps
  own : b.own = a.own
  inh : b.inh = a.inh

theorem TK.refl (a : TaskSt) : TK a a := ⟨rfl, rfl, rfl, rfl⟩

theorem named_of_tk {s s' : State} (h : ∀ p, TK (s.task p) (s'.task p)) (x y : Nat) : Named s' x y ↔ Named s x y := by
  unfold Named; rw [(h x).own, (h x).inh]

/-- a transition that changes nothing `G1` looks at -/
theorem G1.transport {s s' : State} (h : G1 c s) (hacc : P13.Acc checkRead c s'.trace)
    (hv : g1view (W s') = g1view (W s)) (hlen : s'.futs.length = s.futs.length)
    (hcomp : ∀ f, s'.computed f = s.computed f) (ht : ∀ p, TK (s.task p) (s'.task p)) : G1 c s' := by
  simp only [g1view, Prod.mk.injEq] at hv
  obtain ⟨v1, v2, v3, v4⟩ := hv
  refine ⟨hacc, ?_, ?_, ?_, ?_, ?_, v4.trans h.xr⟩
  · intro p d hp hd
    rw [(ht p).pending] at hp; rw [(ht p).deps] at hd; rw [hcomp]
    exact h.dq p d hp hd
  · intro p d hp hc hd hdc
    rw [(ht p).pending] at hp; rw [(ht p).deps] at hd; rw [hcomp] at hc hdc; rw [v1]
    exact h.aw p d hp hc hd hdc
  · intro p i y d hl hd
    rw [v1] at hl
    exact (named_of_tk ht p d).2 (h.lyn p i y d hl hd)
  · intro p f hm
    rw [v2] at hm
    exact (named_of_tk ht p f).2 (h.sn p f hm)
  · intro r hr
    rw [v3] at hr
    obtain ⟨h1, h2⟩ := h.rn r hr
    exact ⟨by rw [hlen]; exact h1, fun x y hn => h2 x y ((named_of_tk ht x y).1 hn)⟩

theorem task_of_futs {s s' : State} (h : s'.futs = s.futs) (p : Nat) : s'.task p = s.task p := by
  unfold State.task State.fut; rw [h]

theorem computed_of_futs {s s' : State} (h : s'.futs = s.futs) (p : Nat) : s'.computed p = s.computed p := by
  unfold State.computed State.out State.fut; rw [h]

/-- fields other than `futs` and `trace` do not matter -/
theorem G1.of_eq {s s' : State} (hf : s'.futs = s.futs) (ht : s'.trace = s.trace) (h : G1 c s) : G1 c s' :=
  h.transport (by rw [ht]; exact h.acc) (by simp only [W, ht]) (by rw [hf]) (computed_of_futs hf)
    (fun p => by rw [task_of_futs hf]; exact TK.refl _)

theorem G1.emit_plain {s : State} (e : Event) (he : plain1 e = true) (h : G1 c s) : G1 c (s.emit e) :=
  h.transport ⟨h.acc, checkRead_plain c _ e he⟩ (g1view_plain _ e he) rfl (fun _ => rfl) (fun _ => TK.refl _)

theorem G1.emit_read {s : State} (t var : Nat) (v : Val) (hchk : checkRead c (W s) (.read t var v) = none)
    (h : G1 c s) : G1 c (s.emit (.read t var v)) :=
  h.transport ⟨h.acc, hchk⟩ (g1view_read _ t var v) rfl (fun _ => rfl) (fun _ => TK.refl _)

theorem task_updTask (s : State) (t f : Nat) (g : TaskSt → TaskSt) :
    (s.updTask t g).task f = if f = t ∧ t < s.futs.length then g (s.task t) else s.task f :=
  P14.task_updTask s t f g

theorem tk_updTask (s : State) (t : Nat) (g : TaskSt → TaskSt) (hg : ∀ ts, TK ts (g ts)) (p : Nat) :
    TK (s.task p) ((s.updTask t g).task p) := by
  rw [task_updTask]
  split
  · next hc => rw [hc.1]; exact hg _
  · exact TK.refl _

/-- a task update that keeps `pending`, `deps`, `own`, `inh` -/
theorem G1.updTask_keep {s : State} (t : Nat) (g : TaskSt → TaskSt) (hg : ∀ ts, TK ts (g ts)) (h : G1 c s) :
    G1 c (s.updTask t g) :=
  h.transport h.acc rfl (by simp) (fun f => by simp) (tk_updTask s t g hg)


/-! ### association lists -/

theorem lookup_filter_self {β : Type} (l : List (Nat × β)) (k : Nat) :
    (l.filter (fun p => p.1 != k)).lookup k = none := by
  induction l with
  | nil => rfl
  | cons p l ih =>
    obtain ⟨a, v⟩ := p
    by_cases ha : a = k
    · subst ha; simp [ih]
    · have hb : (k == a) = false := by simp [Ne.symm ha]
      simp [List.lookup_cons, ha, hb, ih]

/-! ### the observer's fields under the events that touch them -/

theorem view_new (w : Watch) (f : Nat) (k : NewKind) (h : w.expectRoot = false) :
    g1view (watchEvent w (.new f k)) = g1view w := by
  cases k <;> simp [watchEvent, g1view, h]

theorem view_done (w : Watch) (f : Nat) (o : Outcome) :
    g1view (watchEvent w (.done f o)) = (w.lastYield.filter (fun p => p.1 != f), w.syncStack, w.topRoot, w.expectRoot) := rfl

theorem view_run (w : Watch) (t i : Nat) (dc : Bool) (r : Recv) :
    g1view (watchEvent w (.run t i dc r)) =
      (w.lastYield.filter (fun p => p.1 != t), w.syncStack, w.topRoot, w.expectRoot) := rfl

theorem view_yield (w : Watch) (t i : Nat) (y : RY) :
    g1view (watchEvent w (.yield t i y)) = (insertKV w.lastYield t (i, y), w.syncStack, w.topRoot, w.expectRoot) := rfl

theorem view_syncE (w : Watch) (t f : Nat) :
    g1view (watchEvent w (.syncE t f)) = (w.lastYield, (t, f) :: w.syncStack, w.topRoot, w.expectRoot) := rfl

theorem view_syncX (w : Watch) (t f : Nat) (o : Outcome) :
    g1view (watchEvent w (.syncX t f o)) = (w.lastYield, w.syncStack.erase (t, f), w.topRoot, w.expectRoot) := rfl

theorem view_root (w : Watch) (i : Nat) (cv : Conv) (f : Nat) (cr : Option Nat) :
    g1view (watchEvent (watchEvent w (.top i cv)) (.new f (.task cr))) = (w.lastYield, w.syncStack, some f, false) := by
  simp [watchEvent, g1view]

/-! ### synchronous calls -/

theorem G1.emit_syncE {s : State} (t f : Nat) (hn : Named s t f) (h : G1 c s) : G1 c (s.emit (.syncE t f)) := by
  have hv := view_syncE (W s) t f
  have hw : W (s.emit (.syncE t f)) = watchEvent (W s) (.syncE t f) := rfl
  simp only [g1view, Prod.mk.injEq] at hv
  obtain ⟨v1, v2, v3, v4⟩ := hv
  refine ⟨⟨h.acc, rfl⟩, h.dq, ?_, ?_, ?_, ?_, ?_⟩
  · intro p d hp hc hd hdc; rw [hw, v1]; exact h.aw p d hp hc hd hdc
  · intro p i y d hl hd; rw [hw, v1] at hl; exact h.lyn p i y d hl hd
  · intro p g hm
    rw [hw, v2] at hm
    rcases List.mem_cons.1 hm with e | hm
    · cases e; exact hn
    · exact h.sn p g hm
  · intro r hr; rw [hw, v3] at hr; exact h.rn r hr
  · rw [hw, v4]; exact h.xr

theorem G1.emit_syncX {s : State} (t f : Nat) (o : Outcome) (h : G1 c s) : G1 c (s.emit (.syncX t f o)) := by
  have hv := view_syncX (W s) t f o
  have hw : W (s.emit (.syncX t f o)) = watchEvent (W s) (.syncX t f o) := rfl
  simp only [g1view, Prod.mk.injEq] at hv
  obtain ⟨v1, v2, v3, v4⟩ := hv
  refine ⟨⟨h.acc, rfl⟩, h.dq, ?_, ?_, ?_, ?_, ?_⟩
  · intro p d hp hc hd hdc; rw [hw, v1]; exact h.aw p d hp hc hd hdc
  · intro p i y d hl hd; rw [hw, v1] at hl; exact h.lyn p i y d hl hd
  · intro p g hm
    rw [hw, v2] at hm
    exact h.sn p g (List.mem_of_mem_erase hm)
  · intro r hr; rw [hw, v3] at hr; exact h.rn r hr
  · rw [hw, v4]; exact h.xr

/-! ### a task creates a future -/

/-- the task appends the new future `f` to its `own` list -/
theorem G1.updTask_own {s : State} (t : Nat) (g : TaskSt → TaskSt) (f : Nat)
    (hp : ∀ ts, (g ts).pending = ts.pending) (hd : ∀ ts, (g ts).deps = ts.deps) (hi : ∀ ts, (g ts).inh = ts.inh)
    (ho : ∀ ts, (g ts).own = ts.own ++ [f]) (hf : ∀ r, (W s).topRoot = some r → f ≠ r) (h : G1 c s) :
    G1 c (s.updTask t g) := by
  have hfw : ∀ x y, Named s x y → Named (s.updTask t g) x y := by
    intro x y hn
    unfold Named at hn ⊢
    rw [task_updTask]
    split
    · next hc =>
      rw [ho, hi, ← hc.1]
      rcases hn with hn | hn
      · exact .inl (List.mem_append_left _ hn)
      · exact .inr hn
    · exact hn
  have hbw : ∀ x y, Named (s.updTask t g) x y → Named s x y ∨ y = f := by
    intro x y hn
    unfold Named at hn ⊢
    rw [task_updTask] at hn
    split at hn
    · next hc =>
      rw [ho, hi, ← hc.1] at hn
      rcases hn with hn | hn
      · rcases List.mem_append.1 hn with hn | hn
        · exact .inl (.inl hn)
        · exact .inr (by simpa using hn)
      · exact .inl (.inr hn)
    · exact .inl hn
  have hpd : ∀ p, ((s.updTask t g).task p).pending = (s.task p).pending ∧ ((s.updTask t g).task p).deps = (s.task p).deps := by
    intro p
    rw [task_updTask]
    split
    · next hc => rw [hc.1]; exact ⟨hp _, hd _⟩
    · exact ⟨rfl, rfl⟩
  refine ⟨h.acc, ?_, ?_, ?_, ?_, ?_, h.xr⟩
  · intro p d hpp hdd
    rw [(hpd p).1] at hpp; rw [(hpd p).2] at hdd; rw [P2.computed_updTask]
    exact h.dq p d hpp hdd
  · intro p d hpp hc hdd hdc
    rw [(hpd p).1] at hpp; rw [(hpd p).2] at hdd; rw [P2.computed_updTask] at hc hdc
    exact h.aw p d hpp hc hdd hdc
  · intro p i y d hl hdd; exact hfw _ _ (h.lyn p i y d hl hdd)
  · intro p f' hm; exact hfw _ _ (h.sn p f' hm)
  · intro r hr
    obtain ⟨h1, h2⟩ := h.rn r hr
    refine ⟨by simpa using h1, fun x y hn => ?_⟩
    rcases hbw x y hn with hn | hn
    · exact h2 x y hn
    · rw [hn]; exact hf r hr

/-! ### a future is computed -/

/-- the abstract form of `set_value` / `set_error` on future `t`: a `done` event, `t` computed, its dependencies
    dropped; nothing else changes -/
theorem G1.of_done {s s' : State} (t : Nat) (o : Outcome) (h : G1 c s) (htr : s'.trace = .done t o :: s.trace)
    (hlen : s'.futs.length = s.futs.length) (hc : ∀ f, s.computed f = true → s'.computed f = true)
    (hct : ∀ f, f ≠ t → s'.computed f = s.computed f) (hctt : t < s.futs.length → s'.computed t = true)
    (ho : ∀ p, p ≠ t → TK (s.task p) (s'.task p))
    (htt : (s'.task t).deps = [] ∧ (s'.task t).own = (s.task t).own ∧ (s'.task t).inh = (s.task t).inh) :
    G1 c s' := by
  have hw : W s' = watchEvent (W s) (.done t o) := by simp only [W, htr, P13.obs_cons]
  have hv := view_done (W s) t o
  simp only [g1view, Prod.mk.injEq] at hv
  obtain ⟨v1, v2, v3, v4⟩ := hv
  have hn : ∀ x y, Named s' x y ↔ Named s x y := by
    intro x y
    unfold Named
    by_cases hx : x = t
    · subst hx; rw [htt.2.1, htt.2.2]
    · rw [(ho x hx).own, (ho x hx).inh]
  have hcb : ∀ f, s'.computed f = false → s.computed f = false := by
    intro f hf
    cases hs : s.computed f with
    | false => rfl
    | true => rw [hc f hs] at hf; cases hf
  refine ⟨by rw [htr]; exact ⟨h.acc, rfl⟩, ?_, ?_, ?_, ?_, ?_, by rw [hw, v4]; exact h.xr⟩
  · intro p d hp hd
    by_cases hpt : p = t
    · subst hpt; rw [htt.1] at hd; cases hd
    · rw [(ho p hpt).pending] at hp; rw [(ho p hpt).deps] at hd
      exact hc d (h.dq p d hp hd)
  · intro p d hp hcp hd hdc
    by_cases hpt : p = t
    · subst hpt; rw [htt.1] at hd; cases hd
    · rw [(ho p hpt).pending] at hp; rw [(ho p hpt).deps] at hd; rw [hct p hpt] at hcp
      obtain ⟨i, y, hl, hy⟩ := h.aw p d hp hcp hd (hcb d hdc)
      exact ⟨i, y, by rw [hw, v1, P14.lookup_filter_ne _ _ _ hpt]; exact hl, hy⟩
  · intro p i y d hl hd
    rw [hw, v1] at hl
    by_cases hpt : p = t
    · subst hpt; rw [lookup_filter_self] at hl; cases hl
    · rw [P14.lookup_filter_ne _ _ _ hpt] at hl
      exact (hn p d).2 (h.lyn p i y d hl hd)
  · intro p f hm
    rw [hw, v2] at hm
    exact (hn p f).2 (h.sn p f hm)
  · intro r hr
    rw [hw, v3] at hr
    obtain ⟨h1, h2⟩ := h.rn r hr
    exact ⟨by rw [hlen]; exact h1, fun x y hxy => h2 x y ((hn x y).1 hxy)⟩

theorem computed_complete (s : State) (f g : Nat) (o : Outcome) :
    (s.complete f o).computed g = if g = f ∧ f < s.futs.length then true else s.computed g := by
  unfold State.computed; rw [P2.out_complete]; split <;> rfl

theorem task_complete_ne (s : State) (f g : Nat) (o : Outcome) (h : g ≠ f) : (s.complete f o).task g = s.task g :=
  P14.task_complete_ne s f g o h

theorem task_complete_self (s : State) (f : Nat) (o : Outcome) :
    ((s.complete f o).task f).deps = [] ∧ ((s.complete f o).task f).own = (s.task f).own ∧
      ((s.complete f o).task f).inh = (s.task f).inh := by
  unfold State.task
  rw [P2.fut_complete]
  by_cases hf : f < s.futs.length
  · rw [if_pos ⟨rfl, hf⟩]
    refine ⟨rfl, ?_, ?_⟩ <;> (dsimp only; split <;> rfl)
  · rw [if_neg (fun h => hf h.2)]
    rw [P2.fut_default_of_le s f (by omega)]
    exact ⟨rfl, rfl, rfl⟩

/-- the task update `g` (which keeps `own` and `inh`) followed by the completion of the task -/
theorem G1.finish {s : State} (t : Nat) (o : Outcome) (g : TaskSt → TaskSt) (ho : ∀ ts, (g ts).own = ts.own)
    (hi : ∀ ts, (g ts).inh = ts.inh) (h : G1 c s) : G1 c ((s.updTask t g).complete t o) := by
  refine h.of_done t o rfl (by simp [State.complete]) ?_ ?_ ?_ ?_ ?_
  · intro f hf
    rw [computed_complete]; split
    · rfl
    · rw [P2.computed_updTask]; exact hf
  · intro f hf
    rw [computed_complete, if_neg (fun hc => hf hc.1), P2.computed_updTask]
  · intro ht
    simp [computed_complete, ht]
  · intro p hp
    rw [task_complete_ne _ _ _ _ hp, task_updTask, if_neg (fun hc => hp hc.1)]
    exact TK.refl _
  · obtain ⟨h1, h2, h3⟩ := task_complete_self (s.updTask t g) t o
    refine ⟨h1, ?_, ?_⟩
    · rw [h2, task_updTask]; split
      · exact ho _
      · rfl
    · rw [h3, task_updTask]; split
      · exact hi _
      · rfl

theorem G1.complete {s : State} (f : Nat) (o : Outcome) (h : G1 c s) : G1 c (s.complete f o) := by
  refine h.of_done f o rfl (by simp [State.complete]) ?_ ?_ ?_ ?_ (task_complete_self s f o)
  · intro g hg
    rw [computed_complete]; split
    · rfl
    · exact hg
  · intro g hg
    rw [computed_complete, if_neg (fun hc => hg hc.1)]
  · intro ht
    simp [computed_complete, ht]
  · intro p hp
    rw [task_complete_ne _ _ _ _ hp]
    exact TK.refl _


/-! ### a future is allocated -/

theorem task_alloc (s : State) (x : Fut) (nk : NewKind) (f : Nat) :
    (s.alloc x nk).1.task f = if f = s.futs.length then x.ts else s.task f := P14.task_alloc s x nk f

theorem computed_alloc (s : State) (x : Fut) (nk : NewKind) (f : Nat) :
    (s.alloc x nk).1.computed f = if f = s.futs.length then x.out.isSome else s.computed f := by
  unfold State.computed; rw [P14.out_alloc]; split <;> rfl

theorem computed_default (s : State) (f : Nat) (h : s.futs.length ≤ f) : s.computed f = false := by
  unfold State.computed State.out; rw [P2.fut_default_of_le s f h]; rfl

theorem task_default (s : State) (f : Nat) (h : s.futs.length ≤ f) : s.task f = {} := by
  unfold State.task; rw [P2.fut_default_of_le s f h]

theorem not_named_default (s : State) (x y : Nat) (h : s.futs.length ≤ x) : ¬ Named s x y := by
  unfold Named; rw [task_default s x h]; rintro (h | h) <;> cases h

/-- the abstract form of an allocation that is not the root of a top-level computation: the heap grows by a future
    without dependencies and created futures, whose inherited futures somebody can name -/
theorem G1.of_alloc {s s' : State} (h : G1 c s) (hacc : P13.Acc checkRead c s'.trace)
    (hv : g1view (W s') = g1view (W s)) (hlen : s'.futs.length = s.futs.length + 1)
    (hcomp : ∀ f, f ≠ s.futs.length → s'.computed f = s.computed f)
    (ht : ∀ p, p ≠ s.futs.length → s'.task p = s.task p)
    (hd : (s'.task s.futs.length).deps = []) (ho : (s'.task s.futs.length).own = [])
    (hi : ∀ y ∈ (s'.task s.futs.length).inh, ∃ u, Named s u y) : G1 c s' := by
  simp only [g1view, Prod.mk.injEq] at hv
  obtain ⟨v1, v2, v3, v4⟩ := hv
  have hold : ∀ x y, Named s x y → Named s' x y := by
    intro x y hn
    have hx : x ≠ s.futs.length := fun e => not_named_default s x y (by omega) hn
    unfold Named at hn ⊢; rw [ht x hx]; exact hn
  have hcd : ∀ d, s.computed d = true → s'.computed d = true := by
    intro d hd'
    have : d ≠ s.futs.length := fun e => by rw [computed_default s d (by omega)] at hd'; cases hd'
    rw [hcomp d this]; exact hd'
  have hcb : ∀ d, s'.computed d = false → s.computed d = false := by
    intro d hd'
    by_cases e : d = s.futs.length
    · exact computed_default s d (by omega)
    · rw [← hcomp d e]; exact hd'
  refine ⟨hacc, ?_, ?_, ?_, ?_, ?_, v4.trans h.xr⟩
  · intro p d hp hdd
    by_cases e : p = s.futs.length
    · subst e; rw [hd] at hdd; cases hdd
    · rw [ht p e] at hp hdd; exact hcd d (h.dq p d hp hdd)
  · intro p d hp hcp hdd hdc
    by_cases e : p = s.futs.length
    · subst e; rw [hd] at hdd; cases hdd
    · rw [ht p e] at hp hdd; rw [hcomp p e] at hcp; rw [v1]
      exact h.aw p d hp hcp hdd (hcb d hdc)
  · intro p i y d hl hdd; rw [v1] at hl; exact hold _ _ (h.lyn p i y d hl hdd)
  · intro p f hm; rw [v2] at hm; exact hold _ _ (h.sn p f hm)
  · intro r hr
    rw [v3] at hr
    obtain ⟨h1, h2⟩ := h.rn r hr
    refine ⟨by omega, fun x y hn => ?_⟩
    by_cases e : x = s.futs.length
    · subst e
      unfold Named at hn
      rw [ho] at hn
      rcases hn with hn | hn
      · cases hn
      · obtain ⟨u, hu⟩ := hi y hn
        exact h2 u y hu
    · unfold Named at hn; rw [ht x e] at hn; exact h2 x y hn

theorem G1.alloc {s : State} (x : Fut) (nk : NewKind) (hd : x.ts.deps = []) (ho : x.ts.own = [])
    (hi : ∀ y ∈ x.ts.inh, ∃ u, Named s u y) (h : G1 c s) : G1 c (s.alloc x nk).1 := by
  refine h.of_alloc ⟨h.acc, rfl⟩ (view_new _ _ _ h.xr) (by simp) ?_ ?_ ?_ ?_ ?_
  · intro f hf; rw [computed_alloc, if_neg hf]
  · intro p hp; rw [task_alloc, if_neg hp]
  · rw [task_alloc, if_pos rfl]; exact hd
  · rw [task_alloc, if_pos rfl]; exact ho
  · rw [task_alloc, if_pos rfl]; exact hi

/-- the root task of a top-level computation: the `top` event, then the allocation -/
theorem G1.root {s : State} (i : Nat) (cv : Conv) (x : Fut) (cr : Option Nat) (hd : x.ts.deps = [])
    (ho : x.ts.own = []) (hi : x.ts.inh = []) (hb : ∀ u y, Named s u y → y < s.futs.length) (h : G1 c s) :
    G1 c ((s.emit (.top i cv)).alloc x (.task cr)).1 := by
  have hw : W ((s.emit (.top i cv)).alloc x (.task cr)).1 =
      watchEvent (watchEvent (W s) (.top i cv)) (.new s.futs.length (.task cr)) := rfl
  have hv := view_root (W s) i cv s.futs.length cr
  simp only [g1view, Prod.mk.injEq] at hv
  obtain ⟨v1, v2, v3, v4⟩ := hv
  have hold : ∀ u y, Named s u y → Named ((s.emit (.top i cv)).alloc x (.task cr)).1 u y := by
    intro u y hn
    have hx : u ≠ s.futs.length := fun e => not_named_default s u y (by omega) hn
    unfold Named at hn ⊢
    rw [task_alloc, if_neg (by simpa using hx)]; exact hn
  have hback : ∀ u y, Named ((s.emit (.top i cv)).alloc x (.task cr)).1 u y → Named s u y := by
    intro u y hn
    unfold Named at hn ⊢
    rw [task_alloc] at hn
    split at hn
    · rw [ho, hi] at hn; rcases hn with hn | hn <;> cases hn
    · exact hn
  refine ⟨⟨⟨h.acc, rfl⟩, rfl⟩, ?_, ?_, ?_, ?_, ?_, by rw [hw, v4]⟩
  · intro p d hp hdd
    rw [task_alloc] at hp hdd
    split at hp
    · rw [if_pos (by assumption), hd] at hdd; cases hdd
    · rw [if_neg (by assumption)] at hdd
      have := h.dq p d hp hdd
      rw [computed_alloc, if_neg]
      · exact this
      · intro e
        rw [computed_default s d (by rw [e]; exact Nat.le_refl _)] at this; cases this
  · intro p d hp hcp hdd hdc
    rw [task_alloc] at hp hdd
    split at hp
    · rw [if_pos (by assumption), hd] at hdd; cases hdd
    · next hne =>
      rw [if_neg hne] at hdd
      rw [computed_alloc, if_neg hne] at hcp
      have hdc' : s.computed d = false := by
        rw [computed_alloc] at hdc
        split at hdc
        · next e => exact computed_default s d (by rw [e]; exact Nat.le_refl _)
        · exact hdc
      rw [hw, v1]
      exact h.aw p d hp hcp hdd hdc'
  · intro p j y d hl hdd; rw [hw, v1] at hl; exact hold _ _ (h.lyn p j y d hl hdd)
  · intro p f hm; rw [hw, v2] at hm; exact hold _ _ (h.sn p f hm)
  · intro r hr
    rw [hw, v3] at hr
    cases hr
    refine ⟨by simp, fun u y hn => ?_⟩
    have := hb u y (hback u y hn)
    omega

/-! ### a task is entered and suspended -/

/-- the task is (re)entered: it is no longer suspended, the observer forgets its last yield -/
theorem G1.run {s : State} (t i : Nat) (dc : Bool) (r : Recv) (g : TaskSt → TaskSt)
    (hp : ∀ ts, (g ts).pending = false) (ho : ∀ ts, (g ts).own = ts.own) (hi : ∀ ts, (g ts).inh = ts.inh)
    (hd : ∀ d ∈ (g (s.task t)).deps, s.computed d = true) (h : G1 c s) :
    G1 c ((s.updTask t g).emit (.run t i dc r)) := by
  have hw : W ((s.updTask t g).emit (.run t i dc r)) = watchEvent (W s) (.run t i dc r) := rfl
  have hv := view_run (W s) t i dc r
  simp only [g1view, Prod.mk.injEq] at hv
  obtain ⟨v1, v2, v3, v4⟩ := hv
  have hn : ∀ x y, Named ((s.updTask t g).emit (.run t i dc r)) x y ↔ Named s x y := by
    intro x y
    unfold Named
    rw [P2.emit_task, task_updTask]
    split
    · next hc => rw [ho, hi, hc.1]
    · rfl
  refine ⟨⟨h.acc, rfl⟩, ?_, ?_, ?_, ?_, ?_, by rw [hw, v4]; exact h.xr⟩
  · intro p d hpp hdd
    rw [P2.emit_task, task_updTask] at hpp hdd
    rw [P2.emit_computed, P2.computed_updTask]
    split at hpp
    · next hc => rw [if_pos hc] at hdd; exact hd d hdd
    · next hc => rw [if_neg hc] at hdd; exact h.dq p d hpp hdd
  · intro p d hpp hcp hdd hdc
    rw [P2.emit_task, task_updTask] at hpp hdd
    rw [P2.emit_computed, P2.computed_updTask] at hcp hdc
    split at hpp
    · rw [hp] at hpp; cases hpp
    · next hc =>
      rw [if_neg hc] at hdd
      by_cases hpt : p = t
      · subst hpt
        have : s.futs.length ≤ p := Nat.le_of_not_lt (fun hl => hc ⟨rfl, hl⟩)
        rw [task_default s p this] at hdd; cases hdd
      · obtain ⟨j, y, hl, hy⟩ := h.aw p d hpp hcp hdd hdc
        exact ⟨j, y, by rw [hw, v1, P14.lookup_filter_ne _ _ _ hpt]; exact hl, hy⟩
  · intro p j y d hl hdd
    rw [hw, v1] at hl
    by_cases hpt : p = t
    · subst hpt; rw [lookup_filter_self] at hl; cases hl
    · rw [P14.lookup_filter_ne _ _ _ hpt] at hl
      exact (hn p d).2 (h.lyn p j y d hl hdd)
  · intro p f hm; rw [hw, v2] at hm; exact (hn p f).2 (h.sn p f hm)
  · intro r' hr
    rw [hw, v3] at hr
    obtain ⟨h1, h2⟩ := h.rn r' hr
    exact ⟨by simpa using h1, fun x y hxy => h2 x y ((hn x y).1 hxy)⟩

/-- the running task yields: the observer records the structure -/
theorem G1.yield {s : State} (t i : Nat) (ry : RY) (g : TaskSt → TaskSt) (hpt : ∀ ts, (g ts).pending = true)
    (ho : ∀ ts, (g ts).own = ts.own) (hi : ∀ ts, (g ts).inh = ts.inh)
    (hd : ∀ d ∈ (g (s.task t)).deps, d ∈ (s.task t).deps ∨ d ∈ ry.leaves)
    (hrun : (s.task t).pending = false) (hn : ∀ d ∈ ry.leaves, Named s t d) (h : G1 c s) :
    G1 c ((s.emit (.yield t i ry)).updTask t g) := by
  have hw : W ((s.emit (.yield t i ry)).updTask t g) = watchEvent (W s) (.yield t i ry) := rfl
  have hv := view_yield (W s) t i ry
  simp only [g1view, Prod.mk.injEq] at hv
  obtain ⟨v1, v2, v3, v4⟩ := hv
  have ht : ∀ p, ((s.emit (.yield t i ry)).updTask t g).task p =
      if p = t ∧ t < s.futs.length then g (s.task t) else s.task p := fun p => task_updTask _ t p g
  have hnm : ∀ x y, Named ((s.emit (.yield t i ry)).updTask t g) x y ↔ Named s x y := by
    intro x y
    unfold Named
    rw [ht]
    split
    · next hc => rw [ho, hi, hc.1]
    · rfl
  refine ⟨⟨h.acc, rfl⟩, ?_, ?_, ?_, ?_, ?_, by rw [hw, v4]; exact h.xr⟩
  · intro p d hpp hdd
    rw [ht] at hpp hdd
    rw [P2.computed_updTask, P2.emit_computed]
    split at hpp
    · rw [hpt] at hpp; cases hpp
    · next hc => rw [if_neg hc] at hdd; exact h.dq p d hpp hdd
  · intro p d hpp hcp hdd hdc
    rw [ht] at hpp hdd
    rw [P2.computed_updTask, P2.emit_computed] at hcp hdc
    by_cases hc : p = t ∧ t < s.futs.length
    · rw [if_pos hc] at hdd
      rcases hd d hdd with h1 | h1
      · rw [h.dq t d hrun h1] at hdc; cases hdc
      · exact ⟨i, ry, by rw [hw, v1, hc.1, P14.lookup_insertKV_self], h1⟩
    · rw [if_neg hc] at hpp hdd
      by_cases hpe : p = t
      · subst hpe
        have : s.futs.length ≤ p := Nat.le_of_not_lt (fun hl => hc ⟨rfl, hl⟩)
        rw [task_default s p this] at hdd; cases hdd
      · obtain ⟨j, y, hl, hy⟩ := h.aw p d hpp hcp hdd hdc
        exact ⟨j, y, by rw [hw, v1, P14.lookup_insertKV_ne _ _ _ _ hpe]; exact hl, hy⟩
  · intro p j y d hl hdd
    rw [hw, v1] at hl
    by_cases hpe : p = t
    · subst hpe
      rw [P14.lookup_insertKV_self] at hl
      cases hl
      exact (hnm p d).2 (hn d hdd)
    · rw [P14.lookup_insertKV_ne _ _ _ _ hpe] at hl
      exact (hnm p d).2 (h.lyn p j y d hl hdd)
  · intro p f hm; rw [hw, v2] at hm; exact (hnm p f).2 (h.sn p f hm)
  · intro r' hr
    rw [hw, v3] at hr
    obtain ⟨h1, h2⟩ := h.rn r' hr
    exact ⟨by simpa using h1, fun x y hxy => h2 x y ((hnm x y).1 hxy)⟩

end AsynqModel.Core.P17
