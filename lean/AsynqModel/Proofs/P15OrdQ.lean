import AsynqModel.Proofs.P15Ord1
import AsynqModel.Proofs.P15Rel
import AsynqModel.Proofs.P10Noise
/-!
  P15, part 9 (start-order clause): the heap-and-trace invariant `Q` behind the start-order clause, the frame
  relation `FQ` of the helpers that do not touch it, and the primitive operations that do.

  `Q s` (only `futs` and `trace` matter; `W = wOf s.trace`):
  * `q1`  a task that has not started has no dependencies;
  * `q2`  a computed task has started;
  * `q3`, `q4`, `q10`, `q11`  ids the observer holds for tasks are tasks of the machine;
  * `q5`  every dependency of `v` is a mention by `v`;  `q6`  the target of an open synchronous call of `v` too;
  * `q7`  the dependencies of a suspended task end with `extract_futures` of what it yielded last;
  * `q8`  every start-order obligation `(u, l)` is finished (`u` computed, or all of `l` started) or current: `u` is
          suspended on the very yield and `l` is a filter of the de-duplicated leaves outside dicts;
  * `q9`  a mention `(t, v)` of an unstarted task `t` is live: `v` is suspended with `t` among its dependencies, or in
          the middle of the synchronous call `t.value()`.
-/
namespace AsynqModel.Core.P15
open AsynqModel.Core AsynqModel.Core.Spec AsynqModel.Core.P2 AsynqModel.Core.P14

def isSyncret : Body → Bool
  | .syncret _ _ _ => true
  | _ => false

theorem isSyncret_false {b : Body} (h : isSyncret b = false) (f : Nat) (k hh : Body) : b ≠ .syncret f k hh := by
  intro e; rw [e] at h; cases h

/-- the obligation `(u, l)` belongs to the yield `u` is suspended on -/
def Cur (s : State) (u : Nat) (l : List Nat) : Prop :=
  (s.task u).pending = true ∧ (s.task u).started = true ∧ s.out u = none ∧
  (∃ P : Nat → Bool, l = (orderedLeaves (s.task u).lastY).eraseDups.filter P) ∧
  (∀ x ∈ l, x ∉ dictLeaves (s.task u).lastY)

structure Q (s : State) : Prop where
  q1 : ∀ t, (s.task t).started = false → (s.task t).deps = []
  q2 : ∀ t, (s.fut t).kind = .task → s.out t ≠ none → (s.task t).started = true
  q3 : ∀ f c, (wOf s.trace).kinds.lookup f = some (.task c) → (s.fut f).kind = .task
  q4 : ∀ u l, (u, l) ∈ (wOf s.trace).orderObl → ∀ a ∈ l, (s.fut a).kind = .task
  q5 : ∀ v d, d ∈ (s.task v).deps → (d, v) ∈ (wOf s.trace).mentions
  q6 : ∀ v f k h, (s.task v).body = .syncret f k h → (f, v) ∈ (wOf s.trace).mentions
  q7 : ∀ t, (s.task t).pending = true → (s.task t).started = true → s.out t = none →
    ∃ pre, (s.task t).deps = pre ++ extractFutures (s.task t).lastY
  q8 : ∀ u l, (u, l) ∈ (wOf s.trace).orderObl →
    s.out u ≠ none ∨ (∀ x ∈ l, (s.task x).started = true) ∨ Cur s u l
  q9 : ∀ t v, (t, v) ∈ (wOf s.trace).mentions → (s.fut t).kind = .task →
    (s.task t).started = true ∨
    (s.out v = none ∧ (s.task v).pending = true ∧ t ∈ (s.task v).deps) ∨
    (s.out v = none ∧ (s.task v).pending = false ∧ ∃ k h, (s.task v).body = .syncret t k h)
  q10 : ∀ t v, (t, v) ∈ (wOf s.trace).mentions → (s.fut v).kind = .task
  q11 : ∀ u l, (u, l) ∈ (wOf s.trace).orderObl → (s.fut u).kind = .task
  q12 : ∀ t v, (t, v) ∈ (wOf s.trace).mentions → t < s.futs.length

theorem Q_init (cfg : Cfg) (tops : List (Conv × Body)) (choices : List (Nat × Nat)) :
    Q (initState cfg tops choices) := by
  have ht : ∀ t, (initState cfg tops choices).task t = {} := task_init cfg tops choices
  have hf : ∀ t, (initState cfg tops choices).fut t = {} := fun t => by simp [initState, State.fut]
  have hw : wOf (initState cfg tops choices).trace = {} := rfl
  refine ⟨fun t _ => ?_, fun t hk => ?_, fun f c h => ?_, fun u l h => ?_, fun v d h => ?_,
    fun v f k h hb => ?_, fun t _ hs => ?_, fun u l h => ?_, fun t v h => ?_, fun t v h => ?_, fun u l h => ?_,
    fun t v h => ?_⟩
  rotate_right
  · rw [hw] at h; cases h
  · rw [ht]
  · rw [hf] at hk; cases hk
  · rw [hw] at h; cases h
  · rw [hw] at h; cases h
  · rw [ht] at h; cases h
  · rw [ht] at hb; cases hb
  · rw [ht] at hs; cases hs
  · rw [hw] at h; cases h
  · rw [hw] at h; cases h
  · rw [hw] at h; cases h
  · rw [hw] at h; cases h

/-! ### the frame relation -/

/-- how a future may change under the helpers that do not advance a task: nothing the invariant reads changes, except
    that a future that is not a task may be completed -/
structure FQ (s s' : State) : Prop where
  tr : ∃ pre, s'.trace = pre ++ s.trace ∧ ∀ e ∈ pre, inertEv e = true
  kind : ∀ f, (s'.fut f).kind = (s.fut f).kind
  ts : ∀ f, (s'.task f).pending = (s.task f).pending ∧ (s'.task f).started = (s.task f).started ∧
    (s'.task f).body = (s.task f).body ∧
    (((s'.task f).lastY = (s.task f).lastY ∧ (s'.task f).deps = (s.task f).deps) ∨
      ((s.fut f).kind ≠ .task ∧ (s'.task f).lastY = .none ∧ (s'.task f).deps = []))
  out : ∀ f, s'.out f = s.out f ∨ ((s.fut f).kind ≠ .task ∧ s.out f = none)
  len : s'.futs.length = s.futs.length

theorem FQ.refl (s : State) : FQ s s :=
  ⟨⟨[], rfl, by simp⟩, fun _ => rfl, fun _ => ⟨rfl, rfl, rfl, Or.inl ⟨rfl, rfl⟩⟩, fun _ => Or.inl rfl, rfl⟩

theorem FQ.trans {a b c : State} (h1 : FQ a b) (h2 : FQ b c) : FQ a c := by
  obtain ⟨p1, e1, i1⟩ := h1.tr
  obtain ⟨p2, e2, i2⟩ := h2.tr
  refine ⟨⟨p2 ++ p1, by rw [e2, e1, List.append_assoc], ?_⟩, fun f => (h2.kind f).trans (h1.kind f), fun f => ?_,
    fun f => ?_, h2.len.trans h1.len⟩
  · intro e he
    rcases List.mem_append.1 he with h | h
    · exact i2 e h
    · exact i1 e h
  · obtain ⟨a1, a2, a3, a4⟩ := h1.ts f
    obtain ⟨b1, b2, b3, b4⟩ := h2.ts f
    refine ⟨b1.trans a1, b2.trans a2, b3.trans a3, ?_⟩
    rcases b4 with ⟨c1, c2⟩ | ⟨c0, c1, c2⟩
    · rcases a4 with ⟨d1, d2⟩ | ⟨d0, d1, d2⟩
      · exact Or.inl ⟨c1.trans d1, c2.trans d2⟩
      · exact Or.inr ⟨d0, c1.trans d1, c2.trans d2⟩
    · exact Or.inr ⟨by rw [← h1.kind f]; exact c0, c1, c2⟩
  · rcases h2.out f with c | ⟨c0, c1⟩
    · rcases h1.out f with d | ⟨d0, d1⟩
      · exact Or.inl (c.trans d)
      · exact Or.inr ⟨d0, d1⟩
    · rcases h1.out f with d | ⟨d0, d1⟩
      · exact Or.inr ⟨by rw [← h1.kind f]; exact c0, by rw [← d]; exact c1⟩
      · exact Or.inr ⟨d0, d1⟩

/-- the fields of the watch the invariant reads are the same after inert events -/
theorem wOf_inert (pre tr : List Event) (h : ∀ e ∈ pre, inertEv e = true) :
    (wOf (pre ++ tr)).kinds = (wOf tr).kinds ∧ (wOf (pre ++ tr)).orderObl = (wOf tr).orderObl ∧
    (wOf (pre ++ tr)).mentions = (wOf tr).mentions := by
  induction pre with
  | nil => exact ⟨rfl, rfl, rfl⟩
  | cons e pre ih =>
    have hi := ih (fun e' he' => h e' (List.mem_cons_of_mem _ he'))
    have he := h e List.mem_cons_self
    rw [List.cons_append, wOf_cons, inert_kinds _ _ he, inert_orderObl _ _ he, inert_mentions _ _ he]
    exact hi

theorem Q_of_FQ {s s' : State} (f : FQ s s') (h : Q s) : Q s' := by
  obtain ⟨pre, etr, hin⟩ := f.tr
  obtain ⟨wk, wo, wm⟩ := wOf_inert pre s.trace hin
  rw [← etr] at wk wo wm
  have hout : ∀ t, (s.fut t).kind = .task → s'.out t = s.out t := fun t hk => by
    rcases f.out t with e | ⟨e, _⟩
    · exact e
    · exact absurd hk e
  have hld : ∀ t, (s.fut t).kind = .task →
      (s'.task t).lastY = (s.task t).lastY ∧ (s'.task t).deps = (s.task t).deps := fun t hk => by
    rcases (f.ts t).2.2.2 with e | ⟨e, _⟩
    · exact e
    · exact absurd hk e
  refine ⟨fun t hs => ?_, fun t hk ho => ?_, fun g c hl => ?_, fun u l hm a ha => ?_, fun v d hd => ?_,
    fun v g k hh hb => ?_, fun t hp hs ho => ?_, fun u l hm => ?_, fun t v hm hk => ?_, fun t v hm => ?_,
    fun u l hm => ?_, fun t v hm => ?_⟩
  rotate_right
  · rw [wm] at hm; rw [f.len]; exact h.q12 t v hm
  · obtain ⟨_, a2, _, a4⟩ := f.ts t
    rw [a2] at hs
    rcases a4 with ⟨_, c2⟩ | ⟨_, _, c2⟩
    · rw [c2]; exact h.q1 t hs
    · exact c2
  · rw [f.kind] at hk
    rw [hout t hk] at ho
    rw [(f.ts t).2.1]; exact h.q2 t hk ho
  · rw [wk] at hl; rw [f.kind]; exact h.q3 g c hl
  · rw [wo] at hm; rw [f.kind]; exact h.q4 u l hm a ha
  · rw [wm]
    rcases (f.ts v).2.2.2 with ⟨_, c2⟩ | ⟨_, _, c2⟩
    · rw [c2] at hd; exact h.q5 v d hd
    · rw [c2] at hd; cases hd
  · rw [wm]; rw [(f.ts v).2.2.1] at hb; exact h.q6 v g k hh hb
  · obtain ⟨a1, a2, _, a4⟩ := f.ts t
    rw [a1] at hp; rw [a2] at hs
    rcases a4 with ⟨c1, c2⟩ | ⟨_, c1, c2⟩
    · rcases f.out t with e | ⟨_, e⟩
      · rw [e] at ho; rw [c1, c2]; exact h.q7 t hp hs ho
      · rw [c1, c2]; exact h.q7 t hp hs e
    · exact ⟨[], by rw [c1, c2]; rfl⟩
  · rw [wo] at hm
    have hku := h.q11 u l hm
    rcases h.q8 u l hm with h1 | h1 | ⟨c1, c2, c3, c4, c5⟩
    · left; rw [hout u hku]; exact h1
    · right; left; intro x hx; rw [(f.ts x).2.1]; exact h1 x hx
    · right; right
      obtain ⟨a1, a2, _, _⟩ := f.ts u
      obtain ⟨e1, _⟩ := hld u hku
      exact ⟨by rw [a1]; exact c1, by rw [a2]; exact c2, by rw [hout u hku]; exact c3, by rw [e1]; exact c4,
        by rw [e1]; exact c5⟩
  · rw [wm] at hm; rw [f.kind] at hk
    have hkv := h.q10 t v hm
    obtain ⟨a1, _, a3, _⟩ := f.ts v
    obtain ⟨_, e2⟩ := hld v hkv
    rcases h.q9 t v hm hk with h1 | ⟨h1, h2, h3⟩ | ⟨h1, h2, h3⟩
    · left; rw [(f.ts t).2.1]; exact h1
    · right; left; exact ⟨by rw [hout v hkv]; exact h1, by rw [a1]; exact h2, by rw [e2]; exact h3⟩
    · right; right; exact ⟨by rw [hout v hkv]; exact h1, by rw [a1]; exact h2, by rw [a3]; exact h3⟩
  · rw [wm] at hm; rw [f.kind]; exact h.q10 t v hm
  · rw [wo] at hm; rw [f.kind]; exact h.q11 u l hm

/-! ### frame lemmas for the primitive operations -/

theorem FQ_of_eq {s s' : State} (hf : s'.futs = s.futs) (ht : s'.trace = s.trace) : FQ s s' := by
  have e1 : ∀ f, s'.fut f = s.fut f := fun f => by unfold State.fut; rw [hf]
  have e2 : ∀ f, s'.task f = s.task f := fun f => by unfold State.task; rw [e1]
  have e3 : ∀ f, s'.out f = s.out f := fun f => by unfold State.out; rw [e1]
  exact ⟨⟨[], by rw [ht]; rfl, by simp⟩, fun f => by rw [e1], fun f => by rw [e2]; exact ⟨rfl, rfl, rfl, Or.inl ⟨rfl, rfl⟩⟩,
    fun f => Or.inl (e3 f), by rw [hf]⟩

theorem FQ_emit (s : State) (e : Event) (he : inertEv e = true) : FQ s (s.emit e) :=
  ⟨⟨[e], rfl, by simpa using he⟩, fun _ => rfl, fun _ => ⟨rfl, rfl, rfl, Or.inl ⟨rfl, rfl⟩⟩, fun _ => Or.inl rfl, rfl⟩

/-- a task update that keeps the five fields -/
theorem FQ_updTask (s : State) (t : Nat) (g : TaskSt → TaskSt)
    (h1 : ∀ ts, (g ts).pending = ts.pending) (h2 : ∀ ts, (g ts).started = ts.started)
    (h3 : ∀ ts, (g ts).body = ts.body) (h4 : ∀ ts, (g ts).lastY = ts.lastY) (h5 : ∀ ts, (g ts).deps = ts.deps) :
    FQ s (s.updTask t g) := by
  refine ⟨⟨[], rfl, by simp⟩, fun f => kind_updTask s t f g, fun f => ?_, fun f => Or.inl (out_updTask s t f g),
    by simp⟩
  rw [P14.task_updTask]
  split
  · next hc => rw [hc.1, h1, h2, h3, h4, h5]; exact ⟨rfl, rfl, rfl, Or.inl ⟨rfl, rfl⟩⟩
  · exact ⟨rfl, rfl, rfl, Or.inl ⟨rfl, rfl⟩⟩

/-- completion of a future that is not a task -/
theorem FQ_complete (s : State) (f : Nat) (x : Outcome) (hk : (s.fut f).kind ≠ .task) (hn : s.out f = none) :
    FQ s (s.complete f x) := by
  refine ⟨⟨[.done f x], rfl, by simp [inertEv]⟩, fun g => ?_, fun g => ?_, fun g => ?_, by simp [State.complete]⟩
  · rw [fut_complete]; split
    · next hc => rw [hc.1]
    · rfl
  · rw [P10.task_complete]
    split
    · next hc =>
      rw [hc.1]
      refine ⟨?_, ?_, ?_, Or.inr ⟨hk, rfl, rfl⟩⟩ <;> (split <;> rfl)
    · exact ⟨rfl, rfl, rfl, Or.inl ⟨rfl, rfl⟩⟩
  · rw [out_complete]
    split
    · next hc => rw [hc.1]; exact Or.inr ⟨hk, hn⟩
    · exact Or.inl rfl

end AsynqModel.Core.P15
