import AsynqModel.Lib.Asyncio
import AsynqModel.Proofs.Asyncio
/-! C15: HOW a plain synchronous call is refused under asyncio.  For every program the call fails and nothing of the callee
    runs (`bodyA_good`, predicate `syncFailedOk`); that it fails with the RuntimeError "asyncio mode does not support synchronous
    calls" (`syncRefusedOk`, the predicate the observer `spec` uses) holds for programs that make no plain synchronous call of a
    @deduplicate() function (`Prog.noDedupSync`): structural induction over the program. -/
namespace AsynqModel.Asyncio
open AsynqModel.Core (Val)

theorem refusal_of_notDedup {c : Call} (h : (c.kind == Kind.dedup) = false) : refusal c = .syncRefused := by
  simp [refusal, h]

theorem callPre_strict (c : Call) (s : St) : Ext syncRefusedOk [] s (callPre c s) := by
  have hlog : (callPre c s).log =
      (if c.afn then [Ev.start c.label true, Ev.afn c.label] else [Ev.start c.label true]) ++ s.log := by
    unfold callPre
    cases c.afn <;> cases (c.kind == Kind.proxy) <;> simp [enterMode, exitMode, St.emit]
  refine ⟨_, hlog, ?_, by simp⟩
  cases c.afn <;> rfl

mutual
theorem bodyA_strict : ∀ (p : Prog) (gen : Bool) (t : Nat) (env : List Val) (caught : Option Err) (i : Nat) (s : St),
    s.mode = true → p.noDedupSync = true → Ext syncRefusedOk [] s (bodyA gen t env caught i p s).2
  | .ret _, _, _, _, _, _, s, _, _ => by simp only [bodyA]; exact Ext.emit s rfl
  | .res _, _, _, _, _, _, s, _, _ => by simp only [bodyA]; exact Ext.emit s rfl
  | .raise _, _, _, _, _, _, s, _, _ => by simp only [bodyA]; exact Ext.emit s rfl
  | .raiseB _, _, _, _, _, _, s, _, _ => by simp only [bodyA]; exact Ext.emit s rfl
  | .reraise, _, _, _, _, _, s, _, _ => by simp only [bodyA]; exact Ext.emit s rfl
  | .yld hb y k h, gen, t, env, caught, i, s, hm, hn => by
    simp only [Prog.noDedupSync, Bool.and_eq_true] at hn
    unfold bodyA
    cases gen
    · simp only [Bool.not_false, if_true]; exact Ext.emit s rfl
    · have hx := resolveA_strict y s hm hn.1.1
      have h2 := resolveA_mode y s
      rcases hR : resolveA y s with ⟨r, s1⟩
      rw [hR] at hx h2
      simp only at hx h2
      have hm1 : s1.mode = true := by rw [h2, hm]
      cases r with
      | ok v =>
        simp only [Bool.not_true, Bool.false_eq_true, if_false]
        exact ((hx.trans (Ext.emit s1 rfl)).trans
          (bodyA_strict k true t (env ++ [v]) caught (i + 1) _ (by simp [hm1]) hn.1.2)).weaken (by simp)
      | err e =>
        simp only [Bool.not_true, Bool.false_eq_true, if_false]
        split
        · exact (hx.trans (Ext.emit s1 rfl)).weaken (by simp)
        · exact ((hx.trans (Ext.emit s1 rfl)).trans
            (bodyA_strict h true t env (some e) (i + 1) _ (by simp [hm1]) hn.2)).weaken (by simp)
      | esc v => simpa using hx
  | .sync c child k h, gen, t, env, caught, i, s, hm, hn => by
    simp only [Prog.noDedupSync, Bool.and_eq_true, Bool.not_eq_true'] at hn
    have hr : refusal c = .syncRefused := refusal_of_notDedup hn.1.1.1
    unfold bodyA
    simp only [hm, if_true, hr, Err.isBase, Bool.false_eq_true, if_false]
    exact ((Ext.emit s (by simp [syncRefusedOk])).trans
      (bodyA_strict h gen t env (some .syncRefused) i _ (by simp [hm]) hn.2)).weaken (by simp)
theorem resolveA_strict : ∀ (y : Ys) (s : St), s.mode = true → y.noDedupSync = true →
    Ext syncRefusedOk [] s (resolveA y s).2
  | .none, s, _, _ => by simp only [resolveA]; exact Ext.refl _ s
  | .junk, s, _, _ => by simp only [resolveA]; exact Ext.refl _ s
  | .const _, s, _, _ => by simp only [resolveA]; exact Ext.refl _ s
  | .pconst _, s, hm, _ => by
    simp only [resolveA, hm, if_true]
    exact (Ext.refl syncRefusedOk s).logs rfl rfl
  | .task c p, s, hm, hn => by
    simp only [Ys.noDedupSync] at hn
    unfold resolveA
    simp only [hm, if_true]
    rw [callA_eq]
    have hx := bodyA_strict p c.kind.isGen c.label [] none 0 (callPre c s) (by simp) hn
    exact (((callPre_strict c s).trans hx).logs rfl rfl).weaken (by simp)
  | .tup l, s, hm, hn => by
    simp only [Ys.noDedupSync] at hn
    simp only [resolveA]; exact gatherA_strict l s hm hn
  | .lst l, s, hm, hn => by
    simp only [Ys.noDedupSync] at hn
    simp only [resolveA]; exact gatherA_strict l s hm hn
  | .dict _ l, s, hm, hn => by
    simp only [Ys.noDedupSync] at hn
    simp only [resolveA]; exact gatherA_strict l s hm hn
  | .sub y, s, hm, hn => by
    simp only [Ys.noDedupSync] at hn
    simp only [resolveA]; exact resolveA_strict y s hm hn
  | .pval _, s, hm, _ => by
    simp only [resolveA, hm, if_true]; exact Ext.refl _ s
theorem gatherA_strict : ∀ (l : YsL) (s : St), s.mode = true → l.noDedupSync = true →
    Ext syncRefusedOk [] s (gatherA l s).2
  | .nil, s, _, _ => by simp only [gatherA]; exact Ext.refl _ s
  | .cons y l, s, hm, hn => by
    simp only [YsL.noDedupSync, Bool.and_eq_true] at hn
    have hx := resolveA_strict y s hm hn.1
    have hx' := gatherA_strict l { (resolveA y s).2 with mode := s.mode } hm hn.2
    simp only [gatherA]
    exact ((hx.logs rfl rfl).trans (hx'.logs rfl rfl)).weaken (by simp)
end

end AsynqModel.Asyncio
