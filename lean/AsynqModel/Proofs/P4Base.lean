import AsynqModel.Core.Reach
/-!
  P4 (property C01/C02): basic projection lemmas for the primitive state operations, the well-scopedness
  predicate on programs, and the relation `Comp` ("completion move") that covers every operation of the machine
  except the instruction a running task executes on its own task state.
-/
namespace AsynqModel.Core.P4
open AsynqModel.Core

/-! ### projections of the primitive operations -/

@[simp] theorem fut_emit (s : State) (e : Event) (f : Nat) : (s.emit e).fut f = s.fut f := rfl
@[simp] theorem futs_emit (s : State) (e : Event) : (s.emit e).futs = s.futs := rfl
@[simp] theorem cfg_emit (s : State) (e : Event) : (s.emit e).cfg = s.cfg := rfl
@[simp] theorem ctl_emit (s : State) (e : Event) : (s.emit e).ctl = s.ctl := rfl
@[simp] theorem raising_emit (s : State) (e : Event) : (s.emit e).raising = s.raising := rfl
@[simp] theorem batches_emit (s : State) (e : Event) : (s.emit e).batches = s.batches := rfl
@[simp] theorem stuck_emit (s : State) (e : Event) : (s.emit e).stuck = s.stuck := rfl
@[simp] theorem guard_emit (s : State) (e : Event) : (s.emit e).guardFired = s.guardFired := rfl
@[simp] theorem ctxs_emit (s : State) (e : Event) : (s.emit e).ctxs = s.ctxs := rfl
@[simp] theorem active_emit (s : State) (e : Event) : (s.emit e).active = s.active := rfl
@[simp] theorem trace_emit (s : State) (e : Event) : (s.emit e).trace = e :: s.trace := rfl
@[simp] theorem tops_emit (s : State) (e : Event) : (s.emit e).tops = s.tops := rfl
@[simp] theorem topIdx_emit (s : State) (e : Event) : (s.emit e).topIdx = s.topIdx := rfl
@[simp] theorem curTop_emit (s : State) (e : Event) : (s.emit e).curTop = s.curTop := rfl
@[simp] theorem stack_emit (s : State) (e : Event) : (s.emit e).stack = s.stack := rfl
@[simp] theorem sbatches_emit (s : State) (e : Event) : (s.emit e).sbatches = s.sbatches := rfl
@[simp] theorem sv_emit (s : State) (e : Event) : (s.emit e).sv = s.sv := rfl
@[simp] theorem choices_emit (s : State) (e : Event) : (s.emit e).choices = s.choices := rfl

@[simp] theorem stuck_fail (s : State) (m : String) : (s.fail m).stuck = some m := rfl

theorem fut_setFut (s : State) (t : Nat) (x : Fut) (f : Nat) :
    (s.setFut t x).fut f = if f = t ∧ t < s.futs.length then x else s.fut f := by
  simp only [State.fut, State.setFut, List.getD_eq_getElem?_getD, List.getElem?_set]
  by_cases h : t = f
  · subst h; by_cases h2 : t < s.futs.length <;> simp [h2]
  · have : ¬ f = t := fun h' => h h'.symm
    simp [h, this]

@[simp] theorem futs_len_setFut (s : State) (t : Nat) (x : Fut) : (s.setFut t x).futs.length = s.futs.length := by
  simp [State.setFut]
@[simp] theorem cfg_setFut (s : State) (t : Nat) (x : Fut) : (s.setFut t x).cfg = s.cfg := rfl
@[simp] theorem ctl_setFut (s : State) (t : Nat) (x : Fut) : (s.setFut t x).ctl = s.ctl := rfl
@[simp] theorem raising_setFut (s : State) (t : Nat) (x : Fut) : (s.setFut t x).raising = s.raising := rfl
@[simp] theorem batches_setFut (s : State) (t : Nat) (x : Fut) : (s.setFut t x).batches = s.batches := rfl
@[simp] theorem stuck_setFut (s : State) (t : Nat) (x : Fut) : (s.setFut t x).stuck = s.stuck := rfl
@[simp] theorem trace_setFut (s : State) (t : Nat) (x : Fut) : (s.setFut t x).trace = s.trace := rfl
@[simp] theorem ctxs_setFut (s : State) (t : Nat) (x : Fut) : (s.setFut t x).ctxs = s.ctxs := rfl
@[simp] theorem active_setFut (s : State) (t : Nat) (x : Fut) : (s.setFut t x).active = s.active := rfl
@[simp] theorem tops_setFut (s : State) (t : Nat) (x : Fut) : (s.setFut t x).tops = s.tops := rfl
@[simp] theorem topIdx_setFut (s : State) (t : Nat) (x : Fut) : (s.setFut t x).topIdx = s.topIdx := rfl
@[simp] theorem curTop_setFut (s : State) (t : Nat) (x : Fut) : (s.setFut t x).curTop = s.curTop := rfl

theorem fut_updTask (s : State) (t : Nat) (g : TaskSt → TaskSt) (f : Nat) :
    (s.updTask t g).fut f = if f = t ∧ t < s.futs.length then { s.fut t with ts := g (s.fut t).ts } else s.fut f := by
  simp only [State.updTask, fut_setFut]

@[simp] theorem futs_len_updTask (s : State) (t : Nat) (g : TaskSt → TaskSt) :
    (s.updTask t g).futs.length = s.futs.length := by simp [State.updTask]
@[simp] theorem cfg_updTask (s : State) (t : Nat) (g : TaskSt → TaskSt) : (s.updTask t g).cfg = s.cfg := rfl
@[simp] theorem ctl_updTask (s : State) (t : Nat) (g : TaskSt → TaskSt) : (s.updTask t g).ctl = s.ctl := rfl
@[simp] theorem raising_updTask (s : State) (t : Nat) (g : TaskSt → TaskSt) : (s.updTask t g).raising = s.raising := rfl
@[simp] theorem batches_updTask (s : State) (t : Nat) (g : TaskSt → TaskSt) : (s.updTask t g).batches = s.batches := rfl
@[simp] theorem stuck_updTask (s : State) (t : Nat) (g : TaskSt → TaskSt) : (s.updTask t g).stuck = s.stuck := rfl
@[simp] theorem trace_updTask (s : State) (t : Nat) (g : TaskSt → TaskSt) : (s.updTask t g).trace = s.trace := rfl
@[simp] theorem ctxs_updTask (s : State) (t : Nat) (g : TaskSt → TaskSt) : (s.updTask t g).ctxs = s.ctxs := rfl
@[simp] theorem active_updTask (s : State) (t : Nat) (g : TaskSt → TaskSt) : (s.updTask t g).active = s.active := rfl
@[simp] theorem tops_updTask (s : State) (t : Nat) (g : TaskSt → TaskSt) : (s.updTask t g).tops = s.tops := rfl
@[simp] theorem topIdx_updTask (s : State) (t : Nat) (g : TaskSt → TaskSt) : (s.updTask t g).topIdx = s.topIdx := rfl
@[simp] theorem curTop_updTask (s : State) (t : Nat) (g : TaskSt → TaskSt) : (s.updTask t g).curTop = s.curTop := rfl

theorem fut_complete (s : State) (t : Nat) (o : Outcome) (f : Nat) :
    (s.complete t o).fut f = if f = t ∧ t < s.futs.length then
      { s.fut t with out := some o,
                     ts := { (if s.cfg.keepDeps then (s.fut t).ts else { (s.fut t).ts with deps := [] }) with
                             lastY := .none, deps := [] } }
      else s.fut f := by
  simp only [State.complete, fut_emit, fut_setFut]

@[simp] theorem futs_len_complete (s : State) (t : Nat) (o : Outcome) :
    (s.complete t o).futs.length = s.futs.length := by simp [State.complete]
@[simp] theorem cfg_complete (s : State) (t : Nat) (o : Outcome) : (s.complete t o).cfg = s.cfg := rfl
@[simp] theorem ctl_complete (s : State) (t : Nat) (o : Outcome) : (s.complete t o).ctl = s.ctl := rfl
@[simp] theorem raising_complete (s : State) (t : Nat) (o : Outcome) : (s.complete t o).raising = s.raising := rfl
@[simp] theorem batches_complete (s : State) (t : Nat) (o : Outcome) : (s.complete t o).batches = s.batches := rfl
@[simp] theorem stuck_complete (s : State) (t : Nat) (o : Outcome) : (s.complete t o).stuck = s.stuck := rfl
@[simp] theorem trace_complete (s : State) (t : Nat) (o : Outcome) : (s.complete t o).trace = .done t o :: s.trace := rfl
@[simp] theorem ctxs_complete (s : State) (t : Nat) (o : Outcome) : (s.complete t o).ctxs = s.ctxs := rfl
@[simp] theorem active_complete (s : State) (t : Nat) (o : Outcome) : (s.complete t o).active = s.active := rfl
@[simp] theorem tops_complete (s : State) (t : Nat) (o : Outcome) : (s.complete t o).tops = s.tops := rfl
@[simp] theorem topIdx_complete (s : State) (t : Nat) (o : Outcome) : (s.complete t o).topIdx = s.topIdx := rfl
@[simp] theorem curTop_complete (s : State) (t : Nat) (o : Outcome) : (s.complete t o).curTop = s.curTop := rfl

theorem fut_alloc (s : State) (x : Fut) (nk : NewKind) (f : Nat) :
    (s.alloc x nk).1.fut f = if f = s.futs.length then x else s.fut f := by
  simp only [State.alloc, State.fut, List.getD_eq_getElem?_getD]
  by_cases h : f = s.futs.length
  · subst h; simp
  · simp only [h, if_false]
    by_cases h2 : f < s.futs.length
    · simp [List.getElem?_append_left h2]
    · have h3 : s.futs.length < f := by omega
      have h4 : s.futs.length + 1 ≤ f := h3
      simp [h4, Nat.le_of_lt h3]

@[simp] theorem alloc_snd (s : State) (x : Fut) (nk : NewKind) : (s.alloc x nk).2 = s.futs.length := rfl
@[simp] theorem futs_len_alloc (s : State) (x : Fut) (nk : NewKind) :
    (s.alloc x nk).1.futs.length = s.futs.length + 1 := by simp [State.alloc]
@[simp] theorem cfg_alloc (s : State) (x : Fut) (nk : NewKind) : (s.alloc x nk).1.cfg = s.cfg := rfl
@[simp] theorem ctl_alloc (s : State) (x : Fut) (nk : NewKind) : (s.alloc x nk).1.ctl = s.ctl := rfl
@[simp] theorem raising_alloc (s : State) (x : Fut) (nk : NewKind) : (s.alloc x nk).1.raising = s.raising := rfl
@[simp] theorem batches_alloc (s : State) (x : Fut) (nk : NewKind) : (s.alloc x nk).1.batches = s.batches := rfl
@[simp] theorem stuck_alloc (s : State) (x : Fut) (nk : NewKind) : (s.alloc x nk).1.stuck = s.stuck := rfl
@[simp] theorem trace_alloc (s : State) (x : Fut) (nk : NewKind) :
    (s.alloc x nk).1.trace = .new s.futs.length nk :: s.trace := rfl
@[simp] theorem ctxs_alloc (s : State) (x : Fut) (nk : NewKind) : (s.alloc x nk).1.ctxs = s.ctxs := rfl
@[simp] theorem active_alloc (s : State) (x : Fut) (nk : NewKind) : (s.alloc x nk).1.active = s.active := rfl
@[simp] theorem tops_alloc (s : State) (x : Fut) (nk : NewKind) : (s.alloc x nk).1.tops = s.tops := rfl
@[simp] theorem topIdx_alloc (s : State) (x : Fut) (nk : NewKind) : (s.alloc x nk).1.topIdx = s.topIdx := rfl
@[simp] theorem curTop_alloc (s : State) (x : Fut) (nk : NewKind) : (s.alloc x nk).1.curTop = s.curTop := rfl

/-- a future id beyond the heap denotes the default future -/
theorem fut_default (s : State) (f : Nat) (h : s.futs.length ≤ f) : s.fut f = {} := by
  simp [State.fut, List.getD_eq_getElem?_getD, List.getElem?_eq_none h]

/-! ### well-scoped programs

`ws b no ni κ`: every reference in `b` (run by a task that has created `no` futures and was handed `ni`) is in
scope, and `b` contains no run-time-only `syncret`.  `κ m` says whether falling off the end of the innermost open
with-block with `m` own futures is fine (continuation-passing, so the definition is structurally recursive). -/

def refOK (no ni : Nat) : Ref → Bool
  | .own i => decide (i < no)
  | .inh j => decide (j < ni)

def ws : Body → Nat → Nat → (Nat → Bool) → Bool
  | .ret _, _, _, _ => true
  | .res _, _, _, _ => true
  | .raise _, _, _, _ => true
  | .reraise, _, _, _ => true
  | .spawn child pass k, no, ni, κ =>
    pass.all (refOK no ni) && ws child 0 pass.length (fun _ => true) && ws k (no + 1) ni κ
  | .item _ _ _ k, no, ni, κ => ws k (no + 1) ni κ
  | .const _ k, no, ni, κ => ws k (no + 1) ni κ
  | .errfut _ k, no, ni, κ => ws k (no + 1) ni κ
  | .lazy _ k, no, ni, κ => ws k (no + 1) ni κ
  | .yld y k h, no, ni, κ => y.leaves.all (refOK no ni) && ws k no ni κ && ws h no ni κ
  | .reyld k h, no, ni, κ => ws k no ni κ && ws h no ni κ
  | .sync child pass k h, no, ni, κ =>
    pass.all (refOK no ni) && ws child 0 pass.length (fun _ => true) && ws k (no + 1) ni κ && ws h (no + 1) ni κ
  | .syncfut r k h, no, ni, κ => refOK no ni r && ws k no ni κ && ws h no ni κ
  | .syncret _ _ _, _, _, _ => false
  | .withCtx _ b k, no, ni, κ => ws b no ni (fun m => ws k m ni κ)
  | .endwith, no, _, κ => κ no
  | .read _ k, no, ni, κ => ws k no ni κ
  | .active k, no, ni, κ => ws k no ni κ

/-- a top-level computation / a task body is well scoped -/
def wsTop (b : Body) : Bool := ws b 0 0 (fun _ => true)

/-- the continuation predicate of the open with-blocks of a running task -/
def contsK (ni : Nat) : List (Nat × Body) → Nat → Bool
  | [] => fun _ => true
  | (_, k) :: rest => fun m => ws k m ni (contsK ni rest)

/-- the rest of a running task is well scoped -/
def wsTask (ts : TaskSt) : Bool :=
  match ts.body with
  | .syncret _ k h =>
    ws k ts.own.length ts.inh.length (contsK ts.inh.length ts.conts) &&
    ws h ts.own.length ts.inh.length (contsK ts.inh.length ts.conts)
  | b => ws b ts.own.length ts.inh.length (contsK ts.inh.length ts.conts)

/-- reachable from an initial state whose computations are all well scoped -/
inductive ReachW (cfg : Cfg) (tops : List (Conv × Body)) (choices : List (Nat × Nat)) : State → Prop
  | init : (∀ p ∈ tops, wsTop p.2 = true) → ReachW cfg tops choices (initState cfg tops choices)
  | step {s : State} : ReachW cfg tops choices s → ReachW cfg tops choices (step s)

theorem ReachW.reach {cfg tops choices s} (h : ReachW cfg tops choices s) : Reach s := by
  induction h with
  | init _ => exact Reach.init cfg tops choices
  | step _ ih => exact Reach.step ih

end AsynqModel.Core.P4
