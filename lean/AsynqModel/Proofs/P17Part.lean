import AsynqModel.Proofs.P17Obs
import AsynqModel.Proofs.P13Main
import AsynqModel.Theorems.C07b
/-!
  P17, part 2: every clause of `Spec.checkC07` except the one about `.read` events, on the traces of the machine.

  * "pause-not-innermost" / "pause-without-resume": `C07_lifo` (every pause pauses the top of the stack of resumed
    contexts) and `ctxStack_of_lifo` (the observer's `ctxStack` is that stack);
  * "override-not-restored": `C07_svals_zero`;
  * "context-left-active": `P7.ret_paused` (below a `.ret` event every context was paused last) and `lifo_mem_word`;
  * "unknown-event": `P13.no_bad`.
-/
namespace AsynqModel.Core.P17
open AsynqModel.Core AsynqModel.Core.Spec AsynqModel.Core.P13

theorem acc_rest (s : State) (h : P10.WSReach s) (hg : s.guardFired = false) (hna : Inv.noNonAsync s = true)
    (c : Ctx) : P13.Acc checkRest c s.trace := by
  rw [acc_iff_suffix]
  intro post e pre htr
  have hl := C07_lifo s h hg hna
  cases e with
  | ctx b c0 =>
    cases b with
    | true => rfl
    | false =>
      obtain ⟨R, hR⟩ := hl.2.1 post pre c0 htr
      have := ctxStack_of_lifo pre _ hR
      simp [checkRest, checkC07, this]
  | svals l =>
    have hz := C07_svals_zero s h hg hna l (by rw [htr]; simp)
    simp only [checkRest, checkC07]
    rw [if_neg]
    simp only [List.any_eq_true, not_exists, not_and, Bool.not_eq_true, bne_eq_false_iff_eq]
    intro p hp
    exact hz p hp
  | ret o =>
    have h1 := hl.1
    rw [htr] at h1
    obtain ⟨R1, hR1⟩ := P7.lifo_suffix h1
    obtain ⟨R', hR'⟩ := P7.lifo_suffix (post := [.ret o]) (pre := pre) hR1
    have hp := P7.ret_paused h.reach hg (P7.na_of_noNonAsync hna) post o pre htr
    have hnil : R' = [] := by
      cases R' with
      | nil => rfl
      | cons c0 R'' => exact absurd (lifo_mem_word pre _ c0 hR' List.mem_cons_self) (hp c0)
    have := ctxStack_of_lifo pre _ hR'
    simp [checkRest, checkC07, this, hnil]
  | bad m =>
    exact absurd (show Event.bad m ∈ s.trace by rw [htr]; simp) (P13.no_bad h.reach m)
  | read t var v => rfl
  | _ => rfl

end AsynqModel.Core.P17
