import AsynqModel.Proofs.Batching5
/-! helper lemmas for C11, part 6: every operation, case by case -/
namespace AsynqModel.Batching
set_option linter.unusedSimpArgs false

theorem batches_none {s : St} {b : Nat} (h : s.batches[b]? = none) : s.batches.length ≤ b :=
  List.getElem?_eq_none_iff.mp h

theorem batches_some {s : St} {b : Nat} {B : Batch} (h : s.batches[b]? = some B) :
    b < s.batches.length ∧ s.bout b = B.out ∧ s.bitems b = B.items := by
  have ⟨hl, _⟩ := List.getElem?_eq_some_iff.mp h
  exact ⟨hl, by simp [St.bout, h], by simp [St.bitems, h]⟩

theorem items_some {s : St} {i : Nat} {it : Item} (h : s.items[i]? = some it) :
    i < s.items.length ∧ s.iout i = it.out ∧ s.ibatch i = it.batch := by
  have ⟨hl, _⟩ := List.getElem?_eq_some_iff.mp h
  exact ⟨hl, by simp [St.iout, h], by simp [St.ibatch, h]⟩

theorem newItemOn_pending {s : St} {b : Nat} (hb : b < s.batches.length) (hp : s.bout b = none)
    (p : Nat) (sp src : Option Nat) {lk : Option Link} :
    newItemOn s b p sp src lk = some (s.pushItem b p sp lk, [.created s.items.length b src]) := by
  unfold newItemOn
  have e : s.batches[b]? = some s.batches[b] := List.getElem?_eq_getElem hb
  simp only [St.bout, e, Option.bind_some] at hp
  simp [e, hp]

theorem newItemOn_finished {s : St} {b : Nat} (hp : (s.bout b).isSome) (p : Nat) (sp src : Option Nat)
    {lk : Option Link} : newItemOn s b p sp src lk = none := by
  unfold newItemOn
  cases e : s.batches[b]? with
  | none => rfl
  | some B =>
    simp only [St.bout, e, Option.bind_some] at hp
    simp [hp]

theorem good_pushItem {s : St} {b : Nat} (hg : Good s) (hb : b < s.batches.length) (hp : s.bout b = none)
    (p : Nat) (sp : Option Nat) (lk : Option Link := none) : Good (s.pushItem b p sp lk) := by
  obtain ⟨ga, gp, gi, gb⟩ := hg
  refine ⟨by simpa using ga, by simpa using gp, ?_, ?_⟩
  · intro j hj
    simp only [pushItem_ilen] at hj
    simp only [pushItem_ibatch, pushItem_blen, pushItem_bout, pushItem_bitems, pushItem_iout]
    by_cases e : j = s.items.length
    · subst e
      simp [hb, hp]
    · have hj' : j < s.items.length := by omega
      have ⟨x, y, z⟩ := gi j hj'
      simp only [e, if_false]
      refine ⟨x, fun hh => ?_, z⟩
      have := y hh
      split
      · exact List.mem_append_left _ this
      · exact this
  · intro c hc
    simp only [pushItem_blen] at hc
    have ⟨x, y⟩ := gb c hc
    simp only [pushItem_bitems, pushItem_ilen, pushItem_ibatch, pushItem_runs, pushItem_bout]
    refine ⟨fun j hj => ?_, y⟩
    split at hj
    · rename_i hcb
      rcases List.mem_append.mp hj with hj | hj
      · have ⟨x1, y1⟩ := x j hj
        have : ¬ j = s.items.length := by omega
        simp [this, y1]; omega
      · simp at hj; subst hj; simp [hcb.1]
    · have ⟨x1, y1⟩ := x j hj
      have : ¬ j = s.items.length := by omega
      simp [this, y1]; omega

theorem counts_pushItem (s : St) (b p : Nat) (sp src : Option Nat) (lk : Option Link) :
    CountsOk s (s.pushItem b p sp lk) [.created s.items.length b src] := by
  have hl := law_pushItem s b p sp src lk
  refine ⟨fun i hi => ?_, fun c _ => ?_⟩
  · obtain ⟨x, y⟩ := hl i
    refine ⟨x, ?_⟩
    rw [y]
    simp only [pushItem_ilen] at hi ⊢
    by_cases c : s.items.length ≤ i <;> simp [c, hi]
  · simp only [pushItem_bout]
    cases s.bout c <;> simp [announceCount]

/-- the observation of an item constructed on a pending batch b is accepted -/
theorem created_ok {rx : Bool} {s : St} {b : Nat} (hg : Good s) (hb : b < s.batches.length) (hp : s.bout b = none)
    (op : Op) (p : Nat) (sp : Option Nat) (lk : Option Link) (hq : fate s op = .quiet)
    (h1 : opClause s ⟨op, .created s.items.length, [.created s.items.length b none], s.pushItem b p sp lk⟩ = none) :
    specStep rx s ⟨op, .created s.items.length, [.created s.items.length b none], s.pushItem b p sp lk⟩ = none := by
  refine specStep_none h1 (by simp [fateClause, fateChecks, firstFail, hq, slotOk, Ev.isCreated])
    (frameClause_quiet hq (by simp) (fun c => by
      simp only [pushItem_bitems, createdOn, List.filterMap]
      by_cases hc : c = b
      · subst hc; simp [hb]
      · have : ¬ b = c := fun x => hc x.symm
        simp [hc, this])) ?_ (by simp [Ev.isAnnounce])
    (by simp [afterAnnounceOk, List.dropWhile, Ev.isAnnounce]) (counts_pushItem s b p sp none lk)
    (ext_pushItem s b p sp lk) (good_pushItem hg hb hp p sp lk)
  intro ev hev
  simp only [List.mem_singleton] at hev
  subst hev
  simp [evClause, pushItem_ibatch, hp]

theorem step_ok_add {rx : Bool} (scripts : List Script) (s : St) (hg : Good s) (p : Nat) (sp : Option Nat)
    (lk : Option Link) : specStep rx s (observe scripts s (.add p sp lk)).2 = none := by
  simp only [observe, step, newItemOn_pending hg.1 hg.2.1]
  apply created_ok hg hg.1 hg.2.1 _ _ _ lk rfl
  simp [opClause]

theorem step_ok_addTo {rx : Bool} (scripts : List Script) (s : St) (hg : Good s) (b p : Nat) :
    specStep rx s (observe scripts s (.addTo b p)).2 = none := by
  simp only [observe, step]
  cases e : s.batches[b]? with
  | none =>
    simp only
    exact specStep_noop hg rfl (by simp [opClause, batches_none e])
  | some B =>
    have ⟨hb, hbo, _⟩ := batches_some e
    simp only
    cases hB : B.out with
    | none =>
      have hp : s.bout b = none := by rw [hbo, hB]
      simp only [newItemOn_pending hb hp]
      apply created_ok hg hb hp _ _ _ _ rfl
      have : ¬ s.batches.length ≤ b := by omega
      simp [opClause, this, hp]
    | some o =>
      have hp : (s.bout b).isSome := by rw [hbo, hB]; rfl
      simp only [newItemOn_finished hp]
      have : ¬ s.batches.length ≤ b := by omega
      exact specStep_noop hg rfl (by simp [opClause, this, hp])

theorem step_ok_isFlushed {rx : Bool} (scripts : List Script) (s : St) (hg : Good s) (b : Nat) :
    specStep rx s (observe scripts s (.isFlushed b)).2 = none := by
  simp only [observe, step]
  cases e : s.batches[b]? with
  | none => exact specStep_noop hg rfl (by simp [opClause, batches_none e])
  | some B =>
    have ⟨hb, hbo, _⟩ := batches_some e
    have : ¬ s.batches.length ≤ b := by omega
    exact specStep_noop hg rfl (by simp [opClause, this, hbo])

theorem step_ok_isCancelled {rx : Bool} (scripts : List Script) (s : St) (hg : Good s) (b : Nat) :
    specStep rx s (observe scripts s (.isCancelled b)).2 = none := by
  simp only [observe, step]
  cases e : s.batches[b]? with
  | none => exact specStep_noop hg rfl (by simp [opClause, batches_none e])
  | some B =>
    have ⟨hb, hbo, _⟩ := batches_some e
    have : ¬ s.batches.length ≤ b := by omega
    exact specStep_noop hg rfl (by simp [opClause, this, hbo])

theorem step_ok_isEmpty {rx : Bool} (scripts : List Script) (s : St) (hg : Good s) (b : Nat) :
    specStep rx s (observe scripts s (.isEmpty b)).2 = none := by
  simp only [observe, step]
  cases e : s.batches[b]? with
  | none => exact specStep_noop hg rfl (by simp [opClause, batches_none e])
  | some B =>
    have ⟨hb, _, hbi⟩ := batches_some e
    have : ¬ s.batches.length ≤ b := by omega
    exact specStep_noop hg rfl (by simp [opClause, this, hbi])

theorem step_ok_itemComputed {rx : Bool} (scripts : List Script) (s : St) (hg : Good s) (i : Nat) :
    specStep rx s (observe scripts s (.itemComputed i)).2 = none := by
  simp only [observe, step]
  cases e : s.items[i]? with
  | none => exact specStep_noop hg rfl (by simp [opClause, List.getElem?_eq_none_iff.mp e])
  | some it =>
    have ⟨hi, hio, _⟩ := items_some e
    have : ¬ s.items.length ≤ i := by omega
    exact specStep_noop hg rfl (by simp [opClause, this, hio])

end AsynqModel.Batching
