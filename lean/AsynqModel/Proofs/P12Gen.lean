import AsynqModel.Proofs.P12Defs
/-!
  P12: `_resume_contexts` / `_pause_contexts` without NonAsyncContexts (`CtxFlip`), and one instruction of a task body
  (`GenR`): the heap-side frame `Hp (O t)`, what happens to the control stack, and the two facts about the running
  task itself that the invariant needs (it leaves its generator suspended or completed; at a synchronous call its body
  is `.syncret f ..`).
-/
namespace AsynqModel.Core.P12
open AsynqModel.Core P5 P7

/-! ### post-composition lemmas -/

theorem Hp.lt' {X : Nat → Prop} {s x : State} (h : Hp X s x) : ∀ p, X p → p < x.futs.length :=
  fun p hp => Nat.lt_of_lt_of_le (h.xlt p hp) h.len

theorem Hp.cg {X : Nat → Prop} {s x y : State} (h : Hp X s x) (e : y.futs = x.futs) : Hp X s y := h.congr_right e

theorem Hp.emit {X : Nat → Prop} {s x : State} (h : Hp X s x) (e : Event) : Hp X s (x.emit e) := h.congr_right rfl

theorem Hp.updT {t : Nat} {s x : State} (h : Hp (O t) s x) (g : TaskSt → TaskSt) : Hp (O t) s (x.updTask t g) :=
  h.trans (hp_updTask x t g (h.lt' t rfl))

theorem Hp.keepT {X : Nat → Prop} {s x : State} (h : Hp X s x) (u : Nat) (g : TaskSt → TaskSt)
    (hg : ∀ ts, TEq ts (g ts)) : Hp X s (x.updTask u g) :=
  h.trans ((hp_updTask_keep x u g hg).ofE h.lt')

theorem Hp.alloc {X : Nat → Prop} {s x : State} (h : Hp X s x) (fx : Fut) (nk : NewKind)
    (h1 : fx.ts.pending = true) (h2 : fx.ts.ctxActive = false) : Hp X s (x.alloc fx nk).1 :=
  h.trans ((hp_alloc x fx nk h1 h2).ofE h.lt')

theorem Hp.newTask {X : Nat → Prop} {s x : State} (h : Hp X s x) (child : Body) (inh : List Nat) :
    Hp X s (x.newTask child inh).1 :=
  h.trans ((hp_newTask x child inh).ofE h.lt')

theorem Hp.completeT {t : Nat} {s x : State} (h : Hp (O t) s x) (o : Outcome) : Hp (O t) s (x.complete t o) :=
  h.trans (hp_complete_self x t o (h.lt' t rfl))

theorem Hp.completeNT {X : Nat → Prop} {s x : State} (h : Hp X s x) (f : Nat) (o : Outcome)
    (hk : (x.fut f).kind ≠ .task) : Hp X s (x.complete f o) :=
  h.trans ((hp_complete_nt x f o hk).ofE h.lt')

theorem Hp.exitAll {X : Nat → Prop} {s x : State} (h : Hp X s x) (t : Nat) : Hp X s (x.exitAll t) :=
  h.trans ((hp_exitAll x t).ofE h.lt')

theorem Hp.ctxExit {X : Nat → Prop} {s x : State} (h : Hp X s x) (c : Nat) : Hp X s (x.ctxExit c) :=
  h.trans ((hp_ctxExit x c).ofE h.lt')

theorem Hp.flushBatch {X : Nat → Prop} {s x : State} (h : Hp X s x) (k q : Nat) (hi : P2.ItemsOk x) :
    Hp X s (x.flushBatch k q) :=
  h.trans ((hp_flushBatch x k q hi).ofE h.lt')

theorem Hp.fail {X : Nat → Prop} {s x : State} (h : Hp X s x) (m : String) : Hp X s (x.fail m) := h.congr_right rfl

theorem Hp.updBatch {X : Nat → Prop} {s x : State} (h : Hp X s x) (k q : Nat) (g : Batch → Batch) :
    Hp X s (x.updBatch k q g) := h.congr_right rfl

theorem Hp.svTouch {X : Nat → Prop} {s x : State} (h : Hp X s x) (v : Nat) : Hp X s (x.svTouch v) :=
  h.congr_right (by simp)

theorem Hp.leaveGen {t : Nat} {s x : State} (h : Hp (O t) s x) (old : Option Nat) : Hp (O t) s (x.leaveGen t old) :=
  (h.updT fun ts => { ts with depsSched := false }).congr_right rfl

theorem leaveGen_task_self (x : State) (t : Nat) (old : Option Nat) (ht : t < x.futs.length) :
    (x.leaveGen t old).task t = { x.task t with depsSched := false } := by
  exact (task_of_futs (s' := x.leaveGen t old) (s := x.updTask t fun ts => { ts with depsSched := false }) rfl t).trans
    (task_updTask_self _ _ _ ht)

theorem leaveGen_computed (x : State) (t : Nat) (old : Option Nat) (f : Nat) :
    (x.leaveGen t old).computed f = x.computed f := by
  exact (computed_of_futs (s' := x.leaveGen t old) (s := x.updTask t fun ts => { ts with depsSched := false }) rfl
    f).trans (computed_updTask _ _ _ _)

theorem task_newTask_old (s : State) (child : Body) (inh : List Nat) (t : Nat) (ht : t < s.futs.length) :
    (s.newTask child inh).1.task t = s.task t := by
  unfold State.newTask State.task
  rw [P2.fut_alloc, if_neg (by omega)]

theorem Hp.appendFut {X : Nat → Prop} {s x : State} (h : Hp X s x) (fx : Fut)
    (h1 : fx.ts.pending = true) (h2 : fx.ts.ctxActive = false) : Hp X s { x with futs := x.futs ++ [fx] } :=
  (h.alloc fx .lazy h1 h2).congr_right rfl

theorem Hp.start (t : Nat) (s : State) (ht : t < s.futs.length) : Hp (O t) s s :=
  Hp.refl (O t) s (fun p h => by rw [h]; exact ht)

/-! ### `_resume_contexts` / `_pause_contexts` -/

structure CtxFlip (b : Bool) (t : Nat) (s r : State) : Prop where
  hp : Hp (O t) s r
  same : Same s r
  comp : ∀ f, r.computed f = s.computed f
  pending : (r.task t).pending = (s.task t).pending
  deps : (r.task t).deps = (s.task t).deps
  body : (r.task t).body = (s.task t).body
  act : (r.task t).ctxActive = b
  futsLen : r.futs.length = s.futs.length

theorem ctxFlip_of_futs (b : Bool) (t : Nat) (s r : State) (ht : t < s.futs.length) (sm : Same s r)
    (e : r.futs = (s.updTask t fun ts => { ts with ctxActive := b }).futs) : CtxFlip b t s r := by
  have hts : r.task t = { s.task t with ctxActive := b } := by
    rw [task_of_futs e, task_updTask_self _ _ _ ht]
  refine ⟨(hp_updTask s t _ ht).congr_right e, sm, fun f => ?_, by rw [hts], by rw [hts], by rw [hts], by rw [hts],
    by rw [e]; simp⟩
  rw [computed_of_futs e, computed_updTask]

theorem ctxFlip_refl (b : Bool) (t : Nat) (s : State) (ht : t < s.futs.length) (h : (s.task t).ctxActive = b) :
    CtxFlip b t s s :=
  ⟨Hp.start t s ht, Same.refl s, fun _ => rfl, rfl, rfl, rfl, h, rfl⟩

theorem flip_resume' (s : State) (t : Nat) (hna : NA s) (ht : t < s.futs.length) :
    CtxFlip true t s (s.resumeContexts t) := by
  by_cases hact : (s.task t).ctxActive = true
  · rw [nf_resume_active s t hact]; exact ctxFlip_refl true t s ht hact
  · refine ctxFlip_of_futs true t s _ ht (same_resumeContexts s t) ?_
    rw [nf_resume s t hna (by simpa using hact), futs_foldFlip]

theorem flip_pause' (s : State) (t : Nat) (hna : NA s) (ht : t < s.futs.length) :
    CtxFlip false t s (s.pauseContexts t) := by
  by_cases hact : (s.task t).ctxActive = true
  · refine ctxFlip_of_futs false t s _ ht (same_pauseContexts s t) ?_
    rw [nf_pause s t hna hact, futs_foldFlip]
  · have hact' : (s.task t).ctxActive = false := by simpa using hact
    have e : s.pauseContexts t = s := by rw [pauseContexts_eq]; simp [hact']
    rw [e]; exact ctxFlip_refl false t s ht hact'

/-! ### one instruction of a task body -/

inductive GenR (s : State) (t : Nat) (r : State) : Prop
  | stay (hp : Hp (O t) s r) (c : r.ctl = s.ctl) (st : r.stack = s.stack)
  | leave (hp : Hp (O t) s r) (c : r.ctl = s.ctl.tail) (st : r.stack = s.stack)
      (h : (r.task t).pending = true ∨ r.computed t = true)
  | call (f : Nat) (hp : Hp (O t) s r) (c : r.ctl = .waitEnter f :: s.ctl) (st : r.stack = s.stack)
      (hb : ∃ k h, (r.task t).body = .syncret f k h) (hpnd : (r.task t).pending = false)

theorem GenR.mkCall {s : State} {t : Nat} (x : State) (f : Nat) (k h : Body) (hx : Hp (O t) s x) (r : State)
    (ef : r.futs = x.futs) (ec : r.ctl = .waitEnter f :: s.ctl) (es : r.stack = s.stack)
    (hb : (x.task t).body = .syncret f k h) (hp : (x.task t).pending = false) : GenR s t r :=
  .call f (hx.cg ef) ec es ⟨k, h, by rw [task_of_futs ef]; exact hb⟩ (by rw [task_of_futs ef]; exact hp)

theorem genR_finish (s : State) (t : Nat) (old : Option Nat) (o : Outcome) (ht : t < s.futs.length) :
    GenR s t (s.finishTask t old o) := by
  unfold State.finishTask
  split
  · exact .stay ((Hp.start t s ht).cg rfl) rfl rfl
  · have h1 : Hp (O t) s (((s.exitAll t).updTask t fun ts => { ts with pending := false }).complete t o) :=
      (((Hp.start t s ht).exitAll t).updT _).completeT o
    have sm : Same s (((s.exitAll t).updTask t fun ts => { ts with pending := false }).complete t o) :=
      (same_exitAll s t).trans ((same_updTask (s.exitAll t) t _).trans (same_complete _ t o))
    refine .leave (h1.leaveGen old) ?_ ?_ (.inr ?_)
    · exact congrArg List.tail sm.ctl
    · exact sm.stack
    · rw [leaveGen_computed]
      exact computed_complete_self _ _ _ (by simpa using (Hp.start t s ht).exitAll t |>.lt' t rfl)

theorem genR_yield (s : State) (t : Nat) (old : Option Nat) (e : Event) (g : TaskSt → TaskSt) (deps : List Nat)
    (ht : t < s.futs.length) (hg : ∀ x, (g x).pending = true) :
    GenR s t (if deps.isEmpty then (s.emit e).updTask t g else ((s.emit e).updTask t g).leaveGen t old) := by
  have h1 : Hp (O t) s ((s.emit e).updTask t g) := ((Hp.start t s ht).emit e).updT g
  split
  · exact .stay h1 rfl rfl
  · refine .leave (h1.leaveGen old) rfl rfl (.inl ?_)
    rw [leaveGen_task_self _ _ _ (h1.lt' t rfl), task_updTask_self _ _ _ (by simpa using ht)]
    exact hg _

theorem hp_newCtx (s0 : State) (cid t : Nat) (c : CtxKind) : Hp E s0 (newCtx s0 cid t c) := by
  unfold newCtx
  simp only
  split
  · exact Hp.trans (b := { (s0.emit (.ctxN cid t c)) with
        ctxs := (s0.emit (.ctxN cid t c)).ctxs ++ [({ kind := c, owner := (s0.emit (.ctxN cid t c)).active } : CtxSt)] })
      (Hp.of_futs rfl) (hp_updTask_keep _ _ _ (fun _ => ⟨rfl, rfl, rfl, rfl, rfl⟩))
  · exact Hp.of_futs rfl

theorem genR_with (s s0 : State) (t cid : Nat) (c : CtxKind) (g : TaskSt → TaskSt) (h0 : Hp (O t) s s0)
    (sm : Same s s0) :
    GenR s t ((if c == .nonasync then newCtx s0 cid t c else (newCtx s0 cid t c).ctxResumeOne cid).updTask t g) := by
  have h1 : Hp (O t) s (newCtx s0 cid t c) := h0.trans ((hp_newCtx s0 cid t c).ofE h0.lt')
  have sm1 : Same s (newCtx s0 cid t c) := sm.trans (same_newCtx s0 cid t c)
  split
  · exact .stay (h1.updT g) sm1.ctl sm1.stack
  · have sm2 := sm1.trans (same_resumeOne (newCtx s0 cid t c) cid)
    exact .stay ((h1.cg (flagOp_resume (newCtx s0 cid t c) cid).futs).updT g) sm2.ctl sm2.stack

macro "p12_hp" : tactic => `(tactic| first
  | exact Hp.start _ _ (by assumption)
  | refine Hp.emit ?_ _
  | refine Hp.updT ?_ _
  | refine Hp.newTask ?_ _ _
  | refine Hp.alloc ?_ _ _ rfl rfl
  | refine Hp.appendFut ?_ _ rfl rfl
  | refine Hp.fail ?_ _
  | refine Hp.updBatch ?_ _ _ _
  | refine Hp.svTouch ?_ _
  | exact (Hp.start _ _ (by assumption)).cg rfl)

macro "p12_stay" : tactic => `(tactic| (refine GenR.stay ?_ (by first | rfl | simp) (by first | rfl | simp); repeat p12_hp))

theorem genStep_r (s : State) (t : Nat) (old : Option Nat) (ht : t < s.futs.length) (hi : P2.ItemsOk s) :
    GenR s t (s.genStep t old) := by
  unfold State.genStep
  dsimp only
  split
  · split
    · p12_stay
    · split
      · p12_stay
      · p12_stay
      · p12_stay
      · p12_stay
      · p12_stay
  · next hpnd =>
    have hpnd : (s.task t).pending = false := by simpa using hpnd
    split
    · exact genR_finish _ _ _ _ ht
    · exact genR_finish _ _ _ _ ht
    · exact genR_finish _ _ _ _ ht
    · exact genR_finish _ _ _ _ ht
    · -- spawn
      p12_stay
    · -- item
      rename_i kind payload mode k heq
      cases hcb : s.curBatch? kind with
      | none =>
        simp only []
        split
        · p12_stay
        · p12_stay
      | some b0 =>
        simp only []
        split
        · p12_stay
        · p12_stay
    · p12_stay
    · p12_stay
    · p12_stay
    · exact genR_yield s t old _ _ _ ht (fun _ => rfl)
    · exact genR_yield s t old _ _ _ ht (fun _ => rfl)
    · -- sync
      rename_i child pass k h heq
      have h1 : Hp (O t) s (s.newTask child (pass.map (s.task t).resolve)).1 := (Hp.start t s ht).newTask _ _
      have hp0 : ((s.newTask child (pass.map (s.task t).resolve)).1.task t).pending = false := by
        rw [task_newTask_old _ _ _ _ ht]; exact hpnd
      have hst0 : (s.newTask child (pass.map (s.task t).resolve)).1.stack = s.stack := rfl
      have hctl0 : (s.newTask child (pass.map (s.task t).resolve)).1.ctl = s.ctl := rfl
      generalize s.newTask child (pass.map (s.task t).resolve) = nt at h1 hp0 hst0 hctl0 ⊢
      refine GenR.mkCall ((nt.1.updTask t fun ts => { ts with own := ts.own ++ [nt.2], body := .syncret nt.2 k h }).emit
          (.syncE t nt.2)) nt.2 k h ((h1.updT _).emit _) _ rfl (congrArg (Ctl.waitEnter nt.2 :: ·) hctl0) hst0 ?_ ?_
      · rw [emit_task, task_updTask_self _ _ _ (h1.lt' t rfl)]
      · rw [emit_task, task_updTask_self _ _ _ (h1.lt' t rfl)]
        exact hp0
    · -- syncfut
      rename_i r k h heq
      have h1 : Hp (O t) s ((s.updTask t fun ts => { ts with body := .syncret ((s.task t).resolve r) k h }).emit
          (.syncE t ((s.task t).resolve r))) := ((Hp.start t s ht).updT _).emit _
      have hi1 : P2.ItemsOk ((s.updTask t fun ts => { ts with body := .syncret ((s.task t).resolve r) k h }).emit
          (.syncE t ((s.task t).resolve r))) :=
        itemsOk_of_eq (s := s) (fun f => by rw [emit_fut, kind_updTask]) rfl hi
      split
      · exact .stay h1 rfl rfl
      · split
        · refine GenR.mkCall _ _ k h h1 _ rfl rfl rfl ?_ ?_
          · rw [emit_task, task_updTask_self _ _ _ ht]
          · rw [emit_task, task_updTask_self _ _ _ ht]; exact hpnd
        · split
          · split
            · exact .stay h1 rfl rfl
            · exact .stay (h1.flushBatch _ _ hi1) (same_flushBatch _ _ _).ctl (same_flushBatch _ _ _).stack
          · exact .stay h1 rfl rfl
        · next hk => exact .stay (h1.completeNT _ _ (by rw [hk]; intro h; cases h)) rfl rfl
        · exact .stay h1 rfl rfl
    · -- syncret
      repeat' split
      all_goals p12_stay
    · -- withCtx
      rename_i c b k heq
      cases c with
      | plain => exact genR_with s s t _ _ _ (Hp.start t s ht) (Same.refl s)
      | override var val => exact genR_with s (s.svTouch var) t _ _ _ ((Hp.start t s ht).svTouch var) (same_svTouch s var)
      | nonasync => exact genR_with s s t _ _ _ (Hp.start t s ht) (Same.refl s)
    · -- endwith
      split
      · exact genR_finish _ _ _ _ ht
      · refine .stay (((Hp.start t s ht).ctxExit _).updT _) ?_ ?_
        · show (State.ctxExit _ _).ctl = _
          exact (same_ctxExit _ _).ctl
        · show (State.ctxExit _ _).stack = _
          exact (same_ctxExit _ _).stack
    · p12_stay
    · p12_stay

end AsynqModel.Core.P12
