import AsynqModel.Core.Spec
import AsynqModel.Core.Machine
/-!
  P14, part 1: the delivery observer `Spec.checkDelivery` as a predicate on newest-first traces.

  * `wOf tr` is the observer's state (`Spec.Watch`) after it has read the newest-first trace `tr` oldest event first;
  * `okTr b c tr` says that the observer accepts every event of `tr` (with `b = false` the `.ret` clause is left out);
  * `specRun_append` is the fold lemma for `Spec.specRun`, `spec_C02_iff` / `specRun_noRet_iff` tie `okTr` to the
    executable `Spec.spec "C02"`;
  * projection lemmas say which events touch the fields `outs`, `lastYield`, `topIdx` the delivery check reads.
  Nothing here mentions the machine.
-/
namespace AsynqModel.Core.P14
open AsynqModel.Core AsynqModel.Core.Spec

/-- the watch after the newest-first trace `tr` (the observer reads oldest first) -/
def wOf (tr : List Event) : Watch := tr.foldr (fun e w => watchEvent w e) {}

@[simp] theorem wOf_nil : wOf [] = {} := rfl
@[simp] theorem wOf_cons (e : Event) (tr : List Event) : wOf (e :: tr) = watchEvent (wOf tr) e := rfl

theorem wOf_eq_foldl (tr : List Event) : wOf tr = tr.reverse.foldl watchEvent {} := by
  unfold wOf; rw [List.foldl_reverse]

/-- `checkDelivery` without the clause for `.ret` events -/
def checkDeliveryNoRet (c : Ctx) (w : Watch) : Event → Option String
  | .ret _ => none
  | e => checkDelivery c w e

/-- the check with (`b = true`) or without (`b = false`) the `.ret` clause -/
def chkD (b : Bool) : Ctx → Watch → Event → Option String :=
  if b then checkDelivery else checkDeliveryNoRet

/-- every event of the newest-first trace is accepted by the observer in the state it has when it reads the event -/
def okTr (b : Bool) (c : Ctx) : List Event → Prop
  | [] => True
  | e :: tr => okTr b c tr ∧ chkD b c (wOf tr) e = none

/-! ### the fold lemma -/

theorem specRun_append (chk : Ctx → Watch → Event → Option String) (c : Ctx) (l1 l2 : List Event) (w : Watch) (i : Nat) :
    specRun chk c w i (l1 ++ l2) = none ↔
      specRun chk c w i l1 = none ∧ specRun chk c (l1.foldl watchEvent w) (i + l1.length) l2 = none := by
  induction l1 generalizing w i with
  | nil => simp [specRun]
  | cons e l1 ih =>
    simp only [List.cons_append, specRun, List.foldl_cons, List.length_cons]
    cases h : chk c w e with
    | some m => simp
    | none =>
      simp only []
      rw [ih]
      have : i + 1 + l1.length = i + (l1.length + 1) := by omega
      rw [this]

theorem specRun_iff_okTr (b : Bool) (c : Ctx) (tr : List Event) :
    specRun (chkD b) c {} 0 tr.reverse = none ↔ okTr b c tr := by
  induction tr with
  | nil => simp [specRun, okTr]
  | cons e tr ih =>
    rw [List.reverse_cons, specRun_append, ih, ← wOf_eq_foldl]
    simp only [okTr, specRun]
    cases h : chkD b c (wOf tr) e <;> simp

theorem checkOf_C02 : checkOf "C02" = checkDelivery := by rfl

/-- the executable observer of property C02 accepts the (oldest-first) trace iff `okTr true` holds -/
theorem spec_C02_iff (c : Ctx) (tr : List Event) : spec "C02" c tr.reverse = none ↔ okTr true c tr := by
  unfold spec; rw [checkOf_C02]; exact specRun_iff_okTr true c tr

theorem specRun_noRet_iff (c : Ctx) (tr : List Event) :
    specRun checkDeliveryNoRet c {} 0 tr.reverse = none ↔ okTr false c tr :=
  specRun_iff_okTr false c tr

/-! ### which events matter -/

/-- events the delivery observer neither checks nor uses for `outs` / `lastYield` -/
def plainEv : Event → Bool
  | .run _ _ _ _ => false
  | .yield _ _ _ => false
  | .done _ _ => false
  | .new _ _ => false
  | .ret _ => false
  | .bad _ => false
  | _ => true

theorem chkD_plain (b : Bool) (c : Ctx) (w : Watch) (e : Event) (h : plainEv e = true) : chkD b c w e = none := by
  cases b <;> cases e <;> simp_all [chkD, checkDelivery, checkDeliveryNoRet, plainEv]

theorem chkD_done (b : Bool) (c : Ctx) (w : Watch) (f : Nat) (o : Outcome) : chkD b c w (.done f o) = none := by
  cases b <;> rfl
theorem chkD_new (b : Bool) (c : Ctx) (w : Watch) (f : Nat) (k : NewKind) : chkD b c w (.new f k) = none := by
  cases b <;> rfl
theorem chkD_yield (b : Bool) (c : Ctx) (w : Watch) (t i : Nat) (y : RY) : chkD b c w (.yield t i y) = none := by
  cases b <;> rfl
theorem chkD_start (b : Bool) (c : Ctx) (w : Watch) (t i : Nat) (dc : Bool) : chkD b c w (.run t i dc .start) = none := by
  cases b <;> rfl
theorem chkD_ret_false (c : Ctx) (w : Watch) (o : Outcome) : chkD false c w (.ret o) = none := rfl
theorem chkD_run (b : Bool) (c : Ctx) (w : Watch) (t i : Nat) (dc : Bool) (o : Outcome) :
    chkD b c w (.run t i dc (.out o)) = checkDelivery c w (.run t i dc (.out o)) := by
  cases b <;> rfl

theorem plain_outs (w : Watch) (e : Event) (h : plainEv e = true) : (watchEvent w e).outs = w.outs := by
  cases e <;> simp_all [plainEv, watchEvent, Watch.mention] <;> split <;> rfl

theorem plain_lastYield (w : Watch) (e : Event) (h : plainEv e = true) : (watchEvent w e).lastYield = w.lastYield := by
  cases e <;> simp_all [plainEv, watchEvent, Watch.mention] <;> split <;> rfl

theorem ret_outs (w : Watch) (o : Outcome) : (watchEvent w (.ret o)).outs = w.outs := rfl
theorem ret_lastYield (w : Watch) (o : Outcome) : (watchEvent w (.ret o)).lastYield = w.lastYield := rfl

theorem done_outs (w : Watch) (f : Nat) (o : Outcome) : (watchEvent w (.done f o)).outs = (f, o) :: w.outs := rfl
theorem done_lastYield (w : Watch) (f : Nat) (o : Outcome) :
    (watchEvent w (.done f o)).lastYield = w.lastYield.filter (fun p => p.1 != f) := rfl

theorem run_outs (w : Watch) (t i : Nat) (dc : Bool) (r : Recv) : (watchEvent w (.run t i dc r)).outs = w.outs := rfl
theorem run_lastYield (w : Watch) (t i : Nat) (dc : Bool) (r : Recv) :
    (watchEvent w (.run t i dc r)).lastYield = w.lastYield.filter (fun p => p.1 != t) := rfl

theorem yield_outs (w : Watch) (t i : Nat) (y : RY) : (watchEvent w (.yield t i y)).outs = w.outs := rfl
theorem yield_lastYield (w : Watch) (t i : Nat) (y : RY) :
    (watchEvent w (.yield t i y)).lastYield = insertKV w.lastYield t (i, y) := rfl

theorem new_lastYield (w : Watch) (f : Nat) (k : NewKind) : (watchEvent w (.new f k)).lastYield = w.lastYield := by
  cases k <;> simp [watchEvent] <;> split <;> rfl

/-- the outcome a `new` event announces: constant futures are computed at creation -/
def newOut : NewKind → Option Outcome
  | .const v => some (.ok (.a v))
  | .errfut e => some (.err (.u e))
  | _ => none

theorem new_outs (w : Watch) (f : Nat) (k : NewKind) :
    (watchEvent w (.new f k)).outs = match newOut k with | some o => (f, o) :: w.outs | none => w.outs := by
  cases k <;> simp [watchEvent, newOut] <;> split <;> rfl

/-! ### association lists -/

theorem lookup_filter_ne {β : Type} (l : List (Nat × β)) (k t : Nat) (h : t ≠ k) :
    (l.filter (fun p => p.1 != k)).lookup t = l.lookup t := by
  induction l with
  | nil => rfl
  | cons p l ih =>
    obtain ⟨a, v⟩ := p
    by_cases ha : a = k
    · subst ha
      have hb : (t == a) = false := by simp [h]
      simp [List.lookup_cons, ih, hb]
    · by_cases hat : t = a
      · subst hat; simp [ha]
      · have hb : (t == a) = false := by simp [hat]
        simp [List.lookup_cons, ha, hb, ih]

theorem lookup_insertKV_self {β : Type} (l : List (Nat × β)) (k : Nat) (v : β) : (insertKV l k v).lookup k = some v := by
  simp [insertKV]

theorem lookup_insertKV_ne {β : Type} (l : List (Nat × β)) (k t : Nat) (v : β) (h : t ≠ k) :
    (insertKV l k v).lookup t = l.lookup t := by
  have hb : (t == k) = false := by simp [h]
  simp [insertKV, List.lookup_cons, hb, lookup_filter_ne l k t h]

/-! ### the index of the current top-level computation -/

/-- the index carried by the last `top` event (0 if there is none) -/
def topOf : List Event → Nat
  | [] => 0
  | .top i _ :: _ => i
  | _ :: tr => topOf tr

theorem new_topIdx (w : Watch) (f : Nat) (k : NewKind) : (watchEvent w (.new f k)).topIdx = w.topIdx := by
  cases k <;> simp [watchEvent] <;> split <;> rfl

theorem ctx_topIdx (w : Watch) (r : Bool) (c : Nat) : (watchEvent w (.ctx r c)).topIdx = w.topIdx := by
  cases r <;> rfl

theorem wOf_topIdx (tr : List Event) : (wOf tr).topIdx = topOf tr := by
  induction tr with
  | nil => rfl
  | cons e tr ih =>
    rw [wOf_cons]
    cases e with
    | new f k => rw [new_topIdx]; exact ih
    | ctx r c => rw [ctx_topIdx]; exact ih
    | top i cv => rfl
    | _ => exact ih

/-! ### consequences of acceptance -/

theorem okTr_mem {b : Bool} {c : Ctx} {tr : List Event} (h : okTr b c tr) {e : Event} (hm : e ∈ tr) :
    ∃ tr', chkD b c (wOf tr') e = none := by
  induction tr with
  | nil => cases hm
  | cons e' tr ih =>
    rcases List.mem_cons.1 hm with hm | hm
    · subst hm; exact ⟨tr, h.2⟩
    · exact ih h.1 hm

/-- if the observer without the `.ret` clause accepts, the full observer can only report the `.ret` clause -/
theorem only_ret (c : Ctx) (l : List Event) (w : Watch) (j : Nat) (h : specRun checkDeliveryNoRet c w j l = none)
    (i : Nat) (msg : String) (hv : specRun checkDelivery c w j l = some (i, msg)) :
    msg = "result-differs-from-sequential" ∨ msg = "ret-without-top" := by
  induction l generalizing w j with
  | nil => simp [specRun] at hv
  | cons e l ih =>
    simp only [specRun] at h hv
    cases h1 : checkDeliveryNoRet c w e with
    | some m => rw [h1] at h; cases h
    | none =>
      rw [h1] at h
      cases h2 : checkDelivery c w e with
      | none => rw [h2] at hv; exact ih _ _ h hv
      | some m =>
        rw [h2] at hv
        injection hv with hv; injection hv with _ hv; subst hv
        cases e with
        | ret o =>
          simp only [checkDelivery] at h2
          split at h2
          · split at h2
            · injection h2 with h2; exact Or.inl h2.symm
            · cases h2
          · injection h2 with h2; exact Or.inr h2.symm
        | _ => simp only [checkDeliveryNoRet] at h1; rw [h1] at h2; cases h2

end AsynqModel.Core.P14
