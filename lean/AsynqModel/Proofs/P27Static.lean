import AsynqModel.Proofs.P27Main
import AsynqModel.Proofs.P6Static
/-
  P6 (property C04), part 13: a static well-scopedness check `wsBody` on programs (every `Ref` names a future that
  exists on every path, as `harness/coregen.py: well_scoped`) implies the dynamic condition `StepScoped` at every
  step, so `ReachWS` (hypotheses on the program only) implies `ReachYO`.
-/
namespace AsynqModel.Core.P27
open AsynqModel.Core.P6
open AsynqModel.Core

/-! `refOKn`, `ws`, `wsBody`, `kont`, `wsV` are those of `Proofs/P6Static.lean` (the static scope check does not look at
    the kind of a context) -/

structure WSInv (s : State) : Prop where
  tops : ∀ p ∈ s.tops, wsBody p.2 = true
  fut : ∀ f, (view s f).out = none → wsV (view s f)

theorem wsInv_init (cfg : Cfg) (tops : List (Conv × Body)) (choices : List (Nat × Nat))
    (h : ∀ p ∈ tops, wsBody p.2 = true) : WSInv (initState cfg tops choices) := by
  refine ⟨h, fun f _ => ?_⟩
  rw [view_ge _ f (Nat.zero_le _)]
  exact wsV_dview

/-- the static check gives the dynamic condition -/
theorem WSInv.stepScoped {s : State} (hW : WSInv s) (hA : InvA s) : StepScoped s := by
  intro t old rest hctl _
  have hw := hW.fut t (hA.gen t old rest hctl).2.1
  unfold wsV at hw
  refine ⟨?_, ?_⟩
  · intro y k h hb ref href
    rw [hb] at hw
    simp only [ws, Bool.and_eq_true] at hw
    exact refOKn_sound _ ref (List.all_eq_true.1 hw.1.1 ref href)
  · intro c pass k hb ref href
    rw [hb] at hw
    simp only [ws, Bool.and_eq_true] at hw
    exact refOKn_sound _ ref (List.all_eq_true.1 hw.1.1 ref href)

theorem wsV_bodyStep {v v' : FV} (h : wsV v) (h1 : v'.inh = v.inh) (h2 : v'.own = v.own) (hbs : BodyStep v v') :
    wsV v' := by
  unfold wsV at *
  rw [h1, h2]
  cases hbs with
  | same hb hc => rw [hb, hc]; exact h
  | yld y k hh hb hb' hc =>
    rw [hb] at h
    simp only [ws, Bool.and_eq_true] at h
    rw [hc]
    rcases hb' with e | e <;> rw [e]
    · exact h.1.2
    · exact h.2
  | reyld k hh hb hb' hc =>
    rw [hb] at h
    simp only [ws, Bool.and_eq_true] at h
    rw [hc]
    rcases hb' with e | e <;> rw [e]
    · exact h.1
    · exact h.2
  | withCtx c b k cid hb hb' hc =>
    rw [hb] at h
    rw [hb', hc]
    exact h
  | endwith cid k rest hb hc0 hb' hc =>
    rw [hb, hc0] at h
    rw [hb', hc]
    exact h
  | read var k hb hb' hc =>
    rw [hb] at h
    rw [hb', hc]
    exact h
  | active k hb hb' hc =>
    rw [hb] at h
    rw [hb', hc]
    exact h

theorem wsV_own {v : FV} {f : Nat} {k : Body} (h : ws v.inh.length (v.own.length + 1) k (kont v.inh.length v.conts) = true) :
    wsV (ownView v f k) := by
  unfold wsV ownView
  simpa using h

theorem wsInv_step {s r : State} (hA : InvA s) (hW : WSInv s) (d : Desc s r) : WSInv r := by
  have same : ∀ {r' : State}, Same s r' → WSInv r' := fun e =>
    ⟨by rw [e.tops]; exact hW.tops, fun f ho => by rw [e.view f] at ho ⊢; exact hW.fut f ho⟩
  have upd1 : ∀ {t : Nat} {v' : FV}, Upd1S s r t v' → (v'.out = none → wsV v') → WSInv r := by
    intro t v' U hv
    refine ⟨by rw [U.tops]; exact hW.tops, fun f ho => ?_⟩
    rcases U.view_cases f with ⟨rfl, e⟩ | ⟨_, e⟩
    · rw [e] at ho ⊢; exact hv ho
    · rw [e] at ho ⊢; exact hW.fut f ho
  have upd2 : ∀ {t : Nat} {v' nv : FV}, Upd2 s r t v' nv → (v'.out = none → wsV v') → wsV nv → WSInv r := by
    intro t v' nv U hv hn
    refine ⟨by rw [U.tops]; exact hW.tops, fun f ho => ?_⟩
    rcases U.view_cases f with ⟨rfl, e⟩ | ⟨rfl, e⟩ | ⟨_, _, e⟩
    · rw [e] at ho ⊢; exact hv ho
    · rw [e]; exact hn
    · rw [e] at ho ⊢; exact hW.fut f ho
  cases d with
  | quiet e _ _ => exact same e
  | top conv body rest htops _ U htops' _ =>
    refine ⟨?_, fun f ho => ?_⟩
    · intro p hp
      rw [htops'] at hp
      exact hW.tops p (by rw [htops]; exact List.mem_cons_of_mem _ hp)
    · by_cases hf : f = s.futs.length
      · subst hf
        rw [U.viewN]
        exact hW.tops (conv, body) (by rw [htops]; exact List.mem_cons_self)
      · rw [U.viewO f hf] at ho ⊢; exact hW.fut f ho
  | ret _ _ _ e _ _ => exact same e
  | enterLoop _ _ _ _ e _ _ => exact same e
  | pop _ _ _ _ _ e _ _ => exact same e
  | popLazy _ top st _ lo _ _ U _ _ => exact upd1 U (fun ho => by simp [doneView] at ho)
  | second _ top st _ _ hc _ _ _ U _ _ =>
    exact upd1 U (fun _ => wsV_of_eq (hW.fut top (out_none_of_uncomputed hc)) rfl rfl rfl rfl)
  | naFail _ top st _ _ hc _ _ _ U _ _ => exact upd1 U (fun ho => by simp [finishView] at ho)
  | first _ top st _ _ hc _ _ U _ _ =>
    exact upd1 U (fun _ => wsV_of_eq (hW.fut top (out_none_of_uncomputed hc)) rfl rfl rfl rfl)
  | enterGen _ _ _ _ _ _ _ e _ _ _ => exact same e
  | gen t old rest hctl0 d =>
    have hwt := hW.fut t (hA.gen t old rest hctl0).2.1
    cases d with
    | loc v' hu _ _ _ _ hown hinh _ _ _ _ _ hbs => exact upd1 hu.toS (fun _ => wsV_bodyStep hwt hinh hown hbs)
    | spawn child k pass hb hp hu _ _ _ _ =>
      unfold wsV at hwt
      rw [hb] at hwt
      simp only [ws, Bool.and_eq_true] at hwt
      refine upd2 hu (fun _ => wsV_own hwt.2) ?_
      unfold wsV taskView
      simpa [kont] using hwt.1.2
    | item kind payload mode k seq hb _ hu _ _ _ =>
      unfold wsV at hwt
      rw [hb] at hwt
      exact upd2 hu (fun _ => wsV_own hwt) rfl
    | other k kd out hb _ hu _ _ _ _ =>
      unfold wsV at hwt
      refine upd2 hu (fun _ => wsV_own ?_) rfl
      rcases hb with ⟨a, hb⟩ | ⟨a, hb⟩ | ⟨a, hb⟩ <;> rw [hb] at hwt <;> exact hwt
    | yield ry npy nd leave _ _ _ _ hu _ => exact upd1 hu.toS (fun _ => wsV_of_eq hwt rfl rfl rfl rfl)
    | finish o _ hu _ => exact upd1 hu.toS (fun ho => by simp [finishView] at ho)
  | flush _ _ _ _ _ _ F _ =>
    refine ⟨by rw [F.tops]; exact hW.tops, fun f ho => ?_⟩
    rcases F.view f with e | ⟨_, o, e⟩
    · rw [e] at ho ⊢; exact hW.fut f ho
    · rw [e] at ho; simp [doneView] at ho

/-- `ReachWS s`: `s` is reached by a run of a program all of whose top-level computations are yield-only and
    well-scoped (P27: they may create NonAsyncContexts).  Hypotheses on the program only. -/
inductive ReachWS : State → Prop
  | init (cfg : Cfg) (tops : List (Conv × Body)) (choices : List (Nat × Nat))
      (h : ∀ p ∈ tops, Spec.bodyHasSync p.2 = false ∧ wsBody p.2 = true) :
      ReachWS (initState cfg tops choices)
  | step {s : State} : ReachWS s → ReachWS (step s)

theorem reachYO_of_ws (s : State) (h : ReachWS s) (hs : s.stuck = none) (hg : s.guardFired = false) :
    ReachYO s ∧ WSInv s := by
  induction h with
  | init cfg tops choices hyo =>
    exact ⟨ReachYO.init cfg tops choices (fun p hp => (hyo p hp).1),
      wsInv_init cfg tops choices (fun p hp => (hyo p hp).2)⟩
  | @step s _ ih =>
    have hs0 := stuck_mono s hs
    have hg0 := P3.guard_mono s hg
    obtain ⟨hr, hW⟩ := ih hs0 hg0
    have hA := (inv6 s hr hs0 hg0).a
    have hsc := hW.stepScoped hA
    obtain ⟨d, _⟩ := desc_of_reach s hr hs hg
    exact ⟨ReachYO.step hr hsc, wsInv_step hA hW d⟩

theorem reachWS_runFuel (cfg : Cfg) (tops : List (Conv × Body)) (choices : List (Nat × Nat))
    (h : ∀ p ∈ tops, Spec.bodyHasSync p.2 = false ∧ wsBody p.2 = true) (n : Nat) :
    ReachWS (runFuel n (initState cfg tops choices)) := by
  suffices hh : ∀ s, ReachWS s → ReachWS (runFuel n s) from hh _ (ReachWS.init cfg tops choices h)
  induction n with
  | zero => intro s h; exact h
  | succ n ih =>
    intro s h
    unfold runFuel
    split
    · exact h
    · exact ih _ (ReachWS.step h)

end AsynqModel.Core.P27
