import AsynqModel.Proofs.Batching2
/-! helper lemmas for C11, part 3: the loops (leftover completion, scripted and built-in flush bodies) -/
namespace AsynqModel.Batching
set_option linter.unusedSimpArgs false

/-- a piece of the operation that starts in `s` and ends in `r.1` having logged `r.2` -/
structure Steps (s0 : St) (b0 a : Nat) (s : St) (r : St × List Ev) : Prop where
  next : Next s0 b0 a s r.1
  evs : ∀ ev ∈ r.2, EvOK s0 b0 a r.1 ev
  plain : ∀ ev ∈ r.2, ev.isPlain = true
  law : Law s r.1 r.2

theorem Steps.nil {s0 b0 a s} (h : Mid s0 b0 a s) : Steps s0 b0 a s (s, []) :=
  ⟨Next.refl h, by simp, by simp, Law.nil s⟩

theorem Steps.append {s0 b0 a s s1 s2 e1 e2} (h1 : Steps s0 b0 a s (s1, e1)) (h2 : Steps s0 b0 a s1 (s2, e2)) :
    Steps s0 b0 a s (s2, e1 ++ e2) := by
  refine ⟨h1.next.trans h2.next, ?_, ?_, h1.law.append h2.law h1.next.ext h2.next.ext⟩
  · intro ev hev
    rcases List.mem_append.mp hev with hev | hev
    · exact evok_mono h2.next.ext h1.next.mid.b0lt ev (h1.evs ev hev)
    · exact h2.evs ev hev
  · intro ev hev
    rcases List.mem_append.mp hev with hev | hev
    · exact h1.plain ev hev
    · exact h2.plain ev hev

theorem ext_iout_some {s s' : St} (hE : Ext s s') (i : Nat) (hi : i < s.items.length) (h : (s.iout i).isSome) :
    (s'.iout i).isSome := by
  rw [(hE.2.2.2.2 i hi).2.2.2.1 h]; exact h

/-- the part of `Rule` that does not depend on the item: the batch's error, or "not set" for a user batch -/
def RuleB (s : St) (b0 : Nat) (o : Outc) : Prop :=
  (∃ e, o = .err e ∧ s.bout b0 = some (.err e)) ∨
  (o = .err .notSet ∧ s.kind = .user ∧ ∃ v, s.bout b0 = some (.val v))

theorem RuleB.next {s0 b0 a s s' o} (hn : Next s0 b0 a s s') (h : RuleB s b0 o) : RuleB s' b0 o := by
  unfold RuleB at *
  rw [hn.bo, ← hn.ext.1.1]; exact h

theorem RuleB.rule {s b0 o} (i : Nat) (h : RuleB s b0 o) : Rule s b0 i o := by
  rcases h with h | h
  · exact Or.inl h
  · exact Or.inr (Or.inl h)

theorem leftovers_allset (io : Outc) (L : List Nat) (s : St) (h : ∀ i ∈ L, (s.iout i).isSome) :
    leftovers io L s = (s, []) := by
  induction L with
  | nil => rfl
  | cons i is ih =>
    simp only [leftovers, h i (by simp), if_true]
    exact ih (fun j hj => h j (by simp [hj]))

theorem leftovers_spec {s0 b0 a} (io : Outc) (L : List Nat) :
    ∀ s, Mid s0 b0 a s → (∀ i ∈ L, i ∈ s.bitems b0) → RuleB s b0 io →
      Steps s0 b0 a s (leftovers io L s) ∧ ∀ i ∈ L, ((leftovers io L s).1.iout i).isSome := by
  induction L with
  | nil => intro s h _ _; exact ⟨Steps.nil h, by simp⟩
  | cons i is ih =>
    intro s h hL hR
    have hi := hL i (by simp)
    have ⟨hlt, _⟩ := h.mem b0 h.b0lt i hi
    unfold leftovers
    by_cases hc : (s.iout i).isSome
    · simp only [hc, if_true]
      have ⟨st, hall⟩ := ih s h (fun j hj => hL j (by simp [hj])) hR
      refine ⟨st, ?_⟩
      intro j hj
      simp at hj
      rcases hj with hj | hj
      · subst hj; exact ext_iout_some st.next.ext _ hlt hc
      · exact hall j hj
    · simp only [hc]
      have hn : s.iout i = none := by simpa using hc
      have ⟨n1, io1, ev1, na1, l1⟩ := completeItem_spec h s.items.length i io false hi hn (fun _ => hR.rule i)
      have ⟨st, hall⟩ := ih (completeItem s.items.length s i io false).1 n1.mid
        (fun j hj => by rw [n1.bi]; exact hL j (by simp [hj])) (hR.next n1)
      refine ⟨Steps.append ⟨n1, ev1, na1, l1⟩ st, ?_⟩
      intro j hj
      simp at hj
      rcases hj with hj | hj
      · subst hj
        exact ext_iout_some st.next.ext _ (by have := n1.ext.2.2.1; omega) (by simp [io1])
      · exact hall j hj

theorem setAllLoop_spec {s0 b0 a} (L : List Nat) :
    ∀ s, Mid s0 b0 a s → (∀ i ∈ L, i ∈ s.bitems b0) → Steps s0 b0 a s (setAllLoop L s) := by
  induction L with
  | nil => intro s h _; exact Steps.nil h
  | cons i is ih =>
    intro s h hL
    have hi := hL i (by simp)
    unfold setAllLoop
    by_cases hc : (s.iout i).isSome
    · simp only [hc, if_true]
      exact ih s h (fun j hj => hL j (by simp [hj]))
    · simp only [hc]
      have hn : s.iout i = none := by simpa using hc
      have ⟨n1, _, ev1, na1, l1⟩ := completeItem_spec h s.items.length i (.val (s.payload i)) true hi hn (fun hf => by cases hf)
      have st := ih (completeItem s.items.length s i (.val (s.payload i)) true).1 n1.mid
        (fun j hj => by rw [n1.bi]; exact hL j (by simp [hj]))
      exact Steps.append ⟨n1, ev1, na1, l1⟩ st

theorem debugFlush_spec {s0 b0 a} (L : List Nat) :
    ∀ s, Mid s0 b0 a s → s.kind = .debug → (∀ i ∈ L, i ∈ s.bitems b0) →
      Steps s0 b0 a s ((debugFlush L s).1, (debugFlush L s).2.1) ∧
      ((debugFlush L s).2.2 = none → ∀ i ∈ L, ((debugFlush L s).1.iout i).isSome) := by
  induction L with
  | nil => intro s h _ _; exact ⟨Steps.nil h, by simp⟩
  | cons i is ih =>
    intro s h hk hL
    have hi := hL i (by simp)
    have ⟨hlt, _⟩ := h.mem b0 h.b0lt i hi
    unfold debugFlush
    by_cases hc : (s.iout i).isSome
    · simp only [hc, if_true]
      exact ⟨Steps.nil h, by simp⟩
    · simp only [hc]
      have hn : s.iout i = none := by simpa using hc
      have ⟨n1, io1, ev1, na1, l1⟩ := completeItem_spec h s.items.length i (.val (s.payload i)) false hi hn
        (fun _ => Or.inr (Or.inr ⟨hk, rfl⟩))
      have ⟨st, hall⟩ := ih (completeItem s.items.length s i (.val (s.payload i)) false).1 n1.mid
        (by rw [← n1.ext.1.1]; exact hk) (fun j hj => by rw [n1.bi]; exact hL j (by simp [hj]))
      refine ⟨Steps.append ⟨n1, ev1, na1, l1⟩ st, ?_⟩
      intro hr j hj
      simp at hj
      rcases hj with hj | hj
      · subst hj
        exact ext_iout_some st.next.ext _ (by have := n1.ext.2.2.1; omega) (by simp [io1])
      · exact hall hr j hj

theorem act1_spec {s0 b0 a s} (h : Mid s0 b0 a s) (x : Act) :
    Steps s0 b0 a s ((act1 b0 x s).1, (act1 b0 x s).2.1) := by
  cases x with
  | setValue k v =>
    simp only [act1]
    cases hk : (s.bitems b0)[k]? with
    | none => exact Steps.nil h
    | some i =>
      have hi : i ∈ s.bitems b0 := List.mem_of_getElem? hk
      by_cases hc : (s.iout i).isSome
      · simp only [hc, if_true]; exact Steps.nil h
      · simp only [hc]
        have hn : s.iout i = none := by simpa using hc
        have ⟨n1, _, ev1, na1, l1⟩ := completeItem_spec h s.items.length i (.val v) true hi hn (fun hf => by cases hf)
        exact ⟨n1, ev1, na1, l1⟩
  | setError k e =>
    simp only [act1]
    cases hk : (s.bitems b0)[k]? with
    | none => exact Steps.nil h
    | some i =>
      have hi : i ∈ s.bitems b0 := List.mem_of_getElem? hk
      by_cases hc : (s.iout i).isSome
      · simp only [hc, if_true]; exact Steps.nil h
      · simp only [hc]
        have hn : s.iout i = none := by simpa using hc
        have ⟨n1, _, ev1, na1, l1⟩ := completeItem_spec h s.items.length i (.err (.user e)) true hi hn (fun hf => by cases hf)
        exact ⟨n1, ev1, na1, l1⟩
  | setAll =>
    simp only [act1]
    exact setAllLoop_spec (s.bitems b0) s h (fun _ hj => hj)
  | newItem p =>
    simp only [act1]
    simp only [newItemOn_mid h p none (some b0)]
    have n2 := next_pushItem h p none
    refine ⟨n2, ?_, ?_, law_pushItem s a p none (some b0) none⟩
    · intro ev hev
      simp at hev; subst hev
      exact ⟨rfl, rfl, h.ext.2.2.1, by simp, by simp [pushItem_ibatch]⟩
    · intro ev hev
      simp at hev; subst hev; rfl
  | raise e => exact Steps.nil h

theorem runScript_spec {s0 b0 a} (sc : Script) :
    ∀ s, Mid s0 b0 a s → Steps s0 b0 a s ((runScript b0 sc s).1, (runScript b0 sc s).2.1) := by
  induction sc with
  | nil => intro s h; exact Steps.nil h
  | cons x rest ih =>
    intro s h
    have st1 := act1_spec h x
    unfold runScript
    rcases hx : act1 b0 x s with ⟨s1, e1, r⟩
    rw [hx] at st1
    cases r with
    | some e => exact st1
    | none =>
      simp only
      exact Steps.append st1 (ih s1 st1.next.mid)

/-! ### two facts about the logs that do not need the invariant -/

/-- every completion by the library (`byBody = false`) logged in `evs` carries the outcome `io` -/
def LibIs (io : Outc) (evs : List Ev) : Prop := ∀ j o', Ev.item j o' false ∈ evs → o' = io

def NoLib (evs : List Ev) : Prop := ∀ j o', Ev.item j o' false ∉ evs

theorem newItemOn_evs {s : St} {b p : Nat} {sp src : Option Nat} {lk : Option Link} {r : St × List Ev}
    (h : newItemOn s b p sp src lk = some r) : r.2 = [.created s.items.length b src] := by
  unfold newItemOn at h
  split at h
  · cases h
  · split at h
    · cases h
    · cases h; rfl

theorem spawnPart_noitem (s1 : St) (it : Item) (j : Nat) (o' : Outc) (bb : Bool) :
    Ev.item j o' bb ∉ (spawnPart s1 it).2 := by
  unfold spawnPart
  cases it.spawn with
  | none => simp
  | some p =>
    simp only
    cases h : newItemOn s1 s1.active p none (some it.batch) with
    | none => simp
    | some r => simp [newItemOn_evs h]

theorem completeItem_noLib (fuel : Nat) : ∀ (s : St) (i : Nat) (o : Outc), NoLib (completeItem fuel s i o true).2 := by
  induction fuel with
  | zero =>
    intro s i o j o' hmem
    unfold completeItem at hmem
    cases e : s.items[i]? with
    | none => simp [e] at hmem
    | some it =>
      simp only [e, List.mem_cons] at hmem
      rcases hmem with hmem | hmem
      · cases hmem
      · exact spawnPart_noitem _ _ _ _ _ hmem
  | succ fuel ih =>
    intro s i o j o' hmem
    unfold completeItem at hmem
    cases e : s.items[i]? with
    | none => simp [e] at hmem
    | some it =>
      simp only [e] at hmem
      cases hl : it.link with
      | none =>
        simp only [hl, List.mem_cons] at hmem
        rcases hmem with hmem | hmem
        · cases hmem
        · exact spawnPart_noitem _ _ _ _ _ hmem
      | some l =>
        simp only [hl] at hmem
        split at hmem
        · simp only [List.mem_cons, List.mem_append] at hmem
          rcases hmem with hmem | hmem | hmem
          · cases hmem
          · exact spawnPart_noitem _ _ _ _ _ hmem
          · exact ih _ _ _ _ _ hmem
        · simp only [List.mem_cons] at hmem
          rcases hmem with hmem | hmem
          · cases hmem
          · exact spawnPart_noitem _ _ _ _ _ hmem

theorem completeItem_libIs (fuel : Nat) (s : St) (i : Nat) (o : Outc) (bb : Bool) :
    LibIs o (completeItem fuel s i o bb).2 := by
  intro j o' hmem
  cases fuel with
  | zero =>
    unfold completeItem at hmem
    cases e : s.items[i]? with
    | none =>
      simp only [e, List.mem_singleton] at hmem
      cases hmem; rfl
    | some it =>
      simp only [e, List.mem_cons] at hmem
      rcases hmem with hmem | hmem
      · cases hmem; rfl
      · exact absurd hmem (spawnPart_noitem _ _ _ _ _)
  | succ fuel =>
    unfold completeItem at hmem
    cases e : s.items[i]? with
    | none =>
      simp only [e, List.mem_singleton] at hmem
      cases hmem; rfl
    | some it =>
      simp only [e] at hmem
      cases hl : it.link with
      | none =>
        simp only [hl, List.mem_cons] at hmem
        rcases hmem with hmem | hmem
        · cases hmem; rfl
        · exact absurd hmem (spawnPart_noitem _ _ _ _ _)
      | some l =>
        simp only [hl] at hmem
        split at hmem
        · simp only [List.mem_cons, List.mem_append] at hmem
          rcases hmem with hmem | hmem | hmem
          · cases hmem; rfl
          · exact absurd hmem (spawnPart_noitem _ _ _ _ _)
          · exact absurd hmem (completeItem_noLib _ _ _ _ _ _)
        · simp only [List.mem_cons] at hmem
          rcases hmem with hmem | hmem
          · cases hmem; rfl
          · exact absurd hmem (spawnPart_noitem _ _ _ _ _)

theorem leftovers_libIs (io : Outc) (L : List Nat) : ∀ s, LibIs io (leftovers io L s).2 := by
  induction L with
  | nil => intro s j o' hmem; simp [leftovers] at hmem
  | cons i is ih =>
    intro s j o' hmem
    unfold leftovers at hmem
    split at hmem
    · exact ih s j o' hmem
    · simp only [List.mem_append] at hmem
      rcases hmem with hmem | hmem
      · exact completeItem_libIs _ _ _ _ _ j o' hmem
      · exact ih _ j o' hmem

/-- `DebugBatch._flush` returns, or raises FutureIsAlreadyComputed -/
theorem debugFlush_res (L : List Nat) : ∀ s, (debugFlush L s).2.2 = none ∨ (debugFlush L s).2.2 = some .already := by
  induction L with
  | nil => intro s; left; rfl
  | cons i is ih =>
    intro s
    unfold debugFlush
    split
    · right; rfl
    · exact ih _

end AsynqModel.Batching
