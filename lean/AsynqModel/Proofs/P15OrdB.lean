import AsynqModel.Proofs.P15OrdA
/-!
  P15, part 14 (start-order clause): what one step does to the observer's fields and to `started` (from the
  classification of P2), and the two special arguments: a yield creates no obligation for a task that is already on the
  stack and awaited from one place only; the root pushed by `_execute` is under no obligation.
-/
namespace AsynqModel.Core.P15
open AsynqModel.Core AsynqModel.Core.Spec AsynqModel.Core.P2 AsynqModel.Core.P14

/-- what a step does to the trace, `started`, and the observer's obligations -/
structure StepW (s : State) : Prop where
  tr : ∃ new, (step s).trace = new ++ s.trace
  st : ∀ a, (s.task a).started = true → ((step s).task a).started = true
  obl : (wOf (step s).trace).orderObl = (wOf s.trace).orderObl ∨
    ∃ t old rest ry, s.ctl = .gen t old :: rest ∧ (s.task t).pending = false ∧
      (wOf (step s).trace).orderObl = (t, freshOf (wOf s.trace) ry) :: (wOf s.trace).orderObl ∧
      ∀ f ∈ freshOf (wOf s.trace) ry, (f, t) ∈ (wOf (step s).trace).mentions

theorem stepW_reach {s : State} (h : Reach s) : StepW s := by
  have pin := pinv_reach h
  rcases step_kind s pin.items pin.genKind pin.z with ⟨q, _⟩ | ⟨q, _⟩ | ⟨t, old, rest, g, h1, _, _, hg, c, _, _⟩ |
      ⟨t, old, rest, g, o, h1, _, _, _, hg, c, _, _⟩ | ⟨t, old, rest, g, ry, deps, h1, hp, hg, _, c, _⟩
  · obtain ⟨new, e, hn⟩ := q.trace
    refine ⟨⟨new, e⟩, fun a ha => ?_, Or.inl ?_⟩
    · rw [task_eq_ts, (q.fut a).started]; exact ha
    · rw [e]; exact orderObl_noyield new s.trace (fun e' he' => (hn e' he').1)
  · obtain ⟨new, e, hn⟩ := q.trace
    refine ⟨⟨new, e⟩, fun a ha => ?_, Or.inl ?_⟩
    · rw [task_eq_ts, (q.fut a).started]; exact ha
    · rw [e]; exact orderObl_noyield new s.trace (fun e' he' => (hn e' he').1)
  · refine ⟨⟨[_], c.trace⟩, fun a ha => ?_, Or.inl ?_⟩
    · rw [task_of_futs_eq c.futs, P10.task_updTask]
      split
      · exact (hg _).2.1
      · exact ha
    · rw [c.trace, wOf_cons]; exact inert_orderObl _ _ rfl
  · refine ⟨⟨[_], c.trace⟩, fun a ha => ?_, Or.inl ?_⟩
    · rw [task_of_futs_eq c.futs, P10.task_updTask]
      split
      · next hc => rw [(hg _).2.1, ← hc.1]; exact ha
      · exact ha
    · rw [c.trace, wOf_cons]; exact inert_orderObl _ _ rfl
  · refine ⟨⟨[_], c.trace⟩, fun a ha => ?_, Or.inr ⟨t, old, rest, ry, h1, hp, ?_, ?_⟩⟩
    · rw [task_of_futs_eq c.futs, P10.task_updTask]
      split
      · next hc => rw [(hg _).2.1, ← hc.1]; exact ha
      · exact ha
    · rw [c.trace, wOf_cons, yield_orderObl]
    · intro f hf
      rw [c.trace, wOf_cons]
      exact mention_mem _ _ _ _ (mem_freshOf_leaves hf)

theorem StepW.el {s : State} (w : StepW s) (t : Nat) (h : elsewhere (wOf s.trace) t) :
    elsewhere (wOf (step s).trace) t := by
  obtain ⟨new, e⟩ := w.tr
  rw [e]; exact elsewhere_mono_tr new s.trace t h

theorem StepW.men {s : State} (w : StepW s) (p : Nat × Nat) (h : p ∈ (wOf s.trace).mentions) :
    p ∈ (wOf (step s).trace).mentions := by
  obtain ⟨new, e⟩ := w.tr
  rw [e]; exact mentions_mono_tr new s.trace p h

theorem StepW.unst {s : State} (w : StepW s) {t : Nat} (h : ((step s).task t).started = false) :
    (s.task t).started = false := by
  cases hc : (s.task t).started with
  | false => rfl
  | true => rw [w.st t hc] at h; cases h

/-- a stack entry that has not started is mentioned by a task that is suspended or in a synchronous call -/
theorem stack_mention {s : State} (h : P10.WSReach s) (hg : s.guardFired = false) (hn : Inv.noNonAsync s = true)
    {p t : Nat} (hp : s.stack[p]? = some t) (hts : (s.task t).started = false)
    {t0 : Nat} {old : Option Nat} {rest : List Ctl} (hc : s.ctl = .gen t0 old :: rest)
    (hp0 : (s.task t0).pending = false) :
    ∃ pa, pa ≠ t0 ∧ (t, pa) ∈ (wOf s.trace).mentions := by
  have hna := P7.na_of_noNonAsync hn
  have pin := pinv_reach h.reach
  have lb := P12.lib_of_ws h hg hna
  have j := P12.J_reach h hg hna
  have qs := Q_reach h hg hn
  have rs := R_reach h.reach
  obtain ⟨L, hL, hlab, _⟩ := j.lab
  have hlen : L.length = s.stack.length := by rw [← hL]; simp
  have hplt : p < s.stack.length := by
    rcases Nat.lt_or_ge p s.stack.length with h1 | h1
    · exact h1
    · rw [List.getElem?_eq_none h1] at hp; cases hp
  -- the label of position `p`
  have hLp : ∃ pa, L[p]? = some (t, pa) := by
    have h1 : (L.map Prod.fst)[p]? = some t := by rw [hL]; exact hp
    rw [List.getElem?_map] at h1
    cases hq : L[p]? with
    | none => rw [hq] at h1; cases h1
    | some x =>
      rw [hq] at h1
      simp only [Option.map_some, Option.some.injEq] at h1
      exact ⟨x.2, by rw [← h1]⟩
  obtain ⟨pa, hpa⟩ := hLp
  have hlink_contra : ∀ b, P12.Link s t b → False := by
    intro b hl
    rcases hl.2 with ⟨_, _, h3⟩ | h3
    · rw [qs.q1 t hts] at h3; cases h3
    · have := rs.np h3.2.1
      rw [hts] at this; cases this
  by_cases hlast : p + 1 = s.stack.length
  · -- bottom entry: the head of the stack is `t0` (started), so there is an entry above it
    have hpat : pa = t := lab_last L hlab p t pa hpa (by rw [hlen]; exact hlast.symm)
    have hd := lb.disc
    rw [hc] at hd
    have hhead : s.stack.head? = some t0 := hd.1
    have hne : t ≠ t0 := by
      intro e
      have := rs.np hp0
      rw [← e, hts] at this; cases this
    have hp1 : 1 ≤ p := by
      rcases Nat.eq_zero_or_pos p with e | e
      · subst e
        cases hs : s.stack with
        | nil => rw [hs] at hp; cases hp
        | cons x xs =>
          rw [hs] at hp hhead
          simp at hp hhead
          exact absurd (hp.symm.trans hhead) hne
      · exact e
    obtain ⟨p0, rfl⟩ : ∃ p0, p = p0 + 1 := ⟨p - 1, by omega⟩
    have : ∃ x, L[p0]? = some x := by
      cases hq : L[p0]? with
      | none => rw [List.getElem?_eq_none_iff] at hq; omega
      | some x => exact ⟨x, rfl⟩
    obtain ⟨⟨b, pb⟩, hb⟩ := this
    obtain ⟨hl, hor⟩ := lab_pos L hlab p0 b pb t pa hb hpa
    rw [hpat] at hor
    have : pb = t := by rcases hor with e | e <;> exact e
    rw [this] at hl
    exact (hlink_contra b hl).elim
  · -- an entry with a parent
    have : ∃ x, L[p + 1]? = some x := by
      cases hq : L[p + 1]? with
      | none => rw [List.getElem?_eq_none_iff] at hq; omega
      | some x => exact ⟨x, rfl⟩
    obtain ⟨⟨b, pb⟩, hb⟩ := this
    obtain ⟨hl, _⟩ := lab_pos L hlab p t pa b pb hpa hb
    refine ⟨pa, ?_, ?_⟩
    · intro e
      rw [e] at hl
      rcases hl.2 with ⟨_, h2, _⟩ | h3
      · rw [hp0] at h2; cases h2
      · have hnd := pin.distinct
        have he := h3.2.2
        rw [hc] at hnd he
        exact P12.not_edgeIn_head hnd he
    · rcases hl.2 with ⟨_, _, h3⟩ | ⟨⟨k, hh, h3⟩, _, _⟩
      · exact qs.q5 pa t h3
      · exact qs.q6 pa t k hh h3

/-- the root `_execute` pushes is under no start-order obligation -/
theorem root_no_obl {s : State} (h : P10.WSReach s) (hg : s.guardFired = false) (hn : Inv.noNonAsync s = true)
    {root : Nat} {rest : List Ctl} (hc : s.ctl = .waitEnter root :: rest)
    (hts : (s.task root).started = false) {u : Nat} {l : List Nat} (hm : (u, l) ∈ (wOf s.trace).orderObl)
    (hl : root ∈ l) (hse : ¬ elsewhere (wOf s.trace) root) : False := by
  have hna := P7.na_of_noNonAsync hn
  have lb := P12.lib_of_ws h hg hna
  have j := P12.J_reach h hg hna
  have qs := Q_reach h hg hn
  have hmen := obl_mentions s.trace u l hm root hl
  have hkr := qs.q4 u l hm root hl
  -- the mentioner `u` is suspended with `root` among its dependencies
  have hu : s.out u = none ∧ (s.task u).pending = true ∧ root ∈ (s.task u).deps := by
    rcases qs.q9 root u hmen hkr with h1 | h1 | ⟨h1, h2, h3⟩
    · rw [hts] at h1; cases h1
    · exact h1
    · rcases qs.q8 u l hm with c1 | c1 | c1
      · exact absurd h1 c1
      · have := c1 root hl; rw [hts] at this; cases this
      · rw [c1.1] at h2; cases h2
  have hd := lb.disc
  rw [hc] at hd
  rcases hd.1 with e | ⟨v, o, rest', e⟩
  · -- the outermost call: `u` would have to be awaited from the root
    subst e
    have hust : (s.task u).started = true := by
      cases hq : (s.task u).started with
      | true => rfl
      | false => have := qs.q1 u hq; rw [this] at hu; cases hu.2.2
    have hcu : s.computed u = false := by unfold State.computed; rw [hu.1]; rfl
    obtain ⟨c, hcm, ρ, hw, ch⟩ := aw_reach h hg hn u (qs.q10 root u hmen) hcu (Or.inl hust)
    rw [hc] at hcm
    simp only [List.mem_singleton] at hcm
    subst hcm
    have hρ := isWait_enter_eq hw
    subst hρ
    rcases ch.first with e | ⟨x, hx⟩
    · rw [e, hts] at hust; cases hust
    · have := qs.q1 ρ hts
      have hx' := hx.2.2.2
      rw [this] at hx'; cases hx'
  · -- a synchronous call of `v`: then `v` mentions the root too, and `v` is not suspended
    subst e
    have hedge : P12.edgeIn s.ctl v root := by
      rw [hc]; exact P12.edgeIn_head o rest' (P12.isWait_enter root)
    obtain ⟨_, ⟨k, hh, hb⟩, hpv, _⟩ := j.sync v root hedge
    have hmv := qs.q6 v root k hh hb
    have := single_unique hse hmen hmv
    subst this
    rw [hu.2.1] at hpv; cases hpv

end AsynqModel.Core.P15
