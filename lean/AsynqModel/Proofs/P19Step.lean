import AsynqModel.Proofs.P19GenF
import AsynqModel.Proofs.P4TraceStep
/-
  P19, part 17: the invariant `MInv` of tree-shaped single-kind yield-only runs and its preservation by one step.
-/
namespace AsynqModel.Core.P19
open AsynqModel.Core AsynqModel.Core.P6

/-- what every `ret` event of the trace says: since the last `top` event exactly `roundsTop` flushes happened -/
def TrOK (cfg : Cfg) (tops0 : List (Conv × Body)) (tr : List Event) : Prop :=
  ∀ l1 l2 o, tr = l1 ++ .ret o :: l2 →
    ∃ conv body, tops0[topOf l2]? = some (conv, body) ∧ fcount l2 = roundsTop cfg body

structure MInv (k0 : Nat) (cfg : Cfg) (tops0 : List (Conv × Body)) (s : State) : Prop where
  sinv : SInv k0 s
  vinv : VInv s
  genTop : ∀ t old rest, s.ctl = .gen t old :: rest → ∃ st, s.stack = t :: st
  rootOwn : ∀ root, s.curTop = some root → ∀ x, root ∉ (view s x).own
  main : ∀ root, s.curTop = some root →
    ∃ conv body, tops0[topOf s.trace]? = some (conv, body) ∧ E s root (roundsTop cfg body)
  tr : TrOK cfg tops0 s.trace

/-- splitting `pre ++ tr = l1 ++ e :: l2`: `e` lies in `tr` or in `pre` -/
theorem split_append {α : Type} {pre tr l1 l2 : List α} {e : α} (h : pre ++ tr = l1 ++ e :: l2) :
    (∃ a, l1 = pre ++ a ∧ tr = a ++ e :: l2) ∨ (∃ c, pre = l1 ++ e :: c ∧ l2 = c ++ tr) := by
  rcases List.append_eq_append_iff.1 h with ⟨a, h1, h2⟩ | ⟨c, h1, h2⟩
  · exact Or.inl ⟨a, h1, h2⟩
  · cases c with
    | nil => exact Or.inl ⟨[], by simpa using h1.symm, by simpa using h2.symm⟩
    | cons x c =>
      simp only [List.cons_append] at h2
      injection h2 with h3 h4
      subst h3
      exact Or.inr ⟨c, h1, h4⟩

theorem trOK_ext' {cfg : Cfg} {tops0 : List (Conv × Body)} {tr : List Event} (h : TrOK cfg tops0 tr)
    (evs : List Event) (hq : ∀ e ∈ evs, ∀ o, e ≠ .ret o) : TrOK cfg tops0 (evs ++ tr) := by
  intro l1 l2 o he
  rcases split_append he with ⟨a, _, h2⟩ | ⟨c, h1, _⟩
  · exact h a l2 o h2
  · exact absurd rfl (hq (.ret o) (by rw [h1]; simp) o)

theorem trOK_ext {cfg : Cfg} {tops0 : List (Conv × Body)} {tr : List Event} (h : TrOK cfg tops0 tr)
    (evs : List Event) (hq : ∀ e ∈ evs, quietEv e = true) : TrOK cfg tops0 (evs ++ tr) :=
  trOK_ext' h evs (fun e he o e' => by have := hq e he; rw [e'] at this; cases this)

theorem topOf_of_lastTop {tr : List Event} {i : Nat} {c : Conv} (h : P4.lastTop tr = some (i, c)) : topOf tr = i := by
  induction tr with
  | nil => cases h
  | cons e tr ih =>
    cases e <;> first | exact ih h | (simp [P4.lastTop] at h; simp [topOf, h.1])

/-- the root of the current computation, read off the control stack -/
theorem curTop_of_ctl {s : State} (B : P4.BI s) (hsh : CtlShape s.ctl) {c : Ctl} {x : Nat} (hc : c ∈ s.ctl)
    (hx : ctlRoot c = some x) : s.curTop = some x := by
  unfold P4.BI at B
  cases hcur : s.curTop with
  | none => rw [hcur] at B; simp only at B; rw [B] at hc; cases hc
  | some f =>
    rw [hcur] at B
    simp only at B
    rcases B with ⟨h, _⟩ | ⟨c0, hl, hc0⟩
    · rw [h] at hc; cases hc
    · have hx0 : ctlRoot c0 = some f := by
        rcases hc0 with e | ⟨b, e⟩ <;> rw [e] <;> rfl
      rcases hsh with h0 | ⟨r0, h0⟩ | ⟨r0, b0, h0⟩ | ⟨t0, old0, r0, b0, h0⟩
      · rw [h0] at hc; cases hc
      · rw [h0] at hc hl
        simp at hc hl
        subst hc hl
        rw [hx] at hx0; exact hx0.symm
      · rw [h0] at hc hl
        simp at hc hl
        subst hc hl
        rw [hx] at hx0; exact hx0.symm
      · rw [h0] at hc hl
        simp at hc hl
        subst hl
        rcases hc with e | e
        · subst e; cases hx
        · subst e; rw [hx] at hx0; exact hx0.symm

theorem computed_of_done {s : State} (B : P4.BI s) (hctl : s.ctl = []) {root : Nat} (hcur : s.curTop = some root) :
    s.computed root = true := by
  unfold P4.BI at B
  rw [hcur] at B
  simp only at B
  rcases B with ⟨_, h⟩ | ⟨c0, hl, _⟩
  · unfold State.computed State.out
    cases ho : (s.fut root).out with
    | none => exact absurd ho h
    | some o => rfl
  · rw [hctl] at hl; cases hl

/-- the end of a top-level computation: the flush count agrees with `roundsTop` -/
theorem minv_fin {k0 : Nat} {cfg : Cfg} {tops0 : List (Conv × Body)} {s r : State} (M : MInv k0 cfg tops0 s)
    (B : P4.BI s) (root : Nat) (o : Outcome) (hctl : s.ctl = []) (hcur : s.curTop = some root)
    (htr : ∃ e1 e2, r.trace = e1 :: e2 :: .ret o :: s.trace ∧ quietEv e1 = true ∧ quietEv e2 = true)
    (hcur' : r.curTop = none) (hS' : SInv k0 r) (hV' : VInv r)
    (hgen : ∀ t old rest, r.ctl = .gen t old :: rest → ∃ st, r.stack = t :: st) : MInv k0 cfg tops0 r := by
  refine ⟨hS', hV', hgen, ?_, ?_, ?_⟩
  · intro x hx; rw [hcur'] at hx; cases hx
  · intro x hx; rw [hcur'] at hx; cases hx
  · obtain ⟨e1, e2, he, q1, q2⟩ := htr
    have hnew : TrOK cfg tops0 (.ret o :: s.trace) := by
      intro l1 l2 o' h
      cases l1 with
      | nil =>
        simp at h
        obtain ⟨_, rfl⟩ := h
        obtain ⟨conv, body, h1, hE⟩ := M.main root hcur
        refine ⟨conv, body, h1, ?_⟩
        rcases hE with ⟨_, hn⟩ | ⟨hc, _⟩
        · exact hn
        · rw [computed_of_done B hctl hcur] at hc; cases hc
      | cons a l1 =>
        simp at h
        exact M.tr l1 l2 o' h.2
    rw [he]
    have := trOK_ext hnew [e1, e2] (by
      intro e hm
      simp at hm
      rcases hm with h | h <;> rw [h] <;> assumption)
    simpa using this

/-- an `XF` step that runs no task -/
theorem minv_xf {k0 : Nat} {cfg : Cfg} {tops0 : List (Conv × Body)} {s r : State} (M : MInv k0 cfg tops0 s)
    (T : P4.TI cfg tops0 s) (hx : XF s r) (hlen : r.futs.length = s.futs.length) (hm : ∀ f, MildAt s r f)
    (hdone : ∀ f, (view s f).out = none → (view r f).out ≠ none → ∃ lo, (view s f).kind = .lazy lo)
    (hstk : ∀ d, d ∈ r.stack → d ∉ s.stack → (∀ t, d ∉ (view s t).own) ∨
      ∃ top, (view s top).pending = true ∧ d ∈ (view s top).deps)
    (hS' : SInv k0 r) (hV' : VInv r)
    (hgen : ∀ t old rest, r.ctl = .gen t old :: rest → ∃ st, r.stack = t :: st) : MInv k0 cfg tops0 r := by
  refine ⟨hS', hV', hgen, ?_, ?_, ?_⟩
  · intro root hr x
    rw [hx.curTop] at hr
    rw [(hm x).own]; exact M.rootOwn root hr x
  · intro root hr
    rw [hx.curTop] at hr
    obtain ⟨conv, body, h1, hE⟩ := M.main root hr
    obtain ⟨_, _, _, _, hk, _⟩ := T.cur root hr
    exact ⟨conv, body, by rw [hx.topOf]; exact h1, E_mild hE M.vinv hlen hm hdone hx hstk hk⟩
  · obtain ⟨evs, he, hq⟩ := hx.trace
    rw [he]; exact trOK_ext M.tr evs hq

/-- a step that runs no task, flushes nothing and starts no computation -/
theorem minv_mild {k0 : Nat} {cfg : Cfg} {tops0 : List (Conv × Body)} {s r : State} (M : MInv k0 cfg tops0 s)
    (T : P4.TI cfg tops0 s) (B : P4.BI s)
    (X : StepX s r) (hlen : r.futs.length = s.futs.length) (hm : ∀ f, MildAt s r f)
    (hdone : ∀ f, (view s f).out = none → (view r f).out ≠ none → ∃ lo, (view s f).kind = .lazy lo)
    (hstk : ∀ d, d ∈ r.stack → d ∉ s.stack → (∀ t, d ∉ (view s t).own) ∨
      ∃ top, (view s top).pending = true ∧ d ∈ (view s top).deps)
    (hnf : ∀ root base rest, s.ctl = .waitLoop root base :: rest → r.ctl ≠ .waitEnter root :: rest)
    (hS' : SInv k0 r) (hV' : VInv r)
    (hgen : ∀ t old rest, r.ctl = .gen t old :: rest → ∃ st, r.stack = t :: st) : MInv k0 cfg tops0 r := by
  cases X with
  | xf _ hx => exact minv_xf M T hx hlen hm hdone hstk hS' hV' hgen
  | noflush root base rest hctl hctl' _ _ _ => exact absurd hctl' (hnf root base rest hctl)
  | flush root base rest hctl hctl' => exact absurd hctl' (hnf root base rest hctl)
  | fin root o hctl hcur htr _ _ hcur' _ _ => exact minv_fin M B root o hctl hcur htr hcur' hS' hV' hgen
  | top conv body rest _ _ _ _ _ _ _ _ hl _ => rw [hlen] at hl; omega

/-- the start of a top-level computation -/
theorem minv_top {k0 : Nat} {cfg : Cfg} {tops0 : List (Conv × Body)} {s r : State} (M : MInv k0 cfg tops0 s)
    (T : P4.TI cfg tops0 s) (X : StepX s r)
    (conv : Conv) (body : Body) (rest : List (Conv × Body)) (htops : s.tops = (conv, body) :: rest)
    (hctl0 : s.ctl = []) (U : UpdN s r (taskView body [])) (htops' : r.tops = rest)
    (hctl : r.ctl = [.waitEnter s.futs.length]) (hS' : SInv k0 r) (hV' : VInv r) : MInv k0 cfg tops0 r := by
  have hrest : rest ≠ (conv, body) :: rest := by
    intro e
    have := congrArg List.length e
    simp at this
  cases X with
  | xf _ hx => exact absurd (htops'.symm.trans (hx.tops.trans htops)) hrest
  | noflush root base rest' h => rw [hctl0] at h; cases h
  | flush root base rest' h => rw [hctl0] at h; cases h
  | fin root o _ _ _ _ _ _ ht _ => exact absurd (htops'.symm.trans (ht.trans htops)) hrest
  | top conv' body' rest' htopsX _ hcur htr hidx hcur' _ hc _ _ =>
    obtain ⟨nk, htr⟩ := htr
    refine ⟨hS', hV', ?_, ?_, ?_, ?_⟩
    · intro t old rst h; rw [hctl] at h; cases h
    · intro root hr x
      rw [hcur'] at hr
      cases hr
      by_cases hx : x = s.futs.length
      · rw [hx, U.viewN]; intro h; cases h
      · rw [U.viewO x hx]
        intro h
        exact Nat.lt_irrefl _ (M.vinv.ownLt x _ h)
    · intro root hr
      rw [hcur'] at hr
      cases hr
      have hdrop : tops0.drop s.topIdx = (conv, body) :: rest := by rw [← T.topsEq]; exact htops
      refine ⟨conv, body, ?_, ?_⟩
      · rw [htr]
        show tops0[s.topIdx]? = _
        exact (P4.drop_cons_facts tops0 s.topIdx _ _ hdrop).1
      · have := E_top (body := body) U (by rw [htr]; rfl)
        rw [hc, T.cfg] at this
        exact this
    · rw [htr]
      have := trOK_ext' M.tr [.new s.futs.length nk, .top s.topIdx conv'] (by
        intro e he o
        simp at he
        rcases he with h | h <;> rw [h] <;> simp)
      simpa using this

/-- the scheduler's flush -/
theorem minv_flush {k0 : Nat} {cfg : Cfg} {tops0 : List (Conv × Body)} {s r : State} (M : MInv k0 cfg tops0 s)
    (T : P4.TI cfg tops0 s) (B : P4.BI s) (hA : InvA s) (hB : InvB s) (hFI : P4.FI s) (X : StepX s r)
    (root base : Nat) (rest : List Ctl) (hctl0 : s.ctl = .waitLoop root base :: rest)
    (hlen : s.stack.length ≤ base) (hroot : s.computed root = false) (hset : Settled s root)
    (F : FlushDesc s r) (hctl : r.ctl = .waitEnter root :: rest) (hS' : SInv k0 r) (hV' : VInv r) :
    MInv k0 cfg tops0 r := by
  have hgen : ∀ t old rst, r.ctl = .gen t old :: rst → ∃ st, r.stack = t :: st := by
    intro t old rst h; rw [hctl] at h; cases h
  have hcurR : s.curTop = some root := curTop_of_ctl B hA.shape (c := .waitLoop root base) (by rw [hctl0]; simp) rfl
  cases X with
  | xf hnf _ => exact absurd ⟨root, base, rest, hctl0, hlen, hroot⟩ hnf
  | noflush _ _ _ _ _ hf _ hx =>
    have hv : ∀ f, view r f = view s f := fun f => by unfold view State.fut; rw [hf]
    refine minv_xf M T hx (by rw [hf]) (fun f => Or.inl (hv f)) ?_ ?_ hS' hV' hgen
    · intro f h1 h2; rw [hv f] at h2; exact absurd h1 h2
    · intro d hd hn; rw [F.stack] at hd; exact absurd hd hn
  | fin _ _ h => rw [hctl0] at h; cases h
  | top _ _ _ _ h => rw [hctl0] at h; cases h
  | flush _ _ _ _ _ k q b items prio pend s1 hb hfl h1f h1c h1t h1i h1cur h1tops hx hcomp hother =>
    obtain ⟨evs, he, hq⟩ := hx.trace
    have hfc : fcount r.trace = fcount s.trace + 1 := by
      rw [he, fcount_append_quiet evs _ hq, h1t]; rfl
    have hto : topOf r.trace = topOf s.trace := by
      rw [he, topOf_append_quiet evs _ hq, h1t]; rfl
    have hcur : r.curTop = s.curTop := hx.curTop.trans h1cur
    refine ⟨hS', hV', hgen, ?_, ?_, ?_⟩
    · intro x hr y
      rw [hcur] at hr
      rw [(mild_flush F y).own]; exact M.rootOwn x hr y
    · intro x hr
      rw [hcur] at hr
      have hxr : x = root := by rw [hcurR] at hr; cases hr; rfl
      subst hxr
      obtain ⟨conv, body, h1, hE⟩ := M.main x hr
      obtain ⟨_, _, _, _, hk, _⟩ := T.cur x hr
      refine ⟨conv, body, by rw [hto]; exact h1, ?_⟩
      refine E_flush hE hroot M.vinv M.sinv hB hFI hset hk F k q b hb hfl hcomp hother hfc (hx.cfg.trans h1c) ?_
      intro f hf
      rw [hx.den f (by rw [h1f]; exact hf), fut_of_futs h1f]
    · rw [he, h1t]
      have := trOK_ext' M.tr (evs ++ [.flushB k q items prio pend]) (by
        intro e hm o
        rcases List.mem_append.1 hm with h | h
        · intro e'; have := hq e h; rw [e'] at this; cases this
        · simp at h; rw [h]; simp)
      simpa using this

theorem gd_stack {s r : State} {t : Nat} (d : GenDesc s r t) : r.stack = s.stack := by
  cases d with
  | loc v' hu => exact hu.stack
  | spawn child k pass _ _ hu => exact hu.stack
  | item kind payload mode k seq _ _ hu => exact hu.stack
  | other k kd out _ _ hu => exact hu.stack
  | yield ry npy nd leave _ _ _ _ hu => exact hu.stack
  | finish o _ hu => exact hu.stack

theorem gd_ctl {s r : State} {t : Nat} (d : GenDesc s r t) : r.ctl = s.ctl ∨ r.ctl = s.ctl.tail := by
  cases d with
  | loc v' hu hctl => exact Or.inl hctl
  | spawn child k pass _ _ hu hctl => exact Or.inl hctl
  | item kind payload mode k seq _ _ hu hctl => exact Or.inl hctl
  | other k kd out _ _ hu hctl => exact Or.inl hctl
  | yield ry npy nd leave _ _ _ _ hu hctl =>
    cases leave
    · exact Or.inl (by simpa using hctl)
    · exact Or.inr (by simpa using hctl)
  | finish o _ hu hctl => exact Or.inr hctl

theorem gd_own_sub {s r : State} {t : Nat} (d : GenDesc s r t) :
    ∀ x e, e ∈ (view r x).own → e ∈ (view s x).own ∨ e = s.futs.length := by
  have upd1 : ∀ {v' : FV}, Upd1 s r t v' → v'.own = (view s t).own →
      ∀ x e, e ∈ (view r x).own → e ∈ (view s x).own ∨ e = s.futs.length := by
    intro v' hu ho x e he
    by_cases hx : x = t
    · subst hx; rw [hu.viewT, ho] at he; exact Or.inl he
    · rw [hu.viewO x hx] at he; exact Or.inl he
  have upd2 : ∀ {k : Body} {nv : FV}, Upd2 s r t (ownView (view s t) s.futs.length k) nv → nv.own = [] →
      ∀ x e, e ∈ (view r x).own → e ∈ (view s x).own ∨ e = s.futs.length := by
    intro k nv hu ho x e he
    by_cases hx : x = t
    · subst hx
      rw [hu.viewT] at he
      rcases List.mem_append.1 (show e ∈ (view s x).own ++ [s.futs.length] from he) with h | h
      · exact Or.inl h
      · simp at h; exact Or.inr h
    · by_cases hn : x = s.futs.length
      · rw [hn, hu.viewN, ho] at he; cases he
      · rw [hu.viewO x hx hn] at he; exact Or.inl he
  cases d with
  | loc v' hu _ _ _ _ hown => exact upd1 hu hown
  | spawn child k pass _ _ hu => exact upd2 hu rfl
  | item kind payload mode k seq _ _ hu => exact upd2 hu rfl
  | other k kd out _ _ hu => exact upd2 hu rfl
  | yield ry npy nd leave _ _ _ _ hu => exact upd1 hu rfl
  | finish o _ hu => exact upd1 hu rfl

/-- one instruction of a task body -/
theorem minv_gen {k0 : Nat} {cfg : Cfg} {tops0 : List (Conv × Body)} {s r : State} (M : MInv k0 cfg tops0 s)
    (T : P4.TI cfg tops0 s) (B : P4.BI s) (hA : InvA s) (hFI : P4.FI s) (hFI' : P4.FI r) (hsc : StepScoped s)
    (hstkLt : ∀ x ∈ s.stack, x < s.futs.length) (X : StepX s r)
    (t : Nat) (old : Option Nat) (rest : List Ctl) (hctl0 : s.ctl = .gen t old :: rest)
    (hr : r = s.genStep t old) (d : GenDesc s r t) (hS' : SInv k0 r) (hV' : VInv r) : MInv k0 cfg tops0 r := by
  obtain ⟨hkT, hoT, _⟩ := hA.gen t old rest hctl0
  have hrest : ∃ r0 b0, rest = [.waitLoop r0 b0] := by
    rcases hA.shape with h0 | ⟨r0, h0⟩ | ⟨r0, b0, h0⟩ | ⟨t0, old0, r0, b0, h0⟩ <;> rw [h0] at hctl0 <;> cases hctl0
    exact ⟨r0, b0, rfl⟩
  obtain ⟨r0, b0, hrest⟩ := hrest
  obtain ⟨st, hst⟩ := M.genTop t old rest hctl0
  cases X with
  | noflush _ _ _ h => rw [hctl0] at h; cases h
  | flush _ _ _ h => rw [hctl0] at h; cases h
  | fin _ _ h => rw [hctl0] at h; cases h
  | top _ _ _ _ h => rw [hctl0] at h; cases h
  | xf _ hx =>
    have hcurR : s.curTop = some r0 :=
      curTop_of_ctl B hA.shape (c := .waitLoop r0 b0) (by rw [hctl0, hrest]; simp) rfl
    refine ⟨hS', hV', ?_, ?_, ?_, ?_⟩
    · intro t' old' rst h
      rcases gd_ctl d with e | e
      · rw [e, hctl0] at h
        cases h
        exact ⟨st, by rw [gd_stack d]; exact hst⟩
      · rw [e, hctl0, hrest] at h; cases h
    · intro root hr' x hm
      rw [hx.curTop] at hr'
      rcases gd_own_sub d x root hm with h | h
      · exact M.rootOwn root hr' x h
      · obtain ⟨_, _, _, _, hk, _⟩ := T.cur root hr'
        have := lt_of_view_task s root hk
        omega
    · intro root hr'
      rw [hx.curTop] at hr'
      obtain ⟨conv, body, h1, hE⟩ := M.main root hr'
      obtain ⟨_, _, _, _, hk, _⟩ := T.cur root hr'
      refine ⟨conv, body, by rw [hx.topOf]; exact h1, ?_⟩
      have C : GenCtx k0 s r t root :=
        ⟨M.vinv, M.sinv, hA, hx, hkT, hoT, by rw [hst]; simp, gd_stack d, lt_of_view_task s t hkT, hk, M.rootOwn root hr'⟩
      exact E_gen C hr hctl0 hFI hFI' hsc hstkLt d hE
    · obtain ⟨evs, he, hq⟩ := hx.trace
      rw [he]; exact trOK_ext M.tr evs hq

end AsynqModel.Core.P19
