import AsynqModel.Proofs.CtxEnter2
/-! facts about single operations of the model in ANY state (helper lemmas for the clause theorems of Theorems/C06c.lean) -/
namespace AsynqModel.Contexts

theorem pauseCtx_evOut (defs : List Kind) (s : St) (c : Nat) :
    evOut defs false c (pauseCtx defs s c).2.1 (pauseCtx defs s c).2.2 ∧
    (pauseCtx defs s c).1.reg = s.reg ∧ (pauseCtx defs s c).1.active = s.active ∧
    (pauseCtx defs s c).1.phase = s.phase ∧ (pauseCtx defs s c).1.status = s.status := by
  cases hk : kindOf defs c <;> simp [pauseCtx, evOut, hk, hookExc]

theorem resumeCtx_evOut (defs : List Kind) (s : St) (c : Nat) :
    evOut defs true c (resumeCtx defs s c).2.1 (resumeCtx defs s c).2.2 ∧
    (resumeCtx defs s c).1.reg = s.reg ∧ (resumeCtx defs s c).1.active = s.active ∧
    (resumeCtx defs s c).1.phase = s.phase ∧ (resumeCtx defs s c).1.status = s.status := by
  cases hk : kindOf defs c <;> simp [resumeCtx, evOut, hk, hookExc]

theorem pauseLoop_walk (defs : List Kind) : ∀ (l : List Nat) (s : St) (calls0 : List Call) (err0 : Option Exc),
    ∃ cs errs, walk defs false l cs = some errs ∧
      (pauseLoop defs l s calls0 err0).2.1 = calls0 ++ cs ∧
      (pauseLoop defs l s calls0 err0).2.2 = keepLast (lastSome errs) err0 ∧
      (pauseLoop defs l s calls0 err0).1.reg = s.reg ∧ (pauseLoop defs l s calls0 err0).1.active = s.active ∧
      (pauseLoop defs l s calls0 err0).1.phase = s.phase ∧ (pauseLoop defs l s calls0 err0).1.status = s.status := by
  intro l
  induction l with
  | nil => intro s calls0 err0; exact ⟨[], [], rfl, by simp [pauseLoop], by simp [pauseLoop, lastSome, keepLast], rfl, rfl, rfl, rfl⟩
  | cons c rest ih =>
    intro s calls0 err0
    obtain ⟨hev, hreg, hact, hph, hst⟩ := pauseCtx_evOut defs s c
    obtain ⟨cs, errs, hwalk, hcalls, herr, hreg', hact', hph', hst'⟩ :=
      ih (pauseCtx defs s c).1 (calls0 ++ (pauseCtx defs s c).2.1)
        (keepLast (pauseCtx defs s c).2.2 err0)
    refine ⟨(pauseCtx defs s c).2.1 ++ cs, (pauseCtx defs s c).2.2 :: errs, walk_cons defs false c _ _ rest cs errs hev hwalk, ?_, ?_, ?_, ?_, ?_, ?_⟩
    · rw [pauseLoop_cons, hcalls, List.append_assoc]
    · rw [pauseLoop_cons, herr]; simp only [lastSome, keepLast]; cases lastSome errs <;> rfl
    · rw [pauseLoop_cons, hreg', hreg]
    · rw [pauseLoop_cons, hact', hact]
    · rw [pauseLoop_cons, hph', hph]
    · rw [pauseLoop_cons, hst', hst]

theorem resumeLoop_walk (defs : List Kind) : ∀ (l : List Nat) (s : St) (calls0 : List Call) (err0 : Option Exc),
    ∃ cs errs, walk defs true l cs = some errs ∧
      (resumeLoop defs l s calls0 err0).2.1 = calls0 ++ cs ∧
      (resumeLoop defs l s calls0 err0).2.2 = keepFirst err0 (firstSome errs) ∧
      (resumeLoop defs l s calls0 err0).1.reg = s.reg ∧ (resumeLoop defs l s calls0 err0).1.active = s.active ∧
      (resumeLoop defs l s calls0 err0).1.phase = s.phase ∧ (resumeLoop defs l s calls0 err0).1.status = s.status := by
  intro l
  induction l with
  | nil =>
    intro s calls0 err0
    refine ⟨[], [], rfl, by simp [resumeLoop], ?_, rfl, rfl, rfl, rfl⟩
    cases err0 <;> simp [resumeLoop, firstSome, keepFirst]
  | cons c rest ih =>
    intro s calls0 err0
    obtain ⟨hev, hreg, hact, hph, hst⟩ := resumeCtx_evOut defs s c
    obtain ⟨cs, errs, hwalk, hcalls, herr, hreg', hact', hph', hst'⟩ :=
      ih (resumeCtx defs s c).1 (calls0 ++ (resumeCtx defs s c).2.1)
        (keepFirst err0 (resumeCtx defs s c).2.2)
    refine ⟨(resumeCtx defs s c).2.1 ++ cs, (resumeCtx defs s c).2.2 :: errs, walk_cons defs true c _ _ rest cs errs hev hwalk, ?_, ?_, ?_, ?_, ?_, ?_⟩
    · rw [resumeLoop_cons, hcalls, List.append_assoc]
    · rw [resumeLoop_cons, herr]
      cases err0 with
      | some y => rfl
      | none => cases h2 : (resumeCtx defs s c).2.2 <;> simp [firstSome, keepFirst]
    · rw [resumeLoop_cons, hreg', hreg]
    · rw [resumeLoop_cons, hact', hact]
    · rw [resumeLoop_cons, hph', hph]
    · rw [resumeLoop_cons, hst', hst]

/-- what an accepted walk says: exactly one call per plain context, in the order of the list; one outcome per context -/
theorem walk_calls (defs : List Kind) (isR : Bool) : ∀ (l : List Nat) (cs : List Call) (errs : List (Option Exc)),
    walk defs isR l cs = some errs →
      cs.map unflag = (l.filter (isPlain defs)).map (fun c => (isR, c)) ∧ errs.length = l.length := by
  intro l
  induction l with
  | nil =>
    intro cs errs h
    cases cs with
    | nil => simp [walk] at h; subst h; simp
    | cons x xs => simp [walk] at h
  | cons c rest ih =>
    intro cs errs h
    unfold walk at h
    cases hk : kindOf defs c with
    | plain rr pr =>
      rw [hk] at h
      cases cs with
      | nil => simp at h
      | cons cl r =>
        simp only at h
        split at h
        · rename_i hc
          cases hw : walk defs isR rest r with
          | none => simp [hw] at h
          | some es =>
            simp [hw] at h; subst h
            obtain ⟨h1, h2⟩ := ih r es hw
            simp only [Bool.and_eq_true, beq_iff_eq] at hc
            refine ⟨?_, by simp [h2]⟩
            simp [List.filter_cons, isPlain, hk, h1, unflag, hc.1, hc.2]
        · simp at h
    | ov x v =>
      rw [hk] at h
      cases hw : walk defs isR rest cs with
      | none => simp [hw] at h
      | some es =>
        simp [hw] at h; subst h
        obtain ⟨h1, h2⟩ := ih cs es hw
        exact ⟨by simp [List.filter_cons, isPlain, hk, h1], by simp [h2]⟩
    | na =>
      rw [hk] at h
      cases hw : walk defs isR rest cs with
      | none => simp [hw] at h
      | some es =>
        simp [hw] at h; subst h
        obtain ⟨h1, h2⟩ := ih cs es hw
        exact ⟨by simp [List.filter_cons, isPlain, hk, h1], by simp [h2]⟩

/-- a NonAsyncContext among the contexts makes its hook call raise AssertionError -/
theorem walk_na (defs : List Kind) (isR : Bool) : ∀ (l : List Nat) (cs : List Call) (errs : List (Option Exc)) (c : Nat),
    walk defs isR l cs = some errs → c ∈ l → kindOf defs c = .na → some Exc.assertion ∈ errs := by
  intro l
  induction l with
  | nil => intro cs errs c _ hc; simp at hc
  | cons d rest ih =>
    intro cs errs c h hc hk
    unfold walk at h
    rcases List.mem_cons.mp hc with rfl | hc'
    · rw [hk] at h
      cases hw : walk defs isR rest cs with
      | none => simp [hw] at h
      | some es => simp [hw] at h; subst h; simp
    · cases hkd : kindOf defs d with
      | plain rr pr =>
        rw [hkd] at h
        cases cs with
        | nil => simp at h
        | cons cl r =>
          simp only at h
          split at h
          · cases hw : walk defs isR rest r with
            | none => simp [hw] at h
            | some es => simp [hw] at h; subst h; exact List.mem_cons_of_mem _ (ih r es c hw hc' hk)
          · simp at h
      | ov x v =>
        rw [hkd] at h
        cases hw : walk defs isR rest cs with
        | none => simp [hw] at h
        | some es => simp [hw] at h; subst h; exact List.mem_cons_of_mem _ (ih cs es c hw hc' hk)
      | na =>
        rw [hkd] at h
        cases hw : walk defs isR rest cs with
        | none => simp [hw] at h
        | some es => simp [hw] at h; subst h; exact List.mem_cons_of_mem _ (ih cs es c hw hc' hk)

theorem lastSome_ne_none {α : Type} (l : List (Option α)) (x : α) (h : some x ∈ l) : lastSome l ≠ none := by
  induction l with
  | nil => simp at h
  | cons y ys ih =>
    simp only [lastSome]
    rcases List.mem_cons.mp h with rfl | h'
    · cases lastSome ys <;> simp
    · have := ih h'
      cases hl : lastSome ys with
      | none => exact absurd hl this
      | some z => simp

theorem firstSome_ne_none {α : Type} (l : List (Option α)) (x : α) (h : some x ∈ l) : firstSome l ≠ none := by
  induction l with
  | nil => simp at h
  | cons y ys ih =>
    cases y with
    | some z => simp [firstSome]
    | none =>
      simp only [firstSome]
      rcases List.mem_cons.mp h with h' | h'
      · simp at h'
      · exact ih h'

/-- `suspend` of a running task, in full -/
theorem stepCore_suspend (cfg : Cfg) (defs : List Kind) (s : St) (hp : s.phase = .running) (ha : s.active = true) :
    stepCore cfg defs s .suspend =
      ((match (pauseLoop defs s.reg.reverse { s with phase := .suspended, active := false } [] none).2.2 with
        | some x => acceptError (pauseLoop defs s.reg.reverse { s with phase := .suspended, active := false } [] none).1 x
        | none => (pauseLoop defs s.reg.reverse { s with phase := .suspended, active := false } [] none).1),
       (pauseLoop defs s.reg.reverse { s with phase := .suspended, active := false } [] none).2.1, .none) := by
  simp only [stepCore, hp, bne_self_eq_false, Bool.false_eq_true, if_false, resumeContexts, ha, if_true,
    pauseContexts, Bool.not_true, List.nil_append]
  rcases pauseLoop defs s.reg.reverse { s with phase := .suspended, active := false } [] none with ⟨a, b, e⟩
  cases e <;> rfl

end AsynqModel.Contexts
