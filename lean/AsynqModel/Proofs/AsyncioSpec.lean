import AsynqModel.Lib.Asyncio
import AsynqModel.Proofs.Asyncio
import AsynqModel.Proofs.AsyncioSem
import AsynqModel.Proofs.AsyncioLock
import AsynqModel.Proofs.AsyncioLive
import AsynqModel.Proofs.AsyncioCanon
/-! helper lemmas for C15: `_gather` spelled out, shapes, and the observer `spec` on the model's own observations -/
namespace AsynqModel.Asyncio
open AsynqModel.Core (Val)

/-! ### `_gather` = all awaited, first failure in list order -/

theorem gatherA_firstFailure : ∀ (l : YsL) (s : St), (gatherA l s).1 = firstFailure (elemsA l s)
  | .nil, _ => by simp [gatherA, elemsA, firstFailure]
  | .cons y l, s => by
    simp only [gatherA, elemsA, firstFailure]
    rw [gatherA_firstFailure l]


/-- the first failure wins, whatever comes after it -/
theorem firstFailure_split (pre : List Out) (o : Out) (post : List Out)
    (hpre : pre.all Out.isOk = true) (ho : o.isOk = false) :
    firstFailure (pre ++ o :: post) = o.asFailure := by
  induction pre with
  | nil => cases o <;> simp_all [firstFailure, combine, Out.isOk, Out.asFailure]
  | cons a pre ih =>
    simp only [List.all_cons, Bool.and_eq_true] at hpre
    cases a with
    | ok v =>
      simp only [List.cons_append, firstFailure, ih hpre.2]
      cases o <;> simp_all [combine, Out.asFailure, Out.isOk]
    | err e => simp [Out.isOk] at hpre
    | esc v => simp [Out.isOk] at hpre

/-- no failure: every value, in order -/
theorem firstFailure_ok (os : List Out) (h : os.all Out.isOk = true) :
    ∃ vs, firstFailure os = .ok vs ∧ os = vs.map Out.ok := by
  induction os with
  | nil => exact ⟨[], rfl, rfl⟩
  | cons a os ih =>
    simp only [List.all_cons, Bool.and_eq_true] at h
    obtain ⟨vs, h1, h2⟩ := ih h.2
    cases a with
    | ok v => exact ⟨v :: vs, by simp [firstFailure, combine, h1], by simp [h2]⟩
    | err e => simp [Out.isOk] at h
    | esc v => simp [Out.isOk] at h

/-- an error that comes out is the outcome of one of the elements -/
theorem firstFailure_err_mem (os : List Out) (e : Err) (h : firstFailure os = .err e) : Out.err e ∈ os := by
  induction os with
  | nil => simp [firstFailure] at h
  | cons a os ih =>
    simp only [firstFailure] at h
    cases a with
    | ok v =>
      cases hf : firstFailure os with
      | ok vs => simp [hf, combine] at h
      | err e' =>
        simp only [hf, combine, OutL.err.injEq] at h
        subst h
        exact List.mem_cons_of_mem _ (ih hf)
      | esc w => simp [hf, combine] at h
    | err e' =>
      simp only [combine, OutL.err.injEq] at h
      subst h
      exact List.mem_cons_self
    | esc w => simp [combine] at h

/-! ### shapes -/

mutual
theorem resolveA_shape : ∀ (y : Ys) (s : St) (v : Val), (resolveA y s).1 = .ok v → shapeOk y v = true
  | .none, s, v, h => by simp [resolveA] at h; subst h; simp [shapeOk]
  | .junk, s, v, h => by simp [resolveA] at h
  | .const n, s, v, h => by simp [resolveA] at h; subst h; simp [shapeOk]
  | .pconst n, s, v, h => by
    unfold resolveA at h
    cases hm : s.mode <;> simp [hm] at h <;> subst h <;> simp [shapeOk]
  | .task _ _, _, _, _ => by simp [shapeOk]
  | .sub y, s, v, h => by simp only [resolveA] at h; simp only [shapeOk]; exact resolveA_shape y s v h
  | .pval y, s, v, h => by
    unfold resolveA at h
    cases hm : s.mode
    · simp only [hm, Bool.false_eq_true, if_false] at h; simp only [shapeOk]; exact resolveA_shape y s v h
    · simp [hm] at h
  | .ofut b n, s, v, h => by cases b <;> simp [resolveA] at h; subst h; simp [shapeOk]
  | .gco y, s, v, h => by simp only [resolveA] at h; simp only [shapeOk]; exact resolveA_shape y s v h
  | .tup l, s, v, h => by
    simp only [resolveA] at h
    rcases hg : (gatherA l s).1 with vs | e | w <;> simp [hg, OutL.wrap] at h
    subst h
    simp only [shapeOk]; exact gatherA_shape l s vs hg
  | .lst l, s, v, h => by
    simp only [resolveA] at h
    rcases hg : (gatherA l s).1 with vs | e | w <;> simp [hg, OutL.wrap] at h
    subst h
    simp only [shapeOk]; exact gatherA_shape l s vs hg
  | .dict ks l, s, v, h => by
    simp only [resolveA] at h
    rcases hg : (gatherA l s).1 with vs | e | w <;> simp [hg, OutL.wrap] at h
    subst h
    simp only [shapeOk, beq_self_eq_true, Bool.true_and]; exact gatherA_shape l s vs hg
theorem gatherA_shape : ∀ (l : YsL) (s : St) (vs : List Val), (gatherA l s).1 = .ok vs → shapeOkL l vs = true
  | .nil, s, vs, h => by simp [gatherA] at h; subst h; simp [shapeOkL]
  | .cons y l, s, vs, h => by
    simp only [gatherA] at h
    rcases ha : (resolveA y s).1 with v | e | w <;> simp [ha, combine] at h
    rcases hb : (gatherA l { (resolveA y s).2 with mode := s.mode }).1 with ws | e | w <;> simp [hb] at h
    subst h
    simp only [shapeOkL, Bool.and_eq_true]
    exact ⟨resolveA_shape y s v ha, gatherA_shape l _ ws hb⟩
end

/-! ### every run ends with the end of its own task, carrying the outcome -/

theorem bodyR_fin : ∀ (p : Prog) (gen : Bool) (t : Nat) (env : List Val) (caught : Option Err) (i : Nat) (s : St),
    s.mode = false → caught ≠ some .syncRefused →
    (bodyR gen t env caught i p s).2.log.head? = some (.fin t (bodyR gen t env caught i p s).1)
  | .ret _, _, _, _, _, _, _, _, _ => by simp [bodyR]
  | .res _, _, _, _, _, _, _, _, _ => by simp [bodyR]
  | .raise _, _, _, _, _, _, _, _, _ => by simp [bodyR]
  | .raiseB _, _, _, _, _, _, _, _, _ => by simp [bodyR]
  | .reraise, _, _, _, _, _, _, _, _ => by simp [bodyR]
  | .yld hb y k h, gen, t, env, caught, i, s, hm, hc => by
    unfold bodyR
    cases gen
    · simp
    · have h2 := ysR_mode y s
      have hf := (ysR_good y s hm).1
      rcases hR : ysR y s with ⟨r, s1⟩
      rw [hR] at h2 hf
      simp only at h2 hf
      have hm1 : s1.mode = false := by rw [h2, hm]
      cases r with
      | ok v =>
        simp only [Bool.not_true, Bool.false_eq_true, if_false]
        exact bodyR_fin k _ _ _ _ _ _ (by simp [hm1]) hc
      | err e =>
        simp only [Bool.not_true, Bool.false_eq_true, if_false]
        split
        · simp
        · have he : some e ≠ some Err.syncRefused := by
            intro hh; injection hh with hh; subst hh; simp [Out.fine] at hf
          exact bodyR_fin h _ _ _ _ _ _ (by simp [hm1]) he
      | esc v => simp [Out.fine] at hf
  | .sync c child k h, gen, t, env, caught, i, s, hm, hc => by
    unfold bodyR
    simp only [hm, Bool.false_eq_true, if_false]
    have hf := (bodyR_good child c.kind.isGen c.label [] none 0 (syncStart c s) (by simp [hm]) (by simp)).1
    have h2 := bodyR_mode child c.kind.isGen c.label [] none 0 (syncStart c s)
    rcases hR : bodyR c.kind.isGen c.label [] none 0 child (syncStart c s) with ⟨r, s1⟩
    rw [hR] at hf h2
    simp only at hf h2
    have hm1 : s1.mode = false := by rw [h2]; simp [hm]
    cases r with
    | ok v => exact bodyR_fin k _ _ _ _ _ _ (by simp [hm1]) hc
    | err e =>
      simp only
      split
      · simp
      · have he : some e ≠ some Err.syncRefused := by
          intro hh; injection hh with hh; subst hh; simp [Out.fine] at hf
        exact bodyR_fin h _ _ _ _ _ _ (by simp [hm1]) he
    | esc v => simp [Out.fine] at hf

theorem bodyA_fin : ∀ (p : Prog) (gen : Bool) (t : Nat) (env : List Val) (caught : Option Err) (i : Nat) (s : St),
    s.mode = true →
    (bodyA gen t env caught i p s).2.log.head? = some (.fin t (bodyA gen t env caught i p s).1)
  | .ret _, _, _, _, _, _, _, _ => by simp [bodyA]
  | .res _, _, _, _, _, _, _, _ => by simp [bodyA]
  | .raise _, _, _, _, _, _, _, _ => by simp [bodyA]
  | .raiseB _, _, _, _, _, _, _, _ => by simp [bodyA]
  | .reraise, _, _, _, _, _, _, _ => by simp [bodyA]
  | .yld hb y k h, gen, t, env, caught, i, s, hm => by
    unfold bodyA
    cases gen
    · simp
    · have h2 := resolveA_mode y s
      have hf := (resolveA_good y s hm).1
      rcases hR : resolveA y s with ⟨r, s1⟩
      rw [hR] at h2 hf
      simp only at h2 hf
      have hm1 : s1.mode = true := by rw [h2, hm]
      cases r with
      | ok v =>
        simp only [Bool.not_true, Bool.false_eq_true, if_false]
        exact bodyA_fin k _ _ _ _ _ _ (by simp [hm1])
      | err e =>
        simp only [Bool.not_true, Bool.false_eq_true, if_false]
        split
        · simp
        · exact bodyA_fin h _ _ _ _ _ _ (by simp [hm1])
      | esc v => simp [Out.noEsc] at hf
  | .sync c child k h, gen, t, env, caught, i, s, hm => by
    have hA : bodyA gen t env caught i (.sync c child k h) s =
        bodyA gen t env (some (refusal c)) i h (s.emit (.syncX t (.err (refusal c)))) := by
      simp [bodyA, hm]
    rw [hA]
    exact bodyA_fin h _ _ _ _ _ _ (by simp [hm])

/-- a log that opens with an event of task `t` and closes with `fin t out` passes `rootOk` -/
theorem rootOk_intro (ob : Obs) (e0 : Ev) (mid : List Ev) (h : ob.log = e0 :: (mid ++ [.fin e0.label ob.out])) :
    rootOk ob = true := by
  unfold rootOk
  rw [h]
  simp only
  rw [← List.cons_append, List.filter_append]
  have : List.filter (fun e => e.label == e0.label) [Ev.fin e0.label ob.out] = [Ev.fin e0.label ob.out] := by
    simp [Ev.label]
  rw [this, List.getLast?_concat]
  simp

/-- newest-first form: the log is `fin t out :: l ++ base`, `base` non-empty with its OLDEST event of task `t` -/
theorem rootOk_of_log (ob : Obs) (t : Nat) (slog base : List Ev) (e0 : Ev) (l : List Ev)
    (hob : ob.log = slog.reverse) (hext : slog = l ++ (base ++ [e0])) (h0 : e0.label = t)
    (hb : ∀ o, base.head? ≠ some (.fin t o) ∧ e0 ≠ .fin t o)
    (hfin : slog.head? = some (.fin t ob.out)) : rootOk ob = true := by
  cases l with
  | nil =>
    exfalso
    rw [hext] at hfin
    cases base with
    | nil => simp at hfin; exact (hb ob.out).2 hfin
    | cons b base => simp at hfin; exact (hb ob.out).1 (by simp [hfin])
  | cons x l =>
    rw [hext] at hfin
    simp only [List.cons_append, List.head?_cons, Option.some.injEq] at hfin
    subst hfin
    apply rootOk_intro ob e0 (base.reverse ++ l.reverse)
    rw [hob, hext, h0]
    simp

/-! ### the observer accepts good observations -/

theorem all_imp {α : Type} {p q : α → Bool} {l : List α} (h : l.all p = true)
    (hpq : ∀ x, p x = true → q x = true) : l.all q = true := by
  rw [List.all_eq_true] at h ⊢
  exact fun x hx => hpq x (h x hx)

theorem specObs_ok_R (ref : Out) (refP : List PEv) (ob : Obs) (hc : ob.conv.isAio = false) (hb : ob.before = false)
    (ha : ob.after = false) (hcan : canaryOk ob.canary = true) (hlog : ob.log.all evOkR = true)
    (hesc : isEsc ob.out = false) (hout : ob.out = ref) (hproj : proj ob.log = refP) (hroot : rootOk ob = true) :
    specObs ref (canonP refP) ob = .ok () := by
  have h1 : ob.log.all noBad = true := all_imp hlog (by intro e he; simp [evOkR] at he; exact he.2)
  have h2 : ob.log.all (modeSeen false) = true := all_imp hlog (by intro e he; simp [evOkR] at he; exact he.1.1.2)
  have h3 : ob.log.all dcOk = true := all_imp hlog (by intro e he; simp [evOkR] at he; exact he.1.1.1)
  have h4 : ob.log.all syncAllowedOk = true := all_imp hlog (by intro e he; simp [evOkR] at he; exact he.1.2)
  subst hout
  subst hproj
  simp [specObs, h1, h2, h3, h4, hc, hb, ha, hcan, hesc, hroot]

theorem specObs_ok_A (ref : Out) (refP : List PEv) (ob : Obs) (hc : ob.conv.isAio = true) (hb : ob.before = false)
    (ha : ob.after = false) (hcan : canaryOk ob.canary = true) (hlog : ob.log.all evOkA = true)
    (hstrict : ob.log.all syncRefusedOk = true)
    (hesc : isEsc ob.out = false) (hroot : rootOk ob = true)
    (hout : ob.log.any isSyncX = false → ob.out = ref ∧ proj ob.log = refP) :
    specObs ref (canonP refP) ob = .ok () := by
  have h1 : ob.log.all noBad = true := all_imp hlog (by intro e he; simp [evOkA] at he; exact he.2)
  have h2 : ob.log.all (modeSeen true) = true := all_imp hlog (by intro e he; simp [evOkA] at he; exact he.1.1.2)
  have h3 : ob.log.all dcOk = true := all_imp hlog (by intro e he; simp [evOkA] at he; exact he.1.1.1)
  have h4 : ob.log.all syncRefusedOk = true := hstrict
  cases hs : ob.log.any isSyncX
  · obtain ⟨ho, hp⟩ := hout hs
    subst ho
    simp [specObs, h1, h2, h3, h4, hc, hb, ha, hcan, hs, hp, hesc, hroot]
  · simp [specObs, h1, h2, h3, h4, hc, hb, ha, hcan, hs, hesc, hroot]

theorem canary_off (s : St) (h : s.mode = false) : canaryOk (canary s) = true := by
  simp [canary, topCall, h, bodyR, canaryOk]

/-! ### the model's own observations -/

theorem topCall_good (c : Call) (p : Prog) :
    (topCall c p {}).2.mode = false ∧ (topCall c p {}).2.log.all evOkR = true := by
  have hg := (bodyR_good p c.kind.isGen c.label [] none 0 (({} : St).emit (.start c.label false)) rfl (by simp)).2
  have hm := bodyR_mode p c.kind.isGen c.label [] none 0 (({} : St).emit (.start c.label false))
  simp only [topCall, Bool.false_eq_true, if_false]
  exact ⟨hm, hg.all rfl⟩

theorem topValue_eq_topCall (c : Call) (p : Prog) (s : St) (h : s.mode = false) : topValue c p s = topCall c p s := by
  simp [topValue, topCall, h]

theorem topA_eq (c : Call) (p : Prog) (s : St) :
    topA c p s = ((bodyA c.kind.isGen c.label [] none 0 p (callPre c s)).1,
      exitMode s.mode (bodyA c.kind.isGen c.label [] none 0 p (callPre c s)).2) := by
  simp [topA, callA_eq]

theorem topA_good (c : Call) (p : Prog) :
    (topA c p {}).2.mode = false ∧ (topA c p {}).2.log.all evOkA = true := by
  have hg := (bodyA_good p c.kind.isGen c.label [] none 0 (callPre c {}) (by simp)).2
  rw [topA_eq]
  refine ⟨rfl, ?_⟩
  have := ((callPre_ext c {}).trans hg).all rfl
  simpa using this

/-- every synchronous call attempted by an asyncio run is refused with the RuntimeError "asyncio mode does not support
    synchronous calls", and no `sync_fn` is entered (ALL programs) -/
theorem topA_strict (c : Call) (p : Prog) : (topA c p {}).2.log.all syncRefusedOk = true :=
  all_imp (topA_good c p).2 (by intro e he; simp [evOkA] at he; exact he.1.2)

/-- every event of an asyncio run belongs to the root or to a task of `Prog.live` -/
theorem topA_live (c : Call) (p : Prog) : (topA c p {}).2.log.all (inL (c.label :: p.live)) = true := by
  have hx := bodyA_live (c.label :: p.live) p c.kind.isGen c.label [] none 0 (callPre c {}) (by simp) (by simp)
    (fun x hx => by simp [hx])
  rw [topA_eq]
  have := ((callPre_live (c.label :: p.live) c {} (by simp)).trans hx).all rfl
  simpa using this

theorem topA_noEsc (c : Call) (p : Prog) : isEsc (topA c p {}).1 = false := by
  have hg := (bodyA_good p c.kind.isGen c.label [] none 0 (callPre c {}) (by simp)).1
  rw [topA_eq]
  revert hg
  cases (bodyA c.kind.isGen c.label [] none 0 p (callPre c {})).1 <;> simp [Out.noEsc, isEsc]

theorem topCall_noEsc (c : Call) (p : Prog) : isEsc (topCall c p {}).1 = false := by
  have hg := (bodyR_good p c.kind.isGen c.label [] none 0 (({} : St).emit (.start c.label false)) rfl (by simp)).1
  have hR : topCall c p {} = bodyR c.kind.isGen c.label [] none 0 p (({} : St).emit (.start c.label false)) := rfl
  rw [hR]
  revert hg
  cases (bodyR c.kind.isGen c.label [] none 0 p (({} : St).emit (.start c.label false))).1 <;> simp [Out.fine, isEsc]

/-- the log of `fn(args)` opens with the start of the root task and closes with its end, carrying the outcome -/
theorem topCall_root (c : Call) (p : Prog) (ob : Obs) (hlog : ob.log = (topCall c p {}).2.log.reverse)
    (hout : ob.out = (topCall c p {}).1) : rootOk ob = true := by
  have hR : topCall c p {} = bodyR c.kind.isGen c.label [] none 0 p (({} : St).emit (.start c.label false)) := rfl
  obtain ⟨l, hl⟩ := (bodyR_good p c.kind.isGen c.label [] none 0 (({} : St).emit (.start c.label false)) rfl (by simp)).2.logExt
  have hf := bodyR_fin p c.kind.isGen c.label [] none 0 (({} : St).emit (.start c.label false)) rfl (by simp)
  rw [← hR] at hl hf
  rw [← hout] at hf
  exact rootOk_of_log ob c.label _ [] (.start c.label false) l hlog (by simpa using hl) rfl (by simp) hf

/-- the same for `await fn.asyncio(args)` (the log opens with `afn` of the root if it has an explicit asyncio_fn) -/
theorem topA_root (c : Call) (p : Prog) (ob : Obs) (hlog : ob.log = (topA c p {}).2.log.reverse)
    (hout : ob.out = (topA c p {}).1) : rootOk ob = true := by
  obtain ⟨l, hl⟩ := (bodyA_good p c.kind.isGen c.label [] none 0 (callPre c {}) (by simp)).2.logExt
  have hf := bodyA_fin p c.kind.isGen c.label [] none 0 (callPre c {}) (by simp)
  have hA := topA_eq c p {}
  have h1 : (topA c p {}).2.log = (bodyA c.kind.isGen c.label [] none 0 p (callPre c {})).2.log := by rw [hA]; rfl
  have h2 : (topA c p {}).1 = (bodyA c.kind.isGen c.label [] none 0 p (callPre c {})).1 := by rw [hA]
  rw [← h1] at hl hf
  rw [← h2, ← hout] at hf
  rw [callPre_log] at hl
  cases hafn : c.afn
  · simp only [hafn, Bool.false_eq_true, if_false] at hl
    exact rootOk_of_log ob c.label _ [] (.start c.label true) l hlog (by simpa using hl) rfl (by simp) hf
  · simp only [hafn, if_true] at hl
    exact rootOk_of_log ob c.label _ [.start c.label true] (.afn c.label) l hlog (by simpa using hl) rfl (by simp) hf

theorem any_false_of_countP {α : Type} (p : α → Bool) (l : List α) (h : l.any p = false) : l.countP p = 0 := by
  rw [List.countP_eq_zero]
  intro a ha hpa
  have : l.any p = true := List.any_eq_true.mpr ⟨a, ha, hpa⟩
  rw [h] at this; cases this

theorem topA_sem (c : Call) (p : Prog) (hp : p.plainY = true) (hx : p.safe = true) (s' : St) (hm' : s'.mode = false)
    (hn : (topA c p {}).2.log.any isSyncX = false) : (topA c p {}).1 = (topCall c p s').1 := by
  rw [topA_eq] at hn ⊢
  simp only [topCall, hm', Bool.false_eq_true, if_false]
  have h0 : (bodyA c.kind.isGen c.label [] none 0 p (callPre c {})).2.nSync = 0 := any_false_of_countP _ _ hn
  have hle := (callPre_ext c {}).nSync_le
  have hle2 := (bodyA_good p c.kind.isGen c.label [] none 0 (callPre c {}) (by simp)).2.nSync_le
  exact bodyA_sem p _ _ _ _ _ _ _ (by simp) (by simp [hm']) hp (Safe.ofBool hx) (by omega)

/-- what the lockstep theorem says about the two logs as observed (oldest first) -/
theorem top_deliveries (c : Call) (p : Prog) (hp : p.plainY = true) (hx : p.safe = true) :
    ((topA c p {}).2.log.reverse.any isSyncX = false →
        (topA c p {}).1 = (topCall c p {}).1 ∧
        proj (topA c p {}).2.log.reverse = proj (topCall c p {}).2.log.reverse) ∧
    ((topA c p {}).2.log.reverse.any isSyncX = true →
        proj (cutSync (topA c p {}).2.log.reverse) <+: proj (topCall c p {}).2.log.reverse) := by
  have h := top_lock c p hp hx
  constructor
  · intro hn
    rw [List.any_reverse] at hn
    rcases h with ⟨ho, hs, hl⟩ | ⟨hs, _⟩
    · refine ⟨ho, ?_⟩
      simp only [proj, List.filterMap_reverse] at hl ⊢
      rw [hl]
    · simp [St.hasSync, hn] at hs
  · intro hn
    rw [List.any_reverse] at hn
    rcases h with ⟨_, hs, _⟩ | ⟨_, hd⟩
    · simp [St.hasSync, hn] at hs
    · exact hd

theorem spec_intro (o1 o2 o3 o4 o5 : Obs) (c1 : o1.conv = .call) (c2 : o2.conv = .value) (c3 : o3.conv = .aio)
    (c4 : o4.conv = .aiorun) (c5 : o5.conv = .aiotask)
    (h1 : specObs o1.out (canonP (proj o1.log)) o1 = .ok ())
    (h2 : specObs o1.out (canonP (proj o1.log)) o2 = .ok ())
    (h3 : specObs o1.out (canonP (proj o1.log)) o3 = .ok ())
    (h4 : specObs o1.out (canonP (proj o1.log)) o4 = .ok ())
    (h5 : specObs o1.out (canonP (proj o1.log)) o5 = .ok ()) : spec [o1, o2, o3, o4, o5] = true := by
  simp [spec, specClause, convsPresent, allConvs, c1, c2, c3, c4, c5, specList, h1, h2, h3, h4, h5]

/-- **C15 as a whole**: the observations of the model under all five ways of running a program - `fn(args)`,
    `fn.asynq(args).value()`, `await fn.asyncio(args)`, `asyncio.run(fn.asyncio(args))`, as a task beside a watcher - are
    accepted by the observer `spec`, the same Boolean function the check evaluates on the observations of the real
    implementation -/
theorem spec_holds (c : Call) (p : Prog) (hp : p.plainY = true) (hx : p.safe = true) :
    spec (observe c p) = true := by
  have hAs := topA_strict c p
  obtain ⟨hRm, hRl⟩ := topCall_good c p
  obtain ⟨hAm, hAl⟩ := topA_good c p
  obtain ⟨hd1, _⟩ := top_deliveries c p hp hx
  have hRe := topCall_noEsc c p
  have hAe := topA_noEsc c p
  have e1 : specObs (topCall c p {}).1 (canonP (proj (topCall c p {}).2.log.reverse)) (observe1 .call c p) = .ok () :=
    specObs_ok_R _ _ _ rfl rfl hRm (canary_off _ hRm) (by simpa [observe1] using hRl) hRe rfl rfl
      (topCall_root c p _ rfl rfl)
  have hv := topValue_eq_topCall c p {} rfl
  have e2 : specObs (topCall c p {}).1 (canonP (proj (topCall c p {}).2.log.reverse)) (observe1 .value c p) = .ok () :=
    specObs_ok_R _ _ _ rfl rfl
      (by rw [show (observe1 .value c p).after = (topValue c p {}).2.mode from rfl, hv]; exact hRm)
      (by rw [show (observe1 .value c p).canary = canary (topValue c p {}).2 from rfl, hv]; exact canary_off _ hRm)
      (by rw [show (observe1 .value c p).log = (topValue c p {}).2.log.reverse from rfl, hv]; simpa using hRl)
      (by rw [show (observe1 .value c p).out = (topValue c p {}).1 from rfl, hv]; exact hRe)
      (by rw [show (observe1 .value c p).out = (topValue c p {}).1 from rfl, hv])
      (by rw [show (observe1 .value c p).log = (topValue c p {}).2.log.reverse from rfl, hv])
      (topCall_root c p _ (by rw [show (observe1 .value c p).log = (topValue c p {}).2.log.reverse from rfl, hv])
        (by rw [show (observe1 .value c p).out = (topValue c p {}).1 from rfl, hv]))
  have e3 : specObs (topCall c p {}).1 (canonP (proj (topCall c p {}).2.log.reverse)) (observe1 .aio c p) = .ok () :=
    specObs_ok_A _ _ _ rfl rfl hAm (canary_off _ hAm) (by simpa [observe1] using hAl) (by simpa [observe1] using hAs) hAe (topA_root c p _ rfl rfl) hd1
  have e4 : specObs (topCall c p {}).1 (canonP (proj (topCall c p {}).2.log.reverse)) (observe1 .aiorun c p) = .ok () :=
    specObs_ok_A _ _ _ rfl rfl rfl (canary_off _ rfl) (by simpa [observe1] using hAl) (by simpa [observe1] using hAs) hAe (topA_root c p _ rfl rfl) hd1
  have e5 : specObs (topCall c p {}).1 (canonP (proj (topCall c p {}).2.log.reverse)) (observe1 .aiotask c p) = .ok () :=
    specObs_ok_A _ _ _ rfl rfl rfl (canary_off _ rfl) (by simpa [observe1] using hAl) (by simpa [observe1] using hAs) hAe (topA_root c p _ rfl rfl) hd1
  exact spec_intro (observe1 .call c p) (observe1 .value c p) (observe1 .aio c p) (observe1 .aiorun c p)
    (observe1 .aiotask c p) rfl rfl rfl rfl rfl e1 e2 e3 e4 e5

/-! ### the program-aware clauses on the model's own observations -/

theorem sameView_refl (a : Obs) : sameView a a = true := by simp [sameView]

theorem specObsP_self (c : Call) (p : Prog) (ob : Obs)
    (hl : ob.conv.isAio = true → ob.log.all (inL (c.label :: p.live)) = true) :
    specObsPL (c.label :: p.live) ob ob = .ok () := by
  unfold specObsPL specObsC
  cases hc : ob.conv.isAio
  · simp
  · have h1 : (canonE ob.log).all (fun e => (c.label :: p.live).contains e.label) = true := by
      have := hl hc
      rw [all_canonE]; exact this
    rw [h1]
    simp [sameView_refl]

/-- **C15 as a whole, for a case**: the model's observations pass the program-aware observer too -/
theorem specP_holds (c : Call) (p : Prog) (hp : p.plainY = true) (hx : p.safe = true) :
    specP c p (observe c p) = true := by
  have hs := spec_holds c p hp hx
  have hl := topA_live c p
  have hl' : (topA c p {}).2.log.reverse.all (inL (c.label :: p.live)) = true := by simpa using hl
  have e1 := specObsP_self c p (observe1 .call c p) (by intro h; cases h)
  have e2 := specObsP_self c p (observe1 .value c p) (by intro h; cases h)
  have e3 := specObsP_self c p (observe1 .aio c p) (fun _ => hl')
  have e4 := specObsP_self c p (observe1 .aiorun c p) (fun _ => hl')
  have e5 := specObsP_self c p (observe1 .aiotask c p) (fun _ => hl')
  have hc : specClause (observe c p) = "ok" := by simpa [spec] using hs
  unfold specP specClauseP specClausePWith
  rw [hc]
  simp [observe, allConvs, specListP, e1, e2, e3, e4, e5]

end AsynqModel.Asyncio
