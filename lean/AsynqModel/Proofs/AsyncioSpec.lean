import AsynqModel.Lib.Asyncio
import AsynqModel.Proofs.Asyncio
/-! helper lemmas for C15: `_gather` spelled out, shapes, and the observer `spec` on the model's own observations -/
namespace AsynqModel.Asyncio
open AsynqModel.Core (Val)

/-! ### `_gather` = all awaited, first failure in list order -/

theorem gatherA_firstFailure : ∀ (l : YsL) (s : St), (gatherA l s).1 = firstFailure (elemsA l s)
  | .nil, _ => by simp [gatherA, elemsA, firstFailure]
  | .cons y l, s => by
    simp only [gatherA, elemsA, firstFailure]
    rw [gatherA_firstFailure l]


/-- the first failure wins, whatever comes after it -/
theorem firstFailure_split (pre : List Out) (o : Out) (post : List Out)
    (hpre : pre.all Out.isOk = true) (ho : o.isOk = false) :
    firstFailure (pre ++ o :: post) = o.asFailure := by
  induction pre with
  | nil => cases o <;> simp_all [firstFailure, combine, Out.isOk, Out.asFailure]
  | cons a pre ih =>
    simp only [List.all_cons, Bool.and_eq_true] at hpre
    cases a with
    | ok v =>
      simp only [List.cons_append, firstFailure, ih hpre.2]
      cases o <;> simp_all [combine, Out.asFailure, Out.isOk]
    | err e => simp [Out.isOk] at hpre
    | esc v => simp [Out.isOk] at hpre

/-- no failure: every value, in order -/
theorem firstFailure_ok (os : List Out) (h : os.all Out.isOk = true) :
    ∃ vs, firstFailure os = .ok vs ∧ os = vs.map Out.ok := by
  induction os with
  | nil => exact ⟨[], rfl, rfl⟩
  | cons a os ih =>
    simp only [List.all_cons, Bool.and_eq_true] at h
    obtain ⟨vs, h1, h2⟩ := ih h.2
    cases a with
    | ok v => exact ⟨v :: vs, by simp [firstFailure, combine, h1], by simp [h2]⟩
    | err e => simp [Out.isOk] at h
    | esc v => simp [Out.isOk] at h

/-- an error that comes out is the outcome of one of the elements -/
theorem firstFailure_err_mem (os : List Out) (e : Err) (h : firstFailure os = .err e) : Out.err e ∈ os := by
  induction os with
  | nil => simp [firstFailure] at h
  | cons a os ih =>
    simp only [firstFailure] at h
    cases a with
    | ok v =>
      cases hf : firstFailure os with
      | ok vs => simp [hf, combine] at h
      | err e' =>
        simp only [hf, combine, OutL.err.injEq] at h
        subst h
        exact List.mem_cons_of_mem _ (ih hf)
      | esc w => simp [hf, combine] at h
    | err e' =>
      simp only [combine, OutL.err.injEq] at h
      subst h
      exact List.mem_cons_self
    | esc w => simp [combine] at h

/-! ### shapes -/

mutual
theorem resolveA_shape : ∀ (y : Ys) (s : St) (v : Val), (resolveA y s).1 = .ok v → shapeOk y v = true
  | .none, s, v, h => by simp [resolveA] at h; subst h; simp [shapeOk]
  | .junk, s, v, h => by simp [resolveA] at h
  | .const n, s, v, h => by simp [resolveA] at h; subst h; simp [shapeOk]
  | .pconst n, s, v, h => by
    unfold resolveA at h
    cases hm : s.mode <;> simp [hm] at h <;> subst h <;> simp [shapeOk]
  | .task _ _, _, _, _ => by simp [shapeOk]
  | .tup l, s, v, h => by
    simp only [resolveA] at h
    rcases hg : (gatherA l s).1 with vs | e | w <;> simp [hg, OutL.wrap] at h
    subst h
    simp only [shapeOk]; exact gatherA_shape l s vs hg
  | .lst l, s, v, h => by
    simp only [resolveA] at h
    rcases hg : (gatherA l s).1 with vs | e | w <;> simp [hg, OutL.wrap] at h
    subst h
    simp only [shapeOk]; exact gatherA_shape l s vs hg
  | .dict ks l, s, v, h => by
    simp only [resolveA] at h
    rcases hg : (gatherA l s).1 with vs | e | w <;> simp [hg, OutL.wrap] at h
    subst h
    simp only [shapeOk, beq_self_eq_true, Bool.true_and]; exact gatherA_shape l s vs hg
theorem gatherA_shape : ∀ (l : YsL) (s : St) (vs : List Val), (gatherA l s).1 = .ok vs → shapeOkL l vs = true
  | .nil, s, vs, h => by simp [gatherA] at h; subst h; simp [shapeOkL]
  | .cons y l, s, vs, h => by
    simp only [gatherA] at h
    rcases ha : (resolveA y s).1 with v | e | w <;> simp [ha, combine] at h
    rcases hb : (gatherA l { (resolveA y s).2 with mode := s.mode }).1 with ws | e | w <;> simp [hb] at h
    subst h
    simp only [shapeOkL, Bool.and_eq_true]
    exact ⟨resolveA_shape y s v ha, gatherA_shape l _ ws hb⟩
end

/-! ### the observer accepts good observations -/

theorem all_imp {α : Type} {p q : α → Bool} {l : List α} (h : l.all p = true)
    (hpq : ∀ x, p x = true → q x = true) : l.all q = true := by
  rw [List.all_eq_true] at h ⊢
  exact fun x hx => hpq x (h x hx)

theorem specObs_ok_R (ref : Out) (ob : Obs) (hc : ob.conv.isAio = false) (hb : ob.before = false)
    (ha : ob.after = false) (hcan : canaryOk ob.canary = true) (hlog : ob.log.all evOkR = true)
    (hout : ob.out = ref) : specObs ref ob = .ok () := by
  have h1 : ob.log.all noBad = true := all_imp hlog (by intro e he; simp [evOkR] at he; exact he.2)
  have h2 : ob.log.all (modeSeen false) = true := all_imp hlog (by intro e he; simp [evOkR] at he; exact he.1.1.2)
  have h3 : ob.log.all dcOk = true := all_imp hlog (by intro e he; simp [evOkR] at he; exact he.1.1.1)
  have h4 : ob.log.all syncAllowedOk = true := all_imp hlog (by intro e he; simp [evOkR] at he; exact he.1.2)
  simp [specObs, h1, h2, h3, h4, hc, hb, ha, hcan, hout]

theorem specObs_ok_A (ref : Out) (ob : Obs) (hc : ob.conv.isAio = true) (hb : ob.before = false)
    (ha : ob.after = false) (hcan : canaryOk ob.canary = true) (hlog : ob.log.all evOkA = true)
    (hout : ob.log.any isSyncX = false → ob.out = ref) : specObs ref ob = .ok () := by
  have h1 : ob.log.all noBad = true := all_imp hlog (by intro e he; simp [evOkA] at he; exact he.2)
  have h2 : ob.log.all (modeSeen true) = true := all_imp hlog (by intro e he; simp [evOkA] at he; exact he.1.1.2)
  have h3 : ob.log.all dcOk = true := all_imp hlog (by intro e he; simp [evOkA] at he; exact he.1.1.1)
  have h4 : ob.log.all syncRefusedOk = true := all_imp hlog (by intro e he; simp [evOkA] at he; exact he.1.2)
  cases hs : ob.log.any isSyncX
  · simp [specObs, h1, h2, h3, h4, hc, hb, ha, hcan, hs, hout hs]
  · simp [specObs, h1, h2, h3, h4, hc, hb, ha, hcan, hs]

theorem canary_off (s : St) (h : s.mode = false) : canaryOk (canary s) = true := by
  simp [canary, topCall, h, bodyR, canaryOk]

/-! ### the model's own observations -/

theorem topCall_good (c : Call) (p : Prog) :
    (topCall c p {}).2.mode = false ∧ (topCall c p {}).2.log.all evOkR = true := by
  have hg := (bodyR_good p c.kind.isGen c.label [] none 0 (({} : St).emit (.start c.label false)) rfl (by simp)).2
  have hm := bodyR_mode p c.kind.isGen c.label [] none 0 (({} : St).emit (.start c.label false))
  simp only [topCall, Bool.false_eq_true, if_false]
  exact ⟨hm, hg.all rfl⟩

theorem topValue_eq_topCall (c : Call) (p : Prog) (s : St) (h : s.mode = false) : topValue c p s = topCall c p s := by
  simp [topValue, topCall, h]

theorem topA_eq (c : Call) (p : Prog) (s : St) :
    topA c p s = ((bodyA c.kind.isGen c.label [] none 0 p (callPre c s)).1,
      exitMode s.mode (bodyA c.kind.isGen c.label [] none 0 p (callPre c s)).2) := by
  simp [topA, callA_eq]

theorem topA_good (c : Call) (p : Prog) (hr : p.noRes = true) :
    (topA c p {}).2.mode = false ∧ (topA c p {}).2.log.all evOkA = true := by
  have hg := (bodyA_good p c.kind.isGen c.label [] none 0 (callPre c {}) (by simp) hr).2
  rw [topA_eq]
  refine ⟨rfl, ?_⟩
  have := ((callPre_ext c {}).trans hg).all rfl
  simpa using this

theorem any_false_of_countP {α : Type} (p : α → Bool) (l : List α) (h : l.any p = false) : l.countP p = 0 := by
  rw [List.countP_eq_zero]
  intro a ha hpa
  have : l.any p = true := List.any_eq_true.mpr ⟨a, ha, hpa⟩
  rw [h] at this; cases this

theorem topA_sem (c : Call) (p : Prog) (hr : p.noRes = true) (hx : p.safe = true) (s' : St) (hm' : s'.mode = false)
    (hn : (topA c p {}).2.log.any isSyncX = false) : (topA c p {}).1 = (topCall c p s').1 := by
  rw [topA_eq] at hn ⊢
  simp only [topCall, hm', Bool.false_eq_true, if_false]
  have h0 : (bodyA c.kind.isGen c.label [] none 0 p (callPre c {})).2.nSync = 0 := any_false_of_countP _ _ hn
  have hle := (callPre_ext c {}).nSync_le
  have hle2 := (bodyA_good p c.kind.isGen c.label [] none 0 (callPre c {}) (by simp) hr).2.nSync_le
  exact bodyA_sem p _ _ _ _ _ _ _ (by simp) (by simp [hm']) hr (Safe.ofBool hx) (by omega)

theorem spec_intro (o1 o2 o3 o4 o5 : Obs) (c1 : o1.conv = .call) (c2 : o2.conv = .value) (c3 : o3.conv = .aio)
    (c4 : o4.conv = .aiorun) (c5 : o5.conv = .aiotask)
    (h1 : specObs o1.out o1 = .ok ()) (h2 : specObs o1.out o2 = .ok ()) (h3 : specObs o1.out o3 = .ok ())
    (h4 : specObs o1.out o4 = .ok ()) (h5 : specObs o1.out o5 = .ok ()) : spec [o1, o2, o3, o4, o5] = true := by
  simp [spec, specClause, convsPresent, allConvs, c1, c2, c3, c4, c5, specList, h1, h2, h3, h4, h5]

end AsynqModel.Asyncio
