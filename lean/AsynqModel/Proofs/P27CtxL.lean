import AsynqModel.Proofs.P27CtxK
import AsynqModel.Proofs.P7L
/-!
  P27, C07 part 3: relative to `noRevisit`, the RESUMED contexts of the whole machine form one stack - `rstackN s`, the
  live (non-NonAsync) registered contexts of the hot tasks, read off the task stack - the trace is well bracketed and ends
  with exactly these contexts resumed, and the scoped values / saved old values are those of that stack of overrides:
  `M s (rstackN s)` on every state reachable by a `noRevisit` run in which the stack guard has not fired.
  `P7.M_reach` without the hypothesis that no NonAsyncContext exists (where `rstackN = rstack`).
-/
namespace AsynqModel.Core.P27
open AsynqModel.Core P5 P7

/-! ### the stack of resumed contexts -/

/-- all resumed contexts, most recently resumed first: the live contexts of the hot tasks -/
def rstackN (s : State) : List Nat := (hotTasks s).flatMap fun o => (lv s (s.task o).ctxs).reverse

/-- the resumed contexts below those of the top-of-stack task `t` -/
def belowN (s : State) (t : Nat) (stk : List Nat) : List Nat :=
  ((fo (hot s) stk).filter (· != t)).flatMap fun o => (lv s (s.task o).ctxs).reverse

/-- without NonAsyncContexts among the registered contexts `rstackN` is `P7.rstack` -/
theorem rstackN_eq_rstack {s : State} (h : ∀ o, P2.NAfree s o) : rstackN s = rstack s := by
  unfold rstackN rstack
  apply flatMap_congr'
  intro o _
  rw [lv_eq_self (h o)]

theorem rstackN_head (s : State) (t : Nat) (stk : List Nat) (hst : s.stack = t :: stk) :
    rstackN s = (if hot s t then (lv s (s.task t).ctxs).reverse else []) ++ belowN s t stk := by
  unfold rstackN hotTasks belowN
  rw [hst, fo_head]
  split <;> simp

theorem belowN_congr {s r : State} (t : Nat) (stk : List Nat)
    (h : ∀ o, o ≠ t → (r.task o).ctxActive = (s.task o).ctxActive ∧ (r.task o).ctxs = (s.task o).ctxs)
    (hna : ∀ o, o ≠ t → ∀ c ∈ (s.task o).ctxs, r.ctxIsNonAsync c = s.ctxIsNonAsync c) :
    belowN r t stk = belowN s t stk := by
  unfold belowN
  have hh : ∀ o, o ≠ t → hot r o = hot s o := fun o ho => by simp [hot, (h o ho).1, (h o ho).2]
  rw [fo_tail_congr t stk hh]
  apply flatMap_congr'
  intro o ho
  have : o ≠ t := by
    have := (List.mem_filter.1 ho).2
    simpa using this
  rw [(h o this).2, lv_congr (hna o this)]

theorem rstackN_congr {s r : State} (hst : r.stack = s.stack)
    (h : ∀ o, (r.task o).ctxActive = (s.task o).ctxActive ∧ (r.task o).ctxs = (s.task o).ctxs)
    (hna : ∀ c, r.ctxIsNonAsync c = s.ctxIsNonAsync c) : rstackN r = rstackN s := by
  unfold rstackN hotTasks
  have hh : hot r = hot s := by funext o; simp [hot, (h o).1, (h o).2]
  rw [hst, hh]
  apply flatMap_congr'
  intro o _
  rw [(h o).2, lv_congr (fun c _ => hna c)]

/-- pushing entries that are not hot does not change the resumed stack -/
theorem rstackN_push {s r : State} (ds : List Nat) (hst : r.stack = ds ++ s.stack)
    (h : ∀ o, (r.task o).ctxActive = (s.task o).ctxActive ∧ (r.task o).ctxs = (s.task o).ctxs)
    (hna : ∀ c, r.ctxIsNonAsync c = s.ctxIsNonAsync c)
    (hd : ∀ d ∈ ds, hot r d = false) : rstackN r = rstackN s := by
  unfold rstackN hotTasks
  have hh : hot r = hot s := by funext o; simp [hot, (h o).1, (h o).2]
  rw [hst, fo_append_neg ds _ hd, hh]
  apply flatMap_congr'
  intro o _
  rw [(h o).2, lv_congr (fun c _ => hna c)]

theorem rstackN_top {s : State} {t : Nat} {stk : List Nat} (hst : s.stack = t :: stk)
    (hact : (s.task t).ctxActive = true) : rstackN s = (lv s (s.task t).ctxs).reverse ++ belowN s t stk := by
  rw [rstackN_head s t stk hst]
  cases hc : (s.task t).ctxs with
  | nil => simp [hot, hc]
  | cons a l => simp [hot, hact, hc]

theorem rstackN_top_inactive {s : State} {t : Nat} {stk : List Nat} (hst : s.stack = t :: stk)
    (hact : (s.task t).ctxActive = false) : rstackN s = belowN s t stk := by
  rw [rstackN_head s t stk hst]
  simp [hot, hact]

/-- the stack below a task that is not hot -/
theorem rstackN_eq_below {s : State} {t : Nat} (hh : hot s t = false) : rstackN s = belowN s t s.stack := by
  unfold rstackN hotTasks belowN
  rw [fo_filter_self _ hh]

theorem rstackN_cons_cold {s : State} {t : Nat} {stk : List Nat} (hst : s.stack = t :: stk) (hh : hot s t = false) :
    rstackN s = belowN s t stk := by
  rw [rstackN_head s t stk hst]; simp [hh]

theorem mem_belowN {s : State} {t : Nat} {stk : List Nat} {c : Nat} (h : c ∈ belowN s t stk) :
    ∃ o, o ≠ t ∧ c ∈ (s.task o).ctxs := by
  unfold belowN at h
  rw [List.mem_flatMap] at h
  obtain ⟨o, ho, hc⟩ := h
  refine ⟨o, ?_, lv_sub (List.mem_reverse.1 hc)⟩
  have := (List.mem_filter.1 ho).2
  simpa using this

/-- the kind of the context object created by `with c:` -/
theorem enterSt_isNA (s s0 : State) (t : Nat) (c : CtxKind) (b k : Body) (h0 : s0 = s ∨ ∃ var, s0 = s.svTouch var) :
    (enterSt s s0 t c b k).ctxIsNonAsync s.ctxs.length = (c == .nonasync) := by
  have h0c : s0.ctxs = s.ctxs := by rcases h0 with rfl | ⟨v, rfl⟩ <;> simp
  have hent := newCtx_entry s0 s.ctxs.length t c (by rw [h0c])
  unfold enterSt
  cases hc : (c == CtxKind.nonasync) with
  | true =>
    simp only [if_true]
    unfold State.ctxIsNonAsync
    rw [updTask_ctxs, hent]
    exact hc
  | false =>
    simp only [Bool.false_eq_true, if_false]
    show ((newCtx s0 s.ctxs.length t c).ctxResumeOne s.ctxs.length).ctxIsNonAsync s.ctxs.length = false
    rw [isNonAsync_flag (flagOp_resume _ _)]
    unfold State.ctxIsNonAsync
    rw [hent]; exact hc

/-! ### one step -/

theorem L_step' (s : State) (g : Good' s) (k : K s) (m : M s (rstackN s)) (hnr : noRevisit s = true)
    (hg : (step s).guardFired = false) : M (step s) (rstackN (step s)) := by
  have hreg := g.i.j.reg
  have hrange := g.pi.hrange
  have hfresh : ∀ t stk, ∀ c ∈ (s.task t).ctxs, c ∉ belowN s t stk ∧ c < s.ctxs.length := by
    intro t stk c hc
    obtain ⟨x, hx, hxo, _⟩ := hreg t c hc
    refine ⟨?_, lt_of_getElem?_some hx⟩
    intro hb
    obtain ⟨o, hot, hco⟩ := mem_belowN hb
    obtain ⟨y, hy, hyo, _⟩ := hreg o c hco
    rw [hx] at hy; cases hy
    rw [hxo] at hyo; cases hyo
    exact hot rfl
  -- an operation on task `t` keeps the kind of every registered context
  have opna : ∀ {r : State} {t : Nat} {cs : List Nat} {b : Bool}, Op s r t cs b →
      ∀ o, ∀ c ∈ (s.task o).ctxs, r.ctxIsNonAsync c = s.ctxIsNonAsync c :=
    fun op o c hc => isNA_op op (hrange o c hc)
  cases step_cases s g.pi.items g.co.raising with
  | neutral q hst hsf =>
    rw [rstackN_congr hst (fun o => ⟨q.tact o, q.tctxs o⟩) (fun c => isNA_of_entry (by rw [q.ctxs]))]
    exact M_q (fun _ h => calm_silent h) q m
  | top f hctl e =>
    rw [e]
    have q := q_finishTop s f
    rw [rstackN_congr (s := s) (r := s.finishTop f) rfl (fun o => ⟨q.tact o, q.tctxs o⟩)
      (fun c => isNA_of_entry (by rw [q.ctxs]))]
    exact M_q (fun _ h => h) q m
  | enterLoop root rest hctl hnc q hst hc =>
    have hd := noRevisit_spec hnr [root] (by rw [hst]; rfl)
    rw [rstackN_push [root] (by rw [hst]; rfl) (fun o => ⟨q.tact o, q.tctxs o⟩)
      (fun c => isNA_of_entry (by rw [q.ctxs])) hd]
    exact M_q (fun _ h => calm_silent h) q m
  | pop root base rest top stk hctl hst hlen hno q hst' hc =>
    have hcold : hot s top = false := by
      cases hh : hot s top with
      | false => rfl
      | true =>
        exfalso
        obtain ⟨h1, h2⟩ := k.live top (hot_ctxs hh).2
        rcases hno with h | h
        · rw [h2] at h; cases h
        · exact h h1
    have hcold' : hot (step s) top = false := by rw [hot_q q]; exact hcold
    rw [rstackN_eq_below hcold', hst', belowN_congr top stk (fun o _ => ⟨q.tact o, q.tctxs o⟩)
      (fun o _ c _ => isNA_of_entry (by rw [q.ctxs]))]
    rw [rstackN_cons_cold hst hcold] at m
    exact M_q (fun _ h => calm_silent h) q m
  | suspend root base rest t stk hctl hst hlen hk hnc hsched e =>
    have ht := lt_of_kind_task s t hk
    have hact := g.i.d t hsched
    rw [e]
    rw [rstackN_top hst hact] at m
    -- what both outcomes of `_pause_contexts` have in common
    have fin : ∀ s2 : State, Op s s2 t (s.task t).ctxs false → (s2.task t).ctxActive = false →
        M s2 (belowN s t stk) → M s2.popStack (rstackN s2.popStack) := by
      intro s2 op tact m2
      have hcold : hot s2.popStack t = false := by
        show hot s2 t = false
        simp [hot, tact]
      have hstk : s2.popStack.stack = stk := by
        show s2.stack.tail = stk
        rw [op.stack, hst]; rfl
      rw [rstackN_eq_below hcold, hstk]
      have hb : belowN s2.popStack t stk = belowN s t stk :=
        belowN_congr t stk (fun o ho => by
          show (s2.task o).ctxActive = _ ∧ (s2.task o).ctxs = _
          rw [op.tne o ho]; exact ⟨rfl, rfl⟩) (fun o _ c hc => opna op o c hc)
      rw [hb]
      exact M_frame m2 (fun _ _ => rfl) (Nat.le_refl _) (fun _ => rfl) id rfl
    by_cases hnaf : P2.NAfree s t
    · obtain ⟨fl, hm⟩ := flip_pause' s t (fun ts => { ts with depsSched := false }) (fun _ => rfl) (fun _ => rfl)
        (fun _ => rfl) hnaf ht hact
      rw [lv_eq_self hnaf] at m
      exact fin _ fl.op fl.tact (hm _ m)
    · obtain ⟨fl, hm⟩ := pause_fail_spec s t (fun ts => { ts with depsSched := false }) (fun _ => rfl) (fun _ => rfl)
        (fun _ => rfl) ht hact hnaf hnc (k.k1 t) (g.i.j.nodup t) (fun c hc => by
          obtain ⟨x, hx, hxo, _⟩ := hreg t c hc
          exact ⟨x, hx, hxo, g.i.j.na c x hx⟩)
      exact fin _ fl.op fl.tact (hm _ m)
  | visit root base rest t stk hctl hst hlen hk hnc hsched ds hds e =>
    have ht := lt_of_kind_task s t hk
    by_cases hact : (s.task t).ctxActive = true
    · have hts : (s.updTask t fun ts => { ts with depsSched := true }).task t = { s.task t with depsSched := true } :=
        task_updTask_self _ _ _ ht
      have e' := e
      rw [nf_resume_active _ t (by rw [hts]; exact hact)] at e'
      have q : Q calm s (step s) := by
        rw [e']
        exact Q.trans (s' := s.updTask t fun ts => { ts with depsSched := true })
          (q_updTask _ _ _ (fun _ => rfl) (fun _ => rfl) (fun _ => rfl)) (Q.of_eq rfl rfl rfl rfl rfl rfl)
      have hstk : (step s).stack = ds.reverse ++ s.stack := by rw [e']; rfl
      have hd := noRevisit_spec hnr ds.reverse hstk
      rw [rstackN_push ds.reverse hstk (fun o => ⟨q.tact o, q.tctxs o⟩) (fun c => isNA_of_entry (by rw [q.ctxs])) hd]
      exact M_q (fun _ h => calm_silent h) q m
    · have hact' : (s.task t).ctxActive = false := by simpa using hact
      have hnaf : P2.NAfree s t := g.pi.z t (out_none hnc) hact'
      obtain ⟨fl, hm⟩ := flip_resume' s t (fun ts => { ts with depsSched := true }) (fun _ => rfl) (fun _ => rfl)
        (fun _ => rfl) hnaf ht hact'
      generalize (s.updTask t fun ts => { ts with depsSched := true }).resumeContexts t = s2 at fl hm e
      have hstk : (step s).stack = ds.reverse ++ (t :: stk) := by rw [e]; show ds.reverse ++ s2.stack = _; rw [fl.op.stack, hst]
      have hd := noRevisit_spec hnr ds.reverse (by rw [hstk, hst])
      have hfields : ∀ o, ((step s).task o).ctxActive = (s2.task o).ctxActive ∧ ((step s).task o).ctxs = (s2.task o).ctxs := by
        intro o; rw [e]; exact ⟨rfl, rfl⟩
      have hna2 : ∀ c, (step s).ctxIsNonAsync c = s2.ctxIsNonAsync c := by intro c; rw [e]; rfl
      have hr1 : rstackN (step s) = rstackN { s2 with stack := t :: stk } := by
        unfold rstackN hotTasks
        rw [hstk, fo_append_neg _ _ hd]
        have hh : hot (step s) = hot { s2 with stack := t :: stk } := by
          funext o; simp only [hot]; rw [(hfields o).1, (hfields o).2]; rfl
        rw [hh]
        apply flatMap_congr'
        intro o _
        rw [(hfields o).2, lv_congr (fun c _ => hna2 c)]; rfl
      rw [hr1, rstackN_top (s := { s2 with stack := t :: stk }) rfl fl.tact]
      show M (step s) ((lv s2 (s2.task t).ctxs).reverse ++ belowN { s2 with stack := t :: stk } t stk)
      have hb : belowN { s2 with stack := t :: stk } t stk = belowN s t stk :=
        belowN_congr t stk (fun o ho => by
          show (s2.task o).ctxActive = _ ∧ (s2.task o).ctxs = _
          rw [fl.op.tne o ho]; exact ⟨rfl, rfl⟩) (fun o _ c hc => opna fl.op o c hc)
      have hlv : lv s2 (s2.task t).ctxs = (s.task t).ctxs := by
        rw [fl.tctxs, lv_congr (s := s) (fun c hc => opna fl.op t c hc), lv_eq_self hnaf]
      rw [hb, hlv]
      rw [rstackN_top_inactive hst hact'] at m
      have m2 := hm _ m (g.i.j.nodup t) (hfresh t stk)
      rw [e]
      exact M_frame m2 (fun _ _ => rfl) (Nat.le_refl _) (fun _ => rfl) id rfl
  | enterGen root base rest t stk hctl hst hlen hk hnc e =>
    have ht := lt_of_kind_task s t hk
    by_cases hact : (s.task t).ctxActive = true
    · have e' := e
      rw [nf_resume_active _ t hact] at e'
      have q : Q calm s (step s) := by rw [e']; exact Q.of_eq rfl rfl rfl rfl rfl rfl
      rw [rstackN_congr (by rw [e']) (fun o => ⟨q.tact o, q.tctxs o⟩) (fun c => isNA_of_entry (by rw [q.ctxs]))]
      exact M_q (fun _ h => calm_silent h) q m
    · have hact' : (s.task t).ctxActive = false := by simpa using hact
      have hnaf : P2.NAfree s t := g.pi.z t (out_none hnc) hact'
      obtain ⟨fl, hm⟩ := flip_resume' s t (fun ts => ts) (fun _ => rfl) (fun _ => rfl) (fun _ => rfl) hnaf ht hact'
      rw [updTask_id] at fl hm
      generalize s.resumeContexts t = s2 at fl hm e
      have hstk : (step s).stack = t :: stk := by rw [e]; show s2.stack = _; rw [fl.op.stack, hst]
      have hact2 : ((step s).task t).ctxActive = true := by rw [e]; exact fl.tact
      rw [rstackN_top hstk hact2]
      have hna2 : ∀ c, (step s).ctxIsNonAsync c = s2.ctxIsNonAsync c := by intro c; rw [e]; rfl
      have hb : belowN (step s) t stk = belowN s t stk :=
        belowN_congr t stk (fun o ho => by
          rw [e]
          show (s2.task o).ctxActive = _ ∧ (s2.task o).ctxs = _
          rw [fl.op.tne o ho]; exact ⟨rfl, rfl⟩) (fun o _ c hc => by rw [hna2]; exact opna fl.op o c hc)
      have hc : ((step s).task t).ctxs = (s.task t).ctxs := by rw [e]; exact fl.tctxs
      have hlv : lv (step s) (s.task t).ctxs = (s.task t).ctxs := by
        rw [lv_congr (s := s) (fun c hc => by rw [hna2]; exact opna fl.op t c hc), lv_eq_self hnaf]
      rw [hb, hc, hlv]
      rw [rstackN_top_inactive hst hact'] at m
      have m2 := hm _ m (g.i.j.nodup t) (hfresh t stk)
      rw [e]
      exact M_frame m2 (fun _ _ => rfl) (Nat.le_refl _) (fun _ => rfl) id rfl
  | gen t old rest hctl hst hsf gc =>
    have ru := g.running hctl
    obtain ⟨stk, hstk⟩ : ∃ stk, s.stack = t :: stk := by
      have := k.sf
      rw [hctl, SF_gen] at this
      cases hs : s.stack with
      | nil => rw [hs] at this; simp at this
      | cons a l => rw [hs] at this; simp at this; exact ⟨l, by rw [this.1]⟩
    have hstk' : (step s).stack = t :: stk := by rw [hst, hstk]
    have fin : ∀ {cs : List Nat} {b : Bool} {ctxs' : List Nat} {conts' : List (Nat × Body)},
        GenOp' s (step s) t cs b ctxs' conts' → rstackN (step s) = (lv (step s) ctxs').reverse ++ belowN s t stk := by
      intro cs b ctxs' conts' go
      rw [rstackN_top hstk' (by rw [go.tact]; exact ru.act), go.tctxs,
        belowN_congr (r := step s) (s := s) t stk (fun o ho => by rw [go.op.tne o ho]; exact ⟨rfl, rfl⟩)
          (fun o _ c hc => opna go.op o c hc)]
    rw [rstackN_top hstk ru.act] at m
    cases gc with
    | neutral q =>
      rw [rstackN_congr hst (fun o => ⟨q.tact o, q.tctxs o⟩) (fun c => isNA_of_entry (by rw [q.ctxs])),
        rstackN_top hstk ru.act]
      exact M_q (fun _ h => calm_silent h) q m
    | withCtx c b kk s0 h0 e =>
      have e' : step s = enterSt s s0 t c b kk := e
      have hlvold : lv (step s) (s.task t).ctxs = lv s (s.task t).ctxs := by
        by_cases hc : c = .nonasync
        · obtain ⟨go, _⟩ := enter_spec_na s s0 t c b kk hc ru.lt ru.active h0
          rw [← e'] at go
          exact lv_congr (fun c' hc' => opna go.op t c' hc')
        · obtain ⟨go, _⟩ := enter_spec' s s0 t c b kk hc ru.lt ru.active h0
          rw [← e'] at go
          exact lv_congr (fun c' hc' => opna go.op t c' hc')
      have hnew := enterSt_isNA s s0 t c b kk h0
      rw [← e'] at hnew
      by_cases hc : c = .nonasync
      · obtain ⟨go, _, _, _, hm⟩ := enter_spec_na s s0 t c b kk hc ru.lt ru.active h0
        rw [← e'] at go hm
        rw [fin go, lv_append, hlvold]
        have : lv (step s) [s.ctxs.length] = [] := by
          rw [lv_cons_na [] (by rw [hnew, hc]; rfl)]; rfl
        rw [this]
        simpa using hm _ m
      · obtain ⟨go, _, _, hm⟩ := enter_spec' s s0 t c b kk hc ru.lt ru.active h0
        rw [← e'] at go hm
        rw [fin go, lv_append, hlvold]
        have hcf : (c == CtxKind.nonasync) = false := by simpa using hc
        have : lv (step s) [s.ctxs.length] = [s.ctxs.length] := by
          rw [lv_cons_live [] (by rw [hnew, hcf])]; rfl
        rw [this]
        have := hm _ m
        simpa using this
    | endwith cid kk cs hconts e =>
      have hcid : cid ∈ (s.task t).ctxs := by
        have := k.k1 t
        rw [hconts] at this
        have h2 : cid ∈ (s.task t).ctxs.reverse := by rw [← this]; simp
        exact List.mem_reverse.1 h2
      obtain ⟨go, _, hm⟩ := endwith_spec' s t cid kk cs ru.lt ru.act hconts (k.k1 t) (g.i.j.nodup t)
        (exOK_of_J g.i.j hcid ru.act)
      rw [← e] at go hm
      rw [fin go]
      have hctxs : (s.task t).ctxs.reverse = cid :: cs.map (·.1) := by
        rw [← k.k1 t, hconts]; rfl
      have hsub : ∀ c' ∈ (cs.map (·.1)).reverse, c' ∈ (s.task t).ctxs := by
        intro c' hc'
        have : c' ∈ (s.task t).ctxs.reverse := by rw [hctxs]; exact List.mem_cons_of_mem _ (List.mem_reverse.1 hc')
        exact List.mem_reverse.1 this
      rw [lv_congr (s := s) (fun c' hc' => opna go.op t c' (hsub c' hc'))]
      rw [← lv_reverse, hctxs, show cid :: cs.map (·.1) = [cid] ++ cs.map (·.1) from rfl, lv_append,
        List.append_assoc] at m
      have := hm _ m
      rw [lv_reverse, List.reverse_reverse]
      exact this
    | finish o hnc e =>
      obtain ⟨go, hm⟩ := finish_spec' s t old o ru.lt ru.act (k.k1 t) (g.i.j.nodup t)
        (fun c hc => exOK_of_J g.i.j hc ru.act)
      rw [← e] at go hm
      rw [fin go]
      simpa using hm _ m
  | guard h => rw [h] at hg; cases hg

theorem M_init' (cfg : Cfg) (tops : List (Conv × Body)) (choices : List (Nat × Nat)) :
    M (initState cfg tops choices) (rstackN (initState cfg tops choices)) := by
  have hr : rstackN (initState cfg tops choices) = [] := by simp [rstackN, hotTasks, initState, fo]
  rw [hr]
  exact ⟨rfl, List.nodup_nil, fun c h => (by cases h), fun v => (by simp [State.svGet, initState, expect]), trivial,
    (by simp [initState])⟩

theorem M_reach' {s : State} (h : ReachNR s) (hg : s.guardFired = false) : M s (rstackN s) := by
  induction h with
  | init cfg tops choices => exact M_init' cfg tops choices
  | @step s h hn ih =>
    have hg0 := P3.guard_mono s hg
    exact L_step' s (good'_of_reach h.reach hg0) (K_reach' h.reach hg0) (ih hg0) hn hg

end AsynqModel.Core.P27
