import AsynqModel.Core.Reach
/-
  P10, part 2: well-scoped programs (harness/coregen.py `well_scoped`).

  `goWS ninh b n` is the literal transcription of the Python `go(b, n)`: `none` if some `Ref` names a future that does
  not exist on some path, otherwise the own-counts at the `endwith` exits of `b`.
  `wsB ninh b n Q` is the same check in continuation-passing style (`Q` must hold of the own-count at every `endwith`
  exit); it is the form that is an invariant of the running machine.  `wsB_iff_goWS` relates the two.
-/
namespace AsynqModel.Core.P10
open AsynqModel.Core

def refOk (nown ninh : Nat) : Ref → Bool
  | .own i => decide (i < nown)
  | .inh j => decide (j < ninh)

/-- continuation-passing well-scopedness: `n` futures created so far, `ninh` inherited ones -/
def wsB : Body → Nat → Nat → (Nat → Bool) → Bool
  | .ret _, _, _, _ => true
  | .res _, _, _, _ => true
  | .raise _, _, _, _ => true
  | .reraise, _, _, _ => true
  | .endwith, n, _, Q => Q n
  | .spawn c pass k, n, ninh, Q =>
    pass.all (refOk n ninh) && wsB c 0 pass.length (fun _ => true) && wsB k (n + 1) ninh Q
  | .item _ _ _ k, n, ninh, Q => wsB k (n + 1) ninh Q
  | .const _ k, n, ninh, Q => wsB k (n + 1) ninh Q
  | .errfut _ k, n, ninh, Q => wsB k (n + 1) ninh Q
  | .lazy _ k, n, ninh, Q => wsB k (n + 1) ninh Q
  | .yld y k h, n, ninh, Q => y.leaves.all (refOk n ninh) && wsB k n ninh Q && wsB h n ninh Q
  | .reyld k h, n, ninh, Q => wsB k n ninh Q && wsB h n ninh Q
  | .sync c pass k h, n, ninh, Q =>
    pass.all (refOk n ninh) && wsB c 0 pass.length (fun _ => true) && wsB k (n + 1) ninh Q && wsB h (n + 1) ninh Q
  | .syncfut r k h, n, ninh, Q => refOk n ninh r && wsB k n ninh Q && wsB h n ninh Q
  | .syncret _ _ _, _, _, _ => false            -- run time only, never written in a program
  | .withCtx _ b k, n, ninh, Q => wsB b n ninh (fun m => wsB k m ninh Q)
  | .read _ k, n, ninh, Q => wsB k n ninh Q
  | .active k, n, ninh, Q => wsB k n ninh Q

/-- `well_scoped(body, nown, ninh)` of the generator -/
def WellScoped (b : Body) (nown ninh : Nat) : Bool := wsB b nown ninh (fun _ => true)

theorem wsB_mono : ∀ (b : Body) (n ninh : Nat) (Q Q' : Nat → Bool), (∀ m, Q m = true → Q' m = true) →
    wsB b n ninh Q = true → wsB b n ninh Q' = true
  | .ret _, _, _, _, _, _, _ => rfl
  | .res _, _, _, _, _, _, _ => rfl
  | .raise _, _, _, _, _, _, _ => rfl
  | .reraise, _, _, _, _, _, _ => rfl
  | .endwith, n, _, _, _, hq, h => hq n h
  | .spawn c pass k, n, ninh, Q, Q', hq, h => by
    simp only [wsB, Bool.and_eq_true] at h ⊢
    exact ⟨h.1, wsB_mono k _ _ Q Q' hq h.2⟩
  | .item _ _ _ k, n, ninh, Q, Q', hq, h => wsB_mono k _ _ Q Q' hq h
  | .const _ k, n, ninh, Q, Q', hq, h => wsB_mono k _ _ Q Q' hq h
  | .errfut _ k, n, ninh, Q, Q', hq, h => wsB_mono k _ _ Q Q' hq h
  | .lazy _ k, n, ninh, Q, Q', hq, h => wsB_mono k _ _ Q Q' hq h
  | .yld y k h', n, ninh, Q, Q', hq, h => by
    simp only [wsB, Bool.and_eq_true] at h ⊢
    exact ⟨⟨h.1.1, wsB_mono k _ _ Q Q' hq h.1.2⟩, wsB_mono h' _ _ Q Q' hq h.2⟩
  | .reyld k h', n, ninh, Q, Q', hq, h => by
    simp only [wsB, Bool.and_eq_true] at h ⊢
    exact ⟨wsB_mono k _ _ Q Q' hq h.1, wsB_mono h' _ _ Q Q' hq h.2⟩
  | .sync c pass k h', n, ninh, Q, Q', hq, h => by
    simp only [wsB, Bool.and_eq_true] at h ⊢
    exact ⟨⟨h.1.1, wsB_mono k _ _ Q Q' hq h.1.2⟩, wsB_mono h' _ _ Q Q' hq h.2⟩
  | .syncfut r k h', n, ninh, Q, Q', hq, h => by
    simp only [wsB, Bool.and_eq_true] at h ⊢
    exact ⟨⟨h.1.1, wsB_mono k _ _ Q Q' hq h.1.2⟩, wsB_mono h' _ _ Q Q' hq h.2⟩
  | .syncret _ _ _, _, _, _, _, _, h => by simp [wsB] at h
  | .withCtx _ b k, n, ninh, Q, Q', hq, h => by
    simp only [wsB] at h ⊢
    exact wsB_mono b _ _ _ _ (fun m hm => wsB_mono k _ _ Q Q' hq hm) h
  | .read _ k, n, ninh, Q, Q', hq, h => wsB_mono k _ _ Q Q' hq h
  | .active k, n, ninh, Q, Q', hq, h => wsB_mono k _ _ Q Q' hq h

/-! ### the literal transcription of the Python checker -/

def optUnion : Option (List Nat) → Option (List Nat) → Option (List Nat)
  | some a, some c => some (a ++ c)
  | _, _ => none

/-- the `for m in inner` loop of the `with` case -/
def goEach (g : Nat → Option (List Nat)) : List Nat → Option (List Nat)
  | [] => some []
  | m :: ms => optUnion (g m) (goEach g ms)

/-- `go(b, n)`: the own-counts at the `endwith` exits of `b`, or `none` if `b` is ill-scoped -/
def goWS : Body → Nat → Nat → Option (List Nat)
  | .ret _, _, _ => some []
  | .res _, _, _ => some []
  | .raise _, _, _ => some []
  | .reraise, _, _ => some []
  | .endwith, n, _ => some [n]
  | .spawn c pass k, n, ninh =>
    if !pass.all (refOk n ninh) || (goWS c 0 pass.length).isNone then none else goWS k (n + 1) ninh
  | .item _ _ _ k, n, ninh => goWS k (n + 1) ninh
  | .const _ k, n, ninh => goWS k (n + 1) ninh
  | .errfut _ k, n, ninh => goWS k (n + 1) ninh
  | .lazy _ k, n, ninh => goWS k (n + 1) ninh
  | .yld y k h, n, ninh =>
    if !y.leaves.all (refOk n ninh) then none else optUnion (goWS k n ninh) (goWS h n ninh)
  | .reyld k h, n, ninh => optUnion (goWS k n ninh) (goWS h n ninh)
  | .sync c pass k h, n, ninh =>
    if !pass.all (refOk n ninh) || (goWS c 0 pass.length).isNone then none
    else optUnion (goWS k (n + 1) ninh) (goWS h (n + 1) ninh)
  | .syncfut r k h, n, ninh =>
    if !refOk n ninh r then none else optUnion (goWS k n ninh) (goWS h n ninh)
  | .syncret _ _ _, _, _ => none
  | .withCtx _ b k, n, ninh =>
    match goWS b n ninh with
    | none => none
    | some inner => goEach (fun m => goWS k m ninh) inner
  | .read _ k, n, ninh => goWS k n ninh
  | .active k, n, ninh => goWS k n ninh

/-- `wsB` in terms of the exit set -/
def okAll (o : Option (List Nat)) (Q : Nat → Bool) : Bool :=
  match o with
  | none => false
  | some l => l.all Q

theorem okAll_union (a c : Option (List Nat)) (Q : Nat → Bool) :
    okAll (optUnion a c) Q = (okAll a Q && okAll c Q) := by
  cases a <;> cases c <;> simp [okAll, optUnion]

theorem okAll_goEach (g : Nat → Option (List Nat)) (Q : Nat → Bool) :
    ∀ l : List Nat, okAll (goEach g l) Q = l.all (fun m => okAll (g m) Q)
  | [] => rfl
  | m :: ms => by simp [goEach, okAll_union, okAll_goEach g Q ms]

theorem okAll_true_isSome (o : Option (List Nat)) : okAll o (fun _ => true) = o.isSome := by
  cases o <;> simp [okAll]

theorem wsB_eq_goWS : ∀ (b : Body) (n ninh : Nat) (Q : Nat → Bool), wsB b n ninh Q = okAll (goWS b n ninh) Q
  | .ret _, _, _, _ => rfl
  | .res _, _, _, _ => rfl
  | .raise _, _, _, _ => rfl
  | .reraise, _, _, _ => rfl
  | .endwith, n, _, Q => by simp [wsB, goWS, okAll]
  | .spawn c pass k, n, ninh, Q => by
    simp only [wsB, goWS]
    rw [wsB_eq_goWS c, wsB_eq_goWS k, okAll_true_isSome]
    cases pass.all (refOk n ninh) <;> cases hc : goWS c 0 pass.length <;> simp [okAll]
  | .item _ _ _ k, n, ninh, Q => wsB_eq_goWS k _ _ Q
  | .const _ k, n, ninh, Q => wsB_eq_goWS k _ _ Q
  | .errfut _ k, n, ninh, Q => wsB_eq_goWS k _ _ Q
  | .lazy _ k, n, ninh, Q => wsB_eq_goWS k _ _ Q
  | .yld y k h, n, ninh, Q => by
    simp only [wsB, goWS]
    rw [wsB_eq_goWS k, wsB_eq_goWS h, Bool.and_assoc, ← okAll_union]
    cases y.leaves.all (refOk n ninh) <;> simp [okAll]
  | .reyld k h, n, ninh, Q => by
    simp only [wsB, goWS]
    rw [wsB_eq_goWS k, wsB_eq_goWS h, okAll_union]
  | .sync c pass k h, n, ninh, Q => by
    simp only [wsB, goWS]
    rw [wsB_eq_goWS c, wsB_eq_goWS k, wsB_eq_goWS h, okAll_true_isSome, Bool.and_assoc, ← okAll_union]
    cases pass.all (refOk n ninh) <;> cases hc : goWS c 0 pass.length <;> simp [okAll]
  | .syncfut r k h, n, ninh, Q => by
    simp only [wsB, goWS]
    rw [wsB_eq_goWS k, wsB_eq_goWS h, Bool.and_assoc, ← okAll_union]
    cases refOk n ninh r <;> simp [okAll]
  | .syncret _ _ _, _, _, _ => rfl
  | .withCtx _ b k, n, ninh, Q => by
    simp only [wsB, goWS]
    rw [wsB_eq_goWS b]
    cases goWS b n ninh with
    | none => rfl
    | some inner =>
      show (inner.all fun m => wsB k m ninh Q) = okAll (goEach (fun m => goWS k m ninh) inner) Q
      rw [okAll_goEach _ Q inner]
      congr 1
      funext m
      exact wsB_eq_goWS k m ninh Q
  | .read _ k, n, ninh, Q => wsB_eq_goWS k _ _ Q
  | .active k, n, ninh, Q => wsB_eq_goWS k _ _ Q

/-- `WellScoped` is exactly "the Python `go` does not return None" -/
theorem wellScoped_iff_goWS (b : Body) (nown ninh : Nat) :
    WellScoped b nown ninh = (goWS b nown ninh).isSome := by
  unfold WellScoped
  rw [wsB_eq_goWS, okAll_true_isSome]

/-! ### the run-time form: a task state is well-scoped -/

/-- what must hold at the `endwith` exits of the current body: the continuations of the open with-blocks -/
def contQ (ninh : Nat) : List (Nat × Body) → Nat → Bool
  | [], _ => true
  | (_, k) :: rest, m => wsB k m ninh (contQ ninh rest)

/-- the rest of a task is well-scoped with respect to the futures it has created and inherited so far -/
def wsTS (ts : TaskSt) : Bool :=
  match ts.body with
  | .syncret _ k h =>
    wsB k ts.own.length ts.inh.length (contQ ts.inh.length ts.conts) &&
    wsB h ts.own.length ts.inh.length (contQ ts.inh.length ts.conts)
  | b => wsB b ts.own.length ts.inh.length (contQ ts.inh.length ts.conts)

theorem contQ_nil_of (ninh : Nat) (cs : List (Nat × Body)) (m : Nat) (_ : contQ ninh cs m = true) :
    contQ ninh [] m = true := rfl

/-- closing all with-blocks (a finished or failed task) keeps the task state well-scoped -/
theorem wsTS_conts_nil (ts : TaskSt) (h : wsTS ts = true) : wsTS { ts with conts := [] } = true := by
  unfold wsTS at h ⊢
  dsimp only at h ⊢
  split
  · rename_i heq
    rw [heq] at h
    simp only [Bool.and_eq_true] at h ⊢
    exact ⟨wsB_mono _ _ _ _ _ (contQ_nil_of _ _) h.1, wsB_mono _ _ _ _ _ (contQ_nil_of _ _) h.2⟩
  · rename_i hne
    split at h
    · rename_i heq; exact absurd heq (hne _ _ _)
    · exact wsB_mono _ _ _ _ _ (contQ_nil_of _ _) h

theorem wsTS_default : wsTS {} = true := rfl

/-- a resolved in-scope reference is one of the futures the task created or inherited -/
theorem resolve_mem (ts : TaskSt) (r : Ref) (h : refOk ts.own.length ts.inh.length r = true) :
    ts.resolve r ∈ ts.own ∨ ts.resolve r ∈ ts.inh := by
  cases r with
  | own i =>
    simp only [refOk, decide_eq_true_eq] at h
    left
    simp only [TaskSt.resolve, List.getD_eq_getElem?_getD, List.getElem?_eq_getElem h, Option.getD_some]
    exact List.getElem_mem h
  | inh j =>
    simp only [refOk, decide_eq_true_eq] at h
    right
    simp only [TaskSt.resolve, List.getD_eq_getElem?_getD, List.getElem?_eq_getElem h, Option.getD_some]
    exact List.getElem_mem h

/-- an own reference resolves to the entry at its index -/
theorem resolve_own_idx (ts : TaskSt) (i : Nat) (h : i < ts.own.length) :
    ts.own[i]? = some (ts.resolve (.own i)) := by
  simp [TaskSt.resolve, List.getElem?_eq_getElem h]

mutual
theorem leaves_mapLeaves {α β : Type} (g : α → β) : (y : YS α) → (y.mapLeaves g).leaves = y.leaves.map g
  | .none => rfl
  | .junk => rfl
  | .f _ => rfl
  | .tup l => by simp only [YS.mapLeaves, YS.leaves]; exact leavesList_mapLeaves g l
  | .lst l => by simp only [YS.mapLeaves, YS.leaves]; exact leavesList_mapLeaves g l
  | .dict _ l => by simp only [YS.mapLeaves, YS.leaves]; exact leavesList_mapLeaves g l
theorem leavesList_mapLeaves {α β : Type} (g : α → β) :
    (l : List (YS α)) → YS.leavesList (YS.mapLeavesList g l) = (YS.leavesList l).map g
  | [] => rfl
  | y :: ys => by
    simp only [YS.mapLeavesList, YS.leavesList, List.map_append]
    rw [leaves_mapLeaves g y, leavesList_mapLeaves g ys]
end

end AsynqModel.Core.P10

