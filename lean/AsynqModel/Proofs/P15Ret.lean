import AsynqModel.Proofs.P12Final
/-!
  P15, part 5 (the `.ret` clause of the C03 observer, "awaited-task-left-uncomputed"): when a top-level call returns,
  every task that has started is computed.

  Invariant `Aw s` (well-scoped program, the stack guard has not fired, no NonAsyncContext): every uncomputed task
  that has started, sits on the scheduler's task stack or has a generator frame on the Python stack is *supported*:
  some `wait_for(ρ)` frame is on the Python stack and a chain of live await edges leads from `ρ` to the task
  (`Live s u x`: `u` is an uncomputed task suspended at a yield and `x` is one of its `_dependencies`).
  With an empty Python stack no task is supported, so every started task is computed.
-/
namespace AsynqModel.Core.P15
open AsynqModel.Core P2

/-- `u` is an uncomputed task, suspended at a yield, with `x` among its dependencies -/
def Live (s : State) (u x : Nat) : Prop :=
  (s.fut u).kind = .task ∧ s.computed u = false ∧ (s.task u).pending = true ∧ x ∈ (s.task u).deps

/-- a chain of live await edges from `ρ` -/
inductive Chain (s : State) (ρ : Nat) : Nat → Prop
  | refl : Chain s ρ ρ
  | tail {u x : Nat} : Chain s ρ u → Live s u x → Chain s ρ x

/-- some `wait_for(ρ)` on the Python stack waits, directly or through suspended tasks, for `t` -/
def Sup (s : State) (t : Nat) : Prop := ∃ c ∈ s.ctl, ∃ ρ, P12.isWait c ρ ∧ Chain s ρ t

/-- the tasks the invariant speaks about -/
def Tr (s : State) (t : Nat) : Prop := (s.task t).started = true ∨ t ∈ s.stack ∨ t ∈ gens s.ctl

def Aw (s : State) : Prop := ∀ t, (s.fut t).kind = .task → s.computed t = false → Tr s t → Sup s t

/-- live edges to futures that stay uncomputed survive -/
def EP (s r : State) : Prop := ∀ u x, Live s u x → r.computed x = false → Live r u x

theorem Chain.transfer {s r : State} {ρ t : Nat} (ep : EP s r) (h : Chain s ρ t) (ht : r.computed t = false) :
    Chain r ρ t := by
  induction h with
  | refl => exact .refl
  | tail _ hl ih =>
    have hl' := ep _ _ hl ht
    exact .tail (ih hl'.2.1) hl'

theorem Chain.of_computed_root {s : State} {ρ t : Nat} (h : Chain s ρ t) (hc : s.computed ρ = true) : t = ρ := by
  induction h with
  | refl => rfl
  | tail _ hl ih =>
    rw [ih] at hl
    have := hl.2.1
    rw [hc] at this; cases this

theorem ep_of_hp {X : Nat → Prop} {s r : State} (hp : P12.Hp X s r)
    (hX : ∀ u, X u → ∀ x, Live s u x → r.computed x = false → Live r u x) : EP s r := by
  intro u x hl hx
  by_cases hu : X u
  · exact hX u hu x hl hx
  · obtain ⟨hk, hc, hpd, hd⟩ := hl
    obtain ⟨e, c⟩ := hp.task u hu hk
    exact ⟨by rw [hp.kind u (P5.lt_of_kind_task s u hk)]; exact hk, by rw [c]; exact hc,
      by rw [e.pending]; exact hpd, by rw [e.deps]; exact hd⟩

theorem ep_of_hpE {s r : State} (hp : P12.Hp P12.E s r) : EP s r := ep_of_hp hp (fun _ h => h.elim)

theorem isWait_enter_eq {r ρ : Nat} (h : P12.isWait (.waitEnter r) ρ) : ρ = r := by
  rcases h with h | ⟨b, h⟩
  · injection h with h; exact h.symm
  · cases h

theorem isWait_loop_eq {r b ρ : Nat} (h : P12.isWait (.waitLoop r b) ρ) : ρ = r := by
  rcases h with h | ⟨b', h⟩
  · cases h
  · injection h with h _; exact h.symm

theorem not_isWait_gen {t : Nat} {old : Option Nat} {ρ : Nat} : ¬ P12.isWait (.gen t old) ρ := by
  intro h; rcases h with h | ⟨b, h⟩ <;> cases h

/-- the general step: the task was already tracked, every `wait_for` frame stays or its root is computed -/
theorem sup_transfer {X : Nat → Prop} {s r : State} (hp : P12.Hp X s r) (ep : EP s r) (aw : Aw s) {t : Nat}
    (hk : (r.fut t).kind = .task) (hc : r.computed t = false) (hlt : t < s.futs.length) (htr : Tr s t)
    (hctl : ∀ c ∈ s.ctl, ∀ ρ, P12.isWait c ρ → (∃ c' ∈ r.ctl, P12.isWait c' ρ) ∨ s.computed ρ = true) : Sup r t := by
  have hks : (s.fut t).kind = .task := by rw [← hp.kind t hlt]; exact hk
  have hcs : s.computed t = false := by
    cases h : s.computed t with
    | false => rfl
    | true => rw [hp.comp t h] at hc; cases hc
  obtain ⟨c, hcm, ρ, hw, ch⟩ := aw t hks hcs htr
  rcases hctl c hcm ρ hw with ⟨c', hc', hw'⟩ | hcomp
  · exact ⟨c', hc', ρ, hw', ch.transfer ep hc⟩
  · have := ch.of_computed_root hcomp
    rw [this, hcomp] at hcs; cases hcs

/-! ### what a step does to `started` (from the classification of P2) -/

theorem task_eq_ts (s : State) (f : Nat) : s.task f = (s.fut f).ts := rfl

theorem task_of_futs_eq {s r : State} {t : Nat} {g : TaskSt → TaskSt} (h : r.futs = (s.updTask t g).futs) (u : Nat) :
    r.task u = (s.updTask t g).task u := by
  unfold State.task State.fut; rw [h]

theorem started_back {s : State} (h : Reach s) {u : Nat} (hu : ((step s).task u).started = true) :
    (s.task u).started = true ∨ ∃ old rest, s.ctl = .gen u old :: rest := by
  have pin := pinv_reach h
  rcases step_kind s pin.items pin.genKind pin.z with ⟨q, _⟩ | ⟨q, _⟩ | ⟨t, old, rest, g, h1, _, _, hg, c, _, _⟩ |
      ⟨t, old, rest, g, o, h1, _, _, _, hg, c, _, _⟩ | ⟨t, old, rest, g, ry, deps, h1, _, hg, _, c, _⟩
  · left; rw [task_eq_ts, ← (q.fut u).started]; exact hu
  · left; rw [task_eq_ts, ← (q.fut u).started]; exact hu
  · by_cases e : u = t
    · right; exact ⟨old, rest, e ▸ h1⟩
    · left
      rw [task_of_futs_eq c.futs, P10.task_updTask_ne _ _ _ _ e] at hu; exact hu
  · left
    by_cases e : u = t
    · subst e
      rcases Nat.lt_or_ge u s.futs.length with hl | hl
      · rw [task_of_futs_eq c.futs, P10.task_updTask_self _ _ _ hl, (hg _).2.1] at hu; exact hu
      · rw [task_of_futs_eq c.futs, P10.task_updTask] at hu
        rw [if_neg (by omega)] at hu; exact hu
    · rw [task_of_futs_eq c.futs, P10.task_updTask_ne _ _ _ _ e] at hu; exact hu
  · left
    by_cases e : u = t
    · subst e
      rcases Nat.lt_or_ge u s.futs.length with hl | hl
      · rw [task_of_futs_eq c.futs, P10.task_updTask_self _ _ _ hl, (hg _).2.1] at hu; exact hu
      · rw [task_of_futs_eq c.futs, P10.task_updTask] at hu
        rw [if_neg (by omega)] at hu; exact hu
    · rw [task_of_futs_eq c.futs, P10.task_updTask_ne _ _ _ _ e] at hu; exact hu

/-- every future changes as `FutLe` says in a step that is not an instruction of a task body -/
theorem futLe_of_wait {s : State} (h : Reach s) (hng : ∀ t old rest, s.ctl ≠ .gen t old :: rest) (f : Nat) :
    FutLe (s.fut f) ((step s).fut f) := by
  have pin := pinv_reach h
  rcases step_kind s pin.items pin.genKind pin.z with ⟨q, _⟩ | ⟨q, _⟩ | ⟨t, old, rest, g, h1, _⟩ |
      ⟨t, old, rest, g, o, h1, _⟩ | ⟨t, old, rest, g, ry, deps, h1, _⟩
  · exact q.fut f
  · exact q.fut f
  · exact absurd h1 (hng t old rest)
  · exact absurd h1 (hng t old rest)
  · exact absurd h1 (hng t old rest)

/-- `_continue_with_task(top)` is entered only when every dependency of `top` is computed -/
theorem enterGen_deps {s : State} (h : Reach s) {root base : Nat} {rest : List Ctl} {top : Nat} {old : Option Nat}
    (hc : s.ctl = .waitLoop root base :: rest) (hr : (step s).ctl = .gen top old :: s.ctl) :
    ∀ d ∈ (s.task top).deps, s.computed d = true := by
  have pin := pinv_reach h
  have hlen : (step s).ctl.length = s.ctl.length + 1 := by rw [hr]; rfl
  rcases step_kind s pin.items pin.genKind pin.z with ⟨q, c⟩ | ⟨q, t, r', b', rest', h1, h2, _, _, _, _, _, hd⟩ |
      ⟨t, old', rest', g, h1, _⟩ | ⟨t, old', rest', g, o, h1, _⟩ | ⟨t, old', rest', g, ry, deps, h1, _⟩
  · rcases c with ⟨c1, _⟩ | ⟨c0, rest', c1, _, c2, _⟩ | ⟨t, old', rest', c1, _⟩ | ⟨c0, c0', rest', c1, c2, _⟩ | ⟨f, c1, _⟩
    · rw [c1] at hlen; omega
    · rw [c2, c1] at hlen; simp at hlen; omega
    · rw [hc] at c1; cases c1
    · rw [c2, c1] at hlen; simp at hlen
    · rw [hr] at c1; cases c1
  · rw [hr] at h2
    injection h2 with h2 _
    injection h2 with h2 _
    rw [h2]; exact hd
  · rw [hc] at h1; cases h1
  · rw [hc] at h1; cases h1
  · rw [hc] at h1; cases h1

/-! ### a `wait_for` frame is popped only when its root is computed -/

theorem popEnter_computed {s : State} (hs : s.stuck = none) (hr : s.raising = none) {root : Nat} {rest : List Ctl}
    (hc : s.ctl = .waitEnter root :: rest) (hp : (step s).ctl = rest) : s.computed root = true := by
  cases hcomp : s.computed root with
  | true => rfl
  | false =>
    have : (step s).ctl = .waitLoop root s.stack.length :: rest := by
      unfold step
      simp [hs, hc, hr, hcomp]
    rw [this] at hp
    have := congrArg List.length hp
    simp at this

theorem popLoop_computed {s : State} (hs : s.stuck = none) (hr : s.raising = none) {root base : Nat} {rest : List Ctl}
    (hc : s.ctl = .waitLoop root base :: rest) (hlen : s.stack.length ≤ base) (hp : (step s).ctl = rest) :
    s.computed root = true := by
  cases hcomp : s.computed root with
  | true => rfl
  | false =>
    rw [P12.step_eq_flush s hs root base rest hc hr hlen hcomp, (P5.same_schedulerFlush s root).ctl] at hp
    have := congrArg List.length hp
    simp [hc] at this

end AsynqModel.Core.P15
