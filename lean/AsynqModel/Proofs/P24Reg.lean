import AsynqModel.Proofs.P16BStep
/-!
  P24, part 2 (audit item 4c): while the MAX_TASK_STACK_SIZE guard has not fired, the context of every OPEN
  with-block of a task (`conts`) is REGISTERED with that task (`ctxs`) - the converse of `P16.B.k1w` - for every
  kind of context, NonAsyncContexts included.  Together with `P16.B.cown` (the owner of the context of an open block
  of `t` is `t`) this links the with-blocks a task has entered to the registration lists the C06 theorems quantify
  over.
-/
namespace AsynqModel.Core.P24
open AsynqModel.Core AsynqModel.Core.P5 AsynqModel.Core.P16

/-- every open with-block is registered -/
def W (s : State) : Prop := ∀ t c, c ∈ (s.task t).conts.map (·.1) → c ∈ (s.task t).ctxs

theorem W_init (cfg : Cfg) (tops : List (Conv × Body)) (choices : List (Nat × Nat)) : W (initState cfg tops choices) := by
  intro t c h
  have ht : (initState cfg tops choices).task t = {} := by simp [State.task, State.fut, initState]
  rw [ht] at h; cases h

theorem W.frame {s r : State} (w : W s) (hc : ∀ u, (r.task u).conts = (s.task u).conts)
    (ht : ∀ u, (r.task u).ctxs = (s.task u).ctxs) : W r := by
  intro t c h
  rw [hc] at h; rw [ht]; exact w t c h

theorem W.ofQ {P : Event → Bool} {s r : State} (w : W s) (q : P7.Q P s r) : W r := w.frame q.tconts q.tctxs

theorem W.of_eq {s r : State} (w : W s) (hf : r.futs = s.futs) : W r := by
  have e1 : ∀ u, r.task u = s.task u := fun u => by simp [State.task, State.fut, hf]
  exact w.frame (fun u => by rw [e1]) (fun u => by rw [e1])

theorem W.updTask {s : State} (w : W s) (t : Nat) (g : TaskSt → TaskSt) (h1 : ∀ x, (g x).ctxs = x.ctxs)
    (h3 : ∀ x, (g x).conts = x.conts) : W (s.updTask t g) :=
  w.frame (fun u => task_updTask_field s t u g (·.conts) h3) (fun u => task_updTask_field s t u g (·.ctxs) h1)

theorem W.flips {s : State} (w : W s) (v : Bool) (t : Nat) (l : List Nat) :
    W (l.foldl (flipOne v) (s.updTask t fun ts => { ts with ctxActive := v })) := by
  have w1 : W (s.updTask t fun ts => { ts with ctxActive := v }) := w.updTask t _ (fun _ => rfl) (fun _ => rfl)
  exact w1.frame (fun u => by rw [task_foldFlip]) (fun u => by rw [task_foldFlip])

/-- leaving blocks whose contexts are owned by `t` does not touch the registrations of other tasks -/
theorem ctxs_foldExit_other (t u : Nat) (hu : u ≠ t) (l : List (Nat × Body)) : ∀ (s : State),
    (∀ p ∈ l, ∃ x, s.ctxs[p.1]? = some x ∧ x.owner = some t) →
    ((l.foldl (fun s p => s.ctxExit p.1) s).task u).ctxs = (s.task u).ctxs := by
  induction l with
  | nil => intro s _; rfl
  | cons p l ih =>
    intro s h
    rw [List.foldl_cons, ih (s.ctxExit p.1) (fun q hq => owner_of_ko (fun c' => ko_ctxExit s p.1 c') (h q (by simp [hq])))]
    rw [ctxs_ctxExit, if_neg]
    rintro ⟨x, hx, ho⟩
    obtain ⟨y, hy, hyo⟩ := h p (by simp)
    rw [hx] at hy
    injection hy with hy
    subst hy
    rw [ho] at hyo
    injection hyo with hyo
    exact hu hyo

theorem W.exitComplete {x : State} (w : W x) (b : B x) (t : Nat) (ht : t < x.futs.length) (o : Outcome) :
    W (((x.exitAll t).updTask t fun ts => { ts with pending := false }).complete t o) := by
  have hconts : ∀ u, ((((x.exitAll t).updTask t fun ts => { ts with pending := false }).complete t o).task u).conts =
      if u = t then [] else (x.task u).conts := by
    intro u
    rw [(ext_complete _ t o).tconts, task_updTask_field _ t u (fun ts => { ts with pending := false }) (·.conts) (fun _ => rfl), conts_exitAll]
    by_cases hu : u = t
    · simp [hu, ht]
    · simp [hu]
  have hctxs : ∀ u, ((((x.exitAll t).updTask t fun ts => { ts with pending := false }).complete t o).task u).ctxs =
      (((x.task t).conts.foldl (fun s p => s.ctxExit p.1) x).task u).ctxs := by
    intro u
    rw [(ext_complete _ t o).tctxs, task_updTask_field _ t u (fun ts => { ts with pending := false }) (·.ctxs) (fun _ => rfl), task_exitAll]
  intro u c h
  rw [hconts] at h
  by_cases hu : u = t
  · rw [if_pos hu] at h; cases h
  · rw [if_neg hu] at h
    rw [hctxs, ctxs_foldExit_other t u hu _ x (fun q hq => b.cown t q.1 (List.mem_map_of_mem hq))]
    exact w u c h

theorem W.failSuspended {x : State} (w : W x) (b : B x) (t : Nat) (ht : t < x.futs.length) (e : Err) :
    W (x.failSuspended t e) := by
  unfold State.failSuspended
  split
  · exact w
  · exact w.exitComplete b t ht _

theorem W.resumeContexts {s : State} (w : W s) (b : B s) (t : Nat) (ht : t < s.futs.length) :
    W (s.resumeContexts t) := by
  rw [resumeContexts_eq]
  split
  · exact w
  · simp only
    have w1 := w.flips true t (s.task t).ctxs
    have b1 := b.flips true t (s.task t).ctxs
    have hlen : ((s.task t).ctxs.foldl (flipOne true) (s.updTask t fun ts => { ts with ctxActive := true })).futs.length =
        s.futs.length := by rw [futs_foldFlip]; simp
    split
    · exact w1.failSuspended b1 t (by rw [hlen]; exact ht) _
    · exact w1

theorem W.pauseContexts {s : State} (w : W s) (b : B s) (t : Nat) (ht : t < s.futs.length) :
    W (s.pauseContexts t) := by
  rw [pauseContexts_eq]
  split
  · exact w
  · simp only
    have w1 := w.flips false t (s.task t).ctxs.reverse
    have b1 := b.flips false t (s.task t).ctxs.reverse
    have hlen : ((s.task t).ctxs.reverse.foldl (flipOne false) (s.updTask t fun ts => { ts with ctxActive := false })).futs.length =
        s.futs.length := by rw [futs_foldFlip]; simp
    split
    · exact w1.failSuspended b1 t (by rw [hlen]; exact ht) _
    · exact w1

/-- `with c:` entered by the running task `t` (which is the active task): the new context is registered with `t` and
    its block is the innermost open block of `t` -/
theorem W.withCtx {s0 : State} (w : W s0) (t : Nat) (c : CtxKind) (bd k : Body) (hact : s0.active = some t)
    (ht : t < s0.futs.length) :
    W ((if c == .nonasync then newCtx s0 s0.ctxs.length t c
        else (newCtx s0 s0.ctxs.length t c).ctxResumeOne s0.ctxs.length).updTask t
          fun ts => { ts with conts := (s0.ctxs.length, k) :: ts.conts, body := bd }) := by
  rw [newCtx_eq s0 _ t c hact]
  generalize hY : ({ s0.emit (.ctxN s0.ctxs.length t c) with
      ctxs := s0.ctxs ++ [({ kind := c, owner := some t } : CtxSt)] } : State) = Y
  have hYf : Y.futs = s0.futs := by rw [← hY]; rfl
  generalize hn0 : Y.updTask t (fun ts => { ts with ctxs := ts.ctxs ++ [s0.ctxs.length] }) = n0
  have hn0f : n0.futs.length = s0.futs.length := by rw [← hn0]; simp [hYf]
  have hn0t : ∀ u, n0.task u = if u = t then { s0.task t with ctxs := (s0.task t).ctxs ++ [s0.ctxs.length] } else s0.task u := by
    intro u
    rw [← hn0, task_updTask]
    have e : ∀ v, Y.task v = s0.task v := fun v => by simp [State.task, State.fut, hYf]
    by_cases hu : u = t
    · subst hu; simp [hYf, ht, e]
    · simp [hu, e]
  generalize hX : (if c == .nonasync then n0 else n0.ctxResumeOne s0.ctxs.length) = X
  have hXt : ∀ u, X.task u = n0.task u := by
    intro u; rw [← hX]; split
    · rfl
    · exact (flagOp_resume n0 _).task u
  have hXf : X.futs = n0.futs := by
    rw [← hX]; split
    · rfl
    · exact (flagOp_resume n0 _).futs
  have hXlt : t < X.futs.length := by rw [hXf, hn0f]; exact ht
  have hrt : ∀ u, ((X.updTask t fun ts => { ts with conts := (s0.ctxs.length, k) :: ts.conts, body := bd }).task u) =
      if u = t then
        ({ s0.task t with ctxs := (s0.task t).ctxs ++ [s0.ctxs.length], conts := (s0.ctxs.length, k) :: (s0.task t).conts, body := bd } : TaskSt)
      else s0.task u := by
    intro u
    rw [task_updTask]
    by_cases hu : u = t
    · subst hu; simp [hXlt, hXt, hn0t]
    · simp [hu, hXt, hn0t]
  intro u c' h
  rw [hrt] at h ⊢
  by_cases hu : u = t
  · subst hu
    simp only [if_true, List.map_cons, List.mem_cons] at h
    simp only [if_true, List.mem_append, List.mem_singleton]
    rcases h with h | h
    · exact .inr h
    · exact .inl (w u c' h)
  · simp only [hu, if_false] at h ⊢
    exact w u c' h

/-- the end of the innermost with-block of the running task `t` -/
theorem W.endwith {s : State} (w : W s) (b : B s) (t cid : Nat) (k : Body) (cs : List (Nat × Body))
    (hconts : (s.task t).conts = (cid, k) :: cs) (hcn : ((s.task t).conts.map (·.1)).Nodup) :
    W ((s.ctxExit cid).updTask t fun ts => { ts with conts := cs, body := k }) := by
  obtain ⟨hk, _⟩ := b.ck t (by rw [hconts]; simp)
  have ht := lt_of_kind_task s t hk
  have hx := P12.hp_ctxExit s cid
  have hlt : t < (s.ctxExit cid).futs.length := Nat.lt_of_lt_of_le ht hx.len
  have hrc : ∀ u, (((s.ctxExit cid).updTask t fun ts => { ts with conts := cs, body := k }).task u).conts =
      if u = t then cs else (s.task u).conts := by
    intro u
    rw [task_updTask]
    by_cases hu : u = t
    · subst hu; simp [hlt]
    · simp [hu, conts_ctxExit]
  have hrx : ∀ u, (((s.ctxExit cid).updTask t fun ts => { ts with conts := cs, body := k }).task u).ctxs =
      ((s.ctxExit cid).task u).ctxs :=
    fun u => task_updTask_field _ t u (fun ts => { ts with conts := cs, body := k }) (·.ctxs) (fun _ => rfl)
  have hown := b.cown t cid (by rw [hconts]; simp)
  intro u c h
  rw [hrc] at h
  rw [hrx, ctxs_ctxExit]
  by_cases hu : u = t
  · subst hu
    rw [if_pos rfl] at h
    rw [if_pos hown]
    rw [hconts] at hcn
    simp only [List.map_cons, List.nodup_cons] at hcn
    have hne : c ≠ cid := fun e => hcn.1 (e ▸ h)
    have hm : c ∈ (s.task u).ctxs := w u c (by rw [hconts]; simp only [List.map_cons, List.mem_cons]; exact .inr h)
    exact (List.mem_erase_of_ne hne).2 hm
  · rw [if_neg hu] at h
    rw [if_neg]
    · exact w u c h
    · rintro ⟨x, hx', ho⟩
      obtain ⟨y, hy, hyo⟩ := hown
      rw [hx'] at hy
      injection hy with hy
      subst hy
      rw [ho] at hyo
      injection hyo with hyo
      exact hu hyo

theorem W_step {s : State} (i : I s) (pi : P2.PInv s) (co : P3.Core s) (b : B s) (w : W s)
    (hg : (step s).guardFired = false) : W (step s) := by
  have j := i.j
  cases P7.step_cases s pi.items co.raising with
  | neutral q _ _ => exact w.ofQ q
  | top f _ e => rw [e]; exact w.ofQ (P7.q_finishTop s f)
  | enterLoop _ _ _ _ q _ _ => exact w.ofQ q
  | pop _ _ _ _ _ _ _ _ _ q _ _ => exact w.ofQ q
  | suspend root base rest t stk hctl hst hlen hk hnc hsched e =>
    rw [e]
    have ht : t < s.futs.length := lt_of_kind_task s t hk
    have b1 : B (s.updTask t fun ts => { ts with depsSched := false }) := b.updTask t _ (fun _ => rfl) (fun _ => rfl)
    have w1 : W (s.updTask t fun ts => { ts with depsSched := false }) := w.updTask t _ (fun _ => rfl) (fun _ => rfl)
    exact W.of_eq (w1.pauseContexts b1 t (by simpa using ht)) rfl
  | visit root base rest t stk hctl hst hlen hk hnc hsched ds hds e =>
    rw [e]
    have ht : t < s.futs.length := lt_of_kind_task s t hk
    have b1 : B (s.updTask t fun ts => { ts with depsSched := true }) := b.updTask t _ (fun _ => rfl) (fun _ => rfl)
    have w1 : W (s.updTask t fun ts => { ts with depsSched := true }) := w.updTask t _ (fun _ => rfl) (fun _ => rfl)
    exact W.of_eq (w1.resumeContexts b1 t (by simpa using ht)) rfl
  | enterGen root base rest t stk hctl hst hlen hk hnc e =>
    rw [e]
    have ht : t < s.futs.length := lt_of_kind_task s t hk
    exact W.of_eq (w.resumeContexts b t ht) rfl
  | gen t old rest hctl _ _ g =>
    have hm : t ∈ P2.gens s.ctl := by rw [hctl]; simp [P2.gens]
    have hk := pi.genKind t hm
    have ht : t < s.futs.length := lt_of_kind_task s t hk
    have hact : s.active = some t := by
      have ha := co.active
      rw [hctl, gensOf_cons_gen] at ha
      exact (P3.activeChain_cons.1 ha).1
    cases g with
    | neutral q => exact w.ofQ q
    | withCtx c bd k s0 h0 e =>
      rw [e]
      have hs0 : s0.futs = s.futs ∧ s0.ctxs = s.ctxs ∧ s0.active = s.active := by
        rcases h0 with rfl | ⟨var, rfl⟩
        · exact ⟨rfl, rfl, rfl⟩
        · exact ⟨by simp, by simp, by simp⟩
      have w0 : W s0 := w.of_eq hs0.1
      have hlen : s.ctxs.length = s0.ctxs.length := by rw [hs0.2.1]
      rw [hlen]
      exact w0.withCtx t c bd k (by rw [hs0.2.2]; exact hact) (by rw [hs0.1]; exact ht)
    | endwith cid k cs hconts e =>
      rw [e]
      exact w.endwith b t cid k cs hconts (j.cnodup t)
    | finish o hnc' e =>
      rw [e]
      unfold State.leaveGen
      exact W.of_eq (W.updTask (w.exitComplete b t ht o) t (fun ts => { ts with depsSched := false })
        (fun _ => rfl) (fun _ => rfl)) rfl
  | guard hgf => rw [hgf] at hg; cases hg

theorem W_reach {s : State} (h : Reach s) (hg : s.guardFired = false) : W s := by
  induction h with
  | init cfg tops choices => exact W_init cfg tops choices
  | @step s hs ih =>
    have hg0 := P3.guard_mono s hg
    exact W_step (I_reach hs) (P2.pinv_reach hs) (P3.reach_core s hs hg0).1 (B_reach hs hg0) (ih hg0) hg

end AsynqModel.Core.P24
