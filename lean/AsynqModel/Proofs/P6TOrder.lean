import AsynqModel.Proofs.P6Main
/-
  P6T (property C03, start order), part 1: for a dict-free yielded structure `extract_futures` returns the leaves in
  reverse written order, so the first visit of the yielding task leaves them on the scheduler stack in WRITTEN order,
  the first on top.
-/
namespace AsynqModel.Core.P6T
open AsynqModel.Core AsynqModel.Core.P6

mutual
/-- the structure contains no dict (whose values `extract_futures` walks forwards) -/
def noDict : RY → Bool
  | .none => true
  | .junk => true
  | .f _ => true
  | .tup l => noDictList l
  | .lst l => noDictList l
  | .dict _ _ => false
def noDictList : List RY → Bool
  | [] => true
  | y :: ys => noDict y && noDictList ys
end

mutual
theorem extract_noDict : ∀ (y : RY), noDict y = true → extractFutures y = y.leaves.reverse
  | .none, _ => by simp [extractFutures, YS.leaves]
  | .junk, _ => by simp [extractFutures, YS.leaves]
  | .f r, _ => by simp [extractFutures, YS.leaves]
  | .tup l, h => by
    rw [noDict] at h; rw [extractFutures, YS.leaves]; exact extractRev_noDict l h
  | .lst l, h => by
    rw [noDict] at h; rw [extractFutures, YS.leaves]; exact extractRev_noDict l h
  | .dict _ _, h => by simp [noDict] at h
theorem extractRev_noDict : ∀ (l : List RY), noDictList l = true → extractRev l = (YS.leavesList l).reverse
  | [], _ => by simp [extractRev, YS.leavesList]
  | y :: ys, h => by
    rw [noDictList, Bool.and_eq_true] at h
    rw [extractRev, YS.leavesList, List.reverse_append, extract_noDict y h.1, extractRev_noDict ys h.2]
end

/-- the stack after the first visit of a blocked task, in terms of the state after `_resume_contexts` -/
theorem handleTask_first_stack (s : State) (t : Nat)
    (hbl : ((s.task t).deps.any fun d => !s.computed d) = true) (hfl : (s.task t).depsSched = false) :
    (s.handleTask t).stack =
      (((s.task t).deps.filter fun d =>
          !((s.updTask t fun ts => { ts with depsSched := true }).resumeContexts t).computed d).reverse) ++ s.stack := by
  unfold State.handleTask
  simp only [hbl, hfl, if_true, Bool.false_eq_true, if_false]
  have h := (P3.q_updTask (P := P3.N) s t fun ts => { ts with depsSched := true }).trans
    (P3.q_resumeContexts (s.updTask t fun ts => { ts with depsSched := true }) t)
  show _ ++ ((s.updTask t _).resumeContexts t).stack = _
  rw [h.stack]

/-- without NonAsyncContext `_resume_contexts` completes nothing -/
theorem handleTask_first_stack' (s : State) (t : Nat) (hn : NoNA s)
    (hbl : ((s.task t).deps.any fun d => !s.computed d) = true) (hfl : (s.task t).depsSched = false) :
    (s.handleTask t).stack = (((s.task t).deps.filter fun d => !s.computed d).reverse) ++ s.stack := by
  rw [handleTask_first_stack s t hbl hfl]
  congr 2
  apply List.filter_congr
  intro d _
  have hn1 : NoNA (s.updTask t fun ts => { ts with depsSched := true }) := hn
  rw [(eqv_resumeContexts _ t hn1).computed d]
  unfold State.computed State.out
  rw [fut_updTask]
  split
  · rename_i h; rw [h.1]
  · rfl

/-- C03 (start order), scheduler side: when a task that yielded the dict-free structure `y` (so that its
    dependencies are `extract_futures y`) is visited for the first time, the uncomputed futures of `y` are pushed
    in WRITTEN order, the first one on top of the stack: the LIFO loop of `_execute` starts them left to right. -/
theorem order_stack (s : State) (t : Nat) (y : RY) (hn : NoNA s) (hnd : noDict y = true)
    (hdeps : (s.task t).deps = extractFutures y)
    (hbl : ((s.task t).deps.any fun d => !s.computed d) = true) (hfl : (s.task t).depsSched = false) :
    (s.handleTask t).stack = (y.leaves.filter fun d => !s.computed d) ++ s.stack := by
  rw [handleTask_first_stack' s t hn hbl hfl, hdeps, extract_noDict y hnd, List.filter_reverse, List.reverse_reverse]

end AsynqModel.Core.P6T
